(* C19 — analytical error formulas equal exact expectations: property theorems only.
   All theorems hold for every ordered field F (executed instance Qc, real numbers R), every number of
   outcomes, every number of shots n >= 1 and every list of independent schedules; no bounds. *)
From Coq Require Import List Arith Lia QArith Qcanon.
From QV.Core Require Import OF Sums Mat QcOF.
From QV.Model Require Import Multinomial C19_Expect C19_ErrFormulas.
From QV.Proofs Require Import C19_Expect C19_ErrFormulas.
Import ListNotations.
Local Open Scope nat_scope.

(* ---- exact moments of the empirical distribution of n i.i.d. draws ---- *)
(* E[f_x] = p_x *)
Theorem C19_empirical_mean_exact : forall (F : OF) (m : nat) (p : nat -> F) (n x : nat),
  sumn m p = c1 F -> (x < m)%nat -> (1 <= n)%nat ->
  expect F m p n (fun s => freq F n s x) = p x.
Proof. exact expect_freq. Qed.
Print Assumptions C19_empirical_mean_exact.

(* E[(f_x - p_x)(f_y - p_y)] = (delta_xy p_x - p_x p_y)/n : calc_covariance_mat is the exact covariance *)
Theorem C19_covariance_exact : forall (F : OF) (m : nat) (p : nat -> F) (n x y : nat),
  sumn m p = c1 F -> (x < m)%nat -> (y < m)%nat -> (1 <= n)%nat ->
  expect F m p n (fun s => cmul F (dev F n p s x) (dev F n p s y)) = cov_mat F (of_nat F n) p x y.
Proof. exact cov_mat_exact. Qed.
Print Assumptions C19_covariance_exact.

(* independent schedules: the stacked empirical distributions are unbiased ... *)
Theorem C19_unbiased_total : forall (F : OF) (ss : list (sched F)) (i : nat),
  Forall (valid_sched F) ss -> expectL F ss (fun obs => dev_total F ss obs i) = c0 F.
Proof. exact expectL_dev. Qed.
Print Assumptions C19_unbiased_total.

(* ... and their covariance is the direct sum (block diagonal) computed by calc_covariance_mat_total *)
Theorem C19_covariance_total_exact : forall (F : OF) (ss : list (sched F)),
  Forall (valid_sched F) ss -> forall i j,
  expectL F ss (fun obs => cmul F (dev_total F ss obs i) (dev_total F ss obs j))
  = cov_total F (map (fun s : sched F => let '(m, p, n) := s in (m, of_nat F n, p)) ss) i j.
Proof. exact cov_total_exact. Qed.
Print Assumptions C19_covariance_total_exact.

(* direct sum: the blocks sit on the diagonal, everything else is zero *)
Theorem C19_direct_sum_block : forall (F : OF) bs1 s (M : @mat F) bs2 i j, (i < s)%nat -> (j < s)%nat ->
  dsum F (bs1 ++ (s, M) :: bs2) (dsum_size F bs1 + i) (dsum_size F bs1 + j) = M i j.
Proof. exact dsum_block. Qed.
Print Assumptions C19_direct_sum_block.
Theorem C19_direct_sum_offblock : forall (F : OF) bs1 s (M : @mat F) bs2 i j, (i < s)%nat ->
  (j < dsum_size F bs1 \/ dsum_size F bs1 + s <= j)%nat ->
  dsum F (bs1 ++ (s, M) :: bs2) (dsum_size F bs1 + i) j = c0 F /\
  dsum F (bs1 ++ (s, M) :: bs2) j (dsum_size F bs1 + i) = c0 F.
Proof. exact dsum_offblock. Qed.
Print Assumptions C19_direct_sum_offblock.

(* ---- E |M (f - p)|^2 = tr (M Sigma M^T) for EVERY matrix M (every affine estimator) ---- *)
Theorem C19_mse_linear_exact : forall (F : OF) (ss : list (sched F)) (k nr : nat) (M : @mat F),
  Forall (valid_sched F) ss ->
  expectL F ss (fun obs => dot k (mv nr M (dev_total F ss obs)) (mv nr M (dev_total F ss obs)))
  = mtrace k (conjugate F nr M (cov_of_scheds F ss)).
Proof. exact mse_linear_exact. Qed.
Print Assumptions C19_mse_linear_exact.

(* the linear estimate v^ = L (f - b) with the certificate L A = I, true probabilities A v + b:
   tr(L Sigma L^T) is the exact MSE of the estimated variables *)
Theorem C19_mse_var_exact : forall (F : OF) (nv nr : nat) (A L : @mat F) (b v : @vec F) (ss : list (sched F)),
  Forall (valid_sched F) ss -> meq nv nv (mmul nr L A) mid -> veq nr (p_total F ss) (affine F nv A b v) ->
  expectL F ss (fun obs => sqdist F nv (est F nr L b ss obs) v) = mse_var F nv nr L (cov_of_scheds F ss).
Proof. exact mse_var_exact. Qed.
Print Assumptions C19_mse_var_exact.

(* object parametrisation: entries implied by the variables as  c - S var  add  tr(S V S^T) *)
Theorem C19_mse_object_exact : forall (F : OF) (nv nr : nat) (A L : @mat F) (b v : @vec F) (ss : list (sched F)),
  Forall (valid_sched F) ss -> meq nv nv (mmul nr L A) mid -> veq nr (p_total F ss) (affine F nv A b v) ->
  forall (d2 : nat) (S : @mat F),
  expectL F ss (fun obs => object_sqerr F d2 nv S (vsub (est F nr L b ss obs) v))
  = mse_object_exact F d2 nv nr S L (cov_of_scheds F ss).
Proof. exact mse_object_exact_thm. Qed.
Print Assumptions C19_mse_object_exact.

(* ---- what StandardQTomography.calc_mse_linear_analytical computes (model of the code) ---- *)
(* mode = "var": exact for all four tomography types and both parametrisations *)
Theorem C19_tomo_mse_var_exact : forall (F : OF) (eps : F) (nv J m : nat) (A L : @mat F) (b v : @vec F) (n : nat -> nat),
  (0 < m)%nat ->
  (forall j, (j < J)%nat -> sumn m (fun x => affine F nv A b v (j * m + x)) = c1 F) ->
  (forall j x, (j < J)%nat -> (x < m)%nat ->
     affine F nv A b v (j * m + x) = c0 F \/ kle F eps (affine F nv A b v (j * m + x))) ->
  (forall j, (j < J)%nat -> (1 <= n j)%nat) ->
  meq nv nv (mmul (J * m) L A) mid ->
  forall (ty : ttype) (on_eq : bool) (d2 : nat),
  mse_linear_analytical F ty false on_eq d2 nv (J * m) L (tomo_cov_total F eps nv J m A b v (fun j => of_nat F (n j)))
  = expectL F (tomo_scheds F eps nv J m A b v n)
      (fun obs => sqdist F nv (est F (J * m) L b (tomo_scheds F eps nv J m A b v n) obs) v).
Proof. exact tomo_mse_var_exact. Qed.
Print Assumptions C19_tomo_mse_var_exact.

(* mode = "qoperation": exact for QST, POVMT (with the S = [I ... I] correction), QPT in both parametrisations
   and for QMPT without the equality constraint *)
Theorem C19_tomo_mse_qoperation_exact : forall (F : OF) (eps : F) (nv J m : nat) (A L : @mat F) (b v : @vec F) (n : nat -> nat),
  (0 < m)%nat ->
  (forall j, (j < J)%nat -> sumn m (fun x => affine F nv A b v (j * m + x)) = c1 F) ->
  (forall j x, (j < J)%nat -> (x < m)%nat ->
     affine F nv A b v (j * m + x) = c0 F \/ kle F eps (affine F nv A b v (j * m + x))) ->
  (forall j, (j < J)%nat -> (1 <= n j)%nat) ->
  meq nv nv (mmul (J * m) L A) mid ->
  forall (ty : ttype) (on_eq : bool) (d2 mo : nat), (ty = QMPT -> on_eq = false) ->
  mse_linear_analytical F ty true on_eq d2 nv (J * m) L (tomo_cov_total F eps nv J m A b v (fun j => of_nat F (n j)))
  = expectL F (tomo_scheds F eps nv J m A b v n)
      (fun obs => object_sqerr F d2 nv (implied_S F ty on_eq d2 mo)
                    (vsub (est F (J * m) L b (tomo_scheds F eps nv J m A b v n) obs) v)).
Proof. exact tomo_mse_qoperation_exact. Qed.
Print Assumptions C19_tomo_mse_qoperation_exact.

(* FULL statement (false of the faithful model): the same equation for ty = QMPT, on_eq = true.
   StandardQmpt does not override _calc_mse_linear_analytical_mode_qoperation, so the variance of the implied
   first row of the last HS matrix is missing.  Witness: the one-dimensional instance (d2 = 1) with two outcomes,
   one schedule, one shot: analytical 1/4, exact expectation 1/2. *)
Definition w_A : @mat Qc_OF := fun i _ => match i with O => 1%Qc | _ => (- (1))%Qc end.
Definition w_b : @vec Qc_OF := fun i => match i with O => 0%Qc | _ => 1%Qc end.
Definition w_v : @vec Qc_OF := fun _ => Q2Qc (1 # 2)%Q.
Definition w_L : @mat Qc_OF := fun _ j => match j with O => Q2Qc (1 # 2)%Q | _ => Q2Qc (- 1 # 2)%Q end.
Definition w_eps : Qc := Q2Qc (1 # 10000000000000)%Q.
Theorem C19_qmpt_qoperation_mse_refuted :
  exists (eps : Qc) (nv J m d2 mo : nat) (A L : @mat Qc_OF) (b v : @vec Qc_OF) (n : nat -> nat),
  (0 < m)%nat /\
  (forall j, (j < J)%nat -> sumn m (fun x => affine Qc_OF nv A b v (j * m + x)) = c1 Qc_OF) /\
  (forall j x, (j < J)%nat -> (x < m)%nat ->
     affine Qc_OF nv A b v (j * m + x) = c0 Qc_OF \/ kle Qc_OF eps (affine Qc_OF nv A b v (j * m + x))) /\
  (forall j, (j < J)%nat -> (1 <= n j)%nat) /\
  meq nv nv (mmul (J * m) L A) mid /\
  mse_linear_analytical Qc_OF QMPT true true d2 nv (J * m) L (tomo_cov_total Qc_OF eps nv J m A b v (fun j => of_nat Qc_OF (n j)))
  <> expectL Qc_OF (tomo_scheds Qc_OF eps nv J m A b v n)
       (fun obs => object_sqerr Qc_OF d2 nv (implied_S Qc_OF QMPT true d2 mo)
                     (vsub (est Qc_OF (J * m) L b (tomo_scheds Qc_OF eps nv J m A b v n) obs) v)).
Proof. exists w_eps, 1%nat, 1%nat, 2%nat, 1%nat, 2%nat, w_A, w_L, w_b, w_v, (fun _ => 1%nat).
  split; [lia|]. split. { intros j Hj. assert (j = O) by lia. subst. apply Qc_is_canon. vm_compute. reflexivity. }
  split. { intros j x Hj Hx. assert (j = O) by lia. subst. right.
           destruct x as [|[|x]]; [| |lia]; apply Qcleb_spec; vm_compute; reflexivity. }
  split; [intros; lia|].
  split. { intros i j Hi Hj. assert (i = O) by lia. assert (j = O) by lia. subst. apply Qc_is_canon. vm_compute. reflexivity. }
  intros H. apply (f_equal (fun q : Qc => Qeq_bool (this q) (1 # 4)%Q)) in H. vm_compute in H. discriminate H. Qed.
Print Assumptions C19_qmpt_qoperation_mse_refuted.

(* ---- MSE of the empirical distributions ---- *)
(* calc_mse_empi_dists_analytical = E sum_j |f_j - p_j|^2 ... *)
Theorem C19_tomo_mse_empi_exact : forall (F : OF) (eps : F) (nv J m : nat) (A : @mat F) (b v : @vec F) (n : nat -> nat),
  (0 < m)%nat ->
  (forall j, (j < J)%nat -> sumn m (fun x => affine F nv A b v (j * m + x)) = c1 F) ->
  (forall j x, (j < J)%nat -> (x < m)%nat ->
     affine F nv A b v (j * m + x) = c0 F \/ kle F eps (affine F nv A b v (j * m + x))) ->
  (forall j, (j < J)%nat -> (1 <= n j)%nat) ->
  mse_empi F eps nv J m A b v (fun j => of_nat F (n j))
  = expectL F (tomo_scheds F eps nv J m A b v n)
      (fun obs => dot (J * m) (dev_total F (tomo_scheds F eps nv J m A b v n) obs)
                              (dev_total F (tomo_scheds F eps nv J m A b v n) obs)).
Proof. exact tomo_mse_empi_exact. Qed.
Print Assumptions C19_tomo_mse_empi_exact.
(* ... = sum_j (1 - |p_j|^2) / n_j *)
Theorem C19_mse_empi_closed_form : forall (F : OF) eps nv J m (A : @mat F) (b v : @vec F) (ns : nat -> F),
  (forall j, (j < J)%nat -> sumn m (prob_dists F eps nv m A b v j) = c1 F) ->
  mse_empi F eps nv J m A b v ns = mse_empi_closed F eps nv J m A b v ns.
Proof. exact mse_empi_closed_eq. Qed.
Print Assumptions C19_mse_empi_closed_form.
Theorem C19_mse_empi_exact : forall (F : OF) (ss : list (sched F)), Forall (valid_sched F) ss ->
  expectL F ss (fun obs => dot (total_size F ss) (dev_total F ss obs) (dev_total F ss obs)) = mse_empi_scheds F ss.
Proof. exact mse_empi_exact. Qed.
Print Assumptions C19_mse_empi_exact.

(* ---- Fisher matrix ---- *)
(* replace_prob_dist changes nothing when every probability is at least eps (below eps it differs by design) *)
Theorem C19_replace_prob_dist_identity : forall (F : OF) (eps : F) (m : nat) (p : nat -> F) (x : nat),
  (forall y, (y < m)%nat -> kle F eps (p y)) -> (x < m)%nat -> replace_prob_dist F eps m p x = p x.
Proof. exact replace_id. Qed.
Print Assumptions C19_replace_prob_dist_identity.
(* the loop of calc_fisher_matrix = sum_x p_x s_x s_x^T = E[s s^T], s_x = grad p_x / p_x *)
Theorem C19_fisher_is_expected_score : forall (F : OF) (eps : F) (m : nat) (p : nat -> F) (G : @mat F) (a b : nat),
  (forall x, (x < m)%nat -> kle F eps (p x)) -> (forall x, (x < m)%nat -> p x <> c0 F) ->
  fisher_core F m (replace_prob_dist F eps m p) G a b
  = expect F m p 1 (fun s => cmul F (score F p G a (hd O s)) (score F p G b (hd O s))).
Proof. exact fisher_is_expected_score. Qed.
Print Assumptions C19_fisher_is_expected_score.
(* Fisher information of n independent shots = n x single-shot matrix (gradients of a normalised model sum to 0) *)
Theorem C19_fisher_n_draws : forall (F : OF) (m : nat) (p : nat -> F) (G : nat -> nat -> F) (a b n : nat),
  sumn m p = c1 F -> (forall x, (x < m)%nat -> p x <> c0 F) ->
  sumn m (fun x => G x a) = c0 F -> sumn m (fun x => G x b) = c0 F ->
  expect F m p n (fun s => cmul F (score_sum F p G a s) (score_sum F p G b s))
  = cmul F (of_nat F n) (fisher_core F m p G a b).
Proof. exact fisher_n_draws. Qed.
Print Assumptions C19_fisher_n_draws.
(* matrix_util.calc_fisher_matrix on valid input returns that matrix *)
Theorem C19_mu_fisher_ok : forall (F : OF) eps m (p : nat -> F) (G : @mat F),
  validate F eps true (map p (seq 0 m)) = MOk tt -> kleb F eps (c0 F) = false ->
  mu_fisher F eps m m p G = MOk (fisher_core F m (replace_prob_dist F eps m p) G).
Proof. exact mu_fisher_ok. Qed.
Print Assumptions C19_mu_fisher_ok.
(* FULL statement (false of the faithful model): matrix_util.calc_fisher_matrix_total returns sum_j w_j F_j on valid
   input.  The accumulator is allocated with the size of the distribution, so 3 outcomes / 2 variables raises. *)
Definition w_G : @mat Qc_OF := fun x a => match x, a with O, O => 1%Qc | 1%nat, 1%nat => 1%Qc | 2%nat, _ => (- (1))%Qc | _, _ => 0%Qc end.
Definition w_p : @vec Qc_OF := fun _ => Q2Qc (1 # 3)%Q.
Theorem C19_fisher_total_util_refuted :
  exists (eps : Qc) (m nv : nat) (items : list (Qc * @vec Qc_OF * @mat Qc_OF)),
    mu_fisher_total Qc_OF eps m nv items = MErr 7 /\
    Forall (fun it => let '(w, p, G) := it in
              kle Qc_OF (c0 Qc_OF) w /\ exists M, mu_fisher Qc_OF eps m m p G = MOk M) items.
Proof. exists (Q2Qc (1 # 100000000)%Q), 3%nat, 2%nat, [(1%Qc, w_p, w_G)]. split; [vm_compute; reflexivity|].
  constructor; [|constructor]. split; [apply Qcleb_spec; vm_compute; reflexivity|].
  assert (E : match mu_fisher Qc_OF (Q2Qc (1 # 100000000)%Q) 3 3 w_p w_G with MOk _ => true | MErr _ => false end = true)
    by (vm_compute; reflexivity).
  destruct (mu_fisher Qc_OF (Q2Qc (1 # 100000000)%Q) 3 3 w_p w_G) as [M|c]; [now exists M|discriminate E]. Qed.
Print Assumptions C19_fisher_total_util_refuted.

(* ---- Cramer-Rao bound and left inverse: the numerical kernels are pinned down by their certificates ---- *)
Theorem C19_inverse_unique : forall (F : OF) (n : nat) (Fm M M' : @mat F),
  meq n n (mmul n Fm M) mid -> meq n n (mmul n M' Fm) mid -> meq n n M' M.
Proof. exact inverse_unique. Qed.
Print Assumptions C19_inverse_unique.
Theorem C19_cr_bound_determined : forall (F : OF) (n : nat) (N : F) (Fm M M' : @mat F),
  meq n n (mmul n Fm M) mid -> meq n n (mmul n M' Fm) mid -> cr_var F n N M' = cr_var F n N M.
Proof. exact cr_var_unique. Qed.
Print Assumptions C19_cr_bound_determined.
Theorem C19_left_inv_normal_eq : forall (F : OF) (nv nr : nat) (A L : @mat F),
  meq nv nv (mmul nr L A) mid -> meq nr nr (mmul nv A L) (mT (mmul nv A L)) ->
  meq nv nr (mmul nr (mT A) (mmul nv A L)) (mT A).
Proof. exact left_inv_normal_eq. Qed.
Print Assumptions C19_left_inv_normal_eq.

(* ---- non-vacuity: two schedules with two outcomes, one variable, unequal shot numbers ---- *)
Definition ex_A : @mat Qc_OF := fun i _ => match i with O => 1%Qc | 1%nat => (- (1))%Qc | 2%nat => Q2Qc (1 # 2)%Q | _ => Q2Qc (- 1 # 2)%Q end.
Definition ex_b : @vec Qc_OF := fun i => match i with O => 0%Qc | 1%nat => 1%Qc | 2%nat => Q2Qc (1 # 4)%Q | _ => Q2Qc (3 # 4)%Q end.
Definition ex_v : @vec Qc_OF := fun _ => Q2Qc (1 # 3)%Q.
Definition ex_L : @mat Qc_OF := fun _ j => match j with O => Q2Qc (2 # 5)%Q | 1%nat => Q2Qc (- 2 # 5)%Q | 2%nat => Q2Qc (1 # 5)%Q | _ => Q2Qc (- 1 # 5)%Q end.
Definition ex_n : nat -> nat := fun j => match j with O => 2%nat | _ => 3%nat end.
Example C19_example_hypotheses :
  (forall j, (j < 2)%nat -> sumn 2 (fun x => affine Qc_OF 1 ex_A ex_b ex_v (j * 2 + x)) = c1 Qc_OF) /\
  (forall j x, (j < 2)%nat -> (x < 2)%nat -> kle Qc_OF w_eps (affine Qc_OF 1 ex_A ex_b ex_v (j * 2 + x))) /\
  (forall j, (j < 2)%nat -> (1 <= ex_n j)%nat) /\
  meq 1 1 (mmul (2 * 2) ex_L ex_A) mid.
Proof. split. { intros j Hj. destruct j as [|[|j]]; [| |lia]; apply Qc_is_canon; vm_compute; reflexivity. }
  split. { intros j x Hj Hx. destruct j as [|[|j]]; [| |lia]; (destruct x as [|[|x]]; [| |lia]); apply Qcleb_spec; vm_compute; reflexivity. }
  split. { intros j Hj. destruct j as [|[|j]]; cbn; lia. }
  intros i j Hi Hj. assert (i = O) by lia. assert (j = O) by lia. subst. apply Qc_is_canon. vm_compute. reflexivity. Qed.
(* on this instance the analytical value (both sides computed) is 11/450 *)
Example C19_example_value :
  mse_linear_analytical Qc_OF QST false true 4 1 (2 * 2) ex_L (tomo_cov_total Qc_OF w_eps 1 2 2 ex_A ex_b ex_v (fun j => of_nat Qc_OF (ex_n j)))
  = expectL Qc_OF (tomo_scheds Qc_OF w_eps 1 2 2 ex_A ex_b ex_v ex_n)
      (fun obs => sqdist Qc_OF 1 (est Qc_OF (2 * 2) ex_L ex_b (tomo_scheds Qc_OF w_eps 1 2 2 ex_A ex_b ex_v ex_n) obs) ex_v).
Proof. apply Qc_is_canon. vm_compute. reflexivity. Qed.
