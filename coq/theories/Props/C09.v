(* C09 — linear estimation inverts the forward model exactly: property theorems only.
   Notation: A is the m x n matrix calc_matA(), b = calc_vecB(), f the flattened data of one dataset, G = A^T A = gram m A,
   x = estimate m n M A b f = M A^T (f - b).  The ONLY hypothesis on M is the left-inverse certificate
   left_inverse_cert n M G  :=  M G = I on the n x n block  (checked exactly on every run for the M actually used);
   G M = I and M = M^T are consequences (theorem 1).  All theorems hold for every ordered field F (Qc executed, R). *)
From Coq Require Import ZArith QArith Qcanon List Bool Arith.
From QV.Core Require Import OF QcOF Sums Mat.
From QV.Model Require Import C09_LinEst C09_History C09_VarSem.
From QV.Proofs Require Import C09_LinEst C09_Rank C09_GJ C09_History C09_VarMaps C09_Witness.
Import ListNotations.

(* 1. the left-inverse certificate alone gives the two-sided inverse and its symmetry *)
Theorem C09_certificate_is_two_sided : forall (F : OF) m n (M A : @mat F),
  left_inverse_cert n M (gram m A) ->
  meq n n (mmul n (gram m A) M) mid /\ meq n n M (mT M).
Proof. intros F m n M A H. split.
  - exact (cert_right F n M (gram m A) (fun i j _ _ => gram_sym F m A i j) H).
  - exact (cert_symmetric F n M (gram m A) (fun i j _ _ => gram_sym F m A i j) H). Qed.
Print Assumptions C09_certificate_is_two_sided.

(* 2. normal equations: the prediction residual is orthogonal to the model, for EVERY data vector f *)
Theorem C09_normal_equations : forall (F : OF) m n (M A : @mat F) (b f : @vec F),
  left_inverse_cert n M (gram m A) ->
  veq n (mv m (mT A) (residual n A b f (estimate m n M A b f))) vzero.
Proof. intros F m n M A b f H. exact (normal_equations F m n M A H b f). Qed.
Print Assumptions C09_normal_equations.

(* 3. Pythagoras: for every competitor z,  |A z - y|^2 = |A x - y|^2 + |A (z - x)|^2   (y = f - b) *)
Theorem C09_pythagoras : forall (F : OF) m n (M A : @mat F) (b f z : @vec F),
  left_inverse_cert n M (gram m A) ->
  nrm2 m (residual n A b f z) =
  cadd F (nrm2 m (residual n A b f (estimate m n M A b f))) (nrm2 m (mv n A (vsub z (estimate m n M A b f)))).
Proof. intros F m n M A b f z H. exact (pythagoras F m n M A H b f z). Qed.
Print Assumptions C09_pythagoras.

(* 4. least squares: no variable vector predicts the data better than the estimate *)
Theorem C09_least_squares : forall (F : OF) m n (M A : @mat F) (b f z : @vec F),
  left_inverse_cert n M (gram m A) ->
  kle F (nrm2 m (residual n A b f (estimate m n M A b f))) (nrm2 m (residual n A b f z)).
Proof. intros F m n M A b f z H. exact (least_squares F m n M A H b f z). Qed.
Print Assumptions C09_least_squares.

(* 5. ... and it is the only one: whoever does at least as well IS the estimate *)
Theorem C09_least_squares_unique : forall (F : OF) m n (M A : @mat F) (b f z : @vec F),
  left_inverse_cert n M (gram m A) ->
  kle F (nrm2 m (residual n A b f z)) (nrm2 m (residual n A b f (estimate m n M A b f))) ->
  veq n z (estimate m n M A b f).
Proof. intros F m n M A b f z H. exact (least_squares_unique F m n M A H b f z). Qed.
Print Assumptions C09_least_squares_unique.

(* 6. the forward map is injective under the certificate:  |A w|^2 = 0  ->  w = 0 *)
Theorem C09_forward_map_injective : forall (F : OF) m n (M A : @mat F) (w : @vec F),
  left_inverse_cert n M (gram m A) -> nrm2 m (mv n A w) = c0 F -> veq n w vzero.
Proof. intros F m n M A w H. exact (nrm2_zero_injective F m n M A H w). Qed.
Print Assumptions C09_forward_map_injective.

(* 7. exact recovery, for EVERY variable vector v (physical or not): f = A v + b  ->  x = v *)
Theorem C09_exact_recovery : forall (F : OF) m n (M A : @mat F) (b f v : @vec F),
  left_inverse_cert n M (gram m A) -> veq m f (predict n A b v) -> veq n (estimate m n M A b f) v.
Proof. intros F m n M A b f v H. exact (exact_recovery F m n M A H b f v). Qed.
Print Assumptions C09_exact_recovery.

(* 8. the estimate does not depend on WHICH certified matrix is used (so it is a function of A, b, f alone) *)
Theorem C09_estimate_independent_of_inverse : forall (F : OF) m n (M M' A : @mat F) (b f : @vec F),
  left_inverse_cert n M (gram m A) -> left_inverse_cert n M' (gram m A) ->
  veq n (estimate m n M' A b f) (estimate m n M A b f).
Proof. intros F m n M M' A b f H H'. exact (estimate_cert_unique F m n M A H M' b f H'). Qed.
Print Assumptions C09_estimate_independent_of_inverse.

(* 9. end to end with the object layer abstract: exact data of ANY object o returns o
      (from_var / to_var are C03's maps; the forward-model hypothesis is C08's theorem) *)
Theorem C09_exact_data_returns_object : forall (F : OF) (Obj : Type) (from_var : @vec F -> Obj) (to_var : Obj -> @vec F)
  m n (M A : @mat F) (b f : @vec F) (o : Obj),
  (forall x y, veq n x y -> from_var x = from_var y) -> from_var (to_var o) = o ->
  left_inverse_cert n M (gram m A) -> veq m f (predict n A b (to_var o)) ->
  from_var (estimate m n M A b f) = o.
Proof. exact exact_data_returns_object. Qed.
Print Assumptions C09_exact_data_returns_object.

(* 10. the executable checks decide the certificates, and [solve] is sound whatever Gauss-Jordan returned *)
Theorem C09_certificate_check_decides : forall (F : OF) n (M G : @mat F),
  cert_okb n M G = true <-> left_inverse_cert n M G.
Proof. exact cert_okb_spec. Qed.
Print Assumptions C09_certificate_check_decides.

Theorem C09_solve_sound : forall (F : OF) m n (A : @mat F),
  (forall M, solve m n A = S_inv M -> left_inverse_cert n M (gram m A)) /\
  (forall w, solve m n A = S_ker w -> kernel_cert n (gram m A) w).
Proof. intros F m n A. split; [intros M; apply solve_inv_sound|intros w; apply solve_ker_sound]. Qed.
Print Assumptions C09_solve_sound.

(* 11. rank-deficient tester sets: a kernel certificate excludes every inverse, and exhibits two different
       variable vectors with identical exact data — no estimator can be right on both, the code must raise *)
Theorem C09_kernel_excludes_inverse : forall (F : OF) n (G M : @mat F) (w : @vec F),
  kernel_cert n G w -> ~ left_inverse_cert n M G.
Proof. exact kernel_no_inverse. Qed.
Print Assumptions C09_kernel_excludes_inverse.

Theorem C09_rank_deficient_unidentifiable : forall (F : OF) m n (A : @mat F) (b v w : @vec F),
  kernel_cert n (gram m A) w ->
  veq m (predict n A b (vadd v w)) (predict n A b v) /\ ~ veq n (vadd v w) v.
Proof. exact kernel_unidentifiable. Qed.
Print Assumptions C09_rank_deficient_unidentifiable.

(* 12. the estimator AS CODED: whenever it returns, it used a certified inverse and returned the estimate of each dataset *)
Theorem C09_coded_sound : forall (F : OF) m n (A : @mat F) (b : list F) (sq : list (dataset F)) xs,
  calc_estimate_sequence m n A b sq = E_ok xs ->
  exists M, left_inverse_cert n M (gram m A) /\ Forall2 (is_estimate_of F m n M A b) sq xs.
Proof. exact coded_sound. Qed.
Print Assumptions C09_coded_sound.

Theorem C09_coded_exact_recovery : forall (F : OF) m n (A : @mat F) (b : list F) (sq : list (dataset F)) xs (v : @vec F),
  calc_estimate_sequence m n A b sq = E_ok xs ->
  Forall2 (fun ds x => forall f, flat_ok F m ds f -> veq m (vofl f) (predict n A (vofl b) v) ->
                       length x = n /\ veq n (vofl x) v) sq xs.
Proof. exact coded_exact_recovery. Qed.
Print Assumptions C09_coded_exact_recovery.

(* 12b. ... and it returns exactly when the guard passes, an inverse is certified and every dataset stacks to m entries:
        at least one block, m entries in total — the block lengths (= outcome counts of the schedules) are NOT restricted *)
Theorem C09_coded_returns_iff : forall (F : OF) m n (A : @mat F) (b : list F) (sq : list (dataset F)),
  (exists xs, calc_estimate_sequence m n A b sq = E_ok xs) <->
  coded_guard m n A = true /\ (exists M, solve m n A = S_inv M) /\ Forall (fun ds => exists f, flat_ok F m ds f) sq.
Proof. exact coded_returns_iff. Qed.
Print Assumptions C09_coded_returns_iff.

Theorem C09_hstack_spec : forall (F : OF) (blocks : list (list F)) f,
  hstack blocks = Some f <-> blocks <> [] /\ f = concat blocks.
Proof. exact hstack_spec. Qed.
Print Assumptions C09_hstack_spec.

Theorem C09_flat_ok_iff : forall (F : OF) m (ds : dataset F) f,
  flat_ok F m ds f <-> ds <> [] /\ f = concat (map snd ds) /\ length (concat (map snd ds)) = m.
Proof. exact flat_ok_iff. Qed.
Print Assumptions C09_flat_ok_iff.

(* 12c. tester sets with unequal outcome counts (repair linear-estimator-unequal-outcome-counts): whatever the block
        lengths, the estimator returns the certified estimate of the concatenated data of every dataset *)
Theorem C09_coded_returns_any_block_lengths : forall (F : OF) m n (A M : @mat F) (b : list F) (sq : list (dataset F)),
  coded_guard m n A = true -> solve m n A = S_inv M ->
  Forall (fun ds => ds <> [] /\ length (concat (map snd ds)) = m) sq ->
  calc_estimate_sequence m n A b sq = E_ok (map (fun ds => one_estimate m n M A b (concat (map snd ds))) sq).
Proof. exact coded_returns_any_block_lengths. Qed.
Print Assumptions C09_coded_returns_any_block_lengths.

(* 12d. the repaired guard (repair fullrank-guard-column-rank): a tester set with fewer rows than variables never
        passes, the estimator raises for it — whatever the data *)
Theorem C09_fullrank_guard_rejects_wide : forall (F : OF) m n (A : @mat F), (m < n)%nat -> coded_guard m n A = false.
Proof. exact guard_rejects_wide. Qed.
Print Assumptions C09_fullrank_guard_rejects_wide.

Theorem C09_wide_tester_set_raises : forall (F : OF) m n (A : @mat F) (b : list F) (sq : list (dataset F)),
  (m < n)%nat -> calc_estimate_sequence m n A b sq = E_guard.
Proof. exact wide_raises_guard. Qed.
Print Assumptions C09_wide_tester_set_raises.

(* 12e. the repaired guard is SOUND (all sizes, every ordered field): a tester set that passes it has an injective
        forward map, so two variable vectors with the same exact data are equal, A^T A has no kernel certificate, and the
        estimator never runs np.linalg.inv on an exactly singular matrix.
        [rank_of] (exact pivot count) stands for np.linalg.matrix_rank; the two are tied by the correspondence only. *)
Theorem C09_fullrank_guard_sound : forall (F : OF) m n (A : @mat F),
  coded_guard m n A = true -> forall w, veq m (mv n A w) vzero -> veq n w vzero.
Proof. exact guard_sound. Qed.
Print Assumptions C09_fullrank_guard_sound.

Theorem C09_passing_guard_identifiable : forall (F : OF) m n (A : @mat F) (b v v' : @vec F),
  coded_guard m n A = true -> veq m (predict n A b v) (predict n A b v') -> veq n v v'.
Proof. exact guard_identifiable. Qed.
Print Assumptions C09_passing_guard_identifiable.

Theorem C09_fullrank_guard_excludes_kernel : forall (F : OF) m n (A : @mat F) (w : @vec F),
  coded_guard m n A = true -> ~ kernel_cert n (gram m A) w.
Proof. exact guard_excludes_kernel. Qed.
Print Assumptions C09_fullrank_guard_excludes_kernel.

Theorem C09_never_singular : forall (F : OF) m n (A : @mat F) (b : list F) (sq : list (dataset F)),
  calc_estimate_sequence m n A b sq <> E_singular.
Proof. exact never_singular. Qed.
Print Assumptions C09_never_singular.

(* 12f. (round 3, Proofs/C09_GJ.v) Gauss-Jordan as used by the model is COMPLETE, so nothing about the inverse is left to
        the run: on every n x n matrix it returns a matrix passing the left-inverse certificate or a vector passing the
        kernel certificate; [solve] never fails and answers S_inv exactly when the kernel is trivial; the repaired guard
        passes EXACTLY when A^T A is invertible (this closes the former C09_fullrank_guard_invertible_partial); the
        estimator never reaches its "internal" branch and returns exactly when the guard passes and the data have m
        entries; the guard raises only when two different variable vectors have identical exact data. *)
Theorem C09_gauss_jordan_correct : forall (F : OF) n (G : @mat F),
  match gj n (lrows n n G) with
  | GJ_inv _ rows => left_inverse_cert n (mofr rows) G
  | GJ_ker _ w => kernel_cert n G (vofl w)
  end.
Proof. exact gj_correct. Qed.
Print Assumptions C09_gauss_jordan_correct.

Theorem C09_solve_complete : forall (F : OF) m n (A : @mat F), solve m n A <> S_fail.
Proof. exact solve_complete. Qed.
Print Assumptions C09_solve_complete.

Theorem C09_solve_inv_iff_no_kernel : forall (F : OF) m n (A : @mat F),
  (exists M, solve m n A = S_inv M) <-> (forall w, ~ kernel_cert n (gram m A) w).
Proof. exact solve_inv_iff_no_kernel. Qed.
Print Assumptions C09_solve_inv_iff_no_kernel.

Theorem C09_rank_deficient_has_kernel : forall (F : OF) m n (A : @mat F),
  (rank_of m n A < n)%nat -> exists w, kernel_cert n (gram m A) w.
Proof. exact rank_deficient_gram_kernel. Qed.
Print Assumptions C09_rank_deficient_has_kernel.

Theorem C09_fullrank_guard_iff_solve : forall (F : OF) m n (A : @mat F),
  coded_guard m n A = true <-> exists M, solve m n A = S_inv M.
Proof. exact guard_iff_solve. Qed.
Print Assumptions C09_fullrank_guard_iff_solve.

Theorem C09_fullrank_guard_iff_invertible : forall (F : OF) m n (A : @mat F),
  coded_guard m n A = true <-> exists M, left_inverse_cert n M (gram m A).
Proof. exact guard_iff_invertible. Qed.
Print Assumptions C09_fullrank_guard_iff_invertible.

Theorem C09_never_internal : forall (F : OF) m n (A : @mat F) (b : list F) (sq : list (dataset F)),
  calc_estimate_sequence m n A b sq <> E_internal.
Proof. exact never_internal. Qed.
Print Assumptions C09_never_internal.

Theorem C09_coded_returns_iff_guard : forall (F : OF) m n (A : @mat F) (b : list F) (sq : list (dataset F)),
  (exists xs, calc_estimate_sequence m n A b sq = E_ok xs) <->
  coded_guard m n A = true /\ Forall (fun ds => ds <> [] /\ length (concat (map snd ds)) = m) sq.
Proof. exact coded_returns_iff_guard. Qed.
Print Assumptions C09_coded_returns_iff_guard.

Theorem C09_guard_raises_only_when_unidentifiable : forall (F : OF) m n (A : @mat F) (b v : @vec F),
  coded_guard m n A = false ->
  exists v' : @vec F, veq m (predict n A b v') (predict n A b v) /\ ~ veq n v' v.
Proof. exact guard_false_unidentifiable. Qed.
Print Assumptions C09_guard_raises_only_when_unidentifiable.

(* 12g. THE PROPERTY in its own words, for the estimator as coded, without any hypothesis about an inverse:
        informationally complete tester set (the guard passes) + in every dataset the exact outcome distributions of v
        (any outcome counts per schedule)  ->  the estimator returns one estimate per dataset, each equal to v *)
Theorem C09_complete_tester_set_recovers : forall (F : OF) m n (A : @mat F) (b : list F) (sq : list (dataset F)) (v : @vec F),
  coded_guard m n A = true ->
  Forall (fun ds => ds <> [] /\ length (concat (map snd ds)) = m /\
                    veq m (vofl (concat (map snd ds))) (predict n A (vofl b) v)) sq ->
  exists xs, calc_estimate_sequence m n A b sq = E_ok xs /\ length xs = length sq /\
             Forall (fun x => length x = n /\ veq n (vofl x) v) xs.
Proof. exact complete_tester_set_recovers. Qed.
Print Assumptions C09_complete_tester_set_recovers.

(* 13. estimating a sequence of datasets = estimating each dataset alone (both directions; no state is threaded) *)
Theorem C09_sequence_is_map : forall (F : OF) m n (A : @mat F) (b : list F) (sq : list (dataset F)) xs,
  calc_estimate_sequence m n A b sq = E_ok xs ->
  Forall2 (fun ds x => calc_estimate m n A b ds = E_ok [x] /\ estimated_var [x] = x) sq xs.
Proof. exact sequence_is_map_var. Qed.
Print Assumptions C09_sequence_is_map.

Theorem C09_map_is_sequence : forall (F : OF) m n (A : @mat F) (b : list F) (sq : list (dataset F)) xs,
  sq <> [] -> Forall2 (fun ds x => calc_estimate m n A b ds = E_ok [x]) sq xs ->
  calc_estimate_sequence m n A b sq = E_ok xs.
Proof. exact map_is_sequence. Qed.
Print Assumptions C09_map_is_sequence.

(* 13b. ONE estimator object serving a HISTORY of jobs (any tomographies — i.e. any (m, n, matA, vecB) — and any data, in
        any order; Model/C09_History.v threads the object's state, which is empty in the code, explicitly):
        the results are the results of the jobs on fresh objects; the result of a job does not depend on its position or
        on the other jobs; exact data of v return v at any position of any history.  Tied to the code by the sub-check
        `history` (every result of a re-used estimator object vs [run_job] of that job alone). *)
Theorem C09_history_is_map : forall (F : OF) (st : est_state) (jobs : list (job F)),
  run_history st jobs = map run_job jobs.
Proof. exact history_is_map. Qed.
Print Assumptions C09_history_is_map.

Theorem C09_history_position_independent : forall (F : OF) (st : est_state) (pre post : list (job F)) (j : job F),
  nth_error (run_history st (pre ++ j :: post)) (length pre) = Some (run_job j).
Proof. exact history_position_independent. Qed.
Print Assumptions C09_history_position_independent.

Theorem C09_history_same_job_same_result : forall (F : OF) (st st' : est_state) (pre post pre' post' : list (job F)) (j : job F),
  nth_error (run_history st (pre ++ j :: post)) (length pre) =
  nth_error (run_history st' (pre' ++ j :: post')) (length pre').
Proof. exact history_same_job_same_result. Qed.
Print Assumptions C09_history_same_job_same_result.

Theorem C09_history_exact_recovery : forall (F : OF) (st : est_state) (pre post : list (job F)) (j : job F) xs (v : @vec F),
  nth_error (run_history st (pre ++ j :: post)) (length pre) = Some (E_ok xs) ->
  Forall2 (fun ds x => forall f, flat_ok F (j_m j) ds f -> veq (j_m j) (vofl f) (predict (j_n j) (j_A j) (vofl (j_b j)) v) ->
                       length x = j_n j /\ veq (j_n j) (vofl x) v) (j_sq j) xs.
Proof. exact history_exact_recovery. Qed.
Print Assumptions C09_history_exact_recovery.

(* 13c. the result is a function of the CONTENTS of matA (its m x n entries), vecB and the data, not of the object that
        supplies them: entrywise equal matA -> identical results, error branches included *)
Theorem C09_estimate_function_of_contents : forall (F : OF) m n (A A' : @mat F) (b : list F) (sq : list (dataset F)),
  meq m n A A' -> calc_estimate_sequence m n A b sq = calc_estimate_sequence m n A' b sq.
Proof. exact calc_estimate_sequence_ext. Qed.
Print Assumptions C09_estimate_function_of_contents.

(* 13d. the OBJECT defined by estimated variables (measurement process, equality constraint parametrised away), for every
        number of outcomes m and every block size d2 (= dim^2): the model ref_hss_stacked — proved equal, on every run, to the
        index logic REGENERATED from mprocess.convert_var_to_hss (coq/gen/C09_VarEquiv.v) — has m full Hilbert-Schmidt
        blocks, keeps the variables (deleting the d2 reconstructed entries gives var back) and satisfies the constraint
        (the first rows of the m blocks add up to e_0).  So estimated_qoperation carries exactly estimated_var. *)
Theorem C09_object_from_var_mprocess : forall (F : OF) d2 m (var : list F), (0 < d2)%nat -> (1 <= m)%nat ->
  length var = (d2 * d2 * (m - 1) + (d2 * d2 - d2))%nat ->
  let r := ref_hss_stacked d2 m var in
  length r = (d2 * d2 * m)%nat /\
  firstn (d2 * d2 * (m - 1)) r ++ skipn (d2 * d2 * (m - 1) + d2) r = var /\
  first_rows_sum d2 (d2 * d2) m r = e0 d2.
Proof. exact ref_hss_spec. Qed.
Print Assumptions C09_object_from_var_mprocess.

(* 13e. the same for an estimated POVM: k given elements, the (k+1)-th is  sd e_0 - their sum  (sd stands for sqrt(dim)):
        k+1 elements, the variables are kept, and the elements add up to  sd e_0  (the identity), for every k and d2 *)
Theorem C09_object_from_var_povm : forall (F : OF) d2 k (sd : F) (var : list F), (0 < d2)%nat -> length var = (d2 * k)%nat ->
  let r := ref_vecs_stacked d2 (k + 1) sd var in
  length r = (d2 * (k + 1))%nat /\ firstn (d2 * k) r = var /\
  sum_axis0 d2 (chunk d2 (k + 1) r) = sd :: np_zeros (d2 - 1).
Proof. exact ref_vecs_spec. Qed.
Print Assumptions C09_object_from_var_povm.

(* 14. the sample counts attached to the data do not influence the result (values and error branches alike).
       In the model the counts ARE an argument (first component of every pair), as in the code. *)
Theorem C09_sample_counts_irrelevant : forall (F : OF) m n (A : @mat F) (b : list F) (sq sq' : list (dataset F)),
  map (map snd) sq = map (map snd) sq' ->
  calc_estimate_sequence m n A b sq = calc_estimate_sequence m n A b sq'.
Proof. exact counts_irrelevant. Qed.
Print Assumptions C09_sample_counts_irrelevant.

(* 15. REFUTED for the code AS IT WAS BEFORE fix fullrank-guard-column-rank (finding C09-1; definitions
       coded_guard_before_fix / calc_estimate_before_fix in Model/C09_LinEst.v; the harness does NOT compare with these).
       Wanted:  forall m n A, guard m n A = true -> exists M, left_inverse_cert n M (gram m A)
       i.e. "whatever passes is_fullrank_matA can be inverted".  False for rank == min(matA.shape): a wide A (fewer rows
       than variables) of full ROW rank passes while A^T A is singular.  For the repaired guard see 12d, 12e. *)
Theorem C09_fullrank_guard_before_fix_refuted : exists (m n : nat) (A : @mat Qc_OF) (b : list Qc) (ds : dataset Qc_OF),
  coded_guard_before_fix m n A = true /\ (forall M, ~ left_inverse_cert n M (gram m A)) /\
  calc_estimate_before_fix m n A b ds = E_singular.
Proof. exact guard_refuted. Qed.
Print Assumptions C09_fullrank_guard_before_fix_refuted.

(* 16. REFUTED for the code AS IT WAS BEFORE fix linear-estimator-unequal-outcome-counts (finding C09-2).  Wanted: with a
       certified inverse and the exact data of v, the estimator returns v.  False for np.vstack(...).flatten() when the
       schedules have unequal outcome counts: np.vstack raises.  For the repaired code see 12c and the example below. *)
Theorem C09_mixed_outcome_counts_before_fix_refuted : exists (m n : nat) (A M : @mat Qc_OF) (b : list Qc) (v : @vec Qc_OF) (ds : dataset Qc_OF),
  left_inverse_cert n M (gram m A) /\ coded_guard_before_fix m n A = true /\
  length (concat (map snd ds)) = m /\
  veq m (vofl (F:=Qc_OF) (concat (map snd ds))) (predict n A (vofl (F:=Qc_OF) b) v) /\
  calc_estimate_before_fix m n A b ds = E_stack.
Proof. exact mixed_counts_refuted. Qed.
Print Assumptions C09_mixed_outcome_counts_before_fix_refuted.

(* the repair only adds behaviour: wherever the old stacking was defined the new one returns the same vector *)
Theorem C09_hstack_extends_vstack : forall (F : OF) (blocks : list (list F)) f,
  vstack_flatten blocks = Some f -> hstack blocks = Some f.
Proof. exact hstack_extends_vstack. Qed.
Print Assumptions C09_hstack_extends_vstack.

(* ---- non-vacuity: the hypotheses are satisfiable on a concrete asymmetric instance (5 x 2, blocks of 3 and 2 rows) *)
Example C09_example_certificate : left_inverse_cert 2 exM (gram 5 exA).
Proof. exact ex_cert. Qed.
Example C09_example_exact_data : veq 5 (vofl (F:=Qc_OF) exf) (predict 2 exA (vofl (F:=Qc_OF) exb) exv).
Proof. exact ex_exact_data. Qed.
Example C09_example_recovered : veq 2 (estimate 5 2 exM exA (vofl (F:=Qc_OF) exb) (vofl (F:=Qc_OF) exf)) exv.
Proof. exact (C09_exact_recovery Qc_OF 5 2 exM exA _ _ exv ex_cert ex_exact_data). Qed.
Example C09_example_solve_finds_inverse : match solve (F:=Qc_OF) 5 2 exA with S_inv _ => True | _ => False end.
Proof. exact ex_solve. Qed.
Example C09_example_coded_returns : exists xs, calc_estimate_sequence (F:=Qc_OF) 4 2 exA2 exb2 exsq2 = E_ok xs /\ length xs = 2%nat.
Proof. exact ex_coded_ok. Qed.
(* the two inputs that refuted the old code, through the repaired model: unequal outcome counts (3 and 2) with exact data
   return the true variables; the wide 1 x 2 tester set raises at the guard *)
Example C09_example_mixed_counts_fixed : exists x, calc_estimate (F:=Qc_OF) 5 2 exA exb exds = E_ok [x] /\ length x = 2%nat /\ veq 2 (vofl (F:=Qc_OF) x) exv.
Proof. exact ex_mixed_fixed. Qed.
Example C09_example_wide_fixed : calc_estimate (F:=Qc_OF) 1 2 wA [q 0 1] [(1%Z, [q 1 1])] = E_guard.
Proof. exact ex_wide_fixed. Qed.
(* the hypothesis of 12e is satisfiable: the 5 x 2 instance passes the repaired guard *)
Example C09_example_guard_passes : coded_guard (F:=Qc_OF) 5 2 exA = true.
Proof. exact ex_guard. Qed.
(* a history on concrete data: the unequal-counts job between two wide (raising) jobs still returns its own result *)
Example C09_example_history :
  nth_error (run_history (F:=Qc_OF) tt [mkJob 1 2 wA [q 0 1] [[(1%Z, [q 1 1])]]; mkJob 5 2 exA exb [exds]; mkJob 1 2 wA [q 0 1] [[(1%Z, [q 1 1])]]]) 1
  = Some (run_job (mkJob 5 2 exA exb [exds])).
Proof. exact (C09_history_position_independent Qc_OF tt [mkJob 1 2 wA [q 0 1] [[(1%Z, [q 1 1])]]] [mkJob 1 2 wA [q 0 1] [[(1%Z, [q 1 1])]]] (mkJob 5 2 exA exb [exds])). Qed.
(* 13d is not vacuous: d2 = 2, m = 3, ten variables (2 full blocks of 4 + the last block without its first row of 2) *)
Example C09_example_object_from_var :
  length (repeat (q 1 3) 10) = (2 * 2 * (3 - 1) + (2 * 2 - 2))%nat /\
  length (ref_hss_stacked (F:=Qc_OF) 2 3 (repeat (q 1 3) 10)) = 12%nat.
Proof. split; vm_compute; reflexivity. Qed.
