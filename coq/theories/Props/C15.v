(* C15 — Monte-Carlo simulations are reproducible with independent repetitions: property theorems only. *)
From Coq Require Import ZArith QArith Qcanon List Lia Bool.
From QV.Core Require Import OF QcOF Sums Mat Cplx Psd.
From QV.Model Require Import QObj HermEmbed C15_Dataflow C15_PhysCheck C15_Depol C15_PySem.
From QV.Proofs Require Import C15_Dataflow C15_PhysCheck C15_Depol C15_DepolPsd C15_InstrCP C15_Example C15_PySem.
Import ListNotations.
Local Open Scope nat_scope.

(* ================= (1) seed dataflow =================
   The model is the code WITH the three repairs of /verif/fixes (c15-execute-simulation-int-seed-stream,
   c15-flow-generation-stream-per-setting, c15-execute-estimation-private-copies); the harness compares exactly these
   definitions (single_keys, qop_key, data_key, run_private) with the implementation.  Definitions and theorems named
   *_before_fix describe the code as it was before the named repair. *)

(* joblib.Parallel: whatever order / partition over workers the tasks are executed in (every task at least once),
   the caller sees  [task 0; ...; task (n-1)]  *)
Theorem C15_par_exec_schedule_irrelevant : forall (A : Type) (d : A) n order (task : nat -> A),
  covers n order -> par_exec d n order task = map task (seq 0 n).
Proof. exact @par_exec_schedule_irrelevant. Qed.
Print Assumptions C15_par_exec_schedule_irrelevant.

(* the flow entry point with its four nested parallel levels: for EVERY schedule at every level the assembled
   results are the directly written result map (objects per sample, data per (sample, repetition),
   estimates per (sample, case, repetition)); any counts *)
Theorem C15_flow_exec_spec : forall (Obj Data Est : Type) (dObj : Obj) (dData : Data) (dEst : Est)
  (gen_obj : nat -> genkey -> Obj) (gen_data : Obj -> list Obj -> key -> Data) (estimate : nat -> Obj -> list Obj -> Data -> Est)
  c o, orders_cover c o ->
  flow_exec dObj dData dEst gen_obj gen_data estimate c o = flow_spec gen_obj gen_data estimate c.
Proof. exact @flow_exec_spec. Qed.
Print Assumptions C15_flow_exec_spec.

(* ... hence the whole result (objects, data, estimates) is a function of the configuration (settings + seeds) alone:
   the degree of parallelism / the schedules do not matter, for EVERY mix of noise methods (no hypothesis on c) *)
Theorem C15_flow_deterministic : forall (Obj Data Est : Type) (dObj : Obj) (dData : Data) (dEst : Est)
  (gen_obj : nat -> genkey -> Obj) (gen_data : Obj -> list Obj -> key -> Data) (estimate : nat -> Obj -> list Obj -> Data -> Est)
  c o o', orders_cover c o -> orders_cover c o' ->
  flow_exec dObj dData dEst gen_obj gen_data estimate c o = flow_exec dObj dData dEst gen_obj gen_data estimate c o'.
Proof. exact @flow_deterministic. Qed.
Print Assumptions C15_flow_deterministic.

(* re-estimating from the STORED data and objects of (sample s, repetition r) reproduces the stored estimate of case k *)
Theorem C15_flow_reestimate : forall (Obj Data Est : Type) (dObj : Obj) (dData : Data) (dEst : Est)
  (gen_obj : nat -> genkey -> Obj) (gen_data : Obj -> list Obj -> key -> Data) (estimate : nat -> Obj -> list Obj -> Data -> Est)
  c o s k r, orders_cover c o -> (s < f_n_sample c)%nat -> (k < f_n_case c)%nat -> (r < f_n_rep c)%nat ->
  let res := nth s (flow_exec dObj dData dEst gen_obj gen_data estimate c o) (d_sample dObj) in
  nth r (nth k (r_est res) []) dEst = estimate k (r_true res) (r_testers res) (nth r (r_data res) dData).
Proof. exact @flow_reestimate. Qed.
Print Assumptions C15_flow_reestimate.

(* SeedSequence.spawn: children are pairwise distinct; so are all leaves of a spawn tree of any depth / counts *)
Theorem C15_spawn_keys_distinct : forall root parent n, NoDup (spawn root parent n).
Proof. exact spawn_NoDup. Qed.
Print Assumptions C15_spawn_keys_distinct.

Theorem C15_spawn_tree_leaves_distinct : forall counts, NoDup (spawn_paths counts).
Proof. exact spawn_paths_NoDup. Qed.
Print Assumptions C15_spawn_tree_leaves_distinct.

(* the flow's repetitions draw from pairwise distinct spawned streams, any n_rep *)
Theorem C15_flow_data_keys_distinct : forall c, NoDup (map (data_key c) (seq 0 (f_n_rep c))).
Proof. exact flow_data_keys_distinct. Qed.
Print Assumptions C15_flow_data_keys_distinct.

(* object generation: no two (sample, object) pairs share a stream position, whatever the mix of noise methods *)
Theorem C15_flow_qop_keys_distinct : forall c s j s' j' k,
  qop_key c s j = GKey k -> qop_key c s' j' = GKey k -> s = s' /\ j = j'.
Proof. exact flow_qop_keys_distinct. Qed.
Print Assumptions C15_flow_qop_keys_distinct.

(* every object is deterministic or drawn from the sample's spawned stream - never the process-global stream, never an
   error - and every setting that needs randomness gets the stream *)
Theorem C15_flow_qop_key_seeded : forall c s j,
  qop_key c s j = GNoRandom \/ exists off, qop_key c s j = GKey (KSeed (f_seed_qop c) [s] off).
Proof. exact flow_qop_key_seeded. Qed.
Print Assumptions C15_flow_qop_key_seeded.
Theorem C15_flow_qop_key_random_gets_stream : forall c s j, seeded_at c j = true -> exists k, qop_key c s j = GKey k.
Proof. exact flow_qop_key_random_gets_stream. Qed.
Print Assumptions C15_flow_qop_key_random_gets_stream.

(* single-setting entry point: for EVERY kind of seed argument (None -> seed_data or np.random, int, Generator) and any
   n_rep the repetitions draw from pairwise distinct positions of one stream ... *)
Theorem C15_single_keys_distinct : forall arg seed_data n_rep, NoDup (single_keys arg seed_data n_rep).
Proof. exact single_keys_distinct. Qed.
Print Assumptions C15_single_keys_distinct.
(* ... and with a seed (argument or seed_data) that stream is determined by the seed, so the run is reproducible *)
Theorem C15_single_keys_seeded : forall arg seed_data n_rep, (arg <> SNone \/ seed_data <> None) ->
  forallb key_seeded (single_keys arg seed_data n_rep) = true.
Proof. exact single_keys_seeded. Qed.
Print Assumptions C15_single_keys_seeded.
(* every stored estimate is the estimator applied to the stored data of the same repetition *)
Theorem C15_single_run_reestimate : forall (Data Est : Type) (gen_data : key -> Data) (estimate : Data -> Est)
  (dflt : Data * Est) arg seed_data n_rep r, (r < n_rep)%nat ->
  snd (nth r (single_run gen_data estimate arg seed_data n_rep) dflt) = estimate (fst (nth r (single_run gen_data estimate arg seed_data n_rep) dflt)).
Proof. exact @single_run_reestimate. Qed.
Print Assumptions C15_single_run_reestimate.

(* estimation tasks mutate the loss / algo objects they are handed (set data, then optimise).  With a private copy per
   task every interleaving that respects each task's own order lets every task optimise over ITS data *)
Theorem C15_private_copies_race_free : forall sched seen regs,
  program_order seen sched = true -> (forall t, In t seen -> regs t = Some t) -> all_own (run_private regs sched).
Proof. exact private_copies_race_free. Qed.
Print Assumptions C15_private_copies_race_free.

(* the same at the level of loss OBJECTS (the vocabulary of the translated execute_estimation, coq/gen/C15_Equiv.v): tasks are handed
   object references; when every task that occurs loads its data into its own object, every program-ordered interleaving is race free *)
Theorem C15_run_objs_private_race_free : forall reg_of sched seen regs,
  (forall s, In s sched -> reg_of (step_task s) = Some (step_task s)) ->
  program_order seen sched = true -> (forall t, In t seen -> regs (Some t) = Some t) ->
  all_own (run_objs reg_of regs sched).
Proof. exact run_objs_private_race_free. Qed.
Print Assumptions C15_run_objs_private_race_free.

(* ---------- the code as it was before the repairs (findings/C15-1.md, -2.md, -3.md): the property was FALSE ---------- *)

(* the repairs change nothing where the old code was right: Generator / ambient argument and repetition 0 (single);
   homogeneous noise methods (flow) *)
Theorem C15_single_key_fix_conservative : forall s rep, (forall n, s <> SInt n) \/ rep = 0%nat -> single_key s rep = single_key_before_fix s rep.
Proof. exact single_key_fix_conservative. Qed.
Print Assumptions C15_single_key_fix_conservative.
Theorem C15_flow_qop_key_fix_conservative : forall c amb s j, (j <= length (f_tester_seeded c))%nat ->
  forallb (fun b => Bool.eqb b (f_true_seeded c)) (f_tester_seeded c) = true ->
  qop_key c s j = qop_key_before_fix c amb s j.
Proof. exact flow_qop_key_fix_conservative. Qed.
Print Assumptions C15_flow_qop_key_fix_conservative.

(* before fix c15-execute-simulation-int-seed-stream, int seed (explicit or the setting's seed_data by default): ALL
   repetitions were identical, whatever the data generator and the estimator are (DESIGN section 4, #15) *)
Theorem C15_single_run_int_seed_identical_before_fix : forall (Data Est : Type) (gen_data : key -> Data) (estimate : Data -> Est)
  (dflt : Data * Est) arg seed n_rep i j,
  resolve_seed arg (Some seed) = SInt seed -> (i < n_rep)%nat -> (j < n_rep)%nat ->
  nth i (single_run_before_fix gen_data estimate arg (Some seed) n_rep) dflt = nth j (single_run_before_fix gen_data estimate arg (Some seed) n_rep) dflt.
Proof. exact @single_run_int_seed_identical_before_fix. Qed.
Print Assumptions C15_single_run_int_seed_identical_before_fix.
Theorem C15_execute_simulation_repetitions_identical_before_fix_refuted :
  exists (arg : seedarg) (seed_data : option Z) (n_rep : nat), (2 <= n_rep)%nat /\ ~ NoDup (single_keys_before_fix arg seed_data n_rep).
Proof. exact execute_simulation_repetitions_identical_before_fix_refuted. Qed.
Print Assumptions C15_execute_simulation_repetitions_identical_before_fix_refuted.

(* before fix c15-flow-generation-stream-per-setting: deterministic true-object noise + random tester noise -> the testers
   were drawn from the ambient stream (objects not a function of settings and seeds); the converse mix raised *)
Theorem C15_flow_tester_generation_unseeded_before_fix_refuted :
  exists (c : flowcfg) (s j a a' : nat), qop_key_before_fix c a s j <> qop_key_before_fix c a' s j.
Proof. exact flow_tester_generation_unseeded_before_fix_refuted. Qed.
Print Assumptions C15_flow_tester_generation_unseeded_before_fix_refuted.
Theorem C15_flow_mixed_generation_raises_before_fix : forall c t, f_true_seeded c = true -> (t < length (f_tester_seeded c))%nat ->
  nth t (f_tester_seeded c) false = false -> flow_raises_before_fix c = true /\ forall amb s, qop_key_before_fix c amb s (S t) = GTypeError.
Proof. exact flow_mixed_generation_raises_before_fix. Qed.
Print Assumptions C15_flow_mixed_generation_raises_before_fix.

(* before fix c15-execute-estimation-private-copies: with ONE shared object (joblib's threading backend) there is an
   interleaving in which a task optimises over another task's data; executed one after the other it was fine *)
Theorem C15_shared_object_thread_race_before_fix_refuted :
  exists sched, program_order [] sched = true /\ ~ all_own (run_shared_before_fix None sched).
Proof. exact shared_object_thread_race_before_fix_refuted. Qed.
Print Assumptions C15_shared_object_thread_race_before_fix_refuted.
Theorem C15_shared_object_sequential_ok_before_fix : forall order reg,
  all_own (run_shared_before_fix reg (concat (map (fun t => [SetData t; Optimize t]) order))).
Proof. exact shared_object_sequential_ok_before_fix. Qed.
Print Assumptions C15_shared_object_sequential_ok_before_fix.

(* ================= (3) the built-in physicality check ================= *)

(* for every estimator kind, parametrisation, algo flags, any number of repetitions / sample sizes (at least one each):
   the check returns a verdict, and it FAILS iff some stored estimate violates, beyond its threshold, a constraint the
   estimator was configured to enforce *)
Theorem C15_check_fails_iff : forall (F : OF) (th : thresholds F) c (ests : list (list (est F))) n para,
  ests <> [] -> (0 < n)%nat -> rectangular F ests n -> uniform_para F ests para ->
  exists b, check F th c ests n = Some b /\
    (b = false <-> exists r i e, get F ests r i = Some e /\ violates F th c para e = true).
Proof. exact check_fails_iff. Qed.
Print Assumptions C15_check_fails_iff.

(* the IndexError branches *)
Theorem C15_check_raises_on_no_results : forall (F : OF) (th : thresholds F) c n,
  check F th c [] n = None <->
  (k_kind c = EProjLinear /\ (0 < n)%nat) \/ k_kind c = ELinear \/ (k_kind c = ELossMin /\ k_has_option c = true /\ k_algo_eq c = true).
Proof. exact check_raises_on_no_results. Qed.
Print Assumptions C15_check_raises_on_no_results.

(* ================= (2) depolarising noise ================= *)

(* what the code computes (composition with diag(1,1-p,...,1-p)) IS the stated mixture; any number n of basis elements *)
Theorem C15_depol_state_is_mixture : forall (F : OF) n p v a, (a < n)%nat -> depol_state F n p v a = mix_vec F p v a.
Proof. exact depol_state_is_mixture. Qed.
Print Assumptions C15_depol_state_is_mixture.
Theorem C15_depol_povm_elem_is_mixture : forall (F : OF) n p v b, (b < n)%nat -> depol_povm_elem F n p v b = mix_vec F p v b.
Proof. exact depol_povm_elem_is_mixture. Qed.
Print Assumptions C15_depol_povm_elem_is_mixture.
Theorem C15_depol_gate_is_mixture : forall (F : OF) n p HS a b, (a < n)%nat -> depol_gate F n p HS a b = mix_hs F p HS a b.
Proof. exact depol_gate_is_mixture. Qed.
Print Assumptions C15_depol_gate_is_mixture.

(* the SIDE of the composition: the theorem above is about  D_p o G  (hs_dp @ hs, noise AFTER the gate) and holds for EVERY
   HS matrix - non-unital, non-trace-preserving, non-symmetric.  The other side  G o D_p  coincides with the mixture for unital
   trace-preserving G (all unitary gates), and is NOT the mixture for a non-unital trace-preserving G (replacement channel, p = 1) *)
Theorem C15_depol_gate_wrong_side_unital_tp : forall (F : OF) n p HS a b, (a < n)%nat -> (b < n)%nat ->
  hs_tp F n HS -> hs_unital F n HS -> depol_gate_wrong_side F n p HS a b = mix_hs F p HS a b.
Proof. exact depol_gate_wrong_side_unital_tp. Qed.
Print Assumptions C15_depol_gate_wrong_side_unital_tp.
Theorem C15_depol_gate_wrong_side_refuted : forall (F : OF),
  exists (n : nat) (p : F) (HS : rmat F) (a b : nat), hs_tp F n HS /\ kle F (c0 F) p /\ kle F p (c1 F) /\ (a < n)%nat /\ (b < n)%nat /\
    depol_gate_wrong_side F n p HS a b <> mix_hs F p HS a b /\ depol_gate F n p HS a b = mix_hs F p HS a b.
Proof. exact depol_gate_wrong_side_refuted. Qed.
Print Assumptions C15_depol_gate_wrong_side_refuted.

(* operator level, any dimension d, any basis with B_0 = I/sd (sd^2 = d) and traceless B_a (a > 0):
   rho' = (1-p) rho + p tr(rho) I/d ;  E_x' = (1-p) E_x + p tr(E_x) I/d ;  G'(X) = (1-p) G(X) + p tr(G(X)) I/d for EVERY X *)
Theorem C15_depol_state_operator : forall (F : OF) d sd dF (B : nat -> cmat F),
  (0 < d)%nat -> dF = ones F d -> cmul F sd sd = dF -> basis_0th_identity d sd B -> basis_rest_traceless F d B ->
  forall p v i j, (i < d)%nat -> (j < d)%nat ->
  op_of_vec d B (depol_state F (d * d) p v) i j = D_op F d dF p (op_of_vec d B v) i j.
Proof. exact depol_state_operator. Qed.
Print Assumptions C15_depol_state_operator.
Theorem C15_depol_povm_elem_operator : forall (F : OF) d sd dF (B : nat -> cmat F),
  (0 < d)%nat -> dF = ones F d -> cmul F sd sd = dF -> basis_0th_identity d sd B -> basis_rest_traceless F d B ->
  forall p v i j, (i < d)%nat -> (j < d)%nat ->
  op_of_vec d B (depol_povm_elem F (d * d) p v) i j = D_op F d dF p (op_of_vec d B v) i j.
Proof. exact depol_povm_elem_operator. Qed.
Print Assumptions C15_depol_povm_elem_operator.
Theorem C15_depol_gate_operator : forall (F : OF) d sd dF (B : nat -> cmat F),
  (0 < d)%nat -> dF = ones F d -> cmul F sd sd = dF -> basis_0th_identity d sd B -> basis_rest_traceless F d B ->
  forall p HS x i j, (i < d)%nat -> (j < d)%nat ->
  op_of_vec d B (mv (d * d) (depol_gate F (d * d) p HS) x) i j = D_op F d dF p (op_of_vec d B (mv (d * d) HS x)) i j.
Proof. exact depol_gate_operator. Qed.
Print Assumptions C15_depol_gate_operator.

(* the equality constraints survive: unit trace, trace preservation (gate; sum over the outcomes of an instrument),
   POVM completeness — any rate p *)
Theorem C15_depol_state_unit_trace : forall (F : OF) n sd p v,
  (0 < n)%nat -> vec_unit_trace F sd v -> vec_unit_trace F sd (depol_state F n p v).
Proof. exact depol_state_unit_trace. Qed.
Print Assumptions C15_depol_state_unit_trace.
Theorem C15_depol_gate_tp : forall (F : OF) n p HS, (0 < n)%nat -> hs_tp F n HS -> hs_tp F n (depol_gate F n p HS).
Proof. exact depol_gate_tp. Qed.
Print Assumptions C15_depol_gate_tp.
Theorem C15_depol_mprocess_sum_tp : forall (F : OF) n p HSs,
  (0 < n)%nat -> hs_tp F n (hs_sum F HSs) -> hs_tp F n (hs_sum F (depol_mprocess F n p HSs)).
Proof. exact depol_mprocess_sum_tp. Qed.
Print Assumptions C15_depol_mprocess_sum_tp.
Theorem C15_depol_povm_complete : forall (F : OF) n sd p vs,
  (0 < n)%nat -> povm_complete F n sd vs -> povm_complete F n sd (depol_povm F n p vs).
Proof. exact depol_povm_complete. Qed.
Print Assumptions C15_depol_povm_complete.

(* positivity survives for 0 <= p <= 1 (PSD as quadratic form of the real symmetric embedding; convexity) *)
Theorem C15_depol_state_psd : forall (F : OF) d sd dF (B : nat -> cmat F),
  (0 < d)%nat -> dF = ones F d -> cmul F sd sd = dF -> basis_0th_identity d sd B -> basis_rest_traceless F d B -> basis_hermitian d B ->
  forall p v, kle F (c0 F) p -> kle F p (c1 F) ->
  PSD F (d + d) (embed F d (op_of_vec d B v)) -> PSD F (d + d) (embed F d (op_of_vec d B (depol_state F (d * d) p v))).
Proof. exact depol_state_psd. Qed.
Print Assumptions C15_depol_state_psd.
Theorem C15_depol_povm_elem_psd : forall (F : OF) d sd dF (B : nat -> cmat F),
  (0 < d)%nat -> dF = ones F d -> cmul F sd sd = dF -> basis_0th_identity d sd B -> basis_rest_traceless F d B -> basis_hermitian d B ->
  forall p v, kle F (c0 F) p -> kle F p (c1 F) ->
  PSD F (d + d) (embed F d (op_of_vec d B v)) -> PSD F (d + d) (embed F d (op_of_vec d B (depol_povm_elem F (d * d) p v))).
Proof. exact depol_povm_elem_psd. Qed.
Print Assumptions C15_depol_povm_elem_psd.
(* complete positivity (Choi matrix PSD) of a trace-preserving gate *)
Theorem C15_depol_gate_cp : forall (F : OF) d sd dF (B : nat -> cmat F),
  (0 < d)%nat -> dF = ones F d -> cmul F sd sd = dF -> basis_0th_identity d sd B ->
  forall p HS, hs_tp F (d * d) HS -> kle F (c0 F) p -> kle F p (c1 F) ->
  PSD F (d * d + d * d) (embed F (d * d) (choi_of_hs d B HS)) ->
  PSD F (d * d + d * d) (embed F (d * d) (choi_of_hs d B (depol_gate F (d * d) p HS))).
Proof. exact depol_gate_cp. Qed.
Print Assumptions C15_depol_gate_cp.
(* ... and of EVERY single outcome of an instrument (not trace preserving by itself): the trace-functional part
   X |-> tr(G_x(X)) I/d of a CP map is CP (its Choi matrix is (1/d) I (x) tr_out(Choi G_x); partial trace of a PSD matrix
   is PSD, I (x) M is PSD) - proved in Proofs/C15_InstrCP.v; no trace-preservation hypothesis *)
Theorem C15_depol_instrument_cp : forall (F : OF) d sd dF (B : nat -> cmat F),
  (0 < d)%nat -> dF = ones F d -> cmul F sd sd = dF -> basis_0th_identity d sd B -> basis_rest_traceless F d B ->
  forall p HS, kle F (c0 F) p -> kle F p (c1 F) ->
  PSD F (d * d + d * d) (embed F (d * d) (choi_of_hs d B HS)) ->
  PSD F (d * d + d * d) (embed F (d * d) (choi_of_hs d B (depol_gate F (d * d) p HS))).
Proof. exact depol_instrument_cp. Qed.
Print Assumptions C15_depol_instrument_cp.
(* all outcomes of a depolarised MProcess *)
Theorem C15_depol_mprocess_cp : forall (F : OF) d sd dF (B : nat -> cmat F),
  (0 < d)%nat -> dF = ones F d -> cmul F sd sd = dF -> basis_0th_identity d sd B -> basis_rest_traceless F d B ->
  forall p HSs, kle F (c0 F) p -> kle F p (c1 F) ->
  Forall (fun HS => PSD F (d * d + d * d) (embed F (d * d) (choi_of_hs d B HS))) HSs ->
  Forall (fun HS => PSD F (d * d + d * d) (embed F (d * d) (choi_of_hs d B HS))) (depol_mprocess F (d * d) p HSs).
Proof. exact depol_mprocess_cp. Qed.
Print Assumptions C15_depol_mprocess_cp.

(* non-vacuity *)
Example C15_example_flow_cfg :
  let c := {| f_seed_qop := 888; f_seed_data := 777; f_n_sample := 2; f_n_rep := 3; f_n_case := 3;
              f_true_seeded := true; f_tester_seeded := [true; true; true] |} in
  orders_cover c (serial c) /\
  covers 3 [2; 0; 2; 1] /\ par_exec 0%nat 3 [2; 0; 2; 1] (fun i => (10 + i)%nat) = [10; 11; 12]%nat /\
  qop_key c 1 2 = GKey (KSeed 888 [1%nat] 2) /\ data_key c 2 = KSeed 777 [2%nat] 0 /\
  (* mixed noise methods: true object deterministic, testers 0 and 2 random: stream positions 0 and 1 of the sample's stream *)
  (let c' := {| f_seed_qop := 888; f_seed_data := 777; f_n_sample := 2; f_n_rep := 3; f_n_case := 3;
                f_true_seeded := false; f_tester_seeded := [true; false; true] |} in
   map (qop_key c' 1) [0; 1; 2; 3]%nat = [GNoRandom; GKey (KSeed 888 [1%nat] 0); GNoRandom; GKey (KSeed 888 [1%nat] 1)]) /\
  single_keys SNone (Some 5%Z) 3 = [KSeed 5 [] 0; KSeed 5 [] 1; KSeed 5 [] 2] /\
  single_keys_before_fix SNone (Some 5%Z) 3 = [KSeed 5 [] 0; KSeed 5 [] 0; KSeed 5 [] 0] /\
  spawn_paths [2; 3]%nat = [[0;0];[0;1];[0;2];[1;0];[1;1];[1;2]]%nat.
Proof. cbn. repeat split; try reflexivity; try (intros; apply covers_seq).
  intros i Hi. destruct i as [|[|[|i]]]; cbn; auto; lia. Qed.

(* decision table: a projected-linear run with one estimate 5e-4 below zero (what the unchanged code produces) fails,
   and the witness is that estimate *)
Example C15_example_check :
  let th := Build_thresholds Qc_OF (Q2Qc (1 # 10000000000000)) (Q2Qc (1 # 100000)) (Q2Qc (1 # 100000)) in
  let ok := Build_est Qc_OF true 0%Qc 0%Qc in
  let bad := Build_est Qc_OF true 0%Qc (Q2Qc (5 # 10000)) in
  let ests := [[ok; ok]; [bad; ok]; [ok; ok]] in
  let c := {| k_kind := EProjLinear; k_has_option := false; k_algo_eq := false; k_algo_ineq := false |} in
  ests <> [] /\ rectangular Qc_OF ests 2 /\ uniform_para Qc_OF ests true /\
  check Qc_OF th c ests 2 = Some false /\ get Qc_OF ests 1 0 = Some bad /\ violates Qc_OF th c true bad = true /\
  check Qc_OF th {| k_kind := ELinear; k_has_option := false; k_algo_eq := false; k_algo_ineq := false |} ests 2 = Some true.
Proof. cbn zeta. split; [discriminate|]. split; [repeat constructor|]. split; [repeat constructor|].
  repeat split; vm_compute; reflexivity. Qed.

(* depolarising: the exactly rational normalised 2-qubit Pauli basis (d = 4, sd = 2) satisfies every basis hypothesis,
   rho = (II + ZZ)/4 is a (rank-2, boundary) state, so its depolarised version with p = 1/3 is PSD by the theorem *)
Example C15_example_depol :
  (0 < 4)%nat /\ four = ones Qc_OF 4 /\ cmul Qc_OF two two = four /\
  @basis_0th_identity Qc_OF 4 two pauli2 /\ basis_rest_traceless Qc_OF 4 pauli2 /\ @basis_hermitian Qc_OF 4 pauli2 /\
  PSD Qc_OF (4 + 4) (embed Qc_OF 4 (op_of_vec 4 pauli2 v_zz)) /\ vec_unit_trace Qc_OF two v_zz /\
  PSD Qc_OF (4 + 4) (embed Qc_OF 4 (op_of_vec 4 pauli2 (depol_state Qc_OF (4 * 4) (Q2Qc (1 # 3)) v_zz))).
Proof.
  assert (H4 : four = ones Qc_OF 4) by (apply qeqb_spec; vm_compute; reflexivity).
  assert (H2 : cmul Qc_OF two two = four) by (apply qeqb_spec; vm_compute; reflexivity).
  repeat split; try assumption; try lia.
  - exact pauli2_0th_identity. - exact pauli2_rest_traceless. - exact pauli2_hermitian. - exact v_zz_psd.
  - apply qeqb_spec. vm_compute. reflexivity.
  - apply (C15_depol_state_psd Qc_OF 4 two four pauli2); try assumption; try lia.
    + exact pauli2_0th_identity. + exact pauli2_rest_traceless. + exact pauli2_hermitian.
    + apply Qcleb_spec. vm_compute. reflexivity. + apply Qcleb_spec. vm_compute. reflexivity.
    + exact v_zz_psd. Qed.

(* an instrument outcome that is NOT trace preserving (G(X) = tr(X)/2 * I/4 on two qubits, HS = 1/2 at (0,0)): it is CP,
   so its depolarised version (p = 1/3) is CP by C15_depol_instrument_cp - C15_depol_gate_cp would not apply *)
Example C15_example_instrument :
  ~ hs_tp Qc_OF (4 * 4) hs00 /\
  PSD Qc_OF (4 * 4 + 4 * 4) (embed Qc_OF (4 * 4) (choi_of_hs 4 pauli2 hs00)) /\
  PSD Qc_OF (4 * 4 + 4 * 4) (embed Qc_OF (4 * 4) (choi_of_hs 4 pauli2 (depol_gate Qc_OF (4 * 4) (Q2Qc (1 # 3)) hs00))).
Proof.
  assert (H4 : four = ones Qc_OF 4) by (apply qeqb_spec; vm_compute; reflexivity).
  assert (H2 : cmul Qc_OF two two = four) by (apply qeqb_spec; vm_compute; reflexivity).
  split; [|split].
  - intros H. specialize (H 0%nat). cbn in H. assert (E : Q2Qc (1 # 2) = 1%Qc) by (apply H; lia). discriminate E.
  - exact hs00_cp.
  - apply (C15_depol_instrument_cp Qc_OF 4 two four pauli2); try assumption; try lia.
    + exact pauli2_0th_identity. + exact pauli2_rest_traceless.
    + apply Qcleb_spec. vm_compute. reflexivity. + apply Qcleb_spec. vm_compute. reflexivity.
    + exact hs00_cp. Qed.

(* object level: two tasks with private copies (loss_register of [fresh; fresh]) vs one shared object, same witness interleaving *)
Example C15_example_run_objs :
  let fresh := {| t_estimator := OFresh; t_loss := OFresh; t_algo := OFresh |} in
  let shared := {| t_estimator := OFresh; t_loss := OShared; t_algo := OFresh |} in
  let sched := [SetData 0; SetData 1; Optimize 0; Optimize 1]%nat in
  (forall s, In s sched -> loss_register [fresh; fresh] (step_task s) = Some (step_task s)) /\ program_order [] sched = true /\
  run_objs (loss_register [fresh; fresh]) (fun _ => None) sched = [(0, Some 0); (1, Some 1)]%nat /\
  run_objs (loss_register [shared; shared]) (fun _ => None) sched = [(0, Some 1); (1, Some 1)]%nat.
Proof. cbn zeta. split; [|repeat split].
  intros s [<-|[<-|[<-|[<-|[]]]]]; reflexivity. Qed.

(* a shared loss object and two threads: the witness interleaving; private copies give each task its own data *)
Example C15_example_race :
  run_shared_before_fix None [SetData 0; SetData 1; Optimize 0; Optimize 1]%nat = [(0, Some 1); (1, Some 1)]%nat /\
  run_private (fun _ => None) [SetData 0; SetData 1; Optimize 0; Optimize 1]%nat = [(0, Some 0); (1, Some 1)]%nat.
Proof. split; reflexivity. Qed.
