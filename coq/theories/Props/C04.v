(* C04 — equality / inequality projections are nearest-point projections: property theorems only.
   Models: Model/C04_Proj.v (equality projections as coded, var <-> object conversions, constraint sets),
           Model/C04_Cert.v (the executable certificate check run on every inequality projection).
   Everything is generic in the ordered field F (so it holds for Qc, which is executed, and for R) and axiom-free. *)
From Coq Require Import Arith Bool QArith Qcanon.
From QV.Core Require Import OF QcOF Sums Mat Cplx Psd C04_ProjCert.
From QV.Model Require Import QObj HermEmbed C04_Proj C04_Cert C04_Heap C04_EigClip.
From QV.Proofs Require Import C02_Conv C04_Proj C04_ObjVar C04_Herm C04_Heap C04_EigClip C04_Params.
From Coq Require Import Lia.

(* "P is the nearest-point projection onto the set A, w.r.t. the Euclidean norm of the first L entries":
   lands in A; displacement orthogonal to the direction space of A; Pythagoras; nearest; the ONLY nearest point;
   idempotent; identity on A. *)
Local Notation nearest_point_projection F L A P :=
  ((forall x, A (P x)) /\
   (forall x z z', A z -> A z' -> dot L (vsub (P x) x) (vsub z z') = c0 F) /\
   (forall x z, A z -> vdist2 L x z = cadd F (vdist2 L x (P x)) (vdist2 L (P x) z)) /\
   (forall x z, A z -> kle F (vdist2 L x (P x)) (vdist2 L x z)) /\
   (forall x z, A z -> kle F (vdist2 L x z) (vdist2 L x (P x)) -> veq L z (P x)) /\
   (forall x, veq L (P (P x)) (P x)) /\
   (forall x, A x -> veq L (P x) x)).

(* ------------------------------------------------------------------ general facts *)
(* any map that lands in a set and whose displacement is orthogonal to the set's direction space is the nearest-point
   projection onto it (Pythagoras; any dimension, any ordered field) *)
Theorem C04_affine_nearest : forall (F : OF) (L : nat) (A : @vec F -> Prop) (P : @vec F -> @vec F),
  (forall x, A (P x)) ->
  (forall x z z', A z -> A z' -> dot L (vsub (P x) x) (vsub z z') = c0 F) ->
  nearest_point_projection F L A P.
Proof. exact package. Qed.
Print Assumptions C04_affine_nearest.

(* ------------------------------------------------------------------ equality projections, as coded, all d and m *)
(* State: vec[0] := 1/sqrt d ; constraint set { v | v_0 = 1/sd } *)
Theorem C04_state_eq_proj_nearest : forall (F : OF) (sd : F) (n : nat),
  nearest_point_projection F n (state_eq_ok F sd) (state_proj_eq F sd).
Proof. exact state_eq_proj_nearest. Qed.
Print Assumptions C04_state_eq_proj_nearest.

(* Povm: vec_x - mean + [sd/m,0,..] on the stacked vector ; constraint set { sum_x vec_x = [sd,0,..,0] } *)
Theorem C04_povm_eq_proj_nearest : forall (F : OF) (sd : F) (m n : nat), (0 < m)%nat -> (0 < n)%nat ->
  nearest_point_projection F (m * n)%nat
    (fun s => povm_eq_ok F sd m n (povm_unstack F n s))
    (fun s => povm_stack F n (povm_proj_eq F sd m (povm_unstack F n s))).
Proof. exact povm_eq_proj_nearest. Qed.
Print Assumptions C04_povm_eq_proj_nearest.

(* Gate: first HS row := e0 on hs.flatten() ; constraint set { first row = e0 } *)
Theorem C04_gate_eq_proj_nearest : forall (F : OF) (n : nat), (0 < n)%nat ->
  nearest_point_projection F (n * n)%nat
    (fun s => gate_eq_ok F n (gate_unstack F n s))
    (fun s => gate_stack F n (gate_proj_eq F (gate_unstack F n s))).
Proof. exact gate_eq_proj_nearest. Qed.
Print Assumptions C04_gate_eq_proj_nearest.

(* MProcess: spread the first-row defect over the outcomes ; constraint set { sum_x first row of hs_x = e0 } *)
Theorem C04_mprocess_eq_proj_nearest : forall (F : OF) (m n : nat), (0 < m)%nat -> (0 < n)%nat ->
  nearest_point_projection F (m * (n * n))%nat
    (fun s => mp_eq_ok F m n (mp_unstack F n s))
    (fun s => mp_stack F n (mp_proj_eq F m (mp_unstack F n s))).
Proof. exact mp_eq_proj_nearest. Qed.
Print Assumptions C04_mprocess_eq_proj_nearest.

(* ------------------------------------------------------------------ object level = variable level, both flags *)
(* (a) P_var flag w = to_var flag (P_obj (from_var flag w)) for every variable vector (State, Gate: the code takes a short cut;
       Povm, MProcess: the code is literally this composition, the statement is kept for uniformity);
   (b) to_var flag (P_obj o) = P_var flag (to_var flag o) for every object;
   (c) flag = true: P_var is the identity *)
Theorem C04_state_obj_var : forall (F : OF) (flag : bool) (sd : F),
  (forall w k, state_proj_eq_var F flag sd w k = state_vec_to_var F flag (state_proj_eq F sd (state_var_to_vec F flag sd w)) k) /\
  (forall v k, state_vec_to_var F flag (state_proj_eq F sd v) k = state_proj_eq_var F flag sd (state_vec_to_var F flag v) k) /\
  (forall w k, state_proj_eq_var F true sd w k = w k).
Proof. intros F flag sd. split; [|split]; intros; [apply state_obj_var_a|apply state_obj_var_b|reflexivity]. Qed.
Print Assumptions C04_state_obj_var.

Theorem C04_gate_obj_var : forall (F : OF) (flag : bool) (n : nat), (0 < n)%nat ->
  (forall w k, gate_proj_eq_var F flag n w k = gate_hs_to_var F flag n (gate_proj_eq F (gate_var_to_hs F flag n w)) k) /\
  (forall H k, gate_hs_to_var F flag n (gate_proj_eq F H) k = gate_proj_eq_var F flag n (gate_hs_to_var F flag n H) k) /\
  (forall w k, gate_proj_eq_var F true n w k = w k).
Proof. intros F flag n Hn. split; [|split]; intros; [now apply gate_obj_var_a|now apply gate_obj_var_b|reflexivity]. Qed.
Print Assumptions C04_gate_obj_var.

(* Povm / MProcess: with flag = true the parametrisation cannot represent an infeasible object, so (b) is stated for
   flag = false (all objects) and for flag = true on feasible objects *)
Theorem C04_povm_obj_var : forall (F : OF) (sd : F) (m n : nat), (0 < m)%nat -> (0 < n)%nat ->
  (forall flag w k, povm_proj_eq_var F flag sd m n w k
                    = povm_vecs_to_var F n (povm_proj_eq F sd m (povm_var_to_vecs F flag sd m n w)) k) /\
  (forall V k, povm_vecs_to_var F n (povm_proj_eq F sd m V) k = povm_proj_eq_var F false sd m n (povm_vecs_to_var F n V) k) /\
  (forall V k, (k < (m - 1) * n)%nat -> povm_eq_ok F sd m n V ->
     povm_vecs_to_var F n (povm_proj_eq F sd m V) k = povm_proj_eq_var F true sd m n (povm_vecs_to_var F n V) k) /\
  (forall w, povm_eq_ok F sd m n (povm_var_to_vecs F true sd m n w)) /\
  (forall w k, (k < (m - 1) * n)%nat -> povm_proj_eq_var F true sd m n w k = w k).
Proof. intros F sd m n Hm Hn. repeat split; intros.
  - now apply povm_obj_var_b_false. - now apply povm_obj_var_b_true.
  - now apply povm_from_var_feasible. - now apply povm_var_identity. Qed.
Print Assumptions C04_povm_obj_var.

Theorem C04_mprocess_obj_var : forall (F : OF) (m n : nat), (0 < m)%nat -> (0 < n)%nat ->
  (forall flag w k, mp_proj_eq_var F flag m n w k = mp_hss_to_var F flag m n (mp_proj_eq F m (mp_var_to_hss F flag m n w)) k) /\
  (forall H k, mp_hss_to_var F false m n (mp_proj_eq F m H) k = mp_proj_eq_var F false m n (mp_hss_to_var F false m n H) k) /\
  (forall H k, (k < m * (n * n) - n)%nat -> mp_eq_ok F m n H ->
     mp_hss_to_var F true m n (mp_proj_eq F m H) k = mp_proj_eq_var F true m n (mp_hss_to_var F true m n H) k) /\
  (forall w, mp_eq_ok F m n (mp_var_to_hss F true m n w)) /\
  (forall w k, (k < m * (n * n) - n)%nat -> mp_proj_eq_var F true m n w k = w k).
Proof. intros F m n Hm Hn. repeat split; intros.
  - now apply mp_obj_var_b_false. - now apply mp_obj_var_b_true.
  - now apply mp_from_var_feasible. - now apply mp_var_identity. Qed.
Print Assumptions C04_mprocess_obj_var.

(* ------------------------------------------------------------------ inequality projections: the certificate *)
(* real symmetric matrices, any ordered field, any dimension *)
Theorem C04_psd_proj_certificate : forall (F : OF) n (X Y : @mat F) eps delta,
  symmetric F n X -> symmetric F n Y -> kle F (c0 F) eps ->
  PSD F n (shift eps X) -> PSD F n (shift eps (msub X Y)) ->
  kle F (inner n n X (msub X Y)) delta -> kle F (copp F delta) (inner n n X (msub X Y)) ->
  forall Z, symmetric F n Z -> PSD F n Z ->
    kle F (csub F (csub F (cadd F (dist2 n Y X) (dist2 n X Z)) (cadd F delta delta))
                  (cmul F (cadd F eps eps) (mtrace n Z)))
          (dist2 n Y Z).
Proof. exact psd_proj_certificate. Qed.
Print Assumptions C04_psd_proj_certificate.

(* eps = delta = 0 : X is feasible, nearest, and the ONLY nearest PSD point (hence the projection is idempotent and fixes PSD inputs) *)
Theorem C04_psd_proj_exact_unique : forall (F : OF) n (X Y : @mat F),
  symmetric F n X -> symmetric F n Y -> PSD F n X -> PSD F n (msub X Y) -> inner n n X (msub X Y) = c0 F ->
  forall Z, symmetric F n Z -> PSD F n Z ->
    kle F (cadd F (dist2 n Y X) (dist2 n X Z)) (dist2 n Y Z) /\ kle F (dist2 n Y X) (dist2 n Y Z) /\
    (kle F (dist2 n Y Z) (dist2 n Y X) -> meq n n Z X).
Proof. exact psd_proj_exact. Qed.
Print Assumptions C04_psd_proj_exact_unique.

(* complex Hermitian matrices; this is the statement the executed check [cert_check] establishes for the
   implementation's output X (density / POVM element / Choi matrix) and input Y *)
Theorem C04_cert_check_sound : forall (F : OF) n (X Y : cmat F) eps delta, cert_check n X Y eps delta = true ->
  hermitian n X /\ hermitian n Y /\
  PSD F (n + n) (shift eps (embed F n X)) /\
  forall Z, hermitian n Z -> herm_PSD n Z ->
    kle F (csub F (csub F (cadd F (hdist2 n Y X) (hdist2 n X Z)) (cadd F delta delta))
                  (cmul F (cadd F eps eps) (re_trace n Z)))
          (hdist2 n Y Z).
Proof. exact cert_check_sound. Qed.
Print Assumptions C04_cert_check_sound.

Theorem C04_herm_proj_exact_unique : forall (F : OF) n (X Y : cmat F), cert_check n X Y (c0 F) (c0 F) = true ->
  herm_PSD n X /\
  forall Z, hermitian n Z -> herm_PSD n Z ->
    kle F (hdist2 n Y X) (hdist2 n Y Z) /\
    (kle F (hdist2 n Y Z) (hdist2 n Y X) -> forall i j, (i < n)%nat -> (j < n)%nat -> Z i j = X i j).
Proof. exact herm_proj_exact. Qed.
Print Assumptions C04_herm_proj_exact_unique.

(* the ALGORITHM of the inequality projections after np.linalg.eigh (Model/C04_EigClip.v: diag[diag < 0] = 0;
   eigenvecs @ diag @ eigenvecs.T.conjugate()), complex matrices of every size: GIVEN eigh's contract (the columns of U are
   orthonormal; the input is U diag(w) U^dagger) the exact certificate holds ... *)
Theorem C04_eig_clip_cert : forall (F : OF) n (U : cmat F) (w : nat -> F), unitary n U ->
  cert_check n (eig_clip n U w) (rebuild n U w) (c0 F) (c0 F) = true.
Proof. exact eig_clip_cert. Qed.
Print Assumptions C04_eig_clip_cert.

(* ... hence the returned operator is Hermitian PSD, nearest to the input among all Hermitian PSD matrices, and the only
   nearest one.  (eigh itself stays an oracle: its contract is re-checked numerically per run, sub-check eigclip; the
   per-output certificate of sub-check ineq does not depend on it.) *)
Theorem C04_eig_clip_nearest : forall (F : OF) n (U : cmat F) (w : nat -> F), unitary n U ->
  hermitian n (rebuild n U w) /\ hermitian n (eig_clip n U w) /\ herm_PSD n (eig_clip n U w) /\
  forall Z, hermitian n Z -> herm_PSD n Z ->
    kle F (hdist2 n (rebuild n U w) (eig_clip n U w)) (hdist2 n (rebuild n U w) Z) /\
    (kle F (hdist2 n (rebuild n U w) Z) (hdist2 n (rebuild n U w) (eig_clip n U w)) ->
     forall i j, (i < n)%nat -> (j < n)%nat -> Z i j = eig_clip n U w i j).
Proof. exact eig_clip_nearest. Qed.
Print Assumptions C04_eig_clip_nearest.

(* ------------------------------------------------------------------ from operators to the property's own words *)
(* "closest object in the Euclidean norm of its stacked parameters ... whose operators are positive semidefinite":
   for an orthonormal Hermitian basis the executed certificate on the OPERATORS of output x and input y says, about the
   PARAMETER vectors: the operator of x is PSD up to eps and no z with a PSD operator beats x by more than the slack
   (states / POVM elements: op_of_vec; Parseval from Proofs/C02_QObjBase.v) *)
Theorem C04_vec_cert_params : forall (F : OF) d (B : nat -> cmat F) (x y : rvec F) eps delta,
  basis_orthonormal d B -> basis_hermitian d B ->
  cert_check d (op_of_vec d B x) (op_of_vec d B y) eps delta = true ->
  PSD F (d + d) (shift eps (embed F d (op_of_vec d B x))) /\
  forall z : rvec F, herm_PSD d (op_of_vec d B z) ->
    kle F (csub F (csub F (cadd F (vdist2 (d * d) y x) (vdist2 (d * d) x z)) (cadd F delta delta))
                  (cmul F (cadd F eps eps) (re_trace d (op_of_vec d B z))))
          (vdist2 (d * d) y z).
Proof. exact vec_cert_params. Qed.
Print Assumptions C04_vec_cert_params.

Theorem C04_vec_cert_params_exact : forall (F : OF) d (B : nat -> cmat F) (x y : rvec F),
  basis_orthonormal d B -> basis_hermitian d B ->
  cert_check d (op_of_vec d B x) (op_of_vec d B y) (c0 F) (c0 F) = true ->
  herm_PSD d (op_of_vec d B x) /\
  forall z : rvec F, herm_PSD d (op_of_vec d B z) ->
    kle F (vdist2 (d * d) y x) (vdist2 (d * d) y z) /\
    (kle F (vdist2 (d * d) y z) (vdist2 (d * d) y x) -> veq (d * d) z x).
Proof. exact vec_cert_params_exact. Qed.
Print Assumptions C04_vec_cert_params_exact.

(* gates / instrument elements: the stacked vector is hs.flatten(), the operator its Choi matrix (isometry: choi_frobenius) *)
Theorem C04_hs_cert_params : forall (F : OF) d (B : nat -> cmat F) (x y : rvec F) eps delta,
  basis_orthonormal d B -> basis_hermitian d B ->
  cert_check (d * d) (choi_of_hs d B (gate_unstack F (d * d) x)) (choi_of_hs d B (gate_unstack F (d * d) y)) eps delta = true ->
  PSD F (d * d + d * d) (shift eps (embed F (d * d) (choi_of_hs d B (gate_unstack F (d * d) x)))) /\
  forall z : rvec F, herm_PSD (d * d) (choi_of_hs d B (gate_unstack F (d * d) z)) ->
    kle F (csub F (csub F (cadd F (vdist2 ((d * d) * (d * d)) y x) (vdist2 ((d * d) * (d * d)) x z)) (cadd F delta delta))
                  (cmul F (cadd F eps eps) (re_trace (d * d) (choi_of_hs d B (gate_unstack F (d * d) z)))))
          (vdist2 ((d * d) * (d * d)) y z).
Proof. exact hs_cert_params. Qed.
Print Assumptions C04_hs_cert_params.

Theorem C04_hs_cert_params_exact : forall (F : OF) d (B : nat -> cmat F) (x y : rvec F),
  basis_orthonormal d B -> basis_hermitian d B ->
  cert_check (d * d) (choi_of_hs d B (gate_unstack F (d * d) x)) (choi_of_hs d B (gate_unstack F (d * d) y)) (c0 F) (c0 F) = true ->
  herm_PSD (d * d) (choi_of_hs d B (gate_unstack F (d * d) x)) /\
  forall z : rvec F, herm_PSD (d * d) (choi_of_hs d B (gate_unstack F (d * d) z)) ->
    kle F (vdist2 ((d * d) * (d * d)) y x) (vdist2 ((d * d) * (d * d)) y z) /\
    (kle F (vdist2 ((d * d) * (d * d)) y z) (vdist2 ((d * d) * (d * d)) y x) -> veq ((d * d) * (d * d)) z x).
Proof. exact hs_cert_params_exact. Qed.
Print Assumptions C04_hs_cert_params_exact.

(* Povm (per element) and MProcess (per outcome): all blocks certified => the STACKED output is nearest, in the Euclidean norm of
   the stacked parameters, among all stacked vectors whose operators are all PSD (blk n s k = k-th block of length n) *)
Theorem C04_povm_cert_params_exact : forall (F : OF) d (B : nat -> cmat F) m (x y : rvec F),
  basis_orthonormal d B -> basis_hermitian d B ->
  (forall k, (k < m)%nat -> cert_check d (op_of_vec d B (blk (d * d) x k)) (op_of_vec d B (blk (d * d) y k)) (c0 F) (c0 F) = true) ->
  (forall k, (k < m)%nat -> herm_PSD d (op_of_vec d B (blk (d * d) x k))) /\
  forall z : rvec F, (forall k, (k < m)%nat -> herm_PSD d (op_of_vec d B (blk (d * d) z k))) ->
    kle F (vdist2 (m * (d * d)) y x) (vdist2 (m * (d * d)) y z).
Proof. exact povm_cert_params_exact. Qed.
Print Assumptions C04_povm_cert_params_exact.

Theorem C04_mprocess_cert_params_exact : forall (F : OF) d (B : nat -> cmat F) m (x y : rvec F),
  basis_orthonormal d B -> basis_hermitian d B ->
  (forall k, (k < m)%nat -> cert_check (d * d) (choi_of_hs d B (gate_unstack F (d * d) (blk ((d * d) * (d * d)) x k)))
                                        (choi_of_hs d B (gate_unstack F (d * d) (blk ((d * d) * (d * d)) y k))) (c0 F) (c0 F) = true) ->
  (forall k, (k < m)%nat -> herm_PSD (d * d) (choi_of_hs d B (gate_unstack F (d * d) (blk ((d * d) * (d * d)) x k)))) /\
  forall z : rvec F, (forall k, (k < m)%nat -> herm_PSD (d * d) (choi_of_hs d B (gate_unstack F (d * d) (blk ((d * d) * (d * d)) z k)))) ->
    kle F (vdist2 (m * ((d * d) * (d * d))) y x) (vdist2 (m * ((d * d) * (d * d))) y z).
Proof. exact mprocess_cert_params_exact. Qed.
Print Assumptions C04_mprocess_cert_params_exact.

(* END TO END, the inequality projections as coded with eigh as an oracle (Model/C04_EigClip.v vec_proj_ineq / hs_proj_ineq:
   operator of the input -> (w, U) from eigh -> U clip(w) U^dagger -> coefficients): if (w, U) satisfies eigh's contract for
   the operator of the input y, the returned PARAMETER vector has a PSD operator, is nearest to y in the Euclidean norm of
   the parameters among all vectors with a PSD operator, and is the only such vector.  All d, any orthonormal Hermitian
   complete basis, complex U. *)
Theorem C04_vec_proj_ineq_nearest : forall (F : OF) d (B : nat -> cmat F) (y : rvec F) (U : cmat F) (w : nat -> F),
  basis_orthonormal d B -> basis_hermitian d B -> basis_complete d B ->
  eigh_contract d (op_of_vec d B y) U w ->
  herm_PSD d (op_of_vec d B (vec_proj_ineq d B U w)) /\
  forall z : rvec F, herm_PSD d (op_of_vec d B z) ->
    kle F (vdist2 (d * d) y (vec_proj_ineq d B U w)) (vdist2 (d * d) y z) /\
    (kle F (vdist2 (d * d) y z) (vdist2 (d * d) y (vec_proj_ineq d B U w)) -> veq (d * d) z (vec_proj_ineq d B U w)).
Proof. exact vec_proj_ineq_nearest. Qed.
Print Assumptions C04_vec_proj_ineq_nearest.

Theorem C04_hs_proj_ineq_nearest : forall (F : OF) d (B : nat -> cmat F) (y : rvec F) (U : cmat F) (w : nat -> F),
  basis_orthonormal d B -> basis_hermitian d B -> basis_complete d B ->
  eigh_contract (d * d) (choi_of_hs d B (gate_unstack F (d * d) y)) U w ->
  let x := hs_proj_ineq d B U w in
  herm_PSD (d * d) (choi_of_hs d B (gate_unstack F (d * d) x)) /\
  forall z : rvec F, herm_PSD (d * d) (choi_of_hs d B (gate_unstack F (d * d) z)) ->
    kle F (vdist2 ((d * d) * (d * d)) y x) (vdist2 ((d * d) * (d * d)) y z) /\
    (kle F (vdist2 ((d * d) * (d * d)) y z) (vdist2 ((d * d) * (d * d)) y x) -> veq ((d * d) * (d * d)) z x).
Proof. exact hs_proj_ineq_nearest. Qed.
Print Assumptions C04_hs_proj_ineq_nearest.

(* per-element (Povm) / per-outcome (MProcess) projections are nearest for the product set: squared distances add *)
Theorem C04_product_nearest : forall (F : OF) m (dyx dyz : nat -> F),
  (forall x, (x < m)%nat -> kle F (dyx x) (dyz x)) -> kle F (sumn m dyx) (sumn m dyz).
Proof. exact product_nearest. Qed.
Print Assumptions C04_product_nearest.

(* ------------------------------------------------------------------ "never modify the argument" (array-heap model) *)
(* Model/C04_Heap.v h_proj_eq_with_var = MProcess.calc_proj_eq_constraint_with_var WITH repair
   fixes/mprocess-proj-eq-var-mutates-argument.diff (hss = copy.deepcopy(convert_var_to_hss(...))); this is the model the
   harness executes (op c04.mp_heap) and compares with the implementation: returned array AND post-call contents of var.
   Pure under both flags: every heap, every var (any buffer / offset), all m, n. *)
Theorem C04_mprocess_eq_proj_with_var_pure : forall (F : OF) flag fresh1 fresh2 fresh3 m n (h : heap F) var i,
  fresh1 <> buf var -> fresh2 <> buf var -> fresh3 <> buf var ->
  fst (h_proj_eq_with_var F flag fresh1 fresh2 fresh3 m n h var) (buf var) i = h (buf var) i.
Proof. exact proj_eq_with_var_pure. Qed.
Print Assumptions C04_mprocess_eq_proj_with_var_pure.

(* ... and the array it returns holds exactly the functional model of the variable-level projection (the one
   C04_mprocess_obj_var / C04_mprocess_eq_proj_nearest talk about): all m, n > 0, both flags, every heap *)
Theorem C04_mprocess_eq_proj_with_var_value : forall (F : OF) flag fresh1 fresh2 fresh3 m n (h : heap F) var k,
  (0 < m)%nat -> (0 < n)%nat -> (k < mp_var_len flag m n)%nat ->
  let '(h', out) := h_proj_eq_with_var F flag fresh1 fresh2 fresh3 m n h var in
  rd F h' out k = mp_proj_eq_var F flag m n (rd F h var) k.
Proof. exact proj_eq_with_var_value. Qed.
Print Assumptions C04_mprocess_eq_proj_with_var_value.

(* The code AS IT WAS BEFORE that repair (h_proj_eq_with_var_prefix: no copy; with on_para_eq_constraint = False the hss are
   VIEWS of var and `hs[0] -= vec / len(hss)` writes through them).  FULL statement (false of that model):
     forall m n fresh1 fresh2 h var i, fresh1 <> buf var -> fresh2 <> buf var ->
       fst (h_proj_eq_with_var_prefix F false fresh1 fresh2 m n h var) (buf var) i = h (buf var) i
   Witness: 1 qubit (n = 4), m = 2, var = zeros(32): var[0] becomes 1/2 (replayed on the unrepaired code: findings/C04-1.md,
   corpus/C04/c04-1-mprocess-zeros.json) *)
Theorem C04_mprocess_eq_proj_with_var_prefix_mutates_refuted :
  exists (m n fresh1 fresh2 : nat) (h : heap Qc_OF) (var : aref) (i : nat),
    fresh1 <> buf var /\ fresh2 <> buf var /\
    fst (h_proj_eq_with_var_prefix Qc_OF false fresh1 fresh2 m n h var) (buf var) i <> h (buf var) i.
Proof. exact proj_eq_with_var_prefix_false_mutates. Qed.
Print Assumptions C04_mprocess_eq_proj_with_var_prefix_mutates_refuted.

(* before the repair, on_para_eq_constraint = True was already pure *)
Theorem C04_mprocess_eq_proj_with_var_prefix_true_pure : forall (F : OF) fresh1 fresh2 m n (h : heap F) var i,
  fresh1 <> buf var -> fresh2 <> buf var ->
  fst (h_proj_eq_with_var_prefix F true fresh1 fresh2 m n h var) (buf var) i = h (buf var) i.
Proof. exact proj_eq_with_var_prefix_true_pure. Qed.
Print Assumptions C04_mprocess_eq_proj_with_var_prefix_true_pure.

(* ------------------------------------------------------------------ non-vacuity *)
(* a genuinely complex Hermitian instance over Qc:  Y = [[1, 2i], [-2i, 1]]  (eigenvalues 3, -1),
   X = (3/2) [[1, i], [-i, 1]] its PSD projection; the certificate holds EXACTLY (eps = delta = 0) *)
Definition ex_q (a b : Z) : cplx Qc_OF := (Q2Qc (a # 2), Q2Qc (b # 2)).
Definition ex_Y : cmat Qc_OF := fun i j => match i, j with
  | 0%nat, 0%nat => ex_q 2 0 | 0%nat, 1%nat => ex_q 0 4 | 1%nat, 0%nat => ex_q 0 (-4) | 1%nat, 1%nat => ex_q 2 0 | _, _ => ex_q 0 0 end.
Definition ex_X : cmat Qc_OF := fun i j => match i, j with
  | 0%nat, 0%nat => ex_q 3 0 | 0%nat, 1%nat => ex_q 0 3 | 1%nat, 0%nat => ex_q 0 (-3) | 1%nat, 1%nat => ex_q 3 0 | _, _ => ex_q 0 0 end.
Example C04_example_cert : @cert_check Qc_OF 2 ex_X ex_Y 0%Qc 0%Qc = true /\ @herm_psd_dec Qc_OF 2 ex_Y 0%Qc = false.
Proof. split; vm_compute; reflexivity. Qed.
(* the wrong answer "transpose" (a missing conjugate) is rejected *)
Example C04_example_cert_rejects : @cert_check Qc_OF 2 (fun i j => ex_X j i) ex_Y 0%Qc 0%Qc = false.
Proof. vm_compute. reflexivity. Qed.
(* eigh's contract is satisfiable by a genuinely complex U: the exact 3-4-5 unitary G = [[3/5, 4i/5], [4i/5, 3/5]], w = (3, -1);
   the rebuild WITHOUT the conjugate (U diag U^T, a characteristic slip) is not even Hermitian and is rejected *)
Definition ex_G : cmat Qc_OF := fun i j => match i, j with
  | 0%nat, 0%nat => (Q2Qc (3 # 5), Q2Qc 0) | 0%nat, 1%nat => (Q2Qc 0, Q2Qc (4 # 5))
  | 1%nat, 0%nat => (Q2Qc 0, Q2Qc (4 # 5)) | 1%nat, 1%nat => (Q2Qc (3 # 5), Q2Qc 0) | _, _ => (Q2Qc 0, Q2Qc 0) end.
Definition ex_w : nat -> Qc := fun k => match k with 0%nat => Q2Qc 3 | _ => Q2Qc (-1) end.
Example C04_example_unitary : unitary 2 ex_G.
Proof. intros i j Hi Hj. destruct i as [|[|i]]; [| |exfalso; inversion Hi as [|? H1]; inversion H1 as [|? H2]; inversion H2];
  (destruct j as [|[|j]]; [| |exfalso; inversion Hj as [|? H1]; inversion H1 as [|? H2]; inversion H2]); apply cplx_eq; apply Qc_is_canon; vm_compute; reflexivity. Qed.
Example C04_example_eig_clip :
  @cert_check Qc_OF 2 (@eig_clip Qc_OF 2 ex_G ex_w) (@rebuild Qc_OF 2 ex_G ex_w) 0%Qc 0%Qc = true /\
  @cert_check Qc_OF 2 (mmul 2 (mmul 2 ex_G (@cdiag Qc_OF (fun k => @clip0 Qc_OF (ex_w k)))) (mT ex_G)) (@rebuild Qc_OF 2 ex_G ex_w) 0%Qc 0%Qc = false.
Proof. split; vm_compute; reflexivity. Qed.
(* the hypotheses of C04_vec_proj_ineq_nearest are satisfiable: 2-qubit normalised Pauli basis (exactly rational, Proofs/C02_Conv.v P2),
   U = G (+) 1 (+) 1 with the complex 3-4-5 unitary G, w = (3, -1, 2, -2); y = the coefficients of U diag(w) U^dagger *)
Definition ex_U4 : cmat Qc_OF := fun i j => if (i <? 2)%nat && (j <? 2)%nat then ex_G i j
  else if Nat.eqb i j then (Q2Qc 1, Q2Qc 0) else (Q2Qc 0, Q2Qc 0).
Definition ex_w4 : nat -> Qc := fun k => match k with 0%nat => Q2Qc 3 | 1%nat => Q2Qc (-1) | 2%nat => Q2Qc 2 | _ => Q2Qc (-2) end.
Definition ex_y4 : rvec Qc_OF := vec_of_op 4 P2 (@rebuild Qc_OF 4 ex_U4 ex_w4).
Ltac fin4 i Hi := destruct i as [|[|[|[|i]]]]; [| | | |exfalso; lia].
Example C04_example_unitary4 : unitary 4 ex_U4.
Proof. intros i j Hi Hj. fin4 i Hi; fin4 j Hj; apply cplx_eq; apply Qc_is_canon; vm_compute; reflexivity. Qed.
Example C04_example_eigh_contract :
  basis_orthonormal 4 P2 /\ basis_hermitian 4 P2 /\ basis_complete 4 P2 /\ eigh_contract 4 (op_of_vec 4 P2 ex_y4) ex_U4 ex_w4.
Proof. split; [exact pauli2n_orthonormal|]. split; [exact pauli2n_hermitian|]. split; [exact pauli2n_complete|].
  split; [exact C04_example_unitary4|]. intros i j Hi Hj. unfold ex_y4.
  apply (QV.Proofs.C02_QObjBase.op_of_vec_of_op Qc_OF 4 P2 _ i j pauli2n_complete pauli2n_hermitian (rebuild_hermitian Qc_OF 4 ex_U4 ex_w4) Hi Hj). Qed.
(* ... and the projected parameter vector differs from the input (two negative eigenvalues are clipped) *)
Example C04_example_vec_proj_moves :
  negb (Qc_eq_bool (@vdist2 Qc_OF 16 ex_y4 (@vec_proj_ineq Qc_OF 4 P2 ex_U4 ex_w4)) (Q2Qc 0)) = true.
Proof. vm_compute. reflexivity. Qed.
(* equality projections, d = 4 (sd = 2 exactly), Povm with m = 3: an infeasible input is moved onto the constraint set *)
Definition ex_s : @vec Qc_OF := fun k => Q2Qc (Z.of_nat (k * k + 1) # 3).
Example C04_example_povm :
  let P := povm_stack Qc_OF 16 (povm_proj_eq Qc_OF (Q2Qc 2) 3 (povm_unstack Qc_OF 16 ex_s)) in
  negb (Qc_eq_bool (sumn 3 (fun x => ex_s (x * 16 + 0)%nat)) (Q2Qc 2)) &&
  Qc_eq_bool (sumn 3 (fun x => P (x * 16 + 0)%nat)) (Q2Qc 2) && Qc_eq_bool (sumn 3 (fun x => P (x * 16 + 5)%nat)) (Q2Qc 0) &&
  negb (Qc_eq_bool (P 17%nat) (ex_s 17%nat)) = true.
Proof. vm_compute. reflexivity. Qed.
(* the heap model on var = zeros(32) (1 qubit, 2 outcomes, flag False): the repaired code leaves var alone and returns
   [1/2,0,..; 1/2,0,..]; the code before the repair wrote the same values into var itself (var[0] = var[16] = 1/2) *)
Example C04_example_heap :
  let '(h', out) := h_proj_eq_with_var Qc_OF false 1 2 3 2 4 zero_heap var0 in
  Qc_eq_bool (h' 0 0)%nat (Q2Qc 0) && Qc_eq_bool (h' 0 16)%nat (Q2Qc 0)
  && Qc_eq_bool (rd Qc_OF h' out 0) (Q2Qc (1 # 2)) && Qc_eq_bool (rd Qc_OF h' out 16) (Q2Qc (1 # 2)) && Qc_eq_bool (rd Qc_OF h' out 1) (Q2Qc 0) = true.
Proof. vm_compute. reflexivity. Qed.
Example C04_example_mutation_prefix :
  let h' := fst (h_proj_eq_with_var_prefix Qc_OF false 1 2 2 4 zero_heap var0) in
  Qc_eq_bool (h' 0 0)%nat (Q2Qc (1 # 2)) && Qc_eq_bool (h' 0 16)%nat (Q2Qc (1 # 2)) && Qc_eq_bool (h' 0 1)%nat (Q2Qc 0)
  && Qc_eq_bool (h' 0 4)%nat (Q2Qc 0) = true.
Proof. vm_compute. reflexivity. Qed.
