(* C06 — composition: property theorems only (skeleton, extended below). *)
From Coq Require Import List Arith.
From QV.Core Require Import OF Sums Mat.
From QV.Model Require Import QObj C06_Compose.

(* POVM after a gate is the Heisenberg dual: <G^T p, s> = <p, G s> *)
Theorem C06_povm_gate_heisenberg : forall (F : OF) n (G : rmat F) (p s : rvec F),
  dot n (mv n (mT G) p) s = dot n p (mv n G s).
Proof. intros. rewrite dot_mv. apply dot_ext; [apply veq_refl|]. intros i Hi. reflexivity. Qed.
Print Assumptions C06_povm_gate_heisenberg.
