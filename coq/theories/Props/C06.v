(* C06 — composition implements quantum mechanics and is associative: property theorems only.

   THE MODEL THESE THEOREMS ARE ABOUT is the one the harness compares with the implementation on every run:
   Model/C06_Compose.v with fix_mm = fix_ps = true and gm_mode1_cb, i.e. quara's code AFTER the three repairs of /verif/fixes
   (compose-mprocess-mprocess-order-layout, compose-mprocess-state-poststate-normalisation, povm-generate-mprocess-mode1-eigenvectors)
   and the round-3 repair povm-generate-mprocess-mode1-eigenspace-tolerance (gm_mode1_cb with tol = atol).
   The three `_refuted` theorems at the end are about the clearly labelled definitions of the code AS IT WAS BEFORE each fix
   (fix_mm = false / fix_ps = false / gm_mode1_cb_prefix); the harness uses the same definitions to recognise a regression.

   Everything is generic in the ordered field F (holds for the executed Qc and for R), in the dimension and in the matrix basis
   (hypotheses on the basis are the QObj predicates), and axiom-free.  Convention of the code: compose(a, b) = "a AFTER b". *)
From Coq Require Import List Arith Bool ZArith QArith Qcanon.
From QV.Core Require Import OF QcOF Sums Mat Cplx Psd.
From QV.Model Require Import QObj HermEmbed Multinomial C06_Compose C06_Spec C06_Witness.
From QV.Proofs Require Import C06_Linear C06_Chain C06_Coded C06_QM C06_Main C06_GenMProcess C06_Physical C06_Choi C06_Thresholds C06_Witness.
Import ListNotations.

(* ================================================================== 1. a gate acts on a state through its Kraus operators *)
(* compose(Gate, State) returns the coefficient vector of  sum_K K rho K^dagger  — any dimension, any basis, any Kraus list *)
Theorem C06_gate_on_state_kraus : forall (F : OF) (d : nat) (B : nat -> cmat F) (Ks : list (cmat F)) (s : Z) (v : rvec F)
    (sd atol eps8 : F) (ortho : bool) (ivec : rvec F),
  exists v' : rvec F,
    compose2 F (d * d) sd atol eps8 ortho ivec true true (QGate F s (hs_of_kraus d B Ks)) (QState F s v) = MOk (QState F s v') /\
    (forall a : nat, v' a = vec_of_op d B (kraus_apply F d Ks (op_of_vec d B v)) a).
Proof. exact gate_on_state_denotes. Qed.
Print Assumptions C06_gate_on_state_kraus.

(* ================================================================== 2. a POVM on a state gives the Born-rule distribution *)
(* the number <p, s> the code computes is  Re tr(Pi^dagger rho)  (orthonormal basis) *)
Theorem C06_born_rule : forall (F : OF) (d : nat) (B : nat -> cmat F) (p s : rvec F),
  basis_orthonormal d B -> born d p s = op_inner F d (op_of_vec d B p) (op_of_vec d B s).
Proof. exact born_is_trace. Qed.
Print Assumptions C06_born_rule.
(* ... non-negative for positive semidefinite Pi and rho *)
Theorem C06_born_nonneg : forall (F : OF) (d : nat) (B : nat -> cmat F) (p s : rvec F),
  basis_orthonormal d B -> cpsd F d (op_of_vec d B p) -> cpsd F d (op_of_vec d B s) -> kle F (c0 F) (born d p s).
Proof. exact born_nonneg. Qed.
Print Assumptions C06_born_nonneg.
(* ... summing to tr rho (= 1) when the POVM elements sum to the identity *)
Theorem C06_born_sums_to_trace : forall (F : OF) (d : nat) (sd : F) (B : nat -> cmat F) (P : list (rvec F)) (s : rvec F),
  (0 < d)%nat -> basis_orthonormal d B -> basis_0th_identity d sd B -> veq (d * d) (vsum F P) (id_vec F sd) ->
  lsumF F (born_list F (d * d) P s) = ctr F d (op_of_vec d B s).
Proof. exact born_sums_to_trace. Qed.
Print Assumptions C06_born_sums_to_trace.
(* compose(Povm, State): when no Born number is below the truncation threshold (atol) and they sum to one, nothing is truncated or
   renormalised: the numbers handed to the MultinomialDistribution constructor (C16) ARE the Born numbers, shape (number of outcomes) *)
Theorem C06_povm_on_state_born : forall (F : OF) (n : nat) (sd atol eps8 : F) (ortho : bool) (ivec : rvec F) (s : Z) (P : list (rvec F)) (v : rvec F),
  Forall (fun p => kle F atol p) (born_list F n P v) -> lsum F (born_list F n P v) = c1 F ->
  compose2 F n sd atol eps8 ortho ivec true true (QPovm F s P) (QState F s v) =
  match construct F eps8 eps8 (born_list F n P v) (Some [length P]) with MErr c => MErr c | MOk D => MOk (QDist F D) end.
Proof. exact povm_on_state_born. Qed.
Print Assumptions C06_povm_on_state_born.
(* WITH truncation (round 3): truncate_and_normalize returns the Born numbers with the sub-threshold ones zeroed, divided by the retained mass;
   the result sums to EXACTLY one and is entrywise non-negative; a returned entry times the retained mass is the (zeroed) Born number *)
Theorem C06_truncate_and_normalize_spec : forall (F : OF) (atol : F) (l r : list F), kle F (c0 F) atol ->
  truncate_and_normalize F atol l = MOk r ->
  lsum F (tn_zeroed F atol l) <> c0 F /\
  r = map (fun p => kdiv F p (lsum F (tn_zeroed F atol l))) (tn_zeroed F atol l) /\
  lsum F r = c1 F /\ Forall (fun p => kle F (c0 F) p) r.
Proof. exact truncate_and_normalize_spec. Qed.
Print Assumptions C06_truncate_and_normalize_spec.
Theorem C06_truncate_and_normalize_proportional : forall (F : OF) (atol : F) (l r : list F) (x : nat), kle F (c0 F) atol ->
  truncate_and_normalize F atol l = MOk r ->
  cmul F (nth x r (c0 F)) (lsum F (tn_zeroed F atol l)) = nth x (tn_zeroed F atol l) (c0 F).
Proof. exact truncate_and_normalize_proportional. Qed.
Print Assumptions C06_truncate_and_normalize_proportional.
(* the only error: everything is below the threshold (0/0, rejected by the distribution constructor as "sum is not 1") *)
Theorem C06_truncate_and_normalize_error : forall (F : OF) (atol : F) (l : list F) (c : nat),
  truncate_and_normalize F atol l = MErr c -> c = 3%nat /\ lsum F (tn_zeroed F atol l) = c0 F.
Proof. exact truncate_and_normalize_error. Qed.
Print Assumptions C06_truncate_and_normalize_error.

(* ================================================================== 3. a POVM after a gate / measurement process: Heisenberg picture *)
Theorem C06_povm_after_gate_heisenberg : forall (F : OF) (n : nat) (sd atol eps8 : F) (ortho : bool) (ivec : rvec F) (s : Z) (P : list (rvec F)) (G : rmat F),
  exists P', compose2 F n sd atol eps8 ortho ivec true true (QPovm F s P) (QGate F s G) = MOk (QPovm F s P') /\
             forall sv, born_list F n P' sv = born_list F n P (gate_state F n G sv).
Proof. exact povm_after_gate_heisenberg. Qed.
Print Assumptions C06_povm_after_gate_heisenberg.
(* joint outcome (x of the instrument, y of the POVM) at the row-major position x*|P| + y (earlier measurement = major index),
   element = Heisenberg dual of P_y through H_x:  <P'_(x,y), rho> = <P_y, H_x rho> *)
Theorem C06_povm_after_mprocess_heisenberg : forall (F : OF) (n : nat) (sd atol eps8 : F) (ortho : bool) (ivec : rvec F) (s : Z) (P : list (rvec F)) (M : mproc F),
  mp_sys F M = s ->
  exists P', compose2 F n sd atol eps8 ortho ivec true true (QPovm F s P) (QMProc F M) = MOk (QPovm F s P') /\
             length P' = (length (mp_hss F M) * length P)%nat /\
             forall x y sv, (x < length (mp_hss F M))%nat -> (y < length P)%nat ->
               dot n (nth (x * length P + y) P' (dv F)) sv = dot n (nth y P (dv F)) (mv n (nth x (mp_hss F M) (dm F)) sv).
Proof. exact povm_after_mproc_heisenberg. Qed.
Print Assumptions C06_povm_after_mprocess_heisenberg.

(* ================================================================== 4. a measurement process on a state *)
(* the probability rule  p_x = sd (HS_x v)_0  is the trace of the un-normalised post-measurement operator  sum_K K rho K^dagger *)
Theorem C06_mprocess_prob_is_trace : forall (F : OF) (d : nat) (sd : F) (B : nat -> cmat F) (Ks : list (cmat F)) (v : rvec F),
  basis_0th_identity d sd B ->
  cmul F sd (gate_state F (d * d) (hs_of_kraus d B Ks) v 0%nat) = ctr F d (kraus_apply F d Ks (op_of_vec d B v)).
Proof. exact mproc_prob_is_trace. Qed.
Print Assumptions C06_mprocess_prob_is_trace.
(* ... consistent with the POVM the process induces (MProcess.to_povm):  p_x = <to_povm_x, rho> , and to_povm_x is the coefficient
   vector of  sum_K K^dagger K *)
Theorem C06_mprocess_prob_is_induced_povm : forall (F : OF) (n : nat) (sd : F) (H : rmat F) (v : rvec F),
  cmul F sd (mv n H v 0%nat) = dot n (fun b => cmul F sd (H 0%nat b)) v.
Proof. exact to_povm_born. Qed.
Print Assumptions C06_mprocess_prob_is_induced_povm.
Theorem C06_to_povm_is_kraus_effect : forall (F : OF) (d : nat) (sd : F) (B : nat -> cmat F) (Ks : list (cmat F)) (b : nat),
  basis_0th_identity d sd B -> cmul F sd (hs_of_kraus d B Ks 0%nat b) = vec_of_op d B (kraus_effect F d Ks) b.
Proof. exact to_povm_kraus. Qed.
Print Assumptions C06_to_povm_is_kraus_effect.
(* compose(MProcess, State) when no outcome is cut (p_x > eps_zero for all x): outcome x carries p_x and the post state H_x v / p_x,
   shape = the shape of the process *)
Theorem C06_mprocess_on_state_nocut : forall (F : OF) (n : nat) (sd atol eps8 : F) (ortho : bool) (ivec : rvec F) (M : mproc F) (s : Z) (v : rvec F),
  mp_sys F M = s -> ortho = true ->
  forallb (fun H => negb (mps_cut F (mp_eps F M) (c1 F) (cmul F sd (mv n H v 0%nat)))) (mp_hss F M) = true ->
  compose2 F n sd atol eps8 ortho ivec true true (QMProc F M) (QState F s v) =
  match construct F eps8 eps8 (map (fun H => cmul F (c1 F) (cmul F sd (mv n H v 0%nat))) (mp_hss F M)) (Some (mp_shape F M)) with
  | MErr c => MErr c
  | MOk D => MOk (QEns F {| en_sys := s; en_states := map (fun H => mps_post F (mv n H v) (cmul F sd (mv n H v 0%nat))) (mp_hss F M);
                            en_dist := D; en_eps := mp_eps F M |})
  end.
Proof. exact mproc_on_state_nocut. Qed.
Print Assumptions C06_mprocess_on_state_nocut.
(* the post state times its probability is the un-normalised M_x(rho) *)
Theorem C06_post_state_times_prob : forall (F : OF) (m : rvec F) (p : F) (i : nat), p <> c0 F -> cmul F p (mps_post F m p i) = m i.
Proof. exact mps_post_spec. Qed.
Print Assumptions C06_post_state_times_prob.
(* NORMALISED post-measurement states, whatever is cut: every post state compose(MProcess, State) returns is the zero vector
   (outcome cut / probability zero) or has trace one ( sd * rho_0 = 1 ) *)
Theorem C06_mprocess_post_state_normalised : forall (F : OF) (n : nat) (sd atol eps8 : F) (ortho : bool) (ivec : rvec F) (M : mproc F) (s : Z) (v : rvec F) (E : ensemble F),
  mp_sys F M = s -> ortho = true ->
  compose2 F n sd atol eps8 ortho ivec true true (QMProc F M) (QState F s v) = MOk (QEns F E) ->
  Forall (normalised_or_zero F sd) (en_states F E).
Proof. exact mproc_on_state_post_normalised. Qed.
Print Assumptions C06_mprocess_post_state_normalised.
(* the eps_zero cut (round 3): after a cut with something retained the outcome probabilities of a branch are the retained raw probabilities
   divided by the retained mass; they sum to one and the returned weights w * p sum to the branch weight w; when everything is cut all are zero *)
Theorem C06_mprocess_cut_renormalised : forall (F : OF) (eps w : F) (raw : list F),
  existsb (mps_cut F eps w) raw = true -> lsum F (mps_ps0 F eps w raw) <> c0 F ->
  mps_ps1 F eps w raw = map (fun p => kdiv F p (lsum F (mps_ps0 F eps w raw))) (mps_ps0 F eps w raw) /\
  lsum F (mps_ps1 F eps w raw) = c1 F /\
  lsum F (map (fun p => cmul F w p) (mps_ps1 F eps w raw)) = w.
Proof. exact mps_ps1_cut. Qed.
Print Assumptions C06_mprocess_cut_renormalised.
Theorem C06_mprocess_all_cut : forall (F : OF) (eps w : F) (raw : list F),
  forallb (mps_cut F eps w) raw = true -> Forall (fun p => p = c0 F) (mps_ps1 F eps w raw).
Proof. exact mps_ps1_all_cut. Qed.
Print Assumptions C06_mprocess_all_cut.
(* a (probability, trace-one state) pair is determined by the un-normalised vector p * rho: the bridge from the linear associativity theorem
   (section 6) to normalised results *)
Theorem C06_normalised_determined_by_linear_content : forall (F : OF) (n : nat) (sd p p' : F) (st st' : rvec F), (0 < n)%nat ->
  cmul F sd (st 0%nat) = c1 F -> cmul F sd (st' 0%nat) = c1 F -> (forall i, (i < n)%nat -> cmul F p (st i) = cmul F p' (st' i)) ->
  p = p' /\ (p <> c0 F -> veq n st st').
Proof. exact normalised_determined. Qed.
Print Assumptions C06_normalised_determined_by_linear_content.
(* PARTIAL: MProcess on StateEnsemble / Povm on StateEnsemble (weights, eps_zero of the ensemble, zero distributions) and the thresholds of the
   MultinomialDistribution constructor applied afterwards (C16) are modelled and compared on every run, not stated as theorems. *)

(* ================================================================== 5. a measurement process after a measurement process *)
(* compose(M1, M2) (M2 acts first): shape = shape(M2) ++ shape(M1) (earlier measurement first) and at the row-major position
   x2*|M1| + x1 the map "first H2_x2, then H1_x1" *)
Theorem C06_mprocess_after_mprocess_layout : forall (F : OF) (n : nat) (sd atol eps8 : F) (ortho : bool) (ivec : rvec F) (M1 M2 : mproc F),
  mp_sys F M1 = mp_sys F M2 ->
  length (mp_hss F M1) = prodn (mp_shape F M1) -> length (mp_hss F M2) = prodn (mp_shape F M2) ->
  mp_shape F M2 ++ mp_shape F M1 <> [] ->
  exists M, compose2 F n sd atol eps8 ortho ivec true true (QMProc F M1) (QMProc F M2) = MOk (QMProc F M) /\
            mp_shape F M = mp_shape F M2 ++ mp_shape F M1 /\
            length (mp_hss F M) = (length (mp_hss F M2) * length (mp_hss F M1))%nat /\
            forall x2 x1 v i, (x2 < length (mp_hss F M2))%nat -> (x1 < length (mp_hss F M1))%nat ->
              mv n (nth (x2 * length (mp_hss F M1) + x1) (mp_hss F M) (dm F)) v i
              = mv n (nth x1 (mp_hss F M1) (dm F)) (mv n (nth x2 (mp_hss F M2) (dm F)) v) i.
Proof. exact mproc_after_mproc_layout. Qed.
Print Assumptions C06_mprocess_after_mprocess_layout.

(* ================================================================== 6. associativity: all chains, all bracketings *)
(* linear content of EVERY type-valid chain (state / ensemble as un-normalised vectors p_x rho_x, gates, instruments, a POVM; joint
   probabilities as Born numbers): any two bracketings of the same chain that are defined give the same entries at the same
   positions (req: same kind, same length, pointwise equal).  [eval F n true] is the composition table of the code. *)
Theorem C06_bracketing_independent : forall (F : OF) (n : nat) (t1 t2 : tree F) (r1 r2 : robj F),
  flatten F t1 = flatten F t2 -> eval F n true t1 = Some r1 -> eval F n true t2 = Some r2 -> req F n r1 r2.
Proof. exact bracketing_independent. Qed.
Print Assumptions C06_bracketing_independent.
(* the same at the level of compose2 itself (the compared model) for chains of gates / measurement processes, optionally with a POVM
   in front: same HS matrices / POVM vectors at the same positions ... *)
Theorem C06_compose2_bracketing_independent : forall (F : OF) (n : nat) (sd atol eps8 : F) (ortho : bool) (ivec : rvec F) (t1 t2 : qtree F) (c1 c2 : qobj F),
  qflat F t1 = qflat F t2 -> forallb (is_linear F) (qflat F t1) = true ->
  qeval F n sd atol eps8 ortho ivec t1 = MOk c1 -> qeval F n sd atol eps8 ortho ivec t2 = MOk c2 ->
  req F n (raw_lin F c1) (raw_lin F c2).
Proof. exact compose2_bracketing_independent. Qed.
Print Assumptions C06_compose2_bracketing_independent.
(* ... and the same outcome shape (= labelling) *)
Theorem C06_compose2_bracketing_same_shape : forall (F : OF) (n : nat) (sd atol eps8 : F) (ortho : bool) (ivec : rvec F) (t1 t2 : qtree F) (c1 c2 : qobj F),
  qflat F t1 = qflat F t2 ->
  qeval F n sd atol eps8 ortho ivec t1 = MOk c1 -> qeval F n sd atol eps8 ortho ivec t2 = MOk c2 ->
  is_ops F c1 = true -> is_ops F c2 = true -> shape_of F c1 = shape_of F c2.
Proof. exact compose2_bracketing_same_shape. Qed.
Print Assumptions C06_compose2_bracketing_same_shape.
(* PARTIAL w.r.t. the full property: for chains that end in a state the code normalises / cuts after every step; bracketing
   independence of the NORMALISED results (up to the cut mass) is compared on every run against the exact direct evaluation and is
   not a theorem.  C06_bracketing_independent covers their linear (un-normalised) content for all chains. *)

(* ================================================================== 7. composing physical operations gives a physical result *)
(* trace preservation: the first row of the product of two TP HS matrices is e_0 ... *)
Theorem C06_gate_gate_trace_preserving : forall (F : OF) (n : nat) (G1 G2 : rmat F),
  (0 < n)%nat -> tp_row F n G1 -> tp_row F n G2 -> tp_row F n (mmul n G1 G2).
Proof. exact tp_row_mmul. Qed.
Print Assumptions C06_gate_gate_trace_preserving.
(* ... and the composite of two sum-TP instruments is sum-TP *)
Theorem C06_mprocess_after_mprocess_trace_preserving : forall (F : OF) (n : nat) (sd atol eps8 : F) (ortho : bool) (ivec : rvec F) (M1 M2 M : mproc F),
  (0 < n)%nat -> compose2 F n sd atol eps8 ortho ivec true true (QMProc F M1) (QMProc F M2) = MOk (QMProc F M) ->
  tp_row F n (msum F (mp_hss F M1)) -> tp_row F n (msum F (mp_hss F M2)) -> tp_row F n (msum F (mp_hss F M)).
Proof. exact mproc_after_mproc_tp. Qed.
Print Assumptions C06_mprocess_after_mprocess_trace_preserving.
(* complete positivity in the Kraus sense: the product of the HS matrices of two Kraus-form maps (what Gate o Gate and every HS product
   inside Gate o MProcess / MProcess o Gate / MProcess o MProcess computes) is the HS matrix of the Kraus-form map with operators K1 K2 *)
Theorem C06_composition_preserves_kraus_form : forall (F : OF) (d : nat) (B : nat -> cmat F) (Ks1 Ks2 : list (cmat F)) (a b : nat),
  basis_complete d B -> basis_hermitian d B -> (a < d * d)%nat -> (b < d * d)%nat ->
  gate_gate F (d * d) (hs_of_kraus d B Ks1) (hs_of_kraus d B Ks2) a b = hs_of_kraus d B (kraus_products F d Ks1 Ks2) a b.
Proof. exact hs_of_kraus_compose. Qed.
Print Assumptions C06_composition_preserves_kraus_form.
(* COMPLETE POSITIVITY AS PSD CHOI MATRIX (DESIGN 2.9; the notion C01 and the harness decide with psd_dec: Hermitian + PSD of the real
   symmetric embedding).  The Choi matrix of a Kraus-form HS matrix is  sum_K vec(K) vec(K)^dagger  entry by entry ... *)
Theorem C06_choi_of_kraus_form : forall (F : OF) (d : nat) (B : nat -> cmat F) (Ks : list (cmat F)) (al be : nat),
  basis_complete d B -> basis_hermitian d B -> (al < d * d)%nat -> (be < d * d)%nat ->
  choi_of_hs d B (hs_of_kraus d B Ks) al be = wouter F (kraus_vecs F d Ks) al be.
Proof. exact choi_of_kraus. Qed.
Print Assumptions C06_choi_of_kraus_form.
(* ... hence PSD (round 3: Kraus form => PSD Choi) ... *)
Theorem C06_kraus_form_is_cp : forall (F : OF) (d : nat) (B : nat -> cmat F) (Ks : list (cmat F)),
  basis_complete d B -> basis_hermitian d B -> cpsd F (d * d) (choi_of_hs d B (hs_of_kraus d B Ks)).
Proof. exact kraus_choi_cpsd. Qed.
Print Assumptions C06_kraus_form_is_cp.
(* ... and the HS product the code forms from two completely positive (Kraus-form) factors is completely positive *)
Theorem C06_composition_is_cp : forall (F : OF) (d : nat) (B : nat -> cmat F) (Ks1 Ks2 : list (cmat F)),
  basis_complete d B -> basis_hermitian d B ->
  cpsd F (d * d) (choi_of_hs d B (gate_gate F (d * d) (hs_of_kraus d B Ks1) (hs_of_kraus d B Ks2))).
Proof. exact compose_kraus_choi_cpsd. Qed.
Print Assumptions C06_composition_is_cp.
(* (Choi's theorem in the other direction - PSD Choi => Kraus form - is not needed and not proved; a factor is assumed in Kraus form.) *)

(* ================================================================== 8. Povm.generate_mprocess induces the POVM, every back-action mode *)
(* mode 0: S (x) conj S with S Hermitian, S S = Pi (certificate checked on the sqrtm output): induced effect = Pi; entry (a,b) of the
   induced row-major vector is Pi[b,a] *)
Theorem C06_generate_mprocess_mode0_induces_povm : forall (F : OF) (d : nat) (S Pi : cmat F),
  hermitian d S -> meq d d (mmul d S S) Pi ->
  forall c, (c < d * d)%nat -> induced_effect_cb F d (gm_mode0_cb F d S) c = Pi (c mod d)%nat (c / d)%nat.
Proof. exact gm_mode0_induces. Qed.
Print Assumptions C06_generate_mprocess_mode0_induces_povm.
(* ... and is the Lueders map  X |-> S X S^dagger  on row-major vectorised operators *)
Theorem C06_generate_mprocess_mode0_is_luders : forall (F : OF) (d : nat) (S X : cmat F) (t : nat), (0 < d)%nat ->
  mv (d * d) (gm_mode0_cb F d S) (vecr d X) t = vecr d (mmul d (mmul d S X) (cadj S)) t.
Proof. exact gm_mode0_is_luders. Qed.
Print Assumptions C06_generate_mprocess_mode0_is_luders.
(* mode 1 (the code, including its grouping of adjacent eigenvalues within tol = atol of the group's first eigenvalue): V with orthonormal
   columns (certificate checked on the eigh output): the induced effect is V diag(u) V^dagger with every u_k within tol of the eigenvalue
   w_k eigh returned (u_k = key of k's group); with Pi = V diag(w) V^dagger (certificate) this is Pi up to tol per eigenvalue *)
Theorem C06_generate_mprocess_mode1_induces_povm : forall (F : OF) (d : nat) (V : cmat F) (tol : F) (w : nat -> F),
  cols_orthonormal F d V -> kle F (c0 F) tol ->
  exists u : nat -> F, (forall j, (j < d)%nat -> kle F (absF' F (csub F (w j) (u j))) tol) /\
    forall c, induced_effect_cb F d (gm_mode1_cb F d tol w V) c = spectral F d V u (c mod d)%nat (c / d)%nat.
Proof. exact gm_mode1_induces. Qed.
Print Assumptions C06_generate_mprocess_mode1_induces_povm.
(* ... it IS the eigenprojector instrument  X |-> sum_g key_g P_g X P_g^dagger  on row-major vectorised operators ... *)
Theorem C06_generate_mprocess_mode1_action : forall (F : OF) (d : nat) (V : cmat F) (tol : F) (w : nat -> F) (X : cmat F) (t : nat), (0 < d)%nat ->
  mv (d * d) (gm_mode1_cb F d tol w V) (vecr d X) t = vecr d (groups_apply F d (gm1_groups F d (colouter F V) tol w) X) t.
Proof. exact gm_mode1_acts. Qed.
Print Assumptions C06_generate_mprocess_mode1_action.
(* ... whose P_g are orthogonal projectors (idempotent, Hermitian): coherence inside a (numerically) degenerate eigenspace survives *)
Theorem C06_generate_mprocess_mode1_projectors : forall (F : OF) (d : nat) (V : cmat F) (tol : F) (w : nat -> F),
  cols_orthonormal F d V -> kle F (c0 F) tol ->
  Forall (fun g => (forall b a, mmul d (snd g) (snd g) b a = snd g b a) /\ (forall b a, cadj (snd g) b a = snd g b a))
         (gm1_groups F d (colouter F V) tol w).
Proof. exact gm_mode1_groups_are_projectors. Qed.
Print Assumptions C06_generate_mprocess_mode1_projectors.
(* PARTIAL: that P_g is the projector onto the span of exactly the eigenvectors of its group, and mutual orthogonality of different groups,
   are invariants inside the proof (orthf) but not exported; completeness sum_g P_g = I needs V V^dagger = I and is not stated. *)
(* mode 2: |rho_x>><<Pi_x| with tr rho_x = 1: MProcess.to_povm gives back Pi_x (one common post state, or one per outcome) ... *)
Theorem C06_generate_mprocess_mode2_induces_povm : forall (F : OF) (n : nat) (sd : F) (P post : list (rvec F)),
  Forall (trace_one F sd) post -> length post = length P -> Forall2 (veq n) (to_povm F sd (gm_mode2_list F P post)) P.
Proof. exact gm_mode2_list_induces. Qed.
Print Assumptions C06_generate_mprocess_mode2_induces_povm.
Theorem C06_generate_mprocess_mode2_single_induces_povm : forall (F : OF) (n : nat) (sd : F) (P : list (rvec F)) (post : rvec F),
  trace_one F sd post -> Forall2 (veq n) (to_povm F sd (gm_mode2_single F P post)) P.
Proof. exact gm_mode2_single_induces. Qed.
Print Assumptions C06_generate_mprocess_mode2_single_induces_povm.
(* ... and the outcome map is measure-and-prepare:  |rho_x>><<Pi_x| v = <Pi_x, v> rho_x *)
Theorem C06_generate_mprocess_mode2_measure_and_prepare : forall (F : OF) (n : nat) (p post v : rvec F) (a : nat),
  mv n (fun a0 b => cmul F (post a0) (p b)) v a = cmul F (dot n p v) (post a).
Proof. exact gm_mode2_action. Qed.
Print Assumptions C06_generate_mprocess_mode2_measure_and_prepare.
(* COMPLETE POSITIVITY of the generated instruments (round 3): the Choi matrix of the mode-0 instrument and of the mode-1 instrument (group keys
   >= 0, i.e. the effect's eigenvalues as returned by eigh are non-negative), converted from the comp basis to any complete basis B, is PSD *)
Theorem C06_generate_mprocess_mode0_is_cp : forall (F : OF) (d : nat) (B : nat -> cmat F) (S : cmat F), basis_complete d B ->
  cpsd F (d * d) (C02_Conv.cchoi_of_hs d B (C02_Conv.convert_hs d (C02_Conv.comp_basis d) B (gm_mode0_cb F d S))).
Proof. exact gm_mode0_choi_cpsd. Qed.
Print Assumptions C06_generate_mprocess_mode0_is_cp.
Theorem C06_generate_mprocess_mode1_is_cp : forall (F : OF) (d : nat) (B : nat -> cmat F) (tol : F) (w : nat -> F) (V : cmat F), basis_complete d B ->
  Forall (fun g => kle F (c0 F) (fst g)) (gm1_groups F d (colouter F V) tol w) ->
  cpsd F (d * d) (C02_Conv.cchoi_of_hs d B (C02_Conv.convert_hs d (C02_Conv.comp_basis d) B (gm_mode1_cb F d tol w V))).
Proof. exact gm_mode1_choi_cpsd. Qed.
Print Assumptions C06_generate_mprocess_mode1_is_cp.
(* PARTIAL: stated for the complex HS matrix BEFORE truncate_hs (which drops imaginary rounding noise and zeroes |entries| < 1e-13) and with C02's
   convert_hs (the executed model uses its own c06_convert_from_cb, same formula); CP of the mode-2 instrument |rho>><<Pi| (needs PSD of a
   Kronecker product of PSD matrices) is not proved; all three are DECIDED exactly on every generated instrument by psd_dec. *)

(* ================================================================== 9. the code AS IT WAS BEFORE the fixes violates the property
   (statements about the labelled pre-fix definitions; computed witnesses on the 2-qubit normalised Pauli basis, sd = 2) *)
(* before fix compose-mprocess-mprocess-order-layout: both bracketings of (MProcess A, MProcess B, State) are defined and give different
   shapes and different probabilities *)
Theorem C06_mprocess_mprocess_before_fix_refuted :
  exists (A B : mproc QF) (s : Z) (v : rvec QF) (AB : qobj QF) (E1 E2 : ensemble QF),
    w_fold false false [QMProc _ A; QMProc _ B; QState _ s v] = MOk (QEns _ E1) /\
    w_compose2 false false (QMProc _ A) (QMProc _ B) = MOk AB /\
    w_compose2 false false AB (QState _ s v) = MOk (QEns _ E2) /\
    d_shape _ (en_dist _ E1) <> d_shape _ (en_dist _ E2) /\
    d_ps _ (en_dist _ E1) <> d_ps _ (en_dist _ E2).
Proof. exact compose_mprocess_mprocess_refuted. Qed.
Print Assumptions C06_mprocess_mprocess_before_fix_refuted.
(* before fix compose-mprocess-state-poststate-normalisation: a retained outcome whose post state has trace 199/200
   ( w_cut false = the pre-fix compose2 of a z-measurement with eps_zero = 1/100 on diag(199/200, 1/200) (x) I/2 ) *)
Theorem C06_post_state_before_fix_refuted :
  exists (E : ensemble QF) (st : rvec QF),
    w_cut false = MOk (QEns _ E) /\
    nth 0 (d_ps _ (en_dist _ E)) 0%Qc <> 0%Qc /\ nth_error (en_states _ E) 0 = Some st /\ (w_sd * st 0%nat)%Qc <> 1%Qc.
Proof. exact mprocess_poststate_refuted. Qed.
Print Assumptions C06_post_state_before_fix_refuted.
(* before fix povm-generate-mprocess-mode1-eigenvectors (rows of V, no conjugate) the instrument does not induce V diag(w) V^dagger, for
   a real rotation and for a complex symmetric unitary; the code and the docstring formula do *)
Theorem C06_generate_mprocess_mode1_before_fix_refuted :
  chk_induces (gm_mode1_cb_prefix QF 2 w_eig V_real) (eig_matrix V_real) = false /\
  chk_induces (gm_mode1_cb_prefix QF 2 w_eig V_cplx) (eig_matrix V_cplx) = false /\
  chk_induces (gm_mode1_cb QF 2 w_atol w_eig V_real) (eig_matrix V_real) = true /\
  chk_induces (gm_mode1_cb QF 2 w_atol w_eig V_cplx) (eig_matrix V_cplx) = true /\
  chk_induces (gm_mode1_cb_doc QF 2 w_eig V_real) (eig_matrix V_real) = true /\
  chk_induces (gm_mode1_cb_doc QF 2 w_eig V_cplx) (eig_matrix V_cplx) = true.
Proof. exact generate_mprocess_mode1_refuted. Qed.
Print Assumptions C06_generate_mprocess_mode1_before_fix_refuted.

(* before fix povm-generate-mprocess-mode1-eigenspace-tolerance (round 3; grouping by BITWISE equality = tol 0): for the eigen-decomposition
   (w, V) = ((1, 1 + 1e-14), rotation) of the trivial effect I the pre-fix instrument is not the identity channel (it dephases in the
   basis V); the code (tol = atol = 1e-13) gives the identity channel *)
Theorem C06_generate_mprocess_mode1_before_tolerance_fix_refuted :
  chk_unitary V_real = true /\ Qc_eq_bool (w_deg 0%nat) (w_deg 1%nat) = false /\ kleb QF (absF' QF (w_deg 1%nat - w_deg 0%nat)%Qc) w_atol = true /\
  chk_identity_channel (gm_mode1_cb QF 2 w_atol w_deg V_real) = true /\
  chk_identity_channel (gm_mode1_cb QF 2 0%Qc w_deg V_real) = false.
Proof. exact generate_mprocess_mode1_eigenspace_refuted. Qed.
Print Assumptions C06_generate_mprocess_mode1_before_tolerance_fix_refuted.

(* ================================================================== the hypotheses are satisfiable (concrete, non-trivial instances) *)
(* the basis hypotheses: 2-qubit normalised Pauli basis, sd = 2, exactly in Qc *)
Example C06_example_basis : basis_orthonormal 4 pauli2 /\ basis_hermitian 4 pauli2 /\ basis_complete 4 pauli2 /\
  @basis_0th_identity Qc_OF 4 w_sd pauli2 /\ (w_sd * w_sd = q 4 1)%Qc.
Proof. exact (conj pauli2_orthonormal (conj pauli2_hermitian (conj pauli2_complete (conj pauli2_0th w_sd_sq)))). Qed.
(* Povm on State without truncation: the POVM induced by the 2-outcome x-type instrument B on the witness state *)
Example C06_example_born : Forall (fun p => kle QF w_atol p) (born_list QF w_n w_povmB w_vec) /\ lsum QF (born_list QF w_n w_povmB w_vec) = 1%Qc.
Proof. exact (conj w_born_ge w_born_sum). Qed.
(* MProcess on State with no outcome cut *)
Example C06_example_nocut : forallb (fun H => negb (mps_cut QF (mp_eps QF mpB) 1%Qc (w_sd * mv w_n H w_vec 0%nat)%Qc)) (mp_hss QF mpB) = true.
Proof. exact w_nocut. Qed.
(* two bracketings of (A, B, B) (3-outcome z-type after two non-commuting 2-outcome x-type instruments) are both defined under the code *)
Example C06_example_bracketings : qflat QF w_t1 = qflat QF w_t2 /\ forallb (is_linear QF) (qflat QF w_t1) = true /\
  is_ok (w_qeval w_t1) = true /\ is_ok (w_qeval w_t2) = true.
Proof. exact (conj w_t_flat (conj w_t_linear (conj w_t1_ok w_t2_ok))). Qed.
(* ... and on the chain (A, B, state) the code gives the same distribution with the same shape [2; 3] for both bracketings *)
Example C06_example_chain_agrees : dist_of (w_left true) = dist_of (w_seq true).
Proof. exact compose_mprocess_mprocess_fixed_agrees. Qed.
(* the same input that refutes the pre-fix post state: under the code the retained post state has trace one *)
Example C06_example_post_state : exists (E : ensemble QF) (st : rvec QF), w_cut true = MOk (QEns _ E) /\
  nth 0 (d_ps _ (en_dist _ E)) 0%Qc <> 0%Qc /\ nth_error (en_states _ E) 0 = Some st /\ (w_sd * st 0%nat)%Qc = 1%Qc.
Proof. exact mprocess_poststate_fixed_witness. Qed.
(* mode 1: rational unitaries (a real rotation, a complex symmetric one) with orthonormal columns, eig_matrix = V diag(w) V^dagger *)
Example C06_example_mode1 : cols_orthonormal QF 2 V_real /\ cols_orthonormal QF 2 V_cplx /\
  meq 2 2 (eig_matrix V_real) (spectral QF 2 V_real w_eig) /\ meq 2 2 (eig_matrix V_cplx) (spectral QF 2 V_cplx w_eig) /\ kle QF (c0 QF) w_atol.
Proof. exact (conj V_real_cols (conj V_cplx_cols (conj eig_matrix_spectral_real (conj eig_matrix_spectral_cplx w_atol_nonneg)))). Qed.
(* mode 0: a Hermitian (complex, non-diagonal) S; Pi := S S *)
Example C06_example_mode0 : hermitian 2 S_herm /\ meq 2 2 (mmul 2 S_herm S_herm) (mmul 2 S_herm S_herm).
Proof. exact (conj S_herm_hermitian (meq_refl 2 2 _)). Qed.
