(* C03 — optimisation variables and objects are in one-to-one correspondence: property theorems only.
   All statements are generic in the ordered field F (they hold for the executed instance Qc and for R) and
   in the value [sdf d] used for sqrt(d): none of them needs  sdf d * sdf d = d.
   Objects: [qop F] = State / Gate / Povm / MProcess with (d, on_para_eq_constraint, data); [qop_wf] = the
   array shapes are consistent (d >= 1, m >= 1; m >= 2 for a Povm under the constraint, where numpy's to_var
   raises for m = 1). *)
From Coq Require Import ZArith Bool List Arith Lia QArith Qcanon.
From QV.Core Require Import OF QcOF.
From QV.Model Require Import C03_Index C03_VarObj C03_SetQOps C03_SetHistory.
From QV.Proofs Require Import C03_Index C03_VarObj C03_SetQOps C03_Derivative C03_Extra C03_SetHistory C03_ExecSpec C03_RegenChunks.
From QV.Model Require Import C03_PySem.
From QV.Exec Require Import Base C03_ops.
Import ListNotations.

(* ------------------------------------------------------------------ round trips *)
(* var -> object -> var = var, for EVERY variable vector of the right length (all four types, both flags, all d, m) *)
Theorem C03_var_obj_var : forall (F : OF) (sdf : nat -> F) (o : qop F) (var : list F),
  qop_wf F o -> length var = length (qop_to_var F o) ->
  exists o', qop_from_var F sdf o var = Some o' /\ qop_to_var F o' = var /\ qop_wf F o' /\ qop_same_shape F o o'.
Proof. exact qop_var_obj_var. Qed.
Print Assumptions C03_var_obj_var.

(* object -> var -> object = the object with its implied component overwritten by the implied value ... *)
Theorem C03_obj_var_obj : forall (F : OF) (sdf : nat -> F) (o : qop F),
  qop_wf F o -> qop_from_var F sdf o (qop_to_var F o) = Some (qop_reimplied F sdf o).
Proof. exact qop_obj_var_obj. Qed.
Print Assumptions C03_obj_var_obj.

(* ... hence it reproduces the object EXACTLY WHEN the object satisfies the implied component
   (state: first coefficient 1/sd; povm: elements sum to sd*e0; gate: first row e0; mprocess: first rows sum to e0) *)
Theorem C03_obj_var_obj_iff : forall (F : OF) (sdf : nat -> F) (o : qop F),
  qop_wf F o -> (qop_from_var F sdf o (qop_to_var F o) = Some o <-> qop_eq_ok F sdf o).
Proof. exact qop_obj_var_obj_iff. Qed.
Print Assumptions C03_obj_var_obj_iff.

(* what is lost otherwise: only the implied component — every free entry survives, and the result satisfies the constraint *)
Theorem C03_lost_only_implied : forall (F : OF) (sdf : nat -> F) (o : qop F),
  qop_wf F o ->
  qop_to_var F (qop_reimplied F sdf o) = qop_to_var F o /\ qop_eq_ok F sdf (qop_reimplied F sdf o).
Proof. exact qop_reimplied_keeps_free. Qed.
Print Assumptions C03_lost_only_implied.

(* error branch (gate): generate_from_var raises exactly on a vector of the wrong length *)
Theorem C03_gate_from_var_error_iff : forall (F : OF) (d : nat) (flag : bool) (var : list F),
  (1 <= d)%nat ->
  (gate_var_to_hs F d flag var = None <-> length var <> ((d * d - (if flag then 1 else 0)) * (d * d))%nat).
Proof. exact gate_from_var_error_iff. Qed.
Print Assumptions C03_gate_from_var_error_iff.

(* ------------------------------------------------------------------ stacked vector <-> variables, consistent with the above *)
Theorem C03_var_to_stacked_consistent : forall (F : OF) (sdf : nat -> F) (o : qop F) (var : list F) (o' : qop F),
  qop_wf F o -> qop_from_var F sdf o var = Some o' ->
  qop_var_to_stacked F sdf o var = Some (qop_stacked F o').
Proof. exact qop_var_to_stacked_consistent. Qed.
Print Assumptions C03_var_to_stacked_consistent.

Theorem C03_stacked_to_var_consistent : forall (F : OF) (sdf : nat -> F) (o : qop F),
  qop_wf F o -> qop_stacked_to_var F sdf o (qop_stacked F o) = Some (qop_to_var F o).
Proof. exact qop_stacked_to_var_consistent. Qed.
Print Assumptions C03_stacked_to_var_consistent.

(* var -> stacked -> var = var for EVERY variable vector of the right length (static conversions, all types, both flags) *)
Theorem C03_var_stacked_var : forall (F : OF) (sdf : nat -> F) (o : qop F) (var : list F),
  qop_wf F o -> length var = length (qop_to_var F o) ->
  exists st, qop_var_to_stacked F sdf o var = Some st /\ qop_stacked_to_var F sdf o st = Some var.
Proof. exact qop_var_stacked_var. Qed.
Print Assumptions C03_var_stacked_var.

(* stacked -> var -> stacked = the stacked vector of the object with its implied component overwritten *)
Theorem C03_stacked_var_stacked : forall (F : OF) (sdf : nat -> F) (o : qop F),
  qop_wf F o ->
  exists v, qop_stacked_to_var F sdf o (qop_stacked F o) = Some v /\
            qop_var_to_stacked F sdf o v = Some (qop_stacked F (qop_reimplied F sdf o)).
Proof. exact qop_stacked_var_stacked. Qed.
Print Assumptions C03_stacked_var_stacked.

(* ------------------------------------------------------------------ number of variables *)
(* length of the variable vector = the num_variables formula of StandardQst / Qpt / Povmt / Qmpt *)
Theorem C03_length_is_num_variables : forall (F : OF) (o : qop F),
  qop_wf F o -> Z.of_nat (length (qop_to_var F o)) = qop_num_variables F o.
Proof. exact qop_num_variables_length. Qed.
Print Assumptions C03_length_is_num_variables.

(* ------------------------------------------------------------------ the eight index maps (Z arithmetic as coded) *)
Local Open Scope Z_scope.
(* each var->object map sends [0, num_variables) into the free entries, its partner undoes it ... *)
Theorem C03_state_index_fwd : forall d flag i, 0 <= i < nv_state d flag ->
  free_state d flag (state_index_of_var flag i) /\ var_of_state_index flag (state_index_of_var flag i) = i /\
  flat_state (state_index_of_var flag i) = i + shift_state flag.
Proof. exact state_index_fwd. Qed.
Print Assumptions C03_state_index_fwd.
(* ... and every free entry is hit: the partner maps the free entries into [0, num_variables) and is undone in turn.
   Together: mutually inverse bijections  [0, num_variables) <-> free entries. *)
Theorem C03_state_index_bwd : forall d flag k, free_state d flag k ->
  0 <= var_of_state_index flag k < nv_state d flag /\ state_index_of_var flag (var_of_state_index flag k) = k.
Proof. exact state_index_bwd. Qed.
Print Assumptions C03_state_index_bwd.

Theorem C03_povm_index_fwd : forall d m flag i, 0 < d -> 0 <= i < nv_povm d m flag ->
  free_povm d m flag (povm_index_of_var (d * d) i) /\
  var_of_povm_index (d * d) (povm_index_of_var (d * d) i) = i /\
  flat_povm d (povm_index_of_var (d * d) i) = i.
Proof. exact povm_index_fwd. Qed.
Print Assumptions C03_povm_index_fwd.
Theorem C03_povm_index_bwd : forall d m flag p, 0 < d -> free_povm d m flag p ->
  0 <= var_of_povm_index (d * d) p < nv_povm d m flag /\
  povm_index_of_var (d * d) (var_of_povm_index (d * d) p) = p.
Proof. exact povm_index_bwd. Qed.
Print Assumptions C03_povm_index_bwd.

Theorem C03_gate_index_fwd : forall d flag i, 0 < d -> 0 <= i < nv_gate d flag ->
  free_gate d flag (gate_index_of_var d flag i) /\
  var_of_gate_index d flag (gate_index_of_var d flag i) = i /\
  flat_gate d (gate_index_of_var d flag i) = i + shift_gate d flag.
Proof. exact gate_index_fwd. Qed.
Print Assumptions C03_gate_index_fwd.
Theorem C03_gate_index_bwd : forall d flag p, 0 < d -> free_gate d flag p ->
  0 <= var_of_gate_index d flag p < nv_gate d flag /\
  gate_index_of_var d flag (var_of_gate_index d flag p) = p.
Proof. exact gate_index_bwd. Qed.
Print Assumptions C03_gate_index_bwd.

Theorem C03_mproc_index_fwd : forall d m flag i, 0 < d -> 0 <= i < nv_mproc d m flag ->
  free_mproc d m flag (mproc_index_of_var d m flag i) /\
  var_of_mproc_index d m flag (mproc_index_of_var d m flag i) = i /\
  flat_mproc d (mproc_index_of_var d m flag i) = i + shift_mproc d m flag i.
Proof. exact mproc_index_fwd. Qed.
Print Assumptions C03_mproc_index_fwd.
Theorem C03_mproc_index_bwd : forall d m flag p, 0 < d -> free_mproc d m flag p ->
  0 <= var_of_mproc_index d m flag p < nv_mproc d m flag /\
  mproc_index_of_var d m flag (var_of_mproc_index d m flag p) = p.
Proof. exact mproc_index_bwd. Qed.
Print Assumptions C03_mproc_index_bwd.

(* the index map points at the entry holding that variable's value:
   stacked(o)[ flat(index i) ] = to_var(o)[ i ]   (all four types; [qop_flat_index] is flat o index) *)
Theorem C03_index_points_at_entry : forall (F : OF) (o : qop F) (i : Z),
  qop_wf F o -> 0 <= i < qop_num_variables F o ->
  nth (Z.to_nat (qop_flat_index F o i)) (qop_stacked F o) (c0 F) = nth (Z.to_nat i) (qop_to_var F o) (c0 F).
Proof. exact qop_index_points. Qed.
Print Assumptions C03_index_points_at_entry.

(* calc_gradient(i) is the one-hot at that entry.  (For Povm / MProcess under the constraint the derivative of
   var |-> stacked additionally has -1 in the implied element; calc_gradient returns the one-hot part only —
   which is what the property asks.) *)
Theorem C03_gradient_one_hot : forall (F : OF) (o : qop F) (i : Z),
  qop_wf F o -> 0 <= i < qop_num_variables F o ->
  exists g, qop_gradient F o i = Some g /\ length g = length (qop_stacked F o) /\
    (Z.to_nat (qop_flat_index F o i) < length g)%nat /\
    forall j, nth j g (c0 F) = if Nat.eqb j (Z.to_nat (qop_flat_index F o i)) then c1 F else c0 F.
Proof. exact qop_gradient_one_hot. Qed.
Print Assumptions C03_gradient_one_hot.

(* State and Gate (both flags), Povm and MProcess without the constraint: the one-hot IS the exact derivative of
   var |-> stacked  (var' = var + t e_i  moves exactly the designated entry, by t) *)
Theorem C03_gradient_is_exact_derivative : forall (F : OF) (sdf : nat -> F) (o : qop F) (var var' : list F) (i : nat) (t : F),
  qop_wf F o -> grad_exact F o -> length var = length (qop_to_var F o) -> (i < length var)%nat -> bumped F var var' i t ->
  exists st st', qop_var_to_stacked F sdf o var = Some st /\ qop_var_to_stacked F sdf o var' = Some st' /\
    forall pos, nth pos st' (c0 F) =
                cadd F (nth pos st (c0 F)) (if Nat.eqb pos (Z.to_nat (qop_flat_index F o (Z.of_nat i))) then t else c0 F).
Proof. exact qop_true_derivative_exact. Qed.
Print Assumptions C03_gradient_is_exact_derivative.

(* Povm under the constraint (q = m-1 free elements): the exact derivative is the one-hot at entry i MINUS a one-hot in the
   implied last element, at the same coefficient position  i mod d^2 *)
Theorem C03_povm_true_derivative : forall (F : OF) (d : nat) (sd : F) (q : nat) (var var' : list F) (i : nat) (t : F),
  (1 <= d)%nat -> length var = (q * (d * d))%nat -> (i < q * (d * d))%nat -> bumped F var var' i t ->
  exists vecs vecs', povm_var_to_vecs F d sd true var = Some vecs /\ povm_var_to_vecs F d sd true var' = Some vecs' /\
    forall pos, (pos < (q + 1) * (d * d))%nat ->
      nth pos (povm_stacked F vecs') (c0 F) =
      csub F (cadd F (nth pos (povm_stacked F vecs) (c0 F)) (if Nat.eqb pos i then t else c0 F))
             (if Nat.eqb pos (q * (d * d) + i mod (d * d)) then t else c0 F).
Proof. exact povm_true_derivative. Qed.
Print Assumptions C03_povm_true_derivative.

(* MProcess under the constraint: one-hot at the designated entry (shifted by d^2 inside the last HS) MINUS, when variable i
   sits in the FIRST ROW of one of the first m-1 HS matrices, a one-hot in the implied first row of the last HS *)
Theorem C03_mproc_true_derivative : forall (F : OF) (d m : nat) (var var' : list F) (i : nat) (t : F),
  (1 <= d)%nat -> (1 <= m)%nat ->
  length var = ((m - 1) * (d * d * (d * d)) + (d * d - 1) * (d * d))%nat -> (i < length var)%nat ->
  bumped F var var' i t ->
  forall pos, (pos < m * (d * d * (d * d)))%nat ->
    nth pos (mp_var_to_stacked F d true var') (c0 F) =
    csub F (cadd F (nth pos (mp_var_to_stacked F d true var) (c0 F))
              (if Nat.eqb pos (if Nat.ltb i ((m - 1) * (d * d * (d * d))) then i else i + d * d) then t else c0 F))
           (if Nat.ltb i ((m - 1) * (d * d * (d * d))) && Nat.ltb (i mod (d * d * (d * d))) (d * d)
               && Nat.eqb pos ((m - 1) * (d * d * (d * d)) + i mod (d * d * (d * d))) then t else c0 F).
Proof. exact mp_true_derivative. Qed.
Print Assumptions C03_mproc_true_derivative.

(* ------------------------------------------------------------------ SetQOperations: any mix, any number of operations *)
(* local -> total -> local, for an arbitrary family of segment sizes *)
Theorem C03_set_local_total_local : forall (s : sizes) (k : kind) (i : nat) (j : Z),
  nonneg_sizes s -> (i < length (s k))%nat -> 0 <= j < nth i (s k) 0 ->
  exists t, total_from_local s k (Z.of_nat i) j = Some t /\ 0 <= t < size_total s /\
            local_from_total s t = LOk k (Z.of_nat i) j.
Proof. exact local_total_local. Qed.
Print Assumptions C03_set_local_total_local.

(* total -> local -> total *)
Theorem C03_set_total_local_total : forall (s : sizes) (t : Z),
  nonneg_sizes s -> 0 <= t < size_total s ->
  exists k (i : nat) j, local_from_total s t = LOk k (Z.of_nat i) j /\ (i < length (s k))%nat /\
    0 <= j < nth i (s k) 0 /\ total_from_local s k (Z.of_nat i) j = Some t.
Proof. exact total_local_total. Qed.
Print Assumptions C03_set_total_local_total.

(* IndexError exactly outside [0, size_var_total); the "variable referenced before assignment" state is unreachable *)
Theorem C03_set_index_error_iff : forall (s : sizes) (t : Z), nonneg_sizes s ->
  (local_from_total s t = LIndexError <-> ~ (0 <= t < size_total s)) /\ local_from_total s t <> LUnbound.
Proof. exact local_from_total_error_iff. Qed.
Print Assumptions C03_set_index_error_iff.

(* the total index of (kind, operation, local index) is where var_total holds that operation's variable *)
Theorem C03_set_total_index_points : forall (F : OF) (s : setq F) (k : kind) (i j : nat) (d : F) (dq : qop F),
  (i < length (ops_of F s k))%nat -> (j < length (qop_to_var F (nth i (ops_of F s k) dq)))%nat ->
  exists t, total_from_local (sizes_of F s) k (Z.of_nat i) (Z.of_nat j) = Some t /\
            0 <= t < size_total (sizes_of F s) /\
            local_from_total (sizes_of F s) t = LOk k (Z.of_nat i) (Z.of_nat j) /\
            nth (Z.to_nat t) (var_total F s) d = nth j (qop_to_var F (nth i (ops_of F s k) dq)) d.
Proof. exact total_index_points. Qed.
Print Assumptions C03_set_total_index_points.

(* var_total -> set -> var_total = var_total for every vector of the right length; sizes / shapes unchanged *)
Theorem C03_set_var_obj_var : forall (F : OF) (sdf : nat -> F) (s : setq F) (v : list F),
  setq_wf F s -> length v = length (var_total F s) ->
  exists s', set_from_var_total F sdf s v = Some s' /\ var_total F s' = v /\ setq_wf F s' /\
             (forall k, sizes_of F s' k = sizes_of F s k) /\
             (forall k, Forall2 (qop_same_shape F) (ops_of F s k) (ops_of F s' k)).
Proof. exact set_var_obj_var. Qed.
Print Assumptions C03_set_var_obj_var.

(* set -> var_total -> set = every operation with its implied component overwritten; the set itself when all satisfy it *)
Theorem C03_set_obj_var_obj : forall (F : OF) (sdf : nat -> F) (s : setq F),
  setq_wf F s -> set_from_var_total F sdf s (var_total F s) = Some (setq_reimplied F sdf s).
Proof. exact set_obj_var_obj. Qed.
Print Assumptions C03_set_obj_var_obj.
Theorem C03_set_obj_var_obj_id : forall (F : OF) (sdf : nat -> F) (s : setq F),
  setq_wf F s -> (forall k, Forall (qop_eq_ok F sdf) (ops_of F s k)) ->
  set_from_var_total F sdf s (var_total F s) = Some s.
Proof. exact set_obj_var_obj_id. Qed.
Print Assumptions C03_set_obj_var_obj_id.
(* ValueError on a wrong length *)
Theorem C03_set_wrong_length_error : forall (F : OF) (sdf : nat -> F) (s : setq F) (v : list F),
  length v <> length (var_total F s) -> set_from_var_total F sdf s v = None.
Proof. exact set_from_var_total_error. Qed.
Print Assumptions C03_set_wrong_length_error.

(* size_var_total = len(var_total), and every operation contributes exactly its num_variables *)
Theorem C03_set_size_is_length : forall (F : OF) (s : setq F),
  Z.of_nat (length (var_total F s)) = size_total (sizes_of F s).
Proof. exact var_total_length. Qed.
Print Assumptions C03_set_size_is_length.
Theorem C03_set_sizes_are_num_variables : forall (F : OF) (s : setq F) (k : kind) (i : nat) (dq : qop F),
  setq_wf F s -> (i < length (ops_of F s k))%nat ->
  nth i (sizes_of F s k) 0 = qop_num_variables F (nth i (ops_of F s k) dq).
Proof. exact sizes_are_num_variables. Qed.
Print Assumptions C03_set_sizes_are_num_variables.

(* across a whole set: the total index of (kind, operation i, local variable j) is where var_total holds the OBJECT ENTRY that
   the operation's own index map designates for j *)
Theorem C03_set_total_points_at_entry : forall (F : OF) (s : setq F) (k : kind) (i j : nat) (dq : qop F),
  setq_wf F s -> (i < length (ops_of F s k))%nat ->
  0 <= Z.of_nat j < qop_num_variables F (nth i (ops_of F s k) dq) ->
  exists t, total_from_local (sizes_of F s) k (Z.of_nat i) (Z.of_nat j) = Some t /\
            0 <= t < size_total (sizes_of F s) /\
            local_from_total (sizes_of F s) t = LOk k (Z.of_nat i) (Z.of_nat j) /\
            nth (Z.to_nat t) (var_total F s) (c0 F) =
            nth (Z.to_nat (qop_flat_index F (nth i (ops_of F s k) dq) (Z.of_nat j)))
                (qop_stacked F (nth i (ops_of F s k) dq)) (c0 F).
Proof. exact set_total_points_at_entry. Qed.
Print Assumptions C03_set_total_points_at_entry.

(* the regeneration loop of set_qoperations_from_var_total, as the model has it (cut firstn n, continue on skipn n), is generate_from_var
   applied operation by operation to the pieces [chunks_model] of the operations' variable counts; coq/gen/C03_SetEquiv.v proves that the
   slices var_total[start:end] of the loop REGENERATED from the source are exactly those pieces *)
Theorem C03_regen_is_chunks : forall (F : OF) (sdf : nat -> F) (ops : list (qop F)) (v : list F),
  option_map fst (regen F sdf ops v) = regen_by_chunks F sdf ops (chunks_model (var_counts F ops) v).
Proof. exact regen_is_chunks. Qed.
Print Assumptions C03_regen_is_chunks.

(* ------------------------------------------------------------------ SetQOperations over a HISTORY
   (events: the five queries, the four setters, in-place item assignment / insert / pop on the lists the properties hand out;
    the state of the model is the four lists and nothing else, as in qoperations.py) *)
(* queries leave no trace: the set a history leads to is the set its edits alone lead to *)
Theorem C03_history_edits_only : forall (F : OF) (h : list (hop F)) (s : setq F),
  run_history F s h = run_history F s (filter (is_edit F) h).
Proof. exact run_history_edits_only. Qed.
Print Assumptions C03_history_edits_only.
(* whatever was asked or edited before, a query is answered by the CURRENT contents *)
Theorem C03_history_answer_is_current : forall (F : OF) (sdf : nat -> F) (s : setq F) (h : list (hop F)) (qr : hop F),
  nth (length h) (transcript F sdf s (h ++ [qr])) (ANone F) =
  answer_of F sdf (run_history F s (filter (is_edit F) h)) qr.
Proof. exact answer_after_history. Qed.
Print Assumptions C03_history_answer_is_current.
(* hence the index theorems hold for the set AS IT IS NOW: every total index has a local address that maps back to it ... *)
Theorem C03_history_total_local_total : forall (F : OF) (s : setq F) (h : list (hop F)) (t : Z),
  let s' := run_history F s h in
  0 <= t < size_total (sizes_of F s') ->
  exists k (i : nat) j, local_from_total (sizes_of F s') t = LOk k (Z.of_nat i) j /\ (i < length (ops_of F s' k))%nat /\
    0 <= j < nth i (sizes_of F s' k) 0 /\ total_from_local (sizes_of F s') k (Z.of_nat i) j = Some t.
Proof. exact history_total_local_total. Qed.
Print Assumptions C03_history_total_local_total.
(* ... and the total index of (kind, operation, local variable) points at the object entry holding that variable's value in the
   CURRENT var_total, after any history that puts well-formed objects into the set *)
Theorem C03_history_points_at_entry : forall (F : OF) (s : setq F) (h : list (hop F)) (k : kind) (i j : nat) (dq : qop F),
  setq_wf F s -> Forall (hop_wf F) h ->
  let s' := run_history F s h in
  (i < length (ops_of F s' k))%nat -> 0 <= Z.of_nat j < qop_num_variables F (nth i (ops_of F s' k) dq) ->
  exists t, total_from_local (sizes_of F s') k (Z.of_nat i) (Z.of_nat j) = Some t /\
            0 <= t < size_total (sizes_of F s') /\
            local_from_total (sizes_of F s') t = LOk k (Z.of_nat i) (Z.of_nat j) /\
            nth (Z.to_nat t) (var_total F s') (c0 F) =
            nth (Z.to_nat (qop_flat_index F (nth i (ops_of F s' k) dq) (Z.of_nat j)))
                (qop_stacked F (nth i (ops_of F s' k) dq)) (c0 F).
Proof. exact history_points_at_entry. Qed.
Print Assumptions C03_history_points_at_entry.

(* ------------------------------------------------------------------ the executed wrappers (Exec/C03_ops.v) on the harness's encoding
   sizes = four length-prefixed blocks (state, gate, povm, mprocess); objects = (type code, d, m, flag) + stacked vector *)
Theorem C03_exec_local_from_total : forall (s : sizes) (t : Z) (qs : list Qc),
  op_local_from_total (t :: encode_sizes s) qs =
  match local_from_total s t with
  | LOk k i j => Ok [qz (code_of k); qz i; qz j]
  | LIndexError => Err 3
  | LUnbound => Err 4
  end.
Proof. exact op_local_from_total_spec. Qed.
Print Assumptions C03_exec_local_from_total.
Theorem C03_exec_total_from_local : forall (s : sizes) (k : kind) (i j : Z) (qs : list Qc),
  op_total_from_local (code_of k :: i :: j :: encode_sizes s) qs =
  match total_from_local s k i j with Some t => Ok [qz t] | None => Err 3 end.
Proof. exact op_total_from_local_spec. Qed.
Print Assumptions C03_exec_total_from_local.
(* a well-formed object is rebuilt exactly from its stacked vector, so the to_var wrapper computes the model's to_var of that object *)
Theorem C03_exec_to_var : forall (o : qop Qc_OF), qop_wf Qc_OF o ->
  obj_of_stacked (qop_code o) (Z.of_nat (qop_d o)) (Z.of_nat (qop_m o)) (qop_flag o) (qop_stacked Qc_OF o) = o /\
  op_to_var [qop_code o; Z.of_nat (qop_d o); Z.of_nat (qop_m o); flag_code (qop_flag o)] (qop_stacked Qc_OF o) = Ok (qop_to_var Qc_OF o).
Proof. intros o W. split; [exact (obj_of_stacked_stacked o W)|exact (op_to_var_spec o W)]. Qed.
Print Assumptions C03_exec_to_var.

(* the generate_from_var and calc_gradient wrappers: the template the wrapper rebuilds from no data has the object's configuration, and the
   model reads nothing else of it *)
Theorem C03_exec_from_var : forall (o : qop Qc_OF) (sd : Qc) (var : list Qc),
  op_from_var [qop_code o; Z.of_nat (qop_d o); Z.of_nat (qop_m o); flag_code (qop_flag o)] (sd :: var) =
  match qop_from_var Qc_OF (fun _ => sd) o var with Some o' => Ok (qop_stacked Qc_OF o') | None => Err 1 end.
Proof. exact op_from_var_spec. Qed.
Print Assumptions C03_exec_from_var.
Theorem C03_exec_gradient : forall (o : qop Qc_OF) (i : Z) (qs : list Qc),
  op_gradient [qop_code o; Z.of_nat (qop_d o); Z.of_nat (qop_m o); flag_code (qop_flag o); i] qs =
  match qop_gradient Qc_OF o i with Some g => Ok g | None => Err 2 end.
Proof. exact op_gradient_spec. Qed.
Print Assumptions C03_exec_gradient.

(* the static stacked <-> var wrappers *)
Theorem C03_exec_static_conversions : forall (o : qop Qc_OF) (sd : Qc) (l : list Qc),
  op_var_to_stacked [qop_code o; Z.of_nat (qop_d o); flag_code (qop_flag o)] (sd :: l) =
    match qop_var_to_stacked Qc_OF (fun _ => sd) o l with Some r => Ok r | None => Err 1 end /\
  op_stacked_to_var [qop_code o; Z.of_nat (qop_d o); flag_code (qop_flag o)] (sd :: l) =
    match qop_stacked_to_var Qc_OF (fun _ => sd) o l with Some r => Ok r | None => Err 1 end.
Proof. intros o sd l. split; [exact (op_var_to_stacked_spec o sd l)|exact (op_stacked_to_var_spec o sd l)]. Qed.
Print Assumptions C03_exec_static_conversions.

(* the index wrappers: the number of variables and the flat position reported for variable i are the model's *)
Theorem C03_exec_index_wrappers : forall (o : qop Qc_OF) (i : Z),
  op_numvar [qop_code o; Z.of_nat (qop_d o); Z.of_nat (qop_m o); flag_code (qop_flag o)] [] = Ok [qz (qop_num_variables Qc_OF o)] /\
  idx_flat (qop_code o) (Z.of_nat (qop_d o))
           (idx_fwd (qop_code o) (Z.of_nat (qop_d o)) (Z.of_nat (qop_m o)) (qop_flag o) i) = qop_flat_index Qc_OF o i.
Proof. intros o i. split; [exact (exec_numvar_spec o)|exact (exec_idx_flat_spec o i)]. Qed.
Print Assumptions C03_exec_index_wrappers.

(* ------------------------------------------------------------------ non-vacuity: concrete instances over Qc *)
(* index maps: 1-qubit instrument with 3 outcomes under the constraint has 3*16-4 = 44 variables; variable 40 lives in
   the last HS matrix, row 3 (shifted by the implied row), column 0, i.e. at stacked position 44 = 40 + 4 *)
Example C03_example_index :
  0 < 2 /\ 0 <= 40 < nv_mproc 2 3 true /\ mproc_index_of_var 2 3 true 40 = (2, 3, 0) /\
  free_mproc 2 3 true (2, 3, 0) /\ var_of_mproc_index 2 3 true (2, 3, 0) = 40 /\ flat_mproc 2 (2, 3, 0) = 44.
Proof. cbv. repeat split; congruence. Qed.

Definition q (z : Z) : Qc := Q2Qc (inject_Z z).
(* a non-physical 1-qubit gate that satisfies its implied component (first row e0) and one that does not *)
Definition ex_gate_ok : qop Qc_OF :=
  QGate Qc_OF 2 true [[q 1; q 0; q 0; q 0]; [q 2; q 3; q 5; q 7]; [q (-1); q 4; q 0; q 9]; [q 6; q (-8); q 1; q 2]].
Definition ex_gate_bad : qop Qc_OF :=
  QGate Qc_OF 2 true [[q 1; q 1; q 0; q 0]; [q 2; q 3; q 5; q 7]; [q (-1); q 4; q 0; q 9]; [q 6; q (-8); q 1; q 2]].
Example C03_example_objects :
  qop_wf Qc_OF ex_gate_ok /\ qop_eq_ok Qc_OF (fun _ => q 2) ex_gate_ok /\
  qop_wf Qc_OF ex_gate_bad /\ ~ qop_eq_ok Qc_OF (fun _ => q 2) ex_gate_bad /\
  length (qop_to_var Qc_OF ex_gate_ok) = 12%nat /\ 0 <= 5 < qop_num_variables Qc_OF ex_gate_ok.
Proof. split; [|split; [|split; [|split; [|split]]]].
  - cbn. repeat split; try lia; repeat constructor.
  - right. reflexivity.
  - cbn. repeat split; try lia; repeat constructor.
  - intros [H|H]; [discriminate|].
    apply (f_equal (fun l => Qeq_bool (this (nth 1%nat l 0%Qc)) (this 0%Qc))) in H. vm_compute in H. discriminate.
  - reflexivity.
  - cbn. lia. Qed.

(* a set with a 2-outcome POVM (constraint on) and a state (constraint off), both 1-qubit *)
Definition ex_set : setq Qc_OF :=
  Build_setq Qc_OF [QState Qc_OF 2 false [q 1; q 2; q 3; q 4]] []
                   [QPovm Qc_OF 2 true [[q 1; q 2; q 3; q 4]; [q 5; q 6; q 7; q 8]]] [].
Example C03_example_set :
  setq_wf Qc_OF ex_set /\ nonneg_sizes (sizes_of Qc_OF ex_set) /\ size_total (sizes_of Qc_OF ex_set) = 8 /\
  local_from_total (sizes_of Qc_OF ex_set) 6 = LOk KPovm 0 2 /\
  total_from_local (sizes_of Qc_OF ex_set) KPovm 0 2 = Some 6.
Proof. split; [|split; [apply sizes_of_nonneg|repeat split; reflexivity]].
  intros k; destruct k; cbn; repeat constructor. Qed.

(* the hypotheses of the derivative theorems are satisfiable: a 1-qubit 3-outcome POVM under the constraint (q = 2, 8 variables),
   variable 5 moved by 3; and the 12 variables of ex_gate_ok, variable 5 moved by 3 *)
Definition ex_var : list Qc := [q 1; q 2; q 3; q 4; q 5; q 6; q 7; q 8].
Definition ex_var' : list Qc := [q 1; q 2; q 3; q 4; q 5; q 9; q 7; q 8].
Example C03_example_bumped :
  (1 <= 2)%nat /\ length ex_var = (2 * (2 * 2))%nat /\ (5 < 2 * (2 * 2))%nat /\ bumped Qc_OF ex_var ex_var' 5 (q 3) /\
  grad_exact Qc_OF ex_gate_ok /\ ~ grad_exact Qc_OF (QPovm Qc_OF 2 true []).
Proof. split; [lia|]. split; [reflexivity|]. split; [lia|]. split; [|split; [exact I|discriminate]].
  split; [reflexivity|]. intros k. do 8 (destruct k as [|k]; [apply Qc_is_canon; reflexivity|]).
  destruct k; apply Qc_is_canon; reflexivity. Qed.

(* a history on ex_set: ask where total index 6 lives (the POVM, local 2), replace the 4-variable state by the SAME NUMBER of states
   with the other parametrisation (3 variables), ask again: total index 6 is now local variable 3 of the POVM, 7 variables in total *)
Definition ex_hist : list (hop Qc_OF) :=
  [HLocalOfTotal Qc_OF 6; HSet Qc_OF KState [QState Qc_OF 2 true [q 1; q 2; q 3; q 4]]; HSizeTotal Qc_OF].
Example C03_example_history :
  Forall (hop_wf Qc_OF) ex_hist /\
  size_total (sizes_of Qc_OF (run_history Qc_OF ex_set ex_hist)) = 7 /\
  local_from_total (sizes_of Qc_OF (run_history Qc_OF ex_set ex_hist)) 6 = LOk KPovm 0 3 /\
  local_from_total (sizes_of Qc_OF ex_set) 6 = LOk KPovm 0 2.
Proof. split; [|repeat split; reflexivity].
  repeat constructor; cbn; lia. Qed.
