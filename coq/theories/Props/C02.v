(* C02 — all representations of one object denote the same operator: property theorems only.
   Every theorem is generic in the ordered field F (instances: Qc executed, R), in the dimension d and in the matrix
   basis B; bases enter only through the QObj predicates basis_orthonormal / basis_complete / basis_hermitian.
   Index bounds (i < d, a < d*d) restrict statements to the meaningful entries of the function-matrices. *)
From Coq Require Import Arith List Bool QArith Qcanon Lia.
From QV.Core Require Import OF Sums Mat Cplx QcOF.
From QV.Model Require Import QObj C02_Conv.
From QV.Proofs Require Import C02_QObjLemmas C02_Conv.
Import ListNotations.

(* ---------------------------------------------------------------- coefficient vector <-> operator (State, Povm elements) *)
(* vec -> density matrix -> vec is the identity (orthonormal basis) *)
Theorem C02_vec_of_op_of_vec : forall (F : OF) d (B : nat -> cmat F) (v : rvec F) a,
  basis_orthonormal d B -> (a < d * d)%nat -> vec_of_op d B (op_of_vec d B v) a = v a.
Proof. exact vec_of_op_of_vec. Qed.
Print Assumptions C02_vec_of_op_of_vec.

(* operator -> complex coefficients -> operator is the identity for EVERY matrix X (complete basis) *)
Theorem C02_op_of_cvec_of_op : forall (F : OF) d (B : nat -> cmat F) (X : cmat F) i j,
  basis_complete d B -> (i < d)%nat -> (j < d)%nat -> op_of_cvec d B (cvec_of_op d B X) i j = X i j.
Proof. exact op_of_cvec_of_op. Qed.
Print Assumptions C02_op_of_cvec_of_op.

(* density matrix -> real vec -> density matrix is the identity for Hermitian X (complete Hermitian basis) *)
Theorem C02_op_of_vec_of_op : forall (F : OF) d (B : nat -> cmat F) (X : cmat F) i j,
  basis_complete d B -> basis_hermitian d B -> hermitian d X -> (i < d)%nat -> (j < d)%nat ->
  op_of_vec d B (vec_of_op d B X) i j = X i j.
Proof. exact op_of_vec_of_op. Qed.
Print Assumptions C02_op_of_vec_of_op.

(* ---------------------------------------------------------------- HS <-> Choi *)
Theorem C02_hs_of_choi_of_hs : forall (F : OF) d (B : nat -> cmat F) (HS : rmat F) a b,
  basis_orthonormal d B -> (a < d * d)%nat -> (b < d * d)%nat -> hs_of_choi d B (choi_of_hs d B HS) a b = HS a b.
Proof. exact hs_of_choi_of_hs. Qed.
Print Assumptions C02_hs_of_choi_of_hs.

Theorem C02_choi_of_hs_of_choi : forall (F : OF) d (B : nat -> cmat F) (Ch : cmat F) i j,
  basis_complete d B -> basis_hermitian d B -> hermitian (d * d) Ch -> (i < d * d)%nat -> (j < d * d)%nat ->
  choi_of_hs d B (hs_of_choi d B Ch) i j = Ch i j.
Proof. exact choi_of_hs_of_choi. Qed.
Print Assumptions C02_choi_of_hs_of_choi.

(* the same two round trips for arbitrary complex matrices (non-physical, non-Hermiticity-preserving input) *)
Theorem C02_complex_hs_choi_round_trips : forall (F : OF) d (B : nat -> cmat F),
  (basis_orthonormal d B -> forall (H : cmat F) a b, (a < d * d)%nat -> (b < d * d)%nat ->
     chs_of_choi d B (cchoi_of_hs d B H) a b = H a b) /\
  (basis_complete d B -> forall (Ch : cmat F) i j, (i < d * d)%nat -> (j < d * d)%nat ->
     cchoi_of_hs d B (chs_of_choi d B Ch) i j = Ch i j).
Proof. exact complex_hs_choi_round_trips_thm. Qed.
Print Assumptions C02_complex_hs_choi_round_trips.

(* Frobenius isometry (polarised): <Choi(H), Choi(H')> = <H, H'>; for real HS matrices ||Choi||_F^2 = sum HS_ab^2 *)
Theorem C02_choi_isometry : forall (F : OF) d (B : nat -> cmat F), basis_orthonormal d B ->
  (forall H H' : cmat F, hs_inner (d * d) (cchoi_of_hs d B H) (cchoi_of_hs d B H') = hs_inner (d * d) H H') /\
  (forall HS HS' : rmat F, hs_inner (d * d) (choi_of_hs d B HS) (choi_of_hs d B HS') = zof (inner (d * d) (d * d) HS HS')).
Proof. exact choi_isometry_thm. Qed.
Print Assumptions C02_choi_isometry.

(* ---------------------------------------------------------------- Kraus *)
(* the HS matrix of ANY list of Kraus operators acts on (the coefficient vector of) X as sum_K K X K^dagger *)
Theorem C02_kraus_action : forall (F : OF) d (B : nat -> cmat F) (Ks : list (cmat F)) (X : cmat F) i j,
  basis_complete d B -> basis_hermitian d B -> hermitian d X -> (i < d)%nat -> (j < d)%nat ->
  apply_hs d B (hs_of_kraus d B Ks) X i j = kraus_apply d Ks X i j.
Proof. exact apply_hs_of_kraus. Qed.
Print Assumptions C02_kraus_action.

(* complex form: no Hermiticity needed *)
Theorem C02_kraus_action_complex : forall (F : OF) d (B : nat -> cmat F) (Ks : list (cmat F)) (X : cmat F) i j,
  basis_complete d B -> (i < d)%nat -> (j < d)%nat ->
  capply_hs d B (chs_of_kraus d B Ks) X i j = kraus_apply d Ks X i j.
Proof. exact capply_chs_of_kraus. Qed.
Print Assumptions C02_kraus_action_complex.

(* what to_hs_from_kraus_matrices computes (sum K (x) conj K, then convert_hs comp_basis -> B) IS that HS matrix, for any basis *)
Theorem C02_kraus_impl_is_spec : forall (F : OF) d (B : nat -> cmat F) (Ks : list (cmat F)) a b,
  chs_of_kraus_impl d B Ks a b = chs_of_kraus d B Ks a b.
Proof. exact chs_of_kraus_impl_eq. Qed.
Print Assumptions C02_kraus_impl_is_spec.

(* CERTIFICATE => PROPERTY.  The harness never compares Kraus sets; it checks on every output of to_kraus_matrices_from_hs that
   sum_K <B_a, K B_b K^dag> equals the input HS matrix.  That certificate means: the returned set denotes the map the HS matrix denotes
   (for every X), and any two Kraus sets with the same HS matrix denote the same map *)
Theorem C02_kraus_certificate : forall (F : OF) d (B : nat -> cmat F) (Ks : list (cmat F)) (H X : cmat F) i j,
  basis_complete d B -> (forall a b, (a < d * d)%nat -> (b < d * d)%nat -> chs_of_kraus d B Ks a b = H a b) ->
  (i < d)%nat -> (j < d)%nat -> capply_hs d B H X i j = kraus_apply d Ks X i j.
Proof. exact kraus_certificate_thm. Qed.
Print Assumptions C02_kraus_certificate.

Theorem C02_kraus_sets_same_map : forall (F : OF) d (B : nat -> cmat F) (Ks Ks' : list (cmat F)) (X : cmat F) i j,
  basis_complete d B -> (forall a b, (a < d * d)%nat -> (b < d * d)%nat -> chs_of_kraus d B Ks a b = chs_of_kraus d B Ks' a b) ->
  (i < d)%nat -> (j < d)%nat -> kraus_apply d Ks X i j = kraus_apply d Ks' X i j.
Proof. exact kraus_sets_same_map_thm. Qed.
Print Assumptions C02_kraus_sets_same_map.

(* ---------------------------------------------------------------- Hermiticity / reality of the representations (Hermitian basis):
   density matrices of real vecs are Hermitian, coefficient vectors of Hermitian operators are real, Choi matrices of real HS matrices are
   Hermitian, HS matrices of Hermitian Choi matrices and of Kraus lists are real, the process matrix of a real HS matrix is Hermitian *)
Theorem C02_hermiticity : forall (F : OF) d (B : nat -> cmat F), basis_hermitian d B ->
  (forall v : rvec F, hermitian d (op_of_vec d B v)) /\
  (forall (X : cmat F) a, hermitian d X -> (a < d * d)%nat -> im (cvec_of_op d B X a) = c0 F) /\
  (forall HS : rmat F, hermitian (d * d) (choi_of_hs d B HS)) /\
  (forall (Ch : cmat F) a b, hermitian (d * d) Ch -> (a < d * d)%nat -> (b < d * d)%nat -> im (chs_of_choi d B Ch a b) = c0 F) /\
  (forall (Ks : list (cmat F)) a b, (a < d * d)%nat -> (b < d * d)%nat -> im (chs_of_kraus d B Ks a b) = c0 F) /\
  (forall (HS : rmat F) al be, (al < d * d)%nat -> (be < d * d)%nat ->
     process_matrix d B (cof HS) al be = zconj (process_matrix d B (cof HS) be al)).
Proof. exact hermiticity_thm. Qed.
Print Assumptions C02_hermiticity.

(* ---------------------------------------------------------------- change of basis *)
(* convert_hs: the converted matrix denotes the same map, and B -> B' -> B is the identity *)
Theorem C02_convert_hs_same_operator : forall (F : OF) d (B B' : nat -> cmat F) (H X : cmat F) i j,
  basis_complete d B' -> (i < d)%nat -> (j < d)%nat ->
  capply_hs d B' (convert_hs d B B' H) X i j = capply_hs d B H X i j.
Proof. exact capply_convert_hs. Qed.
Print Assumptions C02_convert_hs_same_operator.

Theorem C02_convert_hs_round_trip : forall (F : OF) d (B B' : nat -> cmat F) (H : cmat F) a b,
  basis_orthonormal d B -> basis_complete d B' -> (a < d * d)%nat -> (b < d * d)%nat ->
  convert_hs d B' B (convert_hs d B B' H) a b = H a b.
Proof. exact convert_hs_round_trip. Qed.
Print Assumptions C02_convert_hs_round_trip.

Theorem C02_convert_vec_same_operator : forall (F : OF) d (B B' : nat -> cmat F) (v : cvec F) i j,
  basis_complete d B' -> (i < d)%nat -> (j < d)%nat ->
  op_of_cvec d B' (convert_vec d B B' v) i j = op_of_cvec d B v i j.
Proof. exact op_of_convert_vec. Qed.
Print Assumptions C02_convert_vec_same_operator.

Theorem C02_convert_vec_round_trip : forall (F : OF) d (B B' : nat -> cmat F) (v : cvec F) a,
  basis_orthonormal d B -> basis_complete d B' -> (a < d * d)%nat ->
  convert_vec d B' B (convert_vec d B B' v) a = v a.
Proof. exact convert_vec_round_trip. Qed.
Print Assumptions C02_convert_vec_round_trip.

(* the Choi matrix does not depend on the basis the HS matrix is written in *)
Theorem C02_choi_basis_independent : forall (F : OF) d (B B' : nat -> cmat F) (H : cmat F) i j,
  basis_complete d B' -> (i < d * d)%nat -> (j < d * d)%nat ->
  cchoi_of_hs d B' (convert_hs d B B' H) i j = cchoi_of_hs d B H i j.
Proof. exact cchoi_convert_hs. Qed.
Print Assumptions C02_choi_basis_independent.

(* row- versus column-major computational basis: the two HS matrices differ by the commutation matrix *)
Theorem C02_row_col_major : forall (F : OF) d (B : nat -> cmat F) (H : cmat F) a b, (a < d * d)%nat -> (b < d * d)%nat ->
  convert_hs d B (comp_basis_col d) H a b =
  mmul (d * d) (mmul (d * d) (comm_mat d) (convert_hs d B (comp_basis d) H)) (mT (comm_mat d)) a b.
Proof. exact convert_hs_col_comm. Qed.
Print Assumptions C02_row_col_major.

(* ---------------------------------------------------------------- process matrix *)
(* defining formula: sum_{al,be} chi_{al,be} E_al X E_be^dagger is the image of X — any basis B, any matrix X *)
Theorem C02_process_matrix_formula : forall (F : OF) d (B : nat -> cmat F) (H X : cmat F) p q, (p < d)%nat -> (q < d)%nat ->
  chi_apply d (process_matrix d B H) X p q = capply_hs d B H X p q.
Proof. exact chi_apply_process_matrix. Qed.
Print Assumptions C02_process_matrix_formula.

(* and (with the conventions of this library) the process matrix is the Choi matrix *)
Theorem C02_process_matrix_is_choi : forall (F : OF) d (B : nat -> cmat F) (H : cmat F) al be,
  (al < d * d)%nat -> (be < d * d)%nat -> process_matrix d B H al be = cchoi_of_hs d B H al be.
Proof. exact process_matrix_is_choi. Qed.
Print Assumptions C02_process_matrix_is_choi.

(* ---------------------------------------------------------------- alternative implementations of one conversion agree *)
Theorem C02_variants_agree : forall (F : OF) d (B : nat -> cmat F),
  (forall (c : cvec F) i j, (j < d)%nat -> density_sparse d B c i j = op_of_cvec d B c i j) /\
  (forall (X : cmat F) a, cvec_sparse d B X a = cvec_of_op d B X a) /\
  (forall (H : cmat F) i j, (j < d * d)%nat -> choi_sparse d B H i j = cchoi_of_hs d B H i j) /\
  (forall (H : cmat F) i j, choi_dict d B H i j = cchoi_of_hs d B H i j) /\
  (forall (Ch : cmat F) a b, (b < d * d)%nat -> chs_sparse d B Ch a b = chs_of_choi d B Ch a b) /\
  (basis_hermitian d B -> forall (Ch : cmat F) a b, (a < d * d)%nat -> (b < d * d)%nat -> chs_dict d B Ch a b = chs_of_choi d B Ch a b).
Proof. exact variants_agree_thm. Qed.
Print Assumptions C02_variants_agree.

(* ---------------------------------------------------------------- linearity of every linear conversion *)
Theorem C02_linearity : forall (F : OF) d (B B' : nat -> cmat F),
  (forall (v w : rvec F) i j, op_of_vec d B (vadd v w) i j = madd (op_of_vec d B v) (op_of_vec d B w) i j) /\
  (forall (k : F) (v : rvec F) i j, op_of_vec d B (vscale k v) i j = mscale (zof k : CF F) (op_of_vec d B v) i j) /\
  (forall (X Y : cmat F) a, cvec_of_op d B (madd X Y) a = vadd (cvec_of_op d B X) (cvec_of_op d B Y) a) /\
  (forall (k : CF F) (X : cmat F) a, cvec_of_op d B (mscale k X) a = vscale k (cvec_of_op d B X) a) /\
  (forall (H H' : cmat F) i j, cchoi_of_hs d B (madd H H') i j = madd (cchoi_of_hs d B H) (cchoi_of_hs d B H') i j) /\
  (forall (k : CF F) (H : cmat F) i j, cchoi_of_hs d B (mscale k H) i j = mscale k (cchoi_of_hs d B H) i j) /\
  (forall (Ch Ch' : cmat F) a b, chs_of_choi d B (madd Ch Ch') a b = madd (chs_of_choi d B Ch) (chs_of_choi d B Ch') a b) /\
  (forall (k : CF F) (Ch : cmat F) a b, chs_of_choi d B (mscale k Ch) a b = mscale k (chs_of_choi d B Ch) a b) /\
  (forall (H H' : cmat F) a b, convert_hs d B B' (madd H H') a b = madd (convert_hs d B B' H) (convert_hs d B B' H') a b) /\
  (forall (k : CF F) (H : cmat F) a b, convert_hs d B B' (mscale k H) a b = mscale k (convert_hs d B B' H) a b) /\
  (forall (v w : cvec F) a, convert_vec d B B' (vadd v w) a = vadd (convert_vec d B B' v) (convert_vec d B B' w) a) /\
  (forall (k : CF F) (v : cvec F) a, convert_vec d B B' (vscale k v) a = vscale k (convert_vec d B B' v) a) /\
  map_linear d (capply_hs d B (fun _ _ => c0 (CF F))) /\ (forall Ks : list (cmat F), map_linear d (kraus_apply d Ks)).
Proof. exact linearity_thm. Qed.
Print Assumptions C02_linearity.

(* ---------------------------------------------------------------- truncate_hs: value / error branch, and the conversions built on it.
   Model of matrix_util.truncate_hs as repaired by fix truncate-hs-relative-imag-threshold (owner C04): the imaginary parts are compared
   with thr = eps * max(1, largest |re| of the array); the real parts with eps. *)
Theorem C02_truncate_hs_spec : forall (F : OF) (eps : F) m n (H : cmat F),
  (forall i j, (i < m)%nat -> (j < n)%nat -> trunc_ok (im_thr eps (hs_size m n H)) (H i j) = true) /\ truncate_hs eps m n H = Some (fun i j => trunc_val eps (H i j))
  \/ (exists i j, (i < m)%nat /\ (j < n)%nat /\ trunc_ok (im_thr eps (hs_size m n H)) (H i j) = false) /\ truncate_hs eps m n H = None.
Proof. exact truncate_hs_spec. Qed.
Print Assumptions C02_truncate_hs_spec.

(* what the threshold is: hs_size is the largest |re H_ij| (an upper bound, below every non-negative upper bound); an entry passes iff
   its imaginary part is 0 or smaller in modulus than thr; thr = eps when no real part exceeds 1 (then the function is the one coded
   before that fix) and thr >= eps always *)
Theorem C02_truncate_hs_threshold : forall (F : OF) (eps : F) m n (H : cmat F),
  (forall i j, (i < m)%nat -> (j < n)%nat -> kle F (kabs (re (H i j))) (hs_size m n H)) /\
  (forall c, kle F (c0 F) c -> (forall i j, (i < m)%nat -> (j < n)%nat -> kle F (kabs (re (H i j))) c) -> kle F (hs_size m n H) c) /\
  (forall thr (z : CF F), trunc_ok thr z = true <-> (~ kle F thr (kabs (im z)) \/ im z = c0 F)) /\
  (kle F (hs_size m n H) (c1 F) -> im_thr eps (hs_size m n H) = eps) /\
  (kle F (c0 F) eps -> kle F eps (im_thr eps (hs_size m n H))).
Proof. exact truncate_hs_threshold_thm. Qed.
Print Assumptions C02_truncate_hs_threshold.

(* on legitimate input (Hermitian basis, Hermitian argument) the truncating conversions do not raise and return the
   specified real representation with the entries below eps set to 0 (trunc_val z = re z, or 0 when |re z| < eps) *)
Theorem C02_truncating_conversions_ok : forall (F : OF) (eps : F) d (B : nat -> cmat F), basis_hermitian d B ->
  (forall X : cmat F, hermitian d X -> vec_of_op_impl eps d B X = Some (fun a => trunc_val eps (cvec_of_op d B X a))) /\
  (forall Ch : cmat F, hermitian (d * d) Ch -> hs_of_choi_sparse_impl eps d B Ch = Some (fun a b => trunc_val eps (chs_of_choi d B Ch a b))) /\
  (forall Ks : list (cmat F), hs_of_kraus_impl eps d B Ks = Some (fun a b => trunc_val eps (chs_of_kraus_impl d B Ks a b))) /\
  (forall z : CF F, trunc_val eps z = re z \/ (trunc_val eps z = c0 F /\ ~ kle F eps (kabs (re z)))).
Proof. exact truncating_conversions_ok_thm. Qed.
Print Assumptions C02_truncating_conversions_ok.

(* ---------------------------------------------------------------- variables <-> Choi *)
(* the conversion the docstring of to_var_from_choi describes (Choi -> HS -> variables) inverts to_choi_from_var *)
Theorem C02_to_var_from_choi_spec_round_trip : forall (F : OF) d (B : nat -> cmat F) para (v : rvec F) k,
  basis_orthonormal d B -> (k < var_len d para)%nat -> var_of_choi_spec d B para (choi_of_var d B para v) k = v k.
Proof. exact var_of_choi_spec_round_trip. Qed.
Print Assumptions C02_to_var_from_choi_spec_round_trip.

(* gate.to_var_from_choi as repaired by fix gate-to-var-from-choi-inverse-map (var_of_choi_fixed = to_hs_from_choi_with_sparsity, incl.
   truncation and ValueError branch, then convert_hs_to_var) — the model the harness compares with the implementation:
   on the Choi matrix of ANY variable vector (any d, orthonormal basis, both parametrisations, any eps) it does not raise and returns the
   variables with the entries of modulus < eps set to 0; hence exactly the variables when no non-zero variable is below eps *)
Theorem C02_to_var_from_choi_round_trip : forall (F : OF) (eps : F) d (B : nat -> cmat F) para (v : rvec F), basis_orthonormal d B ->
  (exists w, var_of_choi_fixed eps d B para (choi_of_var d B para v) = Some w /\
             forall k, (k < var_len d para)%nat -> w k = trunc_val eps (zof (v k))) /\
  ((forall k, (k < var_len d para)%nat -> v k = c0 F \/ kle F eps (kabs (v k))) ->
   exists w, var_of_choi_fixed eps d B para (choi_of_var d B para v) = Some w /\ forall k, (k < var_len d para)%nat -> w k = v k).
Proof. exact to_var_from_choi_round_trip_thm. Qed.
Print Assumptions C02_to_var_from_choi_round_trip.

(* Statement that was FALSE of gate.to_var_from_choi AS CODED BEFORE fix gate-to-var-from-choi-inverse-map (var_of_choi_before_fix applies the
   FORWARD map HS->Choi to the Choi matrix):
     forall d B para v k, basis_orthonormal d B -> basis_complete d B -> k < var_len d para ->
       var_of_choi_before_fix d B para (choi_of_var d B para v) k = zof (v k).
   Refutation, witness: two qubits, normalised Pauli basis, gate H (x) I, variable 1 (old code 0, true value 1).  The harness replays this
   witness on the real code on every run and expects the REPAIRED behaviour (theorem above). *)
Theorem C02_to_var_from_choi_before_fix_refuted :
  exists (d : nat) (B : nat -> cmat Qc_OF) (v : rvec Qc_OF) (k : nat),
    basis_orthonormal d B /\ basis_complete d B /\ basis_hermitian d B /\ (k < var_len d true)%nat /\
    var_of_choi_spec d B true (choi_of_var d B true v) k = v k /\
    var_of_choi_before_fix d B true (choi_of_var d B true v) k <> zof (v k).
Proof. exact to_var_from_choi_before_fix_refuted. Qed.
Print Assumptions C02_to_var_from_choi_before_fix_refuted.

(* ---------------------------------------------------------------- non-vacuity *)
(* the hypotheses are satisfiable exactly: 2-qubit normalised Pauli basis over Qc (entries 0, +-1/2, +-i/2), sd = 2 *)
Example C02_example_pauli2 :
  basis_orthonormal 4 P2 /\ basis_complete 4 P2 /\ basis_hermitian 4 P2 /\ basis_0th_identity 4 (Q2Qc 2 : Qc_OF) P2.
Proof. exact (conj pauli2n_orthonormal (conj pauli2n_complete (conj pauli2n_hermitian pauli2n_identity0))). Qed.
(* ... and the computational basis is orthonormal and complete (not Hermitian) in every dimension over every field *)
Example C02_example_comp_basis : forall (F : OF) d, basis_orthonormal d (comp_basis (F := F) d) /\ basis_complete d (comp_basis (F := F) d).
Proof. intros F d. split; [apply comp_basis_orthonormal|apply comp_basis_complete]. Qed.
(* the repaired to_var_from_choi on the witness of the refutation (H (x) I, eps = 10^-13): defined; variable 1 comes back as 1, variable 0 as 0 *)
Example C02_example_var_fixed :
  exists w, var_of_choi_fixed (F := Qc_OF) (Q2Qc (1 # 10000000000000)) 4 P2 true (choi_of_var 4 P2 true var_HI) = Some w /\
            w 1%nat = 1%Qc /\ w 0%nat = 0%Qc.
Proof. destruct (var_of_choi_fixed_round_trip Qc_OF (Q2Qc (1 # 10000000000000)) 4 P2 true var_HI pauli2n_orthonormal) as [w [E W]].
  exists w. split; [exact E|]. split; rewrite W by (vm_compute; lia); vm_compute; reflexivity. Qed.
(* truncate_hs on a concrete 1 x 2 array with a real part above 1: imaginary part 3/2*eps is below thr = 2*eps (accepted: Some), 5/2*eps is not (None) *)
Example C02_example_truncate_threshold :
  let eps : Qc_OF := Q2Qc (1 # 1000) in
  truncate_hs eps 1 2 (fun _ j => if Nat.eqb j 0 then (Q2Qc 2, Q2Qc (3 # 2000)) else (Q2Qc (1 # 2), 0%Qc)) <> None /\
  truncate_hs eps 1 2 (fun _ j => if Nat.eqb j 0 then (Q2Qc 2, Q2Qc (5 # 2000)) else (Q2Qc (1 # 2), 0%Qc)) = None.
Proof. split; [vm_compute; discriminate|vm_compute; reflexivity]. Qed.
(* a concrete non-trivial instance of the round trips and of the Kraus theorem: H (x) I and the Kraus list [K] with K = 2 * P2_5 *)
Example C02_example_values :
  hs_of_choi 4 P2 (choi_of_hs 4 P2 hs_HI) 1%nat 1%nat = 1%Qc /\ hs_HI 1%nat 1%nat = 1%Qc /\
  hermitian 4 (P2 5%nat) /\ P2 5%nat 0%nat 3%nat <> c0 (CF Qc_OF).
Proof. split; [|split; [reflexivity|split]].
  - rewrite (hs_of_choi_of_hs Qc_OF 4 P2 hs_HI 1 1 pauli2n_orthonormal); [reflexivity|cbn; lia|cbn; lia].
  - apply pauli2n_hermitian. cbn; lia.
  - vm_compute. discriminate. Qed.
