(* C11 — loss minimisation attains the constrained optimum: property theorems only.
   Everything is generic in the ordered field F (holds for the executed Qc and for R alike), axiom-free.
   Vectors are functions nat -> F with explicit length n; C is the feasible (physical) set, P the projection
   used by the algorithm, f the loss, g its gradient, mu / gamma the algorithm options. *)
From Coq Require Import Arith List Bool ZArith QArith Qcanon.
From QV.Core Require Import OF Sums Mat QcOF.
From QV.Model Require Import C11_Pgdb.
From QV.Proofs Require Import C11_Pgdb.
Import ListNotations.

(* T1  the projected-gradient direction  y = P(x - g x/mu) - x  is a descent direction:  <g x, y> <= - mu |y|^2 *)
Theorem C11_descent_direction : forall (F : OF) (n : nat) (C : @vec F -> Prop) (P : @vec F -> @vec F)
    (g : @vec F -> @vec F) (mu : F),
  mu <> c0 F -> kle F (c0 F) mu -> C11_obtuse F n C P ->
  forall x, C x ->
  kle F (dot n (g x) (C11_dir F P g mu x)) (copp F (cmul F mu (C11_nrm2 F n (C11_dir F P g mu x)))).
Proof. exact C11_Pgdb.C11_descent_direction. Qed.
Print Assumptions C11_descent_direction.

(* T2  an accepted Armijo step decreases the loss by at least gamma*alpha*mu*|y|^2 *)
Theorem C11_armijo_decrease : forall (F : OF) (n : nat) (C : @vec F -> Prop) (P : @vec F -> @vec F)
    (f : @vec F -> F) (g : @vec F -> @vec F) (mu gamma : F),
  mu <> c0 F -> kle F (c0 F) mu -> kle F (c0 F) gamma -> C11_obtuse F n C P ->
  forall x alpha, C x -> kle F (c0 F) alpha ->
  C11_armijo_ok F (C11_phi F f x (C11_dir F P g mu x)) (f x) gamma (C11_slope F n g x (C11_dir F P g mu x)) alpha = true ->
  kle F (f (C11_point F x (C11_dir F P g mu x) alpha))
        (csub F (f x) (C11_decrease F n mu gamma alpha (C11_dir F P g mu x))).
Proof. exact C11_Pgdb.C11_armijo_decrease. Qed.
Print Assumptions C11_armijo_decrease.

(* T3  along a whole run of the loop as coded (any stopping mode, any history window, any iteration limit, any
   line-search fuel): every iterate is feasible and the loss never increases from one iterate to the next
   (xs is newest first, so [C11_nonincreasing (map f xs)] reads f x_k <= f x_{k-1} <= ... <= f x_0) *)
Theorem C11_run_feasible_monotone : forall (F : OF) (n : nat) (C : @vec F -> Prop) (P : @vec F -> @vec F)
    (f : @vec F -> F) (g : @vec F -> @vec F) (mu gamma : F),
  mu <> c0 F -> kle F (c0 F) mu -> kle F (c0 F) gamma -> C11_obtuse F n C P -> C11_convex_set F C ->
  forall sq eps mode h fuel max_iteration x0 xs errs k w, C x0 ->
  C11_optimize F sq n f g P mu gamma eps mode h fuel max_iteration x0 = C11_Done xs errs k w ->
  Forall C xs /\ C11_nonincreasing F (map f xs).
Proof. intros F n C P f g mu gamma H1 H2 H3 H4 H5 sq eps mode h fuel mi x0 xs errs k w Cx0 H.
  unfold C11_optimize in H.
  eapply (C11_Pgdb.C11_loop_inv F n C P f g mu gamma H1 H2 H3 H4 sq eps mode h fuel); [exact H5| |exact H].
  split; [constructor; [exact Cx0|constructor]|exact I]. Qed.
Print Assumptions C11_run_feasible_monotone.

(* T4  y = 0  =>  x minimises f over C *)
Theorem C11_stationary_optimal : forall (F : OF) (n : nat) (C : @vec F -> Prop) (P : @vec F -> @vec F)
    (f : @vec F -> F) (g : @vec F -> @vec F) (mu : F),
  mu <> c0 F -> kle F (c0 F) mu -> C11_obtuse F n C P -> C11_first_order_convex F n f g ->
  forall x z, C z -> veq n (C11_dir F P g mu x) vzero -> kle F (f x) (f z).
Proof. exact C11_Pgdb.C11_stationary_optimal. Qed.
Print Assumptions C11_stationary_optimal.

(* T5  a-posteriori optimality gap: every competitor z in C satisfies  f z - f x >= <g,y> - mu <y, z - x - y> *)
Theorem C11_gap_certificate : forall (F : OF) (n : nat) (C : @vec F -> Prop) (P : @vec F -> @vec F)
    (f : @vec F -> F) (g : @vec F -> @vec F) (mu : F),
  mu <> c0 F -> kle F (c0 F) mu -> C11_obtuse F n C P -> C11_first_order_convex F n f g ->
  forall x z, C z ->
  kle F (C11_gap_bound F n mu x (g x) (C11_dir F P g mu x) z) (csub F (f z) (f x)).
Proof. exact C11_Pgdb.C11_gap. Qed.
Print Assumptions C11_gap_certificate.

(* T6  the squared-error loss  f v = |A v + b - q|^2  with gradient 2 A^T (A v + b - q) is first-order convex (outright) *)
Theorem C11_squared_error_convex : forall (F : OF) (m n : nat) (A : @mat F) (b q : @vec F),
  C11_first_order_convex F n (C11_sq_loss F m n A b q) (C11_sq_grad F m n A b q).
Proof. exact C11_Pgdb.C11_sq_convex. Qed.
Print Assumptions C11_squared_error_convex.

(* T7  for the squared-error loss the Armijo inner loop terminates: K halvings suffice as soon as
   2^-K * lambda <= 2 (1-gamma) mu  (lambda = 2|A|_F^2 bounds the curvature), and the accepted alpha is 1 or
   larger than (1-gamma) mu / lambda *)
Theorem C11_squared_error_backtracking_terminates : forall (F : OF) (m n : nat) (A : @mat F) (b q : @vec F)
    (mu gamma : F) (x y : @vec F) (K : nat),
  kle F (c0 F) gamma -> kle F gamma (c1 F) ->
  kle F (dot n (C11_sq_grad F m n A b q x) y) (copp F (cmul F mu (C11_nrm2 F n y))) ->
  kle F (cmul F (C11_pow F (C11_half F) K) (C11_sq_lambda F m n A)) (cmul F (cmul F (C11_two F) (csub F (c1 F) gamma)) mu) ->
  exists a, C11_backtrack F (S K) (C11_phi F (C11_sq_loss F m n A b q) x y) (C11_sq_loss F m n A b q x) gamma
                          (C11_slope F n (C11_sq_grad F m n A b q) x y) (c1 F) = Some a
    /\ kle F (c0 F) a /\ kle F a (c1 F)
    /\ (a = c1 F \/ ~ kle F (cmul F (cadd F a a) (C11_sq_lambda F m n A)) (cmul F (cmul F (C11_two F) (csub F (c1 F) gamma)) mu)).
Proof. exact C11_Pgdb.C11_sq_backtrack_terminates. Qed.
Print Assumptions C11_squared_error_backtracking_terminates.
