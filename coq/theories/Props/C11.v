(* C11 — loss minimisation attains the constrained optimum: property theorems only.
   Everything is generic in the ordered field F (holds for the executed Qc and for R alike), axiom-free.
   Vectors are functions nat -> F with explicit length n; C is the feasible (physical) set, P the projection
   used by the algorithm, f the loss, g its gradient, mu / gamma the algorithm options.

   Part A  backtracking projected gradient (model Model/C11_Pgdb.v = ProjectedGradientDescentBacktracking.optimize)
           A1-A5  one step / a whole run / optimality certificates, for a EUCLIDEAN projection P (hypothesis C11_obtuse)
           A6-A9  squared-error loss: convexity, exact expansion, Armijo acceptance region, termination of the line search
           A10    complete specification of the line search for any loss
   Part B  which inner product quara's projection belongs to (M = L^T L of the variable -> stacked-vector embedding), when it
           is the Euclidean one, what survives when it is not, and the refutation of "stationary => optimal" for the
           3-outcome on_para_eq_constraint=True POVM metric (known finding C11-3; the code is NOT repaired, so the refutation
           is a statement about the code as it is and the positive theorems B3-B5 are about what a repair must do)
   Part C  CVXPY interface maps (model Model/C11_Cvx.v = quara/interface/cvxpy/conversion.py after fix
           mprocess-element-choi-from-var-last-outcome) *)
From Coq Require Import Arith List Bool ZArith QArith Qcanon.
From QV.Core Require Import OF Sums Mat Cplx QcOF C01_HermPsd.
From QV.Model Require Import QObj C02_Conv C11_Pgdb C11_Cvx.
From QV.Proofs Require Import C11_Pgdb C11_Metric C11_PovmMetric C11_Diameter C11_Cvx C11_Examples.
Import ListNotations.

(* ====================================================================== Part A *)
(* A1 (T1)  the projected-gradient direction  y = P(x - g x/mu) - x  is a descent direction:  <g x, y> <= - mu |y|^2 *)
Theorem C11_descent_direction : forall (F : OF) (n : nat) (C : @vec F -> Prop) (P : @vec F -> @vec F)
    (g : @vec F -> @vec F) (mu : F),
  mu <> c0 F -> kle F (c0 F) mu -> C11_obtuse F n C P ->
  forall x, C x ->
  kle F (dot n (g x) (C11_dir F P g mu x)) (copp F (cmul F mu (C11_nrm2 F n (C11_dir F P g mu x)))).
Proof. exact C11_Pgdb.C11_descent_direction. Qed.
Print Assumptions C11_descent_direction.

(* A2 (T2)  an accepted Armijo step decreases the loss by at least gamma*alpha*mu*|y|^2 *)
Theorem C11_armijo_decrease : forall (F : OF) (n : nat) (C : @vec F -> Prop) (P : @vec F -> @vec F)
    (f : @vec F -> F) (g : @vec F -> @vec F) (mu gamma : F),
  mu <> c0 F -> kle F (c0 F) mu -> kle F (c0 F) gamma -> C11_obtuse F n C P ->
  forall x alpha, C x -> kle F (c0 F) alpha ->
  C11_armijo_ok F (C11_phi F f x (C11_dir F P g mu x)) (f x) gamma (C11_slope F n g x (C11_dir F P g mu x)) alpha = true ->
  kle F (f (C11_point F x (C11_dir F P g mu x) alpha))
        (csub F (f x) (C11_decrease F n mu gamma alpha (C11_dir F P g mu x))).
Proof. exact C11_Pgdb.C11_armijo_decrease. Qed.
Print Assumptions C11_armijo_decrease.

(* A3 (T3)  along a whole run of the loop as coded (any stopping mode, any history window, any iteration limit, any
   line-search fuel): every iterate is feasible and the loss never increases from one iterate to the next
   (xs is newest first, so [C11_nonincreasing (map f xs)] reads f x_k <= f x_{k-1} <= ... <= f x_0) *)
Theorem C11_run_feasible_monotone : forall (F : OF) (n : nat) (C : @vec F -> Prop) (P : @vec F -> @vec F)
    (f : @vec F -> F) (g : @vec F -> @vec F) (mu gamma : F),
  mu <> c0 F -> kle F (c0 F) mu -> kle F (c0 F) gamma -> C11_obtuse F n C P ->
  forall sq eps mode h fuel max_iteration x0 xs errs k w, C11_convex_set F C -> C x0 ->
  C11_optimize F sq n f g P mu gamma eps mode h fuel max_iteration x0 = C11_Done xs errs k w ->
  Forall C xs /\ C11_nonincreasing F (map f xs).
Proof. exact C11_Pgdb.C11_optimize_inv. Qed.
Print Assumptions C11_run_feasible_monotone.

(* A4 (T4)  y = 0  =>  x minimises f over C *)
Theorem C11_stationary_optimal : forall (F : OF) (n : nat) (C : @vec F -> Prop) (P : @vec F -> @vec F)
    (f : @vec F -> F) (g : @vec F -> @vec F) (mu : F),
  mu <> c0 F -> kle F (c0 F) mu -> C11_obtuse F n C P -> C11_first_order_convex F n f g ->
  forall x z, C z -> veq n (C11_dir F P g mu x) vzero -> kle F (f x) (f z).
Proof. exact C11_Pgdb.C11_stationary_optimal. Qed.
Print Assumptions C11_stationary_optimal.

(* A5 (T5)  a-posteriori optimality gap: every competitor z in C satisfies  f z - f x >= <g,y> - mu <y, z - x - y> *)
Theorem C11_gap_certificate : forall (F : OF) (n : nat) (C : @vec F -> Prop) (P : @vec F -> @vec F)
    (f : @vec F -> F) (g : @vec F -> @vec F) (mu : F),
  mu <> c0 F -> kle F (c0 F) mu -> C11_obtuse F n C P -> C11_first_order_convex F n f g ->
  forall x z, C z ->
  kle F (C11_gap_bound F n mu x (g x) (C11_dir F P g mu x) z) (csub F (f z) (f x)).
Proof. exact C11_Pgdb.C11_gap. Qed.
Print Assumptions C11_gap_certificate.

(* A5u  the universal form, PARTIAL: "no feasible point at all beats x by more than  -<g,y> + mu r"  is proved from a bound D2
   on the squared distance of the feasible set to the trial point x + y (hypothesis) and r^2 >= |y|^2 D2.
   FULL statement of the plan (not proved): the same with D2 instantiated for the physical sets of quara
   (tr rho^2 <= (tr rho)^2 and its analogues for POVMs / Choi matrices), i.e. without the diameter hypothesis. *)
Theorem C11_universal_gap_partial : forall (F : OF) (n : nat) (C : @vec F -> Prop) (P : @vec F -> @vec F)
    (f : @vec F -> F) (g : @vec F -> @vec F) (mu : F),
  mu <> c0 F -> kle F (c0 F) mu -> C11_obtuse F n C P -> C11_first_order_convex F n f g ->
  forall (x : @vec F) (D2 r : F),
  let y := C11_dir F P g mu x in
  (forall z, C z -> kle F (C11_nrm2 F n (vsub (vsub z x) y)) D2) ->
  kle F (c0 F) r -> kle F (cmul F (C11_nrm2 F n y) D2) (cmul F r r) ->
  forall z, C z -> kle F (csub F (f x) (f z)) (cadd F (copp F (dot n (g x) y)) (cmul F mu r)).
Proof. exact C11_Pgdb.C11_universal_gap. Qed.
Print Assumptions C11_universal_gap_partial.

(* A5v  a Hermitian positive semidefinite matrix has  sum_ij |M_ij|^2 <= (tr M)^2  (from its 2x2 principal minors; every size) *)
Theorem C11_psd_frobenius_le_trace_sq : forall (F : OF) (n : nat) (H : cmat F), hermitian n H -> HPSD n H ->
  kle F (C11_frob2 F n H) (cmul F (C11_rtrace F n H) (C11_rtrace F n H)).
Proof. exact C11_Diameter.C11_psd_frobenius_le_trace_sq. Qed.
Print Assumptions C11_psd_frobenius_le_trace_sq.

(* A5w  hence the coefficient vector (orthonormal Hermitian basis) of a PSD operator has |v|^2 <= (tr)^2 *)
Theorem C11_coefficient_norm_le_trace_sq : forall (F : OF) (d : nat) (B : nat -> cmat F) (v : rvec F),
  basis_orthonormal d B -> basis_hermitian d B -> HPSD d (op_of_vec d B v) ->
  kle F (C11_nrm2 F (d * d) v) (cmul F (C11_rtrace F d (op_of_vec d B v)) (C11_rtrace F d (op_of_vec d B v))).
Proof. exact C11_Diameter.C11_coeff_norm_le_trace_sq. Qed.
Print Assumptions C11_coefficient_norm_le_trace_sq.

(* A5x  the universal gap from a NORM bound of the feasible set (|z|^2 <= R2 on C): no feasible point beats x by more than
   -<g,y> + mu r  whenever r >= 0 and r^2 >= 4 R2 |y|^2.  No diameter hypothesis is left. *)
Theorem C11_universal_gap_ball : forall (F : OF) (n : nat) (C : @vec F -> Prop) (P : @vec F -> @vec F)
    (f : @vec F -> F) (g : @vec F -> @vec F) (mu R2 : F),
  mu <> c0 F -> kle F (c0 F) mu -> C11_obtuse F n C P -> C11_first_order_convex F n f g ->
  (forall z, C z -> kle F (C11_nrm2 F n z) R2) ->
  forall (x : @vec F) (r : F), let y := C11_dir F P g mu x in
  kle F (c0 F) r ->
  kle F (cmul F (C11_nrm2 F n y) (cadd F (cmul F (cadd F (c1 F) (c1 F)) R2) (cmul F (cadd F (c1 F) (c1 F)) R2))) (cmul F r r) ->
  forall z, C z -> kle F (csub F (f x) (f z)) (cadd F (copp F (dot n (g x) y)) (cmul F mu r)).
Proof. exact C11_Diameter.C11_universal_gap_ball. Qed.
Print Assumptions C11_universal_gap_ball.

(* A5y  the FULL universal gap for state tomography (full parametrisation; basis orthonormal + Hermitian): the physical set is
   { v | op_of_vec v PSD, trace one };  NO state has a loss below  f x + <g,y> - mu r  whenever r >= 0, r^2 >= 4 |y|^2.
   (POVMs / gates: A5z, A5z'.  A5u is kept as the general form with the diameter as hypothesis.) *)
Theorem C11_universal_gap_states : forall (F : OF) (d : nat) (B : nat -> cmat F) (P : @vec F -> @vec F)
    (f : @vec F -> F) (g : @vec F -> @vec F) (mu : F),
  basis_orthonormal d B -> basis_hermitian d B ->
  mu <> c0 F -> kle F (c0 F) mu -> C11_obtuse F (d * d) (C11_state_set F d B) P -> C11_first_order_convex F (d * d) f g ->
  forall (x : @vec F) (r : F), let y := C11_dir F P g mu x in
  kle F (c0 F) r ->
  kle F (cmul F (C11_nrm2 F (d * d) y) (cadd F (cadd F (c1 F) (c1 F)) (cadd F (c1 F) (c1 F)))) (cmul F r r) ->
  forall z, C11_state_set F d B z -> kle F (csub F (f x) (f z)) (cadd F (copp F (dot (d * d) (g x) y)) (cmul F mu r)).
Proof. exact C11_Diameter.C11_universal_gap_states. Qed.
Print Assumptions C11_universal_gap_states.

(* A5z  the FULL universal gap for POVM tomography (full parametrisation: m stacked coefficient vectors; every element PSD, the traces
   sum to dd -- dd = d for elements summing to the identity): no physical POVM gains more than -<g,y> + mu r, r^2 >= 4 dd^2 |y|^2 *)
Theorem C11_universal_gap_povms : forall (F : OF) (d m : nat) (B : nat -> cmat F) (dd : F) (P : @vec F -> @vec F)
    (f : @vec F -> F) (g : @vec F -> @vec F) (mu : F),
  basis_orthonormal d B -> basis_hermitian d B ->
  mu <> c0 F -> kle F (c0 F) mu -> C11_obtuse F (m * (d * d)) (C11_povm_set F d m B dd) P -> C11_first_order_convex F (m * (d * d)) f g ->
  forall (x : @vec F) (r : F), let y := C11_dir F P g mu x in
  kle F (c0 F) r ->
  kle F (cmul F (C11_nrm2 F (m * (d * d)) y)
          (cadd F (cmul F (cadd F (c1 F) (c1 F)) (cmul F dd dd)) (cmul F (cadd F (c1 F) (c1 F)) (cmul F dd dd)))) (cmul F r r) ->
  forall z, C11_povm_set F d m B dd z -> kle F (csub F (f x) (f z)) (cadd F (copp F (dot (m * (d * d)) (g x) y)) (cmul F mu r)).
Proof. exact C11_Diameter.C11_universal_gap_povms. Qed.
Print Assumptions C11_universal_gap_povms.

(* A5z'  the FULL universal gap for process tomography (full parametrisation: flattened HS matrix; the gate set is stated through the operator
   with coefficient vector v in the tensor basis B_a (x) conj B_b, which IS the Choi matrix (A5z''); PSD with trace dd -- dd = d for TP maps) *)
Theorem C11_universal_gap_gates : forall (F : OF) (d : nat) (B : nat -> cmat F) (dd : F) (P : @vec F -> @vec F)
    (f : @vec F -> F) (g : @vec F -> @vec F) (mu : F),
  basis_orthonormal d B -> basis_hermitian d B ->
  mu <> c0 F -> kle F (c0 F) mu -> C11_obtuse F ((d * d) * (d * d)) (C11_gate_set F d B dd) P ->
  C11_first_order_convex F ((d * d) * (d * d)) f g ->
  forall (x : @vec F) (r : F), let y := C11_dir F P g mu x in
  kle F (c0 F) r ->
  kle F (cmul F (C11_nrm2 F ((d * d) * (d * d)) y)
          (cadd F (cmul F (cadd F (c1 F) (c1 F)) (cmul F dd dd)) (cmul F (cadd F (c1 F) (c1 F)) (cmul F dd dd)))) (cmul F r r) ->
  forall z, C11_gate_set F d B dd z ->
  kle F (csub F (f x) (f z)) (cadd F (copp F (dot ((d * d) * (d * d)) (g x) y)) (cmul F mu r)).
Proof. exact C11_Diameter.C11_universal_gap_gates. Qed.
Print Assumptions C11_universal_gap_gates.

(* A5z''  the operator of the gate set is the Choi matrix of the HS matrix *)
Theorem C11_gate_set_is_choi : forall (F : OF) (d : nat) (B : nat -> cmat F) (HS : rmat F) (i j : nat),
  choi_of_hs d B HS i j = op_of_vec (d * d) (bb_basis d B) (vecr (d * d) HS) i j.
Proof. exact C11_Diameter.C11_choi_as_op. Qed.
Print Assumptions C11_gate_set_is_choi.

(* A6 (T6)  the squared-error loss  f v = |A v + b - q|^2  with gradient 2 A^T (A v + b - q) is first-order convex (outright) *)
Theorem C11_squared_error_convex : forall (F : OF) (m n : nat) (A : @mat F) (b q : @vec F),
  C11_first_order_convex F n (C11_sq_loss F m n A b q) (C11_sq_grad F m n A b q).
Proof. exact C11_Pgdb.C11_sq_convex. Qed.
Print Assumptions C11_squared_error_convex.

(* A7  exact second-order expansion of the squared-error loss:  f(x + d) = f x + <g x, d> + |A d|^2
   (so [C11_sq_grad] IS the gradient of [C11_sq_loss]) *)
Theorem C11_squared_error_expansion : forall (F : OF) (m n : nat) (A : @mat F) (b q x d : @vec F),
  C11_sq_loss F m n A b q (vadd x d) =
  cadd F (cadd F (C11_sq_loss F m n A b q x) (dot n (C11_sq_grad F m n A b q x) d)) (C11_nrm2 F m (mv n A d)).
Proof. exact C11_Pgdb.C11_sq_expansion. Qed.
Print Assumptions C11_squared_error_expansion.

(* A8  squared-error loss: the Armijo test holds for EVERY 0 <= alpha with  alpha * lambda <= 2 (1-gamma) mu
   (lambda = 2|A|_F^2), for any direction with  <g,y> <= - mu |y|^2  (A1 provides it) and gamma <= 1 *)
Theorem C11_squared_error_armijo_holds : forall (F : OF) (m n : nat) (A : @mat F) (b q : @vec F)
    (mu gamma : F) (x y : @vec F) (alpha : F),
  kle F (c0 F) alpha -> kle F gamma (c1 F) ->
  kle F (dot n (C11_sq_grad F m n A b q x) y) (copp F (cmul F mu (C11_nrm2 F n y))) ->
  kle F (cmul F alpha (C11_sq_lambda F m n A)) (cmul F (cmul F (C11_two F) (csub F (c1 F) gamma)) mu) ->
  C11_armijo_ok F (C11_phi F (C11_sq_loss F m n A b q) x y) (C11_sq_loss F m n A b q x) gamma
    (C11_slope F n (C11_sq_grad F m n A b q) x y) alpha = true.
Proof. exact C11_Pgdb.C11_sq_armijo_holds. Qed.
Print Assumptions C11_squared_error_armijo_holds.

(* A9 (T7)  for the squared-error loss the Armijo inner loop terminates: K halvings suffice as soon as
   2^-K * lambda <= 2 (1-gamma) mu  (lambda = 2|A|_F^2 bounds the curvature), and the accepted alpha is 1 or
   larger than (1-gamma) mu / lambda *)
Theorem C11_squared_error_backtracking_terminates : forall (F : OF) (m n : nat) (A : @mat F) (b q : @vec F)
    (mu gamma : F) (x y : @vec F) (K : nat),
  kle F (c0 F) gamma -> kle F gamma (c1 F) ->
  kle F (dot n (C11_sq_grad F m n A b q x) y) (copp F (cmul F mu (C11_nrm2 F n y))) ->
  kle F (cmul F (C11_pow F (C11_half F) K) (C11_sq_lambda F m n A)) (cmul F (cmul F (C11_two F) (csub F (c1 F) gamma)) mu) ->
  exists a, C11_backtrack F (S K) (C11_phi F (C11_sq_loss F m n A b q) x y) (C11_sq_loss F m n A b q x) gamma
                          (C11_slope F n (C11_sq_grad F m n A b q) x y) (c1 F) = Some a
    /\ kle F (c0 F) a /\ kle F a (c1 F)
    /\ (a = c1 F \/ ~ kle F (cmul F (cadd F a a) (C11_sq_lambda F m n A)) (cmul F (cmul F (C11_two F) (csub F (c1 F) gamma)) mu)).
Proof. exact C11_Pgdb.C11_sq_backtrack_terminates. Qed.
Print Assumptions C11_squared_error_backtracking_terminates.

(* A10  the line search as coded (alpha = 1; while left > right: alpha *= 0.5), for ANY loss: the accepted alpha passes the
   Armijo test, lies in [0,1], is 2^-c for the number c of halvings and is the FIRST success *)
Theorem C11_backtracking_line_search_spec : forall (F : OF) (fuel : nat) (phi : F -> F) (fx gamma slope a : F),
  C11_backtrack F fuel phi fx gamma slope (c1 F) = Some a ->
  C11_armijo_ok F phi fx gamma slope a = true /\ kle F (c0 F) a /\ kle F a (c1 F)
  /\ (a = c1 F \/ C11_armijo_ok F phi fx gamma slope (cadd F a a) = false)
  /\ (exists c : nat, C11_backtrack_count F fuel phi fx gamma slope (c1 F) = Some c /\ a = C11_pow F (C11_half F) c).
Proof. exact C11_Pgdb.C11_backtrack_spec. Qed.
Print Assumptions C11_backtracking_line_search_spec.

(* A11  the step parameter selected before the loop (model re-proved equal to the source on every run): an explicit non-zero mu wins; None / 0 fall
   back to 3/(2 sqrt n) with n from the start point, else from the tomography; neither -> failure *)
Theorem C11_default_mu_selection : forall (F : OF) (sqrtn : nat -> F),
  (forall m sl qn, m <> c0 F -> C11_default_mu F sqrtn (Some m) sl qn = Some m)
  /\ (forall sl qn, C11_default_mu F sqrtn (Some (c0 F)) sl qn = C11_default_mu F sqrtn None sl qn)
  /\ (forall n qn, C11_default_mu F sqrtn None (Some n) qn = Some (C11_mu_formula F sqrtn n))
  /\ (forall n, C11_default_mu F sqrtn None None (Some n) = Some (C11_mu_formula F sqrtn n))
  /\ C11_default_mu F sqrtn None None None = None.
Proof. exact C11_Pgdb.C11_default_mu_spec. Qed.
Print Assumptions C11_default_mu_selection.

(* A12  the default mu satisfies the hypotheses `mu <> 0`, `0 <= mu` of A1-A5 whenever the square-root oracle is positive *)
Theorem C11_default_mu_admissible : forall (F : OF) (sqrtn : nat -> F) (n : nat),
  kle F (c0 F) (sqrtn n) -> sqrtn n <> c0 F ->
  kle F (c0 F) (C11_mu_formula F sqrtn n) /\ C11_mu_formula F sqrtn n <> c0 F.
Proof. exact C11_Pgdb.C11_mu_formula_pos. Qed.
Print Assumptions C11_default_mu_admissible.

(* ====================================================================== Part B *)
(* B1  quara's physical projection (variable -> stacked full vector v |-> L v + c, EUCLIDEAN projection Pfull of the full
   vector onto the image of the feasible set, convert back) is, seen from variable space, the nearest-point map of the
   inner product  <x, M y>  with  M = L^T L *)
Theorem C11_projection_metric_pullback : forall (F : OF) (N n : nat) (L : @mat F) (c : @vec F)
    (C Cfull : @vec F -> Prop) (P Pfull : @vec F -> @vec F),
  C11_obtuse F N Cfull Pfull ->
  (forall u, veq N (C11_emb F n L c (P u)) (Pfull (C11_emb F n L c u))) ->
  (forall u, C (P u)) ->
  (forall z, C z -> Cfull (C11_emb F n L c z)) ->
  C11_obtuse_ip F (C11_ipM F n (C11_metric_of F N L)) C P.
Proof. exact C11_Metric.C11_pullback_obtuse. Qed.
Print Assumptions C11_projection_metric_pullback.

(* B2  M = c I with c > 0 (states, gates, everything with on_para_eq_constraint=False: c = 1; 2-outcome POVMs with
   on_para_eq_constraint=True: c = 2): the projection is the Euclidean one, so A1-A5 apply *)
Theorem C11_scalar_metric_is_euclidean : forall (F : OF) (n : nat) (M : @mat F) (c : F)
    (C : @vec F -> Prop) (P : @vec F -> @vec F),
  (forall i j, (i < n)%nat -> (j < n)%nat -> M i j = (if Nat.eqb i j then c else c0 F)) ->
  kle F (c0 F) c -> c <> c0 F ->
  C11_obtuse_ip F (C11_ipM F n M) C P -> C11_obtuse F n C P.
Proof. exact C11_Metric.C11_scalar_metric_obtuse. Qed.
Print Assumptions C11_scalar_metric_is_euclidean.

(* B2a  the model of Povm.convert_var_to_stacked_vector (on_para_eq_constraint=True) as an affine map: entry (x, a) of
   L var + c  is entry a of the coefficient vector of element x of quara's variable -> POVM conversion [C11_povm_vec]
   (the function the cvx_maps sub-check ties to quara), for every number S K of outcomes and every block size D *)
Theorem C11_povm_embedding_is_conversion : forall (F : OF) (K D : nat) (sd : F) (var : rvec F) (x a : nat),
  (x <= K)%nat -> (a < D)%nat ->
  C11_emb F (K * D) (C11_povm_L F D (S K)) (C11_povm_c F D (S K) sd) var (x * D + a)%nat
  = C11_povm_vec F D (S K) sd var x a.
Proof. exact C11_PovmMetric.C11_povm_emb_is_conversion. Qed.
Print Assumptions C11_povm_embedding_is_conversion.

(* B2b  its metric, for every number of outcomes and every dimension:  (L^T L)_ij = delta_ij + [i mod D = j mod D],
   i.e.  M = (I + 1 1^T) (x) I_D  *)
Theorem C11_povm_variable_metric : forall (F : OF) (K D i j : nat), (i < K * D)%nat -> (j < K * D)%nat ->
  C11_metric_of F (S K * D) (C11_povm_L F D (S K)) i j
  = cadd F (if Nat.eqb i j then c1 F else c0 F) (if Nat.eqb (i mod D) (j mod D) then c1 F else c0 F).
Proof. exact C11_PovmMetric.C11_povm_metric. Qed.
Print Assumptions C11_povm_variable_metric.

(* B2c  with three or more outcomes (K >= 2 free elements) this metric is NOT c I for any c: the hypothesis of B2 fails and
   A1-A5 do not apply to the code as written (two outcomes: M = 2 I, Example C11_ex_povm2_metric) *)
Theorem C11_povm_variable_metric_not_scalar : forall (F : OF) (K D : nat) (c : F), (0 < D)%nat -> (2 <= K)%nat ->
  ~ (forall i j, (i < K * D)%nat -> (j < K * D)%nat ->
       C11_metric_of F (S K * D) (C11_povm_L F D (S K)) i j = (if Nat.eqb i j then c else c0 F)).
Proof. exact C11_PovmMetric.C11_povm3_metric_not_scalar. Qed.
Print Assumptions C11_povm_variable_metric_not_scalar.

(* B3-B5  for a general symmetric metric: stepping along the gradient h OF THE SAME inner product (<h x, M v> = <g x, v>,
   i.e. h = M^-1 g) restores descent direction, a-posteriori gap and "stationary => optimal" *)
Theorem C11_descent_direction_metric : forall (F : OF) (n : nat) (M : @mat F) (C : @vec F -> Prop)
    (P g h : @vec F -> @vec F) (mu : F),
  mu <> c0 F -> kle F (c0 F) mu -> C11_obtuse_ip F (C11_ipM F n M) C P ->
  (forall x v, C11_ipM F n M (h x) v = dot n (g x) v) ->
  forall x, C x ->
  let y := C11_dir F P h mu x in kle F (dot n (g x) y) (copp F (cmul F mu (C11_ipM F n M y y))).
Proof. exact C11_Metric.C11_descent_direction_ip. Qed.
Print Assumptions C11_descent_direction_metric.

Theorem C11_gap_certificate_metric : forall (F : OF) (n : nat) (M : @mat F) (C : @vec F -> Prop) (P : @vec F -> @vec F)
    (f : @vec F -> F) (g h : @vec F -> @vec F) (mu : F),
  mu <> c0 F -> kle F (c0 F) mu -> C11_obtuse_ip F (C11_ipM F n M) C P ->
  (forall x v, C11_ipM F n M (h x) v = dot n (g x) v) ->
  C11_first_order_convex F n f g ->
  forall x z, C z ->
  let y := C11_dir F P h mu x in
  kle F (csub F (dot n (g x) y) (cmul F mu (C11_ipM F n M y (vsub (vsub z x) y)))) (csub F (f z) (f x)).
Proof. exact C11_Metric.C11_gap_ip. Qed.
Print Assumptions C11_gap_certificate_metric.

Theorem C11_stationary_optimal_metric : forall (F : OF) (n : nat) (M : @mat F) (C : @vec F -> Prop) (P : @vec F -> @vec F)
    (f : @vec F -> F) (g h : @vec F -> @vec F) (mu : F),
  mu <> c0 F -> kle F (c0 F) mu -> C11_obtuse_ip F (C11_ipM F n M) C P ->
  (forall x v, C11_ipM F n M (h x) v = dot n (g x) v) ->
  C11_first_order_convex F n f g ->
  forall x z, C z -> veq n (C11_dir F P h mu x) vzero -> kle F (f x) (f z).
Proof. exact C11_Metric.C11_stationary_optimal_ip. Qed.
Print Assumptions C11_stationary_optimal_metric.

(* B6  the code as written (Euclidean gradient step, projection of the metric M, M symmetric): the only per-step certificate
   is the M-weighted one,  <M g, y> + mu <y, M y> <= 0  (checked on every replayed step of every run) *)
Theorem C11_descent_certificate_as_coded : forall (F : OF) (n : nat) (M : @mat F) (C : @vec F -> Prop)
    (P g : @vec F -> @vec F) (mu : F),
  mu <> c0 F -> kle F (c0 F) mu ->
  (forall i j, (i < n)%nat -> (j < n)%nat -> M i j = M j i) ->
  C11_obtuse_ip F (C11_ipM F n M) C P ->
  forall x, C x -> kle F (C11_descent_defect_metric F n M mu (g x) (C11_dir F P g mu x)) (c0 F).
Proof. exact C11_Metric.C11_descent_as_coded_metric. Qed.
Print Assumptions C11_descent_certificate_as_coded.

(* B7  REFUTED for the code as it is (known finding C11-3, not repaired): with the metric M = [[2,1],[1,2]] = L^T L of the
   3-outcome on_para_eq_constraint=True POVM variable (Example C11_ex_povm3_metric), "stationary => optimal" (A4) fails:
   C = { z_0 >= 0 } convex, P its nearest-point map for <., M .>, f z = (z_0+1)^2 + (z_1-1)^2 convex with gradient g,
   x = (0, 1/2) and z = (0, 1) feasible, the iteration  x |-> P(x - g x/mu)  (mu = 1) is stationary at x, and f z < f x.
   Holds in every ordered field. *)
Theorem C11_wrong_metric_stationary_not_optimal_refuted : forall F : OF,
  C11_convex_set F (C11_wm_C F)
  /\ C11_obtuse_ip F (C11_ipM F 2 (C11_wm_M F)) (C11_wm_C F) (C11_wm_P F)
  /\ C11_first_order_convex F 2 (C11_sq_loss F 2 2 (C11_wm_A F) (C11_wm_b F) (C11_wm_q F))
                                (C11_sq_grad F 2 2 (C11_wm_A F) (C11_wm_b F) (C11_wm_q F))
  /\ C11_wm_C F (C11_wm_x F) /\ C11_wm_C F (C11_wm_z F)
  /\ veq 2 (C11_dir F (C11_wm_P F) (C11_sq_grad F 2 2 (C11_wm_A F) (C11_wm_b F) (C11_wm_q F)) (c1 F) (C11_wm_x F)) vzero
  /\ ~ kle F (C11_sq_loss F 2 2 (C11_wm_A F) (C11_wm_b F) (C11_wm_q F) (C11_wm_x F))
             (C11_sq_loss F 2 2 (C11_wm_A F) (C11_wm_b F) (C11_wm_q F) (C11_wm_z F)).
Proof. exact C11_Pgdb.C11_wm_summary. Qed.
Print Assumptions C11_wrong_metric_stationary_not_optimal_refuted.

(* ====================================================================== Part C *)
(* C1 (T8a)  dmat_from_var denotes the operator of quara's state variable (c = 1/sqrt d, sd = sqrt d, dd = d as passed) *)
Theorem C11_dmat_from_var_denotes : forall (F : OF) (d : nat) (sd c dd : F) (B : nat -> cmat F),
  basis_0th_identity d sd B -> cmul F c sd = c1 F -> cmul F sd sd = dd ->
  forall (var : rvec F) (i j : nat), (i < d)%nat -> (j < d)%nat ->
  C11_dmat_from_var F d dd B var i j = op_of_vec d B (C11_state_vec F c var) i j.
Proof. exact C11_Cvx.C11_dmat_from_var_ok. Qed.
Print Assumptions C11_dmat_from_var_denotes.

(* C2 (T8b)  choi_from_var denotes the Choi matrix of quara's gate variable *)
Theorem C11_choi_from_var_denotes : forall (F : OF) (d : nat) (sd c dd : F) (B : nat -> cmat F),
  basis_0th_identity d sd B -> cmul F c sd = c1 F -> cmul F sd sd = dd ->
  forall (var : rvec F) (i j : nat), (i < d * d)%nat -> (j < d * d)%nat ->
  C11_choi_from_var F d dd B var i j = choi_of_hs d B (C11_gate_hs F (d * d) var) i j.
Proof. exact C11_Cvx.C11_choi_from_var_ok. Qed.
Print Assumptions C11_choi_from_var_denotes.

(* C3  mprocess_element_choi_from_var (code after fix mprocess-element-choi-from-var-last-outcome) denotes the Choi matrix of
   the instrument element of quara's variable, for EVERY outcome x, every number of outcomes, every basis *)
Theorem C11_mprocess_element_choi_from_var_denotes : forall (F : OF) (d m : nat) (B : nat -> cmat F) (var : rvec F)
    (x i j : nat),
  C11_mp_choi_from_var F d m B var x i j = choi_of_hs d B (C11_mp_hs F (d * d) m var x) i j.
Proof. exact C11_Cvx.C11_mp_choi_from_var_ok. Qed.
Print Assumptions C11_mprocess_element_choi_from_var_denotes.

(* C4  REFUTED, about [C11_mp_choi_from_var_before_fix] = the function AS CODED BEFORE fix
   mprocess-element-choi-from-var-last-outcome: for the last outcome and var = 0 it differs from the Choi matrix of the
   instrument element wherever B_0 (x) conj B_0 is non-zero (any basis, any number of outcomes) *)
Theorem C11_mprocess_element_choi_from_var_before_fix_refuted : forall (F : OF) (d m : nat) (B : nat -> cmat F) (i j : nat),
  (0 < d)%nat -> bbc d B 0%nat 0%nat i j <> c0 (CF F) ->
  C11_mp_choi_from_var_before_fix F d m B (fun _ => c0 F) (m - 1) i j
  <> choi_of_hs d B (C11_mp_hs F (d * d) m (fun _ => c0 F) (m - 1)) i j.
Proof. exact C11_Cvx.C11_mp_before_fix_refuted. Qed.
Print Assumptions C11_mprocess_element_choi_from_var_before_fix_refuted.

(* C5 (T8c)  the four _with_sparsity expressions (cp.reshape in column-major order of row-major flattenings: density matrix,
   POVM elements, Choi matrix of a gate, Choi matrices of instrument elements) denote the TRANSPOSE of the object's operator *)
Theorem C11_with_sparsity_denote_transpose : forall (F : OF) (d m : nat) (c sd : F) (B : nat -> cmat F),
  (forall (var : rvec F) (i j : nat), (i < d)%nat -> (j < d)%nat ->
     C11_dmat_sp F d c B var i j = mT (op_of_vec d B (C11_state_vec F c var)) i j)
  /\ (forall (var : rvec F) (x i j : nat), (i < d)%nat -> (j < d)%nat ->
     C11_povm_sp F d m sd B var x i j = mT (op_of_vec d B (C11_povm_vec F (d * d) m sd var x)) i j)
  /\ (forall (var : rvec F) (i j : nat), (i < d * d)%nat -> (j < d * d)%nat ->
     C11_choi_sp F d B var i j = mT (choi_of_hs d B (C11_gate_hs F (d * d) var)) i j)
  /\ (forall (var : rvec F) (x i j : nat), (i < d * d)%nat -> (j < d * d)%nat ->
     C11_mp_choi_sp F d m B var x i j = mT (choi_of_hs d B (C11_mp_hs F (d * d) m var x)) i j).
Proof. exact C11_Cvx.C11_sp_all_ok. Qed.
Print Assumptions C11_with_sparsity_denote_transpose.

(* C6  `M^T >> 0` is the same constraint as `M >> 0` (for every complex matrix), so by C5 the _with_sparsity constraints are
   exactly the physical inequality constraints *)
Theorem C11_transpose_same_psd_constraint : forall (F : OF) (n : nat) (H : cmat F), HPSD n (mT H) <-> HPSD n H.
Proof. exact C11_Cvx.C11_transpose_hpsd. Qed.
Print Assumptions C11_transpose_same_psd_constraint.

(* C7  the CVXPY loss expressions (models re-proved equal to the source's value_cvxpy on every run, coq/gen/C11_Equiv.v): with equal schedule
   ratios c_i = cc they are cc times the identity-weight squared error / relative entropy of the predicted distributions *)
Theorem C11_cvx_losses_uniform_ratio : forall (F : OF) (ln : F -> F) (eps cc : F) (S : nat) (nout : nat -> nat) (c : nat -> F)
    (q p : nat -> nat -> F),
  (forall i, (i < S)%nat -> c i = cc) ->
  C11_cvx_se F S nout c q p
    = cmul F cc (sumn S (fun i => sumn (nout i) (fun j => cmul F (csub F (p i j) (q i j)) (csub F (p i j) (q i j)))))
  /\ C11_cvx_re F ln eps S nout c q p
    = cmul F cc (sumn S (fun i => sumn (nout i) (fun j =>
        if C11_gt F (q i j) eps then cmul F (q i j) (csub F (ln (q i j)) (ln (p i j))) else c0 F))).
Proof. exact C11_Cvx.C11_cvx_uniform_ratio. Qed.
Print Assumptions C11_cvx_losses_uniform_ratio.

(* C8  the relative-entropy expression does not depend on the predicted probability of an outcome with q <= eps (it is skipped entirely) *)
Theorem C11_cvx_relative_entropy_skips_unobserved : forall (F : OF) (ln : F -> F) (eps : F) (S : nat) (nout : nat -> nat) (c : nat -> F)
    (q p p' : nat -> nat -> F),
  (forall i j, (i < S)%nat -> (j < nout i)%nat -> C11_gt F (q i j) eps = true -> p i j = p' i j) ->
  C11_cvx_re F ln eps S nout c q p = C11_cvx_re F ln eps S nout c q p'.
Proof. exact C11_Cvx.C11_cvx_re_skips_unobserved. Qed.
Print Assumptions C11_cvx_relative_entropy_skips_unobserved.

(* ====================================================================== the hypotheses are satisfiable *)
(* a convex set with its Euclidean projection (half space of F^2, clipping), in every ordered field *)
Example C11_ex_projection : forall F : OF, C11_convex_set F (C11_ex_C F) /\ C11_obtuse F 2 (C11_ex_C F) (C11_ex_P F).
Proof. intros F. split; [exact (C11_ex_convex F)|exact (C11_ex_obtuse F)]. Qed.
(* hence A1 and A5 (with A6) hold on this instance for the squared-error loss of the executed run below *)
Example C11_ex_gap_instance : forall x z : @vec Qc_OF, C11_ex_C Qc_OF z ->
  kle Qc_OF (C11_gap_bound Qc_OF 2 1%Qc x (C11_exq_g x) (C11_dir Qc_OF (C11_ex_P Qc_OF) C11_exq_g 1%Qc x) z)
            (csub Qc_OF (C11_exq_f z) (C11_exq_f x)).
Proof. apply (C11_gap_certificate Qc_OF 2 (C11_ex_C Qc_OF) (C11_ex_P Qc_OF) C11_exq_f C11_exq_g 1%Qc).
  - discriminate.
  - apply (one_nonneg Qc_OF).
  - exact (C11_ex_obtuse Qc_OF).
  - exact (C11_squared_error_convex Qc_OF 2 2 _ _ _). Qed.
(* an executed run of the loop model over Qc ends in C11_Done (k = 3 iterations, step sizes 1, 1/2, 1, at the minimiser (0,1)) *)
Example C11_ex_run_done : exists xs errs k w, C11_exq_run = C11_Done xs errs k w.
Proof. exact C11_exq_run_is_done. Qed.
Example C11_ex_run_values : C11_exq_run_ok = true.
Proof. exact C11_exq_run_done. Qed.
(* the embedding (v1, v2) |-> (v1, v2, e - v1 - v2) of a 3-outcome on_para_eq_constraint=True POVM variable has the metric
   of the refutation B7 *)
Example C11_ex_povm3_metric : forall F : OF, meq 2 2 (C11_metric_of F 3 (C11_ex_L3 F)) (C11_wm_M F).
Proof. exact C11_ex_L3_metric. Qed.
(* two outcomes: M = 2 I, so B2 applies with c = 2 *)
Example C11_ex_povm2_metric : forall (F : OF) (D i j : nat), (i < 1 * D)%nat -> (j < 1 * D)%nat ->
  C11_metric_of F (2 * D) (C11_povm_L F D 2) i j = (if Nat.eqb i j then cadd F (c1 F) (c1 F) else c0 F).
Proof. exact C11_PovmMetric.C11_povm2_metric_scalar. Qed.
(* the physical set of A5y is inhabited (d = 1) *)
Example C11_ex_state_set_inhabited : forall F : OF, C11_state_set F 1 (C11_ex_B1 F) (fun _ => c1 F).
Proof. exact C11_ex_state_set. Qed.
(* A12's hypothesis is satisfiable: n = 4, sqrt 4 = 2 over Qc; the default mu is then 3/4 *)
Example C11_ex_default_mu : C11_default_mu Qc_OF (fun _ => Q2Qc 2) None None (Some 4%nat) = Some (Q2Qc (3 # 4)).
Proof. vm_compute. reflexivity. Qed.
(* a basis satisfying the hypotheses of C1 / C2 over Qc: 2 qubits (d = 4), B_0 = I/2, sd = sqrt 4 = 2, c = 1/2, dd = 4 *)
Example C11_ex_basis : @basis_0th_identity Qc_OF 4 (Q2Qc 2) (C11_ex_B Qc_OF (Q2Qc (1 # 2)))
  /\ cmul Qc_OF (Q2Qc (1 # 2)) (Q2Qc 2) = c1 Qc_OF /\ cmul Qc_OF (Q2Qc 2) (Q2Qc 2) = Q2Qc 4.
Proof. split; [apply C11_ex_basis0; apply Qc_is_canon; reflexivity|]. split; apply Qc_is_canon; reflexivity. Qed.
(* and the hypothesis of C4 holds for it *)
Example C11_ex_bbc00_nonzero : bbc 4 (C11_ex_B Qc_OF (Q2Qc (1 # 2))) 0%nat 0%nat 0%nat 0%nat <> c0 (CF Qc_OF).
Proof. exact C11_exq_bbc00. Qed.
