(* C10 — constrained estimators return physical, consistent estimates: property theorems only.
   All statements are generic in the ordered field F (Qc is executed, R is what the property talks about).
   Oracles (section variables of the model): the projections P / Peq / Pineq, the loss f, its gradient g, the stopping
   rule [stop] (any function of the iterate history), ceil(log10 .) [mag].
   NOT proved: termination before max_iteration; that the loops converge. *)
From Coq Require Import Arith List Bool ZArith QArith Qcanon Lia.
From QV.Core Require Import OF QcOF Sums Mat.
From QV.Model Require Import C10_Estimators.
From QV.Proofs Require Import C10_Estimators.
Import ListNotations.

(* ---- 1. the choice of the projection is total and exactly per flags; the physical projection runs in the OPTION's order.
   [C10_select] is the model the harness compares with the implementation: the code WITH the repair
   /verif/fixes/qoperation-func-proj-physical-with-var-order.diff *)
Theorem C10_decision_table : forall t o,
  let d := C10_select None t o in
  (d_kind d = KPhysical <-> o_eq o = true /\ o_ineq o = true) /\
  (d_kind d = KEq <-> o_eq o = true /\ o_ineq o = false) /\
  (d_kind d = KIneq <-> o_eq o = false /\ o_ineq o = true) /\
  (d_kind d = KIdentity <-> o_eq o = false /\ o_ineq o = false) /\
  d_on_para d = t_on_para t /\ d_order d = o_order o /\ d_maxit d = o_maxit_proj o.
Proof. exact C10_select_table. Qed.
Print Assumptions C10_decision_table.

(* the function that is installed, by cases on the flags *)
Theorem C10_decision_table_apply :
  forall (V : Type) (Pphys : C10_order -> bool -> Z -> V -> V) (Peq Pineq : bool -> V -> V) t o,
  C10_apply Pphys Peq Pineq (C10_select None t o) =
  (if o_eq o then (if o_ineq o then Pphys (o_order o) (t_on_para t) (o_maxit_proj o) else Peq (t_on_para t))
   else (if o_ineq o then Pineq (t_on_para t) else (fun x => x))).
Proof. exact C10_apply_table. Qed.
Print Assumptions C10_decision_table_apply.

(* a projection the object keeps ([cached]) is the one used, whatever the new option says *)
Theorem C10_decision_cached_kept : forall d t o, C10_select (Some d) t o = d.
Proof. exact C10_select_cached. Qed.
Print Assumptions C10_decision_cached_kept.

(* ---- 1b. histories: the algorithm object re-used over ANY sequence of configurations (jobs).  [C10_configure] is the code WITH the
   repair /verif/fixes/pgd-cached-func-proj.diff (owner C13).  A projection handed to the constructor stays installed; otherwise
   the installed projection is the one the decision table derives from the LAST configuration, whatever came before — so with both
   constraint options on in the current job the physical projection is installed also on a re-used object. *)
Theorem C10_reused_algorithm_keeps_given_projection : forall cfgs a d, a_given a = Some d ->
  C10_installed (fold_left C10_configure cfgs a) = Some d.
Proof. exact C10_configure_seq_keeps_given. Qed.
Print Assumptions C10_reused_algorithm_keeps_given_projection.

Theorem C10_reused_algorithm_installs_projection_of_last_configuration : forall cfgs a c, a_given a = None ->
  C10_installed (fold_left C10_configure (cfgs ++ [c]) a) = Some (C10_select None (fst c) (snd c)).
Proof. exact C10_configure_seq_last. Qed.
Print Assumptions C10_reused_algorithm_installs_projection_of_last_configuration.

(* AS CODED BEFORE FIX pgd-cached-func-proj ([C10_configure_before_fix], the pinned tree): the projection derived from the FIRST
   configuration stayed installed for every later job (e.g. identity from a first job with both options off, then a job with both
   options on: no projection at all).  Statement about the labelled definition only. *)
Theorem C10_reused_algorithm_kept_first_projection_before_fix : forall cfgs a c, C10_installed a = None ->
  C10_installed (fold_left C10_configure_before_fix (c :: cfgs) a) = Some (C10_select None (fst c) (snd c)).
Proof. exact C10_configure_before_fix_seq_first. Qed.
Print Assumptions C10_reused_algorithm_kept_first_projection_before_fix.

(* the order stored in the template object has no influence on the installed projection *)
Theorem C10_template_order_irrelevant : forall c p ord ord' o,
  C10_select c {| t_on_para := p; t_order := ord |} o = C10_select c {| t_on_para := p; t_order := ord' |} o.
Proof. exact C10_select_ignores_template_order. Qed.
Print Assumptions C10_template_order_irrelevant.

(* AS CODED BEFORE FIX qoperation-func-proj-physical-with-var-order ([C10_select_before_fix], the pinned tree): the option's
   mode_proj_order had no influence on the installed projection; that selection is the repaired one run with the template's
   order, and the two differ exactly when the option asks for the other order.  Statements about the labelled definition only. *)
Theorem C10_option_order_ignored_before_fix : forall c t e i ord ord' mx,
  C10_select_before_fix c t {| o_eq := e; o_ineq := i; o_order := ord; o_maxit_proj := mx |} =
  C10_select_before_fix c t {| o_eq := e; o_ineq := i; o_order := ord'; o_maxit_proj := mx |}.
Proof. exact C10_select_before_fix_ignores_option_order. Qed.
Print Assumptions C10_option_order_ignored_before_fix.

Theorem C10_before_fix_agrees_iff_orders_equal : forall t o,
  C10_select_before_fix None t o = C10_select None t o <-> t_order t = o_order o.
Proof. exact C10_select_before_fix_differs. Qed.
Print Assumptions C10_before_fix_agrees_iff_orders_equal.

(* ---- 2. backtracking: the step size lies in (0,1] and is a power of 1/2; every step is a convex combination *)
Theorem C10_backtracking_alpha : forall (F : OF) n P f g mu gamma afuel x,
  let a := C10_bt_alpha F n P f g mu gamma afuel x in
  kle F (c0 F) a /\ kle F a (c1 F) /\ a <> c0 F /\
  exists j, (j <= afuel)%nat /\ a = Nat.iter j (fun b => cmul F (C10_half F) b) (c1 F).
Proof. exact C10_bt_alpha_full. Qed.
Print Assumptions C10_backtracking_alpha.

Theorem C10_backtracking_step_convex_combination : forall (F : OF) n P f g mu gamma afuel x i,
  C10_bt_step F n P f g mu gamma afuel x i =
  cadd F (cmul F (C10_bt_alpha F n P f g mu gamma afuel x) (P (C10_bt_arg F g mu x) i))
         (cmul F (csub F (c1 F) (C10_bt_alpha F n P f g mu gamma afuel x)) (x i)).
Proof. exact C10_bt_step_convex_comb. Qed.
Print Assumptions C10_backtracking_step_convex_combination.

(* convex C, P maps into C, start in C: the result AND every stored iterate lie in C — any loss, any gradient,
   any mu, gamma, any Armijo fuel, any stopping rule, any iteration cap *)
Theorem C10_backtracking_iterates_feasible :
  forall (F : OF) n (P : vec -> vec) (f : vec -> F) (g : vec -> vec) mu gamma afuel (C : vec -> Prop),
  C10_convex F C -> C10_ext F n C -> C10_into F P C ->
  forall stop maxit x0 r, C x0 -> C10_bt_run F n P f g mu gamma afuel stop maxit x0 = Some r ->
  C (fst r) /\ Forall C (snd r).
Proof. exact C10_bt_run_feasible. Qed.
Print Assumptions C10_backtracking_iterates_feasible.

(* a feasible point with vanishing gradient (the truth, for exact data) is a fixed point of the iteration *)
Theorem C10_backtracking_truth_fixed_point :
  forall (F : OF) n (P : vec -> vec) (f : vec -> F) (g : vec -> vec) mu gamma afuel (C : vec -> Prop),
  C10_ext F n C -> forall x, C10_fixes F n P C -> mu <> c0 F -> C x -> veq n (g x) vzero ->
  veq n (C10_bt_step F n P f g mu gamma afuel x) x.
Proof. exact C10_bt_step_fixed. Qed.
Print Assumptions C10_backtracking_truth_fixed_point.

(* ---- 3. momentum and FISTA: the result and every stored iterate after the start point are OUTPUTS of P *)
Theorem C10_momentum_iterates_in_range_of_P :
  forall (F : OF) (P : vec -> vec) (f : vec -> F) (g : vec -> vec) gam z0 mag stop maxit x0 m0 r,
  C10_mom_run F P f g gam z0 mag stop maxit x0 m0 = Some r ->
  C10_in_range F P (ms_x F (fst r)) /\
  exists new, snd r = new ++ [x0] /\ Forall (C10_in_range F P) new /\ exists rest, new = ms_x F (fst r) :: rest.
Proof. exact C10_mom_run_range. Qed.
Print Assumptions C10_momentum_iterates_in_range_of_P.

Theorem C10_fista_iterates_in_range_of_P :
  forall (F : OF) (P g : vec -> vec) delta stop maxit x0 r,
  C10_fista_run F P g delta stop maxit x0 = Some r ->
  C10_in_range F P (snd (fst r)) /\
  exists new, snd r = new ++ [x0] /\ Forall (C10_in_range F P) new /\ exists rest, new = snd (fst r) :: rest.
Proof. exact C10_fista_run_range. Qed.
Print Assumptions C10_fista_iterates_in_range_of_P.

Theorem C10_momentum_iterates_feasible :
  forall (F : OF) (P : vec -> vec) (f : vec -> F) (g : vec -> vec) (C : vec -> Prop), C10_into F P C ->
  forall gam z0 mag stop maxit x0 m0 r, C x0 ->
  C10_mom_run F P f g gam z0 mag stop maxit x0 m0 = Some r -> C (ms_x F (fst r)) /\ Forall C (snd r).
Proof. exact C10_mom_run_feasible. Qed.
Print Assumptions C10_momentum_iterates_feasible.

Theorem C10_fista_iterates_feasible :
  forall (F : OF) (P g : vec -> vec) (C : vec -> Prop), C10_into F P C ->
  forall delta stop maxit x0 r, C x0 ->
  C10_fista_run F P g delta stop maxit x0 = Some r -> C (snd (fst r)) /\ Forall C (snd r).
Proof. exact C10_fista_run_feasible. Qed.
Print Assumptions C10_fista_iterates_feasible.

(* the loops return a value exactly when max_iteration >= 1 (0: the code fails on an unbound variable) *)
Theorem C10_run_returns_iff : forall (F : OF) (S : Type) (step : nat -> S -> S) cur stop maxit s0,
  (exists r, C10_run F step cur stop maxit s0 = Some r) <-> (0 < maxit)%nat.
Proof. exact C10_run_some_iff. Qed.
Print Assumptions C10_run_returns_iff.

(* ---- 4. physical projection: returns an output of the projection applied last; fixes physical points *)
Theorem C10_proj_physical_result_is_output_of_last_projection :
  forall (F : OF) n (Peq Pineq : vec -> vec) eps order maxit x0 r,
  C10_proj_physical F n Peq Pineq eps order maxit x0 = Some r ->
  exists z, r = (match order with EqIneq => Pineq | IneqEq => Peq end) z.
Proof. exact C10_proj_physical_last. Qed.
Print Assumptions C10_proj_physical_result_is_output_of_last_projection.

Theorem C10_proj_physical_fixes_physical_points :
  forall (F : OF) n (Peq Pineq : vec -> vec) eps (E Q : vec -> Prop),
  C10_ext F n E -> C10_ext F n Q -> C10_fixes F n Peq E -> C10_fixes F n Pineq Q ->
  forall order maxit x0, E x0 -> Q x0 -> (0 < maxit)%nat ->
  exists r, C10_proj_physical F n Peq Pineq eps order maxit x0 = Some r /\ veq n r x0.
Proof. exact C10_proj_physical_fix. Qed.
Print Assumptions C10_proj_physical_fixes_physical_points.

(* ---- 4b. both constraint options on: the installed closure ([C10_phys_total]: calc_proj_physical_with_var on stacked vectors, in the
   option's order, cap maxitp >= 1) maps into ANY set Cl that contains every output of the projection applied last
   ([C10_last_proj]: P_ineq for "eq_ineq", P_eq for "ineq_eq"); hence the result and every stored iterate of the three algorithms
   satisfy the constraint projected last EXACTLY — any loss, gradient, step parameters, stopping rule, caps.  (The other constraint
   holds to the stopping accuracy of the Dykstra loop only; that is measured per run, not proved.) *)
Theorem C10_both_options_on_backtracking_iterates_satisfy_last_constraint :
  forall (F : OF) n (Peq Pineq : vec -> vec) eps order maxitp, (0 < maxitp)%nat ->
  forall (Cl : vec -> Prop), (forall z, Cl (C10_last_proj F Peq Pineq order z)) ->
  forall (f : vec -> F) (g : vec -> vec) mu gamma afuel, C10_convex F Cl -> C10_ext F n Cl ->
  forall stop maxit x0 r, Cl x0 ->
  C10_bt_run F n (C10_phys_total F n Peq Pineq eps order maxitp) f g mu gamma afuel stop maxit x0 = Some r ->
  Cl (fst r) /\ Forall Cl (snd r).
Proof. exact C10_bt_physical_last_feasible. Qed.
Print Assumptions C10_both_options_on_backtracking_iterates_satisfy_last_constraint.

Theorem C10_both_options_on_momentum_iterates_satisfy_last_constraint :
  forall (F : OF) n (Peq Pineq : vec -> vec) eps order maxitp, (0 < maxitp)%nat ->
  forall (Cl : vec -> Prop), (forall z, Cl (C10_last_proj F Peq Pineq order z)) ->
  forall (f : vec -> F) (g : vec -> vec) gam z0 mag stop maxit x0 m0 r, Cl x0 ->
  C10_mom_run F (C10_phys_total F n Peq Pineq eps order maxitp) f g gam z0 mag stop maxit x0 m0 = Some r ->
  Cl (ms_x F (fst r)) /\ Forall Cl (snd r).
Proof. exact C10_mom_physical_last_feasible. Qed.
Print Assumptions C10_both_options_on_momentum_iterates_satisfy_last_constraint.

Theorem C10_both_options_on_fista_iterates_satisfy_last_constraint :
  forall (F : OF) n (Peq Pineq : vec -> vec) eps order maxitp, (0 < maxitp)%nat ->
  forall (Cl : vec -> Prop), (forall z, Cl (C10_last_proj F Peq Pineq order z)) ->
  forall (g : vec -> vec) delta stop maxit x0 r, Cl x0 ->
  C10_fista_run F (C10_phys_total F n Peq Pineq eps order maxitp) g delta stop maxit x0 = Some r ->
  Cl (snd (fst r)) /\ Forall Cl (snd r).
Proof. exact C10_fista_physical_last_feasible. Qed.
Print Assumptions C10_both_options_on_fista_iterates_satisfy_last_constraint.

(* ---- 5. linear estimate of exact data; projected linear estimate of exact data of a physical object *)
Theorem C10_linear_estimate_exact_recovery : forall (F : OF) nv nd (M A : mat) (b v : vec),
  meq nv nv (mmul nv M (mmul nd (mT A) A)) mid ->
  veq nv (C10_lin_est F nv nd M A b (vadd (mv nv A v) b)) v.
Proof. exact C10_lin_est_exact. Qed.
Print Assumptions C10_linear_estimate_exact_recovery.

(* projected linear estimate = to_var (proj_physical (to_stacked (linear estimate)))  — by definition of the model
   (tied to the code by the harness) — and for exact data of a physical v it is v *)
Theorem C10_projected_linear_is_projection_of_linear :
  forall (F : OF) n nv nd to_stacked to_var Peq Pineq eps order maxit M A b f,
  C10_ple F n nv nd to_stacked to_var Peq Pineq eps order maxit M A b f =
  option_map to_var (C10_proj_physical F n Peq Pineq eps order maxit (to_stacked (C10_lin_est F nv nd M A b f))).
Proof. reflexivity. Qed.
Print Assumptions C10_projected_linear_is_projection_of_linear.

Theorem C10_projected_linear_exact_data :
  forall (F : OF) n (Peq Pineq : vec -> vec) eps (E Q : vec -> Prop),
  C10_ext F n E -> C10_ext F n Q -> C10_fixes F n Peq E -> C10_fixes F n Pineq Q ->
  forall nv nd (to_stacked to_var : vec -> vec),
  (forall a b, veq nv a b -> veq n (to_stacked a) (to_stacked b)) ->
  (forall a b, veq n a b -> veq nv (to_var a) (to_var b)) ->
  (forall v, veq nv (to_var (to_stacked v)) v) ->
  forall order maxit (M A : mat) (b v : vec),
  meq nv nv (mmul nv M (mmul nd (mT A) A)) mid -> E (to_stacked v) -> Q (to_stacked v) -> (0 < maxit)%nat ->
  exists r, C10_ple F n nv nd to_stacked to_var Peq Pineq eps order maxit M A b (vadd (mv nv A v) b) = Some r /\
            veq nv r v.
Proof. exact C10_ple_exact. Qed.
Print Assumptions C10_projected_linear_exact_data.

(* ---- 6. the start point (origin object) satisfies the equality constraint, all four object types *)
Theorem C10_origin_satisfies_eq_constraint : forall (F : OF) ty d2 m sd, (0 < m)%nat ->
  C10_eq_constraint F ty d2 m sd (C10_origin F ty d2 m sd).
Proof. exact C10_origin_eq_all. Qed.
Print Assumptions C10_origin_satisfies_eq_constraint.

(* ---- 7. scope of the feasibility theorems.  The flags (eq off, ineq on) install the variable-level inequality projection
   to_var o P_psd o to_stacked.  Under on_para_eq_constraint=True it does NOT map into the PSD set, so the hypothesis
   "P maps into C" of the feasibility theorems is not available for that configuration.  This is NOT a refutation of the
   property: the property is about "loss minimisation ... with the constraint options on", i.e. both algorithm constraint
   options on, and this configuration has one of them off (the harness gives no physicality verdict there).
   Statement that is false of the model:  forall v, PSD (to_stacked (C10_proj_ineq_with_var to_stacked to_var Pineq v)).
   Witness: diagonal two-qubit state, normalised Pauli basis (sd = 2), variables (IZ, ZI, ZZ) = (3/2, 0, 0):
   the clipped matrix diag(1,0,1,0) is PSD, the returned variables (1,0,0) denote diag(3/4,-1/4,3/4,-1/4).
   The same numbers are computed by the code (sub-check ineq_var). *)
Theorem C10_ineq_only_projection_with_para_eq_not_into_psd :
  exists v : @vec Qc_OF,
    C10_d4_psdb Qc_OF (C10_d4_Pineq Qc_OF (C10_d4_to_stacked Qc_OF v)) = true /\
    C10_d4_psdb Qc_OF (C10_d4_to_stacked Qc_OF
       (C10_proj_ineq_with_var Qc_OF (C10_d4_to_stacked Qc_OF) (C10_d4_to_var Qc_OF) (C10_d4_Pineq Qc_OF) v)) = false.
Proof. exact C10_ineq_with_var_para_eq_not_into_psd. Qed.
Print Assumptions C10_ineq_only_projection_with_para_eq_not_into_psd.

(* ------------------------------------------------------------------ non-vacuity, on concrete instances over Qc *)
Definition q (n : Z) (d : positive) : Qc := Q2Qc (n # d).
Definition qeq (a b : Qc) : bool := Qeq_bool (this a) (this b).

(* the hypotheses of the feasibility theorems hold for C = [0,1] (coordinate 0) and P = clamp; a concrete run of
   backtracking on f(v) = (v0 - 2)^2 from 1/2 (mu = 8) visits 7/8 and ends at the boundary point 1; 3 steps, 4 stored iterates *)
Definition ex_f (v : @vec Qc_OF) : Qc := ((v 0%nat - q 2 1) * (v 0%nat - q 2 1))%Qc.
Definition ex_g (v : @vec Qc_OF) : @vec Qc_OF := fun _ => (q 2 1 * (v 0%nat - q 2 1))%Qc.
Example C10_example_backtracking :
  C10_convex Qc_OF (C10_ex_C Qc_OF) /\ C10_ext Qc_OF 1 (C10_ex_C Qc_OF) /\
  C10_into Qc_OF (C10_ex_P Qc_OF) (C10_ex_C Qc_OF) /\ C10_fixes Qc_OF 1 (C10_ex_P Qc_OF) (C10_ex_C Qc_OF) /\
  C10_ex_C Qc_OF (fun _ => q 1 2) /\
  exists r, C10_bt_run Qc_OF 1 (C10_ex_P Qc_OF) ex_f ex_g (q 8 1) (q 3 10) 20 (fun _ => false) 3 (fun _ => q 1 2) = Some r /\
            qeq (fst r 0%nat) (q 1 1) = true /\ length (snd r) = 4%nat /\
            qeq (nth 2 (snd r) (fun _ => 0%Qc) 0%nat) (q 7 8) = true.
Proof. split; [apply C10_ex_convex|]. split; [apply C10_ex_ext|]. split; [apply C10_ex_into|].
  split; [apply C10_ex_fixes|]. split. { split; vm_compute; discriminate. }
  eexists. split; [reflexivity|]. repeat split; vm_compute; reflexivity. Qed.

(* Dykstra hypotheses: E = {v0 = 1}, Q = {0 <= v1}; the physical point (1, 2) is returned, the unphysical (3, -1) is
   mapped to (1, 0) *)
Example C10_example_proj_physical :
  C10_ext Qc_OF 2 (C10_ex_E Qc_OF) /\ C10_ext Qc_OF 2 (C10_ex_Q Qc_OF) /\
  C10_fixes Qc_OF 2 (C10_ex_Peq Qc_OF) (C10_ex_E Qc_OF) /\ C10_fixes Qc_OF 2 (C10_ex_Pineq Qc_OF) (C10_ex_Q Qc_OF) /\
  (exists r, C10_proj_physical Qc_OF 2 (C10_ex_Peq Qc_OF) (C10_ex_Pineq Qc_OF) (q 1 100) IneqEq 5
               (fun i => if (i =? 0)%nat then q 3 1 else q (-1) 1) = Some r /\
             qeq (r 0%nat) (q 1 1) = true /\ qeq (r 1%nat) (q 0 1) = true).
Proof. split; [apply C10_ex_E_ext|]. split; [apply C10_ex_Q_ext|]. split; [apply C10_ex_Peq_fixes|].
  split; [apply C10_ex_Pineq_fixes|]. eexists. split; [reflexivity|]. split; vm_compute; reflexivity. Qed.

(* "constraint projected last": with E = {v0 = 1} (convex, extensional) every output of the projection applied last in order
   "ineq_eq" lies in E, and with Q = {0 <= v1} every output of the one applied last in "eq_ineq" lies in Q; a concrete FISTA run
   (P = the total physical projection in order ineq_eq, cap 5; g = 0) from the physical point (1, 2) stays there *)
Example C10_example_last_constraint :
  (forall z, C10_ex_E Qc_OF (C10_last_proj Qc_OF (C10_ex_Peq Qc_OF) (C10_ex_Pineq Qc_OF) IneqEq z)) /\
  C10_convex Qc_OF (C10_ex_E Qc_OF) /\
  (forall z, C10_ex_Q Qc_OF (C10_last_proj Qc_OF (C10_ex_Peq Qc_OF) (C10_ex_Pineq Qc_OF) EqIneq z)) /\
  C10_convex Qc_OF (C10_ex_Q Qc_OF) /\
  exists r, C10_fista_run Qc_OF (C10_phys_total Qc_OF 2 (C10_ex_Peq Qc_OF) (C10_ex_Pineq Qc_OF) (q 1 100) IneqEq 5)
              (fun _ _ => 0%Qc) (q 1 10) (fun _ => false) 2 (fun i => if (i =? 0)%nat then q 1 1 else q 2 1) = Some r /\
            qeq (snd (fst r) 0%nat) (q 1 1) = true /\ qeq (snd (fst r) 1%nat) (q 2 1) = true /\ length (snd r) = 3%nat.
Proof. split; [apply C10_ex_last_eq|]. split; [apply C10_ex_E_convex|]. split; [apply C10_ex_last_ineq|].
  split; [apply C10_ex_Q_convex|]. eexists. split; [reflexivity|].
  split; [vm_compute; reflexivity|]. split; vm_compute; reflexivity. Qed.

(* linear estimate: A = [[1,0],[0,1],[1,1]], M = (A^T A)^-1 = 1/3 [[2,-1],[-1,2]] *)
Definition ex_A : @mat Qc_OF := fun i j => match i, j with 0%nat, 0%nat => q 1 1 | 1%nat, 1%nat => q 1 1 | 2%nat, _ => q 1 1 | _, _ => q 0 1 end.
Definition ex_M : @mat Qc_OF := fun i j => if (i =? j)%nat then q 2 3 else q (-1) 3.
Example C10_example_linear : meq 2 2 (mmul 2 ex_M (mmul 3 (mT ex_A) ex_A)) mid.
Proof. intros [|[|i]] [|[|j]] Hi Hj; try lia; apply Qc_is_canon; vm_compute; reflexivity. Qed.
