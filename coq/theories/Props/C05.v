(* C05 — physical projection (Dykstra-type alternating projection with correction terms): property theorems only.
   The model is Model/C05_Dykstra.v (one sweep [step], both orders [step_mode], the loop with fuel [run_dykstra]);
   PA / PB (Peq / Pineq) are ARBITRARY functions unless a hypothesis says otherwise; vectors live on [0, n).
   NOT proved (and not claimed): convergence of the iteration / that the stopping test is ever met for all inputs
   (Boyle-Dykstra); the loop itself terminates trivially by its fuel = max_iteration.  What is proved is an invariant
   of every sweep and an a-posteriori optimality certificate that the harness evaluates on each run's own output. *)
From Coq Require Import Arith List Bool QArith Qcanon Lia.
From QV.Core Require Import OF QcOF Sums Mat Psd.
From QV.Exec Require Import Base.
From QV.Model Require Import C05_Dykstra.
From QV.Proofs Require Import C05_Dykstra C05_Sets C05_Norms.
Import ListNotations.

(* ---- invariant: x_k + p_k + q_k = x_0 after every sweep, for arbitrary projections, either order *)
Theorem C05_invariant : forall (F : OF) (n : nat) (frz : vec -> vec), frz_ok F n frz ->
  forall (PA PB : nat -> vec -> vec) (x0 : vec) (k i : nat), (i < n)%nat ->
  cadd F (cadd F (sx (iter F frz PA PB k (init F frz x0)) i) (sp (iter F frz PA PB k (init F frz x0)) i))
         (sq (iter F frz PA PB k (init F frz x0)) i) = x0 i.
Proof. exact invariant. Qed.
Print Assumptions C05_invariant.

Theorem C05_invariant_either_order : forall (F : OF) (n : nat) (frz : vec -> vec), frz_ok F n frz ->
  forall (Peq Pineq : nat -> vec -> vec) (eq_first : bool) (x0 : vec) (k i : nat), (i < n)%nat ->
  cadd F (cadd F (sx (iter_mode F frz Peq Pineq eq_first k (init F frz x0)) i)
                 (sp (iter_mode F frz Peq Pineq eq_first k (init F frz x0)) i))
         (sq (iter_mode F frz Peq Pineq eq_first k (init F frz x0)) i) = x0 i.
Proof. exact invariant_mode. Qed.
Print Assumptions C05_invariant_either_order.

(* ---- a-posteriori optimality certificate.  If both projections satisfy the obtuse-angle (variational) inequality of
   nearest-point projections onto sets A, B, then after any k >= 1 sweeps and for EVERY z in A /\ B
        < x_0 - x_k , z - x_k >  <=  < p_k , y_k - x_k >  =: gap_k *)
Theorem C05_certificate : forall (F : OF) (n : nat) (frz : vec -> vec), frz_ok F n frz ->
  forall (PA PB : nat -> vec -> vec) (A B : vec -> Prop), obtuse F n A PA -> obtuse F n B PB ->
  forall (x0 : vec) (k : nat) (z : vec), (1 <= k)%nat -> A z -> B z ->
  kle F (dot n (vsub x0 (sx (iter F frz PA PB k (init F frz x0)))) (vsub z (sx (iter F frz PA PB k (init F frz x0)))))
        (gap F n (iter F frz PA PB k (init F frz x0))).
Proof. exact certificate. Qed.
Print Assumptions C05_certificate.

Theorem C05_certificate_either_order : forall (F : OF) (n : nat) (frz : vec -> vec), frz_ok F n frz ->
  forall (Peq Pineq : nat -> vec -> vec) (E I : vec -> Prop), obtuse F n E Peq -> obtuse F n I Pineq ->
  forall (eq_first : bool) (x0 : vec) (k : nat) (z : vec), (1 <= k)%nat -> E z -> I z ->
  kle F (dot n (vsub x0 (sx (iter_mode F frz Peq Pineq eq_first k (init F frz x0))))
               (vsub z (sx (iter_mode F frz Peq Pineq eq_first k (init F frz x0)))))
        (gap F n (iter_mode F frz Peq Pineq eq_first k (init F frz x0))).
Proof. exact certificate_mode. Qed.
Print Assumptions C05_certificate_either_order.

(* hence  |x_0 - z|^2 >= |x_0 - x_k|^2 + |x_k - z|^2 - 2 gap_k  for every feasible z *)
Theorem C05_certificate_pythagoras : forall (F : OF) (n : nat) (frz : vec -> vec), frz_ok F n frz ->
  forall (PA PB : nat -> vec -> vec) (A B : vec -> Prop), obtuse F n A PA -> obtuse F n B PB ->
  forall (x0 : vec) (k : nat) (z : vec), (1 <= k)%nat -> A z -> B z ->
  kle F (csub F (cadd F (dist2 F n x0 (sx (iter F frz PA PB k (init F frz x0))))
                        (dist2 F n (sx (iter F frz PA PB k (init F frz x0))) z))
                (cadd F (gap F n (iter F frz PA PB k (init F frz x0))) (gap F n (iter F frz PA PB k (init F frz x0)))))
        (dist2 F n x0 z).
Proof. exact certificate_pythagoras. Qed.
Print Assumptions C05_certificate_pythagoras.

(* ---- the same certificate from ONE history record alone (what the harness evaluates on the implementation's final
   record without trusting its projections): invariant + the two normal-cone inequalities with slacks a, b *)
Theorem C05_certificate_record : forall (F : OF) (n : nat) (x0 x y p q z : vec) (a b : F),
  (forall i, (i < n)%nat -> cadd F (cadd F (x i) (p i)) (q i) = x0 i) ->
  kle F (dot n p (vsub z y)) a -> kle F (dot n q (vsub z x)) b ->
  kle F (dot n (vsub x0 x) (vsub z x)) (cadd F (cadd F (dot n p (vsub y x)) a) b).
Proof. exact certificate_record. Qed.
Print Assumptions C05_certificate_record.

(* the normal-cone inequality of a linear equality constraint set: a correction term that is a combination of the
   constraint normals is orthogonal to all feasible directions (slack 0) *)
Theorem C05_eq_normal : forall (F : OF) (n m : nat) (c : nat -> vec) (b lam : nat -> F) (p y z : vec),
  veq n p (lin_comb F m lam c) -> lin_set F n m c b y -> lin_set F n m c b z -> dot n p (vsub z y) = c0 F.
Proof. exact lin_normal. Qed.
Print Assumptions C05_eq_normal.

(* the normal-cone inequality of the PSD cone with explicit slack: eps*I - Q PSD  ==>  <Q, Z - X> <= eps tr Z - <Q, X> *)
Theorem C05_psd_normal : forall (F : OF) (n : nat) (eps : F) (Q X Z : mat),
  symmetric F n Q -> symmetric F n Z -> PSD F n (eps_minus F eps Q) -> PSD F n Z ->
  kle F (inner n n Q (msub Z X)) (csub F (cmul F eps (mtrace n Z)) (inner n n Q X)).
Proof. exact psd_normal_cone. Qed.
Print Assumptions C05_psd_normal.

(* the two lemmas combined into the statement the harness relies on when it accepts a final record.  [Op] maps a
   stacked vector to the (real symmetric image of the) operator(s) whose positivity is the inequality constraint; it
   is assumed isometric and linear on differences (orthonormal Hermitian basis - the subject of C02, checked numerically
   per run).  Slack of the PSD side: eps * tr(Op z) - <correction, output>. *)
Theorem C05_record_certificate_eq_ineq : forall (F : OF) (n m md : nat) (Op : vec -> mat) (c : nat -> vec) (b lam : nat -> F),
  (forall u v, inner md md (Op u) (Op v) = dot n u v) ->
  (forall u v i j, Op (vsub u v) i j = csub F (Op u i j) (Op v i j)) ->
  (forall u, symmetric F md (Op u)) ->
  forall (x0 x y p q : vec) (eps : F),
  (forall i, (i < n)%nat -> cadd F (cadd F (x i) (p i)) (q i) = x0 i) ->
  veq n p (lin_comb F m lam c) -> lin_set F n m c b y -> PSD F md (eps_minus F eps (Op q)) ->
  forall z, lin_set F n m c b z -> PSD F md (Op z) ->
  kle F (dot n (vsub x0 x) (vsub z x))
        (cadd F (cadd F (dot n p (vsub y x)) (c0 F)) (csub F (cmul F eps (mtrace md (Op z))) (dot n q x))).
Proof. exact record_certificate_eq_ineq. Qed.
Print Assumptions C05_record_certificate_eq_ineq.

Theorem C05_record_certificate_ineq_eq : forall (F : OF) (n m md : nat) (Op : vec -> mat) (c : nat -> vec) (b lam : nat -> F),
  (forall u v, inner md md (Op u) (Op v) = dot n u v) ->
  (forall u v i j, Op (vsub u v) i j = csub F (Op u i j) (Op v i j)) ->
  (forall u, symmetric F md (Op u)) ->
  forall (x0 x y p q : vec) (eps : F),
  (forall i, (i < n)%nat -> cadd F (cadd F (x i) (p i)) (q i) = x0 i) ->
  veq n q (lin_comb F m lam c) -> lin_set F n m c b x -> PSD F md (eps_minus F eps (Op p)) ->
  forall z, lin_set F n m c b z -> PSD F md (Op z) ->
  kle F (dot n (vsub x0 x) (vsub z x))
        (cadd F (cadd F (dot n p (vsub y x)) (csub F (cmul F eps (mtrace md (Op z))) (dot n p y))) (c0 F)).
Proof. exact record_certificate_ineq_eq. Qed.
Print Assumptions C05_record_certificate_ineq_eq.

(* ---- consequences of a certificate  (forall z in C, <x0 - x, z - x> <= g) *)
(* distance of the certified point to ANY nearest feasible point zs, with w any feasible point (near x) *)
Theorem C05_near_nearest : forall (F : OF) (n : nat) (C0 : vec -> Prop) (x0 x zs w : vec) (g : F),
  (forall z, C0 z -> kle F (dot n (vsub x0 x) (vsub z x)) g) ->
  C0 zs -> (forall z, C0 z -> kle F (dist2 F n x0 zs) (dist2 F n x0 z)) -> C0 w ->
  kle F (dist2 F n x zs)
        (cadd F (cadd F (cadd F g g) (cadd F (dot n (vsub x0 x) (vsub x w)) (dot n (vsub x0 x) (vsub x w)))) (dist2 F n x w)).
Proof. exact near_nearest. Qed.
Print Assumptions C05_near_nearest.

(* two certified points for the same input (other order, other routine, other stopping index) *)
Theorem C05_two_runs_agree : forall (F : OF) (n : nat) (C0 : vec -> Prop) (x0 x x' w w' : vec) (g g' : F),
  (forall z, C0 z -> kle F (dot n (vsub x0 x) (vsub z x)) g) ->
  (forall z, C0 z -> kle F (dot n (vsub x0 x') (vsub z x')) g') -> C0 w -> C0 w' ->
  kle F (dist2 F n x x')
        (cadd F (cadd F (cadd F g g') (dot n (vsub x0 x) (vsub x' w'))) (dot n (vsub x0 x') (vsub x w))).
Proof. exact two_runs_agree. Qed.
Print Assumptions C05_two_runs_agree.

Theorem C05_two_runs_agree_feasible : forall (F : OF) (n : nat) (C0 : vec -> Prop) (x0 x x' : vec) (g g' : F),
  (forall z, C0 z -> kle F (dot n (vsub x0 x) (vsub z x)) g) ->
  (forall z, C0 z -> kle F (dot n (vsub x0 x') (vsub z x')) g') -> C0 x -> C0 x' ->
  kle F (dist2 F n x x') (cadd F g g').
Proof. exact two_runs_agree_feasible. Qed.
Print Assumptions C05_two_runs_agree_feasible.

(* what a certificate means in DISTANCES: the certified point is, in squared distance to the input, within 2g of every
   feasible point; with g = 0 it is at least as near as every feasible point; and a feasible point with an exact
   certificate is THE nearest feasible point (unique on [0, n)) *)
Theorem C05_certificate_near_optimal : forall (F : OF) (n : nat) (C0 : vec -> Prop) (x0 x : vec) (g : F),
  (forall z, C0 z -> kle F (dot n (vsub x0 x) (vsub z x)) g) ->
  forall z, C0 z -> kle F (dist2 F n x0 x) (cadd F (dist2 F n x0 z) (cadd F g g)).
Proof. exact variational_near_optimal. Qed.
Print Assumptions C05_certificate_near_optimal.

Theorem C05_exact_certificate_is_nearest : forall (F : OF) (n : nat) (C0 : vec -> Prop) (x0 x : vec),
  (forall z, C0 z -> kle F (dot n (vsub x0 x) (vsub z x)) (c0 F)) ->
  forall z, C0 z -> kle F (dist2 F n x0 x) (dist2 F n x0 z).
Proof. exact variational_is_nearest. Qed.
Print Assumptions C05_exact_certificate_is_nearest.

Theorem C05_nearest_unique : forall (F : OF) (n : nat) (C0 : vec -> Prop) (x0 x x' : vec),
  (forall z, C0 z -> kle F (dot n (vsub x0 x) (vsub z x)) (c0 F)) ->
  (forall z, C0 z -> kle F (dot n (vsub x0 x') (vsub z x')) (c0 F)) -> C0 x -> C0 x' -> veq n x x'.
Proof. exact nearest_unique. Qed.
Print Assumptions C05_nearest_unique.

(* a Dykstra iterate (k >= 1 sweeps, obtuse-angle projections) whose gap is <= 0 is at least as near to the input as
   every point of A /\ B; if it is itself in A /\ B it is therefore the nearest point *)
Theorem C05_iterate_with_nonpositive_gap_is_nearest : forall (F : OF) (n : nat) (frz : vec -> vec), frz_ok F n frz ->
  forall (PA PB : nat -> vec -> vec) (A B : vec -> Prop), obtuse F n A PA -> obtuse F n B PB ->
  forall (x0 : vec) (k : nat), (1 <= k)%nat -> kle F (gap F n (iter F frz PA PB k (init F frz x0))) (c0 F) ->
  forall z, A z -> B z -> kle F (dist2 F n x0 (sx (iter F frz PA PB k (init F frz x0)))) (dist2 F n x0 z).
Proof. exact feasible_iterate_is_nearest. Qed.
Print Assumptions C05_iterate_with_nonpositive_gap_is_nearest.

(* order independence: "eq_ineq" after k sweeps vs "ineq_eq" after k' sweeps *)
Theorem C05_orders_agree : forall (F : OF) (n : nat) (frz : vec -> vec), frz_ok F n frz ->
  forall (Peq Pineq : nat -> vec -> vec) (E I : vec -> Prop), obtuse F n E Peq -> obtuse F n I Pineq ->
  forall (x0 : vec) (k k' : nat) (w w' : vec), (1 <= k)%nat -> (1 <= k')%nat -> E w -> I w -> E w' -> I w' ->
  let s := iter_mode F frz Peq Pineq true k (init F frz x0) in
  let s' := iter_mode F frz Peq Pineq false k' (init F frz x0) in
  kle F (dist2 F n (sx s) (sx s'))
        (cadd F (cadd F (cadd F (gap F n s) (gap F n s')) (dot n (vsub x0 (sx s)) (vsub (sx s') w')))
                (dot n (vsub x0 (sx s')) (vsub (sx s) w))).
Proof. exact orders_agree. Qed.
Print Assumptions C05_orders_agree.

(* ---- what the stopping quantity (error_value, compared with eps_proj_physical) controls, for arbitrary projections:
   |x_next - y_next|^2 <= error_value  (the returned x lies in the range of the second projection and within
   sqrt(error_value) of a point in the range of the first), and  gap^2 <= |p_next|^2 * error_value *)
Theorem C05_infeasibility_le_error : forall (F : OF) (n : nat) (frz : vec -> vec), frz_ok F n frz ->
  forall (PA PB : nat -> vec -> vec) (k : nat) (s : dstate F),
  kle F (dist2 F n (sx (step F frz PA PB k s)) (sy (step F frz PA PB k s))) (br F n s (step F frz PA PB k s)).
Proof. exact xy_le_br. Qed.
Print Assumptions C05_infeasibility_le_error.

Theorem C05_gap_le_error : forall (F : OF) (n : nat) (frz : vec -> vec), frz_ok F n frz ->
  forall (PA PB : nat -> vec -> vec) (k : nat) (s : dstate F),
  kle F (cmul F (gap F n (step F frz PA PB k s)) (gap F n (step F frz PA PB k s)))
        (cmul F (dot n (sp (step F frz PA PB k s)) (sp (step F frz PA PB k s))) (br F n s (step F frz PA PB k s))).
Proof. exact gap_le_br. Qed.
Print Assumptions C05_gap_le_error.

(* ---- from the stopping quantity to the infeasibility of the returned point (round 3: the norm step that used to be
   pen-and-paper).  y in a linear equality set: the squared constraint residuals of x are bounded by |c_j|^2 |x-y|^2 *)
Theorem C05_eq_residual_le : forall (F : OF) (n m : nat) (c : nat -> vec) (b : nat -> F) (x y : vec),
  lin_set F n m c b y -> forall j, (j < m)%nat ->
  kle F (cmul F (csub F (dot n (c j) x) (b j)) (csub F (dot n (c j) x) (b j))) (cmul F (dot n (c j) (c j)) (dist2 F n x y)).
Proof. exact eq_residual_le. Qed.
Print Assumptions C05_eq_residual_le.

(* Y PSD and |X - Y|_F^2 <= t^2 (t >= 0)  =>  X + t I PSD : the smallest eigenvalue moves by at most the Frobenius distance *)
Theorem C05_psd_shift : forall (F : OF) (n : nat) (X Y : mat) (t : F),
  kle F (c0 F) t -> kle F (inner n n (msub X Y) (msub X Y)) (cmul F t t) -> PSD F n Y -> PSD F n (shift F t X).
Proof. exact psd_shift. Qed.
Print Assumptions C05_psd_shift.

(* order "eq_ineq": the first projection maps into the equality set { z | <c_j,z> = b_j }; the point x' returned by a sweep
   whose stopping quantity is error_value = br s (step k s) has squared residuals summing to at most (sum_j |c_j|^2) error_value *)
Theorem C05_returned_eq_residual : forall (F : OF) (n : nat) (frz : vec -> vec), frz_ok F n frz ->
  forall (PA PB : nat -> vec -> vec) (m : nat) (c : nat -> vec) (b : nat -> F) (k : nat) (s : dstate F),
  (forall k u, lin_set F n m c b (PA k u)) ->
  kle F (sumn m (fun j => cmul F (csub F (dot n (c j) (sx (step F frz PA PB k s))) (b j))
                                 (csub F (dot n (c j) (sx (step F frz PA PB k s))) (b j))))
        (cmul F (sumn m (fun j => dot n (c j) (c j))) (br F n s (step F frz PA PB k s))).
Proof. exact returned_eq_residual. Qed.
Print Assumptions C05_returned_eq_residual.

(* order "ineq_eq": the first projection maps into the PSD cone (as an operator, through an isometric linear Op); if the
   stopping quantity is <= t^2 the returned x' is PSD after a shift by t *)
Theorem C05_returned_psd_shift : forall (F : OF) (n : nat) (frz : vec -> vec), frz_ok F n frz ->
  forall (PA PB : nat -> vec -> vec) (md : nat) (Op : vec -> mat) (k : nat) (s : dstate F) (t : F),
  (forall u v, inner md md (Op u) (Op v) = dot n u v) ->
  (forall u v i j, Op (vsub u v) i j = csub F (Op u i j) (Op v i j)) ->
  PSD F md (Op (sy (step F frz PA PB k s))) -> kle F (c0 F) t -> kle F (br F n s (step F frz PA PB k s)) (cmul F t t) ->
  PSD F md (shift F t (Op (sx (step F frz PA PB k s)))).
Proof. exact returned_psd_shift. Qed.
Print Assumptions C05_returned_psd_shift.

(* ---- threshold -> variational inequality (a statement that CAN be proved without convergence theory): at the sweep with
   error_value e = br s_k (step k s_k) <= eps, every z in A /\ B has  <x0 - x', z - x'>  negative or, squared, at most |p'|^2 * eps.
   |p'| is a number of the run itself (recorded in the history); no a-priori bound on it is claimed. *)
Theorem C05_stopped_variational_eps : forall (F : OF) (n : nat) (frz : vec -> vec), frz_ok F n frz ->
  forall (PA PB : nat -> vec -> vec) (A B : vec -> Prop) (eps : F), obtuse F n A PA -> obtuse F n B PB ->
  forall (x0 : vec) (k : nat) (z : vec), A z -> B z ->
  let s := iter F frz PA PB k (init F frz x0) in
  let s' := step F frz PA PB k s in
  let c := dot n (vsub x0 (sx s')) (vsub z (sx s')) in
  kle F (br F n s s') eps -> kle F (c0 F) c -> kle F (cmul F c c) (cmul F (dot n (sp s') (sp s')) eps).
Proof. exact stopped_variational_eps. Qed.
Print Assumptions C05_stopped_variational_eps.

(* ---- the executed op c05.run runs the model with the fuel capped at (recorded sweeps + 1); an answer that used at most the
   recorded number of sweeps IS the answer with the full fuel max_iteration (so far only a comment in Exec/C05_ops.v) *)
Theorem C05_exec_run_fuel_cap : forall (F : OF) (n : nat) (frz : vec -> vec) (Peq Pineq : nat -> vec -> vec) (eq_first : bool)
    (eps : F) (max_iter K : nat) (x0 : vec) (r : runres F),
  run_mode F n frz Peq Pineq eq_first eps (Nat.min max_iter (S K)) x0 = Some r -> (r_steps r <= K)%nat ->
  run_mode F n frz Peq Pineq eq_first eps max_iter x0 = Some r.
Proof. intros F n frz Peq Pineq eq_first. exact (run_fuel_cap F n frz (first_proj F Peq Pineq eq_first) (second_proj F Peq Pineq eq_first)). Qed.
Print Assumptions C05_exec_run_fuel_cap.

(* ---- already-physical input: every iterate is the input, p = q = 0; the loop stops after exactly two sweeps with
   error_value = [None, 0] *)
Theorem C05_fixed_point : forall (F : OF) (n : nat) (frz : vec -> vec), frz_ok F n frz ->
  forall (PA PB : nat -> vec -> vec) (x0 : vec),
  (forall k u, veq n u x0 -> veq n (PA k u) x0) -> (forall k u, veq n u x0 -> veq n (PB k u) x0) ->
  forall k, at_fix F n x0 (iter F frz PA PB k (init F frz x0)).
Proof. exact fixed_point. Qed.
Print Assumptions C05_fixed_point.

Theorem C05_run_fixed_point : forall (F : OF) (n : nat) (frz : vec -> vec), frz_ok F n frz ->
  forall (PA PB : nat -> vec -> vec) (eps : F) (max_iter : nat) (x0 : vec),
  (forall k u, veq n u x0 -> veq n (PA k u) x0) -> (forall k u, veq n u x0 -> veq n (PB k u) x0) ->
  (2 <= max_iter)%nat -> ltb F (c0 F) eps = true ->
  exists r, run_dykstra F n frz PA PB eps max_iter x0 = Some r /\ r_stopped r = true /\ r_steps r = 2%nat /\
            at_fix F n x0 (r_final r) /\ r_errs r = [None; Some (c0 F)].
Proof. exact run_fixed_point. Qed.
Print Assumptions C05_run_fixed_point.

(* ---- the loop and its history: for max_iteration >= 1 the run exists, executed 1..max_iteration sweeps, returns the
   last iterate, which is the last history entry; the history IS the sequence of iterates (so every recorded
   (x,y,p,q) satisfies the sweep equations), error_value is None then the stopping quantities; a `break` happened
   only at a sweep index >= 1 whose quantity is < eps and at the FIRST such index; no break = out of fuel
   (steps = max_iteration; the code then prints its warning and returns the last iterate) *)
Theorem C05_run_history : forall (F : OF) (n : nat) (frz : vec -> vec) (PA PB : nat -> vec -> vec)
    (eps : F) (max_iter : nat) (x0 : vec), (1 <= max_iter)%nat ->
  exists r, run_dykstra F n frz PA PB eps max_iter x0 = Some r /\
    (1 <= r_steps r <= max_iter)%nat /\
    r_final r = iter F frz PA PB (r_steps r) (init F frz x0) /\
    r_hist r = map (fun j => iter F frz PA PB j (init F frz x0)) (seq 0 (S (r_steps r))) /\
    r_errs r = map (errf F n frz PA PB (init F frz x0)) (seq 0 (r_steps r)) /\
    last (r_hist r) (init F frz x0) = r_final r /\
    (r_stopped r = true -> (2 <= r_steps r)%nat /\ stops_at F n frz PA PB eps (init F frz x0) (r_steps r - 1) = true) /\
    (r_stopped r = false -> r_steps r = max_iter) /\
    (forall j, (S j < r_steps r)%nat -> stops_at F n frz PA PB eps (init F frz x0) j = false).
Proof. exact run_history. Qed.
Print Assumptions C05_run_history.

(* max_iteration = 0 is the error branch (UnboundLocalError in the code) *)
Theorem C05_run_zero_fuel : forall (F : OF) (n : nat) (frz : vec -> vec) (PA PB : nat -> vec -> vec) (eps : F) (x0 : vec),
  run_dykstra F n frz PA PB eps 0 x0 = None.
Proof. reflexivity. Qed.
Print Assumptions C05_run_zero_fuel.

(* ---- non-vacuity.  (a) the hypotheses are satisfiable for every n >= 1 over every ordered field: the State-like
   pair  E = { v | v_0 = c }, Peq = overwrite v_0  and  I = non-negative orthant (PSD cone of diagonal matrices),
   Pineq = clip;  (b) a hyperplane not orthogonal to the orthant, on which the iteration really iterates *)
Example C05_example_obtuse : forall (F : OF) (n : nat) (c : F), (1 <= n)%nat ->
  obtuse F n (setA F c) (projA F c) /\ obtuse F n (setB F n) (projB F).
Proof. intros F n c Hn. split; [now apply obtuse_A|apply obtuse_B]. Qed.

(* the [Op] hypotheses of the record certificate are satisfiable: diagonal embedding (the commuting case), any n *)
Example C05_example_op : forall (F : OF) (n : nat),
  (forall u v, inner n n (diagop F u) (diagop F v) = dot n u v) /\
  (forall u v i j, diagop F (vsub u v) i j = csub F (diagop F u i j) (diagop F v i j)) /\
  (forall u, symmetric F n (diagop F u)).
Proof. intros F n. split; [apply diagop_iso|split; [apply diagop_sub|apply diagop_sym]]. Qed.

Example C05_example_frz : forall n, frz_ok Qc_OF n (vfreeze 0%Qc n).
Proof. intros n v i Hi. now apply vfreeze_spec. Qed.

(* the hypotheses of C05_iterate_with_nonpositive_gap_is_nearest / C05_nearest_unique are satisfiable:
   A = { v | v_0 = 1 }, B = orthant, x_0 = (3, -1): one sweep gives x = (1, 0), which is in A /\ B, gap = 0 *)
Definition ex1_x0 : @vec Qc_OF := fun i => match i with O => Q2Qc 3 | _ => Q2Qc (-1) end.
Example C05_example_exact_nearest :
  let s := iter Qc_OF (vfreeze 0%Qc 2) (projA Qc_OF 1%Qc) (projB Qc_OF) 1 (init Qc_OF (vfreeze 0%Qc 2) ex1_x0) in
  obtuse Qc_OF 2 (setA Qc_OF 1%Qc) (projA Qc_OF 1%Qc) /\ obtuse Qc_OF 2 (setB Qc_OF 2) (projB Qc_OF) /\
  setA Qc_OF 1%Qc (sx s) /\ setB Qc_OF 2 (sx s) /\ gap Qc_OF 2 s = 0%Qc /\
  sx s 0%nat = 1%Qc /\ sx s 1%nat = 0%Qc.
Proof. cbv zeta. split; [apply obtuse_A; auto|]. split; [apply obtuse_B|].
  assert (E0 : sx (iter Qc_OF (vfreeze 0%Qc 2) (projA Qc_OF 1%Qc) (projB Qc_OF) 1 (init Qc_OF (vfreeze 0%Qc 2) ex1_x0)) 0%nat = 1%Qc)
    by (vm_compute; apply Qc_is_canon; reflexivity).
  assert (E1 : sx (iter Qc_OF (vfreeze 0%Qc 2) (projA Qc_OF 1%Qc) (projB Qc_OF) 1 (init Qc_OF (vfreeze 0%Qc 2) ex1_x0)) 1%nat = 0%Qc)
    by (vm_compute; apply Qc_is_canon; reflexivity).
  split; [exact E0|]. split.
  - intros i Hi. destruct i as [|[|i]]; [rewrite E0|rewrite E1|lia]; vm_compute; discriminate.
  - split; [vm_compute; apply Qc_is_canon; reflexivity|]. split; assumption. Qed.

(* E = { v | v_0 + v_1 = 1 },  I = orthant,  x_0 = (2, -1),  eps = 1/1000, order eq_ineq:
   the model run stops (break) after 7 sweeps at x = (65/64, 0), gap = -63/4096 (negative: x is in I but only near E);
   the nearest point of E /\ I is (1, 0) *)
Definition ex_c : @vec Qc_OF := fun _ => 1%Qc.
Definition ex_x0 : @vec Qc_OF := fun i => match i with O => Q2Qc 2 | _ => Q2Qc (-1) end.
Example C05_example_run :
  obtuse Qc_OF 2 (setH Qc_OF 2 ex_c 1%Qc) (projH Qc_OF 2 ex_c 1%Qc) /\ obtuse Qc_OF 2 (setB Qc_OF 2) (projB Qc_OF) /\
  match run_mode Qc_OF 2 (vfreeze 0%Qc 2) (projH Qc_OF 2 ex_c 1%Qc) (projB Qc_OF) true (Q2Qc (1 # 1000)) 1000 ex_x0 with
  | Some r => r_stopped r = true /\ r_steps r = 7%nat /\ warned Qc_OF 1000 r = false /\
              sx (r_final r) 0%nat = Q2Qc (65 # 64) /\ sx (r_final r) 1%nat = 0%Qc /\
              gap Qc_OF 2 (r_final r) = Q2Qc (-63 # 4096)
  | None => False end.
Proof. split; [|split].
  - apply obtuse_H. vm_compute. discriminate.
  - apply obtuse_B.
  - vm_compute. repeat split; apply Qc_is_canon; reflexivity. Qed.
