(* C20 — experiments and tomographies accept exactly the well-formed schedules: property theorems only.
   Model: Model/C20_Schedule.v (validation, setters, calc_prob_dist prologue, tomography constructors) — the code WITH the
          repairs fixes/c20-noniterable-schedule.diff and fixes/c20-qmpt-schedule-length.diff; this is the model the
          harness executes against the implementation,
          Model/C20_Run.v (reference semantics of executing a schedule),
          Model/C20_PreFix.v (the code as it was before the two repairs; only the last section is about it).
   Specification predicates (well_formed, order_ok, item_ok, class_shape, ...): Proofs/C20_Schedule.v, Proofs/C20_Tomo.v.
   Schedule lists have ANY length, items are ANY python values (abstracted by exact type), lists have ANY sizes. *)
From Coq Require Import ZArith List Bool String QArith Qcanon.
From QV.Core Require Import OF QcOF Sums Mat.
From QV.Model Require Import C20_Schedule C20_Run C20_PreFix.
From QV.Proofs Require Import C20_Schedule C20_Tomo C20_Run C20_PreFix C20_Exec.
Import ListNotations.

(* ---------------------------------------------------------------- Experiment: acceptance *)
(* accepted <-> every schedule is a sequence of >= 2 items, each a 2-tuple (known kind name : str, in-range index :
   int, not bool), starting with the only state, with at most one POVM, ending with a POVM or an MProcess *)
Theorem C20_experiment_accepts_iff : forall (c : cfg) (ss : list rsched),
  validate_schedules c ss = VOk <-> Forall (well_formed c) ss.
Proof. exact experiment_accepts_iff. Qed.
Print Assumptions C20_experiment_accepts_iff.

(* ---------------------------------------------------------------- Experiment: which error *)
(* schedule-ITEM error for an item <-> the first schedule that is not well formed is a sequence containing a value that
   is not a well-typed in-range item *)
Theorem C20_item_error_iff : forall c ss,
  (exists i j e, validate_schedules c ss = VItemError i j e) <->
  (exists pre s post, ss = pre ++ s :: post /\ Forall (well_formed c) pre /\ has_bad_item c s).
Proof. exact item_error_iff. Qed.
Print Assumptions C20_item_error_iff.
(* schedule-ITEM error for a whole schedule <-> the first schedule that is not well formed is a non-iterable value,
   in ANY position *)
Theorem C20_noniter_error_iff : forall c ss,
  (exists i, validate_schedules c ss = VNonIter i) <->
  (exists pre post, ss = pre ++ SNonIter :: post /\ Forall (well_formed c) pre).
Proof. exact noniter_error_iff. Qed.
Print Assumptions C20_noniter_error_iff.

(* schedule-ORDER error <-> the first schedule that is not well formed has only well-typed in-range items
   but breaks an order rule *)
Theorem C20_order_error_iff : forall c ss,
  (exists i r, validate_schedules c ss = VOrderError i r) <->
  (exists pre t post, ss = pre ++ sched_of t :: post /\ Forall (well_formed c) pre /\
                      Forall (in_range c) t /\ ~ order_ok t).
Proof. exact order_error_iff. Qed.
Print Assumptions C20_order_error_iff.

(* the reported positions (schedule i, item j), the caught exception and the order rule *)
Theorem C20_validate_schedules_spec : forall c ss,
  match validate_schedules c ss with
  | VOk => Forall (well_formed c) ss
  | VItemError i j e =>
      exists pre items post, ss = pre ++ SSeq items :: post /\ i = List.length pre /\ Forall (well_formed c) pre /\
        first_bad_item c items j e
  | VNonIter i =>
      exists pre post, ss = pre ++ SNonIter :: post /\ i = List.length pre /\ Forall (well_formed c) pre
  | VOrderError i r =>
      exists pre t post, ss = pre ++ sched_of t :: post /\ i = List.length pre /\ Forall (well_formed c) pre /\
        Forall (in_range c) t /\ ~ order_ok t /\ validate_order t = Some r
  end.
Proof. exact validate_schedules_spec. Qed.
Print Assumptions C20_validate_schedules_spec.

Theorem C20_order_rule_reported : forall s r, validate_order s = Some r ->
  match r with
  | TooShort => (List.length s < 2)%nat
  | FirstNotState => (2 <= List.length s)%nat /\ forall z rest, s <> (KState, z) :: rest
  | LastNotMeasurement => (2 <= List.length s)%nat /\ (exists z rest, s = (KState, z) :: rest) /\
                          forall front k z, s = front ++ [(k, z)] -> k <> KPovm /\ k <> KMprocess
  | TooManyStates => (exists z rest, s = (KState, z) :: rest /\ ~ Forall (fun it => fst it <> KState) rest)
  | TooManyPovms => (exists z rest, s = (KState, z) :: rest /\ Forall (fun it => fst it <> KState) rest) /\
                    exists a b za zb, nth_error s a = Some (KPovm, za) /\ nth_error s b = Some (KPovm, zb) /\ a <> b
  end.
Proof. exact validate_order_reason. Qed.
Print Assumptions C20_order_rule_reported.

(* THE PROPERTY's first sentence, for ALL inputs (schedule lists of any length, schedules that are sequences of any
   python values or not iterable at all, lists of any sizes): accepted exactly when every schedule is well formed;
   anything else is rejected with the schedule-item or the schedule-order error *)
Theorem C20_accepted_or_item_or_order_error : forall c ss,
  (Forall (well_formed c) ss /\ validate_schedules c ss = VOk) \/
  (~ Forall (well_formed c) ss /\ (is_item_error (validate_schedules c ss) \/ is_order_error (validate_schedules c ss))).
Proof. exact accepted_or_item_or_order_error. Qed.
Print Assumptions C20_accepted_or_item_or_order_error.

(* None placeholders count like objects: validation depends on the list LENGTHS only *)
Theorem C20_validation_ignores_placeholders : forall c c' ss, same_sizes c c' ->
  validate_schedules c ss = validate_schedules c' ss.
Proof. exact validation_ignores_placeholders. Qed.
Print Assumptions C20_validation_ignores_placeholders.

(* ---------------------------------------------------------------- constructor and setters *)
Theorem C20_construct_spec : forall c ss,
  (Forall (well_formed c) ss -> construct c ss = inl (mkexp c ss)) /\
  (~ Forall (well_formed c) ss -> exists r, construct c ss = inr r /\ r <> VOk /\ r = validate_schedules c ss).
Proof. exact construct_spec. Qed.
Print Assumptions C20_construct_spec.

(* a setter (states / povms / gates / mprocesses / schedules) is a re-validation of the would-be experiment:
   it takes effect exactly when that experiment is well formed, otherwise nothing changes and the error is raised *)
Theorem C20_setter_spec : forall e op,
  snd (apply_set e op) = validate_schedules (e_cfg (target e op)) (e_scheds (target e op)) /\
  (valid_exp (target e op) -> apply_set e op = (target e op, VOk)) /\
  (~ valid_exp (target e op) -> fst (apply_set e op) = e /\ snd (apply_set e op) <> VOk).
Proof. exact apply_set_spec. Qed.
Print Assumptions C20_setter_spec.

(* after ANY history of assignments (accepted or rejected) every schedule is well formed w.r.t. the current lists *)
Theorem C20_setters_preserve_validity : forall ops e, valid_exp e -> valid_exp (run_sets e ops).
Proof. exact run_sets_valid. Qed.
Print Assumptions C20_setters_preserve_validity.

(* replacing an object list can only fail with the schedule-ITEM error *)
Theorem C20_objs_setter_error_is_item_error : forall e k v, valid_exp e ->
  snd (apply_set e (SetObjs k v)) = VOk \/ exists i j err, snd (apply_set e (SetObjs k v)) = VItemError i j err.
Proof. exact objs_setter_error_is_item_error. Qed.
Print Assumptions C20_objs_setter_error_is_item_error.

(* ---------------------------------------------------------------- calc_prob_dist *)
Theorem C20_calc_prob_dist_spec : forall e n s, valid_exp e -> nth_error (e_scheds e) n = Some s ->
  exists t, s = sched_of t /\ Forall (in_range (e_cfg e)) t /\ order_ok t /\
    calc_prob_dist_pre e (PInt (Z.of_nat n)) =
      match first_none (e_cfg e) 0 t with Some p => CValueError p | None => CRun t end.
Proof. exact calc_prob_dist_spec. Qed.
Print Assumptions C20_calc_prob_dist_spec.
Theorem C20_first_none_spec : forall c t p,
  match first_none c p t with
  | None => Forall (present c) t
  | Some q => exists pre it post, t = pre ++ it :: post /\ q = (p + List.length pre)%nat /\ Forall (present c) pre /\ ~ present c it
  end.
Proof. exact first_none_spec. Qed.
Print Assumptions C20_first_none_spec.
Theorem C20_calc_prob_dist_bad_index : forall e v,
  match v with
  | PInt z => ~ (0 <= z < Z.of_nat (List.length (e_scheds e)))%Z -> calc_prob_dist_pre e v = CIndexError
  | _ => calc_prob_dist_pre e v = CTypeError
  end.
Proof. exact calc_prob_dist_bad_index. Qed.
Print Assumptions C20_calc_prob_dist_bad_index.

(* an accepted schedule that ends in its only POVM yields a normalised distribution (any ring of scalars, any
   dimension, any physical objects: trace-one states, trace-preserving gates / summed instruments, complete POVMs) *)
Theorem C20_accepted_povm_schedule_normalised : forall (R : CR) (n : nat) (tr : @vec R) (O : @objects R),
  physical n tr O -> forall c s, well_formed c (sched_of s) -> ends_in_povm s = true ->
  lsum (run_dist n O s) = c1 R.
Proof. exact @accepted_povm_schedule_normalised. Qed.
Print Assumptions C20_accepted_povm_schedule_normalised.

(* ---------------------------------------------------------------- tomography classes *)
(* StandardQst / StandardPovmt / StandardQpt / StandardQmpt accept exactly the schedule lists of their own shape *)
Theorem C20_tomo_accepts_iff_shape : forall t ns np ss,
  tomo_construct t ns np (AList ss) = TOk <-> Forall (class_shape t ns np) ss.
Proof. exact tomo_accepts_iff_shape. Qed.
Print Assumptions C20_tomo_accepts_iff_shape.
(* and no IndexError escapes from a class guard (every rejection is the Experiment's item / order error or the guard's
   ValueError) *)
Theorem C20_tomo_no_index_error : forall t ns np ss i, tomo_construct t ns np (AList ss) <> TGuardIndexError i.
Proof. exact tomo_no_index_error. Qed.
Print Assumptions C20_tomo_no_index_error.

(* schedules="all": accepted, consists of schedules of the class shape, and contains every one of them;
   any other string is rejected by _validate_schedules_str *)
Theorem C20_tomo_all_accepted : forall t ns np, tomo_construct t ns np (AStr "all") = TOk.
Proof. exact tomo_all_accepted. Qed.
Print Assumptions C20_tomo_all_accepted.
Theorem C20_class_all_shape : forall t ns np, Forall (class_shape t ns np) (class_all t ns np).
Proof. exact class_all_shape. Qed.
Print Assumptions C20_class_all_shape.
Theorem C20_class_all_complete : forall t ns np s, class_shape t ns np s -> In s (class_all t ns np).
Proof. exact class_all_complete. Qed.
Print Assumptions C20_class_all_complete.
Theorem C20_tomo_other_string : forall t ns np s, s <> "all"%string -> tomo_construct t ns np (AStr s) = TStrValueError.
Proof. exact tomo_other_string. Qed.
Print Assumptions C20_tomo_other_string.

(* the decidable predicate the harness evaluates on every tomography case is the documented shape *)
Theorem C20_class_shapeb_iff : forall t ns np s, class_shapeb t ns np s = true <-> class_shape t ns np s.
Proof. exact class_shapeb_iff. Qed.
Print Assumptions C20_class_shapeb_iff.

(* ---------------------------------------------------------------- the property's last clause in one statement *)
(* "every accepted schedule that ends in its only POVM can be executed and yields a normalised distribution": on a validated
   experiment without None placeholders calc_prob_dist reaches the composition for every valid index, and the distribution of a
   POVM-terminated schedule sums to one (reference semantics; any ring, dimension, physical objects) *)
Theorem C20_accepted_povm_schedule_executes_normalised : forall (R : CR) (dim : nat) (tr : @vec R) (O : @objects R) e n s,
  physical dim tr O -> valid_exp e -> all_present (e_cfg e) -> nth_error (e_scheds e) n = Some s ->
  exists t, s = sched_of t /\ calc_prob_dist_pre e (PInt (Z.of_nat n)) = CRun t /\
            (ends_in_povm t = true -> lsum (run_dist dim O t) = c1 R).
Proof. exact @accepted_povm_schedule_executes_normalised. Qed.
Print Assumptions C20_accepted_povm_schedule_executes_normalised.
(* tomography classes: every schedule of an ACCEPTED schedule list ends in the POVM, hits the estimated object's None
   placeholder (ValueError) as constructed, and executes to a normalised distribution once the estimated object is filled in *)
Theorem C20_tomo_schedule_executes_normalised : forall (R : CR) (dim : nat) (tr : @vec R) (O : @objects R) t ns np ss n s,
  physical dim tr O -> tomo_construct t ns np (AList ss) = TOk -> nth_error ss n = Some s ->
  exists items, s = sched_of items /\ ends_in_povm items = true /\
    (exists p, calc_prob_dist_pre (mkexp (class_cfg t ns np) ss) (PInt (Z.of_nat n)) = CValueError p) /\
    calc_prob_dist_pre (mkexp (class_cfg_filled t ns np) ss) (PInt (Z.of_nat n)) = CRun items /\
    lsum (run_dist dim O items) = c1 R.
Proof. exact @tomo_schedule_executes_normalised. Qed.
Print Assumptions C20_tomo_schedule_executes_normalised.

(* ---------------------------------------------------------------- the code as it was BEFORE the two repairs
   (Model/C20_PreFix.v: validate_schedules0, tomo_run0 — NOT what the harness compares the implementation with; the harness
   consults these definitions only to recognise that a disagreement is exactly one of the two recorded defects) *)
(* before fix c20-noniterable-schedule the statement  forall c ss, exists r, validate_schedules0 c ss = V0 r  ("accepted or
   rejected with the item / order error") was FALSE (finding C20-2): *)
Theorem C20_noniterable_first_schedule_before_fix_refuted : exists c ss, forall r, validate_schedules0 c ss <> V0 r.
Proof. exact noniterable_first_schedule_before_fix_refuted. Qed.
Print Assumptions C20_noniterable_first_schedule_before_fix_refuted.
(* exactly the inputs whose first schedule is not iterable escaped with UnboundLocalError ... *)
Theorem C20_before_fix_unbound_iff : forall c ss,
  (exists i, validate_schedules0 c ss = V0Unbound i) <-> exists post, ss = SNonIter :: post.
Proof. exact before_fix_unbound_iff. Qed.
Print Assumptions C20_before_fix_unbound_iff.
(* ... and that (plus the stale item number in the message for later non-iterable schedules) is the whole difference *)
Theorem C20_before_fix_relation : forall c ss,
  match validate_schedules c ss with
  | VNonIter k => (k = 0%nat /\ validate_schedules0 c ss = V0Unbound 0) \/
                  (exists j, validate_schedules0 c ss = V0 (VItemError k j TypeError))
  | r => validate_schedules0 c ss = V0 r
  end.
Proof. exact before_fix_relation. Qed.
Print Assumptions C20_before_fix_relation.
(* before fix c20-qmpt-schedule-length the statement  tomo_run0 Qmpt ns np ss = TOk <-> Forall (class_shape Qmpt ns np) ss
   was FALSE (finding C20-1, DESIGN 4 #17): *)
Theorem C20_qmpt_before_fix_accepts_longer_schedule_refuted :
  exists ns np s, tomo_run0 Qmpt ns np [s] = TOk /\ ~ class_shape Qmpt ns np s.
Proof. exact qmpt_before_fix_accepts_longer_schedule_refuted. Qed.
Print Assumptions C20_qmpt_before_fix_accepts_longer_schedule_refuted.
(* what it accepted instead: its shape followed by any number of ("mprocess", 0) items *)
Theorem C20_qmpt_before_fix_accepts_iff : forall ns np ss,
  tomo_run0 Qmpt ns np ss = TOk <-> Forall (qmpt_accepted_shape0 ns np) ss.
Proof. exact qmpt_before_fix_accepts_iff. Qed.
Print Assumptions C20_qmpt_before_fix_accepts_iff.
(* and [state i, mprocess 0] was rejected by running off the end of the schedule (IndexError, not ValueError) *)
Theorem C20_qmpt_before_fix_short_schedule_index_error : forall ns np i, (0 <= i < Z.of_nat ns)%Z ->
  tomo_run0 Qmpt ns np [sched_of [(KState, i); (KMprocess, 0%Z)]] = TGuardIndexError 0.
Proof. exact qmpt_before_fix_short_schedule_index_error. Qed.
Print Assumptions C20_qmpt_before_fix_short_schedule_index_error.
(* the other three classes are untouched by the repair *)
Theorem C20_other_classes_unchanged : forall t ns np ss, t <> Qmpt -> tomo_run0 t ns np ss = tomo_run t ns np ss.
Proof. exact other_classes_unchanged. Qed.
Print Assumptions C20_other_classes_unchanged.

(* ---------------------------------------------------------------- non-vacuity *)
Definition ex_cfg : cfg := mkcfg [true] [true; false] [true; true] [true].
Definition ex_good : list rsched :=
  [ sched_of [(KState, 0); (KGate, 1); (KMprocess, 0); (KPovm, 1)]%Z; sched_of [(KState, 0); (KMprocess, 0)]%Z ].
Example C20_example_well_formed : Forall (well_formed ex_cfg) ex_good /\ valid_exp (mkexp ex_cfg ex_good).
Proof. split; apply experiment_accepts_iff; reflexivity. Qed.
Example C20_example_errors :
  validate_schedules ex_cfg (ex_good ++ [SSeq [raw (KState, 0%Z); PTuple [PStr "povm"; PBool true]]]) = VItemError 2 1 TypeError /\
  validate_schedules ex_cfg (ex_good ++ [sched_of [(KState, 0); (KPovm, 0); (KPovm, 1)]%Z]) = VOrderError 2 TooManyPovms /\
  validate_schedules ex_cfg [sched_of [(KState, 0); (KPovm, 2)]%Z] = VItemError 0 1 IndexError /\
  validate_schedules ex_cfg [SNonIter] = VNonIter 0 /\
  validate_schedules ex_cfg (ex_good ++ [SNonIter]) = VNonIter 2 /\
  validate_schedules0 ex_cfg [SNonIter] = V0Unbound 0 /\
  validate_schedules0 ex_cfg (ex_good ++ [SNonIter]) = V0 (VItemError 2 1 TypeError).
Proof. repeat split; reflexivity. Qed.
(* shrinking the POVM list under a schedule that uses povms[1] is rejected and changes nothing; growing it is fine *)
Example C20_example_setters :
  apply_set (mkexp ex_cfg ex_good) (SetObjs KPovm [true]) = (mkexp ex_cfg ex_good, VItemError 0 3 IndexError) /\
  snd (apply_set (mkexp ex_cfg ex_good) (SetObjs KPovm [true; true; true])) = VOk /\
  calc_prob_dist_pre (mkexp ex_cfg ex_good) (PInt 0) = CValueError 3 /\
  calc_prob_dist_pre (mkexp ex_cfg ex_good) (PInt 1) = CRun [(KState, 0); (KMprocess, 0)]%Z.
Proof. repeat split; reflexivity. Qed.
Example C20_example_shapes :
  class_shape Qst 1 3 (sched_of [(KState, 0); (KPovm, 2)]%Z) /\
  class_shape Qpt 2 3 (sched_of [(KState, 1); (KGate, 0); (KPovm, 2)]%Z) /\
  class_shape Qmpt 2 3 (sched_of [(KState, 1); (KMprocess, 0); (KPovm, 2)]%Z) /\
  tomo_construct Qpt 2 3 (AList [sched_of [(KState, 1); (KPovm, 2)]%Z]) = TGuardValueError 0 /\
  tomo_construct Qst 1 3 (AList [sched_of [(KState, 0); (KGate, 0); (KPovm, 2)]%Z]) = TExp (VItemError 0 1 IndexError) /\
  tomo_construct Qmpt 2 3 (AList [sched_of [(KState, 1); (KMprocess, 0); (KPovm, 2); (KMprocess, 0)]%Z]) = TGuardValueError 0 /\
  tomo_construct Qmpt 2 3 (AList [sched_of [(KState, 1); (KMprocess, 0)]%Z]) = TGuardValueError 0 /\
  tomo_run0 Qmpt 2 3 [sched_of [(KState, 1); (KMprocess, 0); (KPovm, 2); (KMprocess, 0)]%Z] = TOk.
Proof. repeat split; try reflexivity; apply class_shapeb_iff; reflexivity. Qed.
(* a physical instance over Qc (a classical bit: n = 2, trace functional (1,1), bit-flip gate, the two projections as
   measurement process and as POVM) and the distribution of [state 0; gate 0; mprocess 0; povm 0] *)
Definition ex_tr : @vec Qc_CR := fun _ => 1%Qc.
Definition ex_objs : @objects Qc_CR :=
  @mkobjects Qc_CR (fun _ i => if Nat.eqb i 0 then Q2Qc (1 # 3) else Q2Qc (2 # 3))
            (fun _ i j => if Nat.eqb i j then 0%Qc else 1%Qc)
            (fun _ => [ (fun i j => if Nat.eqb i 0 && Nat.eqb j 0 then 1%Qc else 0%Qc);
                        (fun i j => if Nat.eqb i 1 && Nat.eqb j 1 then 1%Qc else 0%Qc) ])
            (fun _ => [ (fun i => if Nat.eqb i 0 then 1%Qc else 0%Qc); (fun i => if Nat.eqb i 1 then 1%Qc else 0%Qc) ]).
Example C20_example_physical : physical 2 ex_tr ex_objs /\
  run_dist 2 ex_objs [(KState, 0); (KGate, 0); (KMprocess, 0); (KPovm, 0)]%Z = [Q2Qc (2 # 3); 0%Qc; 0%Qc; Q2Qc (1 # 3)].
Proof.
  split; [|now vm_compute].
  unfold physical, ex_tr, ex_objs, dot, mv, lsum; cbn -[Qcplus Qcmult Q2Qc]. repeat split; intros.
  - apply Qc_is_canon. reflexivity.
  - ring.
  - ring.
  - ring.
Qed.
(* the hypotheses of the two execution theorems are satisfiable: a validated experiment without placeholders, an accepted
   QPT schedule list *)
Definition ex_cfg_full : cfg := mkcfg [true] [true; true] [true; true] [true].
Example C20_example_executes :
  valid_exp (mkexp ex_cfg_full ex_good) /\ all_present ex_cfg_full /\
  calc_prob_dist_pre (mkexp ex_cfg_full ex_good) (PInt 0) = CRun [(KState, 0); (KGate, 1); (KMprocess, 0); (KPovm, 1)]%Z /\
  tomo_construct Qpt 2 3 (AList [sched_of [(KState, 1); (KGate, 0); (KPovm, 2)]%Z]) = TOk /\
  calc_prob_dist_pre (mkexp (class_cfg Qpt 2 3) [sched_of [(KState, 1); (KGate, 0); (KPovm, 2)]%Z]) (PInt 0) = CValueError 1 /\
  calc_prob_dist_pre (mkexp (class_cfg_filled Qpt 2 3) [sched_of [(KState, 1); (KGate, 0); (KPovm, 2)]%Z]) (PInt 0) =
    CRun [(KState, 1); (KGate, 0); (KPovm, 2)]%Z.
Proof.
  split; [apply experiment_accepts_iff; reflexivity|]. split; [|repeat split; reflexivity].
  intros k b H. destruct k; cbn in H; repeat (destruct H as [H|H]; [now subst|]); contradiction.
Qed.
