(* C13 - results depend only on arguments: no hidden state, no operand mutation.  Property theorems only. *)
From Coq Require Import List Arith Bool ZArith QArith Qcanon Lia.
From QV.Core Require Import OF QcOF.
From QV.Model Require Import C13_Cache C13_Loss C13_LossNum C13_Heap.
From QV.Proofs Require Import C13_Cache C13_Loss C13_Heap.
Import ListNotations.

(* ================= 1. CompositeSystem: lazily built, individually deletable tables ================= *)

(* every getter returns what a fresh object would build from the basis, after ANY sequence of getter
   calls and delete_* calls (all nine attributes, all interleavings, unbounded length) *)
Theorem C13_cache_history_irrelevant : forall (B T : Type) (build : B -> slot -> T) (b : B) (ops : list cache_op) (s : slot),
  quara_ops ops -> get build (run build ops (init b)) s = Some (build b s).
Proof. exact @cache_history_irrelevant. Qed.
Print Assumptions C13_cache_history_irrelevant.

(* a query in the middle of a history and the same query after any continuation agree *)
Theorem C13_cache_later_history_irrelevant : forall (B T : Type) (build : B -> slot -> T) b ops1 ops2 s,
  quara_ops ops1 -> quara_ops ops2 ->
  get build (run build ops2 (run build ops1 (init b))) s = get build (run build ops1 (init b)) s.
Proof. exact @cache_history_irrelevant_mid. Qed.
Print Assumptions C13_cache_later_history_irrelevant.

(* the invariant itself (this is the predicate the harness evaluates on the private attributes) *)
Theorem C13_cache_invariant : forall (B T : Type) (build : B -> slot -> T) b ops,
  quara_ops ops -> cache_inv build b (run build ops (init b)).
Proof. intros B T build b ops H. apply run_inv; [exact H|apply init_inv]. Qed.
Print Assumptions C13_cache_invariant.

(* one step, exactly: a miss assigns the whole group of its builder with NEW objects, a hit changes
   nothing, a deletion clears exactly one attribute *)
Theorem C13_cache_step_exact : forall (B T : Type) (build : B -> slot -> T) (c : @cache B T) s x,
  (c_tab c s = None ->
     c_tab (step build c (Get s)) x = if smem x (fills s) then Some (c_tick c, build (c_basis c) x) else c_tab c x) /\
  (forall p, c_tab c s = Some p -> step build c (Get s) = c) /\
  c_tab (step build c (Del s)) x = (if deletable s && slot_eqb x s then None else c_tab c x).
Proof. intros B T build c s x. split; [apply get_miss|split; [apply get_hit|apply del_spec]]. Qed.
Print Assumptions C13_cache_step_exact.

(* object identity: a rebuilt table is an object that never existed before *)
Theorem C13_cache_rebuild_is_fresh : forall (B T : Type) (build : B -> slot -> T) b (c : @cache B T) s,
  cache_inv build b c -> c_tab c s = None ->
  get_tick build c s = Some (c_tick c) /\
  (forall x n t, c_tab c x = Some (n, t) -> n <> c_tick c) /\
  (forall x, smem x (fills s) = true -> option_map fst (c_tab (step build c (Get s)) x) = Some (c_tick c)).
Proof. exact @rebuild_is_fresh. Qed.
Print Assumptions C13_cache_rebuild_is_fresh.

(* REFUTED under basis mutability: if a basis can be changed in place (SparseMatrixBasis elements are
   writable in the implementation) a filled attribute is stale afterwards *)
Theorem C13_cache_needs_immutable_basis_refuted : forall (B T : Type) (build : B -> slot -> T) b b' s,
  build b s <> build b' s ->
  let c := run build [Get s; Poke b'] (init b) in
  c_basis c = b' /\ get build c s <> Some (build (c_basis c) s).
Proof. exact @cache_stale_if_basis_writable. Qed.
Print Assumptions C13_cache_needs_immutable_basis_refuted.

(* ================= 2. loss-function objects re-configured per dataset ================= *)

(* generic loss, exact: after any history the configuration uses the option's weights if it names any,
   otherwise whatever the history left behind *)
Theorem C13_generic_loss_after_configure : forall (D W V : Type) (invw : bool -> D -> W) (val : D -> option W -> V)
  (ops : list lop) w0 d o,
  g_value val (g_run invw (ops ++ [Configure d o]) (g_init w0)) =
  Some (val d (new_weights invw o d (last_weights invw ops w0))).
Proof. exact @g_value_after_configure. Qed.
Print Assumptions C13_generic_loss_after_configure.

(* generic loss, custom / inverse-covariance modes: history independent (all histories) *)
Theorem C13_generic_loss_history_independent : forall (D W V : Type) (invw : bool -> D -> W) (val : D -> option W -> V)
  (ops : list lop) w0 d o,
  resets o -> g_value val (g_run invw (ops ++ [Configure d o]) (g_init w0)) = Some (spec invw val d o).
Proof. exact @g_configure_history_independent. Qed.
Print Assumptions C13_generic_loss_history_independent.

(* generic loss, identity: right as long as the object never carried weights *)
Theorem C13_generic_loss_identity_only : forall (D W V : Type) (invw : bool -> D -> W) (val : D -> option W -> V)
  (ops : list lop) d,
  all_identity ops ->
  g_value val (g_run invw (ops ++ [Configure d Identity]) (g_init None)) = Some (spec invw val d Identity).
Proof. exact @g_identity_only_history_independent. Qed.
Print Assumptions C13_generic_loss_identity_only.

(* REFUTED: generic loss, identity after an inverse-covariance configuration keeps the old weights.
   Full statement that fails:  forall ops d, g_value (run (ops ++ [Configure d Identity])) = Some (spec d Identity) *)
Theorem C13_generic_loss_identity_refuted : forall (D W V : Type) (invw : bool -> D -> W) (val : D -> option W -> V) d d1,
  val d (Some (invw false d1)) <> val d None ->
  exists ops : list lop,
    g_value val (g_run invw (ops ++ [Configure d Identity]) (g_init None)) <> Some (spec invw val d Identity).
Proof. exact @g_identity_history_independent_refuted. Qed.
Print Assumptions C13_generic_loss_identity_refuted.

(* fast loss, exact: the value after configure(d, o) uses the weights the object held BEFORE this call *)
Theorem C13_fast_loss_after_configure : forall (D W V : Type) (invw : bool -> D -> W) (val : D -> option W -> V)
  (ops : list lop) w0 d o,
  f_value val (f_run invw (ops ++ [Configure d o]) (f_init w0)) =
  Some (val d (match last_weights invw ops w0 with Some w => Some w | None => last_ext invw ops w0 None end)).
Proof. exact @f_value_after_configure. Qed.
Print Assumptions C13_fast_loss_after_configure.

Theorem C13_fast_loss_ignores_current_option : forall (D W V : Type) (invw : bool -> D -> W) (val : D -> option W -> V)
  (s : fstate) d o o',
  f_value val (f_step invw s (Configure d o)) = f_value val (f_step invw s (Configure d o')).
Proof. intros. reflexivity. Qed.
Print Assumptions C13_fast_loss_ignores_current_option.

Theorem C13_fast_loss_identity_only : forall (D W V : Type) (invw : bool -> D -> W) (val : D -> option W -> V)
  (ops : list lop) d,
  all_identity ops ->
  f_value val (f_run invw (ops ++ [Configure d Identity]) (f_init None)) = Some (spec invw val d Identity).
Proof. exact @f_identity_only_history_independent. Qed.
Print Assumptions C13_fast_loss_identity_only.

(* REFUTED: fast loss with an inverse-covariance mode: fresh object unweighted, re-used object weighted with
   the previous dataset's covariance; neither is the specified value.
   Full statement that fails:  forall ops d o, f_value (run (ops ++ [Configure d o])) = Some (spec d o) *)
Theorem C13_fast_loss_inverse_refuted : forall (D W V : Type) (invw : bool -> D -> W) (val : D -> option W -> V) d d1,
  val d (Some (invw false d1)) <> val d None ->
  exists ops1 ops2 : list lop,
    f_value val (f_run invw (ops1 ++ [Configure d InvSample]) (f_init None)) <>
    f_value val (f_run invw (ops2 ++ [Configure d InvSample]) (f_init None)).
Proof. exact @f_inverse_history_independent_refuted. Qed.
Print Assumptions C13_fast_loss_inverse_refuted.

Theorem C13_fast_loss_first_use_refuted : forall (D W V : Type) (invw : bool -> D -> W) (val : D -> option W -> V) d,
  val d (Some (invw false d)) <> val d None ->
  f_value val (f_run invw [Configure d InvSample] (f_init None)) <> Some (spec invw val d InvSample).
Proof. exact @f_inverse_spec_refuted. Qed.
Print Assumptions C13_fast_loss_first_use_refuted.

Theorem C13_fast_loss_identity_refuted : forall (D W V : Type) (invw : bool -> D -> W) (val : D -> option W -> V) d d1,
  val d (Some (invw false d1)) <> val d None ->
  exists ops : list lop,
    f_value val (f_run invw (ops ++ [Configure d Identity]) (f_init None)) <> Some (spec invw val d Identity).
Proof. exact @f_identity_history_independent_refuted. Qed.
Print Assumptions C13_fast_loss_identity_refuted.

(* REFUTED: value() of the fast loss is not a function of its observable fields: set_weight_matrices leaves
   the cached extension behind *)
Theorem C13_fast_loss_setter_stale_refuted : forall (D W V : Type) (invw : bool -> D -> W) (val : D -> option W -> V) d w,
  val d (Some w) <> val d None ->
  let s := f_run invw [Configure d Identity; SetW (Some w)] (f_init None) in
  f_w s = Some w /\ f_value val s <> Some (val d (f_w s)).
Proof. exact @f_setter_stale_refuted. Qed.
Print Assumptions C13_fast_loss_setter_stale_refuted.

(* relative-entropy losses: configuring never touches the weights, the extension is rebuilt every time *)
Theorem C13_relent_loss_history_independent : forall (D W V : Type) (val : D -> option W -> V) (ops : list (@lop D W)) w0 d o,
  (forall op, In op ops -> match op with SetW _ => False | _ => True end) ->
  r_value val (r_run (ops ++ [Configure d o]) (r_init w0)) = Some (val d w0).
Proof. exact @r_value_after_configure. Qed.
Print Assumptions C13_relent_loss_history_independent.

(* after the proposed fixes every configuration is history independent *)
Theorem C13_losses_fixed_history_independent : forall (D W V : Type) (invw : bool -> D -> W) (val : D -> option W -> V)
  (ops : list lop) d o,
  (forall s, g_value val (g_step_fixed invw (fold_left (g_step_fixed invw) ops s) (Configure d o)) = Some (spec invw val d o)) /\
  (forall s, f_value val (f_step_fixed invw (fold_left (f_step_fixed invw) ops s) (Configure d o)) = Some (spec invw val d o)).
Proof. intros. split; intros; reflexivity. Qed.
Print Assumptions C13_losses_fixed_history_independent.

(* ================= 3. ProjectedGradientDescent objects ================= *)

(* exact: the projection is that of the FIRST configuration; qt and option follow the LAST *)
Theorem C13_algo_projection_is_first : forall (Q O P : Type) (mkproj : Q -> O -> P) c cs c',
  a_proj (a_run mkproj (c :: cs) (a_init None)) = Some (mkproj (fst c) (snd c)) /\
  a_qt (a_run mkproj ((c :: cs) ++ [c']) (a_init None)) = Some (fst c').
Proof. intros. split; [apply a_proj_is_first|apply (a_qt_is_last mkproj (c :: cs) c' (a_init None))]. Qed.
Print Assumptions C13_algo_projection_is_first.

Theorem C13_algo_same_projection_history_independent : forall (Q O P : Type) (mkproj : Q -> O -> P) c cs c',
  Forall (fun x => mkproj (fst x) (snd x) = mkproj (fst c') (snd c')) (c :: cs) ->
  a_proj (a_run mkproj ((c :: cs) ++ [c']) (a_init None)) = Some (mkproj (fst c') (snd c')).
Proof. exact @a_same_proj_history_independent. Qed.
Print Assumptions C13_algo_same_projection_history_independent.

(* REFUTED.  Full statement that fails:  forall cs c, a_proj (run (cs ++ [c])) = Some (mkproj c) *)
Theorem C13_algo_history_independent_refuted : forall (Q O P : Type) (mkproj : Q -> O -> P) q o q' o',
  mkproj q o <> mkproj q' o' ->
  exists cs, a_proj (a_run mkproj (cs ++ [(q', o')]) (a_init None)) <> Some (mkproj q' o').
Proof. exact @a_history_independent_refuted. Qed.
Print Assumptions C13_algo_history_independent_refuted.

(* whole estimation, generic loss + algorithm re-used over arbitrary earlier jobs *)
Theorem C13_estimation_generic_history_independent :
  forall (D W V Q O P R : Type) (invw : bool -> D -> W) (val : D -> option W -> V) (mkproj : Q -> O -> P)
         (qt_of : D -> Q) (solve : option V -> option P -> option Q -> option O -> R) (j0 : job) js j,
  resets (j_mode j) -> same_proj mkproj qt_of j0 j ->
  snd (est_step_g invw val mkproj qt_of solve
         (est_run_g invw val mkproj qt_of solve (g_init None, a_init None) (j0 :: js)) j)
  = est_spec invw val mkproj qt_of solve j.
Proof. exact @est_generic_history_independent. Qed.
Print Assumptions C13_estimation_generic_history_independent.

(* ================= 4. array heap: MProcess.calc_proj_eq_constraint_with_var ================= *)

(* frame: nothing that existed before the call is written, except - when on_para_eq_constraint = False -
   the buffer of the argument itself; the result is a new buffer *)
Theorem C13_mprocess_proj_eq_frame : forall (F : OF) (h : heap F) d2 on_para var h' res,
  proj_eq_with_var F h d2 on_para var = Some (h', res) ->
  (forall b, (b < h_next F h)%nat -> (on_para = false -> b <> a_buf var) -> h_buf F h' b = h_buf F h b) /\
  (h_next F h <= a_buf res)%nat /\ (a_buf res < h_next F h')%nat.
Proof. exact proj_eq_frame. Qed.
Print Assumptions C13_mprocess_proj_eq_frame.

Theorem C13_mprocess_proj_eq_para_true_pure : forall (F : OF) (h : heap F) d2 var h' res,
  proj_eq_with_var F h d2 true var = Some (h', res) ->
  forall b, (b < h_next F h)%nat -> h_buf F h' b = h_buf F h b.
Proof. exact proj_eq_para_true_pure. Qed.
Print Assumptions C13_mprocess_proj_eq_para_true_pure.

(* on_para_eq_constraint = False: the first row of every HS block of the ARGUMENT is overwritten *)
Theorem C13_mprocess_proj_eq_para_false_overwrites_arg : forall (F : OF) (h : heap F) d2 n var h' res,
  (1 <= d2)%nat -> a_len var = (n * (d2 * d2))%nat -> live F h var ->
  proj_eq_with_var F h d2 false var = Some (h', res) ->
  let hs := (d2 * d2)%nat in
  let hss := map (fun k => view var (k * hs) hs) (seq 0 n) in
  let c := fun j => kdiv F (csub F (fold_left (fun acc a => cadd F acc (rd F h a j)) hss (c0 F)) (e0 F j)) (fnat F n) in
  forall k j, (k < n)%nat -> (j < hs)%nat ->
    rd F h' var (k * hs + j) = if Nat.ltb j d2 then csub F (rd F h var (k * hs + j)) (c j) else rd F h var (k * hs + j).
Proof. exact proj_eq_para_false_overwrites_arg. Qed.
Print Assumptions C13_mprocess_proj_eq_para_false_overwrites_arg.

(* a qubit MProcess with two outcomes, var_i = i/10 *)
Definition wit_var : list Qc := map (fun i => Q2Qc (Z.of_nat i # 10)) (seq 0 32).
Definition wit_heap : heap Qc_OF * arr :=
  (Build_heap Qc_OF 1 (fun _ => Build_buffer Qc_OF 32 (fun i => nth i wit_var 0%Qc)), {| a_buf := 0; a_off := 0; a_len := 32 |}).

Example C13_wit_calc :
  match proj_eq_with_var Qc_OF (fst wit_heap) 4 false (snd wit_heap) with
  | Some (h', _) => Some (Qeq_bool (this (rd Qc_OF h' (snd wit_heap) 1)) (this (rd Qc_OF (fst wit_heap) (snd wit_heap) 1)))
  | None => None end = Some false.
Proof. vm_compute. reflexivity. Qed.

(* REFUTED.  Full statement that fails: forall h d2 on_para var, the buffer of var is unchanged by the call *)
Theorem C13_mprocess_proj_eq_mutates_argument_refuted :
  exists (h : heap Qc_OF) var h' res,
    proj_eq_with_var Qc_OF h 4 false var = Some (h', res) /\ rd Qc_OF h' var 1 <> rd Qc_OF h var 1.
Proof.
  pose proof C13_wit_calc as W.
  destruct (proj_eq_with_var Qc_OF (fst wit_heap) 4 false (snd wit_heap)) as [[h' res]|] eqn:E; [|discriminate].
  exists (fst wit_heap), (snd wit_heap), h', res. split; [exact E|].
  intros H. rewrite H in W. injection W as Q. rewrite Qeq_bool_refl in Q. discriminate.
Qed.
Print Assumptions C13_mprocess_proj_eq_mutates_argument_refuted.

(* after the proposed fix (copy in convert_var_to_hss) no existing buffer is written in either mode *)
Theorem C13_mprocess_proj_eq_fixed_pure : forall (F : OF) (h : heap F) d2 on_para var h' res,
  proj_eq_with_var_fixed F h d2 on_para var = Some (h', res) ->
  forall b, (b < h_next F h)%nat -> h_buf F h' b = h_buf F h b.
Proof. exact proj_eq_fixed_pure. Qed.
Print Assumptions C13_mprocess_proj_eq_fixed_pure.

(* ================= non-vacuity ================= *)

(* the hypothesis "weights matter" of the refutations, on the executed numerical instance: one two-outcome
   measurement, N = 100 (so N^(3/2) = 1000), q = (3/5, 2/5), evaluated at var = (1/10) *)
Definition ex_ds (q0 : Qc) : dataset Qc_OF :=
  Build_dataset Qc_OF 2 [[Q2Qc (1#2)]; [Q2Qc (-1#2)]] [Q2Qc (1#2); Q2Qc (1#2)] [q0; (1 - q0)%Qc] [Q2Qc 100] [Q2Qc 1000].
Definition ex_val (d : dataset Qc_OF) (w : option (weights Qc_OF)) : Qc := loss_value Qc_OF d w [Q2Qc (1#10)].
Definition ex_invw := invw Qc_OF (Q2Qc (1#100000000)).
Example C13_example_weights_matter :
  ex_val (ex_ds (Q2Qc (3#5))) (Some (ex_invw false (ex_ds (Q2Qc (4#5))))) <> ex_val (ex_ds (Q2Qc (3#5))) None.
Proof.
  intros H.
  assert (Q : Qeq_bool (this (ex_val (ex_ds (Q2Qc (3#5))) (Some (ex_invw false (ex_ds (Q2Qc (4#5)))))))
                       (this (ex_val (ex_ds (Q2Qc (3#5))) None)) = true) by (rewrite H; apply Qeq_bool_iff; reflexivity).
  vm_compute in Q. discriminate.
Qed.
(* ... hence concrete histories on which the generic and the fast loss are history dependent *)
Example C13_example_generic_refuted :
  exists ops : list lop,
    g_value ex_val (g_run ex_invw (ops ++ [Configure (ex_ds (Q2Qc (3#5))) Identity]) (g_init None))
    <> Some (spec ex_invw ex_val (ex_ds (Q2Qc (3#5))) Identity).
Proof. exact (C13_generic_loss_identity_refuted _ _ _ ex_invw ex_val _ _ C13_example_weights_matter). Qed.
Example C13_example_fast_refuted :
  exists ops1 ops2 : list lop,
    f_value ex_val (f_run ex_invw (ops1 ++ [Configure (ex_ds (Q2Qc (3#5))) InvSample]) (f_init None)) <>
    f_value ex_val (f_run ex_invw (ops2 ++ [Configure (ex_ds (Q2Qc (3#5))) InvSample]) (f_init None)).
Proof. exact (C13_fast_loss_inverse_refuted _ _ _ ex_invw ex_val _ _ C13_example_weights_matter). Qed.
(* a concrete cache history: build, delete, rebuild, query a sibling; tables are named by their slot *)
Example C13_example_cache :
  let ops := [Get BT; Del Bc; Get BBcT; Del BT; Get Bc; Del BcB; Get BBcT1] in
  @quara_ops unit ops /\
  get (fun (_ : unit) s => s) (run (fun _ s => s) ops (init tt)) BhB1 = Some BhB1 /\
  option_map fst (c_tab (run (fun (_ : unit) s => s) ops (init tt)) BT) = Some 2%nat /\
  option_map fst (c_tab (run (fun (_ : unit) s => s) ops (init tt)) BBcT) = Some 1%nat /\
  c_tab (run (fun (_ : unit) s => s) ops (init tt)) BcB = None.
Proof. cbv zeta. split; [reflexivity|]. split; [reflexivity|]. split; [reflexivity|]. split; reflexivity. Qed.
(* two different projections exist: the hypothesis of the algorithm refutation *)
Example C13_example_algo : (fun q o : nat => (q, o)) 0%nat 1%nat <> (fun q o : nat => (q, o)) 0%nat 2%nat.
Proof. discriminate. Qed.
