(* C13 - results depend only on arguments: no hidden state, no operand mutation.  Property theorems only. *)
From Coq Require Import List Arith Bool ZArith QArith Qcanon Lia.
From QV.Core Require Import OF QcOF.
From QV.Model Require Import C13_Cache C13_Loss C13_LossNum C13_Heap.
From QV.Exec Require Import Base C13_ops.
From QV.Proofs Require Import C13_Cache C13_Loss C13_Heap C13_HeapValue C13_ExecCache.
Import ListNotations.

(* ================= 1. CompositeSystem: lazily built, individually deletable tables ================= *)

(* every getter returns what a fresh object would build from the basis, after ANY sequence of getter
   calls and delete_* calls (all nine attributes, all interleavings, unbounded length) *)
Theorem C13_cache_history_irrelevant : forall (B T : Type) (build : B -> slot -> T) (b : B) (ops : list cache_op) (s : slot),
  quara_ops ops -> get build (run build ops (init b)) s = Some (build b s).
Proof. exact @cache_history_irrelevant. Qed.
Print Assumptions C13_cache_history_irrelevant.

(* a query in the middle of a history and the same query after any continuation agree *)
Theorem C13_cache_later_history_irrelevant : forall (B T : Type) (build : B -> slot -> T) b ops1 ops2 s,
  quara_ops ops1 -> quara_ops ops2 ->
  get build (run build ops2 (run build ops1 (init b))) s = get build (run build ops1 (init b)) s.
Proof. exact @cache_history_irrelevant_mid. Qed.
Print Assumptions C13_cache_later_history_irrelevant.

(* the invariant itself (this is the predicate the harness evaluates on the private attributes) *)
Theorem C13_cache_invariant : forall (B T : Type) (build : B -> slot -> T) b ops,
  quara_ops ops -> cache_inv build b (run build ops (init b)).
Proof. intros B T build b ops H. apply run_inv; [exact H|apply init_inv]. Qed.
Print Assumptions C13_cache_invariant.

(* one step, exactly: a miss assigns the whole group of its builder with NEW objects, a hit changes
   nothing, a deletion clears exactly one attribute *)
Theorem C13_cache_step_exact : forall (B T : Type) (build : B -> slot -> T) (c : @cache B T) s x,
  (c_tab c s = None ->
     c_tab (step build c (Get s)) x = if smem x (fills s) then Some (c_tick c, build (c_basis c) x) else c_tab c x) /\
  (forall p, c_tab c s = Some p -> step build c (Get s) = c) /\
  c_tab (step build c (Del s)) x = (if deletable s && slot_eqb x s then None else c_tab c x).
Proof. intros B T build c s x. split; [apply get_miss|split; [apply get_hit|apply del_spec]]. Qed.
Print Assumptions C13_cache_step_exact.

(* object identity: a rebuilt table is an object that never existed before *)
Theorem C13_cache_rebuild_is_fresh : forall (B T : Type) (build : B -> slot -> T) b (c : @cache B T) s,
  cache_inv build b c -> c_tab c s = None ->
  get_tick build c s = Some (c_tick c) /\
  (forall x n t, c_tab c x = Some (n, t) -> n <> c_tick c) /\
  (forall x, smem x (fills s) = true -> option_map fst (c_tab (step build c (Get s)) x) = Some (c_tick c)).
Proof. exact @rebuild_is_fresh. Qed.
Print Assumptions C13_cache_rebuild_is_fresh.

(* why "matrix bases cannot be modified" is needed: [Poke] is NOT an operation of quara; if a basis could be
   changed in place, a filled attribute would be stale afterwards.  (Before fix sparse-matrix-basis-writable the
   csr elements of a SparseMatrixBasis were writable, so [Poke] could be performed from outside; the harness
   checks on every run that it cannot.) *)
Theorem C13_cache_needs_immutable_basis : forall (B T : Type) (build : B -> slot -> T) b b' s,
  build b s <> build b' s ->
  let c := run build [Get s; Poke b'] (init b) in
  c_basis c = b' /\ get build c s <> Some (build (c_basis c) s).
Proof. exact @cache_stale_if_basis_writable. Qed.
Print Assumptions C13_cache_needs_immutable_basis.

(* the EXECUTED operation (Exec/C13_ops.cache_trace, run by "c13.cache_run" next to the implementation and compared with the
   nine private attributes after every step) is the model machine: its final state is [run] of the decoded operation list,
   which contains no Poke; so every state it reaches from a fresh system satisfies the invariant and every getter answers
   [build basis] - the theorem above is about exactly what the harness executes *)
Theorem C13_exec_cache_trace_is_model : forall (zs : list Z) (c : @cache unit unit) out cf,
  cache_trace c zs = Some (out, cf) ->
  exists ops, map dec_cache_op zs = map Some ops /\ quara_ops ops /\ cf = run ubuild ops c /\ length out = (9 * length zs)%nat.
Proof. exact cache_trace_is_run. Qed.
Print Assumptions C13_exec_cache_trace_is_model.

Theorem C13_exec_cache_trace_sound : forall (zs : list Z) out cf s,
  cache_trace (init tt) zs = Some (out, cf) -> cache_inv ubuild tt cf /\ get ubuild cf s = Some (ubuild tt s).
Proof. exact exec_cache_trace_sound. Qed.
Print Assumptions C13_exec_cache_trace_sound.

(* non-vacuity: a trace of getter (code = slot) and delete (16 + slot) operations is accepted by the executed operation *)
Example C13_example_exec_trace :
  match cache_trace (init tt) [3; 20; 6; 19; 4]%Z with Some (out, cf) => Some (length out, c_tick cf) | None => None end = Some (45%nat, 3%nat).
Proof. vm_compute. reflexivity. Qed.

(* ================= 2. loss-function objects re-configured per dataset ================= *)

(* ---- 2a. the REPAIRED objects ([g_step_p repaired], [f_step_p repaired], [r_step_fixed]: the machines the
   harness executes next to the implementation; fixes c12-se-identity-mode-reset, c12-se-alias-mode,
   c12-se-fast-extended-weights, c12-re-set-weights-by-mode, c12-re-fast-extend-weights).
   After ANY history of configurations and setter calls, from ANY state, a configuration evaluates the dataset
   of the call with the weights named by the option of the call - exactly what a fresh object does. *)
Theorem C13_generic_loss_history_independent : forall (D W V : Type) (invw : bool -> D -> W) (val : D -> option W -> V)
  (ops : list lop) (s : gstate) d o,
  g_value val (g_step_p invw repaired (g_run_p invw repaired ops s) (Configure d o)) = Some (spec invw val d o).
Proof. exact @g_repaired_history_independent. Qed.
Print Assumptions C13_generic_loss_history_independent.

Theorem C13_fast_loss_history_independent : forall (D W V : Type) (invw : bool -> D -> W) (val : D -> option W -> V)
  (ops : list lop) (s : fstate) d o,
  f_value val (f_step_p invw repaired (f_run_p invw repaired ops s) (Configure d o)) = Some (spec invw val d o).
Proof. exact @f_repaired_history_independent. Qed.
Print Assumptions C13_fast_loss_history_independent.

(* value()/gradient() of the fast loss are functions of its observable fields: after every operation the cached
   extension mirrors weight_matrices (so set_weight_matrices takes effect, and no older extension survives) *)
Theorem C13_fast_loss_value_observable : forall (D W V : Type) (invw : bool -> D -> W) (val : D -> option W -> V)
  (ops : list lop) (op : lop) (s : fstate),
  let s' := f_run_p invw repaired (ops ++ [op]) s in
  f_ext s' = f_w s' /\ f_value val s' = option_map (fun d => val d (f_w s')) (f_data s').
Proof. intros. split; [apply f_repaired_ext_mirrors|apply f_repaired_value_observable]. Qed.
Print Assumptions C13_fast_loss_value_observable.

Theorem C13_generic_loss_setter : forall (D W V : Type) (invw : bool -> D -> W) (val : D -> option W -> V)
  (ops : list lop) (s : gstate) d o w,
  g_value val (g_step_p invw repaired (g_step_p invw repaired (g_run_p invw repaired ops s) (Configure d o)) (SetW w))
  = Some (val d w).
Proof. exact @g_repaired_setter. Qed.
Print Assumptions C13_generic_loss_setter.

(* relative-entropy losses (generic and fast): modes identity / custom (the option class accepts no other) *)
Theorem C13_relent_loss_history_independent : forall (D W V : Type) (invw : bool -> D -> W) (val : D -> option W -> V)
  (ops : list lop) w0 d o,
  r_mode o -> r_value val (r_run_fixed (ops ++ [Configure d o]) (r_init w0)) = Some (spec invw val d o).
Proof. exact @r_repaired_history_independent. Qed.
Print Assumptions C13_relent_loss_history_independent.

Theorem C13_relent_loss_setter : forall (D W V : Type) (val : D -> option W -> V) (ops : list (@lop D W)) w0 d o w,
  r_value val (r_run_fixed (ops ++ [Configure d o; SetW w]) (r_init w0)) = Some (val d w).
Proof. exact @r_repaired_setter. Qed.
Print Assumptions C13_relent_loss_setter.

(* the parametrised machines without any repair are the machines of 2b, with all repairs those written out
   as g_step_fixed / f_step_fixed *)
Theorem C13_loss_machines_param : forall (D W : Type) (invw : bool -> D -> W) (op : lop),
  (forall s, g_step_p invw as_coded s op = g_step invw s op) /\
  (forall s, f_step_p invw as_coded s op = f_step invw s op) /\
  (forall s, g_step_p invw repaired s op = g_step_fixed invw s op) /\
  (forall s, f_step_p invw repaired s op = f_step_fixed invw s op).
Proof. intros. split; [|split; [|split]]; intros s.
  - apply g_step_p_as_coded. - apply f_step_p_as_coded. - apply g_step_p_repaired. - apply f_step_p_repaired. Qed.
Print Assumptions C13_loss_machines_param.

(* ---- 2b. the objects AS CODED BEFORE those fixes ([g_step], [f_step], [r_step]): exact description of what
   they did, and the refutations of history independence.  The harness uses these machines only to NAME the
   defect when the implementation deviates from 2a. *)

(* generic loss, exact: after any history the configuration uses the option's weights if it names any,
   otherwise whatever the history left behind *)
Theorem C13_generic_loss_after_configure : forall (D W V : Type) (invw : bool -> D -> W) (val : D -> option W -> V)
  (ops : list lop) w0 d o,
  g_value val (g_run invw (ops ++ [Configure d o]) (g_init w0)) =
  Some (val d (new_weights invw o d (last_weights invw ops w0))).
Proof. exact @g_value_after_configure. Qed.
Print Assumptions C13_generic_loss_after_configure.

(* generic loss, custom / inverse-covariance modes: history independent (all histories) *)
Theorem C13_generic_loss_before_fix_resetting_modes : forall (D W V : Type) (invw : bool -> D -> W) (val : D -> option W -> V)
  (ops : list lop) w0 d o,
  resets o -> g_value val (g_run invw (ops ++ [Configure d o]) (g_init w0)) = Some (spec invw val d o).
Proof. exact @g_configure_history_independent. Qed.
Print Assumptions C13_generic_loss_before_fix_resetting_modes.

(* generic loss, identity: right as long as the object never carried weights *)
Theorem C13_generic_loss_identity_only : forall (D W V : Type) (invw : bool -> D -> W) (val : D -> option W -> V)
  (ops : list lop) d,
  all_identity ops ->
  g_value val (g_run invw (ops ++ [Configure d Identity]) (g_init None)) = Some (spec invw val d Identity).
Proof. exact @g_identity_only_history_independent. Qed.
Print Assumptions C13_generic_loss_identity_only.

(* REFUTED: generic loss, identity after an inverse-covariance configuration keeps the old weights.
   Full statement that fails:  forall ops d, g_value (run (ops ++ [Configure d Identity])) = Some (spec d Identity) *)
Theorem C13_generic_loss_identity_refuted : forall (D W V : Type) (invw : bool -> D -> W) (val : D -> option W -> V) d d1,
  val d (Some (invw false d1)) <> val d None ->
  exists ops : list lop,
    g_value val (g_run invw (ops ++ [Configure d Identity]) (g_init None)) <> Some (spec invw val d Identity).
Proof. exact @g_identity_history_independent_refuted. Qed.
Print Assumptions C13_generic_loss_identity_refuted.

(* fast loss, exact: the value after configure(d, o) uses the weights the object held BEFORE this call *)
Theorem C13_fast_loss_after_configure : forall (D W V : Type) (invw : bool -> D -> W) (val : D -> option W -> V)
  (ops : list lop) w0 d o,
  f_value val (f_run invw (ops ++ [Configure d o]) (f_init w0)) =
  Some (val d (match last_weights invw ops w0 with Some w => Some w | None => last_ext invw ops w0 None end)).
Proof. exact @f_value_after_configure. Qed.
Print Assumptions C13_fast_loss_after_configure.

Theorem C13_fast_loss_ignores_current_option : forall (D W V : Type) (invw : bool -> D -> W) (val : D -> option W -> V)
  (s : fstate) d o o',
  f_value val (f_step invw s (Configure d o)) = f_value val (f_step invw s (Configure d o')).
Proof. intros. reflexivity. Qed.
Print Assumptions C13_fast_loss_ignores_current_option.

Theorem C13_fast_loss_identity_only : forall (D W V : Type) (invw : bool -> D -> W) (val : D -> option W -> V)
  (ops : list lop) d,
  all_identity ops ->
  f_value val (f_run invw (ops ++ [Configure d Identity]) (f_init None)) = Some (spec invw val d Identity).
Proof. exact @f_identity_only_history_independent. Qed.
Print Assumptions C13_fast_loss_identity_only.

(* REFUTED: fast loss with an inverse-covariance mode: fresh object unweighted, re-used object weighted with
   the previous dataset's covariance; neither is the specified value.
   Full statement that fails:  forall ops d o, f_value (run (ops ++ [Configure d o])) = Some (spec d o) *)
Theorem C13_fast_loss_inverse_refuted : forall (D W V : Type) (invw : bool -> D -> W) (val : D -> option W -> V) d d1,
  val d (Some (invw false d1)) <> val d None ->
  exists ops1 ops2 : list lop,
    f_value val (f_run invw (ops1 ++ [Configure d InvSample]) (f_init None)) <>
    f_value val (f_run invw (ops2 ++ [Configure d InvSample]) (f_init None)).
Proof. exact @f_inverse_history_independent_refuted. Qed.
Print Assumptions C13_fast_loss_inverse_refuted.

Theorem C13_fast_loss_first_use_refuted : forall (D W V : Type) (invw : bool -> D -> W) (val : D -> option W -> V) d,
  val d (Some (invw false d)) <> val d None ->
  f_value val (f_run invw [Configure d InvSample] (f_init None)) <> Some (spec invw val d InvSample).
Proof. exact @f_inverse_spec_refuted. Qed.
Print Assumptions C13_fast_loss_first_use_refuted.

Theorem C13_fast_loss_identity_refuted : forall (D W V : Type) (invw : bool -> D -> W) (val : D -> option W -> V) d d1,
  val d (Some (invw false d1)) <> val d None ->
  exists ops : list lop,
    f_value val (f_run invw (ops ++ [Configure d Identity]) (f_init None)) <> Some (spec invw val d Identity).
Proof. exact @f_identity_history_independent_refuted. Qed.
Print Assumptions C13_fast_loss_identity_refuted.

(* REFUTED: value() of the fast loss is not a function of its observable fields: set_weight_matrices leaves
   the cached extension behind *)
Theorem C13_fast_loss_setter_stale_refuted : forall (D W V : Type) (invw : bool -> D -> W) (val : D -> option W -> V) d w,
  val d (Some w) <> val d None ->
  let s := f_run invw [Configure d Identity; SetW (Some w)] (f_init None) in
  f_w s = Some w /\ f_value val s <> Some (val d (f_w s)).
Proof. exact @f_setter_stale_refuted. Qed.
Print Assumptions C13_fast_loss_setter_stale_refuted.

(* relative-entropy losses before the fixes: configuring never touched the weights (the option was ignored) *)
Theorem C13_relent_loss_before_fix_ignores_option : forall (D W V : Type) (val : D -> option W -> V) (ops : list (@lop D W)) w0 d o,
  (forall op, In op ops -> match op with SetW _ => False | _ => True end) ->
  r_value val (r_run (ops ++ [Configure d o]) (r_init w0)) = Some (val d w0).
Proof. exact @r_value_after_configure. Qed.
Print Assumptions C13_relent_loss_before_fix_ignores_option.

(* ================= 3. ProjectedGradientDescent objects ================= *)

(* ---- 3a. the REPAIRED object ([a_step_fixed user], fix pgd-cached-func-proj; the machine the harness executes):
   after any earlier configurations, from any state, the projection in effect is the one handed to the
   constructor if there is one, otherwise the one built from the (qt, option) of THIS call *)
Theorem C13_algo_history_independent : forall (Q O P : Type) (mkproj : Q -> O -> P) (user : option P) cs (s : astate) c,
  a_proj (a_step_fixed mkproj user (fold_left (a_step_fixed mkproj user) cs s) c) =
  Some (match user with Some p => p | None => mkproj (fst c) (snd c) end).
Proof. exact @a_fixed_history_independent. Qed.
Print Assumptions C13_algo_history_independent.

(* whole estimation loop (calc_estimate_sequence) with REPAIRED loss and algorithm objects re-used over arbitrary
   earlier jobs, from any state: every job returns what fresh objects return; [solve] is the optimiser as an
   oracle that sees the objects only through (value/gradient, projection, qt, option) *)
Theorem C13_estimation_history_independent :
  forall (D W V Q O P R : Type) (invw : bool -> D -> W) (val : D -> option W -> V) (mkproj : Q -> O -> P)
         (qt_of : D -> Q) (solve : option V -> option P -> option Q -> option O -> R) j,
  (forall st js, snd (est_step_gp invw val mkproj qt_of solve repaired
                        (est_run_gp invw val mkproj qt_of solve repaired st js) j) = est_spec invw val mkproj qt_of solve j) /\
  (forall st js, snd (est_step_fp invw val mkproj qt_of solve repaired
                        (est_run_fp invw val mkproj qt_of solve repaired st js) j) = est_spec invw val mkproj qt_of solve j).
Proof. intros. split; intros; [apply est_repaired_history_independent|apply est_repaired_fast_history_independent]. Qed.
Print Assumptions C13_estimation_history_independent.

(* ---- 3b. the object AS CODED BEFORE fix pgd-cached-func-proj ([a_step]); used by the harness only to name the
   defect when the implementation deviates from 3a *)

(* exact: the projection is that of the FIRST configuration; qt and option follow the LAST *)
Theorem C13_algo_projection_is_first : forall (Q O P : Type) (mkproj : Q -> O -> P) c cs c',
  a_proj (a_run mkproj (c :: cs) (a_init None)) = Some (mkproj (fst c) (snd c)) /\
  a_qt (a_run mkproj ((c :: cs) ++ [c']) (a_init None)) = Some (fst c').
Proof. intros. split; [apply a_proj_is_first|apply (a_qt_is_last mkproj (c :: cs) c' (a_init None))]. Qed.
Print Assumptions C13_algo_projection_is_first.

Theorem C13_algo_same_projection_history_independent : forall (Q O P : Type) (mkproj : Q -> O -> P) c cs c',
  Forall (fun x => mkproj (fst x) (snd x) = mkproj (fst c') (snd c')) (c :: cs) ->
  a_proj (a_run mkproj ((c :: cs) ++ [c']) (a_init None)) = Some (mkproj (fst c') (snd c')).
Proof. exact @a_same_proj_history_independent. Qed.
Print Assumptions C13_algo_same_projection_history_independent.

(* REFUTED.  Full statement that fails:  forall cs c, a_proj (run (cs ++ [c])) = Some (mkproj c) *)
Theorem C13_algo_history_independent_refuted : forall (Q O P : Type) (mkproj : Q -> O -> P) q o q' o',
  mkproj q o <> mkproj q' o' ->
  exists cs, a_proj (a_run mkproj (cs ++ [(q', o')]) (a_init None)) <> Some (mkproj q' o').
Proof. exact @a_history_independent_refuted. Qed.
Print Assumptions C13_algo_history_independent_refuted.

(* whole estimation before the fixes, generic loss + algorithm re-used over arbitrary earlier jobs: only jobs
   whose mode resets the weights and whose projection equals that of the first job were right *)
Theorem C13_estimation_before_fix_partial :
  forall (D W V Q O P R : Type) (invw : bool -> D -> W) (val : D -> option W -> V) (mkproj : Q -> O -> P)
         (qt_of : D -> Q) (solve : option V -> option P -> option Q -> option O -> R) (j0 : job) js j,
  resets (j_mode j) -> same_proj mkproj qt_of j0 j ->
  snd (est_step_g invw val mkproj qt_of solve
         (est_run_g invw val mkproj qt_of solve (g_init None, a_init None) (j0 :: js)) j)
  = est_spec invw val mkproj qt_of solve j.
Proof. exact @est_generic_history_independent. Qed.
Print Assumptions C13_estimation_before_fix_partial.

(* ================= 4. array heap: MProcess.calc_proj_eq_constraint_with_var ================= *)

(* ---- 4a. the REPAIRED function ([proj_eq_with_var_fixed], fix mprocess-proj-eq-var-mutates-argument; the model the
   harness executes): no buffer that existed before the call is written, in either mode - in particular not
   the argument - and the result is a newly allocated buffer (so it aliases nothing) *)
Theorem C13_mprocess_proj_eq_pure : forall (F : OF) (h : heap F) d2 on_para var h' res,
  proj_eq_with_var_fixed F h d2 on_para var = Some (h', res) ->
  (forall b, (b < h_next F h)%nat -> h_buf F h' b = h_buf F h b) /\
  (h_next F h <= a_buf res)%nat /\ (a_buf res < h_next F h')%nat.
Proof. exact proj_eq_fixed_pure. Qed.
Print Assumptions C13_mprocess_proj_eq_pure.

Theorem C13_mprocess_proj_eq_operands_unchanged : forall (F : OF) (h : heap F) d2 on_para var h' res (x : arr) i,
  proj_eq_with_var_fixed F h d2 on_para var = Some (h', res) -> live F h x -> rd F h' x i = rd F h x i.
Proof. exact proj_eq_fixed_reads_unchanged. Qed.
Print Assumptions C13_mprocess_proj_eq_operands_unchanged.

(* the repair changes nothing else: for all sizes, both modes and every input the repaired function returns exactly the
   values the code before the fix returned (same length, same entries) *)
Theorem C13_mprocess_proj_eq_same_values : forall (F : OF) (h : heap F) d2 on_para var h0 r0 h' r',
  (1 <= d2)%nat -> live F h var ->
  proj_eq_with_var F h d2 on_para var = Some (h0, r0) ->
  proj_eq_with_var_fixed F h d2 on_para var = Some (h', r') ->
  a_len r' = a_len r0 /\ forall i, (i < a_len r0)%nat -> rd F h' r' i = rd F h0 r0 i.
Proof. exact proj_eq_fixed_same_values. Qed.
Print Assumptions C13_mprocess_proj_eq_same_values.

(* convert_var_to_hss (unchanged by the fix) writes nothing that existed; its results are views of a new buffer
   when on_para_eq_constraint = True and views of the ARGUMENT otherwise (the harness compares buffer and offset
   of every returned array with this) *)
Theorem C13_convert_var_to_hss_pure : forall (F : OF) (h : heap F) d2 on_para var h1 hss,
  convert_var_to_hss F h d2 on_para var = Some (h1, hss) ->
  (forall b, (b < h_next F h)%nat -> h_buf F h1 b = h_buf F h b) /\
  (h_next F h <= h_next F h1)%nat /\
  (forall a, In a hss -> a_buf a = if on_para then S (h_next F h) else a_buf var).
Proof. exact convert_spec. Qed.
Print Assumptions C13_convert_var_to_hss_pure.

(* ---- 4b. the function AS CODED BEFORE that fix ([proj_eq_with_var]) *)
(* frame: nothing that existed before the call is written, except - when on_para_eq_constraint = False -
   the buffer of the argument itself; the result is a new buffer *)
Theorem C13_mprocess_proj_eq_frame : forall (F : OF) (h : heap F) d2 on_para var h' res,
  proj_eq_with_var F h d2 on_para var = Some (h', res) ->
  (forall b, (b < h_next F h)%nat -> (on_para = false -> b <> a_buf var) -> h_buf F h' b = h_buf F h b) /\
  (h_next F h <= a_buf res)%nat /\ (a_buf res < h_next F h')%nat.
Proof. exact proj_eq_frame. Qed.
Print Assumptions C13_mprocess_proj_eq_frame.

Theorem C13_mprocess_proj_eq_para_true_pure : forall (F : OF) (h : heap F) d2 var h' res,
  proj_eq_with_var F h d2 true var = Some (h', res) ->
  forall b, (b < h_next F h)%nat -> h_buf F h' b = h_buf F h b.
Proof. exact proj_eq_para_true_pure. Qed.
Print Assumptions C13_mprocess_proj_eq_para_true_pure.

(* on_para_eq_constraint = False: the first row of every HS block of the ARGUMENT is overwritten *)
Theorem C13_mprocess_proj_eq_para_false_overwrites_arg : forall (F : OF) (h : heap F) d2 n var h' res,
  (1 <= d2)%nat -> a_len var = (n * (d2 * d2))%nat -> live F h var ->
  proj_eq_with_var F h d2 false var = Some (h', res) ->
  let hs := (d2 * d2)%nat in
  let hss := map (fun k => view var (k * hs) hs) (seq 0 n) in
  let c := fun j => kdiv F (csub F (fold_left (fun acc a => cadd F acc (rd F h a j)) hss (c0 F)) (e0 F j)) (fnat F n) in
  forall k j, (k < n)%nat -> (j < hs)%nat ->
    rd F h' var (k * hs + j) = if Nat.ltb j d2 then csub F (rd F h var (k * hs + j)) (c j) else rd F h var (k * hs + j).
Proof. exact proj_eq_para_false_overwrites_arg. Qed.
Print Assumptions C13_mprocess_proj_eq_para_false_overwrites_arg.

(* a qubit MProcess with two outcomes, var_i = i/10 *)
Definition wit_var : list Qc := map (fun i => Q2Qc (Z.of_nat i # 10)) (seq 0 32).
Definition wit_heap : heap Qc_OF * arr :=
  (Build_heap Qc_OF 1 (fun _ => Build_buffer Qc_OF 32 (fun i => nth i wit_var 0%Qc)), {| a_buf := 0; a_off := 0; a_len := 32 |}).

Example C13_wit_calc :
  match proj_eq_with_var Qc_OF (fst wit_heap) 4 false (snd wit_heap) with
  | Some (h', _) => Some (Qeq_bool (this (rd Qc_OF h' (snd wit_heap) 1)) (this (rd Qc_OF (fst wit_heap) (snd wit_heap) 1)))
  | None => None end = Some false.
Proof. vm_compute. reflexivity. Qed.

(* REFUTED.  Full statement that fails: forall h d2 on_para var, the buffer of var is unchanged by the call *)
Theorem C13_mprocess_proj_eq_mutates_argument_refuted :
  exists (h : heap Qc_OF) var h' res,
    proj_eq_with_var Qc_OF h 4 false var = Some (h', res) /\ rd Qc_OF h' var 1 <> rd Qc_OF h var 1.
Proof.
  pose proof C13_wit_calc as W.
  destruct (proj_eq_with_var Qc_OF (fst wit_heap) 4 false (snd wit_heap)) as [[h' res]|] eqn:E; [|discriminate].
  exists (fst wit_heap), (snd wit_heap), h', res. split; [exact E|].
  intros H. rewrite H in W. injection W as Q. rewrite Qeq_bool_refl in Q. discriminate.
Qed.
Print Assumptions C13_mprocess_proj_eq_mutates_argument_refuted.

(* ================= non-vacuity ================= *)

(* the hypothesis "weights matter" of the refutations, on the executed numerical instance: one two-outcome
   measurement, N = 100 (so N^(3/2) = 1000), q = (3/5, 2/5), evaluated at var = (1/10) *)
Definition ex_ds (q0 : Qc) : dataset Qc_OF :=
  Build_dataset Qc_OF 2 [[Q2Qc (1#2)]; [Q2Qc (-1#2)]] [Q2Qc (1#2); Q2Qc (1#2)] [q0; (1 - q0)%Qc] [Q2Qc 100] [Q2Qc 1000].
Definition ex_val (d : dataset Qc_OF) (w : option (weights Qc_OF)) : Qc := loss_value Qc_OF d w [Q2Qc (1#10)].
Definition ex_invw := invw Qc_OF (Q2Qc (1#100000000)).
Example C13_example_weights_matter :
  ex_val (ex_ds (Q2Qc (3#5))) (Some (ex_invw false (ex_ds (Q2Qc (4#5))))) <> ex_val (ex_ds (Q2Qc (3#5))) None.
Proof.
  intros H.
  assert (Q : Qeq_bool (this (ex_val (ex_ds (Q2Qc (3#5))) (Some (ex_invw false (ex_ds (Q2Qc (4#5)))))))
                       (this (ex_val (ex_ds (Q2Qc (3#5))) None)) = true) by (rewrite H; apply Qeq_bool_iff; reflexivity).
  vm_compute in Q. discriminate.
Qed.
(* ... hence concrete histories on which the generic and the fast loss are history dependent *)
Example C13_example_generic_refuted :
  exists ops : list lop,
    g_value ex_val (g_run ex_invw (ops ++ [Configure (ex_ds (Q2Qc (3#5))) Identity]) (g_init None))
    <> Some (spec ex_invw ex_val (ex_ds (Q2Qc (3#5))) Identity).
Proof. exact (C13_generic_loss_identity_refuted _ _ _ ex_invw ex_val _ _ C13_example_weights_matter). Qed.
Example C13_example_fast_refuted :
  exists ops1 ops2 : list lop,
    f_value ex_val (f_run ex_invw (ops1 ++ [Configure (ex_ds (Q2Qc (3#5))) InvSample]) (f_init None)) <>
    f_value ex_val (f_run ex_invw (ops2 ++ [Configure (ex_ds (Q2Qc (3#5))) InvSample]) (f_init None)).
Proof. exact (C13_fast_loss_inverse_refuted _ _ _ ex_invw ex_val _ _ C13_example_weights_matter). Qed.
(* ... while the repaired machines give, on the very same history, the value of a fresh object *)
Example C13_example_repaired :
  let d := ex_ds (Q2Qc (3#5)) in let d1 := ex_ds (Q2Qc (4#5)) in
  f_value ex_val (f_run_p ex_invw repaired [Configure d1 InvSample; Configure d Identity] (f_init None)) = Some (ex_val d None) /\
  f_value ex_val (f_run_p ex_invw repaired [Configure d Identity] (f_init None)) = Some (ex_val d None) /\
  f_value ex_val (f_run ex_invw [Configure d1 InvSample; Configure d Identity] (f_init None)) <> Some (ex_val d None).
Proof.
  cbv zeta.
  destruct (repaired_vs_coded_example ex_invw ex_val (ex_ds (Q2Qc (3#5))) (ex_ds (Q2Qc (4#5)))) as [A [B C]].
  split; [exact A|split; [exact B|exact (C C13_example_weights_matter)]].
Qed.
(* the repaired projection on the witness of 4b: the argument is untouched and the returned values are those
   the old code returned *)
Example C13_wit_fixed :
  match proj_eq_with_var_fixed Qc_OF (fst wit_heap) 4 false (snd wit_heap), proj_eq_with_var Qc_OF (fst wit_heap) 4 false (snd wit_heap) with
  | Some (h', r'), Some (h0, r0) =>
      Some (forallb (fun i => Qeq_bool (this (rd Qc_OF h' (snd wit_heap) i)) (this (rd Qc_OF (fst wit_heap) (snd wit_heap) i))) (seq 0 32),
            forallb (fun i => Qeq_bool (this (rd Qc_OF h' r' i)) (this (rd Qc_OF h0 r0 i))) (seq 0 32),
            Nat.eqb (a_len r') 32)
  | _, _ => None end = Some (true, true, true).
Proof. vm_compute. reflexivity. Qed.
(* a concrete cache history: build, delete, rebuild, query a sibling; tables are named by their slot *)
Example C13_example_cache :
  let ops := [Get BT; Del Bc; Get BBcT; Del BT; Get Bc; Del BcB; Get BBcT1] in
  @quara_ops unit ops /\
  get (fun (_ : unit) s => s) (run (fun _ s => s) ops (init tt)) BhB1 = Some BhB1 /\
  option_map fst (c_tab (run (fun (_ : unit) s => s) ops (init tt)) BT) = Some 2%nat /\
  option_map fst (c_tab (run (fun (_ : unit) s => s) ops (init tt)) BBcT) = Some 1%nat /\
  c_tab (run (fun (_ : unit) s => s) ops (init tt)) BcB = None.
Proof. cbv zeta. split; [reflexivity|]. split; [reflexivity|]. split; [reflexivity|]. split; reflexivity. Qed.
(* two different projections exist: the hypothesis of the algorithm refutation *)
Example C13_example_algo : (fun q o : nat => (q, o)) 0%nat 1%nat <> (fun q o : nat => (q, o)) 0%nat 2%nat.
Proof. discriminate. Qed.
