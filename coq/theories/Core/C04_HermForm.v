(* C04 — the Hermitian quadratic form  Re(x^dagger H x)  and its relation to the real symmetric embedding
   (Model/HermEmbed.v): qf (embed H) (u;v) = Re((u+iv)^dagger H (u+iv)) for EVERY complex H, hence
   PSD (embed H) <-> forall x, 0 <= Re(x^dagger H x).  Used by Proofs/C04_EigClip.v.
   (The same facts are proved in Core/C01_HermPsd.v; they are repeated here so that the C04 development depends only on
   the frozen shared files and on files named C04_*.) *)
From Coq Require Import Field Ring Setoid Arith Lia Bool.
From QV.Core Require Import OF Sums Mat Cplx Psd.
From QV.Model Require Import QObj HermEmbed.

Section C04HermForm.
Context (F : OF).
Add Field Ffhf : (k_field F).
Notation "0" := (c0 F). Notation "1" := (c1 F).
Infix "+" := (cadd F). Infix "*" := (cmul F). Infix "<=" := (kle F). Infix "-" := (csub F).
Notation "- x" := (copp F x).
Notation Cx := (CF F).

(* Re (x^dagger H x) *)
Definition hqf (n : nat) (H : cmat F) (x : cvec F) : F :=
  re (sumn n (fun i => sumn n (fun j => cmul Cx (cmul Cx (zconj (x i)) (H i j)) (x j)))).
Definition HPSD (n : nat) (H : cmat F) := forall x : cvec F, 0 <= hqf n H x.

Definition cvec_of_real (n : nat) (z : nat -> F) : cvec F := fun i => (z i, z (n + i)%nat).
Definition real_of_cvec (n : nat) (x : cvec F) : nat -> F :=
  fun i => if (i <? n)%nat then re (x i) else im (x (i - n)%nat).

Lemma hqf_expand n H x : hqf n H x =
  sumn n (fun i => sumn n (fun j =>
     re (x i) * re (H i j) * re (x j) + im (x i) * im (H i j) * re (x j)
     - re (x i) * im (H i j) * im (x j) + im (x i) * re (H i j) * im (x j))).
Proof. unfold hqf. rewrite re_sumn. apply sumn_ext; intros i _. rewrite re_sumn. apply sumn_ext; intros j _.
  destruct (x i) as [a b], (H i j) as [p q], (x j) as [c d]. cbn. ring. Qed.

Lemma hqf_ext n H H' x x' : meq n n H H' -> veq n x x' -> hqf n H x = hqf n H' x'.
Proof. intros HH Hx. rewrite !hqf_expand. apply sumn_ext; intros i Hi. apply sumn_ext; intros j Hj.
  rewrite (HH i j Hi Hj), (Hx i Hi), (Hx j Hj). reflexivity. Qed.

Lemma ltb_add_false n i : (n + i <? n)%nat = false.
Proof. apply Nat.ltb_ge. lia. Qed.
Lemma add_sub_cancel n i : (n + i - n)%nat = i. Proof. lia. Qed.

(* the central identity: holds for EVERY complex matrix H *)
Theorem qf_embed n H z : qf F (n + n) (embed F n H) z = hqf n H (cvec_of_real n z).
Proof. rewrite hqf_expand. unfold qf. rewrite sumn_app, <- sumn_add. apply sumn_ext; intros i Hi.
  rewrite !sumn_app, <- !sumn_add. apply sumn_ext; intros j Hj.
  unfold embed, cvec_of_real. rewrite !ltb_add_false, !add_sub_cancel.
  rewrite (proj2 (Nat.ltb_lt i n) Hi), (proj2 (Nat.ltb_lt j n) Hj). cbn [re im fst snd]. ring. Qed.

Lemma cvec_real_roundtrip n x : veq n (cvec_of_real n (real_of_cvec n x)) x.
Proof. intros i Hi. unfold cvec_of_real, real_of_cvec. rewrite ltb_add_false, add_sub_cancel.
  rewrite (proj2 (Nat.ltb_lt i n) Hi). destruct (x i); reflexivity. Qed.

Theorem embed_PSD_iff n H : PSD F (n + n) (embed F n H) <-> HPSD n H.
Proof. split.
  - intros P x. rewrite <- (hqf_ext n H H _ x (meq_refl n n H) (cvec_real_roundtrip n x)).
    rewrite <- qf_embed. apply P.
  - intros P z. rewrite qf_embed. apply P. Qed.
End C04HermForm.
Arguments hqf {F} n H x. Arguments HPSD {F} n H.
