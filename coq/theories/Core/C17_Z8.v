(* The ring  Z[i, sqrt 2]  (= the integers of the 8th cyclotomic field) as a commutative ring record.
   An element  (a, b, c, d)  denotes  a + b i + (c + d i) sqrt2.  All catalogue tables of C17
   (named states, gate unitaries, matrix bases) have entries in this ring times a common  1/sqrt N.
   Computation is over Z (fast under vm_compute, extracted to big integers); no field extension of Q is
   needed because the only other irrational, the common factor, is tracked as the integer N. Axiom-free. *)
From Coq Require Import ZArith Ring Lia Bool.
From QV.Core Require Import OF.
Local Open Scope Z_scope.

Record z8 := mk8 { z8a : Z; z8b : Z; z8c : Z; z8d : Z }.

Definition z8_0 : z8 := mk8 0 0 0 0.
Definition z8_1 : z8 := mk8 1 0 0 0.
Definition z8_i : z8 := mk8 0 1 0 0.
Definition z8_s : z8 := mk8 0 0 1 0.                      (* sqrt 2 *)
Definition z8z (n : Z) : z8 := mk8 n 0 0 0.
Definition z8g (a b : Z) : z8 := mk8 a b 0 0.             (* Gaussian integer a + b i *)
Definition z8add (x y : z8) : z8 :=
  mk8 (z8a x + z8a y) (z8b x + z8b y) (z8c x + z8c y) (z8d x + z8d y).
Definition z8opp (x : z8) : z8 := mk8 (- z8a x) (- z8b x) (- z8c x) (- z8d x).
Definition z8sub (x y : z8) : z8 :=
  mk8 (z8a x - z8a y) (z8b x - z8b y) (z8c x - z8c y) (z8d x - z8d y).
(* (x1 + y1 s)(x2 + y2 s) = (x1 x2 + 2 y1 y2) + (x1 y2 + y1 x2) s  with x, y Gaussian, s^2 = 2 *)
Definition z8mul (x y : z8) : z8 :=
  let '(mk8 a1 b1 c1 d1) := x in let '(mk8 a2 b2 c2 d2) := y in
  mk8 (a1 * a2 - b1 * b2 + 2 * (c1 * c2 - d1 * d2))
      (a1 * b2 + b1 * a2 + 2 * (c1 * d2 + d1 * c2))
      (a1 * c2 - b1 * d2 + c1 * a2 - d1 * b2)
      (a1 * d2 + b1 * c2 + c1 * b2 + d1 * a2).
Definition z8conj (x : z8) : z8 := mk8 (z8a x) (- z8b x) (z8c x) (- z8d x).
Definition z8eqb (x y : z8) : bool :=
  (z8a x =? z8a y) && (z8b x =? z8b y) && (z8c x =? z8c y) && (z8d x =? z8d y).

Lemma z8eqb_spec x y : z8eqb x y = true <-> x = y.
Proof. destruct x, y; unfold z8eqb; cbn. rewrite !andb_true_iff, !Z.eqb_eq. split.
  - intros [[[-> ->] ->] ->]. reflexivity.
  - intros E. inversion E. auto. Qed.

Lemma z8_ring : ring_theory z8_0 z8_1 z8add z8mul z8sub z8opp (@eq z8).
Proof. constructor; intros; repeat match goal with x : z8 |- _ => destruct x end;
  unfold z8add, z8mul, z8sub, z8opp, z8_0, z8_1; cbn -[Z.add Z.mul Z.sub Z.opp]; f_equal; ring. Qed.

Definition Z8R : CR := Build_CR z8 z8_0 z8_1 z8add z8mul z8sub z8opp z8_ring.

Lemma z8conj_add x y : z8conj (z8add x y) = z8add (z8conj x) (z8conj y).
Proof. destruct x, y; unfold z8conj, z8add; cbn -[Z.add Z.mul Z.sub Z.opp]; f_equal; ring. Qed.
Lemma z8conj_mul x y : z8conj (z8mul x y) = z8mul (z8conj x) (z8conj y).
Proof. destruct x, y; unfold z8conj, z8mul; cbn -[Z.add Z.mul Z.sub Z.opp]; f_equal; ring. Qed.
Lemma z8conj_conj x : z8conj (z8conj x) = x.
Proof. destruct x; unfold z8conj; cbn -[Z.add Z.mul Z.sub Z.opp]; f_equal; ring. Qed.
Lemma z8_s_sqr : z8mul z8_s z8_s = z8z 2. Proof. reflexivity. Qed.
Lemma z8_i_sqr : z8mul z8_i z8_i = z8z (-1). Proof. reflexivity. Qed.
