(* Positive semidefiniteness of real symmetric matrices over an arbitrary ordered field:
   an executable decision procedure (pivoted Schur complement on the last index) with its
   specification, non-negativity of the Frobenius inner product of PSD matrices, and the
   nearest-PSD-point certificate used by the projection checks.  Axiom-free. *)
From Coq Require Import Field Ring Setoid Arith Lia Bool.
From QV.Core Require Import OF Sums Mat.

Section Psd.
Context (F : OF).
Add Field Ff2 : (k_field F).
Notation "0" := (c0 F). Notation "1" := (c1 F).
Infix "+" := (cadd F). Infix "*" := (cmul F). Infix "<=" := (kle F). Infix "-" := (csub F).
Infix "/" := (kdiv F). Notation "- x" := (copp F x).
Notation mat := (@mat F).

Definition symmetric (n : nat) (M : mat) := forall i j, (i < n)%nat -> (j < n)%nat -> M i j = M j i.
Definition qf (n : nat) (M : mat) (x : nat -> F) : F :=
  sumn n (fun i => sumn n (fun j => x i * M i j * x j)).
Definition PSD (n : nat) (M : mat) := forall x, 0 <= qf n M x.
Definition bcol (k : nat) (M : mat) (x : nat -> F) : F := sumn k (fun i => M i k * x i).

Lemma qf_S k M x : symmetric (S k) M ->
  qf (S k) M x = qf k M x + (x k * bcol k M x + x k * bcol k M x) + M k k * (x k * x k).
Proof. intros Hs. unfold qf, bcol. cbn [sumn].
  rewrite sumn_add.
  rewrite (sumn_ext k (fun j => x k * M k j * x j) (fun j => x k * (M j k * x j))).
  2:{ intros j Hj. rewrite (Hs k j) by lia. ring. }
  rewrite (sumn_ext k (fun i => x i * M i k * x k) (fun i => x k * (M i k * x i))).
  2:{ intros i Hi. ring. }
  rewrite !sumn_scale_l. ring. Qed.

Definition schur (k : nat) (M : mat) : mat := fun i j => M i j - M i k * M k j / M k k.

Lemma qf_schur k M x : symmetric (S k) M -> M k k <> 0 ->
  qf k (schur k M) x = qf k M x - bcol k M x * bcol k M x / M k k.
Proof. intros Hs Ha. unfold qf, schur.
  rewrite (sumn_ext k _ (fun i => sumn k (fun j => x i * M i j * x j) - (M i k * x i) * (bcol k M x / M k k))).
  2:{ intros i Hi.
      rewrite (sumn_ext k _ (fun j => x i * M i j * x j - (M i k * x i / M k k) * (M j k * x j))).
      2:{ intros j Hj. rewrite (Hs k j) by lia. field. exact Ha. }
      rewrite sumn_sub, sumn_scale_l. unfold bcol. field. exact Ha. }
  rewrite sumn_sub, sumn_scale_r. unfold bcol. field. exact Ha. Qed.

Lemma schur_sym k M : symmetric (S k) M -> symmetric k (schur k M).
Proof. intros Hs i j Hi Hj. unfold schur. rewrite (Hs i j), (Hs i k), (Hs k j) by lia. 
  destruct (k_field F) as [_ _ Hd _]. rewrite !Hd. ring. Qed.

Lemma sym_S k M : symmetric (S k) M -> symmetric k M.
Proof. intros Hs i j Hi Hj. apply Hs; lia. Qed.

(* completing the square *)
Lemma qf_square k M x : symmetric (S k) M -> M k k <> 0 ->
  qf (S k) M x = qf k (schur k M) x + M k k * ((x k + bcol k M x / M k k) * (x k + bcol k M x / M k k)).
Proof. intros Hs Ha. rewrite qf_S, qf_schur by assumption. field. exact Ha. Qed.

Definition upd (x : nat -> F) (k : nat) (v : F) : nat -> F := fun i => if Nat.eqb i k then v else x i.
Lemma qf_upd k M x v : qf k M (upd x k v) = qf k M x.
Proof. unfold qf. apply sumn_ext; intros i Hi. apply sumn_ext; intros j Hj. unfold upd.
  destruct (Nat.eqb_spec i k); [lia|]. destruct (Nat.eqb_spec j k); [lia|]. reflexivity. Qed.
Lemma bcol_upd k M x v : bcol k M (upd x k v) = bcol k M x.
Proof. unfold bcol. apply sumn_ext; intros i Hi. unfold upd. destruct (Nat.eqb_spec i k); [lia|]. reflexivity. Qed.
Lemma upd_same x k v : upd x k v k = v. Proof. unfold upd. now rewrite Nat.eqb_refl. Qed.

Fixpoint allzero (k : nat) (f : nat -> F) : bool :=
  match k with O => true | S j => allzero j f && (kleb F (f j) 0 && kleb F 0 (f j)) end.
Lemma allzero_spec k f : allzero k f = true <-> forall i, (i < k)%nat -> f i = 0.
Proof. induction k as [|k IH]; cbn. { split; [intros _ i Hi; lia|reflexivity]. }
  rewrite andb_true_iff, IH, eqb_spec. split.
  - intros [A B] i Hi. destruct (Nat.eq_dec i k) as [->|]; [exact B|apply A; lia].
  - intros H. split; [intros i Hi; apply H; lia|apply H; lia]. Qed.

Fixpoint psd_dec (n : nat) (M : mat) : bool :=
  match n with
  | O => true
  | S k => let a := M k k in
      if negb (kleb F 0 a) then false
      else if kleb F a 0 then allzero k (fun i => M i k) && psd_dec k M
      else psd_dec k (schur k M)
  end.

Lemma PSD_pos_iff k M : symmetric (S k) M -> M k k <> 0 -> 0 <= M k k ->
  (PSD (S k) M <-> PSD k (schur k M)).
Proof. intros Hs Ha Hp. split; intros H x.
  - specialize (H (upd x k (- (bcol k M x / M k k)))).
    rewrite qf_square in H by assumption. rewrite qf_upd, bcol_upd, upd_same in H.
    replace (- (bcol k M x / M k k) + bcol k M x / M k k) with 0 in H by (field; exact Ha).
    replace (qf k (schur k M) x + M k k * (0 * 0)) with (qf k (schur k M) x) in H by ring. exact H.
  - rewrite qf_square by assumption. apply add_nonneg; [apply H|]. apply k_mul; [exact Hp|apply sqr_nonneg]. Qed.

Definition delta (i : nat) : nat -> F := fun j => if Nat.eqb j i then 1 else 0.
Lemma qf_delta k M i : (i < k)%nat -> qf k M (delta i) = M i i.
Proof. intros Hi. unfold qf.
  rewrite (sumn_ext k _ (fun a => if Nat.eqb a i then sumn k (fun j => M a j * delta i j) else 0)).
  2:{ intros a Ha. unfold delta at 1. destruct (Nat.eqb_spec a i).
      - apply sumn_ext; intros j Hj. ring.
      - rewrite (sumn_ext k _ (fun _ => 0)); [apply sumn_zero|]. intros; ring. }
  rewrite sumn_delta by exact Hi.
  rewrite (sumn_ext k _ (fun j => if Nat.eqb j i then M i j else 0)).
  2:{ intros j Hj. unfold delta. destruct (Nat.eqb_spec j i); ring. }
  now rewrite sumn_delta. Qed.
Lemma bcol_delta k M i : (i < k)%nat -> bcol k M (delta i) = M i k.
Proof. intros Hi. unfold bcol.
  rewrite (sumn_ext k _ (fun j => if Nat.eqb j i then M j k else 0)).
  2:{ intros j Hj. unfold delta. destruct (Nat.eqb_spec j i); ring. }
  now rewrite sumn_delta. Qed.


Lemma PSD_zero_col k M i : symmetric (S k) M -> M k k = 0 -> PSD (S k) M -> (i < k)%nat -> M i k = 0.
Proof. intros Hs Ha H Hi. destruct (kleb F (M i k) 0 && kleb F 0 (M i k)) eqn:E.
  { now apply eqb_spec in E. }
  assert (Hc : M i k <> 0). { intros E0. rewrite E0 in E. rewrite (proj2 (k_leb F 0 0) (k_refl F 0)) in E. discriminate. }
  exfalso. apply (not_le_0_m1 F).
  pose proof (double_neq0 F _ Hc) as H2.
  specialize (H (upd (delta i) k (- ((M i i + 1) / (M i k + M i k))))).
  rewrite qf_S in H by exact Hs. rewrite qf_upd, bcol_upd, upd_same, Ha, qf_delta, bcol_delta in H by exact Hi.
  match type of H with _ <= ?e => replace e with (- (1)) in H by (field; exact H2) end. exact H. Qed.

Lemma PSD_zero_iff k M : symmetric (S k) M -> M k k = 0 ->
  (PSD (S k) M <-> (forall i, (i < k)%nat -> M i k = 0) /\ PSD k M).
Proof. intros Hs Ha. split.
  - intros H. split.
    + intros i Hi. now apply (PSD_zero_col k M i).
    + intros x. specialize (H (upd x k 0)). rewrite qf_S in H by exact Hs.
      rewrite qf_upd, bcol_upd, upd_same, Ha in H.
      replace (qf k M x + (0 * bcol k M x + 0 * bcol k M x) + 0 * (0 * 0)) with (qf k M x) in H by ring. exact H.
  - intros [Hz H] x. rewrite qf_S by exact Hs. rewrite Ha.
    assert (Hb : bcol k M x = 0). { unfold bcol. rewrite (sumn_ext k _ (fun _ => 0)); [apply sumn_zero|].
      intros i Hi. rewrite Hz by exact Hi. ring. }
    rewrite Hb. replace (qf k M x + (x k * 0 + x k * 0) + 0 * (x k * x k)) with (qf k M x) by ring. apply H. Qed.

Lemma PSD_neg k M : symmetric (S k) M -> ~ (0 <= M k k) -> ~ PSD (S k) M.
Proof. intros Hs Hn H. apply Hn. specialize (H (upd (fun _ => 0) k 1)).
  rewrite qf_S in H by exact Hs. rewrite qf_upd, bcol_upd, upd_same in H.
  assert (Hq : qf k M (fun _ => 0) = 0). { unfold qf. rewrite (sumn_ext k _ (fun _ => 0)); [apply sumn_zero|].
    intros i _. rewrite (sumn_ext k _ (fun _ => 0)); [apply sumn_zero|]. intros; ring. }
  assert (Hb : bcol k M (fun _ => 0) = 0). { unfold bcol. rewrite (sumn_ext k _ (fun _ => 0)); [apply sumn_zero|]. intros; ring. }
  rewrite Hq, Hb in H. match type of H with _ <= ?e => replace e with (M k k) in H by ring end. exact H. Qed.

Theorem psd_dec_spec n : forall M, symmetric n M -> (psd_dec n M = true <-> PSD n M).
Proof. induction n as [|k IH]; intros M Hs.
  - cbn. split; [intros _ x; unfold qf; cbn; apply k_refl|reflexivity].
  - cbn [psd_dec]. destruct (kleb F 0 (M k k)) eqn:E0; cbn [negb].
    + apply k_leb in E0. destruct (kleb F (M k k) 0) eqn:E1.
      * apply k_leb in E1. assert (Ha : M k k = 0) by now apply (k_antisym F).
        rewrite andb_true_iff, allzero_spec, (IH M (sym_S k M Hs)). symmetry. now apply PSD_zero_iff.
      * assert (Ha : M k k <> 0). { intros E. rewrite E in E1. rewrite (proj2 (k_leb F 0 0) (k_refl F 0)) in E1. discriminate. }
        rewrite (IH _ (schur_sym k M Hs)). symmetry. now apply PSD_pos_iff.
    + split; [discriminate|]. intros H. exfalso. revert H. apply PSD_neg; [exact Hs|].
      intros A. apply k_leb in A. congruence. Qed.

Lemma PSD_restrict k M : symmetric (S k) M -> PSD (S k) M -> PSD k M.
Proof. intros Hs H x. specialize (H (upd x k 0)). rewrite qf_S in H by exact Hs.
  rewrite qf_upd, bcol_upd, upd_same in H.
  match type of H with _ <= ?e => replace e with (qf k M x) in H by ring end. exact H. Qed.

Notation inner n A B := (@Mat.inner F n n A B).

Lemma inner_S k A B : symmetric (S k) A -> symmetric (S k) B ->
  inner (S k) A B = inner k A B + (sumn k (fun i => A i k * B i k) + sumn k (fun i => A i k * B i k)) + A k k * B k k.
Proof. intros HA HB. unfold Mat.inner. cbn [sumn]. rewrite sumn_add.
  rewrite (sumn_ext k (fun j => A k j * B k j) (fun j => A j k * B j k)).
  2:{ intros j Hj. rewrite (HA k j), (HB k j) by lia. reflexivity. } ring. Qed.

Definition pivcol (k : nat) (Z : mat) : nat -> F := fun i => if Nat.eqb i k then Z k k else Z i k.

Lemma sumn_sub_scale n f g c : sumn n (fun i => f i - g i * c) = sumn n f - sumn n g * c.
Proof. rewrite sumn_sub, sumn_scale_r. reflexivity. Qed.

Lemma qf_pivcol k N Z : qf k N (pivcol k Z) = sumn k (fun i => sumn k (fun j => Z i k * N i j * Z j k)).
Proof. unfold qf, pivcol. apply sumn_ext; intros i Hi. apply sumn_ext; intros j Hj.
  destruct (Nat.eqb_spec i k); [lia|]. destruct (Nat.eqb_spec j k); [lia|]. reflexivity. Qed.
Lemma bcol_pivcol k N Z : bcol k N (pivcol k Z) = sumn k (fun i => N i k * Z i k).
Proof. unfold bcol, pivcol. apply sumn_ext; intros i Hi. destruct (Nat.eqb_spec i k); [lia|]. reflexivity. Qed.
Lemma pivcol_k k Z : pivcol k Z k = Z k k. Proof. unfold pivcol. now rewrite Nat.eqb_refl. Qed.

Lemma inner_schur k N Z : symmetric (S k) N -> symmetric (S k) Z -> Z k k <> 0 ->
  inner (S k) N Z = inner k N (schur k Z) + qf (S k) N (pivcol k Z) / Z k k.
Proof. intros HN HZ Ha. rewrite inner_S, qf_S by assumption.
  rewrite qf_pivcol, bcol_pivcol, pivcol_k.
  assert (E1 : inner k N (schur k Z) =
     inner k N Z - sumn k (fun i => sumn k (fun j => Z i k * N i j * Z j k)) * (1 / Z k k)).
  { unfold Mat.inner, schur.
    rewrite <- sumn_sub_scale. apply sumn_ext; intros i Hi.
    rewrite <- sumn_sub_scale. apply sumn_ext; intros j Hj.
    rewrite (HZ k j) by lia. field. exact Ha. }
  rewrite E1. field. exact Ha. Qed.

Lemma inner_zero_col k N Z : symmetric (S k) N -> symmetric (S k) Z -> Z k k = 0 ->
  (forall i, (i < k)%nat -> Z i k = 0) -> inner (S k) N Z = inner k N Z.
Proof. intros HN HZ Ha Hz. rewrite inner_S by assumption. rewrite Ha.
  rewrite (sumn_ext k _ (fun _ => 0)). 2:{ intros i Hi. rewrite Hz by exact Hi. ring. }
  rewrite sumn_zero. ring. Qed.

Lemma PSD_diag_nonneg k M : symmetric (S k) M -> PSD (S k) M -> 0 <= M k k.
Proof. intros Hs H. destruct (kleb F 0 (M k k)) eqn:E; [now apply k_leb|].
  exfalso. revert H. apply PSD_neg; [exact Hs|]. intros A. apply k_leb in A. congruence. Qed.

Theorem psd_inner_nonneg n : forall N Z, symmetric n N -> symmetric n Z -> PSD n N -> PSD n Z ->
  0 <= inner n N Z.
Proof. induction n as [|k IH]; intros N Z HN HZ PN PZ.
  - unfold Mat.inner; cbn. apply k_refl.
  - pose proof (PSD_diag_nonneg k Z HZ PZ) as E0.
    destruct (kleb F (Z k k) 0) eqn:E1.
    + apply k_leb in E1. assert (Ha : Z k k = 0) by now apply (k_antisym F).
      destruct (proj1 (PSD_zero_iff k Z HZ Ha) PZ) as [Hz PZ'].
      rewrite (inner_zero_col k N Z HN HZ Ha Hz).
      apply IH; [now apply sym_S|now apply sym_S|now apply PSD_restrict|exact PZ'].
    + assert (Ha : Z k k <> 0). { intros E. rewrite E in E1. rewrite (proj2 (k_leb F 0 0) (k_refl F 0)) in E1. discriminate. }
      rewrite (inner_schur k N Z HN HZ Ha). apply add_nonneg.
      * apply IH; [now apply sym_S|now apply schur_sym|now apply PSD_restrict|now apply PSD_pos_iff].
      * replace (qf (S k) N (pivcol k Z) / Z k k) with (qf (S k) N (pivcol k Z) * (1 / Z k k)) by (field; exact Ha).
        apply k_mul; [apply PN|now apply inv_nonneg]. Qed.
End Psd.

(* Executable variant: every Schur complement is materialised (function-matrices recompute their
   entries on each access, which is exponential in the recursion depth). Proved equal to [psd_dec]. *)
Section PsdFast.
Context (F : OF).
Notation mat := (@Mat.mat F).
Variable frz : nat -> mat -> mat.
Hypothesis frz_spec : forall n M i j, (i < n)%nat -> (j < n)%nat -> frz n M i j = M i j.

Lemma allzero_ext k f g : (forall i, (i < k)%nat -> f i = g i) -> allzero F k f = allzero F k g.
Proof. induction k as [|k IH]; intros H; cbn; [reflexivity|]. rewrite IH, H by (intros; auto with arith). reflexivity. Qed.

Lemma psd_dec_ext n : forall M M', meq n n M M' -> psd_dec F n M = psd_dec F n M'.
Proof. induction n as [|k IH]; intros M M' H; [reflexivity|]. cbn [psd_dec].
  rewrite (H k k) by lia.
  rewrite (allzero_ext k (fun i => M i k) (fun i => M' i k)) by (intros i Hi; apply H; lia).
  rewrite (IH M M') by (intros i j Hi Hj; apply H; lia).
  rewrite (IH (schur F k M) (schur F k M')); [reflexivity|].
  intros i j Hi Hj. unfold schur. rewrite !H by lia. reflexivity. Qed.

Fixpoint psd_dec_fast (n : nat) (M : mat) : bool :=
  match n with
  | O => true
  | S k => let a := M k k in
      if negb (kleb F (c0 F) a) then false
      else if kleb F a (c0 F) then allzero F k (fun i => M i k) && psd_dec_fast k M
      else psd_dec_fast k (frz k (schur F k M))
  end.

Lemma psd_dec_fast_eq n : forall M, psd_dec_fast n M = psd_dec F n M.
Proof. induction n as [|k IH]; intros M; [reflexivity|]. cbn [psd_dec_fast psd_dec].
  rewrite !IH. rewrite (psd_dec_ext k (frz k (schur F k M)) (schur F k M)); [reflexivity|].
  intros i j Hi Hj. now apply frz_spec. Qed.
End PsdFast.
