(* Complex numbers over an ordered field, as a commutative ring. Axiom-free. *)
From Coq Require Import Field Ring Setoid Arith Lia Bool.
From QV.Core Require Import OF Sums.

Section Cplx.
Context (F : OF).
Add Field Ffc : (k_field F).
Notation "0" := (c0 F). Notation "1" := (c1 F).
Infix "+" := (cadd F). Infix "*" := (cmul F). Infix "-" := (csub F). Notation "- x" := (copp F x).

Definition cplx : Type := (F * F)%type.
Definition re (z : cplx) : F := fst z.
Definition im (z : cplx) : F := snd z.
Definition zadd (a b : cplx) : cplx := (re a + re b, im a + im b).
Definition zsub (a b : cplx) : cplx := (re a - re b, im a - im b).
Definition zopp (a : cplx) : cplx := (- re a, - im a).
Definition zmul (a b : cplx) : cplx := (re a * re b - im a * im b, re a * im b + im a * re b).
Definition zconj (a : cplx) : cplx := (re a, - im a).
Definition zof (x : F) : cplx := (x, 0).
Definition zi : cplx := (0, 1).
Definition znorm2 (a : cplx) : F := re a * re a + im a * im a.

Lemma cplx_eq (a b : cplx) : re a = re b -> im a = im b -> a = b.
Proof. destruct a, b; cbn; intros -> ->; reflexivity. Qed.

Lemma cplx_ring : ring_theory (zof 0) (zof 1) zadd zmul zsub zopp (@eq cplx).
Proof. constructor; intros; apply cplx_eq; cbn; ring. Qed.

Definition CF : CR := Build_CR cplx (zof 0) (zof 1) zadd zmul zsub zopp cplx_ring.

Lemma zconj_add a b : zconj (zadd a b) = zadd (zconj a) (zconj b).
Proof. apply cplx_eq; cbn; ring. Qed.
Lemma zconj_mul a b : zconj (zmul a b) = zmul (zconj a) (zconj b).
Proof. apply cplx_eq; cbn; ring. Qed.
Lemma zconj_sub a b : zconj (zsub a b) = zsub (zconj a) (zconj b).
Proof. apply cplx_eq; cbn; ring. Qed.
Lemma zconj_opp a : zconj (zopp a) = zopp (zconj a).
Proof. apply cplx_eq; cbn; ring. Qed.
Lemma zconj_conj a : zconj (zconj a) = a.
Proof. apply cplx_eq; cbn; ring. Qed.
Lemma zconj_zof x : zconj (zof x) = zof x.
Proof. apply cplx_eq; cbn; ring. Qed.
Lemma zmul_conj a : zmul a (zconj a) = zof (znorm2 a).
Proof. apply cplx_eq; unfold znorm2; cbn; ring. Qed.
Lemma re_zadd a b : re (zadd a b) = re a + re b. Proof. reflexivity. Qed.
Lemma im_zadd a b : im (zadd a b) = im a + im b. Proof. reflexivity. Qed.
Lemma re_zmul a b : re (zmul a b) = re a * re b - im a * im b. Proof. reflexivity. Qed.
Lemma im_zmul a b : im (zmul a b) = re a * im b + im a * re b. Proof. reflexivity. Qed.
End Cplx.
Arguments re {F} z. Arguments im {F} z. Arguments zconj {F} a. Arguments zof {F} x.
Arguments zadd {F} a b. Arguments zmul {F} a b. Arguments zsub {F} a b. Arguments zopp {F} a.
Arguments znorm2 {F} a. Arguments zi {F}.

Section CplxSums.
Context (F : OF).
Add Field Ffc2 : (k_field F).
Lemma re_sumn n (f : nat -> CF F) : re (sumn n f) = sumn n (fun i => re (f i)).
Proof. induction n as [|n IH]; cbn; [reflexivity|]. now rewrite <- IH. Qed.
Lemma im_sumn n (f : nat -> CF F) : im (sumn n f) = sumn n (fun i => im (f i)).
Proof. induction n as [|n IH]; cbn; [reflexivity|]. now rewrite <- IH. Qed.
Lemma zconj_sumn n (f : nat -> CF F) : zconj (sumn n f) = sumn n (fun i => zconj (f i) : CF F).
Proof. induction n as [|n IH]; cbn [sumn]. { apply cplx_eq; cbn; ring. }
  rewrite <- IH. apply (zconj_add F). Qed.
End CplxSums.
