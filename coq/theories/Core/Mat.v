(* Matrices and vectors as functions with explicit dimensions, over a commutative ring. *)
From Coq Require Import Ring Setoid Arith Lia Bool List.
From QV.Core Require Import OF Sums.

Section Mat.
Context {R : CR}.
Add Ring Rm : (c_ring R).
Notation "0" := (c0 R). Notation "1" := (c1 R).
Infix "+" := (cadd R). Infix "*" := (cmul R). Infix "-" := (csub R). Notation "- x" := (copp R x).

Definition mat := nat -> nat -> R.
Definition vec := nat -> R.
Definition meq (m n : nat) (A B : mat) := forall i j, (i < m)%nat -> (j < n)%nat -> A i j = B i j.
Definition veq (n : nat) (x y : vec) := forall i, (i < n)%nat -> x i = y i.

Definition mmul (k : nat) (A B : mat) : mat := fun i j => sumn k (fun l => A i l * B l j).
Definition mid : mat := fun i j => if Nat.eqb i j then 1 else 0.
Definition mzero : mat := fun _ _ => 0.
Definition madd (A B : mat) : mat := fun i j => A i j + B i j.
Definition msub (A B : mat) : mat := fun i j => A i j - B i j.
Definition mopp (A : mat) : mat := fun i j => - A i j.
Definition mscale (c : R) (A : mat) : mat := fun i j => c * A i j.
Definition mT (A : mat) : mat := fun i j => A j i.
Definition mtrace (n : nat) (A : mat) : R := sumn n (fun i => A i i).
Definition mv (n : nat) (A : mat) (x : vec) : vec := fun i => sumn n (fun j => A i j * x j).
Definition dot (n : nat) (x y : vec) : R := sumn n (fun i => x i * y i).
Definition vadd (x y : vec) : vec := fun i => x i + y i.
Definition vsub (x y : vec) : vec := fun i => x i - y i.
Definition vscale (c : R) (x : vec) : vec := fun i => c * x i.
Definition vzero : vec := fun _ => 0.
Definition inner (m n : nat) (A B : mat) : R := sumn m (fun i => sumn n (fun j => A i j * B i j)).
(* Kronecker product; [p],[q] are the row / column counts of the right factor *)
Definition kron (p q : nat) (A B : mat) : mat :=
  fun i j => A (i / p)%nat (j / q)%nat * B (i mod p)%nat (j mod q)%nat.
(* row-major vectorisation of an m x n matrix and its inverse *)
Definition vecr (n : nat) (A : mat) : vec := fun k => A (k / n)%nat (k mod n)%nat.
Definition unvecr (n : nat) (x : vec) : mat := fun i j => x (i * n + j)%nat.

Lemma meq_refl m n A : meq m n A A. Proof. intros i j _ _; reflexivity. Qed.
Lemma meq_sym m n A B : meq m n A B -> meq m n B A. Proof. intros H i j Hi Hj; symmetry; now apply H. Qed.
Lemma meq_trans m n A B D : meq m n A B -> meq m n B D -> meq m n A D.
Proof. intros H1 H2 i j Hi Hj. rewrite H1, H2 by assumption. reflexivity. Qed.
Lemma veq_refl n x : veq n x x. Proof. intros i _; reflexivity. Qed.
Lemma veq_sym n x y : veq n x y -> veq n y x. Proof. intros H i Hi; symmetry; now apply H. Qed.
Lemma veq_trans n x y z : veq n x y -> veq n y z -> veq n x z.
Proof. intros H1 H2 i Hi. rewrite H1, H2 by assumption. reflexivity. Qed.

Lemma mmul_ext k A A' B B' m n : meq m k A A' -> meq k n B B' -> meq m n (mmul k A B) (mmul k A' B').
Proof. intros HA HB i j Hi Hj. unfold mmul. apply sumn_ext; intros l Hl. rewrite HA, HB by assumption. reflexivity. Qed.
Lemma mmul_assoc k l A B D : forall i j, mmul l (mmul k A B) D i j = mmul k A (mmul l B D) i j.
Proof. intros i j. unfold mmul.
  rewrite (sumn_ext l _ (fun b => sumn k (fun a => A i a * B a b * D b j))).
  2:{ intros b _. now rewrite sumn_scale_r. }
  rewrite sumn_swap. apply sumn_ext; intros a _. rewrite <- sumn_scale_l.
  apply sumn_ext; intros b _. ring. Qed.
Lemma mmul_id_l k A i j : (i < k)%nat -> mmul k mid A i j = A i j.
Proof. intros Hi. unfold mmul, mid.
  rewrite (sumn_ext k _ (fun l => if Nat.eqb i l then A l j else 0)).
  2:{ intros l _. destruct (Nat.eqb i l); ring. } exact (sumn_delta' k i (fun l => A l j) Hi). Qed.
Lemma mmul_id_r k A i j : (j < k)%nat -> mmul k A mid i j = A i j.
Proof. intros Hj. unfold mmul, mid.
  rewrite (sumn_ext k _ (fun l => if Nat.eqb l j then A i l else 0)).
  2:{ intros l _. destruct (Nat.eqb l j); ring. } exact (sumn_delta k j (fun l => A i l) Hj). Qed.
Lemma mmul_madd_l k A B D i j : mmul k (madd A B) D i j = madd (mmul k A D) (mmul k B D) i j.
Proof. unfold mmul, madd. rewrite <- sumn_add. apply sumn_ext; intros; ring. Qed.
Lemma mmul_madd_r k A B D i j : mmul k A (madd B D) i j = madd (mmul k A B) (mmul k A D) i j.
Proof. unfold mmul, madd. rewrite <- sumn_add. apply sumn_ext; intros; ring. Qed.
Lemma mmul_mscale_l k c A B i j : mmul k (mscale c A) B i j = mscale c (mmul k A B) i j.
Proof. unfold mmul, mscale. rewrite <- sumn_scale_l. apply sumn_ext; intros; ring. Qed.
Lemma mmul_mscale_r k c A B i j : mmul k A (mscale c B) i j = mscale c (mmul k A B) i j.
Proof. unfold mmul, mscale. rewrite <- sumn_scale_l. apply sumn_ext; intros; ring. Qed.
Lemma mT_mmul k A B i j : mT (mmul k A B) i j = mmul k (mT B) (mT A) i j.
Proof. unfold mT, mmul. apply sumn_ext; intros; ring. Qed.
Lemma mT_mT A i j : mT (mT A) i j = A i j. Proof. reflexivity. Qed.
Lemma mtrace_cyclic n k A B : mtrace n (mmul k A B) = mtrace k (mmul n B A).
Proof. unfold mtrace, mmul. rewrite sumn_swap. apply sumn_ext; intros l _. apply sumn_ext; intros; ring. Qed.
Lemma mtrace_madd n A B : mtrace n (madd A B) = mtrace n A + mtrace n B.
Proof. unfold mtrace, madd. now rewrite sumn_add. Qed.
Lemma mtrace_mscale n c A : mtrace n (mscale c A) = c * mtrace n A.
Proof. unfold mtrace, mscale. now rewrite sumn_scale_l. Qed.
Lemma mtrace_ext n A B : meq n n A B -> mtrace n A = mtrace n B.
Proof. intros H. apply sumn_ext; intros i Hi. now apply H. Qed.
Lemma mtrace_mT n A : mtrace n (mT A) = mtrace n A. Proof. reflexivity. Qed.
Lemma inner_trace m n A B : inner m n A B = mtrace m (mmul n A (mT B)).
Proof. reflexivity. Qed.
Lemma inner_comm m n A B : inner m n A B = inner m n B A.
Proof. unfold inner. apply sumn_ext; intros i _. apply sumn_ext; intros; ring. Qed.
Lemma inner_ext m n A A' B B' : meq m n A A' -> meq m n B B' -> inner m n A B = inner m n A' B'.
Proof. intros HA HB. unfold inner. apply sumn_ext; intros i Hi. apply sumn_ext; intros j Hj.
  rewrite HA, HB by assumption. reflexivity. Qed.
Lemma inner_madd_l m n A B D : inner m n (madd A B) D = inner m n A D + inner m n B D.
Proof. unfold inner, madd. rewrite <- sumn_add. apply sumn_ext; intros i _.
  rewrite <- sumn_add. apply sumn_ext; intros; ring. Qed.
Lemma inner_msub_l m n A B D : inner m n (msub A B) D = inner m n A D - inner m n B D.
Proof. unfold inner, msub. rewrite <- sumn_sub. apply sumn_ext; intros i _.
  rewrite <- sumn_sub. apply sumn_ext; intros; ring. Qed.
Lemma inner_mscale_l m n c A B : inner m n (mscale c A) B = c * inner m n A B.
Proof. unfold inner, mscale. rewrite <- sumn_scale_l. apply sumn_ext; intros i _.
  rewrite <- sumn_scale_l. apply sumn_ext; intros; ring. Qed.

Lemma dot_comm n x y : dot n x y = dot n y x. Proof. apply sumn_ext; intros; ring. Qed.
Lemma dot_vadd_l n x y z : dot n (vadd x y) z = dot n x z + dot n y z.
Proof. unfold dot, vadd. rewrite <- sumn_add. apply sumn_ext; intros; ring. Qed.
Lemma dot_vsub_l n x y z : dot n (vsub x y) z = dot n x z - dot n y z.
Proof. unfold dot, vsub. rewrite <- sumn_sub. apply sumn_ext; intros; ring. Qed.
Lemma dot_vscale_l n c x y : dot n (vscale c x) y = c * dot n x y.
Proof. unfold dot, vscale. rewrite <- sumn_scale_l. apply sumn_ext; intros; ring. Qed.
Lemma dot_ext n x x' y y' : veq n x x' -> veq n y y' -> dot n x y = dot n x' y'.
Proof. intros H1 H2. apply sumn_ext; intros i Hi. rewrite H1, H2 by assumption. reflexivity. Qed.
Lemma dot_mv m n A x y : dot m (mv n A x) y = dot n x (mv m (mT A) y).
Proof. unfold dot, mv, mT.
  rewrite (sumn_ext m _ (fun i => sumn n (fun j => A i j * x j * y i))).
  2:{ intros i _. now rewrite sumn_scale_r. }
  rewrite sumn_swap. apply sumn_ext; intros j _. rewrite <- sumn_scale_l. apply sumn_ext; intros; ring. Qed.
Lemma mv_mmul k n A B x i : mv n (mmul k A B) x i = mv k A (mv n B x) i.
Proof. unfold mv, mmul.
  rewrite (sumn_ext n _ (fun j => sumn k (fun l => A i l * B l j * x j))).
  2:{ intros j _. now rewrite sumn_scale_r. }
  rewrite sumn_swap. apply sumn_ext; intros l _. rewrite <- sumn_scale_l. apply sumn_ext; intros; ring. Qed.
Lemma mv_ext m n A A' x x' : meq m n A A' -> veq n x x' -> veq m (mv n A x) (mv n A' x').
Proof. intros HA Hx i Hi. apply sumn_ext; intros j Hj. rewrite HA, Hx by assumption. reflexivity. Qed.
Lemma mv_vadd n A x y i : mv n A (vadd x y) i = vadd (mv n A x) (mv n A y) i.
Proof. unfold mv, vadd. rewrite <- sumn_add. apply sumn_ext; intros; ring. Qed.
Lemma mv_vsub n A x y i : mv n A (vsub x y) i = vsub (mv n A x) (mv n A y) i.
Proof. unfold mv, vsub. rewrite <- sumn_sub. apply sumn_ext; intros; ring. Qed.
Lemma mv_vscale n A c x i : mv n A (vscale c x) i = vscale c (mv n A x) i.
Proof. unfold mv, vscale. rewrite <- sumn_scale_l. apply sumn_ext; intros; ring. Qed.
Lemma mv_mid n x i : (i < n)%nat -> mv n mid x i = x i.
Proof. intros Hi. unfold mv, mid.
  rewrite (sumn_ext n _ (fun l => if Nat.eqb i l then x l else 0)).
  2:{ intros l _. destruct (Nat.eqb i l); ring. } exact (sumn_delta' n i x Hi). Qed.

(* index arithmetic for Kronecker products *)
Lemma divmod_flat a b n : (b < n)%nat -> ((a * n + b) / n = a /\ (a * n + b) mod n = b)%nat.
Proof. intros Hb. split.
  - rewrite Nat.div_add_l by lia. rewrite Nat.div_small by lia. lia.
  - rewrite Nat.add_comm, Nat.mod_add by lia. now apply Nat.mod_small. Qed.

Lemma kron_mixed p q n1 n2 A B D E i j :
  (0 < n2)%nat ->
  mmul (n1 * n2) (kron p n2 A B) (kron n2 q D E) i j = kron p q (mmul n1 A D) (mmul n2 B E) i j.
Proof. intros Hn. unfold mmul, kron. rewrite sumn_flat, sumn_mul.
  apply sumn_ext; intros a Ha. apply sumn_ext; intros b Hb.
  destruct (divmod_flat a b n2 Hb) as [-> ->]. ring. Qed.

Lemma mtrace_kron n1 n2 A B : (0 < n2)%nat ->
  mtrace (n1 * n2) (kron n2 n2 A B) = mtrace n1 A * mtrace n2 B.
Proof. intros Hn. unfold mtrace, kron. rewrite sumn_flat, sumn_mul.
  apply sumn_ext; intros a Ha. apply sumn_ext; intros b Hb.
  destruct (divmod_flat a b n2 Hb) as [-> ->]. ring. Qed.

Lemma kron_mT p q A B i j : mT (kron p q A B) i j = kron q p (mT A) (mT B) i j.
Proof. reflexivity. Qed.

Lemma vecr_unvecr n x k : (0 < n)%nat -> vecr n (unvecr n x) k = x k.
Proof. intros Hn. unfold vecr, unvecr. f_equal. rewrite Nat.mul_comm. symmetry. now apply Nat.div_mod_eq. Qed.
Lemma unvecr_vecr n A i j : (j < n)%nat -> unvecr n (vecr n A) i j = A i j.
Proof. intros Hj. unfold vecr, unvecr. now destruct (divmod_flat i j n Hj) as [-> ->]. Qed.

(* vec (A X B) = (A (x) B^T) vec X, row-major; X is k x l, A is m x k, B is l x n *)
Lemma vecr_AXB k l n A X B t : (0 < l)%nat -> (0 < n)%nat ->
  vecr n (mmul l (mmul k A X) B) t = mv (k * l) (kron n l A (mT B)) (vecr l X) t.
Proof. intros Hl Hn. unfold vecr, mv, kron, mmul, mT. rewrite sumn_flat.
  rewrite (sumn_ext l _ (fun b => sumn k (fun a => A (t / n)%nat a * X a b * B b (t mod n)%nat))).
  2:{ intros b _. now rewrite sumn_scale_r. }
  rewrite sumn_swap. apply sumn_ext; intros a Ha. apply sumn_ext; intros b Hb.
  destruct (divmod_flat a b l Hb) as [-> ->]. ring. Qed.
End Mat.

Arguments meq {R} m n A B. Arguments veq {R} n x y.
Arguments mmul {R} k A B _ _. Arguments mid {R} _ _. Arguments mzero {R} _ _.
Arguments madd {R} A B _ _. Arguments msub {R} A B _ _. Arguments mopp {R} A _ _.
Arguments mscale {R} c A _ _. Arguments mT {R} A _ _. Arguments mtrace {R} n A.
Arguments mv {R} n A x _. Arguments dot {R} n x y. Arguments vadd {R} x y _.
Arguments vsub {R} x y _. Arguments vscale {R} c x _. Arguments vzero {R} _.
Arguments inner {R} m n A B. Arguments kron {R} p q A B _ _.
Arguments vecr {R} n A _. Arguments unvecr {R} n x _ _.
