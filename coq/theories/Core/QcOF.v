(* The executable ordered field: canonical rationals Qc (Leibniz equality). Axiom-free. *)
From Coq Require Import QArith Qcanon Field Ring Bool.
From QV.Core Require Import OF.

Definition Qc_ring : ring_theory 0%Qc 1%Qc Qcplus Qcmult Qcminus Qcopp (@eq Qc) := Qcrt.
Definition Qc_CR : CR := Build_CR Qc 0%Qc 1%Qc Qcplus Qcmult Qcminus Qcopp Qc_ring.

Definition Qcleb (x y : Qc) : bool := Qle_bool (this x) (this y).
Lemma Qcleb_spec x y : Qcleb x y = true <-> Qcle x y.
Proof. unfold Qcleb, Qcle. apply Qle_bool_iff. Qed.

Lemma Qc_mul_nonneg x y : (0 <= x -> 0 <= y -> 0 <= x * y)%Qc.
Proof. intros Hx Hy. replace 0%Qc with (0 * y)%Qc by ring. now apply Qcmult_le_compat_r. Qed.

Definition Qc_OF : OF.
Proof.
  refine (Build_OF Qc_CR Qcdiv Qcinv Qcle Qcleb Qcft Qcleb_spec Qcle_refl Qcle_trans Qcle_antisym _ _ _).
  - intros x y. destruct (Qclt_le_dec x y) as [H|H]; [left; now apply Qclt_le_weak|now right].
  - intros x y z H. now apply Qcplus_le_compat; [|apply Qcle_refl].
  - exact Qc_mul_nonneg.
Defined.
