(* Hermitian positive semidefiniteness through the real symmetric embedding
     H = A + iB  |->  [[A, -B], [B, A]]      (Model/HermEmbed.v, [embed]).
   For every complex matrix H the real quadratic form of [embed n H] at (u;v) equals the real part of the
   Hermitian form  x^dagger H x  at x = u + iv; for Hermitian H the embedding is symmetric, so the executable
   [herm_psd_dec n H t] decides  "for all complex x:  0 <= Re(x^dagger H x) + t |x|^2",  i.e.  H + tI >= 0.
   Also: monotonicity in the shift t.   Generic in the ordered field, axiom-free. *)
From Coq Require Import Field Ring Setoid Arith Lia Bool.
From QV.Core Require Import OF Sums Mat Cplx Psd.
From QV.Model Require Import QObj HermEmbed.

Section HermPsd.
Context (F : OF).
Add Field Ffh : (k_field F).
Notation "0" := (c0 F). Notation "1" := (c1 F).
Infix "+" := (cadd F). Infix "*" := (cmul F). Infix "<=" := (kle F). Infix "-" := (csub F).
Infix "/" := (kdiv F). Notation "- x" := (copp F x).
Notation Cx := (CF F).

(* Re (x^dagger H x) *)
Definition hqf (n : nat) (H : cmat F) (x : cvec F) : F :=
  re (sumn n (fun i => sumn n (fun j => cmul Cx (cmul Cx (zconj (x i)) (H i j)) (x j)))).
(* |x|^2 *)
Definition cnorm2 (n : nat) (x : cvec F) : F := sumn n (fun i => znorm2 (x i)).
Definition HPSD (n : nat) (H : cmat F) := forall x : cvec F, 0 <= hqf n H x.
(* H + t I *)
Definition cshiftI (t : F) (H : cmat F) : cmat F :=
  fun i j => if Nat.eqb i j then cadd Cx (H i j) (zof t) else H i j.

Definition cvec_of_real (n : nat) (z : nat -> F) : cvec F := fun i => (z i, z (n + i)%nat).
Definition real_of_cvec (n : nat) (x : cvec F) : nat -> F :=
  fun i => if (i <? n)%nat then re (x i) else im (x (i - n)%nat).

Lemma hqf_expand n H x : hqf n H x =
  sumn n (fun i => sumn n (fun j =>
     re (x i) * re (H i j) * re (x j) + im (x i) * im (H i j) * re (x j)
     - re (x i) * im (H i j) * im (x j) + im (x i) * re (H i j) * im (x j))).
Proof. unfold hqf. rewrite re_sumn. apply sumn_ext; intros i _. rewrite re_sumn. apply sumn_ext; intros j _.
  destruct (x i) as [a b], (H i j) as [p q], (x j) as [c d]. cbn. ring. Qed.

Lemma hqf_ext n H H' x x' : meq n n H H' -> veq n x x' -> hqf n H x = hqf n H' x'.
Proof. intros HH Hx. rewrite !hqf_expand. apply sumn_ext; intros i Hi. apply sumn_ext; intros j Hj.
  rewrite (HH i j Hi Hj), (Hx i Hi), (Hx j Hj). reflexivity. Qed.

Lemma ltb_add_false n i : (n + i <? n)%nat = false.
Proof. apply Nat.ltb_ge. lia. Qed.
Lemma add_sub_cancel n i : (n + i - n)%nat = i. Proof. lia. Qed.

(* the central identity: holds for EVERY complex matrix H *)
Theorem qf_embed n H z : qf F (n + n) (embed F n H) z = hqf n H (cvec_of_real n z).
Proof. rewrite hqf_expand. unfold qf. rewrite sumn_app, <- sumn_add. apply sumn_ext; intros i Hi.
  rewrite !sumn_app, <- !sumn_add. apply sumn_ext; intros j Hj.
  unfold embed, cvec_of_real. rewrite !ltb_add_false, !add_sub_cancel.
  rewrite (proj2 (Nat.ltb_lt i n) Hi), (proj2 (Nat.ltb_lt j n) Hj). cbn [re im fst snd]. ring. Qed.

Lemma cvec_real_roundtrip n x : veq n (cvec_of_real n (real_of_cvec n x)) x.
Proof. intros i Hi. unfold cvec_of_real, real_of_cvec. rewrite ltb_add_false, add_sub_cancel.
  rewrite (proj2 (Nat.ltb_lt i n) Hi). destruct (x i); reflexivity. Qed.

Theorem embed_PSD_iff n H : PSD F (n + n) (embed F n H) <-> HPSD n H.
Proof. split.
  - intros P x. rewrite <- (hqf_ext n H H _ x (meq_refl n n H) (cvec_real_roundtrip n x)).
    rewrite <- qf_embed. apply P.
  - intros P z. rewrite qf_embed. apply P. Qed.

Theorem embed_symmetric n H : hermitian n H -> symmetric F (n + n) (embed F n H).
Proof. intros Hh i j Hi Hj. unfold embed.
  destruct (Nat.ltb_spec i n) as [Li|Li]; destruct (Nat.ltb_spec j n) as [Lj|Lj].
  - rewrite (Hh i j Li Lj). reflexivity.
  - rewrite (Hh i (j - n)%nat Li ltac:(lia)). cbn. ring.
  - rewrite (Hh (i - n)%nat j ltac:(lia) Lj). cbn. ring.
  - rewrite (Hh (i - n)%nat (j - n)%nat ltac:(lia) ltac:(lia)). reflexivity. Qed.

(* ---- shifts *)
Lemma qf_shiftI n t M z : qf F n (shiftI F t M) z = qf F n M z + t * dot n z z.
Proof. unfold qf, shiftI, dot.
  rewrite (sumn_ext n _ (fun i => sumn n (fun j => z i * M i j * z j) + t * (z i * z i))).
  2:{ intros i Hi.
      rewrite (sumn_ext n _ (fun j => z i * M i j * z j + (if Nat.eqb j i then z i * t * z j else 0))).
      2:{ intros j Hj. rewrite (Nat.eqb_sym j i). destruct (Nat.eqb i j); ring. }
      rewrite sumn_add, (sumn_delta n i (fun j => z i * t * z j) Hi). ring. }
  rewrite sumn_add, sumn_scale_l. reflexivity. Qed.

Lemma shiftI_symmetric n t M : symmetric F n M -> symmetric F n (shiftI F t M).
Proof. intros Hs i j Hi Hj. unfold shiftI. rewrite (Nat.eqb_sym j i), (Hs i j Hi Hj). reflexivity. Qed.

Lemma dot_self_nonneg n (z : nat -> F) : 0 <= dot n z z.
Proof. unfold dot. induction n as [|n IH]; cbn [sumn]; [apply k_refl|]. apply add_nonneg; [exact IH|apply sqr_nonneg]. Qed.

Lemma cnorm2_nonneg n x : 0 <= cnorm2 n x.
Proof. unfold cnorm2. induction n as [|n IH]; cbn [sumn]; [apply k_refl|]. apply add_nonneg; [exact IH|].
  unfold znorm2. apply add_nonneg; apply sqr_nonneg. Qed.

Lemma cnorm2_real n z : cnorm2 n (cvec_of_real n z) = dot (n + n) z z.
Proof. unfold cnorm2, dot. rewrite sumn_app, <- sumn_add. apply sumn_ext; intros i _. reflexivity. Qed.

Lemma cnorm2_ext n x x' : veq n x x' -> cnorm2 n x = cnorm2 n x'.
Proof. intros H. apply sumn_ext; intros i Hi. now rewrite (H i Hi). Qed.

Lemma embed_cshiftI n t H : meq (n + n) (n + n) (embed F n (cshiftI t H)) (shiftI F t (embed F n H)).
Proof. intros i j Hi Hj. unfold embed, shiftI, cshiftI.
  destruct (Nat.ltb_spec i n) as [Li|Li]; destruct (Nat.ltb_spec j n) as [Lj|Lj].
  - destruct (Nat.eqb i j); cbn; reflexivity.
  - destruct (Nat.eqb_spec i j) as [E|E]; [lia|]. destruct (Nat.eqb i (j - n)); cbn; ring.
  - destruct (Nat.eqb_spec i j) as [E|E]; [lia|]. destruct (Nat.eqb (i - n) j); cbn; ring.
  - destruct (Nat.eqb_spec i j) as [E|E].
    + subst j. rewrite Nat.eqb_refl. cbn. reflexivity.
    + destruct (Nat.eqb_spec (i - n) (j - n)) as [E'|E']; [lia|]. reflexivity. Qed.

Lemma qf_ext n M M' z : meq n n M M' -> qf F n M z = qf F n M' z.
Proof. intros HM. unfold qf. apply sumn_ext; intros i Hi. apply sumn_ext; intros j Hj. now rewrite (HM i j Hi Hj). Qed.

Lemma hqf_cshiftI n t H x : hqf n (cshiftI t H) x = hqf n H x + t * cnorm2 n x.
Proof.
  rewrite <- (hqf_ext n _ _ _ x (meq_refl n n (cshiftI t H)) (cvec_real_roundtrip n x)).
  rewrite <- (hqf_ext n _ _ _ x (meq_refl n n H) (cvec_real_roundtrip n x)).
  rewrite <- (cnorm2_ext n _ x (cvec_real_roundtrip n x)).
  rewrite <- !qf_embed, (qf_ext _ _ _ _ (embed_cshiftI n t H)), qf_shiftI, cnorm2_real. reflexivity. Qed.

Lemma cshiftI_hermitian n t H : hermitian n H -> hermitian n (cshiftI t H).
Proof. intros Hh i j Hi Hj. unfold cshiftI. rewrite (Nat.eqb_sym j i). destruct (Nat.eqb i j).
  - rewrite (Hh i j Hi Hj). destruct (H j i) as [p q]. apply cplx_eq; cbn; ring.
  - apply Hh; assumption. Qed.

(* ---- the decision procedure decides Hermitian positive semidefiniteness of H + tI *)
Theorem herm_psd_dec_spec n H t : hermitian n H ->
  (herm_psd_dec F n H t = true <-> forall x : cvec F, 0 <= hqf n H x + t * cnorm2 n x).
Proof. intros Hh. unfold herm_psd_dec.
  rewrite (psd_dec_spec F (n + n) _ (shiftI_symmetric _ t _ (embed_symmetric n H Hh))).
  split.
  - intros P x. rewrite <- hqf_cshiftI. apply (proj1 (embed_PSD_iff n (cshiftI t H))).
    intros z. rewrite (qf_ext _ _ _ _ (embed_cshiftI n t H)). apply P.
  - intros P z. rewrite <- (qf_ext _ _ _ _ (embed_cshiftI n t H)), qf_embed, hqf_cshiftI. apply P. Qed.

Corollary herm_psd_dec_HPSD n H t : hermitian n H ->
  (herm_psd_dec F n H t = true <-> HPSD n (cshiftI t H)).
Proof. intros Hh. rewrite (herm_psd_dec_spec n H t Hh). unfold HPSD. split; intros P x.
  - rewrite hqf_cshiftI. apply P. - rewrite <- hqf_cshiftI. apply P. Qed.

Corollary herm_psd_dec_0 n H : hermitian n H -> (herm_psd_dec F n H 0 = true <-> HPSD n H).
Proof. intros Hh. rewrite (herm_psd_dec_spec n H 0 Hh). unfold HPSD. split; intros P x.
  - specialize (P x). replace (hqf n H x + 0 * cnorm2 n x) with (hqf n H x) in P by ring. exact P.
  - replace (hqf n H x + 0 * cnorm2 n x) with (hqf n H x) by ring. apply P. Qed.

(* ---- monotonicity in the shift *)
Theorem PSD_shift_mono n M t t' : t <= t' -> PSD F n (shiftI F t M) -> PSD F n (shiftI F t' M).
Proof. intros Ht P z. rewrite qf_shiftI. specialize (P z). rewrite qf_shiftI in P.
  replace (qf F n M z + t' * dot n z z) with ((qf F n M z + t * dot n z z) + (t' - t) * dot n z z) by ring.
  apply add_nonneg; [exact P|]. apply k_mul; [exact (proj1 (le_sub F t t') Ht)|apply dot_self_nonneg]. Qed.

Theorem herm_psd_dec_mono n H t t' : hermitian n H -> t <= t' ->
  herm_psd_dec F n H t = true -> herm_psd_dec F n H t' = true.
Proof. intros Hh Ht. rewrite !(herm_psd_dec_spec n H _ Hh). intros P x. specialize (P x).
  replace (hqf n H x + t' * cnorm2 n x) with ((hqf n H x + t * cnorm2 n x) + (t' - t) * cnorm2 n x) by ring.
  apply add_nonneg; [exact P|]. apply k_mul; [exact (proj1 (le_sub F t t') Ht)|apply cnorm2_nonneg]. Qed.

(* ---- scalar matrices *)
Lemma hqf_scalar n c H x : (forall i j, (i < n)%nat -> (j < n)%nat -> H i j = if Nat.eqb i j then zof c else c0 Cx) ->
  hqf n H x = c * cnorm2 n x.
Proof. intros HH. rewrite hqf_expand. unfold cnorm2. rewrite <- sumn_scale_l. apply sumn_ext; intros i Hi.
  rewrite (sumn_ext n _ (fun j => if Nat.eqb j i then c * znorm2 (x j) else 0)).
  2:{ intros j Hj. rewrite (HH i j Hi Hj), (Nat.eqb_sym j i). destruct (Nat.eqb_spec i j) as [->|E]; unfold znorm2; cbn; ring. }
  now rewrite sumn_delta. Qed.
End HermPsd.

Arguments hqf {F} n H x. Arguments cnorm2 {F} n x. Arguments HPSD {F} n H. Arguments cshiftI {F} t H _ _.
