(* C04 — nearest-point facts over an arbitrary ordered field (axiom-free):
   * sums of squares (non-negativity, definiteness),
   * nearest point of an affine set by Pythagoras (vector form): if the displacement  P x - x  is orthogonal to the
     direction space of the set then  P x  is THE nearest point, P is idempotent and the identity on the set,
   * the nearest-PSD-point certificate for real symmetric matrices ([psd_proj_certificate]), its exact form
     (eps = delta = 0 : X is the unique nearest PSD point) and the product-set (sum of squares) lemma. *)
From Coq Require Import Field Ring Setoid Arith Lia Bool.
From QV.Core Require Import OF Sums Mat Psd.

Section OrdSums.
Context (F : OF).
Add Field Ffp1 : (k_field F).
Notation "0" := (c0 F). Notation "1" := (c1 F).
Infix "+" := (cadd F). Infix "*" := (cmul F). Infix "<=" := (kle F). Infix "-" := (csub F).
Infix "/" := (kdiv F). Notation "- x" := (copp F x).

Lemma sumn_nonneg n (f : nat -> F) : (forall i, (i < n)%nat -> 0 <= f i) -> 0 <= sumn n f.
Proof. induction n as [|n IH]; intros H; cbn [sumn]. { apply k_refl. }
  apply add_nonneg; [apply IH; intros; apply H; lia|apply H; lia]. Qed.
Lemma sumn_le n (f g : nat -> F) : (forall i, (i < n)%nat -> f i <= g i) -> sumn n f <= sumn n g.
Proof. induction n as [|n IH]; intros H; cbn [sumn]. { apply k_refl. }
  apply le_add_compat; [apply IH; intros; apply H; lia|apply H; lia]. Qed.
Lemma nonneg_sum_zero a b : 0 <= a -> 0 <= b -> a + b = 0 -> a = 0 /\ b = 0.
Proof. intros Ha Hb E.
  assert (Hab : a = - b). { replace (- b) with (a - (a + b)) by ring. rewrite E. ring. }
  assert (A : a = 0). { apply (k_antisym F); [|exact Ha]. rewrite Hab. now apply opp_nonpos. }
  split; [exact A|]. rewrite A in E. rewrite <- E. ring. Qed.
Lemma sqr_zero x : x * x = 0 -> x = 0.
Proof. intros E. apply (sum_sqr_zero F x 0). rewrite E. ring. Qed.
Lemma sumn_nonneg_zero n (f : nat -> F) : (forall i, (i < n)%nat -> 0 <= f i) -> sumn n f = 0 ->
  forall i, (i < n)%nat -> f i = 0.
Proof. induction n as [|n IH]; intros Hf E i Hi; [lia|]. cbn [sumn] in E.
  destruct (nonneg_sum_zero _ _ (sumn_nonneg n f (fun j Hj => Hf j (Nat.lt_lt_succ_r _ _ Hj))) (Hf n (Nat.lt_succ_diag_r n)) E) as [E1 E2].
  destruct (Nat.eq_dec i n) as [->|Hne]; [exact E2|]. apply IH; [intros; apply Hf; lia|exact E1|lia]. Qed.
Lemma sumn_sqr_zero n (f : nat -> F) : sumn n (fun i => f i * f i) = 0 -> forall i, (i < n)%nat -> f i = 0.
Proof. intros E i Hi. apply sqr_zero.
  exact (sumn_nonneg_zero n (fun i => f i * f i) (fun j _ => sqr_nonneg F (f j)) E i Hi). Qed.
Lemma le_antisym_eq a b : a <= b -> b <= a -> a = b. Proof. apply (k_antisym F). Qed.
Lemma le_add_nonneg_r a b : 0 <= b -> a <= a + b.
Proof. intros H. apply (proj2 (le_sub F a (a + b))). replace (a + b - a) with b by ring. exact H. Qed.
End OrdSums.

(* ------------------------------------------------------------------ vectors: Pythagoras, affine sets *)
Section AffineNearest.
Context (F : OF).
Add Field Ffp2 : (k_field F).
Notation "0" := (c0 F). Notation "1" := (c1 F).
Infix "+" := (cadd F). Infix "*" := (cmul F). Infix "<=" := (kle F). Infix "-" := (csub F).
Notation "- x" := (copp F x).
Notation vec := (@vec F).

Definition vdist2 (n : nat) (x y : vec) : F := dot n (vsub x y) (vsub x y).

Lemma vdist2_nonneg n x y : 0 <= vdist2 n x y.
Proof. unfold vdist2, dot. apply sumn_nonneg. intros i _. apply sqr_nonneg. Qed.
Lemma vdist2_sym n x y : vdist2 n x y = vdist2 n y x.
Proof. unfold vdist2, dot, vsub. apply sumn_ext; intros; ring. Qed.
Lemma vdist2_refl n x : vdist2 n x x = 0.
Proof. unfold vdist2, dot, vsub. apply sumn_zero'. intros; ring. Qed.
Lemma vdist2_zero n x y : vdist2 n x y = 0 -> veq n x y.
Proof. intros E i Hi. unfold vdist2, dot in E.
  pose proof (sumn_sqr_zero F n (vsub x y) E i Hi) as H. unfold vsub in H.
  replace (x i) with (x i - y i + y i) by ring. rewrite H. ring. Qed.
Lemma vdist2_ext n x x' y y' : veq n x x' -> veq n y y' -> vdist2 n x y = vdist2 n x' y'.
Proof. intros H1 H2. unfold vdist2, dot, vsub. apply sumn_ext; intros i Hi. rewrite H1, H2 by exact Hi. reflexivity. Qed.

(* ||x - z||^2 = ||x - p||^2 + ||p - z||^2 + 2 <p - x, z - p>  *)
Lemma vdist2_split n x p z :
  vdist2 n x z = vdist2 n x p + vdist2 n p z + (dot n (vsub p x) (vsub z p) + dot n (vsub p x) (vsub z p)).
Proof. unfold vdist2, dot, vsub. rewrite <- !sumn_add. apply sumn_ext; intros; ring. Qed.

Lemma pythagoras n x p z : dot n (vsub p x) (vsub z p) = 0 ->
  vdist2 n x z = vdist2 n x p + vdist2 n p z.
Proof. intros H. rewrite (vdist2_split n x p z), H. ring. Qed.

(* A : the constraint set (any predicate), P : the candidate projection.  "Displacement orthogonal to the direction
   space" : <P x - x, z - z'> = 0 for all z, z' in A. *)
Section Set_.
Variable n : nat.
Variable A : vec -> Prop.
Variable P : vec -> vec.
Definition lands_in := forall x, A (P x).
Definition displacement_orthogonal := forall x z z', A z -> A z' -> dot n (vsub (P x) x) (vsub z z') = 0.

Theorem affine_pythagoras : lands_in -> displacement_orthogonal ->
  forall x z, A z -> vdist2 n x z = vdist2 n x (P x) + vdist2 n (P x) z.
Proof. intros HL HO x z Hz. apply pythagoras. apply HO; [exact Hz|apply HL]. Qed.

Theorem affine_nearest : lands_in -> displacement_orthogonal ->
  forall x z, A z -> vdist2 n x (P x) <= vdist2 n x z.
Proof. intros HL HO x z Hz. rewrite (affine_pythagoras HL HO x z Hz). apply le_add_nonneg_r, vdist2_nonneg. Qed.

Theorem affine_nearest_unique : lands_in -> displacement_orthogonal ->
  forall x z, A z -> vdist2 n x z <= vdist2 n x (P x) -> veq n z (P x).
Proof. intros HL HO x z Hz Hle. rewrite (affine_pythagoras HL HO x z Hz) in Hle.
  apply veq_sym, vdist2_zero. apply (k_antisym F); [|apply vdist2_nonneg].
  apply (proj2 (le_sub F _ _)).
  pose proof (proj1 (le_sub F _ _) Hle) as H.
  replace (vdist2 n x (P x) - (vdist2 n x (P x) + vdist2 n (P x) z)) with (0 - vdist2 n (P x) z) in H by ring. exact H. Qed.

Theorem affine_fixed_points : lands_in -> displacement_orthogonal -> forall x, A x -> veq n (P x) x.
Proof. intros HL HO x Hx. apply veq_sym. apply (affine_nearest_unique HL HO x x Hx).
  rewrite vdist2_refl. apply vdist2_nonneg. Qed.

Theorem affine_idempotent : lands_in -> displacement_orthogonal -> forall x, veq n (P (P x)) (P x).
Proof. intros HL HO x. apply affine_fixed_points; [exact HL|exact HO|apply HL]. Qed.
End Set_.
End AffineNearest.

Arguments vdist2 {F} n x y.

(* ------------------------------------------------------------------ matrices: the PSD certificate *)
Section ProjCert.
Context (F : OF).
Add Field Ffp3 : (k_field F).
Notation "0" := (c0 F). Notation "1" := (c1 F).
Infix "+" := (cadd F). Infix "*" := (cmul F). Infix "<=" := (kle F). Infix "-" := (csub F).
Notation "- x" := (copp F x).
Notation mat := (@mat F).
Notation inner n A B := (@Mat.inner F n n A B).

Definition dist2 (n : nat) (A B : mat) : F := inner n (msub A B) (msub A B).
Definition shift (eps : F) (M : mat) : mat := madd M (mscale eps mid).       (* M + eps I *)

Lemma inner_msub_r n A B D : inner n A (msub B D) = inner n A B - inner n A D.
Proof. rewrite inner_comm, inner_msub_l, (inner_comm n n B A), (inner_comm n n D A). reflexivity. Qed.
Lemma dist2_expand n A B : dist2 n A B = inner n A A - (inner n A B + inner n A B) + inner n B B.
Proof. unfold dist2. rewrite inner_msub_l, !inner_msub_r, (inner_comm n n B A). ring. Qed.
Lemma dist2_nonneg n A B : 0 <= dist2 n A B.
Proof. unfold dist2, Mat.inner. apply sumn_nonneg; intros i _. apply sumn_nonneg; intros j _. apply sqr_nonneg. Qed.
Lemma dist2_sym n A B : dist2 n A B = dist2 n B A.
Proof. rewrite !dist2_expand, (inner_comm n n B A). ring. Qed.
Lemma dist2_zero n A B : dist2 n A B = 0 -> meq n n A B.
Proof. intros E i j Hi Hj. unfold dist2, Mat.inner in E.
  pose proof (sumn_nonneg_zero F n _ (fun a _ => sumn_nonneg F n _ (fun b _ => sqr_nonneg F (msub A B a b))) E i Hi) as E1.
  cbv beta in E1.
  pose proof (sumn_sqr_zero F n (fun j => msub A B i j) E1 j Hj) as H. unfold msub in H.
  replace (A i j) with (A i j - B i j + B i j) by ring. rewrite H. ring. Qed.

Lemma inner_mid_l n Z : inner n mid Z = mtrace n Z.
Proof. unfold Mat.inner, mtrace, mid. apply sumn_ext; intros i Hi.
  rewrite (sumn_ext n _ (fun j => if Nat.eqb i j then Z i j else 0)).
  2:{ intros j _. destruct (Nat.eqb i j); ring. }
  exact (sumn_delta' n i (fun j => Z i j) Hi). Qed.
Lemma inner_shift_l n eps M Z : inner n (shift eps M) Z = inner n M Z + eps * mtrace n Z.
Proof. unfold shift. rewrite inner_madd_l, inner_mscale_l, inner_mid_l. reflexivity. Qed.
Lemma shift_sym n eps M : symmetric F n M -> symmetric F n (shift eps M).
Proof. intros H i j Hi Hj. unfold shift, madd, mscale, mid. rewrite (H i j Hi Hj), (Nat.eqb_sym i j). reflexivity. Qed.
Lemma msub_sym n A B : symmetric F n A -> symmetric F n B -> symmetric F n (msub A B).
Proof. intros HA HB i j Hi Hj. unfold msub. now rewrite (HA i j), (HB i j). Qed.

Lemma qf_ext n M M' x : meq n n M M' -> qf F n M x = qf F n M' x.
Proof. intros H. unfold qf. apply sumn_ext; intros i Hi. apply sumn_ext; intros j Hj. now rewrite H. Qed.
Lemma PSD_ext n M M' : meq n n M M' -> PSD F n M -> PSD F n M'.
Proof. intros H P x. rewrite <- (qf_ext n M M' x H). apply P. Qed.

(* the splitting identity behind the certificate *)
Lemma dist2_split n X Y Z :
  dist2 n Y Z = dist2 n Y X + dist2 n X Z
                + ((inner n (msub X Y) Z + inner n (msub X Y) Z) - (inner n X (msub X Y) + inner n X (msub X Y))).
Proof. rewrite !dist2_expand, inner_msub_l, inner_msub_r.
  rewrite (inner_comm n n Y X). ring. Qed.

(* minimal-hypothesis form *)
Lemma psd_proj_certificate_min n X Y eps delta :
  symmetric F n X -> symmetric F n Y ->
  PSD F n (shift eps (msub X Y)) -> inner n X (msub X Y) <= delta ->
  forall Z, symmetric F n Z -> PSD F n Z ->
    dist2 n Y X + dist2 n X Z - (delta + delta) - (eps + eps) * mtrace n Z <= dist2 n Y Z.
Proof. intros HX HY PR Hd Z HZ PZ.
  pose proof (psd_inner_nonneg F n _ Z (shift_sym n eps _ (msub_sym n X Y HX HY)) HZ PR PZ) as H1.
  rewrite inner_shift_l in H1.
  rewrite (dist2_split n X Y Z). apply (proj2 (le_sub F _ _)).
  match goal with |- _ <= ?e => replace e with
    ((inner n (msub X Y) Z + eps * mtrace n Z) + (inner n (msub X Y) Z + eps * mtrace n Z)
     + ((delta - inner n X (msub X Y)) + (delta - inner n X (msub X Y)))) by ring end.
  pose proof (proj1 (le_sub F _ _) Hd) as H2.
  apply add_nonneg; [apply add_nonneg; exact H1|apply add_nonneg; exact H2]. Qed.

(* the certificate as planned in DESIGN (the feasibility hypothesis PSD(X + eps I) and the lower bound on <X, X-Y>
   are what the harness checks in addition; the inequality itself does not need them) *)
Theorem psd_proj_certificate n X Y eps delta :
  symmetric F n X -> symmetric F n Y -> 0 <= eps ->
  PSD F n (shift eps X) -> PSD F n (shift eps (msub X Y)) ->
  inner n X (msub X Y) <= delta -> - delta <= inner n X (msub X Y) ->
  forall Z, symmetric F n Z -> PSD F n Z ->
    dist2 n Y X + dist2 n X Z - (delta + delta) - (eps + eps) * mtrace n Z <= dist2 n Y Z.
Proof. intros HX HY _ _ PR Hd _. now apply psd_proj_certificate_min. Qed.

Lemma shift0 n M : meq n n (shift 0 M) M.
Proof. intros i j _ _. unfold shift, madd, mscale. ring. Qed.

(* eps = delta = 0 : X is feasible, nearest, and the only nearest point *)
Theorem psd_proj_exact n X Y :
  symmetric F n X -> symmetric F n Y -> PSD F n X -> PSD F n (msub X Y) -> inner n X (msub X Y) = 0 ->
  forall Z, symmetric F n Z -> PSD F n Z ->
    dist2 n Y X + dist2 n X Z <= dist2 n Y Z /\ dist2 n Y X <= dist2 n Y Z /\
    (dist2 n Y Z <= dist2 n Y X -> meq n n Z X).
Proof. intros HX HY PX PR E Z HZ PZ.
  assert (B : dist2 n Y X + dist2 n X Z <= dist2 n Y Z).
  { pose proof (psd_proj_certificate_min n X Y 0 0 HX HY
      (PSD_ext n _ _ (meq_sym _ _ _ _ (shift0 n (msub X Y))) PR)) as H.
    rewrite E in H. specialize (H (k_refl F 0) Z HZ PZ).
    replace (dist2 n Y X + dist2 n X Z - (0 + 0) - (0 + 0) * mtrace n Z) with (dist2 n Y X + dist2 n X Z) in H by ring.
    exact H. }
  split; [exact B|]. split.
  - apply (k_trans F _ (dist2 n Y X + dist2 n X Z)); [apply le_add_nonneg_r, dist2_nonneg|exact B].
  - intros Hle. apply meq_sym, dist2_zero. apply (k_antisym F); [|apply dist2_nonneg].
    pose proof (k_trans F _ _ _ B Hle) as H. apply (proj1 (le_sub F _ _)) in H.
    apply (proj2 (le_sub F _ _)).
    replace (dist2 n Y X - (dist2 n Y X + dist2 n X Z)) with (0 - dist2 n X Z) in H by ring. exact H. Qed.

(* per-element / per-outcome projections: nearest for the product set (sum of squared distances) *)
Lemma product_nearest m (dyx dyz : nat -> F) :
  (forall x, (x < m)%nat -> dyx x <= dyz x) -> sumn m dyx <= sumn m dyz.
Proof. apply sumn_le. Qed.
End ProjCert.

Arguments dist2 {F} n A B. Arguments shift {F} eps M _ _.
