(* Commutative rings and ordered fields as records (Leibniz equality), with the
   executable instance Qc and the real-number instance R.  Everything generic is
   proved for an arbitrary [OF]; no axioms are declared here. *)
From Coq Require Import Field Ring Setoid Arith Lia Bool.

Record CR := {
  C :> Type; c0 : C; c1 : C; cadd : C -> C -> C; cmul : C -> C -> C; csub : C -> C -> C;
  copp : C -> C;
  c_ring : ring_theory c0 c1 cadd cmul csub copp (@eq C) }.

Record OF := {
  K :> CR; kdiv : K -> K -> K; kinv : K -> K; kle : K -> K -> Prop; kleb : K -> K -> bool;
  k_field : field_theory (c0 K) (c1 K) (cadd K) (cmul K) (csub K) (copp K) kdiv kinv (@eq K);
  k_leb : forall x y, kleb x y = true <-> kle x y;
  k_refl : forall x, kle x x; k_trans : forall x y z, kle x y -> kle y z -> kle x z;
  k_antisym : forall x y, kle x y -> kle y x -> x = y; k_total : forall x y, kle x y \/ kle y x;
  k_add : forall x y z, kle x y -> kle (cadd K x z) (cadd K y z);
  k_mul : forall x y, kle (c0 K) x -> kle (c0 K) y -> kle (c0 K) (cmul K x y) }.

Declare Scope F_scope.
Delimit Scope F_scope with F.

Section Ord.
Context (F : OF).
Add Field Ff : (k_field F).
Notation "0" := (c0 F). Notation "1" := (c1 F).
Infix "+" := (cadd F). Infix "*" := (cmul F). Infix "<=" := (kle F). Infix "-" := (csub F).
Infix "/" := (kdiv F). Notation "- x" := (copp F x).

Lemma le_sub x y : x <= y <-> 0 <= y - x.
Proof. split; intros H.
  - pose proof (k_add F _ _ (- x) H) as A. replace (x + - x) with 0 in A by ring.
    replace (y + - x) with (y - x) in A by ring. exact A.
  - pose proof (k_add F _ _ x H) as A. replace (0 + x) with x in A by ring.
    replace (y - x + x) with y in A by ring. exact A. Qed.
Lemma add_nonneg x y : 0 <= x -> 0 <= y -> 0 <= x + y.
Proof. intros Hx Hy. apply (k_trans F _ y); [exact Hy|].
  pose proof (k_add F _ _ y Hx) as A. replace (0 + y) with y in A by ring. exact A. Qed.
Lemma le_add_compat x y z w : x <= y -> z <= w -> x + z <= y + w.
Proof. intros H1 H2. apply (k_trans F _ (y + z)); [now apply k_add|].
  replace (y + z) with (z + y) by ring. replace (y + w) with (w + y) by ring. now apply k_add. Qed.
Lemma opp_nonneg x : x <= 0 -> 0 <= - x.
Proof. intros H. apply le_sub in H. replace (0 - x) with (- x) in H by ring. exact H. Qed.
Lemma opp_nonpos x : 0 <= x -> - x <= 0.
Proof. intros H. apply le_sub. replace (0 - - x) with x by ring. exact H. Qed.
Lemma sqr_nonneg x : 0 <= x * x.
Proof. destruct (k_total F 0 x) as [H|H]. { now apply k_mul. }
  replace (x*x) with ((- x) * (- x)) by ring. apply k_mul; now apply opp_nonneg. Qed.
Lemma one_nonneg : 0 <= 1. Proof. replace 1 with (1*1) by ring. apply sqr_nonneg. Qed.
Lemma one_neq_zero : 1 <> 0. Proof. exact (F_1_neq_0 (k_field F)). Qed.
Lemma not_le_0_m1 : ~ (0 <= - (1)).
Proof. intros H. apply one_neq_zero. apply (k_antisym F); [|apply one_nonneg].
  apply le_sub. replace (0 - 1) with (- (1)) by ring. exact H. Qed.
Lemma inv_nonneg a : a <> 0 -> 0 <= a -> 0 <= 1 / a.
Proof. intros Ha H. destruct (k_total F 0 (1/a)) as [G|G]; [exact G|].
  exfalso. apply not_le_0_m1. apply opp_nonneg in G.
  replace (- (1)) with (a * (- (1 / a))) by (field; exact Ha). now apply k_mul. Qed.
Lemma eqb_spec x y : (kleb F x y && kleb F y x = true) <-> x = y.
Proof. rewrite andb_true_iff, !k_leb. split. { intros [A B]. now apply (k_antisym F). }
  intros ->. split; apply k_refl. Qed.
Definition keqb (x y : F) : bool := kleb F x y && kleb F y x.
Lemma keqb_spec x y : keqb x y = true <-> x = y. Proof. apply eqb_spec. Qed.
Lemma mul_le_compat_nonneg a x y : 0 <= a -> x <= y -> a * x <= a * y.
Proof. intros Ha H. apply (proj2 (le_sub (a*x) (a*y))). replace (a*y - a*x) with (a * (y - x)) by ring.
  apply k_mul; [exact Ha|]. exact (proj1 (le_sub x y) H). Qed.
Lemma leb_false_lt x y : kleb F x y = false -> y <= x /\ x <> y.
Proof. intros E. split.
  - destruct (k_total F x y) as [H|H]; [apply k_leb in H; congruence|exact H].
  - intros ->. rewrite (proj2 (k_leb F y y) (k_refl F y)) in E. discriminate. Qed.
Lemma double_neq0 c : c <> 0 -> c + c <> 0.
Proof. intros Hc E. apply Hc. assert (Hm : c = - c) by (replace (- c) with (c - (c + c)) by ring; rewrite E; ring).
  destruct (k_total F 0 c) as [A|A].
  - apply (k_antisym F); [|exact A]. rewrite Hm. apply le_sub. replace (0 - - c) with c by ring. exact A.
  - apply (k_antisym F); [exact A|]. rewrite Hm. apply opp_nonneg. exact A. Qed.
Lemma sum_sqr_zero x y : x * x + y * y = 0 -> x = 0.
Proof. intros E. destruct (keqb x 0) eqn:Ex; [now apply keqb_spec|].
  assert (Hx : x <> 0). { intros ->. unfold keqb in Ex. rewrite (proj2 (k_leb F 0 0) (k_refl F 0)) in Ex. discriminate. }
  exfalso. assert (A : x * x <= 0). { rewrite <- E. apply le_sub. replace (x*x+y*y-x*x) with (y*y) by ring. apply sqr_nonneg. }
  assert (B : x * x = 0) by (apply (k_antisym F); [exact A|apply sqr_nonneg]).
  apply Hx. destruct (k_field F) as [_ _ _ Hinv]. 
  replace x with ((kinv F x * x) * x) by (rewrite Hinv by exact Hx; ring).
  replace (kinv F x * x * x) with (kinv F x * (x * x)) by ring. rewrite B. ring. Qed.
End Ord.
