(* Finite sums over an arbitrary commutative ring; recursion peels the LAST index. *)
From Coq Require Import Ring Setoid Arith Lia Bool.
From QV.Core Require Import OF.

Section Sums.
Context {R : CR}.
Add Ring Rr : (c_ring R).
Notation "0" := (c0 R). Notation "1" := (c1 R).
Infix "+" := (cadd R). Infix "*" := (cmul R). Infix "-" := (csub R). Notation "- x" := (copp R x).

Fixpoint sumn (n : nat) (f : nat -> R) : R := match n with O => 0 | S k => sumn k f + f k end.

Lemma sumn_ext n f g : (forall i, (i < n)%nat -> f i = g i) -> sumn n f = sumn n g.
Proof. induction n as [|n IH]; intros H; cbn; [reflexivity|].
  rewrite IH, H by (intros; auto with arith). reflexivity. Qed.
Lemma sumn_zero n : sumn n (fun _ => 0) = 0.
Proof. induction n as [|n IH]; cbn; [reflexivity|]. rewrite IH. ring. Qed.
Lemma sumn_zero' n f : (forall i, (i < n)%nat -> f i = 0) -> sumn n f = 0.
Proof. intros H. rewrite (sumn_ext n f (fun _ => 0) H). apply sumn_zero. Qed.
Lemma sumn_add n f g : sumn n (fun i => f i + g i) = sumn n f + sumn n g.
Proof. induction n as [|n IH]; cbn; [ring|]. rewrite IH. ring. Qed.
Lemma sumn_sub n f g : sumn n (fun i => f i - g i) = sumn n f - sumn n g.
Proof. induction n as [|n IH]; cbn; [ring|]. rewrite IH. ring. Qed.
Lemma sumn_opp n f : sumn n (fun i => - f i) = - sumn n f.
Proof. induction n as [|n IH]; cbn; [ring|]. rewrite IH. ring. Qed.
Lemma sumn_scale_l n c f : sumn n (fun i => c * f i) = c * sumn n f.
Proof. induction n as [|n IH]; cbn; [ring|]. rewrite IH. ring. Qed.
Lemma sumn_scale_r n c f : sumn n (fun i => f i * c) = sumn n f * c.
Proof. induction n as [|n IH]; cbn; [ring|]. rewrite IH. ring. Qed.
Lemma sumn_delta n i f : (i < n)%nat -> sumn n (fun j => if Nat.eqb j i then f j else 0) = f i.
Proof. induction n as [|n IH]; intros Hi; [lia|]. cbn [sumn].
  destruct (Nat.eqb_spec n i) as [->|Hne].
  - rewrite (sumn_ext i _ (fun _ => 0)).
    2:{ intros j Hj. destruct (Nat.eqb_spec j i); [lia|reflexivity]. }
    rewrite sumn_zero. ring.
  - rewrite IH by lia. ring. Qed.
Lemma sumn_delta' n i f : (i < n)%nat -> sumn n (fun j => if Nat.eqb i j then f j else 0) = f i.
Proof. intros Hi. rewrite <- (sumn_delta n i f Hi). apply sumn_ext; intros j _. now rewrite Nat.eqb_sym. Qed.
Lemma sumn_delta_out n i f : (n <= i)%nat -> sumn n (fun j => if Nat.eqb j i then f j else 0) = 0.
Proof. intros Hi. apply sumn_zero'. intros j Hj. destruct (Nat.eqb_spec j i); [lia|reflexivity]. Qed.
Lemma sumn_swap m n (f : nat -> nat -> R) :
  sumn m (fun i => sumn n (fun j => f i j)) = sumn n (fun j => sumn m (fun i => f i j)).
Proof. induction m as [|m IH]; cbn. { now rewrite sumn_zero. }
  rewrite IH, <- sumn_add. reflexivity. Qed.
Lemma sumn_app m n f : sumn (m + n) f = sumn m f + sumn n (fun j => f (m + j)%nat).
Proof. induction n as [|n IH]. { rewrite Nat.add_0_r. cbn. ring. }
  rewrite Nat.add_succ_r. cbn [sumn]. rewrite IH. ring. Qed.
Lemma sumn_flat m n f : sumn (m * n) f = sumn m (fun i => sumn n (fun j => f (i * n + j)%nat)).
Proof. induction m as [|m IH]; [reflexivity|]. cbn [sumn].
  replace (S m * n)%nat with (m * n + n)%nat by lia. rewrite sumn_app, IH. reflexivity. Qed.
Lemma sumn_S_first n f : sumn (S n) f = f O + sumn n (fun i => f (S i)).
Proof. induction n as [|n IH]. { cbn [sumn]. ring. }
  change (sumn (S (S n)) f) with (sumn (S n) f + f (S n)). rewrite IH. cbn [sumn]. ring. Qed.
Lemma sumn_mul n m f g : sumn n f * sumn m g = sumn n (fun i => sumn m (fun j => f i * g j)).
Proof. rewrite <- sumn_scale_r. apply sumn_ext; intros i _. now rewrite sumn_scale_l. Qed.
Lemma sumn_rev n f : sumn n f = sumn n (fun i => f (n - 1 - i)%nat).
Proof. induction n as [|n IH]; [reflexivity|].
  rewrite (sumn_S_first n (fun i => f (S n - 1 - i)%nat)). cbn [sumn]. rewrite IH.
  replace (S n - 1 - 0)%nat with n by lia.
  replace (sumn n (fun i => f (S n - 1 - S i)%nat)) with (sumn n (fun i => f (n - 1 - i)%nat)).
  2:{ apply sumn_ext; intros i Hi. f_equal. lia. } ring. Qed.
End Sums.
Arguments sumn {R} n f.
