(* The real-number instance of OF (stdlib Reals; brings the standard real-number axioms). *)
From Coq Require Import Reals Field Ring Bool Lra.
From QV.Core Require Import OF.
Local Open Scope R_scope.

Definition R_ring : ring_theory 0 1 Rplus Rmult Rminus Ropp (@eq R) := RTheory.
Definition R_CR : CR := Build_CR R 0 1 Rplus Rmult Rminus Ropp R_ring.
Definition Rleb (x y : R) : bool := if Rle_dec x y then true else false.
Lemma Rleb_spec x y : Rleb x y = true <-> x <= y.
Proof. unfold Rleb. destruct (Rle_dec x y); split; intros; try assumption; try reflexivity; try discriminate; contradiction. Qed.
Definition R_OF : OF.
Proof.
  refine (Build_OF R_CR Rdiv Rinv Rle Rleb Rfield Rleb_spec Rle_refl Rle_trans Rle_antisym _ _ _).
  - intros x y. destruct (Rle_or_lt x y); [now left|right; lra].
  - intros x y z H. cbn. lra.
  - intros x y Hx Hy. cbn in *. now apply Rmult_le_pos.
Defined.
