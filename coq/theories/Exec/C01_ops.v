(* Executable wrappers for the C01 verdict model (instantiated at Qc).
   Matrices that are used more than once are materialised ([freeze]); the PSD decision runs through the memoised
   [psd_fast] of Exec/Core_ops.v.  Proofs/C01_Exec.v proves that every op returns exactly the model's verdicts on the
   decoded request ( [op_state_spec], [op_povm_spec], [op_gate_spec], [op_gate_tp_spec], [op_mprocess_spec] ). *)
From Coq Require Import ZArith QArith Qcanon List Bool Arith Lia.
From QV.Core Require Import OF QcOF Sums Mat Cplx Psd.
From QV.Exec Require Import Base Core_ops.
From QV.Model Require Import QObj HermEmbed C01_Verdicts.
From QV.Proofs Require Import C01_Verdicts.
Import ListNotations.

Notation Fq := Qc_OF.
Notation Cq := (CF Qc_OF).
Definition cz : cplx Qc_OF := (0%Qc, 0%Qc).

(* ---- data layout helpers *)
(* basis: d*d matrices of size d x d, interleaved complex, row-major, concatenated *)
Definition basis_of_flat (d : nat) (l : list Qc) : nat -> cmat Fq :=
  let mats := map (chunks d d) (chunks (d * d) (d * d) (cplx_of_flat l)) in
  fun a i j => nth j (nth i (nth a mats []) []) cz.
Definition vecs_of_flat (n m : nat) (l : list Qc) : nat -> rvec Fq :=
  let rows := chunks n m l in fun x a => nth a (nth x rows []) 0%Qc.
Definition mats_of_flat (n m : nat) (l : list Qc) : nat -> rmat Fq :=
  let mats := map (chunks n n) (chunks (n * n) m l) in
  fun x a b => nth b (nth a (nth x mats []) []) 0%Qc.
Definition cfreeze (n : nat) (H : cmat Fq) : cmat Fq := freeze cz n n H.
Definition opt (none : Z) (a : Qc) : option Qc := if (none =? 0)%Z then Some a else None.
Definition zb (z : Z) : bool := negb (z =? 0)%Z.

(* evaluate [f b] but reuse the already computed value [fa = f a] when the arguments coincide *)
Definition reuse (a b : Qc) (fa : bool) (f : Qc -> bool) : bool := if Qc_eq_dec a b then fa else f b.
Lemma reuse_eq a b f : reuse a b (f a) f = f b.
Proof. unfold reuse. destruct (Qc_eq_dec a b) as [->|]; reflexivity. Qed.

(* ---- executed variants of the verdicts on an already materialised operator *)
Definition x_is_psd (n : nat) (H : cmat Fq) (atol : Qc) : bool :=
  if mutil_is_hermitian n H atol then psd_fast (n + n) (shiftI Fq atol (embed Fq n (lowerherm H))) else false.
Definition x_choi (d : nat) (B : nat -> cmat Fq) (HS : rmat Fq) : cmat Fq :=
  let Ts := map (fun a => rows_of_mat d d (choi_inner d B HS a)) (seq 0 (d * d)) in
  cfreeze (d * d) (choi_assoc d B (fun a => mat_of_rows cz (nth a Ts []))).
Definition x_gate_is_tp (flag : bool) d B (HS : rmat Fq) (atol : Qc) : bool := gate_is_tp flag d B HS atol.

(* ---- State.  zs = [d; eq_none; ineq_none; required]  qs = st :: aeq :: aineq :: rtol :: basis ++ v
        -> [tr_re; tr_im; eq; herm; ineq; physical; raises] *)
Definition op_state : opfun := fun zs qs =>
  match zs, qs with
  | [d; en; inn; rq], st :: aeq :: aineq :: rtol :: l =>
      let d := Z.to_nat d in let nb := (2 * (d * d) * (d * d))%nat in
      let B := basis_of_flat d (firstn nb l) in
      let v := vec_of_list 0%Qc (skipn nb l) in
      let H := cfreeze d (op_of_vec d B v) in
      let a1 := @resolve_atol Fq st (opt en aeq) in let a2 := @resolve_atol Fq st (opt inn aineq) in
      let tr := mtrace d H : Cq in
      let eq := @ciscl Fq tr (c1 Cq) 1%Qc a1 rtol in
      let ineq := x_is_psd d H a2 in
      let raises := if zb rq then negb (@ciscl Fq tr (c1 Cq) 1%Qc st rtol && reuse a2 st ineq (x_is_psd d H)) else false in
      Ok [re tr; im tr; qb eq; qb (mutil_is_hermitian d H a2); qb ineq; qb (eq && ineq); qb raises]
  | _, _ => Err (-1) end.

(* ---- Povm.  zs = [d; m; eq_none; ineq_none; required]  qs = st :: aeq :: aineq :: rtol :: basis ++ vecs
        -> [eq; ineq; physical; raises] ++ sum matrix (interleaved) *)
Definition x_povm_elems (d : nat) B (m : nat) (vs : nat -> rvec Fq) : nat -> cmat Fq :=
  let Es := map (fun x => rows_of_mat d d (op_of_vec d B (vs x))) (seq 0 m) in
  fun x => mat_of_rows cz (nth x Es []).
Definition x_povm_eq (d m : nat) (E : nat -> cmat Fq) (atol rtol : Qc) : bool * cmat Fq :=
  let Sm := cfreeze d (fun i j => sumn m (fun x => E x i j : Cq)) in
  (all2 d (fun i j => @ciscl Fq (Sm i j) (cdelta i j) (rdelta i j) atol rtol), Sm).
Definition op_povm : opfun := fun zs qs =>
  match zs, qs with
  | [d; m; en; inn; rq], st :: aeq :: aineq :: rtol :: l =>
      let d := Z.to_nat d in let m := Z.to_nat m in let nb := (2 * (d * d) * (d * d))%nat in
      let B := basis_of_flat d (firstn nb l) in
      let vs := vecs_of_flat (d * d) m (skipn nb l) in
      let E := x_povm_elems d B m vs in
      let a1 := @resolve_atol Fq st (opt en aeq) in let a2 := @resolve_atol Fq st (opt inn aineq) in
      let r := x_povm_eq d m E a1 rtol in let eq := fst r in let Sm := snd r in
      let ineq := allb m (fun x => x_is_psd d (E x) a2) in
      let raises := if zb rq then negb (fst (x_povm_eq d m E st rtol) && reuse a2 st ineq (fun a => allb m (fun x => x_is_psd d (E x) a))) else false in
      Ok ([qb eq; qb ineq; qb (eq && ineq); qb raises] ++ flat_of_cmat d d Sm)
  | _, _ => Err (-1) end.

(* ---- Gate.  zs = [d; flag; eq_none; ineq_none; required; want_choi]  qs = st :: aeq :: aineq :: basis ++ HS
        -> [tp_row; tp_trace; eq; herm; ineq; physical; raises] ++ (Choi matrix, interleaved, if want_choi) *)
Definition op_gate : opfun := fun zs qs =>
  match zs, qs with
  | [d; fl; en; inn; rq; wc], st :: aeq :: aineq :: l =>
      let d := Z.to_nat d in let nb := (2 * (d * d) * (d * d))%nat in
      let B := basis_of_flat d (firstn nb l) in
      let HS := rmat_of_flat (d * d) (d * d) (skipn nb l) in
      let a1 := @resolve_atol Fq st (opt en aeq) in let a2 := @resolve_atol Fq st (opt inn aineq) in
      let Ch := x_choi d B HS in
      let eq := x_gate_is_tp (zb fl) d B HS a1 in
      let ineq := x_is_psd (d * d) Ch a2 in
      let raises := if zb rq then negb (x_gate_is_tp (zb fl) d B HS st && reuse a2 st ineq (x_is_psd (d * d) Ch)) else false in
      Ok ([qb (gate_is_tp_row d HS a1); qb (gate_is_tp_trace d B HS a1); qb eq; qb (mutil_is_hermitian (d * d) Ch a2);
           qb ineq; qb (eq && ineq); qb raises]
          ++ (if zb wc then flat_of_cmat (d * d) (d * d) Ch else []))
  | _, _ => Err (-1) end.

(* ---- both branches of gate.is_tp only (no Choi matrix, no PSD decision).  zs = [d]  qs = a_row :: a_trace :: basis ++ HS
        -> [first-row branch at tolerance a_row; trace branch at tolerance a_trace] *)
Definition op_gate_tp : opfun := fun zs qs =>
  match zs, qs with
  | [d], a_row :: a_trace :: l =>
      let d := Z.to_nat d in let nb := (2 * (d * d) * (d * d))%nat in
      let B := basis_of_flat d (firstn nb l) in
      let HS := rmat_of_flat (d * d) (d * d) (skipn nb l) in
      Ok [qb (gate_is_tp_row d HS a_row); qb (gate_is_tp_trace d B HS a_trace)]
  | _, _ => Err (-1) end.

(* ---- MProcess.  zs = [d; m; flag; eq_none; ineq_none; required]  qs = st :: aeq :: aineq :: basis ++ hss
        -> [eq; ineq; physical; raises] *)
Definition op_mprocess : opfun := fun zs qs =>
  match zs, qs with
  | [d; m; fl; en; inn; rq], st :: aeq :: aineq :: l =>
      let d := Z.to_nat d in let m := Z.to_nat m in let nb := (2 * (d * d) * (d * d))%nat in
      let B := basis_of_flat d (firstn nb l) in
      let hss := mats_of_flat (d * d) m (skipn nb l) in
      let a1 := @resolve_atol Fq st (opt en aeq) in let a2 := @resolve_atol Fq st (opt inn aineq) in
      let Sh := freeze 0%Qc (d * d) (d * d) (mprocess_sum_hs m hss) in
      let Cs := map (fun x => rows_of_mat (d * d) (d * d) (x_choi d B (hss x))) (seq 0 m) in
      let Ch := fun x => mat_of_rows cz (nth x Cs []) in
      let eq := x_gate_is_tp (zb fl) d B Sh a1 in
      let ineq := allb m (fun x => x_is_psd (d * d) (Ch x) a2) in
      let raises := if zb rq then negb (x_gate_is_tp (zb fl) d B Sh st && reuse a2 st ineq (fun a => allb m (fun x => x_is_psd (d * d) (Ch x) a))) else false in
      Ok [qb eq; qb ineq; qb (eq && ineq); qb (negb (zb fl) || raises)]
  | _, _ => Err (-1) end.

(* ---- origin and zero objects.  zs = [type; d; m]  qs = [sd]  -> origin data ++ zero data
        type 0 State (d^2 + d^2), 1 Povm (m d^2 twice), 2 Gate (d^4 twice), 3 MProcess (m d^4 twice) *)
Definition op_origin : opfun := fun zs qs =>
  match zs, qs with
  | [ty; d; m], [sd] =>
      let d := Z.to_nat d in let m := Z.to_nat m in let n := (d * d)%nat in
      match ty with
      | 0%Z => Ok (list_of_vec n (@state_origin Fq sd) ++ list_of_vec n (@state_zero Fq))
      | 1%Z => Ok (concat (map (fun x => list_of_vec n (@povm_origin Fq sd m x)) (seq 0 m))
                   ++ concat (map (fun x => list_of_vec n (@povm_zero Fq x)) (seq 0 m)))
      | 2%Z => Ok (flat_of_rmat n n (@gate_origin Fq) ++ flat_of_rmat n n (@gate_zero Fq))
      | 3%Z => Ok (concat (map (fun x => flat_of_rmat n n (@mprocess_origin Fq m x)) (seq 0 m))
                   ++ concat (map (fun x => flat_of_rmat n n (@mprocess_zero Fq x)) (seq 0 m)))
      | _ => Err 2
      end
  | _, _ => Err (-1) end.

Definition C01_ops : optable :=
  [ ("c01.state"%string, op_state); ("c01.povm"%string, op_povm); ("c01.gate"%string, op_gate);
    ("c01.mprocess"%string, op_mprocess); ("c01.origin"%string, op_origin); ("c01.gate_tp"%string, op_gate_tp) ].
