(* Executable wrappers for the C08 model (tomography forward model), instantiated at Qc.

   Common request layout (per tomography type, see the four [op_*] below):
     zs = mode :: para :: d :: <type-specific configuration> ;  qs = sd :: eps :: <tester data> ++ var
   mode 0 : coefficients     -> Ok (num_variables :: rows :: width :: A (row-major) ++ b)
   mode 1 : forward model    -> Ok (rows :: (A var + b) ++ Born distribution of every schedule, concatenated)
   mode 2 : calc_prob_dists  -> Ok (number of rows k :: len_1 .. len_k :: entries of the rows, concatenated)
                                [counts = num_outcomes(j) of the tomography type; code after fix calc-prob-dists-mixed-outcome-counts]
   mode 3 : rank             -> Ok [rank; is_fullrank_matA (after fix fullrank-guard-column-rank); full column rank;
                                    is_fullrank_matA_minshape (the guard before that fix, for diagnostics only)]
   mode 4 : Fisher slicing   -> Ok (predicted distribution used by calc_fisher_matrix for schedule j),  j = last of zs
                                [code after fix calc-fisher-matrix-mixed-outcome-counts]
   Err 1 : a schedule refers to a tester that does not exist; Err 2 : rows of unequal width (np.vstack fails);
   Err 4 : IndexError in StandardQmpt._set_coeffs (b_qmpt shorter than a_qmpt); Err -1 : malformed request. *)
From Coq Require Import ZArith QArith Qcanon List Bool Arith Lia.
From QV.Core Require Import OF QcOF Sums Mat Cplx.
From QV.Exec Require Import Base.
From QV.Model Require Import QObj C08_Forward.
Import ListNotations.

Local Notation Fq := Qc_OF.
Local Notation lv := (lvec Fq).

(* ---- fast evaluation of row @ var (list against list), proved equal to the specification [dotl] *)
Fixpoint dot_ll (r v : list Qc) : Qc :=
  match r, v with a :: r', x :: v' => (a * x + dot_ll r' v')%Qc | _, _ => 0%Qc end.
Lemma dotl_cons (a : Qc) (r : lv) (v : rvec Fq) :
  dotl (F:=Fq) (a :: r) v = (a * v O + dotl (F:=Fq) r (fun i => v (S i)))%Qc.
Proof. unfold dotl. cbn [length]. rewrite (sumn_S_first (R:=Fq)). reflexivity. Qed.
Lemma dot_ll_eq (r v : list Qc) : (length r <= length v)%nat -> dot_ll r v = dotl (F:=Fq) r (vl (F:=Fq) v).
Proof. revert v. induction r as [|a r IH]; intros v H. { destruct v; reflexivity. }
  destruct v as [|x v]; [cbn in H; lia|]. rewrite dotl_cons. cbn [dot_ll]. rewrite IH by (cbn in H; lia). reflexivity. Qed.
Definition affine_fast (A : list lv) (b : list Qc) (v : list Qc) : list Qc := map2 (fun r c => (dot_ll r v + c)%Qc) A b.
Lemma map2_ext_in {A B D} (f g : A -> B -> D) (a : list A) (b : list B) :
  (forall x y, In x a -> f x y = g x y) -> map2 f a b = map2 g a b.
Proof. revert b. induction a as [|x a IH]; intros b H; [reflexivity|]. destruct b as [|y b]; [reflexivity|].
  cbn. rewrite H by (now left). f_equal. apply IH. intros; apply H; now right. Qed.
Lemma affine_fast_eq A b v : (forall r, In r A -> (length r <= length v)%nat) ->
  affine_fast A b v = affine (F:=Fq) A b (vl (F:=Fq) v).
Proof. intros H. unfold affine_fast, affine. apply map2_ext_in. intros r c Hr. now rewrite dot_ll_eq by (apply H; exact Hr). Qed.

(* ---- reading tester data *)
Fixpoint take_vecs (n k : nat) (qs : list Qc) : list lv * list Qc :=
  match k with
  | O => ([], qs)
  | S k' => let '(r, rest) := take_vecs n k' (skipn n qs) in (firstn n qs :: r, rest)
  end.
Fixpoint take_povms (n : nat) (ms : list nat) (qs : list Qc) : list (list lv) * list Qc :=
  match ms with
  | [] => ([], qs)
  | m :: t => let '(p, rest) := take_vecs n m qs in let '(ps, rest') := take_povms n t rest in (p :: ps, rest')
  end.
Fixpoint pairs (l : list nat) : list (nat * nat) :=
  match l with a :: b :: t => (a, b) :: pairs t | _ => [] end.
Definition zb (z : Z) : bool := negb (z =? 0)%Z.
Definition qn (n : nat) : Qc := qz (Z.of_nat n).
Definition all_lt (l : list nat) (k : nat) : bool := forallb (fun i => (i <? k)%nat) l.

(* ---- the mode dispatcher, shared by the four tomography types *)
Definition same_width (A : list lv) : bool :=
  match A with [] => true | r :: t => forallb (fun r' => (length r' =? length r)%nat) t end.
Definition finish (mode : Z) (j : nat) (eps : Qc) (nv : nat) (counts : list nat) (dct : dict Fq) (borns : list (list Qc)) (var : list Qc) : res :=
  let A := calc_matA (F:=Fq) dct in let b := calc_vecB (F:=Fq) dct in
  if negb (same_width A) then Err 2 else
  let w := row_width Fq A in
  match mode with
  | 0%Z => Ok (qn nv :: qn (length A) :: qn w :: concat A ++ b)
  | 1%Z => Ok (qn (length A) :: affine_fast A b var ++ concat borns)
  | 2%Z => let rows := calc_prob_dists Fq eps A b (vl (F:=Fq) var) counts in
           Ok (qn (length rows) :: map (fun r => qn (length r)) rows ++ concat rows)
  | 3%Z => Ok [qn (rank_elim Fq w A); qb (is_fullrank_matA Fq w A); qb (fullcolrank_dec Fq w A); qb (is_fullrank_matA_minshape Fq w A)]
  | 4%Z => Ok (fisher_prob_dist Fq A b (vl (F:=Fq) var) counts j)
  | _ => Err (-1)
  end.

(* ---- what the dispatcher returns, in terms of the MODEL definitions (the fast evaluators are proved equal, not just tested):
   mode 1 = (number of rows, A var + b of Model/C08_Forward.v, the given Born lists); modes 2 / 4 call the model definitions directly *)
Lemma finish_mode1_spec j eps nv counts (dct : dict Fq) borns var :
  same_width (calc_matA (F:=Fq) dct) = true -> (forall r, In r (calc_matA (F:=Fq) dct) -> (length r <= length var)%nat) ->
  finish 1 j eps nv counts dct borns var
  = Ok (qn (length (calc_matA (F:=Fq) dct)) :: affine (F:=Fq) (calc_matA (F:=Fq) dct) (calc_vecB (F:=Fq) dct) (vl (F:=Fq) var) ++ concat borns).
Proof. intros Hw Hl. unfold finish. rewrite Hw. cbn [negb]. now rewrite affine_fast_eq by exact Hl. Qed.
Lemma finish_mode2_spec j eps nv counts (dct : dict Fq) borns var : same_width (calc_matA (F:=Fq) dct) = true ->
  finish 2 j eps nv counts dct borns var
  = let rows := calc_prob_dists Fq eps (calc_matA (F:=Fq) dct) (calc_vecB (F:=Fq) dct) (vl (F:=Fq) var) counts in
    Ok (qn (length rows) :: map (fun r => qn (length r)) rows ++ concat rows).
Proof. intros Hw. unfold finish. rewrite Hw. reflexivity. Qed.
Lemma finish_mode4_spec j eps nv counts (dct : dict Fq) borns var : same_width (calc_matA (F:=Fq) dct) = true ->
  finish 4 j eps nv counts dct borns var = Ok (fisher_prob_dist Fq (calc_matA (F:=Fq) dct) (calc_vecB (F:=Fq) dct) (vl (F:=Fq) var) counts j).
Proof. intros Hw. unfold finish. rewrite Hw. reflexivity. Qed.

(* QST : zs = mode :: para :: d :: np :: m_1..m_np :: ns :: i_1..i_ns [:: j] *)
Definition op_qst : opfun := fun zs qs =>
  match zs, qs with
  | mode :: para :: d :: np :: rest, sd :: eps :: data =>
      let d' := nat_of d in let n := (d' * d')%nat in
      let ms := map nat_of (firstn (nat_of np) rest) in
      match skipn (nat_of np) rest with
      | ns :: rest2 =>
          let scheds := map nat_of (firstn (nat_of ns) rest2) in
          let j := nat_of (hd 0%Z (skipn (nat_of ns) rest2)) in
          let '(povms, var) := take_povms n ms data in
          if negb (all_lt scheds (length povms)) then Err 1 else
          let dct := qst_coeffs Fq (zb para) sd povms scheds in
          let borns := map (fun i => qst_born Fq d' (zb para) sd (nth i povms []) (vl (F:=Fq) var)) scheds in
          finish mode j eps (qst_num_variables (zb para) d') (qst_counts Fq povms scheds) dct borns var
      | [] => Err (-1)
      end
  | _, _ => Err (-1)
  end.

(* POVMT : zs = mode :: para :: d :: m :: nstates :: ns :: i_1..i_ns [:: j] *)
Definition op_povmt : opfun := fun zs qs =>
  match zs, qs with
  | mode :: para :: d :: m :: nst :: ns :: rest, sd :: eps :: data =>
      let d' := nat_of d in let n := (d' * d')%nat in let m' := nat_of m in
      let scheds := map nat_of (firstn (nat_of ns) rest) in
      let j := nat_of (hd 0%Z (skipn (nat_of ns) rest)) in
      let '(states, var) := take_vecs n (nat_of nst) data in
      if negb (all_lt scheds (length states)) then Err 1 else
      let dct := povmt_coeffs Fq (zb para) sd m' states scheds in
      let borns := map (fun i => povmt_born Fq d' (zb para) sd m' (nth i states []) (vl (F:=Fq) var)) scheds in
      finish mode j eps (povmt_num_variables (zb para) d' m') (povmt_counts m' scheds) dct borns var
  | _, _ => Err (-1)
  end.

(* frozen variant of the circuit semantics with a gate: HS @ vec is materialised once (same values, see [born_gate_fast_eq]) *)
Definition born_gate_fast (d : nat) (povm : list lv) (HS : rmat Fq) (s : lv) : list Qc :=
  born_povm_state Fq d povm (vfreeze 0%Qc (d * d) (mv (R:=Fq) (d * d) HS (vl (F:=Fq) s))).
Lemma born_gate_fast_eq d povm HS s : born_gate_fast d povm HS s = born_gate Fq d povm HS s.
Proof. unfold born_gate_fast, born_gate, born_povm_state. apply map_ext. intros pv. unfold born, dot.
  apply (sumn_ext (R:=Fq)). intros i Hi. now rewrite vfreeze_spec. Qed.

(* the Born lists the QPT / QMPT ops hand to [finish] are the model's circuit semantics *)
Lemma qpt_borns_fast_eq d para (states : list lv) (povms : list (list lv)) (scheds : list (nat * nat)) (var : list Qc) :
  map (fun ik => born_gate_fast d (nth (snd ik) povms []) (hs_of_var Fq para (d * d) (vl (F:=Fq) var)) (nth (fst ik) states [])) scheds
  = map (fun ik => qpt_born Fq d para (nth (fst ik) states []) (nth (snd ik) povms []) (vl (F:=Fq) var)) scheds.
Proof. apply map_ext. intros ik. apply born_gate_fast_eq. Qed.
Lemma qmpt_borns_fast_eq d para m (states : list lv) (povms : list (list lv)) (scheds : list (nat * nat)) (var : list Qc) :
  map (fun ik => flat_map (fun x => born_gate_fast d (nth (snd ik) povms []) (hss_of_var Fq para (d * d) m (vl (F:=Fq) var) x) (nth (fst ik) states [])) (seq O m)) scheds
  = map (fun ik => qmpt_born Fq d para m (nth (fst ik) states []) (nth (snd ik) povms []) (vl (F:=Fq) var)) scheds.
Proof. apply map_ext. intros ik. unfold qmpt_born. apply flat_map_ext. intros x. apply born_gate_fast_eq. Qed.

(* QPT : zs = mode :: para :: d :: nstates :: np :: m_1..m_np :: ns :: (i,k)_1..(i,k)_ns [:: j] *)
Definition op_qpt : opfun := fun zs qs =>
  match zs, qs with
  | mode :: para :: d :: nst :: np :: rest, sd :: eps :: data =>
      let d' := nat_of d in let n := (d' * d')%nat in
      let ms := map nat_of (firstn (nat_of np) rest) in
      match skipn (nat_of np) rest with
      | ns :: rest2 =>
          let scheds := pairs (map nat_of (firstn (2 * nat_of ns) rest2)) in
          let j := nat_of (hd 0%Z (skipn (2 * nat_of ns) rest2)) in
          let '(states, data2) := take_vecs n (nat_of nst) data in
          let '(povms, var) := take_povms n ms data2 in
          if negb (all_lt (map fst scheds) (length states) && all_lt (map snd scheds) (length povms)) then Err 1 else
          let dct := qpt_coeffs Fq (zb para) states povms scheds in
          let HS := hs_of_var Fq (zb para) n (vl (F:=Fq) var) in
          let borns := map (fun ik => born_gate_fast d' (nth (snd ik) povms []) HS (nth (fst ik) states [])) scheds in
          finish mode j eps (qpt_num_variables (zb para) d') (qpt_counts Fq povms scheds) dct borns var
      | [] => Err (-1)
      end
  | _, _ => Err (-1)
  end.

(* QMPT : zs = mode :: para :: d :: m :: nstates :: np :: m_1..m_np :: ns :: (i,k)_1..(i,k)_ns [:: j] *)
Definition op_qmpt : opfun := fun zs qs =>
  match zs, qs with
  | mode :: para :: d :: m :: nst :: np :: rest, sd :: eps :: data =>
      let d' := nat_of d in let n := (d' * d')%nat in let m' := nat_of m in
      let ms := map nat_of (firstn (nat_of np) rest) in
      match skipn (nat_of np) rest with
      | ns :: rest2 =>
          let scheds := pairs (map nat_of (firstn (2 * nat_of ns) rest2)) in
          let j := nat_of (hd 0%Z (skipn (2 * nat_of ns) rest2)) in
          let '(states, data2) := take_vecs n (nat_of nst) data in
          let '(povms, var) := take_povms n ms data2 in
          if negb (all_lt (map fst scheds) (length states) && all_lt (map snd scheds) (length povms)) then Err 1 else
          match qmpt_coeffs Fq (zb para) n m' states povms scheds with
          | None => Err 4
          | Some dct =>
              let borns := map (fun ik => flat_map (fun x =>
                             born_gate_fast d' (nth (snd ik) povms []) (hss_of_var Fq (zb para) n m' (vl (F:=Fq) var) x)
                                            (nth (fst ik) states [])) (seq O m')) scheds in
              finish mode j eps (qmpt_num_variables (zb para) d' m') (qmpt_counts Fq m' povms scheds) dct borns var
          end
      | [] => Err (-1)
      end
  | _, _ => Err (-1)
  end.

(* the two-step ensemble path of compose(povm, mprocess, state) for one (x, y):
   zs = [d]; qs = sd :: pv (n) ++ s (n) ++ HS (n*n row-major)  ->  [ensemble path value; direct <pv, HS s>] *)
Definition op_ensemble : opfun := fun zs qs =>
  match zs, qs with
  | [d], sd :: data =>
      let d' := nat_of d in let n := (d' * d')%nat in
      let pv := firstn n data in let s := firstn n (skipn n data) in
      let HS := mat_of_flat 0%Qc n n (skipn (n + n) data) in
      Ok [ensemble_path Fq d' sd pv HS s; born (F:=Fq) d' (vl (F:=Fq) pv) (mv (R:=Fq) n HS (vl (F:=Fq) s))]
  | _, _ => Err (-1)
  end.

(* exact rank of an arbitrary matrix: zs = [rows; cols]; qs = entries row-major -> [rank; is_fullrank; full column rank; old guard] *)
Definition op_rank : opfun := fun zs qs =>
  match zs with
  | [r; c] => let A := fst (take_vecs (nat_of c) (nat_of r) qs) in
      Ok [qn (rank_elim Fq (nat_of c) A); qb (is_fullrank_matA Fq (nat_of c) A); qb (fullcolrank_dec Fq (nat_of c) A);
          qb (is_fullrank_matA_minshape Fq (nat_of c) A)]
  | _ => Err (-1)
  end.

Definition C08_ops : optable :=
  [ ("c08.qst"%string, op_qst); ("c08.povmt"%string, op_povmt); ("c08.qpt"%string, op_qpt);
    ("c08.qmpt"%string, op_qmpt); ("c08.ensemble"%string, op_ensemble); ("c08.rank"%string, op_rank) ].
