(* Uniform executable interface around the models: every model function that the
   correspondence checks run is wrapped as  list Z -> list Qc -> res  and registered
   under a name.  The OCaml driver (extracted) and [vm_compute] both go through [run_op]. *)
From Coq Require Import ZArith QArith Qcanon List Bool Arith.
From Coq Require String.
Export String.StringSyntax.
Delimit Scope string_scope with string.
Notation string := String.string.
From QV.Core Require Import OF QcOF Cplx.
Import ListNotations.

Inductive res := Ok (l : list Qc) | Err (code : Z).
Definition opfun := list Z -> list Qc -> res.
Definition optable := list (string * opfun).

Definition rat_make (n : Z) (d : positive) : Qc := Q2Qc (n # d).
Definition rat_num (q : Qc) : Z := Qnum (this q).
Definition rat_den (q : Qc) : positive := Qden (this q).
Definition qz (z : Z) : Qc := Q2Qc (inject_Z z).
Definition qb (b : bool) : Qc := if b then 1%Qc else 0%Qc.

Fixpoint lookup (t : optable) (name : string) : option opfun :=
  match t with
  | [] => None
  | (n, f) :: t' => if String.eqb n name then Some f else lookup t' name
  end.
Definition run_table (t : optable) (name : string) (zs : list Z) (qs : list Qc) : res :=
  match lookup t name with Some f => f zs qs | None => Err (-999) end.

(* list <-> function conversions (executable; rows are materialised so repeated access is cheap) *)
Section Conv.
Context {A : Type} (d : A).
Definition vec_of_list (l : list A) : nat -> A := fun i => nth i l d.
Definition list_of_vec (n : nat) (v : nat -> A) : list A := map v (seq 0 n).
Definition rows_of_mat (m n : nat) (M : nat -> nat -> A) : list (list A) :=
  map (fun i => list_of_vec n (M i)) (seq 0 m).
Definition mat_of_rows (r : list (list A)) : nat -> nat -> A := fun i j => nth j (nth i r []) d.
Definition freeze (m n : nat) (M : nat -> nat -> A) : nat -> nat -> A := mat_of_rows (rows_of_mat m n M).
Definition vfreeze (n : nat) (v : nat -> A) : nat -> A := vec_of_list (list_of_vec n v).
(* flat row-major list <-> matrix *)
Fixpoint chunks (n : nat) (k : nat) (l : list A) : list (list A) :=
  match k with O => [] | S k' => firstn n l :: chunks n k' (skipn n l) end.
Definition mat_of_flat (m n : nat) (l : list A) : nat -> nat -> A := mat_of_rows (chunks n m l).
Definition flat_of_mat (m n : nat) (M : nat -> nat -> A) : list A := concat (rows_of_mat m n M).

Lemma nth_map_seq {B : Type} (f : nat -> B) (db : B) n : forall s i, (i < n)%nat -> nth i (map f (seq s n)) db = f (s + i)%nat.
Proof. induction n as [|n IH]; intros s i H; [inversion H|]. destruct i as [|i]; cbn.
  - now rewrite Nat.add_0_r.
  - rewrite IH by (now apply Nat.succ_lt_mono). f_equal. now rewrite Nat.add_succ_r. Qed.
Lemma list_of_vec_nth n v i : (i < n)%nat -> nth i (list_of_vec n v) d = v i.
Proof. intros H. unfold list_of_vec. now rewrite nth_map_seq. Qed.
Lemma vfreeze_spec n v i : (i < n)%nat -> vfreeze n v i = v i.
Proof. apply list_of_vec_nth. Qed.
Lemma freeze_spec m n M i j : (i < m)%nat -> (j < n)%nat -> freeze m n M i j = M i j.
Proof. intros Hi Hj. unfold freeze, mat_of_rows, rows_of_mat.
  rewrite nth_map_seq by exact Hi. now apply list_of_vec_nth. Qed.
End Conv.

(* complex lists are interleaved (re, im) *)
Fixpoint cplx_of_flat (l : list Qc) : list (cplx Qc_OF) :=
  match l with a :: b :: t => (a, b) :: cplx_of_flat t | _ => [] end.
Fixpoint flat_of_cplx (l : list (cplx Qc_OF)) : list Qc :=
  match l with [] => [] | (a, b) :: t => a :: b :: flat_of_cplx t end.

Definition nat_of (z : Z) : nat := Z.to_nat z.

(* used by the per-run cross-check of the extracted driver against vm_compute *)
Fixpoint qlist_eqb (a b : list Qc) : bool :=
  match a, b with
  | [], [] => true
  | x :: s, y :: t => Qeq_bool (this x) (this y) && qlist_eqb s t
  | _, _ => false
  end.
Definition res_eqb (a b : res) : bool :=
  match a, b with
  | Ok l, Ok l' => qlist_eqb l l'
  | Err c, Err c' => Z.eqb c c'
  | _, _ => false
  end.
