(* Executable wrappers for the C03 models (variables <-> objects), instantiated at Qc.
   Type codes: 0 state, 1 gate, 2 povm, 3 mprocess.  Objects travel as their stacked vectors
   (row-major, exactly what to_stacked_vector returns) together with (d, m); the wrappers rebuild the
   structured object with [chunk].  Error codes: 1 = ValueError-like (reshape / constructor),
   2 = IndexError in calc_gradient, 3 = IndexError in SetQOperations, 4 = UnboundLocalError,
   5 = error in set_qoperations_from_var_total. *)
From Coq Require Import ZArith QArith Qcanon List Bool Arith.
From QV.Exec Require Import Base.
From QV.Core Require Import OF QcOF.
From QV.Model Require Import C03_Index C03_VarObj C03_SetQOps.
Import ListNotations.

Notation Q := Qc_OF.
Definition nn (d : Z) : nat := (Z.to_nat d * Z.to_nat d)%nat.
Definition fl (z : Z) : bool := negb (z =? 0)%Z.

(* ---- index maps *)
Definition zrange (n : Z) : list Z := map Z.of_nat (seq 0 (Z.to_nat n)).
Definition numvar (ty d m : Z) (flag : bool) : Z :=
  if (ty =? 0)%Z then nv_state d flag else if (ty =? 1)%Z then nv_gate d flag
  else if (ty =? 2)%Z then nv_povm d m flag else nv_mproc d m flag.
Definition idx_fwd (ty d m : Z) (flag : bool) (i : Z) : list Z :=
  if (ty =? 0)%Z then [state_index_of_var flag i]
  else if (ty =? 1)%Z then let '(r, c) := gate_index_of_var d flag i in [r; c]
  else if (ty =? 2)%Z then let '(x, a) := povm_index_of_var (d * d) i in [x; a]
  else let '(x, r, c) := mproc_index_of_var d m flag i in [x; r; c].
Definition idx_bwd (ty d m : Z) (flag : bool) (p : list Z) : Z :=
  if (ty =? 0)%Z then var_of_state_index flag (nth 0 p 0%Z)
  else if (ty =? 1)%Z then var_of_gate_index d flag (nth 0 p 0%Z, nth 1 p 0%Z)
  else if (ty =? 2)%Z then var_of_povm_index (d * d) (nth 0 p 0%Z, nth 1 p 0%Z)
  else var_of_mproc_index d m flag (nth 0 p 0%Z, nth 1 p 0%Z, nth 2 p 0%Z).
Definition idx_flat (ty d : Z) (p : list Z) : Z :=
  if (ty =? 0)%Z then flat_state (nth 0 p 0%Z)
  else if (ty =? 1)%Z then flat_gate d (nth 0 p 0%Z, nth 1 p 0%Z)
  else if (ty =? 2)%Z then flat_povm d (nth 0 p 0%Z, nth 1 p 0%Z)
  else flat_mproc d (nth 0 p 0%Z, nth 1 p 0%Z, nth 2 p 0%Z).
(* all entries of an object, row-major *)
Definition entries (ty d m : Z) : list (list Z) :=
  let n := (d * d)%Z in
  if (ty =? 0)%Z then map (fun k => [k]) (zrange n)
  else if (ty =? 1)%Z then flat_map (fun r => map (fun c => [r; c]) (zrange n)) (zrange n)
  else if (ty =? 2)%Z then flat_map (fun x => map (fun a => [x; a]) (zrange n)) (zrange m)
  else flat_map (fun x => flat_map (fun r => map (fun c => [x; r; c]) (zrange n)) (zrange n)) (zrange m).

(* zs = [ty; d; m; flag] -> nv :: for every i < nv: index tuple ++ [flat position; var index of that tuple] *)
Definition op_idx_table : opfun := fun zs _ =>
  match zs with
  | [ty; d; m; f] =>
      let nv := numvar ty d m (fl f) in
      Ok (map qz (nv :: flat_map (fun i => let p := idx_fwd ty d m (fl f) i in
                                           p ++ [idx_flat ty d p; idx_bwd ty d m (fl f) p]) (zrange nv)))
  | _ => Err (-1) end.
(* zs = [ty; d; m; flag] -> var index computed for EVERY object entry (row-major), implied ones included *)
Definition op_inv_table : opfun := fun zs _ =>
  match zs with
  | [ty; d; m; f] => Ok (map (fun p => qz (idx_bwd ty d m (fl f) p)) (entries ty d m))
  | _ => Err (-1) end.
(* zs = [ty; d; m; flag; i] -> index tuple *)
Definition op_idx : opfun := fun zs _ =>
  match zs with
  | [ty; d; m; f; i] => Ok (map qz (idx_fwd ty d m (fl f) i))
  | _ => Err (-1) end.
Definition op_numvar : opfun := fun zs _ =>
  match zs with
  | [ty; d; m; f] => Ok [qz (numvar ty d m (fl f))]
  | _ => Err (-1) end.

(* ---- objects *)
Definition obj_of_stacked (ty d m : Z) (flag : bool) (st : list Qc) : qop Q :=
  let n := nn d in let m' := Z.to_nat m in let d' := Z.to_nat d in
  if (ty =? 0)%Z then QState Q d' flag st
  else if (ty =? 1)%Z then QGate Q d' flag (chunk n n st)
  else if (ty =? 2)%Z then QPovm Q d' flag (chunk n m' st)
  else QMproc Q d' flag (map (chunk n n) (chunk (n * n) m' st)).
Definition out_opt (code : Z) (r : option (list Qc)) : res := match r with Some l => Ok l | None => Err code end.

(* zs = [ty; d; m; flag], qs = stacked vector of the object -> to_var *)
Definition op_to_var : opfun := fun zs qs =>
  match zs with
  | [ty; d; m; f] => Ok (qop_to_var Q (obj_of_stacked ty d m (fl f) qs))
  | _ => Err (-1) end.
(* zs = [ty; d; m; flag], qs = sd :: var -> stacked vector of generate_from_var(var)  (the template, rebuilt from no data, has m outcomes: [chunk n k l] always has k rows) *)
Definition op_from_var : opfun := fun zs qs =>
  match zs, qs with
  | [ty; d; m; f], sd :: var =>
      let tmpl := obj_of_stacked ty d m (fl f) [] in
      out_opt 1 (option_map (qop_stacked Q) (qop_from_var Q (fun _ => sd) tmpl var))
  | _, _ => Err (-1) end.
(* zs = [ty; d; flag], qs = sd :: var -> <Type>.convert_var_to_stacked_vector *)
Definition op_var_to_stacked : opfun := fun zs qs =>
  match zs, qs with
  | [ty; d; f], sd :: var =>
      let d' := Z.to_nat d in
      if (ty =? 0)%Z then Ok (state_var_to_stacked Q sd (fl f) var)
      else if (ty =? 1)%Z then Ok (gate_var_to_stacked Q d' (fl f) var)
      else if (ty =? 2)%Z then out_opt 1 (povm_var_to_stacked Q d' sd (fl f) var)
      else Ok (mp_var_to_stacked Q d' (fl f) var)
  | _, _ => Err (-1) end.
(* zs = [ty; d; flag], qs = sd :: stacked -> <Type>.convert_stacked_vector_to_var *)
Definition op_stacked_to_var : opfun := fun zs qs =>
  match zs, qs with
  | [ty; d; f], sd :: st =>
      let d' := Z.to_nat d in
      if (ty =? 0)%Z then Ok (state_stacked_to_var Q (fl f) st)
      else if (ty =? 1)%Z then Ok (gate_stacked_to_var Q d' (fl f) st)
      else if (ty =? 2)%Z then out_opt 1 (povm_stacked_to_var Q d' sd (fl f) st)
      else Ok (mp_stacked_to_var Q d' (fl f) st)
  | _, _ => Err (-1) end.
(* zs = [ty; d; m; flag; i] -> stacked vector of calc_gradient(i) *)
Definition op_gradient : opfun := fun zs _ =>
  match zs with
  | [ty; d; m; f; i] =>
      let d' := Z.to_nat d in let m' := Z.to_nat m in
      out_opt 2 (if (ty =? 0)%Z then state_gradient Q d' (fl f) i
                 else if (ty =? 1)%Z then gate_gradient Q d' (fl f) i
                 else if (ty =? 2)%Z then povm_gradient Q d' m' (fl f) i
                 else mp_gradient Q d' m' (fl f) i)
  | _ => Err (-1) end.

(* ---- SetQOperations: segment arithmetic.  A size family is four length-prefixed blocks. *)
Definition block (l : list Z) : list Z * list Z :=
  match l with n :: t => (firstn (Z.to_nat n) t, skipn (Z.to_nat n) t) | [] => ([], []) end.
Definition read_sizes (l : list Z) : sizes :=
  let '(a, r1) := block l in let '(b, r2) := block r1 in let '(c, r3) := block r2 in let '(e, _) := block r3 in
  fun k => match k with KState => a | KGate => b | KPovm => c | KMproc => e end.
Definition kind_of (z : Z) : kind :=
  if (z =? 0)%Z then KState else if (z =? 1)%Z then KGate else if (z =? 2)%Z then KPovm else KMproc.
Definition code_of (k : kind) : Z := match k with KState => 0 | KGate => 1 | KPovm => 2 | KMproc => 3 end.
(* zs = k :: i :: j :: blocks *)
Definition op_total_from_local : opfun := fun zs _ =>
  match zs with
  | k :: i :: j :: rest =>
      match total_from_local (read_sizes rest) (kind_of k) i j with Some t => Ok [qz t] | None => Err 3 end
  | _ => Err (-1) end.
(* zs = t :: blocks *)
Definition op_local_from_total : opfun := fun zs _ =>
  match zs with
  | t :: rest =>
      match local_from_total (read_sizes rest) t with
      | LOk k i j => Ok [qz (code_of k); qz i; qz j]
      | LIndexError => Err 3
      | LUnbound => Err 4
      end
  | _ => Err (-1) end.

(* set_qoperations_from_var_total.  zs = four length-prefixed blocks of operation descriptors, every
   descriptor three integers (d, m, flag); qs = sd2 :: sd3 :: sd4 :: sd6 :: var_total  where sdN is the value of
   np.sqrt(N) (dimensions other than 2,3,4,6 get sd6; the harness only uses those four).
   Result: stacked vectors of all regenerated operations, in _all_qoperations order. *)
Fixpoint triples (l : list Z) : list (Z * Z * Z) :=
  match l with d :: m :: f :: t => (d, m, f) :: triples t | _ => [] end.
Definition zero_obj (ty : Z) (t : Z * Z * Z) : qop Q :=
  let '(d, m, f) := t in
  let n := nn d in let size := if (ty =? 0)%Z then n else if (ty =? 1)%Z then (n * n)%nat
                               else if (ty =? 2)%Z then (Z.to_nat m * n)%nat else (Z.to_nat m * (n * n))%nat in
  obj_of_stacked ty d m (fl f) (repeat 0%Qc size).
Definition read_set (l : list Z) : setq Q :=
  let '(a, r1) := block l in let '(b, r2) := block r1 in let '(c, r3) := block r2 in let '(e, _) := block r3 in
  Build_setq Q (map (zero_obj 0) (triples a)) (map (zero_obj 1) (triples b))
               (map (zero_obj 2) (triples c)) (map (zero_obj 3) (triples e)).
Definition op_set_from_var_total : opfun := fun zs qs =>
  match qs with
  | s2 :: s3 :: s4 :: s6 :: v =>
      let sdf := fun d : nat => if Nat.eqb d 2 then s2 else if Nat.eqb d 3 then s3 else if Nat.eqb d 4 then s4 else s6 in
      match set_from_var_total Q sdf (read_set zs) v with
      | Some s' => Ok (concat (map (qop_stacked Q) (all_qops Q s')))
      | None => Err 5
      end
  | _ => Err (-1) end.
(* zs = blocks of descriptors -> [size_total; first_index gate; first_index povm; first_index mprocess] of the zero set *)
Definition op_set_sizes : opfun := fun zs _ =>
  let s := sizes_of Q (read_set zs) in
  Ok (map qz [size_total s; first_index s KGate; first_index s KPovm; first_index s KMproc]).

Definition C03_ops : optable :=
  [ ("c03.idx_table"%string, op_idx_table);
    ("c03.inv_table"%string, op_inv_table);
    ("c03.idx"%string, op_idx);
    ("c03.numvar"%string, op_numvar);
    ("c03.to_var"%string, op_to_var);
    ("c03.from_var"%string, op_from_var);
    ("c03.var_to_stacked"%string, op_var_to_stacked);
    ("c03.stacked_to_var"%string, op_stacked_to_var);
    ("c03.gradient"%string, op_gradient);
    ("c03.total_from_local"%string, op_total_from_local);
    ("c03.local_from_total"%string, op_local_from_total);
    ("c03.set_from_var_total"%string, op_set_from_var_total);
    ("c03.set_sizes"%string, op_set_sizes) ].
