(* Executable wrappers for shared decision procedures. *)
From Coq Require Import ZArith QArith Qcanon List Bool.
From QV.Core Require Import OF QcOF Cplx Psd.
From QV.Exec Require Import Base.
From QV.Model Require Import QObj HermEmbed.
Import ListNotations.

Definition cmat_of_flat (m n : nat) (l : list Qc) : cmat Qc_OF :=
  mat_of_flat (0%Qc, 0%Qc) m n (cplx_of_flat l).
Definition rmat_of_flat (m n : nat) (l : list Qc) : rmat Qc_OF := mat_of_flat 0%Qc m n l.
Definition flat_of_cmat (m n : nat) (A : cmat Qc_OF) : list Qc := flat_of_cplx (flat_of_mat m n A).
Definition flat_of_rmat (m n : nat) (A : rmat Qc_OF) : list Qc := flat_of_mat m n A.

(* memoised execution of the PSD decision, proved equal to the specified one *)
Definition psd_fast (n : nat) (M : rmat Qc_OF) : bool :=
  psd_dec_fast Qc_OF (fun k A => freeze 0%Qc k k A) n (freeze 0%Qc n n M).
Lemma psd_fast_eq n M : psd_fast n M = psd_dec Qc_OF n M.
Proof. unfold psd_fast. rewrite psd_dec_fast_eq by (intros; now apply freeze_spec).
  apply psd_dec_ext. intros i j Hi Hj. now apply freeze_spec. Qed.

(* zs = [n]; qs = t :: n*n real entries (row-major) : is  M + t I  PSD ?  (M must be symmetric: checked, Err 1) *)
Definition op_psd_real : opfun := fun zs qs =>
  match zs, qs with
  | [n], t :: l => let n' := Z.to_nat n in let M := rmat_of_flat n' n' l in
      if allb n' (fun i => allb n' (fun j => keqb Qc_OF (M i j) (M j i)))
      then Ok [qb (psd_fast n' (shiftI Qc_OF t M))] else Err 1
  | _, _ => Err (-1) end.
(* zs = [n]; qs = t :: 2*n*n interleaved complex entries : is  H + t I  PSD ?  (H must be exactly Hermitian: Err 1) *)
Definition op_psd_herm : opfun := fun zs qs =>
  match zs, qs with
  | [n], t :: l => let n' := Z.to_nat n in let H := cmat_of_flat n' n' l in
      if herm_dec Qc_OF n' H then Ok [qb (psd_fast (n' + n') (shiftI Qc_OF t (embed Qc_OF n' H)))] else Err 1
  | _, _ => Err (-1) end.

Definition Core_ops : optable :=
  [ ("core.psd_real"%string, op_psd_real); ("core.psd_herm"%string, op_psd_herm) ].
