(* Executable wrappers for the C17 catalogue tables and checkers. *)
From Coq Require Import ZArith QArith Qcanon List Bool Arith Lia.
From Coq Require String Ascii.
From QV.Core Require Import OF QcOF Sums Mat Cplx C17_Z8.
From QV.Exec Require Import Base Core_ops.
From QV.Model Require Import QObj HermEmbed C17_Tables C17_Catalogue C17_Permute C17_Names.
Import ListNotations.

(* ---------- name encodings (lists of integers) ---------- *)
Definition nats (l : list Z) : list nat := map Z.to_nat l.
Definition decode_s (l : list Z) : sname :=
  match l with
  | 0%Z :: ks => SQ (nats ks) | 1%Z :: k :: _ => SBell (Z.to_nat k) | 2%Z :: _ => SGhz | 3%Z :: _ => SWerner
  | 4%Z :: ks => ST (nats ks) | 5%Z :: _ => ST012 | _ => ST001122
  end.
Definition decode_g (l : list Z) : gname :=
  match l with
  | 0%Z :: d :: _ => GId (Z.to_nat d) | 1%Z :: k :: _ => G1 (Z.to_nat k)
  | 2%Z :: k :: sw :: _ => G2 (Z.to_nat k) (negb (sw =? 0)%Z)
  | 3%Z :: k :: ids => G3 (Z.to_nat k) (nats ids) | 4%Z :: k :: _ => GT1 (Z.to_nat k)
  | 5%Z :: b0 :: b1 :: k :: _ => GT2 (Z.to_nat b0) (Z.to_nat b1) (Z.to_nat k)
  | _ => GId 1
  end.
Definition zn (n : nat) : Z := Z.of_nat n.
Definition encode_s (s : sname) : list Z :=
  match s with
  | SQ ks => 0%Z :: map zn ks | SBell k => [1%Z; zn k] | SGhz => [2%Z] | SWerner => [3%Z]
  | ST ks => 4%Z :: map zn ks | ST012 => [5%Z] | ST001122 => [6%Z]
  end.
Definition encode_g (g : gname) : list Z :=
  match g with
  | GId d => [0%Z; zn d] | G1 k => [1%Z; zn k] | G2 k sw => [2%Z; zn k; if sw then 1%Z else 0%Z]
  | G3 k ids => 3%Z :: zn k :: map zn ids | GT1 k => [4%Z; zn k]
  | GT2 b0 b1 k => [5%Z; zn b0; zn b1; zn k]
  end.
Definition withlen (l : list Z) : list Z := zn (length l) :: l.

Definition z8q (x : z8) : list Qc := [qz (z8a x); qz (z8b x); qz (z8c x); qz (z8d x)].
Definition zmat_flat (m n : nat) (A : zmat) : list Qc := flat_map z8q (flat_of_mat m n A).
Definition zvec_flat (n : nat) (v : zvec) : list Qc := flat_map z8q (list_of_vec n v).

(* zs = state code : Ok (dim :: n :: 4 integers per entry) *)
Definition op_state : opfun := fun zs _ =>
  let s := state_tbl (decode_s zs) in Ok (qz (zn (ts_dim s)) :: qz (ts_n s) :: zvec_flat (ts_dim s) (ts_v s)).
(* zs = gate code : Ok (dim :: n :: 4 integers per entry, row-major) *)
Definition op_gate : opfun := fun zs _ =>
  let g := gate_tbl (decode_g zs) in Ok (qz (zn (tg_dim g)) :: qz (tg_n g) :: zmat_flat (tg_dim g) (tg_dim g) (tg_m g)).
(* all action triples, each as  len g.. len a.. len b.. ; followed by nothing *)
Definition op_triples : opfun := fun _ _ =>
  Ok (map qz (flat_map (fun t => let '(g, a, b) := t in
        withlen (encode_g g) ++ withlen (encode_s a) ++ withlen (encode_s b)) triples_all)).
(* zs = triple index : Ok [1] iff that triple holds in the table algebra (re-evaluated, used by the extraction cross-check) *)
Definition op_triple_holds : opfun := fun zs _ =>
  match zs with
  | [k] => match nth_error triples_all (Z.to_nat k) with Some t => Ok [qb (triple_holdsb t)] | None => Err 1 end
  | _ => Err (-1) end.

(* ---------- named bases ---------- *)
(* zs = [kind; n; dim]; qs = s2 :: all entries of the implementation's basis (interleaved re, im; element by element,
   row-major).  Ok [d; count; number of entries read; sign disagreements; max residual |f^2 num - e^2 den|]. *)
Definition basis_step (s2 : Qc) (d : nat) (tb : list telem) (acc : nat * nat * Qc) (z : cplx Qc_OF) : nat * nat * Qc :=
  let '(k, bad, mx) := acc in
  let a := (k / (d * d))%nat in let i := ((k mod (d * d)) / d)%nat in let j := (k mod d)%nat in
  let e := nth a tb (mkE zI 1 1) in
  let ev := ev8 (F := Qc_OF) s2 (te_m e i j) in
  let num := qz (te_num e) in let den := qz (te_den e) in
  let r1 := kabs (F := Qc_OF) (sq_res (F := Qc_OF) (fst z) (fst ev) num den) in
  let r2 := kabs (F := Qc_OF) (sq_res (F := Qc_OF) (snd z) (snd ev) num den) in
  let b := ((if sign_bad (F := Qc_OF) (fst z) (fst ev) then 1 else 0) + (if sign_bad (F := Qc_OF) (snd z) (snd ev) then 1 else 0))%nat in
  (S k, (bad + b)%nat, kmax (F := Qc_OF) mx (kmax (F := Qc_OF) r1 r2)).
Definition op_basis_chk : opfun := fun zs qs =>
  match zs, qs with
  | [kind; n; dim], s2 :: l =>
      let kind' := Z.to_nat kind in let n' := Z.to_nat n in let dim' := Z.to_nat dim in
      let tb := basis_tbl kind' n' dim' in let d := basis_dim kind' n' dim' in
      let '(k, bad, mx) := fold_left (basis_step s2 d tb) (cplx_of_flat l) (0%nat, 0%nat, 0%Qc) in
      Ok [qz (zn d); qz (zn (length tb)); qz (zn k); qz (zn bad); mx]
  | _, _ => Err (-1) end.
(* zs = [kind; n; dim; a] : element a of the table: Ok (d :: num :: den :: entries) *)
Definition op_basis_elem : opfun := fun zs _ =>
  match zs with
  | [kind; n; dim; a] =>
      let kind' := Z.to_nat kind in let n' := Z.to_nat n in let dim' := Z.to_nat dim in
      let tb := basis_tbl kind' n' dim' in let d := basis_dim kind' n' dim' in
      match nth_error tb (Z.to_nat a) with
      | Some e => Ok (qz (zn d) :: qz (te_num e) :: qz (te_den e) :: zmat_flat d d (te_m e))
      | None => Err 1 end
  | _ => Err (-1) end.

(* ---------- POVMs, measurement processes, 2-qutrit Hamiltonians ---------- *)
Definition frac_flat (d : nat) (f : tfrac) : list Qc := qz (tf_n f) :: zmat_flat d d (tf_m f).
(* zs = single POVM codes of the product name : Ok (d :: count :: per element (n :: entries)) *)
Definition op_povm : opfun := fun zs _ =>
  let '(d, es) := povm_tbl (nats zs) in Ok (qz (zn d) :: qz (zn (length es)) :: flat_map (frac_flat d) es).
(* zs = [code] : Ok (d :: outcomes :: per outcome (count :: per Kraus operator (n :: entries))) *)
Definition op_mproc : opfun := fun zs _ =>
  match zs with
  | [k] => let k' := Z.to_nat k in let d := mproc_dim k' in let t := mproc_tbl k' in
      Ok (qz (zn d) :: qz (zn (length t)) :: flat_map (fun out => qz (zn (length out)) :: flat_map (frac_flat d) out) t)
  | _ => Err (-1) end.
Fixpoint triples_of (l : list Z) : list (nat * nat * nat) :=
  match l with a :: b :: c :: t => (Z.to_nat a, Z.to_nat b, Z.to_nat c) :: triples_of t | _ => [] end.
(* zs = (b0 b1 k)* : Ok (entries of H / (pi/4), 9 x 9) *)
Definition op_ham2t : opfun := fun zs _ => Ok (zmat_flat 9 9 (ham2t (triples_of zs))).

(* ---------- checkers on implementation data (QObj vocabulary at Qc) ---------- *)
Definition czero : cplx Qc_OF := (0%Qc, 0%Qc).
(* split a flat list into [k] blocks of [n] rationals *)
Definition blocks (n k : nat) (l : list Qc) : list (list Qc) := chunks n k l.
Definition basis_of_flat (d : nat) (l : list Qc) : nat -> cmat Qc_OF :=
  let ms := map (cmat_of_flat d d) (blocks (2 * d * d) (d * d) l) in
  fun a => nth a ms (fun _ _ => czero).
Definition cfreeze (m n : nat) (A : cmat Qc_OF) : cmat Qc_OF := freeze czero m n A.

(* memoised HS matrix of a Kraus set, proved equal to QObj.chs_of_kraus *)
Definition kraus_img (d : nat) (Bb K : cmat Qc_OF) : cmat Qc_OF :=
  cfreeze d d (mmul d (cfreeze d d (mmul d K Bb)) (cadj K)).
Definition chs_kraus_fast (d : nat) (B : nat -> cmat Qc_OF) (Ks : list (cmat Qc_OF)) : cmat Qc_OF :=
  let imgs := map (fun b => map (kraus_img d (B b)) Ks) (seq 0 (d * d)) in
  fun a b => fold_right (fun M acc => cadd (CF Qc_OF) (hs_inner d (B a) M) acc) (c0 (CF Qc_OF)) (nth b imgs []).

Lemma hs_inner_ext_r d (A X Y : cmat Qc_OF) : meq d d X Y -> hs_inner d A X = hs_inner d A Y.
Proof. intros H. unfold hs_inner. apply sumn_ext; intros i Hi. apply sumn_ext; intros j Hj. now rewrite H. Qed.
Lemma cfreeze_spec m n A : meq m n (cfreeze m n A) A.
Proof. intros i j Hi Hj. unfold cfreeze. now apply freeze_spec. Qed.
Lemma kraus_img_spec d Bb K : meq d d (kraus_img d Bb K) (mmul d (mmul d K Bb) (cadj K)).
Proof. unfold kraus_img.
  apply (meq_trans d d _ (mmul d (cfreeze d d (mmul d K Bb)) (cadj K))); [apply cfreeze_spec|].
  apply (mmul_ext d _ _ _ _ d d); [apply cfreeze_spec|apply meq_refl]. Qed.
Lemma chs_kraus_fast_eq d B Ks a b : (b < d * d)%nat -> chs_kraus_fast d B Ks a b = chs_of_kraus d B Ks a b.
Proof. intros Hb. unfold chs_kraus_fast, chs_of_kraus.
  rewrite (nth_map_seq (fun b => map (kraus_img d (B b)) Ks) [] (d * d) 0 b Hb). cbn [Nat.add].
  induction Ks as [|K Ks IH]; [reflexivity|]. cbn [map fold_right]. rewrite IH. f_equal.
  apply hs_inner_ext_r. apply kraus_img_spec. Qed.

Definition maxabs (l : list Qc) : Qc := fold_left (fun m x => kmax (F := Qc_OF) m (kabs (F := Qc_OF) x)) l 0%Qc.
(* zs = [d; k]; qs = basis (d*d matrices) ++ k Kraus matrices : Ok (d^2 x d^2 real parts ++ [max |imaginary part|]) *)
Definition op_hs_kraus : opfun := fun zs qs =>
  match zs with
  | [d; k] => let d' := Z.to_nat d in let k' := Z.to_nat k in let nb := (2 * d' * d' * (d' * d'))%nat in
      let B := basis_of_flat d' (firstn nb qs) in
      let Ks := map (cmat_of_flat d' d') (blocks (2 * d' * d') k' (skipn nb qs)) in
      let M := flat_of_mat (d' * d') (d' * d') (chs_kraus_fast d' B Ks) in
      Ok (map fst M ++ [maxabs (map snd M)])
  | _ => Err (-1) end.
(* zs = [d; k]; qs = basis ++ k pure vectors (d complex each) : Ok (per vector: d^2 coefficients ++ [<v|v>]) *)
Definition op_vecs : opfun := fun zs qs =>
  match zs with
  | [d; k] => let d' := Z.to_nat d in let k' := Z.to_nat k in let nb := (2 * d' * d' * (d' * d'))%nat in
      let B := basis_of_flat d' (firstn nb qs) in
      let vs := map (fun l => vec_of_list czero (cplx_of_flat l)) (blocks (2 * d') k' (skipn nb qs)) in
      Ok (flat_map (fun v => list_of_vec (d' * d') (vec_of_pure d' B v) ++ [norm2_of d' v]) vs)
  | _ => Err (-1) end.
(* zs = [d]; qs = basis ++ H : Ok (d^2 x d^2 real parts of the generator ++ [max |imaginary part|]) *)
Definition op_lind : opfun := fun zs qs =>
  match zs with
  | [d] => let d' := Z.to_nat d in let nb := (2 * d' * d' * (d' * d'))%nat in
      let B := basis_of_flat d' (firstn nb qs) in
      let H := cmat_of_flat d' d' (skipn nb qs) in
      let imgs := map (fun b => cfreeze d' d' (minus_i_comm d' H (B b))) (seq 0 (d' * d')) in
      let M := flat_of_mat (d' * d') (d' * d') (fun a b => hs_inner d' (B a) (nth b imgs (fun _ _ => czero))) in
      Ok (map fst M ++ [maxabs (map snd M)])
  | _ => Err (-1) end.
(* zs = [m]; qs = HS (m x m reals) ++ vec (m reals) : Ok (HS . vec) *)
Definition op_apply : opfun := fun zs qs =>
  match zs with
  | [m] => let m' := Z.to_nat m in
      let A := rmat_of_flat m' m' (firstn (m' * m') qs) in let v := vec_of_list 0%Qc (skipn (m' * m') qs) in
      Ok (list_of_vec m' (mv (R := Qc_OF) m' A v))
  | _ => Err (-1) end.
(* zs = [d]; qs = basis ++ coefficient vector (d^2 reals) : Ok (the operator sum_a v_a B_a, interleaved) *)
Definition op_opvec : opfun := fun zs qs =>
  match zs with
  | [d] => let d' := Z.to_nat d in let nb := (2 * d' * d' * (d' * d'))%nat in
      let B := basis_of_flat d' (firstn nb qs) in let v := vec_of_list 0%Qc (skipn nb qs) in
      Ok (flat_of_cmat d' d' (op_of_vec d' B v))
  | _ => Err (-1) end.
(* zs = [d]; qs = U : Ok [max entry of |U^dagger U - I| (re, im separately)] *)
Definition op_unitary_res : opfun := fun zs qs =>
  match zs with
  | [d] => let d' := Z.to_nat d in let U := cmat_of_flat d' d' qs in
      let M := flat_of_mat d' d' (fun i j => csub (CF Qc_OF) (mmul d' (cadj U) U i j) (mid i j)) in
      Ok [maxabs (map fst M ++ map snd M)]
  | _ => Err (-1) end.

(* ---------- id bookkeeping (Model/C17_Permute.v) ---------- *)
Fixpoint nchunks (fuel n : nat) (l : list nat) : list (list nat) :=
  match fuel with
  | O => []
  | S f => match l with [] => [] | _ => firstn n l :: nchunks f n (skipn n l) end
  end.
(* zs = mode :: n :: ids (n) ++ k symbols (n Pauli indices each) : Ok (the k permuted symbols);
   mode 1 = permute_fixed (the repaired code), 0 = permute_coded (the code before fix toffoli-fredkin-cyclic-ids-inverted) *)
Definition op_permute : opfun := fun zs _ =>
  match zs with
  | mode :: n :: rest =>
      let n' := Z.to_nat n in let l := nats rest in let ids := firstn n' l in
      let vs := nchunks (length l) n' (skipn n' l) in
      Ok (map (fun x => qz (zn x)) (flat_map (fun v => if (mode =? 0)%Z then permute_coded ids v else permute_fixed ids v) vs))
  | _ => Err (-1) end.
(* zs = n :: ids : Ok (matP[i_original][i_sorted], row-major) *)
Definition op_matp : opfun := fun zs _ =>
  match zs with
  | n :: rest => let ids := firstn (Z.to_nat n) (nats rest) in let k := length ids in
      Ok (flat_map (fun i => map (fun j => qb (matP ids i j)) (seq 0 k)) (seq 0 k))
  | _ => Err (-1) end.

(* ---------- named catalogues (Model/C17_Names.v): entries as  len(name) :: character codes ++ len(code) :: code *)
Definition str_codes (s : String.string) : list Z := map (fun c => Z.of_N (Ascii.N_of_ascii c)) (String.list_ascii_of_string s).
Definition entry_flat (name : String.string) (code : list Z) : list Z := (withlen (str_codes name) ++ withlen code)%list.
Definition terms_flat (ts : list (nat * nat * nat)) : list Z := flat_map (fun t => let '(a, b, c) := t in [zn a; zn b; zn c]) ts.
(* zs = [family; system] : family 0 states (code of c17.state), 1 POVMs (codes of c17.povm), 2 gates of 1-3 qubits / 1 qutrit (index k),
   3 measurement processes (k, system), 4 one-term 2-qutrit gates (b0 b1 k) *)
Definition op_cat : opfun := fun zs _ =>
  match zs with
  | [fam; sys] =>
      let sys' := Z.to_nat sys in
      let l := match fam with
               | 0%Z => flat_map (fun e => entry_flat (fst e) (encode_s (snd e))) (cat_states sys')
               | 1%Z => flat_map (fun e => entry_flat (fst e) (map zn (snd e))) (cat_povms sys')
               | 2%Z => flat_map (fun e => entry_flat (fst e) [zn (snd e)]) (cat_gates sys')
               | 3%Z => flat_map (fun e => entry_flat (fst e) [zn (snd e); zn (mproc_sys (snd e))]) cat_mprocs
               | _ => flat_map (fun e => entry_flat (fst e) (terms_flat (snd e))) cat_gates_2qutrit_single
               end in Ok (map qz l)
  | _ => Err (-1) end.
(* zs = [start; count] : that slice of the two-term 2-qutrit names, each with its six term numbers; zs = -1 :: indices : those entries;
   zs = [] : [number of names] *)
Definition op_cat2t : opfun := fun zs _ =>
  match zs with
  | [] => Ok [qz (zn (List.length cat_gates_2qutrit_double))]
  | (-1)%Z :: idx =>                  (* the entries with the given indices *)
      let l := cat_gates_2qutrit_double in
      Ok (map qz (flat_map (fun i => match nth_error l (Z.to_nat i) with Some e => entry_flat (fst e) (terms_flat (snd e)) | None => [] end) idx))
  | [start; count] =>
      Ok (map qz (flat_map (fun e => entry_flat (fst e) (terms_flat (snd e))) (firstn (Z.to_nat count) (skipn (Z.to_nat start) cat_gates_2qutrit_double))))
  | _ => Err (-1) end.

Definition C17_ops : optable :=
  [ ("c17.state"%string, op_state); ("c17.gate"%string, op_gate); ("c17.triples"%string, op_triples);
    ("c17.triple_holds"%string, op_triple_holds);
    ("c17.basis_chk"%string, op_basis_chk); ("c17.basis_elem"%string, op_basis_elem);
    ("c17.povm"%string, op_povm); ("c17.mproc"%string, op_mproc); ("c17.ham2t"%string, op_ham2t);
    ("c17.hs_kraus"%string, op_hs_kraus); ("c17.vecs"%string, op_vecs); ("c17.lind"%string, op_lind);
    ("c17.apply"%string, op_apply); ("c17.opvec"%string, op_opvec); ("c17.unitary_res"%string, op_unitary_res);
    ("c17.permute"%string, op_permute); ("c17.matp"%string, op_matp); ("c17.cat"%string, op_cat); ("c17.cat2t"%string, op_cat2t) ].
