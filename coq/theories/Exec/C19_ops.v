(* Executable wrappers for the C19 models (instantiated at Qc). *)
From Coq Require Import ZArith QArith Qcanon List Bool Arith.
From QV.Core Require Import OF QcOF Sums Mat Cplx.
From QV.Exec Require Import Base.
From QV.Model Require Import Multinomial C19_Expect C19_ErrFormulas.
From QV.Proofs Require Import C19_ErrFormulas.
Import ListNotations.

Notation Fq := Qc_OF.
Definition q0 : Qc := 0%Qc.
Definition rmat := @mat Fq.
Definition rvec := @vec Fq.
Definition mflat (m n : nat) (l : list Qc) : rmat := mat_of_flat q0 m n l.
Definition vlist (l : list Qc) : rvec := vec_of_list q0 l.
Definition fz (m n : nat) (M : rmat) : rmat := freeze q0 m n M.
Definition vfz (n : nat) (v : rvec) : rvec := vfreeze q0 n v.
Definition outm (m n : nat) (M : rmat) : list Qc := flat_of_mat m n M.
Definition outv (n : nat) (v : rvec) : list Qc := list_of_vec n v.
Definition take {A} (n : nat) (l : list A) := firstn n l.
Definition drop {A} (n : nat) (l : list A) := skipn n l.
Definition nz (z : Z) : nat := Z.to_nat z.
Definition qabs (x : Qc) : Qc := if Qcleb 0%Qc x then x else (- x)%Qc.
Definition qmax (x y : Qc) : Qc := if Qcleb x y then y else x.
(* max_ij | (A B - I)_ij |   for A : n x k, B : k x n *)
Definition resid_id (n k : nat) (A B : rmat) : Qc :=
  fold_right qmax 0%Qc
    (map (fun ij => qabs (Qcminus (mmul k A B (fst ij) (snd ij)) (@mid Fq (fst ij) (snd ij))))
         (list_prod (seq 0 n) (seq 0 n))).
Definition out_mres (m n : nat) (r : mres rmat) : res :=
  match r with MOk M => Ok (outm m n M) | MErr c => Err (Z.of_nat c) end.
Definition ttype_of (z : Z) : ttype :=
  match z with 0%Z => QST | 1%Z => POVMT | 2%Z => QPT | _ => QMPT end.
Definition zb (z : Z) : bool := negb (z =? 0)%Z.

(* ---- matrix_util level ---- *)
(* zs = [m]; qs = n :: q *)
Definition op_cov_mat : opfun := fun zs qs =>
  match zs, qs with
  | [m], n :: q => let m' := nz m in Ok (outm m' m' (cov_mat Fq n (vlist q)))
  | _, _ => Err (-1) end.
(* zs = J :: sizes; qs = n_1 :: q_1 ++ n_2 :: q_2 ... *)
Fixpoint read_dists (sizes : list Z) (qs : list Qc) : list (nat * Qc * rvec) :=
  match sizes with
  | [] => []
  | m :: t => match qs with
              | n :: r => (nz m, n, vlist (take (nz m) r)) :: read_dists t (drop (nz m) r)
              | [] => [] end
  end.
Definition op_cov_total : opfun := fun zs qs =>
  match zs with
  | _ :: sizes => let ds := read_dists sizes qs in
      let S := fold_right (fun d acc => let '(m, _, _) := d in (m + acc)%nat) O ds in
      Ok (outm S S (cov_total Fq ds))
  | _ => Err (-1) end.
(* zs = J :: sizes; qs = blocks, row-major, concatenated *)
Fixpoint read_blocks (sizes : list Z) (qs : list Qc) : list (nat * rmat) :=
  match sizes with
  | [] => []
  | s :: t => let s' := nz s in (s', mflat s' s' (take (s' * s') qs)) :: read_blocks t (drop (s' * s') qs)
  end.
Definition op_direct_sum : opfun := fun zs qs =>
  match zs with
  | _ :: sizes => let bs := read_blocks sizes qs in let S := dsum_size Fq bs in Ok (outm S S (dsum Fq bs))
  | _ => Err (-1) end.
(* zs = [r; c]; qs = X (r x c) ++ V (c x c) *)
Definition op_conjugate : opfun := fun zs qs =>
  match zs with
  | [r; c] => let r' := nz r in let c' := nz c in
      let X := mflat r' c' (take (r' * c') qs) in let V := mflat c' c' (drop (r' * c') qs) in
      let XV := fz r' c' (mmul c' X V) in
      Ok (outm r' r' (mmul c' XV (mT X)))
  | _ => Err (-1) end.
(* zs = [m]; qs = eps :: p *)
Definition op_replace : opfun := fun zs qs =>
  match zs, qs with
  | [m], eps :: p => Ok (outv (nz m) (replace_prob_dist Fq eps (nz m) (vlist p)))
  | _, _ => Err (-1) end.
(* zs = [m; g; nv]; qs = eps :: p(m) ++ G(g x nv) *)
Definition op_mu_fisher : opfun := fun zs qs =>
  match zs, qs with
  | [m; g; nv], eps :: r => let m' := nz m in let g' := nz g in let nv' := nz nv in
      out_mres nv' nv' (mu_fisher Fq eps m' g' (vlist (take m' r)) (mflat g' nv' (drop m' r)))
  | _, _ => Err (-1) end.
(* zs = [J; m; nv]; qs = eps :: w(J) ++ (p_j(m) ++ G_j(m x nv))_j *)
Fixpoint read_items (J m nv : nat) (ws : list Qc) (qs : list Qc) : list (Qc * rvec * rmat) :=
  match J, ws with
  | S k, w :: wt => (w, vlist (take m qs), mflat m nv (take (m * nv) (drop m qs)))
                    :: read_items k m nv wt (drop (m + m * nv) qs)
  | _, _ => [] end.
Definition op_mu_fisher_total : opfun := fun zs qs =>
  match zs, qs with
  | [J; m; nv], eps :: r => let J' := nz J in let m' := nz m in let nv' := nz nv in
      match mu_fisher_total Fq eps m' nv' (read_items J' m' nv' (take J' r) (drop J' r)) with
      | MOk (sz, M) => Ok (qz (Z.of_nat sz) :: outm sz sz M)
      | MErr c => Err (Z.of_nat c) end
  | _, _ => Err (-1) end.
(* same input: the definition  sum_j w_j F_j  (nv x nv), no validation *)
Definition op_fisher_total_def : opfun := fun zs qs =>
  match zs, qs with
  | [J; m; nv], eps :: r => let J' := nz J in let m' := nz m in let nv' := nz nv in
      Ok (outm nv' nv' (fisher_total_def Fq eps m' (read_items J' m' nv' (take J' r) (drop J' r))))
  | _, _ => Err (-1) end.
(* zs = [K; len]; qs = xs (K x len) ++ ys (K x len) *)
Definition op_se : opfun := fun zs qs =>
  match zs with
  | [K; len] => let K' := nz K in let n := nz len in
      let xs := chunks n K' (take (K' * n) qs) in let ys := chunks n K' (drop (K' * n) qs) in
      Ok [calc_se Fq n (combine (map vlist xs) (map vlist ys))]
  | _ => Err (-1) end.
(* complex arrays: zs = [K; len]; qs = xs (K x len complex, interleaved re im) ++ ys likewise *)
Definition cvlist (l : list Qc) : nat -> cplx Fq := fun i => nth i (cplx_of_flat l) (q0, q0).
Definition op_cse : opfun := fun zs qs =>
  match zs with
  | [K; len] => let K' := nz K in let n := nz len in
      let xs := chunks (2 * n) K' (take (K' * (2 * n)) qs) in let ys := chunks (2 * n) K' (drop (K' * (2 * n)) qs) in
      Ok [calc_se_c Fq n (combine (map cvlist xs) (map cvlist ys))]
  | _ => Err (-1) end.
(* qs = values : [mean; variance (ddof = 1)] *)
Definition op_mean_var : opfun := fun _ qs => Ok [mean Fq qs; var_ddof1 Fq qs].
(* qs = norm values : mean of squares *)
Definition op_mse_norm : opfun := fun _ qs => Ok [mse_general_norm Fq qs].

(* ---- tomography level ----
   zs = ty :: eq :: nv :: nr :: J :: d2 :: mo :: m_0 :: ... :: m_{J-1} :: extra ;  qs = A (nr x nv) ++ b (nr) ++ v (nv) ++ rest
   ms = [m_j] are the numbers of outcomes of the schedules (tomography.num_outcomes(j)); Err 1 when their sum is not nr *)
Record hdr := { h_ty : ttype; h_eq : bool; h_nv : nat; h_nr : nat; h_ms : list nat; h_d2 : nat; h_mo : nat;
                h_A : rmat; h_b : rvec; h_v : rvec; h_extra : list Z; h_rest : list Qc }.
Definition h_J (h : hdr) : nat := length (h_ms h).
Definition read_hdr (zs : list Z) (qs : list Qc) : option hdr :=
  match zs with
  | ty :: eq :: nv :: nr :: J :: d2 :: mo :: tl =>
      let nv' := nz nv in let nr' := nz nr in
      Some {| h_ty := ttype_of ty; h_eq := zb eq; h_nv := nv'; h_nr := nr'; h_ms := map nz (take (nz J) tl); h_d2 := nz d2; h_mo := nz mo;
              h_A := mflat nr' nv' (take (nr' * nv') qs);
              h_b := vlist (take nr' (drop (nr' * nv') qs));
              h_v := vlist (take nv' (drop (nr' * nv' + nr') qs));
              h_extra := drop (nz J) tl;
              h_rest := drop (nr' * nv' + nr' + nv') qs |}
  | _ => None end.
Definition sizes_ok (h : hdr) : bool := Nat.eqb (sizes_sum (h_ms h)) (h_nr h).

(* the probability rows, materialised: the model function pds_of_raw on the materialised stacked vector A v + b *)
Definition pd_rows (h : hdr) (eps : Qc) : list (nat * rvec) :=
  let pv := vfz (h_nr h) (affine Fq (h_nv h) (h_A h) (h_b h) (h_v h)) in
  map (fun mp : nat * rvec => (fst mp, vfz (fst mp) (snd mp))) (pds_of_raw Fq eps pv O (h_ms h)).

(* rest = [eps] : the rows of calc_prob_dists, concatenated *)
Definition op_prob_dists : opfun := fun zs qs =>
  match read_hdr zs qs with
  | Some h => match h_rest h with
      | eps :: _ => if sizes_ok h then Ok (concat (map (fun mp : nat * rvec => outv (fst mp) (snd mp)) (pd_rows h eps))) else Err 1
      | _ => Err (-1) end
  | None => Err (-1) end.

(* block-diagonal covariance from the materialised rows: the model functions cov_blocks / dsum *)
Definition sigma_of (h : hdr) (eps : Qc) (nsv : rvec) : rmat :=
  fz (h_nr h) (h_nr h)
     (dsum Fq (map (fun sb : nat * rmat => (fst sb, fz (fst sb) (fst sb) (snd sb))) (cov_blocks Fq nsv O (pd_rows h eps)))).

(* rest = eps :: ns (len given in extra = [lenNs]) : calc_covariance_mat_total ; Err 4 ns too short *)
Definition op_tomo_cov_total : opfun := fun zs qs =>
  match read_hdr zs qs with
  | Some h => match h_rest h, h_extra h with
      | eps :: ns, [ln] =>
          if negb (sizes_ok h) then Err 1 else
          if Nat.ltb (nz ln) (h_J h) then Err 4 else
          Ok (outm (h_nr h) (h_nr h) (tomo_cov_total Fq eps (h_nv h) (h_ms h) (h_A h) (h_b h) (h_v h) (vlist ns)))
      | _, _ => Err (-1) end
  | None => Err (-1) end.

(* V = L Sigma L^T materialised, and the analytical value: the MODEL function mse_analytical_of_cov on it *)
Definition tomo_V (h : hdr) (eps : Qc) (nsv : rvec) (L : rmat) : rmat :=
  let nv := h_nv h in let nr := h_nr h in
  let LS := fz nv nr (mmul nr L (sigma_of h eps nsv)) in
  fz nv nv (mmul nr LS (mT L)).
Definition tomo_ana (h : hdr) (eps : Qc) (nsv : rvec) (L : rmat) (mode : bool) : Qc :=
  mse_analytical_of_cov Fq (h_ty h) mode (h_eq h) (h_d2 h) (h_mo h) (h_nv h) (tomo_V h eps nsv L).

(* ---- the materialised evaluation IS the model function the theorems of Props/C19.v talk about (axiom-free) ---- *)
Lemma fz_spec m n M : meq m n (fz m n M) M. Proof. intros i j Hi Hj. now apply freeze_spec. Qed.
Lemma vfz_spec n v : veq n (vfz n v) v. Proof. intros i Hi. now apply vfreeze_spec. Qed.
Lemma pds_eq_map_vfz (l : list (nat * rvec)) :
  pds_eq Fq (map (fun mp : nat * rvec => (fst mp, vfz (fst mp) (snd mp))) l) l.
Proof. induction l as [|[m p] t IH]; cbn [map]; constructor; [|exact IH]. cbn [fst snd]. split; [reflexivity|apply vfz_spec]. Qed.
Lemma blocks_eq_map_fz (l : list (nat * rmat)) :
  blocks_eq Fq (map (fun sb : nat * rmat => (fst sb, fz (fst sb) (fst sb) (snd sb))) l) l.
Proof. induction l as [|[m p] t IH]; cbn [map]; constructor; [|exact IH]. cbn [fst snd]. split; [reflexivity|apply fz_spec]. Qed.
Lemma sizes_ok_eq h : sizes_ok h = true -> sizes_sum (h_ms h) = h_nr h.
Proof. unfold sizes_ok. intros H. now apply Nat.eqb_eq. Qed.
Lemma pd_rows_eq h eps : sizes_ok h = true ->
  pds_eq Fq (pd_rows h eps) (tomo_pds Fq eps (h_nv h) (h_ms h) (h_A h) (h_b h) (h_v h)).
Proof. intros Hs. unfold pd_rows, tomo_pds. eapply pds_eq_trans; [apply pds_eq_map_vfz|].
  apply pds_of_raw_ext. intros i Hi. cbn [Nat.add]. apply vfz_spec. now rewrite <- (sizes_ok_eq h Hs). Qed.
Lemma sigma_of_eq h eps nsv : sizes_ok h = true ->
  meq (h_nr h) (h_nr h) (sigma_of h eps nsv) (tomo_cov_total Fq eps (h_nv h) (h_ms h) (h_A h) (h_b h) (h_v h) nsv).
Proof. intros Hs i j Hi Hj. unfold sigma_of, tomo_cov_total. unfold fz at 1. rewrite freeze_spec by assumption.
  rewrite (dsum_ext Fq _ _ (blocks_eq_map_fz _)).
  apply dsum_ext. apply cov_blocks_ext. now apply pd_rows_eq. Qed.
Lemma tomo_V_eq h eps nsv L : sizes_ok h = true ->
  meq (h_nv h) (h_nv h) (tomo_V h eps nsv L)
      (cov_linear Fq (h_nr h) L (tomo_cov_total Fq eps (h_nv h) (h_ms h) (h_A h) (h_b h) (h_v h) nsv)).
Proof. intros Hs i j Hi Hj. unfold tomo_V, cov_linear, conjugate. unfold fz at 1. rewrite freeze_spec by assumption.
  apply (mmul_ext (h_nr h) _ _ _ _ (h_nv h) (h_nv h)); [|apply meq_refl|exact Hi|exact Hj].
  intros a c Ha Hc. unfold fz at 1. rewrite freeze_spec by assumption.
  apply (mmul_ext (h_nr h) _ _ _ _ (h_nv h) (h_nr h)); [apply meq_refl|now apply sigma_of_eq|exact Ha|exact Hc]. Qed.
(* c19.tomo_mse, third output: exactly  mse_linear_analytical  of the model, on the model's  tomo_cov_total *)
Theorem tomo_ana_spec h eps nsv L mode : sizes_ok h = true ->
  tomo_ana h eps nsv L mode
  = mse_linear_analytical Fq (h_ty h) mode (h_eq h) (h_d2 h) (h_mo h) (h_nv h) (h_nr h) L
      (tomo_cov_total Fq eps (h_nv h) (h_ms h) (h_A h) (h_b h) (h_v h) nsv).
Proof. intros Hs. unfold tomo_ana, mse_linear_analytical. apply (mse_analytical_of_cov_ext Fq). now apply tomo_V_eq. Qed.
(* fourth output: the specification side  mse_object_exact  (= exact expectation by theorem C19_mse_object_exact) *)
Definition tomo_exact (h : hdr) (eps : Qc) (nsv : rvec) (L : rmat) : Qc :=
  let V := tomo_V h eps nsv L in
  (mtrace (h_nv h) V + mtrace (h_d2 h) (conjugate Fq (h_nv h) (implied_S Fq (h_ty h) (h_eq h) (h_d2 h) (h_mo h)) V))%Qc.
Theorem tomo_exact_spec h eps nsv L : sizes_ok h = true ->
  tomo_exact h eps nsv L
  = mse_object_exact Fq (h_d2 h) (h_nv h) (h_nr h) (implied_S Fq (h_ty h) (h_eq h) (h_d2 h) (h_mo h)) L
      (tomo_cov_total Fq eps (h_nv h) (h_ms h) (h_A h) (h_b h) (h_v h) nsv).
Proof. intros Hs. unfold tomo_exact, mse_object_exact, mse_var.
  rewrite (mtrace_ext (h_nv h) _ _ (tomo_V_eq h eps nsv L Hs)).
  rewrite (mtrace_ext (h_d2 h) _ _ (conjugate_ext Fq (h_d2 h) (h_nv h) _ _ _ _ (meq_refl _ _ _) (tomo_V_eq h eps nsv L Hs))).
  reflexivity. Qed.
(* fifth / sixth output: the model's mse_empi / mse_empi_closed *)
Theorem tomo_empi_spec h eps nsv : sizes_ok h = true ->
  mse_empi_pds Fq nsv O (pd_rows h eps) = mse_empi Fq eps (h_nv h) (h_ms h) (h_A h) (h_b h) (h_v h) nsv /\
  mse_empi_closed_pds Fq nsv O (pd_rows h eps) = mse_empi_closed Fq eps (h_nv h) (h_ms h) (h_A h) (h_b h) (h_v h) nsv.
Proof. intros Hs. split; [apply mse_empi_pds_ext|apply mse_empi_closed_pds_ext]; now apply pd_rows_eq. Qed.

(* rest = eps :: ns(J) ++ L (nv x nr)
   -> [ max|L A - I| ; mse_var ; mse_linear_analytical(ty, mode=var, eq) ; mse_linear_analytical(ty, mode=qoperation, eq) ;
        exact MSE of the object (implied_S) ; mse_empi (trace form) ; mse_empi (closed form) ] ++ V = L Sigma L^T (nv x nv) *)
Definition op_tomo_mse : opfun := fun zs qs =>
  match read_hdr zs qs with
  | Some h => match h_rest h with
      | eps :: r =>
          if negb (sizes_ok h) then Err 1 else
          let nv := h_nv h in let nr := h_nr h in let J := h_J h in
          let nsv := vlist (take J r) in
          let L := mflat nv nr (drop J r) in
          let V := tomo_V h eps nsv L in
          let rows := pd_rows h eps in
          Ok (resid_id nv nr L (h_A h) :: mtrace nv V
              :: mse_analytical_of_cov Fq (h_ty h) false (h_eq h) (h_d2 h) (h_mo h) nv V      (* = tomo_ana h eps nsv L false *)
              :: mse_analytical_of_cov Fq (h_ty h) true (h_eq h) (h_d2 h) (h_mo h) nv V       (* = tomo_ana h eps nsv L true *)
              :: (mtrace nv V + mtrace (h_d2 h) (conjugate Fq nv (implied_S Fq (h_ty h) (h_eq h) (h_d2 h) (h_mo h)) V))%Qc   (* = tomo_exact *)
              :: mse_empi_pds Fq nsv O rows
              :: mse_empi_closed_pds Fq nsv O rows
              :: outm nv nv V)
      | _ => Err (-1) end
  | None => Err (-1) end.
(* the third to fifth outputs are, by unfolding, tomo_ana ... false / tomo_ana ... true / tomo_exact (V is shared so that the
   extracted code materialises it once) *)
Lemma op_tomo_mse_outputs h eps nsv L :
  mse_analytical_of_cov Fq (h_ty h) false (h_eq h) (h_d2 h) (h_mo h) (h_nv h) (tomo_V h eps nsv L) = tomo_ana h eps nsv L false /\
  mse_analytical_of_cov Fq (h_ty h) true (h_eq h) (h_d2 h) (h_mo h) (h_nv h) (tomo_V h eps nsv L) = tomo_ana h eps nsv L true /\
  (mtrace (h_nv h) (tomo_V h eps nsv L)
   + mtrace (h_d2 h) (conjugate Fq (h_nv h) (implied_S Fq (h_ty h) (h_eq h) (h_d2 h) (h_mo h)) (tomo_V h eps nsv L)))%Qc
  = tomo_exact h eps nsv L.
Proof. split; [reflexivity|]. split; reflexivity. Qed.

(* extra = [lenNs]; rest = eps :: ns : calc_mse_empi_dists_analytical with a data_num_list of any length (Err 4 = IndexError):
   the loop runs over enumerate(data_num_list) *)
Definition op_tomo_mse_empi : opfun := fun zs qs =>
  match read_hdr zs qs with
  | Some h => match h_rest h, h_extra h with
      | eps :: ns, [ln] =>
          if negb (sizes_ok h) then Err 1 else
          if Nat.ltb (h_J h) (nz ln) then Err 4 else
          Ok [mse_empi_pds Fq (vlist ns) O (take (nz ln) (pd_rows h eps))]
      | _, _ => Err (-1) end
  | None => Err (-1) end.

(* Fisher matrices: the MODEL functions fisher_of_raw / fisher_total_of_raw on the materialised stacked vector A v + b *)
Definition raw_frozen (h : hdr) : rvec := vfz (h_nr h) (affine Fq (h_nv h) (h_A h) (h_b h) (h_v h)).
Theorem exec_fisher_spec h eps8 j : sizes_ok h = true -> (j < length (h_ms h))%nat ->
  mres_mat_eq Fq (fisher_of_raw Fq eps8 (raw_frozen h) (h_A h) (h_ms h) j)
                 (tomo_fisher Fq eps8 (h_nv h) (h_ms h) j (h_A h) (h_b h) (h_v h)).
Proof. intros Hs Hj. unfold tomo_fisher. apply fisher_of_raw_ext; [exact Hj|].
  rewrite (sizes_ok_eq h Hs). apply vfz_spec. Qed.
Theorem exec_fisher_total_spec h eps8 w : sizes_ok h = true ->
  mres_mat_eq Fq (fisher_total_of_raw Fq eps8 (raw_frozen h) (h_A h) (h_ms h) w)
                 (tomo_fisher_total Fq eps8 (h_nv h) (h_ms h) (h_A h) (h_b h) (h_v h) w).
Proof. intros Hs. unfold tomo_fisher_total. apply fisher_total_of_raw_ext.
  rewrite (sizes_ok_eq h Hs). apply vfz_spec. Qed.
(* extra = [j]; rest = [eps8] *)
Definition op_tomo_fisher : opfun := fun zs qs =>
  match read_hdr zs qs with
  | Some h => match h_rest h, h_extra h with
      | eps8 :: _, [j] =>
          if negb (sizes_ok h) then Err 1 else
          out_mres (h_nv h) (h_nv h) (fisher_of_raw Fq eps8 (raw_frozen h) (h_A h) (h_ms h) (nz j))
      | _, _ => Err (-1) end
  | None => Err (-1) end.
(* rest = eps8 :: w(J) *)
Definition op_tomo_fisher_total : opfun := fun zs qs =>
  match read_hdr zs qs with
  | Some h => match h_rest h with
      | eps8 :: w =>
          if negb (sizes_ok h) then Err 1 else
          out_mres (h_nv h) (h_nv h) (fisher_total_of_raw Fq eps8 (raw_frozen h) (h_A h) (h_ms h) (vlist w))
      | _ => Err (-1) end
  | None => Err (-1) end.
(* rest = eps8 :: N :: ns(J) ++ Minv (nv x nv)
   -> [ max|F Minv - I| ; cr_var ; cr_analytical(ty, eq) ; exact object bound tr(Minv)+tr(S Minv S^T) over N ] *)
Definition op_tomo_cr : opfun := fun zs qs =>
  match read_hdr zs qs with
  | Some h => match h_rest h with
      | eps8 :: N :: r =>
          if negb (sizes_ok h) then Err 1 else
          let nv := h_nv h in let J := h_J h in let d2 := h_d2 h in
          let nsv := vlist (take J r) in
          let Minv := mflat nv nv (drop J r) in
          match fisher_total_of_raw Fq eps8 (raw_frozen h) (h_A h) (h_ms h) (cr_weights Fq N nsv) with
          | MErr c => Err (Z.of_nat c)
          | MOk Ft => let Ft := fz nv nv Ft in
              Ok [resid_id nv nv Ft Minv; cr_var Fq nv N Minv; cr_analytical Fq (h_ty h) (h_eq h) d2 nv N Minv;
                  (cr_var Fq nv N Minv + mtrace d2 (conjugate Fq nv (implied_S Fq (h_ty h) (h_eq h) d2 (h_mo h)) Minv) / N)%Qc]
          end
      | _ => Err (-1) end
  | None => Err (-1) end.

(* zs = [ty; eq; d2; mo; nv]; qs = x (nv) : squared object error for a variable error x *)
Definition op_object_sqerr : opfun := fun zs qs =>
  match zs with
  | [ty; eq; d2; mo; nv] =>
      Ok [object_sqerr Fq (nz d2) (nz nv) (implied_S Fq (ttype_of ty) (zb eq) (nz d2) (nz mo)) (vlist qs)]
  | _ => Err (-1) end.

(* ---- exact expectation by enumeration ---- *)
(* zs = [m; n]; qs = p : [E f_x]_x ++ [E (f_x - p_x)(f_y - p_y)]_{x,y} *)
Definition op_expect_moments : opfun := fun zs qs =>
  match zs with
  | [m; n] => let m' := nz m in let n' := nz n in let p := vlist qs in
      Ok (map (fun x => expect Fq m' p n' (fun s => freq Fq n' s x)) (seq 0 m')
          ++ map (fun xy => expect Fq m' p n' (fun s => (dev Fq n' p s (fst xy) * dev Fq n' p s (snd xy))%Qc))
                 (list_prod (seq 0 m') (seq 0 m')))
  | _ => Err (-1) end.
(* zs = k :: J :: m_1 :: n_1 :: ... ; qs = M (k x nr) ++ p_1 ++ ... ++ p_J
   -> [ E |M (f - p)|^2 by enumeration over all outcome sequences of all schedules ; tr (M Sigma M^T) ] *)
Fixpoint read_scheds (mn : list Z) (qs : list Qc) : list (sched Fq) :=
  match mn with
  | m :: n :: t => (nz m, vlist (take (nz m) qs), nz n) :: read_scheds t (drop (nz m) qs)
  | _ => [] end.
Definition op_expect_mse : opfun := fun zs qs =>
  match zs with
  | k :: _ :: mn =>
      let k' := nz k in
      let nr := total_size Fq (read_scheds mn []) in
      let M := mflat k' nr (take (k' * nr) qs) in
      let ss := read_scheds mn (drop (k' * nr) qs) in
      let Sigma := fz nr nr (cov_total Fq (map (fun s => let '(m, p, n) := s in (m, of_nat Fq n, p)) ss)) in
      let MS := fz k' nr (mmul nr M Sigma) in
      Ok [expectL Fq ss (fun obs => let d := vfz nr (dev_total Fq ss obs) in
                                   let y := vfz k' (mv nr M d) in dot k' y y);
          mtrace k' (mmul nr MS (mT M))]
  | _ => Err (-1) end.

Definition C19_ops : optable :=
  [ ("c19.cov_mat"%string, op_cov_mat);
    ("c19.cov_total"%string, op_cov_total);
    ("c19.direct_sum"%string, op_direct_sum);
    ("c19.conjugate"%string, op_conjugate);
    ("c19.replace"%string, op_replace);
    ("c19.mu_fisher"%string, op_mu_fisher);
    ("c19.mu_fisher_total"%string, op_mu_fisher_total);
    ("c19.fisher_total_def"%string, op_fisher_total_def);
    ("c19.se"%string, op_se);
    ("c19.cse"%string, op_cse);
    ("c19.mean_var"%string, op_mean_var);
    ("c19.mse_norm"%string, op_mse_norm);
    ("c19.prob_dists"%string, op_prob_dists);
    ("c19.tomo_cov_total"%string, op_tomo_cov_total);
    ("c19.tomo_mse"%string, op_tomo_mse);
    ("c19.tomo_mse_empi"%string, op_tomo_mse_empi);
    ("c19.tomo_fisher"%string, op_tomo_fisher);
    ("c19.tomo_fisher_total"%string, op_tomo_fisher_total);
    ("c19.tomo_cr"%string, op_tomo_cr);
    ("c19.object_sqerr"%string, op_object_sqerr);
    ("c19.expect_moments"%string, op_expect_moments);
    ("c19.expect_mse"%string, op_expect_mse) ].
