(* Executable wrappers for the C15 models (seed dataflow, physicality-check decision table, depolarising noise). *)
From Coq Require Import ZArith QArith Qcanon List Bool Arith.
From QV.Core Require Import OF QcOF Cplx Sums Mat.
From QV.Exec Require Import Base.
From QV.Model Require Import QObj C15_Dataflow C15_PhysCheck C15_Depol.
Import ListNotations.

Definition qn (n : nat) : Qc := qz (Z.of_nat n).

(* ---- keys.  encoding of a key:  tag(0 seed / 1 ambient) :: root :: off :: len(path) :: path *)
Definition enc_key (k : key) : list Qc :=
  match k with
  | KSeed r p o => qz 0 :: qz r :: qn o :: qn (length p) :: map qn p
  | KAmbient o => qz 1 :: qz 0 :: qn o :: qn 0 :: []
  end.
(* genkey: gtag (0 key / 1 no randomness / 2 TypeError) followed by the key when gtag = 0 *)
Definition enc_genkey (g : genkey) : list Qc :=
  match g with GKey k => qz 0 :: enc_key k | GNoRandom => [qz 1] | GTypeError => [qz 2] end.

(* zs = variant(0 the model = the code with fix c15-execute-simulation-int-seed-stream / 1 as coded before that fix) :: argkind(0 None,1 int,2 Generator) :: argroot :: argoff :: has_seed_data :: seed_data :: n_rep :: path(of the Generator) *)
Definition op_single_keys : opfun := fun zs _ =>
  match zs with
  | vr :: ak :: ar :: ao :: hs :: sd :: nr :: path =>
      let arg := if (ak =? 0)%Z then SNone else if (ak =? 1)%Z then SInt ar else SGen ar (map Z.to_nat path) (Z.to_nat ao) in
      let sdo := if (hs =? 0)%Z then None else Some sd in
      Ok (concat (map enc_key ((if (vr =? 0)%Z then single_keys else single_keys_before_fix) arg sdo (Z.to_nat nr))))
  | _ => Err (-1) end.

(* zs = variant(0 the model = the code with fix c15-flow-generation-stream-per-setting / 1 as coded before that fix)
        :: seed_qop :: seed_data :: n_sample :: n_rep :: true_seeded :: amb :: tester_seeded...
   reply = raises :: ambient_free :: [genkey(s, j) for s < n_sample, j <= n_tester] ++ [key(r) for r < n_rep] *)
Definition op_flow_keys : opfun := fun zs _ =>
  match zs with
  | vr :: sq :: sd :: ns :: nr :: ts :: amb :: testers =>
      let c := {| f_seed_qop := sq; f_seed_data := sd; f_n_sample := Z.to_nat ns; f_n_rep := Z.to_nat nr; f_n_case := 0;
                  f_true_seeded := negb (ts =? 0)%Z; f_tester_seeded := map (fun z => negb (z =? 0)%Z) testers |} in
      let before := negb (vr =? 0)%Z in
      Ok (qb (if before then flow_raises_before_fix c else false) :: qb (if before then ambient_free_before_fix c else true) ::
          concat (map (fun s => concat (map (fun j => enc_genkey (if before then qop_key_before_fix c (Z.to_nat amb) s j else qop_key c s j))
                                            (seq 0 (S (length testers)))))
                      (seq 0 (f_n_sample c)))
          ++ concat (map (fun r => enc_key (data_key c r)) (seq 0 (f_n_rep c))))
  | _ => Err (-1) end.

(* estimation tasks and the loss object(s) they load their data into.
   zs = shared(0 private copies = the model / 1 one shared object = as coded before fix c15-execute-estimation-private-copies)
        :: steps, a step being 2*t (task t loads its data) or 2*t+1 (task t optimises)
   reply = program_order :: for every optimise step, in schedule order:  t :: (index of the data it optimised over, -1 = none) *)
Definition dec_step (z : Z) : step := if Z.even z then SetData (Z.to_nat (z / 2)) else Optimize (Z.to_nat (z / 2)).
Definition enc_trace (l : list (nat * option nat)) : list Qc :=
  concat (map (fun tr => [qn (fst tr); match snd tr with Some d => qn d | None => qz (-1) end]) l).
Definition op_run_tasks : opfun := fun zs _ =>
  match zs with
  | sh :: steps =>
      let sched := map dec_step steps in
      Ok (qb (program_order [] sched) ::
          enc_trace (if (sh =? 0)%Z then run_private (fun _ => None) sched else run_shared_before_fix None sched))
  | _ => Err (-1) end.

(* zs = depth-many child counts : all leaves of the spawn tree, each as  len :: path *)
Definition op_spawn_paths : opfun := fun zs _ =>
  Ok (concat (map (fun p => qn (length p) :: map qn p) (spawn_paths (map Z.to_nat zs)))).

(* zs = n :: order ; qs = task results (task i = nth i qs) : results as the caller of joblib.Parallel sees them *)
Definition op_par_exec : opfun := fun zs qs =>
  match zs with
  | n :: order => Ok (par_exec (Q2Qc (-1)) (Z.to_nat n) (map Z.to_nat order) (fun i => nth i qs (Q2Qc (-2))))
  | _ => Err (-1) end.

(* ---- physicality-check decision table
   zs = kind(0 Linear,1 ProjectedLinear,2 LossMinimization,3 other) :: has_option :: algo_eq :: algo_ineq :: n_rep :: n_num :: para[r][i]...
   qs = atol :: eps_eq_false :: eps_ineq :: (e_eq, e_ineq)[r][i]...   ; Err 1 = IndexError *)
Fixpoint mk_row (n : nat) (ps : list Z) (qs : list Qc) : list (est Qc_OF) :=
  match n, ps, qs with
  | S k, p :: ps', a :: b :: qs' => Build_est Qc_OF (negb (p =? 0)%Z) a b :: mk_row k ps' qs'
  | _, _, _ => []
  end.
Fixpoint mk_ests (nrep nnum : nat) (ps : list Z) (qs : list Qc) : list (list (est Qc_OF)) :=
  match nrep with
  | O => []
  | S k => mk_row nnum ps qs :: mk_ests k nnum (skipn nnum ps) (skipn (nnum + nnum) qs)
  end.
Definition op_check : opfun := fun zs qs =>
  match zs, qs with
  | kd :: ho :: ae :: ai :: nr :: nn :: ps, at_ :: ef :: iq :: ds =>
      let kind := if (kd =? 0)%Z then ELinear else if (kd =? 1)%Z then EProjLinear else if (kd =? 2)%Z then ELossMin else EOther in
      let c := {| k_kind := kind; k_has_option := negb (ho =? 0)%Z; k_algo_eq := negb (ae =? 0)%Z; k_algo_ineq := negb (ai =? 0)%Z |} in
      let th := Build_thresholds Qc_OF at_ ef iq in
      let ests := mk_ests (Z.to_nat nr) (Z.to_nat nn) ps ds in
      match check Qc_OF th c ests (Z.to_nat nn) with
      | Some b => Ok [qb b; qb (existsb (existsb (fun e => violates Qc_OF th c (match get Qc_OF ests 0 0 with Some e0 => e_para e0 | None => false end) e)) ests)]
      | None => Err 1
      end
  | _, _ => Err (-1) end.

(* ---- depolarising noise.  zs = [n]; qs = p :: data ; Err 1 = ValueError (rate outside [0,1]) *)
Definition op_depol_state : opfun := fun zs qs =>
  match zs, qs with
  | [n], p :: v => let n' := Z.to_nat n in
      if rate_ok Qc_OF p then Ok (list_of_vec n' (depol_state Qc_OF n' p (vec_of_list 0%Qc v))) else Err 1
  | _, _ => Err (-1) end.
Definition op_depol_povm_elem : opfun := fun zs qs =>
  match zs, qs with
  | [n], p :: v => let n' := Z.to_nat n in
      if rate_ok Qc_OF p then Ok (list_of_vec n' (depol_povm_elem Qc_OF n' p (vec_of_list 0%Qc v))) else Err 1
  | _, _ => Err (-1) end.
Definition op_depol_gate : opfun := fun zs qs =>
  match zs, qs with
  | [n], p :: l => let n' := Z.to_nat n in
      if rate_ok Qc_OF p then Ok (flat_of_mat n' n' (depol_gate Qc_OF n' p (mat_of_flat 0%Qc n' n' l))) else Err 1
  | _, _ => Err (-1) end.
Definition op_mix_vec : opfun := fun zs qs =>
  match zs, qs with
  | [n], p :: v => let n' := Z.to_nat n in Ok (list_of_vec n' (mix_vec Qc_OF p (vec_of_list 0%Qc v)))
  | _, _ => Err (-1) end.
Definition op_mix_hs : opfun := fun zs qs =>
  match zs, qs with
  | [n], p :: l => let n' := Z.to_nat n in Ok (flat_of_mat n' n' (mix_hs Qc_OF p (mat_of_flat 0%Qc n' n' l)))
  | _, _ => Err (-1) end.
(* zs = [d]; qs = p :: interleaved complex d x d matrix X : D_p(X) = (1-p) X + p tr(X) I/d *)
Definition op_D_op : opfun := fun zs qs =>
  match zs, qs with
  | [d], p :: l => let d' := Z.to_nat d in
      let X : cmat Qc_OF := mat_of_flat (0%Qc, 0%Qc) d' d' (cplx_of_flat l) in
      Ok (flat_of_cplx (flat_of_mat d' d' (D_op Qc_OF d' (qz d) p X)))
  | _, _ => Err (-1) end.

Definition C15_ops : optable :=
  [ ("c15.single_keys"%string, op_single_keys);
    ("c15.flow_keys"%string, op_flow_keys);
    ("c15.run_tasks"%string, op_run_tasks);
    ("c15.spawn_paths"%string, op_spawn_paths);
    ("c15.par_exec"%string, op_par_exec);
    ("c15.check"%string, op_check);
    ("c15.depol_state"%string, op_depol_state);
    ("c15.depol_povm_elem"%string, op_depol_povm_elem);
    ("c15.depol_gate"%string, op_depol_gate);
    ("c15.mix_vec"%string, op_mix_vec);
    ("c15.mix_hs"%string, op_mix_hs);
    ("c15.D_op"%string, op_D_op) ].
