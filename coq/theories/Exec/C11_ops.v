(* Executable wrappers for the C11 models (instantiated at Qc). *)
From Coq Require Import ZArith QArith Qcanon List Bool Arith.
From QV.Core Require Import OF QcOF Sums Mat Cplx.
From QV.Exec Require Import Base.
From QV.Model Require Import QObj C11_Pgdb C11_Cvx.
Import ListNotations.

Local Notation Q := Qc_OF.
Definition c11_take (n : nat) (l : list Qc) : list Qc * list Qc := (firstn n l, skipn n l).
Definition c11_vec (l : list Qc) : @vec Q := vec_of_list 0%Qc l.
Definition c11_rmat (m n : nat) (l : list Qc) : @mat Q := mat_of_flat 0%Qc m n l.
Definition c11_mode (z : Z) : C11_mode :=
  if (z =? 0)%Z then C11_SingleDiffLoss else if (z =? 1)%Z then C11_SumAbsDiffLoss
  else if (z =? 2)%Z then C11_SumAbsDiffVar else C11_SumAbsDiffProjGrad.
Definition c11_out_vec (n : nat) (v : @vec Q) : list Qc := list_of_vec n v.

(* ---- squared-error loss ---- *)
(* zs = [m; n]; qs = A (m*n, row-major) ++ b (m) ++ q (m) ++ v (n) *)
Definition c11_read_sq (m n : nat) (qs : list Qc) :=
  let '(la, r1) := c11_take (m * n) qs in let '(lb, r2) := c11_take m r1 in let '(lq, r3) := c11_take m r2 in
  (c11_rmat m n la, c11_vec lb, c11_vec lq, r3).
Definition op_sq_value : opfun := fun zs qs =>
  match zs with
  | [m; n] => let m' := Z.to_nat m in let n' := Z.to_nat n in
      let '(A, b, q, r) := c11_read_sq m' n' qs in
      Ok [C11_sq_loss Q m' n' A b q (c11_vec (firstn n' r))]
  | _ => Err (-1) end.
Definition op_sq_grad : opfun := fun zs qs =>
  match zs with
  | [m; n] => let m' := Z.to_nat m in let n' := Z.to_nat n in
      let '(A, b, q, r) := c11_read_sq m' n' qs in
      Ok (c11_out_vec n' (C11_sq_grad Q m' n' A b q (c11_vec (firstn n' r))))
  | _ => Err (-1) end.

(* exact margins  phi(2^-k) - (fx + gamma 2^-k slope)  of the Armijo tests k = 0 .. halvings  (> 0 : rejected) *)
Fixpoint c11_margins (phi : Qc -> Qc) (fx gamma slope alpha : Qc) (cnt : nat) : list Qc :=
  (phi alpha - (fx + gamma * alpha * slope))%Qc ::
  match cnt with O => [] | S c => c11_margins phi fx gamma slope (C11_half Q * alpha)%Qc c end.
(* reply: [halvings; alpha; error value; window value; continue?; f x; f x_next; slope; |x - x_next|^2; |y|^2]
          ++ x_next (n) ++ margins (halvings + 1) *)
Definition c11_out_iter (n : nat) (phi : Qc -> Qc) (fx gamma slope : Qc) (x y : @vec Q) (o : C11_iter_out Q) : res :=
  Ok ([ qz (Z.of_nat (io_halvings o)); io_alpha o; io_err o; io_value o; qb (io_continue o);
        fx; phi (io_alpha o); slope;
        C11_nrm2 Q n (@vsub Q x (io_x o)); C11_nrm2 Q n y ]
      ++ c11_out_vec n (io_x o)
      ++ c11_margins phi fx gamma slope 1%Qc (io_halvings o)).

(* one loop iteration for the squared-error loss, the direction y being given (the projection is an oracle).
   zs = [m; n; fuel; mode; h; nerrs]
   qs = [gamma; eps; e_impl] ++ A ++ b ++ q ++ x (n) ++ y (n) ++ errs (nerrs, newest first)
   [e_impl] is the implementation's error value of this iteration; the square root of modes 2,3 is the constant
   function returning it (the radicands are returned so that the caller can check e_impl^2 against them). *)
Definition op_sq_iter : opfun := fun zs qs =>
  match zs, qs with
  | [m; n; fuel; mode; h; nerrs], gamma :: eps :: eimpl :: rest =>
      let m' := Z.to_nat m in let n' := Z.to_nat n in
      let '(A0, b, q, r) := c11_read_sq m' n' rest in
      let A : @mat Q := freeze 0%Qc m' n' A0 in
      let '(lx, r1) := c11_take n' r in let '(ly, r2) := c11_take n' r1 in
      let errs := firstn (Z.to_nat nerrs) r2 in
      let x := c11_vec lx in let y := c11_vec ly in
      let f := C11_sq_loss Q m' n' A b q in let g := C11_sq_grad Q m' n' A b q in
      match C11_body Q (fun _ => eimpl) n' f g gamma eps (c11_mode mode) (Z.to_nat h) (Z.to_nat fuel) x y errs with
      | Some o => c11_out_iter n' (C11_phi Q f x y) (f x) gamma (C11_slope Q n' g x y) x y o
      | None => Err 2
      end
  | _, _ => Err (-1) end.

(* the same iteration for a loss known only through its values on the ray (relative entropy: ln is not rational).
   zs = [n; fuel; mode; h; nerrs; ntab]
   qs = [gamma; eps; e_impl; fx] ++ g (n) ++ x (n) ++ y (n) ++ errs (nerrs) ++ tab (ntab: loss at x + 2^-k y, k = 0..)
   phi is the table lookup at exactly 2^-k (0 elsewhere). *)
Fixpoint c11_tab_phi (tab : list Qc) (a0 : Qc) (a : Qc) : Qc :=
  match tab with
  | [] => 0%Qc
  | v :: t => if keqb Q a a0 then v else c11_tab_phi t (C11_half Q * a0)%Qc a
  end.
Definition op_tab_iter : opfun := fun zs qs =>
  match zs, qs with
  | [n; fuel; mode; h; nerrs; ntab], gamma :: eps :: eimpl :: fx :: rest =>
      let n' := Z.to_nat n in
      let '(lg, r0) := c11_take n' rest in let '(lx, r1) := c11_take n' r0 in let '(ly, r2) := c11_take n' r1 in
      let '(errs, r3) := c11_take (Z.to_nat nerrs) r2 in
      let tab := firstn (Z.to_nat ntab) r3 in
      let x := c11_vec lx in let y := c11_vec ly in let gx := c11_vec lg in
      let phi := c11_tab_phi tab 1%Qc in
      let slope := @dot Q n' y gx in
      match C11_body_ray Q (fun _ => eimpl) n' gamma eps (c11_mode mode) (Z.to_nat h) (Z.to_nat fuel) phi fx slope x y errs with
      | Some o => c11_out_iter n' phi fx gamma slope x y o
      | None => Err 2
      end
  | _, _ => Err (-1) end.

(* zs = [h; nerrs]; qs = eps :: errs (newest first)  ->  [window sum; continue?] *)
Definition op_stop : opfun := fun zs qs =>
  match zs, qs with
  | [h; nerrs], eps :: errs =>
      let e := firstn (Z.to_nat nerrs) errs in
      Ok [C11_window_sum Q (Z.to_nat h) e; qb (C11_continue Q (Z.to_nat h) eps e)]
  | _, _ => Err (-1) end.

(* zs = [n; mode]; qs = [fprev; fnext] ++ xprev ++ xnext ++ y  ->  error value (modes 0,1) / its radicand (modes 2,3) *)
Definition op_errval : opfun := fun zs qs =>
  match zs, qs with
  | [n; mode], fp :: fn :: rest =>
      let n' := Z.to_nat n in
      let '(l1, r1) := c11_take n' rest in let '(l2, r2) := c11_take n' r1 in
      Ok [C11_err_value Q (fun r => r) n' (c11_mode mode) fp fn (c11_vec l1) (c11_vec l2) (c11_vec (firstn n' r2))]
  | _, _ => Err (-1) end.

(* a-posteriori quantities.  zs = [n]; qs = mu :: x ++ g ++ y ++ z
   -> [gap bound for competitor z; descent defect <g,y>+mu|y|^2; |y|^2; <g,y>] *)
Definition op_gap : opfun := fun zs qs =>
  match zs, qs with
  | [n], mu :: rest =>
      let n' := Z.to_nat n in
      let '(lx, r1) := c11_take n' rest in let '(lg, r2) := c11_take n' r1 in let '(ly, r3) := c11_take n' r2 in
      let x := c11_vec lx in let gx := c11_vec lg in let y := c11_vec ly in let z := c11_vec (firstn n' r3) in
      Ok [C11_gap_bound Q n' mu x gx y z; C11_descent_defect Q n' mu gx y; C11_nrm2 Q n' y; @dot Q n' gx y]
  | _, _ => Err (-1) end.

(* the metric certificate of the code as written.  zs = [n]; qs = mu :: g (n) ++ y (n) ++ M (n*n, row-major)
   -> [<M g, y> + mu <y, M y>;  <y, M y>;  <g,y> + mu |y|^2] *)
Definition op_metric : opfun := fun zs qs =>
  match zs, qs with
  | [n], mu :: rest =>
      let n' := Z.to_nat n in
      let '(lg, r1) := c11_take n' rest in let '(ly, r2) := c11_take n' r1 in
      let gx := c11_vec lg in let y := c11_vec ly in
      let M : @mat Q := freeze 0%Qc n' n' (c11_rmat n' n' (firstn (n' * n') r2)) in
      Ok [C11_descent_defect_metric Q n' M mu gx y; C11_ipM Q n' M y y; C11_descent_defect Q n' mu gx y]
  | _, _ => Err (-1) end.

(* the embedding of the on_para_eq_constraint=True POVM variable and its metric.  zs = [D; m]
   -> L (m*D x (m-1)*D, row-major) ++ L^T L ((m-1)*D x (m-1)*D, row-major) *)
Definition op_povm_embed : opfun := fun zs _ =>
  match zs with
  | [D; m] =>
      let D' := Z.to_nat D in let m' := Z.to_nat m in
      let N := (m' * D')%nat in let n := ((m' - 1) * D')%nat in
      let L : @mat Q := freeze 0%Qc N n (C11_povm_L Q D' m') in
      Ok (flat_of_mat N n L ++ flat_of_mat n n (C11_metric_of Q N L))
  | _ => Err (-1) end.

(* ---- CVXPY interface maps ---- *)
(* basis: d*d matrices of d x d complex entries, flattened row-major, interleaved (re, im) *)
Definition c11_cmat (k : nat) (l : list Qc) : cmat Q := mat_of_flat (0%Qc, 0%Qc) k k (cplx_of_flat l).
Fixpoint c11_blocks (cnt size : nat) (l : list Qc) : list (list Qc) :=
  match cnt with O => [] | S c => firstn size l :: c11_blocks c size (skipn size l) end.
Definition c11_basis (d : nat) (l : list Qc) : nat -> cmat Q :=
  let ms := map (c11_cmat d) (c11_blocks (d * d) (2 * d * d) l) in
  fun a => nth a ms (fun _ _ => (0%Qc, 0%Qc)).
Definition c11_out_cmat (k : nat) (M : cmat Q) : res := Ok (flat_of_cplx (flat_of_mat k k M)).

(* zs = [d; which]; qs = [c; dd] ++ basis ++ var (d*d-1);  which: 0 reference, 1 dmat_from_var, 2 dmat_from_var_with_sparsity *)
Definition op_cvx_state : opfun := fun zs qs =>
  match zs, qs with
  | [d; which], c :: dd :: rest =>
      let d' := Z.to_nat d in
      let '(lb, lv) := c11_take (2 * d' * d' * (d' * d')) rest in
      let B := c11_basis d' lb in let var := c11_vec lv in
      c11_out_cmat d' (if (which =? 0)%Z then op_of_vec d' B (C11_state_vec Q c var)
                       else if (which =? 1)%Z then C11_dmat_from_var Q d' dd B var
                       else C11_dmat_sp Q d' c B var)
  | _, _ => Err (-1) end.
(* zs = [d; m; x; which]; qs = [sd] ++ basis ++ var ((m-1)*d*d) *)
Definition op_cvx_povm : opfun := fun zs qs =>
  match zs, qs with
  | [d; m; x; which], sd :: rest =>
      let d' := Z.to_nat d in let m' := Z.to_nat m in let x' := Z.to_nat x in
      if negb (x' <? m')%nat then Err 1 else
      let '(lb, lv) := c11_take (2 * d' * d' * (d' * d')) rest in
      let B := c11_basis d' lb in let var := c11_vec lv in
      c11_out_cmat d' (if (which =? 0)%Z then op_of_vec d' B (C11_povm_vec Q (d' * d') m' sd var x')
                       else if (which =? 1)%Z then C11_povm_element_from_var Q d' m' sd B var x'
                       else C11_povm_sp Q d' m' sd B var x')
  | _, _ => Err (-1) end.
(* zs = [d; which]; qs = [dd] ++ basis ++ var (d^4 - d^2) *)
Definition op_cvx_gate : opfun := fun zs qs =>
  match zs, qs with
  | [d; which], dd :: rest =>
      let d' := Z.to_nat d in
      let '(lb, lv) := c11_take (2 * d' * d' * (d' * d')) rest in
      let B := c11_basis d' lb in let var := c11_vec lv in
      c11_out_cmat (d' * d') (if (which =? 0)%Z then choi_of_hs d' B (C11_gate_hs Q (d' * d') var)
                              else if (which =? 1)%Z then C11_choi_from_var Q d' dd B var
                              else C11_choi_sp Q d' B var)
  | _, _ => Err (-1) end.
(* zs = [d; m; x; which]; qs = basis ++ var (m*d^4 - d^2);  which: 0 reference, 1 mprocess_element_choi_from_var,
   2 ..._with_sparsity, 3 the dense function as coded BEFORE fix mprocess-element-choi-from-var-last-outcome *)
Definition op_cvx_mp : opfun := fun zs qs =>
  match zs with
  | [d; m; x; which] =>
      let d' := Z.to_nat d in let m' := Z.to_nat m in let x' := Z.to_nat x in
      if negb (x' <? m')%nat then Err 1 else
      let '(lb, lv) := c11_take (2 * d' * d' * (d' * d')) qs in
      let B := c11_basis d' lb in let var := c11_vec lv in
      c11_out_cmat (d' * d') (if (which =? 0)%Z then choi_of_hs d' B (C11_mp_hs Q (d' * d') m' var x')
                              else if (which =? 1)%Z then C11_mp_choi_from_var Q d' m' B var x'
                              else if (which =? 2)%Z then C11_mp_choi_sp Q d' m' B var x'
                              else C11_mp_choi_from_var_before_fix Q d' m' B var x')
  | _ => Err (-1) end.

Definition C11_ops : optable :=
  [ ("c11.sq_value"%string, op_sq_value); ("c11.sq_grad"%string, op_sq_grad);
    ("c11.sq_iter"%string, op_sq_iter); ("c11.tab_iter"%string, op_tab_iter);
    ("c11.stop"%string, op_stop); ("c11.errval"%string, op_errval); ("c11.gap"%string, op_gap); ("c11.metric"%string, op_metric); ("c11.povm_embed"%string, op_povm_embed);
    ("c11.cvx_state"%string, op_cvx_state); ("c11.cvx_povm"%string, op_cvx_povm);
    ("c11.cvx_gate"%string, op_cvx_gate); ("c11.cvx_mp"%string, op_cvx_mp) ].
