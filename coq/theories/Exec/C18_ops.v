(* Executable wrappers for the C18 model (effective Lindbladians), instantiated at Qc.
   Every op:  zs = d :: flags ,  qs = [scalars ++] basis (d*d matrices, d x d, interleaved re/im, row-major) ++ data.
   Intermediate matrices are materialised with [freeze] (function-matrices recompute entries on each access). *)
From Coq Require Import ZArith QArith Qcanon List Bool Arith.
From QV.Core Require Import OF QcOF Sums Mat Cplx Psd.
From QV.Exec Require Import Base Core_ops.
From QV.Model Require Import QObj HermEmbed C18_Lindblad.
Import ListNotations.

Notation CM := (cmat Qc_OF).
Notation RM := (rmat Qc_OF).
Definition cz : cplx Qc_OF := (0%Qc, 0%Qc).
Definition cfrz (m n : nat) (A : CM) : CM := freeze cz m n A.
Definition rfrz (m n : nat) (A : RM) : RM := freeze 0%Qc m n A.

Definition read_basis (d : nat) (l : list Qc) : (nat -> CM) * list Qc :=
  let sz := (d * d)%nat in
  let mats := map (fun a => cmat_of_flat d d (firstn (2 * sz) (skipn (a * (2 * sz)) l))) (seq 0 sz) in
  (fun a => nth a mats (fun _ _ => cz), skipn (sz * (2 * sz)) l).
Definition read_cmat (m n : nat) (l : list Qc) : CM * list Qc :=
  (cmat_of_flat m n (firstn (2 * (m * n)) l), skipn (2 * (m * n)) l).
Definition read_rmat (m n : nat) (l : list Qc) : RM * list Qc :=
  (rmat_of_flat m n (firstn (m * n) l), skipn (m * n) l).
Fixpoint read_cmats (k m n : nat) (l : list Qc) : list CM * list Qc :=
  match k with O => ([], l) | S k' => let '(A, r) := read_cmat m n l in let '(As, r') := read_cmats k' m n r in (A :: As, r') end.

(* the comp-basis generator for the four constructors.  mode 0: h,j,k  1: h,k  2: h  3: k *)
Definition build_lcb (d : nat) (mode : Z) (B : nat -> CM) (l : list Qc) : CM :=
  let n := (d * d)%nat in let m := (n - 1)%nat in
  if (mode =? 0)%Z then let '(H, r1) := read_cmat d d l in let '(J, r2) := read_cmat d d r1 in let '(K, _) := read_cmat m m r2 in
      lcb_hjk d B H J K
  else if (mode =? 1)%Z then let '(H, r1) := read_cmat d d l in let '(K, _) := read_cmat m m r1 in
      lcb_hjk d B H (cfrz d d (j_of_k d B K)) K
  else if (mode =? 2)%Z then let '(H, _) := read_cmat d d l in lcb_h d H
  else let '(K, _) := read_cmat m m l in madd (j_part d (cfrz d d (j_of_k d B K))) (k_part d B K).
(* zs = [d; mode]; qs = basis ++ matrices  ->  L_cb (complex n x n) *)
Definition op_lcb : opfun := fun zs qs =>
  match zs with
  | [dz; mode] => let d := Z.to_nat dz in let n := (d * d)%nat in
      let '(B, r) := read_basis d qs in Ok (flat_of_cmat n n (build_lcb d mode B r))
  | _ => Err (-1) end.

Definition conv_to_B (d : nat) (B : nat -> CM) (L : CM) : CM :=
  let n := (d * d)%nat in let U := cfrz n n (Umat d B) in let Ud := cfrz n n (cadj U) in
  mmul n (cfrz n n (mmul n U L)) Ud.
Definition conv_to_cb (d : nat) (B : nat -> CM) (HS : CM) : CM :=
  let n := (d * d)%nat in let U := cfrz n n (Umat d B) in let Ud := cfrz n n (cadj U) in
  cfrz n n (mmul n (cfrz n n (mmul n Ud HS)) U).

(* zs = [d; mode]; qs = atol :: eps :: basis ++ matrices -> generate_hs_from_* incl. error branches (Err 1/2/3/4) *)
Definition op_gen : opfun := fun zs qs =>
  match zs, qs with
  | [dz; mode], atol :: eps :: qs' => let d := Z.to_nat dz in let n := (d * d)%nat in let m := (n - 1)%nat in
      let '(B, r) := read_basis d qs' in
      let chk := if (mode =? 0)%Z then let '(H, r1) := read_cmat d d r in let '(J, r2) := read_cmat d d r1 in let '(K, _) := read_cmat m m r2 in
                      if negb (herm_tol Qc_OF d atol H) then 1%Z else if negb (herm_tol Qc_OF d atol J) then 2%Z
                      else if negb (herm_tol Qc_OF m atol K) then 3%Z else 0%Z
                 else if (mode =? 1)%Z then let '(H, r1) := read_cmat d d r in let '(K, _) := read_cmat m m r1 in
                      if negb (herm_tol Qc_OF d atol H) then 1%Z else if negb (herm_tol Qc_OF m atol K) then 3%Z else 0%Z
                 else if (mode =? 2)%Z then let '(H, _) := read_cmat d d r in if negb (herm_tol Qc_OF d atol H) then 1%Z else 0%Z
                 else let '(K, _) := read_cmat m m r in if negb (herm_tol Qc_OF m atol K) then 3%Z else 0%Z in
      if negb (chk =? 0)%Z then Err chk else
      let L := cfrz n n (build_lcb d mode B r) in
      match truncate_hs Qc_OF n eps (cfrz n n (conv_to_B d B L)) with
      | Some hs => Ok (flat_of_rmat n n hs) | None => Err 4 end
  | _, _ => Err (-1) end.

(* zs = [d; which]; qs = basis ++ HS (real n x n) -> calc_h_mat (0) / calc_j_mat (1) / calc_j_mat as coded before fix
   c18-calc-j-mat-identity-component (2, attribution only) / calc_k_mat (3) *)
Definition op_extract : opfun := fun zs qs =>
  match zs with
  | [dz; which] => let d := Z.to_nat dz in let n := (d * d)%nat in let m := (n - 1)%nat in
      let '(B, r) := read_basis d qs in let '(HS, _) := read_rmat n n r in
      let L := conv_to_cb d B (cof HS) in
      if (which =? 0)%Z then Ok (flat_of_cmat d d (calc_h_mat d B L))
      else if (which =? 1)%Z then Ok (flat_of_cmat d d (calc_j_mat d B L))
      else if (which =? 2)%Z then Ok (flat_of_cmat d d (calc_j_mat_prefix d B L))
      else Ok (flat_of_cmat m m (calc_k_mat d B L))
  | _ => Err (-1) end.

(* zs = [d; which; prefix; herm]; qs = basis ++ HS -> calc_h_part (0) / calc_j_part (1) / calc_k_part (2) / calc_d_part (3) /
   rebuilt generator h+j+k (4); prefix <> 0: with calc_j_mat as coded before the fix (attribution only);
   comp basis (herm = 0) or converted to B (herm = 1; complex, before truncation) *)
Definition op_parts : opfun := fun zs qs =>
  match zs with
  | [dz; which; prefix; herm] => let d := Z.to_nat dz in let n := (d * d)%nat in let m := (n - 1)%nat in
      let '(B, r) := read_basis d qs in let '(HS, _) := read_rmat n n r in
      let L := conv_to_cb d B (cof HS) in
      let jm := cfrz d d ((if (prefix =? 0)%Z then calc_j_mat else calc_j_mat_prefix) d B L) in
      let hp := fun _ : unit => h_part d (cfrz d d (calc_h_mat d B L)) in
      let jp := fun _ : unit => j_part d jm in
      let kp := fun _ : unit => k_part d B (cfrz m m (calc_k_mat d B L)) in
      let P := if (which =? 0)%Z then hp tt else if (which =? 1)%Z then jp tt else if (which =? 2)%Z then kp tt
               else if (which =? 3)%Z then madd (jp tt) (kp tt) else madd (madd (hp tt) (jp tt)) (kp tt) in
      let P := cfrz n n P in
      Ok (flat_of_cmat n n (if (herm =? 0)%Z then P else conv_to_B d B P))
  | _ => Err (-1) end.

(* zs = [d]; qs = basis ++ HS -> all of op_parts (prefix = 0) in ONE call (the extracted matrices are computed once):
   h, j, k, d parts in the comp basis, then h, j, k, d parts and the rebuilt generator converted to B : 9 complex n x n matrices *)
Definition op_parts_all : opfun := fun zs qs =>
  match zs with
  | [dz] => let d := Z.to_nat dz in let n := (d * d)%nat in let m := (n - 1)%nat in
      let '(B, r) := read_basis d qs in let '(HS, _) := read_rmat n n r in
      let L := conv_to_cb d B (cof HS) in
      let hp := cfrz n n (h_part d (cfrz d d (calc_h_mat d B L))) in
      let jp := cfrz n n (j_part d (cfrz d d (calc_j_mat d B L))) in
      let kp := cfrz n n (k_part d B (cfrz m m (calc_k_mat d B L))) in
      let dp := cfrz n n (madd jp kp) in
      let wh := cfrz n n (madd (madd hp jp) kp) in
      let out := fun P => flat_of_cmat n n P in
      Ok (out hp ++ out jp ++ out kp ++ out dp ++ out (conv_to_B d B hp) ++ out (conv_to_B d B jp) ++ out (conv_to_B d B kp)
          ++ out (conv_to_B d B dp) ++ out (conv_to_B d B wh))
  | _ => Err (-1) end.

(* zs = [d; k; variant; herm]; qs = basis ++ k jump operators -> d part from jump operators (variant 0), j part (2), k part (3);
   as coded before fix c18-jump-operators-cdagger-c (attribution only): d part (1), j part (4) *)
Definition op_jump : opfun := fun zs qs =>
  match zs with
  | [dz; kz; variant; herm] => let d := Z.to_nat dz in let n := (d * d)%nat in
      let '(B, r) := read_basis d qs in let '(cs0, _) := read_cmats (Z.to_nat kz) d d r in
      let cs := map (cfrz d d) cs0 in
      let P := if (variant =? 0)%Z then jump_d d cs else if (variant =? 1)%Z then jump_d_prefix d cs
               else if (variant =? 2)%Z then jump_j d cs else if (variant =? 3)%Z then jump_k d cs else jump_j_prefix d cs in
      let P := cfrz n n P in
      Ok (flat_of_cmat n n (if (herm =? 0)%Z then P else conv_to_B d B P))
  | _ => Err (-1) end.

(* zs = [d; k]; qs = basis ++ k decompositions (a : 1 complex, g : d*d-1 complex) -> H_eff (d x d) ++ K (m x m) of the (H, K) form
   of the jump-operator generator (jumps_H, jumps_K), ++ the jump operators themselves (k matrices d x d) *)
Fixpoint read_decomps (k m : nat) (l : list Qc) : list (cplx Qc_OF * (nat -> cplx Qc_OF)) :=
  match k with
  | O => []
  | S k' => let a := nth 0 (cplx_of_flat (firstn 2 l)) cz in
            let g := cplx_of_flat (firstn (2 * m) (skipn 2 l)) in
            (a, fun b => nth b g cz) :: read_decomps k' m (skipn (2 + 2 * m) l)
  end.
Definition op_jump_hk : opfun := fun zs qs =>
  match zs with
  | [dz; kz] => let d := Z.to_nat dz in let n := (d * d)%nat in let m := (n - 1)%nat in
      let '(B, r) := read_basis d qs in
      let l := read_decomps (Z.to_nat kz) m r in
      let lf := map (fun p => (fst p, snd p)) l in
      let tls := map (fun p => (fst p, cfrz d d (jump_tl d B (snd p)))) l in
      let H := cfrz d d (msum (map (fun p => jump_heff (fst p) (snd p)) tls)) in
      let K := cfrz m m (jumps_K l) in
      Ok (flat_of_cmat d d H ++ flat_of_cmat m m K
          ++ flat_map (fun p => flat_of_cmat d d (madd (snd p) (mscale (fst p) mid))) tls)
  | _ => Err (-1) end.

(* zs = [d]; qs = basis ++ H ++ K ++ rho -> the GKSL right-hand side evaluated directly on matrices *)
Definition op_gksl : opfun := fun zs qs =>
  match zs with
  | [dz] => let d := Z.to_nat dz in let m := (d * d - 1)%nat in
      let '(B, r) := read_basis d qs in let '(H, r1) := read_cmat d d r in let '(K, r2) := read_cmat m m r1 in
      let '(rho, _) := read_cmat d d r2 in Ok (flat_of_cmat d d (gksl d B H K rho))
  | _ => Err (-1) end.
(* zs = [d; k]; qs = k jump operators ++ rho *)
Definition op_gksl_jump : opfun := fun zs qs =>
  match zs with
  | [dz; kz] => let d := Z.to_nat dz in
      let '(cs, r) := read_cmats (Z.to_nat kz) d d qs in let '(rho, _) := read_cmat d d r in
      Ok (flat_of_cmat d d (gksl_jump d cs rho))
  | _ => Err (-1) end.
(* zs = [d]; qs = L_cb (complex n x n) ++ rho -> unvec (L vec rho) *)
Definition op_apply_cb : opfun := fun zs qs =>
  match zs with
  | [dz] => let d := Z.to_nat dz in let n := (d * d)%nat in
      let '(L, r) := read_cmat n n qs in let '(rho, _) := read_cmat d d r in Ok (flat_of_cmat d d (apply_cb d L rho))
  | _ => Err (-1) end.

(* zs = [d]; qs = atol :: basis ++ HS -> [is_tp; K Hermitian within atol; PSD(herm K + atol I); is_cp; is_physical] *)
Definition op_verdict : opfun := fun zs qs =>
  match zs, qs with
  | [dz], atol :: qs' => let d := Z.to_nat dz in let n := (d * d)%nat in let m := (n - 1)%nat in
      let '(B, r) := read_basis d qs' in let '(HS, _) := read_rmat n n r in
      let K := cfrz m m (calc_k_mat d B (conv_to_cb d B (cof HS))) in
      let tp := is_tp_dec Qc_OF n atol HS in
      let hm := herm_tol Qc_OF m atol K in
      let ps := psd_fast (m + m) (shiftI Qc_OF atol (embed Qc_OF m (cfrz m m (herm_part K)))) in
      Ok [qb tp; qb hm; qb ps; qb (hm && ps); qb (tp && (hm && ps))]
  | _, _ => Err (-1) end.

(* zs = [d; k]; qs = atol_1 .. atol_k ++ basis ++ HS -> op_verdict for k tolerances with the k matrix extracted once *)
Definition op_verdicts : opfun := fun zs qs =>
  match zs with
  | [dz; kz] => let d := Z.to_nat dz in let n := (d * d)%nat in let m := (n - 1)%nat in
      let atols := firstn (Z.to_nat kz) qs in
      let '(B, r) := read_basis d (skipn (Z.to_nat kz) qs) in let '(HS, _) := read_rmat n n r in
      let K := cfrz m m (calc_k_mat d B (conv_to_cb d B (cof HS))) in
      let Kh := cfrz m m (herm_part K) in
      Ok (flat_map (fun atol =>
            let tp := is_tp_dec Qc_OF n atol HS in
            let hm := herm_tol Qc_OF m atol K in
            let ps := psd_fast (m + m) (shiftI Qc_OF atol (embed Qc_OF m Kh)) in
            [qb tp; qb hm; qb ps; qb (hm && ps); qb (tp && (hm && ps))]) atols)
  | _ => Err (-1) end.

(* zs = [d; sparse]; qs = basis ++ K -> j_mat from k_mat (slow formula / through the table) *)
Definition op_j_of_k : opfun := fun zs qs =>
  match zs with
  | [dz; sp] => let d := Z.to_nat dz in let m := (d * d - 1)%nat in
      let '(B, r) := read_basis d qs in let '(K, _) := read_cmat m m r in
      Ok (flat_of_cmat d d (if (sp =? 0)%Z then j_of_k d B K else j_of_k_sparse d B K))
  | _ => Err (-1) end.
(* zs = [d; sparse]; qs = basis ++ K -> k part *)
Definition op_k_part : opfun := fun zs qs =>
  match zs with
  | [dz; sp] => let d := Z.to_nat dz in let n := (d * d)%nat in let m := (n - 1)%nat in
      let '(B, r) := read_basis d qs in let '(K, _) := read_cmat m m r in
      Ok (flat_of_cmat n n (if (sp =? 0)%Z then k_part d B K else k_part_sparse d B K))
  | _ => Err (-1) end.
(* zs = [d; which; col]; qs = basis -> one column of tab_k (which = 0, n*n entries) / tab_j (1, d*d entries) *)
Definition op_tab_col : opfun := fun zs qs =>
  match zs with
  | [dz; which; col] => let d := Z.to_nat dz in let n := (d * d)%nat in let c := Z.to_nat col in
      let '(B, _) := read_basis d qs in
      if (which =? 0)%Z then Ok (flat_of_cplx (list_of_vec (n * n) (fun r => tab_k d B r c)))
      else Ok (flat_of_cplx (list_of_vec n (fun r => tab_j d B r c)))
  | _ => Err (-1) end.

(* zs = [n]; qs = real n x n -> calc_proj_eq_constraint (first row zeroed) *)
Definition op_proj_eq : opfun := fun zs qs =>
  match zs with
  | [nz] => let n := Z.to_nat nz in Ok (flat_of_rmat n n (proj_eq (rmat_of_flat n n qs)))
  | _ => Err (-1) end.

(* zs = [d]; qs = basis ++ HS (real n x n) ++ K' (complex m x m) -> calc_proj_ineq_constraint with the clipped matrix K'
   supplied (numpy eig is an oracle): proj_ineq_cb converted to B (complex, before truncation) *)
Definition op_proj_ineq : opfun := fun zs qs =>
  match zs with
  | [dz] => let d := Z.to_nat dz in let n := (d * d)%nat in let m := (n - 1)%nat in
      let '(B, r) := read_basis d qs in let '(HS, r1) := read_rmat n n r in let '(K', _) := read_cmat m m r1 in
      let L := conv_to_cb d B (cof HS) in
      let P := cfrz n n (lcb_hjk d B (cfrz d d (calc_h_mat d B L)) (cfrz d d (calc_j_mat d B L)) K') in
      Ok (flat_of_cmat n n (conv_to_B d B P))
  | _ => Err (-1) end.

(* zs = [n]; qs = eps :: complex n x n -> _truncate_hs (Err 4: imaginary part left) *)
Definition op_trunc : opfun := fun zs qs =>
  match zs, qs with
  | [nz], eps :: l => let n := Z.to_nat nz in
      match truncate_hs Qc_OF n eps (cmat_of_flat n n l) with Some hs => Ok (flat_of_rmat n n hs) | None => Err 4 end
  | _, _ => Err (-1) end.

(* iterative evaluation of the Taylor partial sum (each term computed once), proved equal to the model's [texp] *)
Fixpoint texp_run (n : nat) (L : RM) (k fuel : nat) (term acc : RM) : RM :=
  match fuel with
  | O => acc
  | S f => let term' := rfrz n n (mscale (kdiv Qc_OF 1%Qc (ofnat (S k))) (mmul n L term)) in
           texp_run n L (S k) f term' (rfrz n n (madd acc term'))
  end.
Definition texp_fast (n : nat) (L : RM) (N : nat) : RM := texp_run n L 0 N mid mid.

Lemma tterm_S n (L : RM) k i j : (i < n)%nat -> (j < n)%nat ->
  tterm (rfrz n n) n L (S k) i j = mscale (kdiv Qc_OF 1%Qc (ofnat (S k))) (mmul n L (tterm (rfrz n n) n L k)) i j.
Proof. intros Hi Hj. cbn [tterm]. unfold rfrz. now rewrite freeze_spec. Qed.
Lemma texp_run_eq n (L : RM) : forall fuel k term acc,
  meq n n term (tterm (rfrz n n) n L k) -> meq n n acc (texp (rfrz n n) n L k) ->
  meq n n (texp_run n L k fuel term acc) (texp (rfrz n n) n L (k + fuel)).
Proof. induction fuel as [|f IH]; intros k term acc Ht Ha.
  - rewrite Nat.add_0_r. exact Ha.
  - cbn [texp_run]. replace (k + S f)%nat with (S k + f)%nat by now rewrite Nat.add_succ_r.
    assert (Ht' : meq n n (rfrz n n (mscale (kdiv Qc_OF 1%Qc (ofnat (S k))) (mmul n L term))) (tterm (rfrz n n) n L (S k))).
    { intros i j Hi Hj. unfold rfrz at 1. rewrite freeze_spec by assumption. rewrite tterm_S by assumption.
      unfold mscale. f_equal. unfold mmul. apply sumn_ext. intros l Hl. now rewrite Ht. }
    apply IH; [exact Ht'|].
    intros i j Hi Hj. unfold rfrz at 1. rewrite freeze_spec by assumption. unfold madd, texp. cbn [sumn].
    rewrite Ha, Ht' by assumption. reflexivity. Qed.
Lemma texp_fast_eq n (L : RM) N : meq n n (texp_fast n L N) (texp (rfrz n n) n L N).
Proof. unfold texp_fast. change N with (0 + N)%nat at 2. apply texp_run_eq.
  - intros i j _ _. reflexivity.
  - intros i j _ _. unfold texp. cbn. now rewrite Qcplus_0_l. Qed.

(* zs = [n; N]; qs = real n x n -> sum_{k <= N} L^k / k! *)
Definition op_texp : opfun := fun zs qs =>
  match zs with
  | [nz; Nz] => let n := Z.to_nat nz in
      Ok (flat_of_rmat n n (texp_fast n (rmat_of_flat n n qs) (Z.to_nat Nz)))
  | _ => Err (-1) end.

Definition C18_ops : optable :=
  [ ("c18.lcb"%string, op_lcb); ("c18.gen"%string, op_gen); ("c18.extract"%string, op_extract);
    ("c18.parts"%string, op_parts); ("c18.parts_all"%string, op_parts_all); ("c18.verdicts"%string, op_verdicts); ("c18.jump"%string, op_jump); ("c18.jump_hk"%string, op_jump_hk); ("c18.gksl"%string, op_gksl);
    ("c18.gksl_jump"%string, op_gksl_jump); ("c18.apply_cb"%string, op_apply_cb); ("c18.verdict"%string, op_verdict);
    ("c18.j_of_k"%string, op_j_of_k); ("c18.k_part"%string, op_k_part); ("c18.tab_col"%string, op_tab_col);
    ("c18.proj_eq"%string, op_proj_eq); ("c18.proj_ineq"%string, op_proj_ineq); ("c18.trunc"%string, op_trunc); ("c18.texp"%string, op_texp) ].
