(* Executable wrappers for the C09 model (linear estimation), instantiated at Qc. *)
From Coq Require Import ZArith QArith Qcanon List Bool Arith.
From QV.Core Require Import OF QcOF Sums Mat.
From QV.Exec Require Import Base.
From QV.Model Require Import C09_LinEst.
Import ListNotations.

Definition matq (m n : nat) (l : list Qc) : @mat Qc_OF := mat_of_flat 0%Qc m n l.
Definition qn (k : nat) : Qc := qz (Z.of_nat k).

(* c09.solve   zs = [m; n; k]   qs = A (m*n, row-major) ++ b (m) ++ f_1 (m) ++ .. ++ f_k (m)
   Ok (1 :: rank A :: |G|_inf :: |M|_inf :: x_1 (n) ++ .. ++ x_k (n))   M certified:  M (A^T A) = I  checked exactly
   Ok (0 :: rank A :: w (n))                                            w certified:  (A^T A) w = 0, w <> 0
   Err 5  the untrusted Gauss-Jordan producer failed its check;  Err -2  wrong request length *)
Definition op_solve : opfun := fun zs qs =>
  match zs with
  | [mz; nz; kz] =>
      let m := Z.to_nat mz in let n := Z.to_nat nz in let k := Z.to_nat kz in
      if negb (Nat.eqb (length qs) (m * n + m + k * m)) then Err (-2) else
      let A := matq m n (firstn (m * n) qs) in
      let rest := skipn (m * n) qs in
      let b := firstn m rest in
      let fs := chunks m k (skipn m rest) in
      let G := mfrz n n (gram m A) in
      let rk := qn (rank_of m n A) in
      match solve_g n G with
      | S_inv M => Ok (1%Qc :: rk :: norm_inf n G :: norm_inf n M :: concat (map (one_estimate m n M A b) fs))
      | S_ker w => Ok (0%Qc :: rk :: lvec n w)
      | S_fail => Err 5
      end
  | _ => Err (-1)
  end.

(* datasets:  zs' = for each dataset: nb :: (len_1, count_1) .. (len_nb, count_nb);  data consumed from qs in order *)
Fixpoint take_blocks (nb : nat) (zs : list Z) (qs : list Qc) : list (Z * list Qc) * list Z * list Qc :=
  match nb with
  | O => ([], zs, qs)
  | S k => match zs with
           | len :: cnt :: zs' =>
               let l := Z.to_nat len in
               let '(bl, zs'', qs'') := take_blocks k zs' (skipn l qs) in ((cnt, firstn l qs) :: bl, zs'', qs'')
           | _ => ([], [], [])
           end
  end.
Fixpoint take_datasets (ns : nat) (zs : list Z) (qs : list Qc) : list (dataset Qc_OF) :=
  match ns with
  | O => []
  | S k => match zs with
           | nb :: zs' => let '(ds, zs'', qs'') := take_blocks (Z.to_nat nb) zs' qs in ds :: take_datasets k zs'' qs''
           | [] => []
           end
  end.
Definition out_eres (r : eres Qc_OF) : res :=
  match r with
  | E_ok xs => Ok (qn (length xs) :: concat xs)
  | E_guard => Err 1 | E_singular => Err 2 | E_stack => Err 3 | E_shape => Err 4 | E_internal => Err 5
  end.
(* c09.coded   the estimator AS CODED (after the repairs fullrank-guard-column-rank, linear-estimator-unequal-outcome-counts).  zs = m :: n :: nseq :: datasets (see above)   qs = A ++ b ++ data
   Ok (nseq :: x_1 ++ .. )  |  Err 1 guard raise | 2 singular A^T A behind a passing guard (unreachable) | 3 hstack of no block | 4 shape | 5 internal *)
Definition op_coded : opfun := fun zs qs =>
  match zs with
  | mz :: nz :: sz :: rest =>
      let m := Z.to_nat mz in let n := Z.to_nat nz in
      let A := matq m n (firstn (m * n) qs) in
      let r1 := skipn (m * n) qs in
      let b := firstn m r1 in
      out_eres (calc_estimate_sequence m n A b (take_datasets (Z.to_nat sz) rest (skipn m r1)))
  | _ => Err (-1)
  end.

(* c09.residual   zs = [m; n]   qs = A ++ b ++ f ++ x     Ok ( |A x - (f-b)|^2 :: A^T (A x - (f-b)) (n) ) *)
Definition op_residual : opfun := fun zs qs =>
  match zs with
  | [mz; nz] =>
      let m := Z.to_nat mz in let n := Z.to_nat nz in
      if negb (Nat.eqb (length qs) (m * n + m + m + n)) then Err (-2) else
      let A := matq m n (firstn (m * n) qs) in
      let r1 := skipn (m * n) qs in
      let b := vofl (F:=Qc_OF) (firstn m r1) in
      let f := vofl (F:=Qc_OF) (firstn m (skipn m r1)) in
      let x := vofl (F:=Qc_OF) (skipn m (skipn m r1)) in
      let r := vfrz (F:=Qc_OF) m (residual n A b f x) in
      Ok (nrm2 m r :: lvec n (mv m (mT A) r))
  | _ => Err (-1)
  end.

(* c09.predict   zs = [m; n]   qs = A ++ b ++ v     Ok (A v + b) *)
Definition op_predict : opfun := fun zs qs =>
  match zs with
  | [mz; nz] =>
      let m := Z.to_nat mz in let n := Z.to_nat nz in
      if negb (Nat.eqb (length qs) (m * n + m + n)) then Err (-2) else
      let A := matq m n (firstn (m * n) qs) in
      let r1 := skipn (m * n) qs in
      Ok (lvec m (predict n A (vofl (F:=Qc_OF) (firstn m r1)) (vofl (F:=Qc_OF) (skipn m r1))))
  | _ => Err (-1)
  end.

Definition C09_ops : optable :=
  [ ("c09.solve"%string, op_solve); ("c09.coded"%string, op_coded);
    ("c09.residual"%string, op_residual); ("c09.predict"%string, op_predict) ].
