(* Executable wrappers for the C10 models (instantiated at Qc). *)
From Coq Require Import ZArith QArith Qcanon List Bool Arith.
From QV.Core Require Import OF QcOF Sums Mat.
From QV.Exec Require Import Base.
From QV.Model Require Import C10_Estimators.
Import ListNotations.

Notation QF := Qc_OF.
Definition c10_vec (l : list Qc) : @vec QF := vec_of_list 0%Qc l.
Definition c10_out (n : nat) (v : @vec QF) : list Qc := list_of_vec n v.
Definition c10_take (n : nat) (l : list Qc) : list Qc * list Qc := (firstn n l, skipn n l).

(* ---- decision table.  kinds 0 physical 1 eq 2 ineq 3 identity; orders 0 eq_ineq 1 ineq_eq *)
Definition c10_kind_z (k : C10_kind) : Z := match k with KPhysical => 0 | KEq => 1 | KIneq => 2 | KIdentity => 3 end.
Definition c10_kind_of_z (z : Z) : C10_kind :=
  if (z =? 0)%Z then KPhysical else if (z =? 1)%Z then KEq else if (z =? 2)%Z then KIneq else KIdentity.
Definition c10_order_z (o : C10_order) : Z := match o with EqIneq => 0 | IneqEq => 1 end.
Definition c10_order_of_z (z : Z) : C10_order := if (z =? 0)%Z then EqIneq else IneqEq.
Definition c10_b (z : Z) : bool := negb (z =? 0)%Z.
(* zs = [has_cached; c_kind; c_para; c_order; c_maxit; t_para; t_order; o_eq; o_ineq; o_order; o_maxit] *)
Definition op_select : opfun := fun zs _ =>
  match zs with
  | [hc; ck; cp; co; cm; tp; to; oe; oi; oo; om] =>
      let cached := if c10_b hc then Some {| d_kind := c10_kind_of_z ck; d_on_para := c10_b cp;
                                              d_order := c10_order_of_z co; d_maxit := cm |} else None in
      let d := C10_select cached {| t_on_para := c10_b tp; t_order := c10_order_of_z to |}
                 {| o_eq := c10_b oe; o_ineq := c10_b oi; o_order := c10_order_of_z oo; o_maxit_proj := om |} in
      Ok [qz (c10_kind_z (d_kind d)); qb (d_on_para d); qz (c10_order_z (d_order d)); qz (d_maxit d)]
  | _ => Err (-1) end.

(* ---- a re-used algorithm object: installed projection after a sequence of configurations.
   zs = [has_given; g_kind; g_para; g_order; g_maxit] ++ 6 per configuration [t_para; t_order; o_eq; o_ineq; o_order; o_maxit].
   reply = descriptor of the installed projection; Err 3 when nothing is installed (no given projection, no configuration);
   Err (-1) on a malformed request *)
Fixpoint c10_cfgs (fuel : nat) (zs : list Z) : option (list (C10_template * C10_option)) :=
  match zs with
  | [] => Some []
  | tp :: to :: oe :: oi :: oo :: om :: rest =>
      match fuel with
      | O => None
      | S f => match c10_cfgs f rest with
               | Some l => Some (({| t_on_para := c10_b tp; t_order := c10_order_of_z to |},
                                  {| o_eq := c10_b oe; o_ineq := c10_b oi; o_order := c10_order_of_z oo; o_maxit_proj := om |}) :: l)
               | None => None end
      end
  | _ => None
  end.
Definition op_configure_seq : opfun := fun zs _ =>
  match zs with
  | hg :: gk :: gp :: go :: gm :: rest =>
      match c10_cfgs (length rest) rest with
      | Some cfgs =>
          let a0 := {| a_given := if c10_b hg then Some {| d_kind := c10_kind_of_z gk; d_on_para := c10_b gp;
                                                          d_order := c10_order_of_z go; d_maxit := gm |} else None;
                       a_derived := None |} in
          match C10_installed (fold_left C10_configure cfgs a0) with
          | Some d => Ok [qz (c10_kind_z (d_kind d)); qb (d_on_para d); qz (c10_order_z (d_order d)); qz (d_maxit d)]
          | None => Err 3
          end
      | None => Err (-1)
      end
  | _ => Err (-1) end.

(* ---- the rational loss used for execution: qs tail = A (nd*n, row-major) ++ c (nd) ++ w (nd) *)
Record c10_loss := { l_f : @vec QF -> Qc; l_g : @vec QF -> @vec QF }.
Definition c10_mkloss (n nd : nat) (l : list Qc) : c10_loss :=
  let '(la, r1) := c10_take (nd * n) l in let '(lc, r2) := c10_take nd r1 in let '(lw, _) := c10_take nd r2 in
  let A := mat_of_flat 0%Qc nd n la in let c := c10_vec lc in let w := c10_vec lw in
  {| l_f := C10_qloss QF n nd A c w; l_g := fun v => vfreeze 0%Qc n (C10_qgrad QF n nd A c w v) |}.

(* number of halvings j with alpha = 2^-j (alpha is a power of 1/2 by C10_alpha_search_pow) *)
Fixpoint c10_log2inv (fuel : nat) (a : Qc) : Z :=
  match fuel with O => 0 | S k => if Qc_eq_dec a 1%Qc then 0 else (1 + c10_log2inv k (a * (1 + 1))%Qc)%Z end.

(* ---- backtracking step. zs = [n; nd; afuel]; qs = mu :: gamma :: x(n) ++ Pz(n) ++ loss.
   P is the constant function returning Pz (the implementation's projection of the model's argument).
   reply = arg(n) ++ y(n) ++ [alpha; halvings] ++ xnext(n) ++ [f x] ++ g x (n) *)
Definition op_bt_step : opfun := fun zs qs =>
  match zs, qs with
  | [n; nd; af], mu :: gamma :: rest =>
      let n' := Z.to_nat n in let nd' := Z.to_nat nd in let af' := Z.to_nat af in
      let '(lx, r1) := c10_take n' rest in let '(lp, r2) := c10_take n' r1 in
      let L := c10_mkloss n' nd' r2 in
      let x := c10_vec lx in let Pz := c10_vec lp in let P := fun _ : @vec QF => Pz in
      let a := C10_bt_alpha QF n' P (l_f L) (l_g L) mu gamma af' x in
      Ok (c10_out n' (C10_bt_arg QF (l_g L) mu x) ++ c10_out n' (C10_bt_dir QF P (l_g L) mu x) ++
          [a; qz (c10_log2inv (S af') a)] ++ c10_out n' (C10_bt_step QF n' P (l_f L) (l_g L) mu gamma af' x) ++
          [l_f L x] ++ c10_out n' (l_g L x))
  | _, _ => Err (-1) end.

(* ---- momentum step. zs = [n; nd; mag_next; mag_prev]; qs = gam :: z0 :: zeta :: x(n) ++ m(n) ++ Pz(n) ++ loss.
   mag (ceil(log10 .)) is the constant oracle returning mag_next.
   reply = [zeta'; mag_prev'] ++ m'(n) ++ arg(n) ++ xnext(n); arg is obtained by running the step with P = identity *)
Definition op_mom_step : opfun := fun zs qs =>
  match zs, qs with
  | [n; nd; mgn; mgp], gam :: z0 :: zeta :: rest =>
      let n' := Z.to_nat n in let nd' := Z.to_nat nd in
      let '(lx, r1) := c10_take n' rest in let '(lm, r2) := c10_take n' r1 in let '(lp, r3) := c10_take n' r2 in
      let L := c10_mkloss n' nd' r3 in
      let s := {| ms_x := c10_vec lx; ms_m := c10_vec lm; ms_zeta := zeta; ms_mag := mgp |} in
      let Pz := c10_vec lp in
      let s1 := C10_mom_step QF (fun _ => Pz) (l_f L) (l_g L) gam z0 (fun _ => mgn) s in
      let s2 := C10_mom_step QF (fun z => z) (l_f L) (l_g L) gam z0 (fun _ => mgn) s in
      Ok ([ms_zeta QF s1; qz (ms_mag QF s1)] ++ c10_out n' (ms_m QF s1) ++ c10_out n' (ms_x QF s2) ++ c10_out n' (ms_x QF s1))
  | _, _ => Err (-1) end.

(* ---- FISTA step. zs = [n; nd; k]; qs = delta :: xpp(n) ++ xp(n) ++ Pz(n) ++ loss.  reply = arg(n) ++ xnext(n) *)
Definition op_fista_step : opfun := fun zs qs =>
  match zs, qs with
  | [n; nd; k], delta :: rest =>
      let n' := Z.to_nat n in let nd' := Z.to_nat nd in let k' := Z.to_nat k in
      let '(lpp, r1) := c10_take n' rest in let '(lx, r2) := c10_take n' r1 in let '(lp, r3) := c10_take n' r2 in
      let L := c10_mkloss n' nd' r3 in
      let Pz := c10_vec lp in
      let s := C10_fista_step QF (fun _ => Pz) (l_g L) delta k' (c10_vec lpp, c10_vec lx) in
      Ok (c10_out n' (C10_fista_arg QF (l_g L) delta k' (c10_vec lpp) (c10_vec lx)) ++ c10_out n' (snd s))
  | _, _ => Err (-1) end.

(* ---- origin object. zs = [type (0 state 1 povm 2 gate 3 mprocess); d2; m]; qs = [sd] *)
Definition c10_type_of_z (z : Z) : C10_qtype :=
  if (z =? 0)%Z then TState else if (z =? 1)%Z then TPovm else if (z =? 2)%Z then TGate else TMProcess.
Definition op_origin : opfun := fun zs qs =>
  match zs, qs with
  | [ty; d2; m], [sd] =>
      let t := c10_type_of_z ty in let d2' := Z.to_nat d2 in let m' := Z.to_nat m in
      Ok (c10_out (C10_origin_len t d2' m') (C10_origin QF t d2' m' sd))
  | _, _ => Err (-1) end.

(* ---- a complete backtracking run with the (rational) State equality projection  v[0] := v0
   (on_algo_eq_constraint=True, on_algo_ineq_constraint=False, on_para_eq_constraint=False) and the stopping rule
   "single_difference_loss", num_history 1:  continue while f(x_prev) - f(x_next) > eps.
   zs = [n; nd; afuel; maxit]; qs = mu :: gamma :: eps :: v0 :: x0(n) ++ loss.
   reply = [k] ++ result(n) ++ history oldest first ((k+1)*n);  Err 2 when maxit = 0 *)
Definition op_bt_run_eq : opfun := fun zs qs =>
  match zs, qs with
  | [n; nd; af; mx], mu :: gamma :: eps :: v0 :: rest =>
      let n' := Z.to_nat n in let nd' := Z.to_nat nd in
      let '(lx, r1) := c10_take n' rest in let L := c10_mkloss n' nd' r1 in
      let P := fun z : @vec QF => vfreeze 0%Qc n' (fun i => if (i =? 0)%nat then v0 else z i) in
      let stop := fun h : list (@vec QF) =>
        match h with xn :: xp :: _ => Qcleb (l_f L xp - l_f L xn)%Qc eps | _ => true end in
      let step := fun x => vfreeze 0%Qc n' (C10_bt_step QF n' P (l_f L) (l_g L) mu gamma (Z.to_nat af) x) in
      match C10_run QF (fun _ => step) (fun x => x) stop (Z.to_nat mx) (c10_vec lx) with
      | None => Err 2
      | Some (x, h) => Ok (qz (Z.of_nat (length h) - 1) :: c10_out n' x ++ concat (map (c10_out n') (rev h)))
      end
  | _, _ => Err (-1) end.

(* ---- finding C10-2, diagonal two-qubit family.  qs = var (IZ, ZI, ZZ).
   reply = returned variables (3) ++ eigenvalues of the clipped matrix (4) ++ eigenvalues of the object denoted by the
   returned variables (4) *)
Definition op_ineq_para_d4 : opfun := fun _ qs =>
  let var := c10_vec qs in
  let sp := vfreeze 0%Qc 4 (C10_d4_Pineq QF (C10_d4_to_stacked QF var)) in
  let r := vfreeze 0%Qc 3 (C10_proj_ineq_with_var QF (C10_d4_to_stacked QF) (C10_d4_to_var QF) (C10_d4_Pineq QF) var) in
  Ok (c10_out 3 r ++ c10_out 4 (C10_d4_eig QF sp) ++ c10_out 4 (C10_d4_eig QF (C10_d4_to_stacked QF r))).

Definition C10_ops : optable :=
  [ ("c10.select"%string, op_select); ("c10.configure_seq"%string, op_configure_seq); ("c10.bt_step"%string, op_bt_step); ("c10.mom_step"%string, op_mom_step);
    ("c10.fista_step"%string, op_fista_step); ("c10.origin"%string, op_origin); ("c10.bt_run_eq"%string, op_bt_run_eq);
    ("c10.ineq_para_d4"%string, op_ineq_para_d4) ].
