(* Executable wrappers for the C04 models (equality projections, certificate check). *)
From Coq Require Import ZArith QArith Qcanon List Bool Arith.
From QV.Core Require Import OF QcOF Cplx Sums Mat Psd.
From QV.Exec Require Import Base Core_ops.
From QV.Model Require Import QObj HermEmbed C04_Proj C04_Cert C04_Heap C04_EigClip.
Import ListNotations.

Definition vl (l : list Qc) : nat -> Qc := vec_of_list 0%Qc l.
Definition fb (z : Z) : bool := negb (z =? 0)%Z.
Definition outv (n : nat) (v : nat -> Qc) : res := Ok (list_of_vec n v).

(* ---- State.  zs = [n] ; qs = sd :: vec *)
Definition op_state_proj_eq : opfun := fun zs qs =>
  match zs, qs with
  | [n], sd :: l => outv (Z.to_nat n) (state_proj_eq Qc_OF sd (vl l))
  | _, _ => Err (-1) end.
(* zs = [flag; n] ; qs = sd :: var *)
Definition op_state_proj_eq_var : opfun := fun zs qs =>
  match zs, qs with
  | [f; n], sd :: l => outv (state_var_len (fb f) (Z.to_nat n)) (state_proj_eq_var Qc_OF (fb f) sd (vl l))
  | _, _ => Err (-1) end.
(* the closure func_calc_proj_eq_constraint: var -> object -> project -> var *)
Definition op_state_via_obj : opfun := fun zs qs =>
  match zs, qs with
  | [f; n], sd :: l => outv (state_var_len (fb f) (Z.to_nat n))
      (state_vec_to_var Qc_OF (fb f) (state_proj_eq Qc_OF sd (state_var_to_vec Qc_OF (fb f) sd (vl l))))
  | _, _ => Err (-1) end.

(* ---- Povm.  zs = [basis_hermitian; m; n] ; qs = sd :: stacked vecs (m*n) *)
Definition op_povm_proj_eq : opfun := fun zs qs =>
  match zs, qs with
  | [h; m; n], sd :: l => let m' := Z.to_nat m in let n' := Z.to_nat n in
      match povm_proj_eq_obj Qc_OF (fb h) sd m' (mat_of_flat 0%Qc m' n' l) with
      | Some V => outv (m' * n') (povm_stack Qc_OF n' V)
      | None => Err 1 end
  | _, _ => Err (-1) end.
(* zs = [flag; n; len] ; qs = sd :: var (len) ; the outcome count is derived from len as the code does *)
Definition op_povm_proj_eq_var : opfun := fun zs qs =>
  match zs, qs with
  | [f; n; len], sd :: l => let n' := Z.to_nat n in let m' := povm_m_of_len (fb f) n' (Z.to_nat len) in
      outv (povm_var_len (fb f) m' n') (povm_proj_eq_var Qc_OF (fb f) sd m' n' (vl l))
  | _, _ => Err (-1) end.

(* ---- Gate.  zs = [n] ; qs = hs.flatten() *)
Definition op_gate_proj_eq : opfun := fun zs qs =>
  match zs with
  | [n] => let n' := Z.to_nat n in
      outv (n' * n') (gate_stack Qc_OF n' (gate_proj_eq Qc_OF (mat_of_flat 0%Qc n' n' qs)))
  | _ => Err (-1) end.
Definition op_gate_proj_eq_var : opfun := fun zs qs =>
  match zs with
  | [f; n] => let n' := Z.to_nat n in outv (gate_var_len (fb f) n') (gate_proj_eq_var Qc_OF (fb f) n' (vl qs))
  | _ => Err (-1) end.
Definition op_gate_via_obj : opfun := fun zs qs =>
  match zs with
  | [f; n] => let n' := Z.to_nat n in
      outv (gate_var_len (fb f) n')
        (gate_hs_to_var Qc_OF (fb f) n' (gate_proj_eq Qc_OF (gate_var_to_hs Qc_OF (fb f) n' (vl qs))))
  | _ => Err (-1) end.

(* ---- MProcess.  zs = [m; n] ; qs = stacked hss (m*n*n) *)
Definition op_mp_proj_eq : opfun := fun zs qs =>
  match zs with
  | [m; n] => let m' := Z.to_nat m in let n' := Z.to_nat n in
      outv (m' * (n' * n')) (mp_stack Qc_OF n' (mp_proj_eq Qc_OF m' (mp_unstack Qc_OF n' (vl qs))))
  | _ => Err (-1) end.
(* zs = [flag; n; len] ; qs = var (len) *)
Definition op_mp_proj_eq_var : opfun := fun zs qs =>
  match zs with
  | [f; n; len] => let n' := Z.to_nat n in let m' := mp_m_of_len (fb f) n' (Z.to_nat len) in
      outv (mp_var_len (fb f) m' n')
        (mp_proj_eq_var Qc_OF (fb f) m' n' (vl qs))
  | _ => Err (-1) end.

(* every equality-projection op above is, by definition, the model function of Model/C04_Proj.v applied to the request's data and read out on
   the first <length> entries: no intermediate representation stands between the executed term and the model (stated for the two ops that used
   to freeze their intermediate arrays) *)
Lemma op_gate_via_obj_is_model f n qs : op_gate_via_obj [f; n] qs =
  outv (gate_var_len (fb f) (Z.to_nat n))
    (gate_hs_to_var Qc_OF (fb f) (Z.to_nat n) (gate_proj_eq Qc_OF (gate_var_to_hs Qc_OF (fb f) (Z.to_nat n) (vl qs)))).
Proof. reflexivity. Qed.
Lemma op_mp_proj_eq_var_is_model f n len qs : op_mp_proj_eq_var [f; n; len] qs =
  outv (mp_var_len (fb f) (mp_m_of_len (fb f) (Z.to_nat n) (Z.to_nat len)) (Z.to_nat n))
    (mp_proj_eq_var Qc_OF (fb f) (mp_m_of_len (fb f) (Z.to_nat n) (Z.to_nat len)) (Z.to_nat n) (vl qs)).
Proof. reflexivity. Qed.

(* ---- heap model of MProcess.calc_proj_eq_constraint_with_var.  zs = [flag; m; n] ; qs = var.
   var lives in buffer 0; reply = contents of buffer 0 AFTER the call ++ contents of the returned array.
   c04.mp_heap        : the faithful model (code with repair mprocess-proj-eq-var-mutates-argument)
   c04.mp_heap_prefix : the code as it was before that repair (diagnostic only) *)
Definition heap_reply (f : bool) (m' n' len : nat) (r : heap Qc_OF * aref) : res :=
  let '(h', out) := r in
  Ok (list_of_vec len (h' 0%nat) ++ list_of_vec (mp_var_len f m' n') (fun i => rd Qc_OF h' out i)).
Definition heap_of (qs : list Qc) : heap Qc_OF := fun b i => if Nat.eqb b 0 then vl qs i else 0%Qc.
Definition op_mp_heap : opfun := fun zs qs =>
  match zs with
  | [f; m; n] => let m' := Z.to_nat m in let n' := Z.to_nat n in
      heap_reply (fb f) m' n' (length qs) (h_proj_eq_with_var Qc_OF (fb f) 1 2 3 m' n' (heap_of qs) {| buf := 0; off := 0 |})
  | _ => Err (-1) end.
Definition op_mp_heap_prefix : opfun := fun zs qs =>
  match zs with
  | [f; m; n] => let m' := Z.to_nat m in let n' := Z.to_nat n in
      heap_reply (fb f) m' n' (length qs) (h_proj_eq_with_var_prefix Qc_OF (fb f) 1 2 m' n' (heap_of qs) {| buf := 0; off := 0 |})
  | _ => Err (-1) end.

(* ---- certificate.  zs = [n] ; qs = eps :: delta :: X (n*n complex, interleaved) ++ Y (same) *)
Definition cert_fast (n : nat) (X Y : cmat Qc_OF) (eps delta : Qc) : bool :=
  herm_dec Qc_OF n X && herm_dec Qc_OF n Y && kleb Qc_OF 0%Qc eps
  && psd_fast (n + n) (shiftI Qc_OF eps (embed Qc_OF n X))
  && psd_fast (n + n) (shiftI Qc_OF eps (embed Qc_OF n (csubm X Y)))
  && kleb Qc_OF (cre_inner n X (csubm X Y)) delta && kleb Qc_OF (copp Qc_OF delta) (cre_inner n X (csubm X Y)).
Lemma cert_fast_eq n X Y eps delta : cert_fast n X Y eps delta = @cert_check Qc_OF n X Y eps delta.
Proof. unfold cert_fast, cert_check, herm_psd_dec. now rewrite !psd_fast_eq. Qed.

Definition op_cert : opfun := fun zs qs =>
  match zs, qs with
  | [n], eps :: delta :: l => let n' := Z.to_nat n in let k := (2 * n' * n')%nat in
      let X : cmat Qc_OF := freeze (0%Qc, 0%Qc) n' n' (cmat_of_flat n' n' (firstn k l)) in
      let Y : cmat Qc_OF := freeze (0%Qc, 0%Qc) n' n' (cmat_of_flat n' n' (skipn k l)) in
      let R : cmat Qc_OF := freeze (0%Qc, 0%Qc) n' n' (@csubm Qc_OF X Y) in
      let ip : Qc := @cre_inner Qc_OF n' X R in
      Ok [ qb (cert_fast n' X Y eps delta);
           qb (herm_dec Qc_OF n' X); qb (herm_dec Qc_OF n' Y);
           qb (psd_fast (n' + n') (shiftI Qc_OF eps (embed Qc_OF n' X)));
           qb (psd_fast (n' + n') (shiftI Qc_OF eps (embed Qc_OF n' R)));
           qb (kleb Qc_OF ip delta && kleb Qc_OF (copp Qc_OF delta) ip); ip ]
  | _, _ => Err (-1) end.

(* ---- eigh -> clip -> rebuild.  zs = [n] ; qs = w (n reals) ++ U (n*n complex, interleaved, row-major).
   reply = U diag(clip(w)) U^dagger (n*n complex, interleaved) *)
(* the executed form: intermediate products are frozen (function-matrices recompute entries on every access) *)
Definition eig_clip_fast (n : nat) (w : nat -> Qc) (U : cmat Qc_OF) : cmat Qc_OF :=
  let wf := vfreeze 0%Qc n w in
  let Uf : cmat Qc_OF := freeze (0%Qc, 0%Qc) n n U in
  let UD : cmat Qc_OF := freeze (0%Qc, 0%Qc) n n (mmul n Uf (@cdiag Qc_OF (fun k => @clip0 Qc_OF (wf k)))) in
  mmul n UD (cadj Uf).
(* ... computes the model Model/C04_EigClip.v eig_clip (the subject of C04_eig_clip_nearest) entry by entry *)
Lemma eig_clip_fast_eq n (w : nat -> Qc) (U : cmat Qc_OF) i j : (i < n)%nat -> (j < n)%nat ->
  eig_clip_fast n w U i j = @eig_clip Qc_OF n U w i j.
Proof. intros Hi Hj. unfold eig_clip_fast, eig_clip, rebuild. unfold mmul at 1 3. apply sumn_ext; intros k Hk.
  rewrite freeze_spec by assumption. unfold cadj. rewrite (freeze_spec (0%Qc, 0%Qc) n n U j k Hj Hk). f_equal.
  unfold mmul. apply sumn_ext; intros l Hl. rewrite (freeze_spec (0%Qc, 0%Qc) n n U i l Hi Hl). f_equal.
  unfold cdiag. destruct (Nat.eqb l k); [|reflexivity]. now rewrite vfreeze_spec by exact Hl. Qed.
Definition op_eig_clip : opfun := fun zs qs =>
  match zs with
  | [n] => let n' := Z.to_nat n in
      Ok (flat_of_cmat n' n' (eig_clip_fast n' (vl (firstn n' qs)) (cmat_of_flat n' n' (skipn n' qs))))
  | _ => Err (-1) end.

Definition C04_ops : optable :=
  [ ("c04.state_proj_eq"%string, op_state_proj_eq);
    ("c04.state_proj_eq_var"%string, op_state_proj_eq_var);
    ("c04.state_via_obj"%string, op_state_via_obj);
    ("c04.povm_proj_eq"%string, op_povm_proj_eq);
    ("c04.povm_proj_eq_var"%string, op_povm_proj_eq_var);
    ("c04.gate_proj_eq"%string, op_gate_proj_eq);
    ("c04.gate_proj_eq_var"%string, op_gate_proj_eq_var);
    ("c04.gate_via_obj"%string, op_gate_via_obj);
    ("c04.mp_proj_eq"%string, op_mp_proj_eq);
    ("c04.mp_proj_eq_var"%string, op_mp_proj_eq_var);
    ("c04.mp_heap"%string, op_mp_heap);
    ("c04.mp_heap_prefix"%string, op_mp_heap_prefix);
    ("c04.eig_clip"%string, op_eig_clip);
    ("c04.cert"%string, op_cert) ].
