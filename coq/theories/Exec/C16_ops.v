(* Executable wrappers for the C16 models. *)
From Coq Require Import ZArith QArith Qcanon List Bool.
From QV.Exec Require Import Base.
From QV.Model Require Import IndexUtil.
Import ListNotations.

(* zs = k :: shape *)
Definition op_multi_from_serial : opfun := fun zs _ =>
  match zs with k :: shape => Ok (map qz (multi_from_serial shape k)) | _ => Err (-1) end.
(* zs = n :: shape(n) ++ idx *)
Definition op_serial_from_multi : opfun := fun zs _ =>
  match zs with
  | n :: rest => let n' := Z.to_nat n in
      match serial_from_multi (firstn n' rest) (skipn n' rest) with
      | Some k => Ok [qz k] | None => Err 1 end
  | _ => Err (-1) end.

(* ---- MultinomialDistribution ---- *)
From QV.Core Require Import OF QcOF.
From QV.Model Require Import Multinomial.

Definition tol8 : Qc := rat_make 1 100000000.
(* read a length-prefixed block *)
Definition block (l : list Z) : list Z * list Z :=
  match l with n :: t => (firstn (Z.to_nat n) t, skipn (Z.to_nat n) t) | [] => ([], []) end.
Definition out_dist (r : mres (dist Qc_OF)) : res :=
  match r with
  | MErr c => Err (Z.of_nat c)
  | MOk d => Ok (qz (Z.of_nat (length (d_shape _ d))) :: map (fun n => qz (Z.of_nat n)) (d_shape _ d)
                 ++ qb (d_zero _ d) :: d_ps _ d)
  end.
(* zs = has_shape :: block(shape) ; qs = eps :: ps *)
Definition op_md_construct : opfun := fun zs qs =>
  match zs, qs with
  | hs :: rest, eps :: ps =>
      let sh := map Z.to_nat (fst (block rest)) in
      out_dist (construct Qc_OF tol8 eps ps (if (hs =? 0)%Z then None else Some sh))
  | _, _ => Err (-1) end.
Definition mkdist (sh : list Z) (ps : list Qc) : dist Qc_OF :=
  Build_dist Qc_OF ps (map Z.to_nat sh) false.
Definition op_md_marginalize : opfun := fun zs qs =>
  let '(sh, r1) := block zs in let '(rem, _) := block r1 in
  out_dist (marginalize Qc_OF tol8 (mkdist sh qs) rem).
Definition op_md_conditionalize : opfun := fun zs qs =>
  let '(sh, r1) := block zs in let '(ix, r2) := block r1 in let '(vs, _) := block r2 in
  out_dist (conditionalize Qc_OF tol8 (mkdist sh qs) ix vs).
Definition op_md_getitem : opfun := fun zs qs =>
  let '(sh, r1) := block zs in let '(ix, _) := block r1 in
  Ok [getitem Qc_OF (mkdist sh qs) (map Z.to_nat ix)].

Definition C16_ops : optable :=
  [ ("idx.multi_from_serial"%string, op_multi_from_serial);
    ("idx.serial_from_multi"%string, op_serial_from_multi);
    ("md.construct"%string, op_md_construct);
    ("md.marginalize"%string, op_md_marginalize);
    ("md.conditionalize"%string, op_md_conditionalize);
    ("md.getitem"%string, op_md_getitem) ].
