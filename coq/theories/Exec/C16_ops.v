(* Executable wrappers for the C16 models. *)
From Coq Require Import ZArith QArith Qcanon List Bool.
From QV.Exec Require Import Base.
From QV.Model Require Import IndexUtil.
Import ListNotations.

(* zs = k :: shape *)
Definition op_multi_from_serial : opfun := fun zs _ =>
  match zs with k :: shape => Ok (map qz (multi_from_serial shape k)) | _ => Err (-1) end.
(* zs = n :: shape(n) ++ idx *)
Definition op_serial_from_multi : opfun := fun zs _ =>
  match zs with
  | n :: rest => let n' := Z.to_nat n in
      match serial_from_multi (firstn n' rest) (skipn n' rest) with
      | Some k => Ok [qz k] | None => Err 1 end
  | _ => Err (-1) end.

(* ---- MultinomialDistribution ---- *)
From QV.Core Require Import OF QcOF.
From QV.Model Require Import Multinomial.

(* the Python literal 1e-8 denotes the IEEE double nearest to 10^-8, i.e. 3022314549036573 / 2^78 (slightly above 10^-8);
   the model is executed with exactly that value so that decisions AT the threshold can be compared *)
Definition tol8 : Qc := rat_make 3022314549036573 302231454903657293676544.
(* read a length-prefixed block *)
Definition block (l : list Z) : list Z * list Z :=
  match l with n :: t => (firstn (Z.to_nat n) t, skipn (Z.to_nat n) t) | [] => ([], []) end.
Definition out_dist (r : mres (dist Qc_OF)) : res :=
  match r with
  | MErr c => Err (Z.of_nat c)
  | MOk d => Ok (qz (Z.of_nat (length (d_shape _ d))) :: map (fun n => qz (Z.of_nat n)) (d_shape _ d)
                 ++ qb (d_zero _ d) :: d_ps _ d)
  end.
(* zs = has_shape :: block(shape) ; qs = eps :: ps *)
Definition op_md_construct : opfun := fun zs qs =>
  match zs, qs with
  | hs :: rest, eps :: ps =>
      let sh := map Z.to_nat (fst (block rest)) in
      out_dist (construct Qc_OF tol8 eps ps (if (hs =? 0)%Z then None else Some sh))
  | _, _ => Err (-1) end.
(* zs = has_shape :: has_eps :: block(shape) ; qs = eps_zero_argument :: ps   (eps_zero_argument ignored when has_eps = 0) *)
Definition op_md_construct_arg : opfun := fun zs qs =>
  match zs, qs with
  | hs :: he :: rest, eps :: ps =>
      let sh := map Z.to_nat (fst (block rest)) in
      out_dist (construct_arg Qc_OF tol8 tol8 ps (if (hs =? 0)%Z then None else Some sh) (if (he =? 0)%Z then None else Some eps))
  | _, _ => Err (-1) end.
(* validate_prob_dist(ps, eps, validate_sum) with raise_error=True.  zs = [validate_sum; has_eps] ; qs = eps :: ps *)
Definition op_md_validate : opfun := fun zs qs =>
  match zs, qs with
  | [vs; he], eps :: ps =>
      match validate Qc_OF (if (he =? 0)%Z then tol8 else eps) (negb (vs =? 0)%Z) ps with MOk _ => Ok [] | MErr c => Err (Z.of_nat c) end
  | _, _ => Err (-1) end.
Definition mkdist (sh : list Z) (ps : list Qc) : dist Qc_OF :=
  Build_dist Qc_OF ps (map Z.to_nat sh) false.
Definition op_md_marginalize : opfun := fun zs qs =>
  let '(sh, r1) := block zs in let '(rem, _) := block r1 in
  out_dist (marginalize Qc_OF tol8 (mkdist sh qs) rem).
Definition op_md_conditionalize : opfun := fun zs qs =>
  let '(sh, r1) := block zs in let '(ix, r2) := block r1 in let '(vs, _) := block r2 in
  out_dist (conditionalize Qc_OF tol8 (mkdist sh qs) ix vs).
Definition op_md_getitem : opfun := fun zs qs =>
  let '(sh, r1) := block zs in let '(ix, _) := block r1 in
  Ok [getitem Qc_OF (mkdist sh qs) (map Z.to_nat ix)].

(* __getitem__ / StateEnsemble.state as coded (Python index rules).  zs = block(shape) ++ kind :: block(index)
   kind 0: int argument (block = [i]); 1: tuple argument; 2: any other type.  qs = the sequence that is indexed
   (probabilities, or position tags standing for the states) *)
Definition op_md_index_get : opfun := fun zs qs =>
  let '(sh, r1) := block zs in
  match r1 with
  | kind :: r2 =>
      let '(ix, _) := block r2 in
      let a := if (kind =? 0)%Z then (match ix with i :: _ => AInt i | [] => AOther end)
               else if (kind =? 1)%Z then ATuple ix else AOther in
      match index_get qs sh a with MOk v => Ok [v] | MErr c => Err (Z.of_nat c) end
  | [] => Err (-1) end.

(* measuring an ensemble (Model/C16_Ensemble.v): zs = block(old_shape) ++ block(mshape) ++ block(idx ++ j); qs = the blocks produced
   from the old entries, in order, each of length M = prod mshape.  Returns the entry of measure_all at the multi-index. *)
From QV.Model Require Import C16_Ensemble.
Fixpoint chunks (m : nat) (n : nat) (l : list Qc) : list (list Qc) :=
  match n with O => [] | S n' => firstn m l :: chunks m n' (skipn m l) end.
Definition op_ens_measured_entry : opfun := fun zs qs =>
  let '(osh, r1) := block zs in let '(msh, r2) := block r1 in let '(ix, _) := block r2 in
  let osh := map Z.to_nat osh in let msh := map Z.to_nat msh in
  let m := prodn msh in let n := prodn osh in
  let blocks := chunks m n qs in
  (* old entry e (identified by its position) is measured into blocks[e] *)
  let table := measure_all (fun e : nat * Qc => map (fun q => (fst e, q)) (nth (fst e) blocks [])) (map (fun e => (e, 0%Qc)) (seq 0 n)) in
  match nth_error table (rowmajorn (measured_shape osh msh) (map Z.to_nat ix)) with
  | Some (e, q) => Ok [qz (Z.of_nat e); q; qz (Z.of_nat (length table))]
  | None => Err 9 end.

(* legacy ProbDist.__getitem__ (Model/C16_PySem.v: probdist_get).  zs = has_shape :: block(shape) ++ kind :: block(index), kind as in
   md.index_get; qs = ps.  Ok (rank :: shape ++ entries) of the returned (sub-)array, or Err 2 / 9 / 10 for ValueError / IndexError / TypeError *)
From QV.Model Require Import C16_PySem.
From Coq Require Import String.
Definition op_pd_getitem : opfun := fun zs qs =>
  match zs with
  | hs :: rest =>
      let '(sh, r1) := block rest in
      match r1 with
      | kind :: r2 =>
          let '(ix, _) := block r2 in
          let a := if (kind =? 0)%Z then (match ix with i :: _ => AInt i | [] => AOther end)
                   else if (kind =? 1)%Z then ATuple ix else AOther in
          match probdist_get Qc_OF (mk_pd Qc_OF qs (if (hs =? 0)%Z then None else Some sh)) a with
          | PRet (flat, shp) => Ok (qz (Z.of_nat (List.length shp)) :: map qz shp ++ flat)
          | PRaise e => if String.eqb e "ValueError" then Err 2 else if String.eqb e "IndexError" then Err 9 else Err 10
          end
      | [] => Err (-1) end
  | [] => Err (-1) end.

Definition C16_ops : optable :=
  [ ("idx.multi_from_serial"%string, op_multi_from_serial);
    ("idx.serial_from_multi"%string, op_serial_from_multi);
    ("md.construct"%string, op_md_construct);
    ("md.construct_arg"%string, op_md_construct_arg);
    ("md.validate"%string, op_md_validate);
    ("md.marginalize"%string, op_md_marginalize);
    ("md.conditionalize"%string, op_md_conditionalize);
    ("md.getitem"%string, op_md_getitem);
    ("md.index_get"%string, op_md_index_get);
    ("ens.measured_entry"%string, op_ens_measured_entry);
    ("pd.getitem"%string, op_pd_getitem) ].
