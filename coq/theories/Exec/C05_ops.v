(* Executable wrappers for the C05 model (Dykstra loop of calc_proj_physical[_with_var]) at Qc.
   The two projections are ORACLES fed with the implementation's own recorded outputs, BY ROLE
   (equality projection / inequality projection); which of them is applied first is decided by the model
   ([step_mode] / [run_mode] from the mode flag). *)
From Coq Require Import ZArith QArith Qcanon List Bool Arith.
From QV.Core Require Import OF QcOF Sums Mat.
From QV.Exec Require Import Base.
From QV.Model Require Import C05_Dykstra.
Import ListNotations.

Definition qvec := nat -> Qc.
Definition vl (l : list Qc) : qvec := vec_of_list 0%Qc l.
Definition lv (n : nat) (v : qvec) : list Qc := list_of_vec n v.
Definition frzq (n : nat) (v : qvec) : qvec := vfreeze 0%Qc n v.
Definition konst (l : list Qc) : nat -> qvec -> qvec := fun _ _ => vl l.
(* oracle table: the k-th recorded output, zero vector beyond the table *)
Definition table (t : list (list Qc)) : nat -> qvec -> qvec := fun k _ => vl (nth k t []).
Definition zflag (z : Z) : bool := negb (z =? 0)%Z.
Definition mk (x y p q : qvec) : dstate Qc_OF := @mkst Qc_OF x y p q.

(* c05.step  zs = [n; eq_first]  qs = x ++ p ++ q ++ eq_out ++ ineq_out   (5n numbers)
   -> arg_eq ++ arg_ineq ++ y' ++ p' ++ x' ++ q'   (arguments handed to the equality / inequality projection, new state) *)
Definition op_step : opfun := fun zs qs =>
  match zs with
  | [nz; m] =>
      let n := Z.to_nat nz in
      if negb (length qs =? 5 * n)%nat then Err (-2) else
      match chunks n 5 qs with
      | [x; p; q; eo; io] =>
          let s := mk (vl x) (@vzero Qc_OF) (vl p) (vl q) in
          let s' := step_mode Qc_OF (frzq n) (konst eo) (konst io) (zflag m) 0 s in
          let u := arg_first Qc_OF (frzq n) s in
          let v := arg_second Qc_OF (frzq n) s s' in
          let (ae, ai) := if zflag m then (u, v) else (v, u) in
          Ok (lv n ae ++ lv n ai ++ lv n (sy s') ++ lv n (sp s') ++ lv n (sx s') ++ lv n (sq s'))
      | _ => Err (-1)
      end
  | _ => Err (-1)
  end.

(* c05.br  zs = [n]  qs = p ++ p' ++ q ++ q' ++ x ++ x' ++ y ++ y'  -> [ birgin_raydan2 ; birgin_raydan (full, unused by the loop) ] *)
Definition op_br : opfun := fun zs qs =>
  match zs with
  | [nz] =>
      let n := Z.to_nat nz in
      if negb (length qs =? 8 * n)%nat then Err (-2) else
      match chunks n 8 qs with
      | [p; p'; q; q'; x; x'; y; y'] =>
          let s := mk (vl x) (vl y) (vl p) (vl q) in
          let s' := mk (vl x') (vl y') (vl p') (vl q') in
          Ok [br Qc_OF n s s'; br_full Qc_OF n s s']
      | _ => Err (-1)
      end
  | _ => Err (-1)
  end.

(* c05.cert  zs = [n]  qs = x0 ++ x ++ y ++ p ++ q
   -> [ gap <p, y-x> ; |x+p+q-x0|^2 ; |x0-x|^2 ; |p|^2 ; |x-y|^2 ; |q|^2 ]   (all exact) *)
Definition op_cert : opfun := fun zs qs =>
  match zs with
  | [nz] =>
      let n := Z.to_nat nz in
      if negb (length qs =? 5 * n)%nat then Err (-2) else
      match chunks n 5 qs with
      | [x0; x; y; p; q] =>
          let s := mk (vl x) (vl y) (vl p) (vl q) in
          let inv := @vsub Qc_OF (@vadd Qc_OF (@vadd Qc_OF (vl x) (vl p)) (vl q)) (vl x0) in
          Ok [gap Qc_OF n s; @dot Qc_OF n inv inv; dist2 Qc_OF n (vl x0) (vl x); @dot Qc_OF n (vl p) (vl p);
              dist2 Qc_OF n (vl x) (vl y); @dot Qc_OF n (vl q) (vl q)]
      | _ => Err (-1)
      end
  | _ => Err (-1)
  end.

(* c05.run  zs = [n; eq_first; max_iter; K]  qs = eps :: x0 ++ eq_outs (K*n) ++ ineq_outs (K*n)
   Runs the model loop with the recorded projection outputs as oracle.  The fuel actually used is
   min(max_iter, K+1): if max_iter <= K+1 that IS max_iter; otherwise a run that stops (break) within K+1 sweeps is
   the same with any larger fuel (Proofs.C05_Dykstra.loop_fuel_mono) and a run that uses all K+1 sweeps is rejected:
   the model wants MORE sweeps than the implementation recorded -> Err 2.  (So every Ok answer is the answer of
   run_mode with fuel max_iter, except that `warned` is computed against max_iter explicitly.)
   max_iter = 0 -> Err 1 (the code raises UnboundLocalError).
   -> [stopped; steps; warned] ++ errs (steps numbers, -1 for None) ++ x ++ y ++ p ++ q (final) ++ [gap] *)
Definition err_out (e : option Qc) : Qc := match e with Some v => v | None => qz (-1) end.
Definition op_run : opfun := fun zs qs =>
  match zs, qs with
  | [nz; m; mi; kz], eps :: rest =>
      let n := Z.to_nat nz in let K := Z.to_nat kz in let maxit := Z.to_nat mi in
      if negb (length rest =? n + 2 * K * n)%nat then Err (-2) else
      let x0 := firstn n rest in
      let eo := chunks n K (skipn n rest) in
      let io := chunks n K (skipn (n + K * n) rest) in
      match run_mode Qc_OF n (frzq n) (table eo) (table io) (zflag m) eps (Nat.min maxit (S K)) (vl x0) with
      | None => Err 1
      | Some r =>
          if (K <? r_steps r)%nat then Err 2 else
          let s := r_final r in
          Ok ([qb (r_stopped r); qz (Z.of_nat (r_steps r)); qb (warned Qc_OF maxit r)]
              ++ map err_out (r_errs r)
              ++ lv n (sx s) ++ lv n (sy s) ++ lv n (sp s) ++ lv n (sq s) ++ [gap Qc_OF n s])
      end
  | _, _ => Err (-1)
  end.

Definition C05_ops : optable :=
  [ ("c05.step"%string, op_step); ("c05.br"%string, op_br); ("c05.cert"%string, op_cert); ("c05.run"%string, op_run) ].
