(* Executable wrappers for the C02 models (conversions between representations).
   Function-matrices recompute their entries on every access, so the executed versions materialise intermediate results
   (freeze) and factor the d^8-term Choi sums into two d^6-term stages; each executed version is PROVED equal to the
   model definition the theorems are about (section Fast, lemmas *_x_eq), in the style of Core_ops.psd_fast_eq.
   Request layout: zs = d :: flags ; qs = [eps ::] basis (d^2 matrices, each d x d, row-major, interleaved re,im) ++ data. *)
From Coq Require Import ZArith QArith Qcanon List Bool Arith Lia Ring.
From QV.Core Require Import OF Sums Mat Cplx QcOF.
From QV.Exec Require Import Base.
From QV.Model Require Import QObj HermEmbed C02_Conv.
From QV.Proofs Require Import C02_QObjLemmas C02_Conv.
Import ListNotations.

Section Fast.
Context (F : OF).
Add Ring Cqx : (c_ring (CF F)).
Notation Cx := (CF F).
Notation cmat := (cmat F). Notation cvec := (cvec F).
Notation "0" := (c0 Cx). Notation "1" := (c1 Cx).
Infix "+" := (cadd Cx). Infix "*" := (cmul Cx).
Notation csum := (@sumn (CF F)).
Notation csum_ext := (csum_ext F).
Notation csum_ext2 := (csum_ext2 F).

Definition fz (m n : nat) (M : cmat) : cmat := freeze 0 m n M.
Definition vfz (n : nat) (v : cvec) : cvec := vfreeze 0 n v.
Lemma fz_spec m n M : meq m n (fz m n M) M. Proof. intros i j Hi Hj. now apply freeze_spec. Qed.
Lemma vfz_spec n v : veq n (vfz n v) v. Proof. intros i Hi. now apply vfreeze_spec. Qed.
Definition fzb (d : nat) (B : nat -> cmat) : nat -> cmat :=
  let l := map (fun a => fz d d (B a)) (seq 0 (d * d)) in fun a => nth a l (fun _ _ => 0).
Lemma fzb_spec d B a : (a < d * d)%nat -> meq d d (fzb d B a) (B a).
Proof. intros Ha. unfold fzb. rewrite (nth_map_seq (fun a => fz d d (B a)) (fun _ _ => 0) (d * d) 0 a Ha). apply fz_spec. Qed.

(* HS -> Choi in two stages:  T_a = sum_b H_ab conj(B_b) ,  Choi = sum_a B_a (x) T_a *)
Definition cchoi_fast (d : nat) (B : nat -> cmat) (H : cmat) : cmat :=
  let T := fz (d * d) (d * d) (fun a r => csum (d * d) (fun b => H a b * zconj (B b (r / d)%nat (r mod d)%nat))) in
  fun i j => csum (d * d) (fun a => B a (i / d)%nat (j / d)%nat * T a ((i mod d) * d + j mod d)%nat).
Lemma cchoi_fast_eq d (B : nat -> cmat) (H : cmat) i j : (i < d * d)%nat -> (j < d * d)%nat -> cchoi_fast d B H i j = cchoi_of_hs d B H i j.
Proof. intros Hi Hj. destruct (divmod_lt d i Hi) as [I1 I2]. destruct (divmod_lt d j Hj) as [J1 J2].
  unfold cchoi_fast, cchoi_of_hs. apply csum_ext; intros a Ha.
  rewrite (fz_spec (d * d) (d * d) _ a _ Ha (flat_lt d _ _ I2 J2)). destruct (divmod_flat (i mod d) (j mod d) d J2) as [-> ->].
  rewrite <- sumn_scale_l. apply csum_ext; intros b _. unfold bbc, kron, cconj. ring. Qed.

(* Choi -> HS in two stages:  S_b[i1,j1] = sum_{i2,j2} B_b[i2,j2] Ch[(i1,i2),(j1,j2)] ,  HS_ab = sum conj(B_a[i1,j1]) S_b[i1,j1] *)
Definition chs_fast (d : nat) (B : nat -> cmat) (Ch : cmat) : cmat :=
  let S := fz (d * d) (d * d) (fun b r => csum d (fun i2 => csum d (fun j2 =>
             B b i2 j2 * Ch ((r / d) * d + i2)%nat ((r mod d) * d + j2)%nat))) in
  fun a b => csum d (fun i1 => csum d (fun j1 => zconj (B a i1 j1) * S b (i1 * d + j1)%nat)).
Lemma chs_fast_eq d (B : nat -> cmat) (Ch : cmat) a b : (b < d * d)%nat -> chs_fast d B Ch a b = chs_of_choi d B Ch a b.
Proof. intros Hb. unfold chs_fast, chs_of_choi, hs_inner. rewrite (sumn_flat d d). apply csum_ext; intros i1 H1.
  transitivity (csum d (fun j1 => csum d (fun i2 => csum d (fun j2 =>
     zconj (bbc d B a b (i1 * d + i2)%nat (j1 * d + j2)%nat) * Ch (i1 * d + i2)%nat (j1 * d + j2)%nat)))).
  - apply csum_ext; intros j1 Hj1. rewrite (fz_spec (d * d) (d * d) _ b _ Hb (flat_lt d _ _ H1 Hj1)).
    destruct (divmod_flat i1 j1 d Hj1) as [-> ->]. rewrite <- csum2_scale_l. apply csum_ext2; intros i2 j2 Hi2 Hj2.
    unfold bbc, kron, cconj. destruct (divmod_flat i1 i2 d Hi2) as [-> ->]. destruct (divmod_flat j1 j2 d Hj2) as [-> ->].
    rewrite cj_mul, cj_cj. ring.
  - rewrite sumn_swap. apply csum_ext; intros i2 _. now rewrite (sumn_flat d d). Qed.
(* the dict formula (no conjugate) is the plain formula for the conjugated basis and the transposed argument *)
Lemma chs_of_choi_dict_as_plain d (B : nat -> cmat) (Ch : cmat) a b : chs_of_choi_dict d B Ch a b = chs_of_choi d (fun c => cconj (B c)) (mT Ch) a b.
Proof. unfold chs_of_choi_dict, chs_of_choi, hs_inner. apply csum_ext2; intros i j _ _. unfold bbc, kron, cconj, mT.
  rewrite cj_mul, !cj_cj. reflexivity. Qed.
Definition chs_dict_fast (d : nat) (B : nat -> cmat) (Ch : cmat) : cmat := chs_fast d (fzb d (fun c => cconj (B c))) (mT Ch).
Lemma chs_fast_ext d (B B' : nat -> cmat) (Ch : cmat) a b : (forall c, (c < d * d)%nat -> meq d d (B c) (B' c)) -> (a < d * d)%nat -> (b < d * d)%nat ->
  chs_fast d B Ch a b = chs_fast d B' Ch a b.
Proof. intros E Ha Hb. rewrite !chs_fast_eq by exact Hb. unfold chs_of_choi. apply hs_inner_ext; [|apply meq_refl].
  intros i j Hi Hj. destruct (divmod_lt d i Hi). destruct (divmod_lt d j Hj). unfold bbc, kron, cconj. now rewrite !E. Qed.
Lemma chs_dict_fast_eq d (B : nat -> cmat) (Ch : cmat) a b : (a < d * d)%nat -> (b < d * d)%nat -> chs_dict_fast d B Ch a b = chs_of_choi_dict d B Ch a b.
Proof. intros Ha Hb. unfold chs_dict_fast. rewrite chs_of_choi_dict_as_plain, <- chs_fast_eq by exact Hb.
  apply chs_fast_ext; [|exact Ha|exact Hb]. intros c Hc. now apply fzb_spec. Qed.

(* basis change with materialised U and U.H *)
Definition convert_hs_x (d : nat) (B B' : nat -> cmat) (H : cmat) : cmat :=
  let U := fz (d * d) (d * d) (umat d B B') in
  let UH := fz (d * d) (d * d) (mmul (d * d) U H) in mmul (d * d) UH (cadj U).
Lemma convert_hs_x_eq d (B B' : nat -> cmat) (H : cmat) a b : (a < d * d)%nat -> (b < d * d)%nat -> convert_hs_x d B B' H a b = convert_hs d B B' H a b.
Proof. intros Ha Hb. unfold convert_hs_x, convert_hs. apply (mmul_ext (d * d) _ _ _ _ (d * d) (d * d)); [| |exact Ha|exact Hb].
  - eapply meq_trans; [apply fz_spec|]. apply (mmul_ext (d * d) _ _ _ _ (d * d) (d * d)); [apply fz_spec|apply meq_refl].
  - intros i j Hi Hj. unfold cadj. now rewrite (fz_spec (d * d) (d * d) _ j i Hj Hi). Qed.
Definition convert_vec_x (d : nat) (B B' : nat -> cmat) (v : cvec) : cvec := mv (d * d) (fz (d * d) (d * d) (umat d B B')) v.
Lemma convert_vec_x_eq d (B B' : nat -> cmat) (v : cvec) a : (a < d * d)%nat -> convert_vec_x d B B' v a = convert_vec d B B' v a.
Proof. intros Ha. unfold convert_vec_x, convert_vec. apply (mv_ext (d * d) (d * d)); [apply fz_spec|apply veq_refl|exact Ha]. Qed.

(* Kraus -> HS: specification (QObj.chs_of_kraus) with the images K B_b K^dag materialised, and the implementation's route *)
Definition chs_of_kraus_x (d : nat) (B : nat -> cmat) (Ks : list cmat) : cmat :=
  let W := fz (d * d) (d * d) (fun b r => kraus_apply d Ks (B b) (r / d)%nat (r mod d)%nat) in
  fun a b => csum d (fun i => csum d (fun j => zconj (B a i j) * W b (i * d + j)%nat)).
Lemma chs_of_kraus_x_eq d (B : nat -> cmat) (Ks : list cmat) a b : (b < d * d)%nat -> chs_of_kraus_x d B Ks a b = chs_of_kraus d B Ks a b.
Proof. intros Hb. rewrite chs_of_kraus_as_map. unfold chs_of_kraus_x, hs_of_map, hs_inner. apply csum_ext2; intros i j Hi Hj.
  rewrite (fz_spec (d * d) (d * d) _ b _ Hb (flat_lt d _ _ Hi Hj)). now destruct (divmod_flat i j d Hj) as [-> ->]. Qed.
Definition chs_of_kraus_impl_x (d : nat) (B : nat -> cmat) (Ks : list cmat) : cmat :=
  convert_hs_x d (comp_basis d) B (fz (d * d) (d * d) (kraus_hs_cb d Ks)).
Lemma chs_of_kraus_impl_x_eq d (B : nat -> cmat) (Ks : list cmat) a b : (a < d * d)%nat -> (b < d * d)%nat -> chs_of_kraus_impl_x d B Ks a b = chs_of_kraus_impl d B Ks a b.
Proof. intros Ha Hb. unfold chs_of_kraus_impl_x, chs_of_kraus_impl. rewrite convert_hs_x_eq by assumption.
  apply convert_hs_ext. apply fz_spec. Qed.

(* process matrix: by theorem process_matrix_is_choi it IS the Choi matrix, so the two-stage Choi evaluation computes it (d^6 instead of d^8 steps) *)
Lemma process_matrix_fast_eq d (B : nat -> cmat) (H : cmat) al be : (al < d * d)%nat -> (be < d * d)%nat -> cchoi_fast d B H al be = process_matrix d B H al be.
Proof. intros Hal Hbe. rewrite (process_matrix_is_choi F d B H al be Hal Hbe). now apply cchoi_fast_eq. Qed.
(* process matrix with the computational-basis HS matrix materialised (the definition route, executed for d <= 3 as a cross-check of the fast route) *)
Definition process_matrix_x (d : nat) (B : nat -> cmat) (H : cmat) : cmat :=
  process_matrix_of_cb d (fz (d * d) (d * d) (convert_hs_x d B (comp_basis d) H)).
Lemma process_matrix_x_eq d (B : nat -> cmat) (H : cmat) al be : (al < d * d)%nat -> (be < d * d)%nat -> process_matrix_x d B H al be = process_matrix d B H al be.
Proof. intros Hal Hbe. unfold process_matrix_x, process_matrix. rewrite !process_matrix_of_cb_entry by assumption.
  destruct (divmod_lt d al Hal). destruct (divmod_lt d be Hbe).
  rewrite (fz_spec (d * d) (d * d) _ _ _ (flat_lt d _ _ H0 H2) (flat_lt d _ _ H1 H3)). apply convert_hs_x_eq; now apply flat_lt. Qed.

(* the map denoted by an HS matrix, with materialised coefficient vectors *)
Definition capply_hs_x (d : nat) (B : nat -> cmat) (H X : cmat) : cmat :=
  op_of_cvec d B (vfz (d * d) (mv (d * d) H (vfz (d * d) (cvec_of_op d B X)))).
Lemma capply_hs_x_eq d (B : nat -> cmat) (H X : cmat) i j : capply_hs_x d B H X i j = capply_hs d B H X i j.
Proof. unfold capply_hs_x, capply_hs. apply op_of_cvec_ext. eapply veq_trans; [apply vfz_spec|].
  apply (mv_ext (d * d) (d * d)); [apply meq_refl|apply vfz_spec]. Qed.

(* truncate_hs depends on its argument only through the entries i < m, j < n: the executed versions (materialised / fast argument)
   raise exactly when the model does and return the same entries *)
Lemma maxn_ext n (f g : nat -> F) : (forall i, (i < n)%nat -> f i = g i) -> maxn n f = maxn n g.
Proof. induction n as [|n IH]; intros E; cbn [maxn]; [reflexivity|]. rewrite IH by (intros i Hi; apply E; lia). rewrite E by lia. reflexivity. Qed.
Lemma allb_ext n (p q : nat -> bool) : (forall i, (i < n)%nat -> p i = q i) -> allb n p = allb n q.
Proof. induction n as [|n IH]; intros E; cbn [allb]; [reflexivity|]. rewrite IH by (intros i Hi; apply E; lia). rewrite E by lia. reflexivity. Qed.
Definition opt_meq (m n : nat) (x y : option (rmat F)) : Prop :=
  match x, y with Some R, Some R' => meq m n R R' | None, None => True | _, _ => False end.
Lemma truncate_hs_ext eps m n (H H' : cmat) : meq m n H H' -> opt_meq m n (truncate_hs eps m n H) (truncate_hs eps m n H').
Proof. intros E. unfold truncate_hs. cbv zeta.
  assert (S : hs_size m n H = hs_size m n H').
  { unfold hs_size. apply maxn_ext; intros i Hi. apply maxn_ext; intros j Hj. now rewrite E. }
  rewrite S. rewrite (allb_ext m _ (fun i => allb n (fun j => trunc_ok (im_thr eps (hs_size m n H')) (H' i j)))).
  2:{ intros i Hi. apply allb_ext; intros j Hj. now rewrite E. }
  destruct (allb m _); cbn [opt_meq]; [|exact I]. intros i j Hi Hj. now rewrite E. Qed.
Lemma hs_of_choi_sparse_impl_x_eq eps d (B : nat -> cmat) (Ch : cmat) :
  opt_meq (d * d) (d * d) (truncate_hs eps (d * d) (d * d) (fz (d * d) (d * d) (chs_fast d B Ch))) (hs_of_choi_sparse_impl eps d B Ch).
Proof. apply truncate_hs_ext. eapply meq_trans; [apply fz_spec|]. intros a b Ha Hb. now apply chs_fast_eq. Qed.
Lemma hs_of_choi_dict_impl_x_eq eps d (B : nat -> cmat) (Ch : cmat) :
  opt_meq (d * d) (d * d) (truncate_hs eps (d * d) (d * d) (fz (d * d) (d * d) (chs_dict_fast d B Ch))) (hs_of_choi_dict_impl eps d B Ch).
Proof. apply truncate_hs_ext. eapply meq_trans; [apply fz_spec|]. intros a b Ha Hb. now apply chs_dict_fast_eq. Qed.
Lemma hs_of_kraus_impl_x_eq eps d (B : nat -> cmat) (Ks : list cmat) :
  opt_meq (d * d) (d * d) (truncate_hs eps (d * d) (d * d) (fz (d * d) (d * d) (chs_of_kraus_impl_x d B Ks))) (hs_of_kraus_impl eps d B Ks).
Proof. apply truncate_hs_ext. eapply meq_trans; [apply fz_spec|]. intros a b Ha Hb. now apply chs_of_kraus_impl_x_eq. Qed.
(* gate.to_var_from_choi as repaired, executed through the fast Choi -> HS route *)
Definition var_of_choi_fixed_x (eps : F) (d : nat) (B : nat -> cmat) (para : bool) (Ch : cmat) : option (rvec F) :=
  match truncate_hs eps (d * d) (d * d) (fz (d * d) (d * d) (chs_fast d B Ch)) with Some R => Some (var_of_hs d para R) | None => None end.
Lemma var_of_choi_fixed_x_eq eps d (B : nat -> cmat) para (Ch : cmat) :
  match var_of_choi_fixed_x eps d B para Ch, var_of_choi_fixed eps d B para Ch with
  | Some w, Some w' => forall k, (k < var_len d para)%nat -> w k = w' k | None, None => True | _, _ => False end.
Proof. unfold var_of_choi_fixed_x, var_of_choi_fixed. pose proof (hs_of_choi_sparse_impl_x_eq eps d B Ch) as E.
  destruct (truncate_hs eps (d * d) (d * d) (fz (d * d) (d * d) (chs_fast d B Ch))), (hs_of_choi_sparse_impl eps d B Ch); cbn [opt_meq] in E; try exact E.
  intros k Hk. destruct (var_index d para k Hk) as [A [A2 _]]. unfold var_of_hs. now apply E. Qed.
End Fast.

(* ================================================================== wrappers at Qc *)
Notation QF := Qc_OF.
Definition z0 : cplx QF := (0%Qc, 0%Qc).
Definition zmat0 : cmat QF := fun _ _ => z0.
Definition cmat_flat (m n : nat) (l : list Qc) : cmat QF := mat_of_flat z0 m n (cplx_of_flat l).
Definition cvec_flat (l : list Qc) : cvec QF := vec_of_list z0 (cplx_of_flat l).
Definition rvec_flat (l : list Qc) : rvec QF := vec_of_list 0%Qc l.
Definition out_cmat (m n : nat) (A : cmat QF) : res := Ok (flat_of_cplx (flat_of_mat m n A)).
Definition out_cvec (n : nat) (v : cvec QF) : res := Ok (flat_of_cplx (list_of_vec n v)).
Definition out_rvec (n : nat) (v : rvec QF) : res := Ok (list_of_vec n v).
Definition out_rmat (m n : nat) (A : rmat QF) : res := Ok (flat_of_mat m n A).
(* d^2 matrices of size d x d from a flat list; returns the basis and the rest of the list *)
Definition read_basis (d : nat) (l : list Qc) : (nat -> cmat QF) * list Qc :=
  let sz := (2 * d * d)%nat in
  let mats := map (fun ch => cmat_flat d d ch) (chunks sz (d * d) (firstn (sz * (d * d)) l)) in
  (fun a => nth a mats zmat0, skipn (sz * (d * d)) l).
Definition read_mats (d n : nat) (l : list Qc) : list (cmat QF) * list Qc :=
  let sz := (2 * d * d)%nat in
  (map (fun ch => cmat_flat d d ch) (chunks sz n (firstn (sz * n) l)), skipn (sz * n) l).
Definition zb (z : Z) : bool := negb (z =? 0)%Z.

(* zs=[d] ; qs = basis ++ c (d^2 complex)  ->  sum_a c_a B_a *)
Definition op_op_of_cvec : opfun := fun zs qs =>
  match zs with [dz] => let d := nat_of dz in let '(B, r) := read_basis d qs in
    out_cmat d d (op_of_cvec d B (cvec_flat r)) | _ => Err (-1) end.
(* zs=[d] ; qs = basis ++ X (d x d complex)  ->  <B_a, X> *)
Definition op_cvec_of_op : opfun := fun zs qs =>
  match zs with [dz] => let d := nat_of dz in let '(B, r) := read_basis d qs in
    out_cvec (d * d) (cvec_of_op d B (cmat_flat d d r)) | _ => Err (-1) end.
(* zs=[d] ; qs = eps :: basis ++ X  ->  truncated real vec | Err 1 (ValueError) *)
Definition op_vec_of_op_impl : opfun := fun zs qs =>
  match zs, qs with [dz], eps :: q => let d := nat_of dz in let '(B, r) := read_basis d q in
    match vec_of_op_impl (F := QF) eps d B (cmat_flat d d r) with Some v => out_rvec (d * d) v | None => Err 1 end
  | _, _ => Err (-1) end.
(* zs=[d; variant] ; qs = basis ++ H (d^2 x d^2 complex) ; variant 0 fast plain, 1 definition, 2 sparse-table route, 3 dict route *)
Definition op_choi_of_hs : opfun := fun zs qs =>
  match zs with [dz; v] => let d := nat_of dz in let '(B, r) := read_basis d qs in
    let H := cmat_flat (d * d) (d * d) r in
    out_cmat (d * d) (d * d) (if (v =? 0)%Z then cchoi_fast QF d B H else if (v =? 1)%Z then cchoi_of_hs d B H
                              else if (v =? 2)%Z then choi_sparse d B H else choi_dict d B H)
  | _ => Err (-1) end.
(* zs=[d; variant] ; qs = basis ++ Ch ; variant 0 fast plain, 1 definition, 2 sparse-table route, 3 dict formula (fast), 4 dict lists *)
Definition op_chs_of_choi : opfun := fun zs qs =>
  match zs with [dz; v] => let d := nat_of dz in let '(B, r) := read_basis d qs in
    let Ch := cmat_flat (d * d) (d * d) r in
    out_cmat (d * d) (d * d) (if (v =? 0)%Z then chs_fast QF d B Ch else if (v =? 1)%Z then chs_of_choi d B Ch
                              else if (v =? 2)%Z then chs_sparse d B Ch else if (v =? 3)%Z then chs_dict_fast QF d B Ch else chs_dict d B Ch)
  | _ => Err (-1) end.
(* zs=[d; dictvariant] ; qs = eps :: basis ++ Ch  ->  to_hs_from_choi_with_sparsity (0) / _with_dict (1) incl. truncation *)
Definition op_hs_of_choi_impl : opfun := fun zs qs =>
  match zs, qs with [dz; v], eps :: q => let d := nat_of dz in let '(B, r) := read_basis d q in
    let Ch := cmat_flat (d * d) (d * d) r in
    let C := fz QF (d * d) (d * d) (if (v =? 0)%Z then chs_fast QF d B Ch else chs_dict_fast QF d B Ch) in
    match truncate_hs (F := QF) eps (d * d) (d * d) C with Some R => out_rmat (d * d) (d * d) R | None => Err 1 end
  | _, _ => Err (-1) end.
(* zs=[d] ; qs = basisFrom ++ basisTo ++ H *)
Definition op_convert_hs : opfun := fun zs qs =>
  match zs with [dz] => let d := nat_of dz in let '(B, r) := read_basis d qs in let '(B', r') := read_basis d r in
    out_cmat (d * d) (d * d) (convert_hs_x QF d B B' (cmat_flat (d * d) (d * d) r')) | _ => Err (-1) end.
Definition op_convert_vec : opfun := fun zs qs =>
  match zs with [dz] => let d := nat_of dz in let '(B, r) := read_basis d qs in let '(B', r') := read_basis d r in
    out_cvec (d * d) (convert_vec_x QF d B B' (cvec_flat r')) | _ => Err (-1) end.
(* zs=[d; mode] mode 0 row-major, 1 column-major *)
Definition op_comp_basis : opfun := fun zs _ =>
  match zs with [dz; m] => let d := nat_of dz in
    Ok (flat_of_cplx (concat (map (fun a => flat_of_mat d d (if (m =? 0)%Z then comp_basis (F := QF) d a else comp_basis_col d a)) (seq 0 (d * d)))))
  | _ => Err (-1) end.
(* zs=[d; n; variant] ; qs = basis ++ K_1..K_n ; variant 0 specification (sum_K <B_a, K B_b K^dag>), 1 implementation route *)
Definition op_chs_of_kraus : opfun := fun zs qs =>
  match zs with [dz; n; v] => let d := nat_of dz in let '(B, r) := read_basis d qs in let '(Ks, _) := read_mats d (nat_of n) r in
    out_cmat (d * d) (d * d) (if (v =? 0)%Z then chs_of_kraus_x QF d B Ks else chs_of_kraus_impl_x QF d B Ks)
  | _ => Err (-1) end.
(* zs=[d; n] ; qs = eps :: basis ++ Ks -> to_hs_from_kraus_matrices incl. truncation *)
Definition op_hs_of_kraus_impl : opfun := fun zs qs =>
  match zs, qs with [dz; n], eps :: q => let d := nat_of dz in let '(B, r) := read_basis d q in let '(Ks, _) := read_mats d (nat_of n) r in
    match truncate_hs (F := QF) eps (d * d) (d * d) (fz QF (d * d) (d * d) (chs_of_kraus_impl_x QF d B Ks)) with
    | Some R => out_rmat (d * d) (d * d) R | None => Err 1 end
  | _, _ => Err (-1) end.
(* zs=[d; n] ; qs = Ks ++ X -> sum_K K X K^dag *)
Definition op_kraus_apply : opfun := fun zs qs =>
  match zs with [dz; n] => let d := nat_of dz in let '(Ks, r) := read_mats d (nat_of n) qs in
    out_cmat d d (kraus_apply d Ks (cmat_flat d d r)) | _ => Err (-1) end.
(* zs=[d] ; qs = basis ++ H ++ X -> the operator H maps X to *)
Definition op_capply_hs : opfun := fun zs qs =>
  match zs with [dz] => let d := nat_of dz in let '(B, r) := read_basis d qs in
    let n := (2 * (d * d) * (d * d))%nat in
    out_cmat d d (capply_hs_x QF d B (cmat_flat (d * d) (d * d) (firstn n r)) (cmat_flat d d (skipn n r))) | _ => Err (-1) end.
(* zs=[d] : fast route (process_matrix_fast_eq) ; zs=[d; 1] : the definition route (process_matrix_x_eq) *)
Definition op_process_matrix : opfun := fun zs qs =>
  match zs with
  | [dz] => let d := nat_of dz in let '(B, r) := read_basis d qs in
    out_cmat (d * d) (d * d) (cchoi_fast QF d B (cmat_flat (d * d) (d * d) r))
  | [dz; _] => let d := nat_of dz in let '(B, r) := read_basis d qs in
    out_cmat (d * d) (d * d) (process_matrix_x QF d B (cmat_flat (d * d) (d * d) r))
  | _ => Err (-1) end.
(* zs=[m; n] ; qs = eps :: H (m x n complex) *)
Definition op_truncate : opfun := fun zs qs =>
  match zs, qs with [m; n], eps :: q => let m' := nat_of m in let n' := nat_of n in
    match truncate_hs (F := QF) eps m' n' (cmat_flat m' n' q) with Some R => out_rmat m' n' R | None => Err 1 end
  | _, _ => Err (-1) end.
(* variables: zs=[d; para] *)
Definition op_choi_of_var : opfun := fun zs qs =>
  match zs with [dz; p] => let d := nat_of dz in let '(B, r) := read_basis d qs in
    let H : cmat QF := fz QF (d * d) (d * d) (cof (hs_of_var d (zb p) (rvec_flat r))) in
    out_cmat (d * d) (d * d) (cchoi_fast QF d B H) | _ => Err (-1) end.
Definition op_var_of_choi_spec : opfun := fun zs qs =>
  match zs with [dz; p] => let d := nat_of dz in let '(B, r) := read_basis d qs in
    let C := fz QF (d * d) (d * d) (chs_fast QF d B (cmat_flat (d * d) (d * d) r)) in
    out_rvec (var_len d (zb p)) (var_of_hs d (zb p) (cre C)) | _ => Err (-1) end.
(* gate.to_var_from_choi AS CODED BEFORE fix gate-to-var-from-choi-inverse-map (forward map applied to the Choi matrix); diagnosis only *)
Definition op_var_of_choi_before_fix : opfun := fun zs qs =>
  match zs with [dz; p] => let d := nat_of dz in let '(B, r) := read_basis d qs in
    let C := fz QF (d * d) (d * d) (cchoi_fast QF d B (cmat_flat (d * d) (d * d) r)) in
    out_cvec (var_len d (zb p)) (cvar_of_hs d (zb p) C) | _ => Err (-1) end.
(* gate.to_var_from_choi as repaired: zs=[d; para] ; qs = eps :: basis ++ Ch  ->  variables | Err 1 (ValueError of truncate_hs) *)
Definition op_var_of_choi_fixed : opfun := fun zs qs =>
  match zs, qs with [dz; p], eps :: q => let d := nat_of dz in let '(B, r) := read_basis d q in
    match var_of_choi_fixed_x QF eps d B (zb p) (cmat_flat (d * d) (d * d) r) with
    | Some w => out_rvec (var_len d (zb p)) w | None => Err 1 end
  | _, _ => Err (-1) end.
(* state: zs=[d; para] ; qs = isd :: basis ++ var   /   eps :: basis ++ X *)
Definition op_density_of_var : opfun := fun zs qs =>
  match zs, qs with [dz; p], isd :: q => let d := nat_of dz in let '(B, r) := read_basis d q in
    out_cmat d d (density_of_var (F := QF) isd d B (zb p) (rvec_flat r)) | _, _ => Err (-1) end.
Definition op_var_of_density_impl : opfun := fun zs qs =>
  match zs, qs with [dz; p], eps :: q => let d := nat_of dz in let '(B, r) := read_basis d q in
    match var_of_density_impl (F := QF) eps d B (zb p) (cmat_flat d d r) with
    | Some v => out_rvec (d * d - para_off (zb p)) v | None => Err 1 end | _, _ => Err (-1) end.
(* povm: zs=[d; m; para] ; qs = sd :: var  ->  m vecs *)
Definition op_pvecs_of_var : opfun := fun zs qs =>
  match zs, qs with [dz; m; p], sd :: q => let d := nat_of dz in let m' := nat_of m in
    Ok (concat (map (fun x => list_of_vec (d * d) (pvecs_of_var (F := QF) sd d m' (zb p) (rvec_flat q) x)) (seq 0 m')))
  | _, _ => Err (-1) end.
(* cache tables: zs=[d; which; r0; r1] ; qs = basis ; rows r0..r1-1 of the table, all columns *)
Definition op_table : opfun := fun zs qs =>
  match zs with [dz; w; r0; r1] => let d := nat_of dz in let '(B, _) := read_basis d qs in
    let D := (d * d)%nat in let n1 := ((D - 1) * (D - 1))%nat in
    let '(T, cols) := if (w =? 0)%Z then (tbl_basis_T d B, D) else if (w =? 1)%Z then (tbl_basisconj d B, D)
                      else if (w =? 2)%Z then (tbl_bbc_T d B, (D * D)%nat) else if (w =? 3)%Z then (tbl_bcb d B, (D * D)%nat)
                      else if (w =? 4)%Z then (tbl_bbc_T_from1 d B, n1) else (tbl_bhb_T_from1 d B, n1) in
    Ok (flat_of_cplx (concat (map (fun r => list_of_vec cols (T r)) (seq (nat_of r0) (nat_of r1 - nat_of r0)))))
  | _ => Err (-1) end.
(* dict tables: zs=[d; which; r0; r1] ; keys (r, c) for r in r0..r1-1, all c ; per key: count, then (x, y, re, im)* *)
Definition out_entry (e : nat * nat * cplx QF) : list Qc :=
  [qz (Z.of_nat (fst (fst e))); qz (Z.of_nat (snd (fst e))); fst (snd e); snd (snd e)].
Definition op_dict : opfun := fun zs qs =>
  match zs with [dz; w; r0; r1] => let d := nat_of dz in let '(B, _) := read_basis d qs in let D := (d * d)%nat in
    Ok (concat (map (fun r => concat (map (fun c =>
          let l := if (w =? 0)%Z then dict_hs_to_choi d B r c else dict_choi_to_hs d B r c in
          qz (Z.of_nat (length l)) :: concat (map out_entry l)) (seq 0 D))) (seq (nat_of r0) (nat_of r1 - nat_of r0))))
  | _ => Err (-1) end.
(* exact basis predicates on a rational basis: zs=[d] ; qs = sd :: basis -> [orthonormal; complete; hermitian; 0th = I/sd] *)
Definition op_basis_preds : opfun := fun zs qs =>
  match zs, qs with [dz], sd :: q => let d := nat_of dz in let '(B, _) := read_basis d q in
    Ok [qb (orthonormal_dec d B); qb (complete_dec d B); qb (hermitian_basis_dec d B); qb (identity0_dec (F := QF) d sd B)]
  | _, _ => Err (-1) end.
(* the Coq-side rational instance, for comparison with the basis quara builds: -> P2 flat *)
Definition op_pauli2 : opfun := fun _ _ =>
  Ok (flat_of_cplx (concat (map (fun a => flat_of_mat 4 4 (pauli2n (F := QF) a)) (seq 0 16)))).

Definition C02_ops : optable :=
  [ ("c02.op_of_cvec"%string, op_op_of_cvec); ("c02.cvec_of_op"%string, op_cvec_of_op);
    ("c02.vec_of_op_impl"%string, op_vec_of_op_impl); ("c02.choi_of_hs"%string, op_choi_of_hs);
    ("c02.chs_of_choi"%string, op_chs_of_choi); ("c02.hs_of_choi_impl"%string, op_hs_of_choi_impl);
    ("c02.convert_hs"%string, op_convert_hs); ("c02.convert_vec"%string, op_convert_vec);
    ("c02.comp_basis"%string, op_comp_basis); ("c02.chs_of_kraus"%string, op_chs_of_kraus);
    ("c02.hs_of_kraus_impl"%string, op_hs_of_kraus_impl); ("c02.kraus_apply"%string, op_kraus_apply);
    ("c02.capply_hs"%string, op_capply_hs); ("c02.process_matrix"%string, op_process_matrix);
    ("c02.truncate"%string, op_truncate); ("c02.choi_of_var"%string, op_choi_of_var);
    ("c02.var_of_choi_spec"%string, op_var_of_choi_spec); ("c02.var_of_choi_before_fix"%string, op_var_of_choi_before_fix);
    ("c02.var_of_choi_fixed"%string, op_var_of_choi_fixed);
    ("c02.density_of_var"%string, op_density_of_var); ("c02.var_of_density_impl"%string, op_var_of_density_impl);
    ("c02.pvecs_of_var"%string, op_pvecs_of_var); ("c02.table"%string, op_table); ("c02.dict"%string, op_dict);
    ("c02.basis_preds"%string, op_basis_preds); ("c02.pauli2"%string, op_pauli2) ].
