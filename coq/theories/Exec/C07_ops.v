(* Executable wrappers for the C07 models (tensor products, permutation matrices, embedding), instantiated at Qc. *)
From Coq Require Import ZArith QArith Qcanon List Bool Arith.
From QV.Core Require Import OF QcOF Sums Mat.
From QV.Exec Require Import Base.
From QV.Core Require Import Cplx.
From QV.Model Require Import C07_Tensor C07_Embed.
Import ListNotations.

Definition memo7 : nat -> (nat -> nat) -> nat -> nat := vfreeze 0%nat.
Definition mode_of (z : Z) : mode := if (z =? 0)%Z then Coded else Fixed.
Definition kind_of (z : Z) : kind := if (z =? 0)%Z then KVec else if (z =? 1)%Z then KRows else KHs.
Definition qn (n : nat) : Qc := qz (Z.of_nat n).
Definition rmat7 (m n : nat) (l : list Qc) : @mat Qc_CR := mat_of_flat 0%Qc m n l.
Definition rvec7 (l : list Qc) : @vec Qc_CR := vec_of_list 0%Qc l.

(* tree encoding (preorder): 1 = node, followed by both subtrees; 0 k names(k) rs(k) cs(k) = leaf over k subsystems,
   its prod(rs) x prod(cs) entries are taken row-major from the rational list *)
Fixpoint parse7 (fuel : nat) (zs : list Z) (qs : list Qc) : option (@texp Qc_CR * list Z * list Qc) :=
  match fuel with
  | O => None
  | S f =>
      match zs with
      | 0%Z :: k :: rest =>
          let k' := Z.to_nat k in
          let names := firstn k' rest in let r1 := skipn k' rest in
          let rs := map Z.to_nat (firstn k' r1) in let r2 := skipn k' r1 in
          let cs := map Z.to_nat (firstn k' r2) in let r3 := skipn k' r2 in
          let nr := prodn rs in let nc := prodn cs in
          Some (TLeaf {| o_names := names; o_rs := rs; o_cs := cs; o_m := rmat7 nr nc (firstn (nr * nc) qs) |},
                r3, skipn (nr * nc) qs)
      | 1%Z :: rest =>
          match parse7 f rest qs with
          | Some (l, z1, q1) =>
              match parse7 f z1 q1 with
              | Some (r, z2, q2) => Some (TNode l r, z2, q2)
              | None => None
              end
          | None => None
          end
      | _ => None
      end
  end.

Definition out_obj (o : @robj Qc_CR) : list Qc :=
  qn (length (o_names o)) :: map qz (o_names o) ++ map qn (o_rs o) ++ map qn (o_cs o)
    ++ flat_of_mat (prodn (o_rs o)) (prodn (o_cs o)) (o_m o).
Definition out_pres (r : pres (@robj Qc_CR)) : res :=
  match r with POk o => Ok (out_obj o) | PErr c => Err (Z.of_nat c) end.

(* zs = kind :: mode :: fuel :: tree ; qs = leaf data *)
Definition op_eval : opfun := fun zs qs =>
  match zs with
  | k :: md :: fu :: tree =>
      match parse7 (S (length tree)) tree qs with
      | Some (t, _, _) => out_pres (eval_fast memo7 (kind_of k) (mode_of md) (Z.to_nat fu) t)
      | None => Err (-2)
      end
  | _ => Err (-1)
  end.
(* the specification-level [eval] (matrix products, no index maps): tiny sizes only *)
Definition op_eval_spec : opfun := fun zs qs =>
  match zs with
  | k :: md :: fu :: tree =>
      match parse7 (S (length tree)) tree qs with
      | Some (t, _, _) => out_pres (eval (kind_of k) (mode_of md) (Z.to_nat fu) t)
      | None => Err (-2)
      end
  | _ => Err (-1)
  end.

(* zs = mode :: fuel :: n :: names(n) ++ sizes(n)  ->  the index map s of the permutation matrix (P[i, s i] = 1) *)
Definition op_perm_map : opfun := fun zs _ =>
  match zs with
  | md :: fu :: n :: rest =>
      let n' := Z.to_nat n in
      let names := firstn n' rest in let sizes := map Z.to_nat (firstn n' (skipn n' rest)) in
      match calc_perm_map memo7 (mode_of md) (Z.to_nat fu) names sizes with
      | POk s => Ok (map qn (list_of_vec (prodn sizes) s))
      | PErr c => Err (Z.of_nat c)
      end
  | _ => Err (-1)
  end.
(* same request, matrix-level model (mmul of kron(kron(I, K), I) factors), row-major *)
Definition op_perm_matrix : opfun := fun zs _ =>
  match zs with
  | md :: fu :: n :: rest =>
      let n' := Z.to_nat n in
      let names := firstn n' rest in let sizes := map Z.to_nat (firstn n' (skipn n' rest)) in
      match @calc_perm_matrix Qc_CR (mode_of md) (Z.to_nat fu) names sizes with
      | POk P => Ok (flat_of_mat (prodn sizes) (prodn sizes) P)
      | PErr c => Err (Z.of_nat c)
      end
  | _ => Err (-1)
  end.
(* zs = [d1; d2] -> _K(d1, d2) as the literal sum of U (x) U *)
Definition op_kmat_sum : opfun := fun zs _ =>
  match zs with
  | [d1; d2] => let a := Z.to_nat d1 in let b := Z.to_nat d2 in
      Ok (flat_of_mat (a * b) (a * b) (@Kmat_sum Qc_CR a b))
  | _ => Err (-1)
  end.
(* zs = [d1; d2]; qs = hs1 (d1 x d1) ++ hs2 (d2 x d2): literal first part of _tensor_product_hs_hs *)
Definition op_hs_core : opfun := fun zs qs =>
  match zs with
  | [d1; d2] => let a := Z.to_nat d1 in let b := Z.to_nat d2 in
      let h1 := rmat7 a a (firstn (a * a) qs) in let h2 := rmat7 b b (skipn (a * a) qs) in
      Ok (flat_of_mat (a * b) (a * b) (hs_hs_core a b h1 h2))
  | _ => Err (-1)
  end.
(* zs = [mode; n1; n2] -> i1_0, i2_0, i1_1, i2_1, ... : which pair of outcomes is stored at serial position s *)
Definition op_mp_slots : opfun := fun zs _ =>
  match zs with
  | [md; n1; n2] => let a := Z.to_nat n1 in let b := Z.to_nat n2 in
      Ok (flat_map (fun s => let '(i1, i2) := mp_slot (mode_of md) a b s in [qn i1; qn i2]) (seq 0 (a * b)))
  | _ => Err (-1)
  end.
(* zs = [n1; n2]; qs = p1 ++ p2 *)
Definition op_tp_probs : opfun := fun zs qs =>
  match zs with
  | [n1; n2] => let a := Z.to_nat n1 in let b := Z.to_nat n2 in
      Ok (list_of_vec (a * b) (tp_probs b (rvec7 (firstn a qs)) (rvec7 (skipn a qs))))
  | _ => Err (-1)
  end.

(* ---- embedding qutrits -> qubits.  zs = [n] -> the index map of _permutation_matrix_from_qutrits_to_qubits(n) *)
Definition op_embed_perm : opfun := fun zs _ =>
  match zs with
  | [n] => let n' := Z.to_nat n in Ok (map qn (list_of_vec (4 ^ n') (emb_perm n')))
  | _ => Err (-1)
  end.
Definition cmat7 (m n : nat) (l : list Qc) : @mat (CF Qc_OF) := mat_of_flat (0%Qc, 0%Qc) m n (cplx_of_flat l).
(* zs = [n; spec]; qs = re c, im c, then the 3^n x 3^n complex matrix (interleaved, row-major) -> 4^n x 4^n embedded matrix.
   spec = 1: the matrix-level model (perm @ blocks @ perm.T), else the index-map version *)
Definition op_embed_mat : opfun := fun zs qs =>
  match zs, qs with
  | [n; spec], cr :: ci :: l =>
      let n' := Z.to_nat n in let n3 := (3 ^ n')%nat in let n4 := (4 ^ n')%nat in
      let M := cmat7 n3 n3 l in
      let s := vfreeze 0%nat n4 (emb_perm n') in
      let E := if (spec =? 1)%Z then @embed_mat (CF Qc_OF) n4 n3 s (cr, ci) M else @embed_fast (CF Qc_OF) n3 s (cr, ci) M in
      Ok (flat_of_cplx (flat_of_mat n4 n4 E))
  | _, _ => Err (-1)
  end.

(* convert_list_by_permutation_matrix (specification [conv_list], proved equal to the function REGENERATED from the source in
   coq/gen/C07_Equiv2.v).  zs = n :: m :: old(m) ++ P(n*m, row-major, integer entries)  ->  entry per row, -1 = placeholder *)
From QV.Model Require Import C07_PySym.
Definition op_conv_list : opfun := fun zs _ =>
  match zs with
  | n :: m :: rest =>
      let n' := Z.to_nat n in let m' := Z.to_nat m in
      let old := firstn m' rest in let flat := skipn m' rest in
      let P := fun r c : Z => nth (Z.to_nat r * m' + Z.to_nat c) flat 0%Z in
      Ok (map (fun o => match o with Some v => qz v | None => qz (-1) end) (conv_list old P n' m'))
  | _ => Err (-1)
  end.

(* zs = [t1; t2] -> action code of operators._tensor_product for the operand type codes, -1 = TypeError *)
Definition op_tp_dispatch : opfun := fun zs _ =>
  match zs with
  | [t1; t2] => Ok [match tp_dispatch t1 t2 with Some a => qz a | None => qz (-1) end]
  | _ => Err (-1)
  end.

Definition C07_ops : optable :=
  [ ("c07.eval"%string, op_eval);
    ("c07.eval_spec"%string, op_eval_spec);
    ("c07.perm_map"%string, op_perm_map);
    ("c07.perm_matrix"%string, op_perm_matrix);
    ("c07.kmat_sum"%string, op_kmat_sum);
    ("c07.hs_core"%string, op_hs_core);
    ("c07.mp_slots"%string, op_mp_slots);
    ("c07.tp_probs"%string, op_tp_probs);
    ("c07.embed_perm"%string, op_embed_perm);
    ("c07.embed_mat"%string, op_embed_mat);
    ("c07.conv_list"%string, op_conv_list);
    ("c07.tp_dispatch"%string, op_tp_dispatch) ].
