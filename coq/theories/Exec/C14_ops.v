(* Executable wrappers for the C14 models (instantiated at Qc / at the free generator). *)
From Coq Require Import ZArith QArith Qcanon List Bool Arith.
From QV.Exec Require Import Base.
From QV.Core Require Import OF QcOF.
From QV.Model Require Import Multinomial C14_DataGen C14_Streams C14_ExpHist.
Import ListNotations.
Local Open Scope Z_scope.

(* ---- numeric part ---- *)
(* qs = r :: ps *)
Definition op_rn2data : opfun := fun _ qs =>
  match qs with r :: ps => Ok [qz (rn2data Qc_OF ps r)] | _ => Err (-1) end.
(* the single-loop transcription (proved equal: C14_single_loop_is_model); qs = r :: ps *)
Definition op_rn2data_r : opfun := fun _ qs =>
  match qs with r :: ps => Ok [qz (rn2data_r Qc_OF (cadd Qc_OF) ps r)] | _ => Err (-1) end.
(* zs = [k] ; qs = atol :: rs(k) ++ ps *)
Definition op_gen_data : opfun := fun zs qs =>
  match zs, qs with
  | k :: _, atol :: rest =>
      let k' := Z.to_nat k in
      match gen_data Qc_OF atol (skipn k' rest) (firstn k' rest) with
      | MOk l => Ok (map qz l) | MErr c => Err (Z.of_nat c) end
  | _, _ => Err (-1) end.
Definition enc_seq (l : list (Z * list Qc)) : list Qc := flat_map (fun p => qz (fst p) :: snd p) l.
(* zs = m :: K :: num_sums(K) ++ data ; reply: for each member n followed by its m entries *)
Definition op_empi_seq : opfun := fun zs _ =>
  match zs with
  | m :: k :: rest =>
      let k' := Z.to_nat k in
      match empi_seq Qc_OF m (skipn k' rest) (firstn k' rest) with
      | EOk l => Ok (enc_seq l) | EErr c => Err (Z.of_nat c) end
  | _ => Err (-1) end.
(* length-prefixed blocks *)
Definition take (l : list Z) : list Z * list Z :=
  match l with n :: t => (firstn (Z.to_nat n) t, skipn (Z.to_nat n) t) | [] => ([], []) end.
Fixpoint take_lists (k : nat) (l : list Z) : list (list Z) * list Z :=
  match k with
  | O => ([], l)
  | S k' => let (a, r) := take l in let (b, r') := take_lists k' r in (a :: b, r')
  end.
Definition take_ll (l : list Z) : list (list Z) * list Z :=
  match l with k :: t => take_lists (Z.to_nat k) t | [] => ([], []) end.
(* zs = block(ms) ++ blocks(dataset) ++ blocks(list_num_sums);
   reply: number of sequences, then per sequence: number of members, m, members *)
Definition op_empi_seqs : opfun := fun zs _ =>
  let (ms, r1) := take zs in let (ds, r2) := take_ll r1 in let (lns, _) := take_ll r2 in
  match empi_seqs Qc_OF ms ds lns with
  | EErr c => Err (Z.of_nat c)
  | EOk es => Ok (qz (Z.of_nat (length es)) ::
                  flat_map (fun p => qz (Z.of_nat (length (snd p))) :: qz (fst p) :: enc_seq (snd p)) (combine ms es))
  end.
(* zs = n :: counts *)
Definition op_multi_to_empi : opfun := fun zs _ =>
  match zs with n :: cnt => Ok (snd (multi_to_empi Qc_OF n cnt)) | _ => Err (-1) end.

(* ---- stream dataflow on the free generator ---- *)
Definition dec_sog (a b : Z) : sog :=
  if a =? 0 then SNone else if a =? 1 then SInt b else if a =? 2 then SGen (Z.to_nat b) else
  if a =? 4 then SNpInt b else SModule.
Fixpoint dec_sogs (k : nat) (l : list Z) : list sog * list Z :=
  match k, l with
  | S k', a :: b :: t => let (x, r) := dec_sogs k' t in (dec_sog a b :: x, r)
  | _, _ => ([], l)
  end.
Definition nat_ (z : Z) : nat := Z.to_nat z.
Definition dec_call (l : list Z) : option (call * list Z) :=
  match l with
  | code :: t =>
    if code =? 10 then match t with pd :: n :: t' => Some (CDgData (nat_ pd) n, t') | _ => None end else
    if code =? 11 then
      let (pds, t1) := take t in let (ns, t2) := take t1 in
      match t2 with
      | f :: k :: t3 => let (ss, t4) := dec_sogs (nat_ k) t3 in
                        Some (CDgDataset (map nat_ pds) ns (if f =? 0 then None else Some ss), t4)
      | _ => None end else
    if code =? 12 then match t with pd :: t1 => let (ns, t2) := take t1 in Some (CDgEmpiSeq (nat_ pd) ns, t2) | _ => None end else
    if code =? 13 then let (pds, t1) := take t in let (lns, t2) := take_ll t1 in Some (CDgEmpiSeqs (map nat_ pds) lns, t2) else
    if code =? 14 then match t with s :: sc :: n :: t' => Some (CExData (nat_ s) (nat_ sc) n, t') | _ => None end else
    if code =? 15 then match t with s :: t1 => let (ns, t2) := take t1 in Some (CExDataset (nat_ s) ns, t2) | _ => None end else
    if code =? 16 then match t with s :: sc :: t1 => let (ns, t2) := take t1 in Some (CExEmpiSeq (nat_ s) (nat_ sc) ns, t2) | _ => None end else
    if code =? 17 then match t with s :: t1 => let (lns, t2) := take_ll t1 in Some (CExEmpiSeqs (nat_ s) lns, t2) | _ => None end else
    if code =? 18 then match t with s :: sc :: n :: t' => Some (CTomoEmpiDist (nat_ s) (nat_ sc) n, t') | _ => None end else
    if code =? 19 then match t with s :: n :: t' => Some (CTomoEmpiDists (nat_ s) n, t') | _ => None end else
    if code =? 20 then match t with s :: t1 => let (ns, t2) := take t1 in Some (CTomoEmpiDistsSeq (nat_ s) ns, t2) | _ => None end else
    if code =? 21 then match t with pd :: num :: size :: t' => Some (CMdSampling (nat_ pd) num size, t') | _ => None end else
    None
  | [] => None
  end.
Definition opt (f z : Z) : option Z := if f =? 0 then None else Some z.
Fixpoint dec_hops (fuel : nat) (l : list Z) : list hop :=
  match fuel with
  | O => []
  | S f =>
    match l with
    | code :: t =>
      if code =? 0 then match t with z :: t' => HSeedGlobal z :: dec_hops f t' | _ => [] end else
      if code =? 1 then match t with n :: t' => HGlobalDraw n :: dec_hops f t' | _ => [] end else
      if code =? 2 then match t with z :: t' => HNewGen z :: dec_hops f t' | _ => [] end else
      if code =? 3 then match t with h :: n :: t' => HGenDraw (nat_ h) n :: dec_hops f t' | _ => [] end else
      if code =? 4 then match t with fl :: z :: t' => HConstruct (opt fl z) :: dec_hops f t' | _ => [] end else
      if code =? 5 then match t with o :: fl :: z :: t' => HResetSeed (nat_ o) (opt fl z) :: dec_hops f t' | _ => [] end else
      if code =? 6 then match t with
                        | a :: b :: t' => match dec_call t' with
                                          | Some (c, t'') => HCall c (dec_sog a b) :: dec_hops f t''
                                          | None => [] end
                        | _ => [] end else []
    | [] => []
    end
  end.

Definition enc_req (q : req) : list Z :=
  match q with
  | RUnif n pd => [0; n; 0; Z.of_nat pd]
  | RMulti n pd => [1; n; 0; Z.of_nat pd]
  | RMultiSz n size pd => [2; n; size; Z.of_nat pd]
  end.
Definition enc_gen (g : fgen) : list Z := [fst (fst g); snd (fst g); Z.of_nat (snd g)].
(* a slot is 8 numbers: n, stream kind, stream seed, position in the stream, request kind, request n, size, pd *)
Definition enc_slot (s : Z * ftok) : list Z := fst s :: enc_gen (fst (snd s)) ++ enc_req (snd (snd s)).
Definition enc_res (r : eres (list (list (Z * ftok)))) : list Z :=
  match r with
  | EErr c => [Z.of_nat c; 0]
  | EOk rows => 0 :: Z.of_nat (length rows) :: flat_map (fun row => Z.of_nat (length row) :: flat_map enc_slot row) rows
  end.
Definition enc_world (w : @world fgen) : list Z :=
  enc_gen (glob w) ++ Z.of_nat (length (gens w)) :: flat_map enc_gen (gens w)
  ++ Z.of_nat (nobj w) :: flat_map (fun o => match objs w o with None => [0; 0] | Some z => [1; z] end) (seq O (nobj w)).
(* zs = number of steps :: encoded steps; reply: number of steps, per step its result, then the final world *)
Definition op_flow : opfun := fun zs _ =>
  match zs with
  | cnt :: body =>
      let hs := dec_hops (length body) body in
      if negb (Z.of_nat (length hs) =? cnt) then Err (-2) else
      let (rs, w) := exec fdraw fmkgen fgseed hs fworld0 in
      Ok (map qz (Z.of_nat (length rs) :: flat_map enc_res rs ++ enc_world w))
  | [] => Err (-1)
  end.
(* the same history through the proved normal form (pure body on the one selected stream) *)
Definition step_nf (h : hop) : M (eres (list (list (Z * ftok)))) :=
  match h with
  | HCall (CDgDataset _ _ (Some _)) _ => step fdraw fmkgen fgseed h      (* a LIST of seeds: not a single-stream call *)
  | HCall c s => call_nf fdraw fmkgen fgseed c s
  | _ => step fdraw fmkgen fgseed h
  end.
Definition op_flow_nf : opfun := fun zs _ =>
  match zs with
  | cnt :: body =>
      let hs := dec_hops (length body) body in
      if negb (Z.of_nat (length hs) =? cnt) then Err (-2) else
      let (rs, w) := mapM step_nf hs fworld0 in
      Ok (map qz (Z.of_nat (length rs) :: flat_map enc_res rs ++ enc_world w))
  | [] => Err (-1)
  end.

(* ---- Experiment objects over a history (Model/C14_ExpHist.v) on the free generator ---- *)
Fixpoint pairs (l : list Z) : list (nat * nat) :=
  match l with a :: b :: t => (nat_ a, nat_ b) :: pairs t | _ => [] end.
Definition take_sched (l : list Z) : list (list (nat * nat)) * list Z :=
  let (ll, r) := take_ll l in (map pairs ll, r).
Definition dec_ecall (l : list Z) : option (ecall * list Z) :=
  match l with
  | code :: t =>
    if code =? 0 then match t with sc :: n :: t' => Some (EData (nat_ sc) n, t') | _ => None end else
    if code =? 1 then let (ns, t') := take t in Some (EDataset ns, t') else
    if code =? 2 then match t with sc :: t1 => let (ns, t') := take t1 in Some (EEmpiSeq (nat_ sc) ns, t') | _ => None end else
    if code =? 3 then let (lns, t') := take_ll t in Some (EEmpiSeqs lns, t') else None
  | [] => None
  end.
Fixpoint dec_xhops (fuel : nat) (l : list Z) : list xhop :=
  match fuel with
  | O => []
  | S f =>
    match l with
    | code :: t =>
      if code =? 0 then match t with z :: t' => XBase (HSeedGlobal z) :: dec_xhops f t' | _ => [] end else
      if code =? 1 then match t with n :: t' => XBase (HGlobalDraw n) :: dec_xhops f t' | _ => [] end else
      if code =? 2 then match t with z :: t' => XBase (HNewGen z) :: dec_xhops f t' | _ => [] end else
      if code =? 3 then match t with h :: n :: t' => XBase (HGenDraw (nat_ h) n) :: dec_xhops f t' | _ => [] end else
      if code =? 10 then match t with
                         | fl :: z :: t0 =>
                             let (a, t1) := take t0 in let (b, t2) := take t1 in let (c, t3) := take t2 in let (d, t4) := take t3 in
                             let (sch, t5) := take_sched t4 in
                             XConstruct {| e_states := map nat_ a; e_povms := map nat_ b; e_gates := map nat_ c; e_mps := map nat_ d; e_sched := sch |} (opt fl z)
                             :: dec_xhops f t5
                         | _ => [] end else
      if code =? 11 then match t with o :: t' => XCopy (nat_ o) :: dec_xhops f t' | _ => [] end else
      if code =? 12 then match t with o :: k :: i :: e :: t' => XSetItem (nat_ o) (nat_ k) (nat_ i) (nat_ e) :: dec_xhops f t' | _ => [] end else
      if code =? 13 then match t with o :: k :: t0 => let (l', t') := take t0 in XSetList (nat_ o) (nat_ k) (map nat_ l') :: dec_xhops f t' | _ => [] end else
      if code =? 14 then match t with o :: t0 => let (sch, t') := take_sched t0 in XSetSched (nat_ o) sch :: dec_xhops f t' | _ => [] end else
      if code =? 15 then match t with o :: fl :: z :: t' => XResetSeedData (nat_ o) (opt fl z) :: dec_xhops f t' | _ => [] end else
      if code =? 16 then match t with o :: sc :: t' => XCalc (nat_ o) (nat_ sc) :: dec_xhops f t' | _ => [] end else
      if code =? 17 then match t with
                         | o :: a :: b :: t0 => match dec_ecall t0 with
                                                | Some (e, t') => XCall (nat_ o) e (dec_sog a b) :: dec_xhops f t'
                                                | None => [] end
                         | _ => [] end else
      if code =? 18 then match t with o :: sc :: j :: k :: i :: t' => XSetSchedItem (nat_ o) (nat_ sc) (nat_ j) (nat_ k, nat_ i) :: dec_xhops f t' | _ => [] end else
      if code =? 19 then match t with o :: sc :: t0 => let (l', t') := take t0 in XSetSchedOuter (nat_ o) (nat_ sc) (pairs l') :: dec_xhops f t' | _ => [] end else []
    | [] => []
    end
  end.
Definition enc_nats (l : list nat) : list Z := Z.of_nat (length l) :: map Z.of_nat l.
Definition enc_pairs (l : list (nat * nat)) : list Z := Z.of_nat (length l) :: flat_map (fun p => [Z.of_nat (fst p); Z.of_nat (snd p)]) l.
Definition enc_cont (c : econt) : list Z :=
  enc_nats (e_states c) ++ enc_nats (e_povms c) ++ enc_nats (e_gates c) ++ enc_nats (e_mps c)
  ++ Z.of_nat (length (e_sched c)) :: flat_map enc_pairs (e_sched c).
Definition enc_table (t : list (option circ)) : list Z :=
  Z.of_nat (length t) :: flat_map (fun x => match x with None => [0] | Some r => 1 :: enc_pairs r end) t.
Definition enc_xres (r : @xres ftok) : list Z :=
  match r with
  | XUnit => [0]
  | XErr c => [1; Z.of_nat c]
  | XObj o => [2; Z.of_nat o]
  | XOut c t r => 3 :: enc_cont c ++ enc_table t ++ enc_res r
  end.
(* zs = number of steps :: encoded steps; reply: number of steps, per step its result, the final random world, the contents of every object *)
Definition op_xflow : opfun := fun zs _ =>
  match zs with
  | cnt :: body =>
      let hs := dec_xhops (length body) body in
      if negb (Z.of_nat (length hs) =? cnt) then Err (-2) else
      let (rs, w) := xexec fdraw fmkgen fgseed hs {| base := fworld0; conts := fun _ => econt0; stags := fun _ => []; ntag := O |} in
      Ok (map qz (Z.of_nat (length rs) :: flat_map enc_xres rs ++ enc_world (base w)
                  ++ flat_map (fun o => enc_cont (conts w o)) (seq O (nobj (base w)))))
  | [] => Err (-1)
  end.

Definition C14_ops : optable :=
  [ ("c14.rn2data"%string, op_rn2data);
    ("c14.rn2data_r"%string, op_rn2data_r);
    ("c14.gen_data"%string, op_gen_data);
    ("c14.empi_seq"%string, op_empi_seq);
    ("c14.empi_seqs"%string, op_empi_seqs);
    ("c14.multi_to_empi"%string, op_multi_to_empi);
    ("c14.flow"%string, op_flow);
    ("c14.flow_nf"%string, op_flow_nf);
    ("c14.xflow"%string, op_xflow) ].
