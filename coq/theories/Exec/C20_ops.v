(* Executable wrappers for the C20 model (schedule validation).  Everything travels in the integer list.

   value   := 0 | 1 n c_1..c_n (str, character codes) | 2 z (int) | 3 b (bool) | 4 (other) | 5 n value_1..value_n (tuple)
   cfg     := mask mask mask mask      (states, povms, gates, mprocesses);   mask := n b_1..b_n  (1 = object, 0 = None)
   alpha   := A value_1..value_A       (the item alphabet of the request)
   sched   := -1 (not iterable) | n a_1..a_n   (indices into the alphabet)
   slist   := m sched_1..sched_m *)
From Coq Require Import ZArith QArith Qcanon List Bool Ascii.
From QV.Exec Require Import Base.
From QV.Model Require Import C20_Schedule C20_PreFix.
Import ListNotations.
Local Open Scope Z_scope.

Definition dec (A : Type) := list Z -> option (A * list Z).
Fixpoint take_n {A} (p : dec A) (n : nat) (l : list Z) : option (list A * list Z) :=
  match n with
  | O => Some ([], l)
  | S n' => match p l with
            | None => None
            | Some (a, l') => match take_n p n' l' with
                              | None => None
                              | Some (r, l'') => Some (a :: r, l'')
                              end
            end
  end.
Definition dec_z : dec Z := fun l => match l with z :: r => Some (z, r) | [] => None end.
Definition dec_counted {A} (p : dec A) : dec (list A) := fun l =>
  match l with n :: r => if n <? 0 then None else take_n p (Z.to_nat n) r | [] => None end.
Definition str_of_codes (cs : list Z) : string :=
  fold_right (fun c s => String.String (ascii_of_nat (Z.to_nat c)) s) String.EmptyString cs.
Fixpoint dec_val (depth : nat) (l : list Z) : option (pyval * list Z) :=
  match l with
  | 0 :: r => Some (PNone, r)
  | 1 :: r => match dec_counted dec_z r with Some (cs, r') => Some (PStr (str_of_codes cs), r') | None => None end
  | 2 :: z :: r => Some (PInt z, r)
  | 3 :: b :: r => Some (PBool (negb (b =? 0)), r)
  | 4 :: r => Some (POther, r)
  | 5 :: r => match depth with
              | O => None
              | S d => match dec_counted (dec_val d) r with Some (vs, r') => Some (PTuple vs, r') | None => None end
              end
  | _ => None
  end.
Definition dec_mask : dec (list bool) := dec_counted (fun l => match l with b :: r => Some (negb (b =? 0), r) | [] => None end).
Definition dec_cfg : dec cfg := fun l =>
  match dec_mask l with None => None | Some (a, l1) =>
  match dec_mask l1 with None => None | Some (b, l2) =>
  match dec_mask l2 with None => None | Some (c, l3) =>
  match dec_mask l3 with None => None | Some (d, l4) => Some (mkcfg a b c d, l4) end end end end.
Definition dec_alpha : dec (list pyval) := dec_counted (dec_val 4).
Definition dec_sched (alpha : list pyval) : dec rsched := fun l =>
  match l with
  | n :: r => if n <? 0 then Some (SNonIter, r)
              else match take_n dec_z (Z.to_nat n) r with
                   | Some (ixs, r') => Some (SSeq (map (fun a => nth (Z.to_nat a) alpha POther) ixs), r')
                   | None => None
                   end
  | [] => None
  end.
Definition dec_slist (alpha : list pyval) : dec (list rsched) := dec_counted (dec_sched alpha).

Definition zn (n : nat) : Qc := qz (Z.of_nat n).
Definition exc_code (e : pyexc) : Z := match e with TypeError => 1 | ValueError => 2 | IndexError => 3 end.
Definition reason_code (r : order_reason) : Z :=
  match r with TooShort => 1 | FirstNotState => 2 | LastNotMeasurement => 3 | TooManyStates => 4 | TooManyPovms => 5 end.
Definition kind_code (k : kind) : Z := match k with KState => 0 | KPovm => 1 | KGate => 2 | KMprocess => 3 end.
Definition kind_of_code (z : Z) : kind := if z =? 0 then KState else if z =? 1 then KPovm else if z =? 2 then KGate else KMprocess.
(* one packed integer per result:  class + 8*(detail + 8*(flag + 2*(i + 4096*j)))
   class: 0 ok, 1 QuaraScheduleItemError, 2 QuaraScheduleOrderError, 3 UnboundLocalError escapes (only the model of the
   code BEFORE fix c20-noniterable-schedule, ops c20.validate0, produces it);
   detail: exception caught (1 Type, 2 Value, 3 Index; 4 = the schedule itself is not iterable) resp. order rule (1..5) *)
Definition pack (cls detail : Z) (flag : bool) (i j : nat) : Z :=
  cls + 8 * (detail + 8 * ((if flag then 1 else 0) + 2 * (Z.of_nat i + 4096 * Z.of_nat j))).
Definition pack_vres (r : vres) (flag : bool) : Z :=
  match r with
  | VOk => pack 0 0 flag 0 0
  | VItemError i j e => pack 1 (exc_code e) flag i j
  | VNonIter i => pack 1 4 flag i 0
  | VOrderError i r => pack 2 (reason_code r) flag i 0
  end.
Definition pack_vres0 (r : vres0) : Z :=
  match r with
  | V0 r => pack_vres r false
  | V0Unbound i => pack 3 0 false i 0
  end.
Definition out_vres (r : vres) : list Qc := [qz (pack_vres r false)].

(* c20.items : cfg alpha -> per alphabet entry  [0; kind; index] | [exc; 0; 0] *)
Definition op_items : opfun := fun zs _ =>
  match dec_cfg zs with None => Err (-1) | Some (c, l1) =>
  match dec_alpha l1 with None => Err (-2) | Some (alpha, _) =>
    Ok (flat_map (fun v => match validate_item c v with
                           | IOk (k, z) => [qz 0; qz (kind_code k); qz z]
                           | IErr e => [qz (exc_code e); qz 0; qz 0]
                           end) alpha)
  end end.

(* c20.validate : cfg alpha N slist_1..slist_N -> one packed result per schedule list *)
Definition op_validate : opfun := fun zs _ =>
  match dec_cfg zs with None => Err (-1) | Some (c, l1) =>
  match dec_alpha l1 with None => Err (-2) | Some (alpha, l2) =>
  match dec_counted (dec_slist alpha) l2 with None => Err (-3) | Some (cases, _) =>
    Ok (flat_map (fun ss => out_vres (validate_schedules c ss)) cases)
  end end end.

(* c20.validate0 : same request; verdict of the model of the code BEFORE fix c20-noniterable-schedule (Model/C20_PreFix.v).
   Only used to classify a disagreement between the implementation and the repaired model ("the defect is back"). *)
Definition op_validate0 : opfun := fun zs _ =>
  match dec_cfg zs with None => Err (-1) | Some (c, l1) =>
  match dec_alpha l1 with None => Err (-2) | Some (alpha, l2) =>
  match dec_counted (dec_slist alpha) l2 with None => Err (-3) | Some (cases, _) =>
    Ok (map (fun ss => qz (pack_vres0 (validate_schedules0 c ss))) cases)
  end end end.

(* c20.order : alpha-free, typed items:  N ; per case n (kind index)* -> reason code (0 = passes) *)
Definition dec_titem : dec titem := fun l => match l with k :: z :: r => Some ((kind_of_code k, z), r) | _ => None end.
Definition op_order : opfun := fun zs _ =>
  match dec_counted (dec_counted dec_titem) zs with None => Err (-1) | Some (cases, _) =>
    Ok (map (fun s => match validate_order s with None => qz 0 | Some r => qz (reason_code r) end) cases)
  end.

(* c20.setters : cfg alpha slist(initial) K op_1..op_K ;  op := k(0..3) mask | 4 slist
   -> packed result of the constructor, then one packed result per setter (state is threaded through) *)
Definition dec_setop (alpha : list pyval) : dec setop := fun l =>
  match l with
  | k :: r => if k =? 4 then match dec_slist alpha r with Some (ss, r') => Some (SetSchedules ss, r') | None => None end
              else match dec_mask r with Some (m, r') => Some (SetObjs (kind_of_code k) m, r') | None => None end
  | [] => None
  end.
Fixpoint run_ops (e : exp) (ops : list setop) : list Qc :=
  match ops with
  | [] => []
  | op :: rest => let '(e', r) := apply_set e op in out_vres r ++ run_ops e' rest
  end.
Definition op_setters : opfun := fun zs _ =>
  match dec_cfg zs with None => Err (-1) | Some (c, l1) =>
  match dec_alpha l1 with None => Err (-2) | Some (alpha, l2) =>
  match dec_slist alpha l2 with None => Err (-3) | Some (ss, l3) =>
  match dec_counted (dec_setop alpha) l3 with None => Err (-4) | Some (ops, _) =>
    match construct c ss with
    | inr r => Ok (out_vres r)
    | inl e => Ok (out_vres VOk ++ run_ops e ops)
    end
  end end end end.

(* c20.calc : cfg alpha slist Q value_1..value_Q (schedule_index arguments)
   -> constructor result (packed); if accepted, per query 3 numbers:
      [0; ends_in_povm; number of mprocess items] | [1; pos; 0] ValueError | [2;0;0] IndexError | [3;0;0] TypeError | [4;0;0] *)
Definition out_cres (r : cres) : list Qc :=
  match r with
  | CRun t => [qz 0; qb (ends_in_povm t); zn (count_kind KMprocess t)]
  | CValueError p => [qz 1; zn p; qz 0]
  | CIndexError => [qz 2; qz 0; qz 0]
  | CTypeError => [qz 3; qz 0; qz 0]
  | COther => [qz 4; qz 0; qz 0]
  end.
Definition op_calc : opfun := fun zs _ =>
  match dec_cfg zs with None => Err (-1) | Some (c, l1) =>
  match dec_alpha l1 with None => Err (-2) | Some (alpha, l2) =>
  match dec_slist alpha l2 with None => Err (-3) | Some (ss, l3) =>
  match dec_counted (dec_val 4) l3 with None => Err (-4) | Some (qs, _) =>
    match construct c ss with
    | inr r => Ok (out_vres r)
    | inl e => Ok (out_vres VOk ++ flat_map (fun q => out_cres (calc_prob_dist_pre e q)) qs)
    end
  end end end end.

(* c20.tomo : class ns np alpha N arg_1..arg_N ;  arg := 0 n c_1..c_n (a str) | 1 slist
   -> per case one packed result, class: 0 ok, 1 item error, 2 order error (from the Experiment),
      4 guard ValueError, 5 guard IndexError, 6 str ValueError;  flag = 1 iff every schedule has the class's shape
      (for a str argument: of the expansion; 0 for an unsupported str) *)
Definition class_of_code (z : Z) : tclass := if z =? 0 then Qst else if z =? 1 then Povmt else if z =? 2 then Qpt else Qmpt.
Definition dec_sarg (alpha : list pyval) : dec sarg := fun l =>
  match l with
  | 0 :: r => match dec_counted dec_z r with Some (cs, r') => Some (AStr (str_of_codes cs), r') | None => None end
  | 1 :: r => match dec_slist alpha r with Some (ss, r') => Some (AList ss, r') | None => None end
  | _ => None
  end.
Definition pack_tres (r : tres) (flag : bool) : Z :=
  match r with
  | TOk => pack 0 0 flag 0 0
  | TExp v => pack_vres v flag
  | TGuardValueError i => pack 4 0 flag i 0
  | TGuardIndexError i => pack 5 0 flag i 0
  | TStrValueError => pack 6 0 flag 0 0
  end.
Definition shape_flag (t : tclass) (ns np : nat) (a : sarg) : bool :=
  match a with
  | AStr s => if String.eqb s "all" then forallb (class_shapeb t ns np) (class_all t ns np) else false
  | AList ss => forallb (class_shapeb t ns np) ss
  end.
Definition op_tomo : opfun := fun zs _ =>
  match zs with
  | t :: ns :: np :: l1 =>
    let t := class_of_code t in let ns := Z.to_nat ns in let np := Z.to_nat np in
    match dec_alpha l1 with None => Err (-2) | Some (alpha, l2) =>
    match dec_counted (dec_sarg alpha) l2 with None => Err (-3) | Some (args, _) =>
      Ok (map (fun a => qz (pack_tres (tomo_construct t ns np a) (shape_flag t ns np a))) args)
    end end
  | _ => Err (-1)
  end.

(* c20.tomo0 : same request as c20.tomo for list arguments; verdict of the class guards BEFORE fix c20-qmpt-schedule-length
   (no length test).  Only used to classify a disagreement. *)
Definition op_tomo0 : opfun := fun zs _ =>
  match zs with
  | t :: ns :: np :: l1 =>
    let t := class_of_code t in let ns := Z.to_nat ns in let np := Z.to_nat np in
    match dec_alpha l1 with None => Err (-2) | Some (alpha, l2) =>
    match dec_counted (dec_sarg alpha) l2 with None => Err (-3) | Some (args, _) =>
      Ok (map (fun a => match a with
                        | AList ss => qz (pack_tres (tomo_run0 t ns np ss) (shape_flag t ns np a))
                        | AStr _ => qz (pack_tres (tomo_construct t ns np a) (shape_flag t ns np a))
                        end) args)
    end end
  | _ => Err (-1)
  end.

Definition C20_ops : optable :=
  [ ("c20.items"%string, op_items);
    ("c20.validate"%string, op_validate);
    ("c20.validate0"%string, op_validate0);
    ("c20.order"%string, op_order);
    ("c20.setters"%string, op_setters);
    ("c20.calc"%string, op_calc);
    ("c20.tomo"%string, op_tomo);
    ("c20.tomo0"%string, op_tomo0) ].
