(* Executable wrappers for the C13 models. *)
From Coq Require Import ZArith QArith Qcanon List Bool Arith.
From QV.Core Require Import OF QcOF.
From QV.Exec Require Import Base.
From QV.Model Require Import C13_Cache C13_Loss C13_LossNum C13_Heap.
Import ListNotations.

Definition zopt (o : option nat) : Z := match o with Some n => Z.of_nat n | None => (-1)%Z end.
Definition optz (z : Z) : option nat := if (z <? 0)%Z then None else Some (Z.to_nat z).

(* ---------------- cache machine: B = T = unit, only filledness and object generations are observed
   zs = g0 .. g8 (generation in each attribute, -1 = None) :: tick :: ops, op = kind*16 + slot index
   (kind 0 = getter, 1 = delete);  reply: after EVERY op the nine generations, then the final tick *)
Definition ubuild : unit -> slot -> unit := fun _ _ => tt.
Definition cache_of (gens : list Z) (tick : Z) : @cache unit unit :=
  {| c_basis := tt; c_tick := Z.to_nat tick;
     c_tab := fun s => match optz (nth (slot_idx s) gens (-1)%Z) with Some g => Some (g, tt) | None => None end |}.
Definition gens_of (c : @cache unit unit) : list Qc :=
  map (fun s => qz (zopt (option_map fst (c_tab c s)))) all_slots.
Definition dec_cache_op (z : Z) : option (@cache_op unit) :=
  match slot_of_idx (Z.to_nat (z mod 16)) with
  | Some s => if (z / 16 =? 0)%Z then Some (Get s) else if (z / 16 =? 1)%Z then Some (Del s) else None
  | None => None end.
Fixpoint cache_trace (c : @cache unit unit) (ops : list Z) : option (list Qc * @cache unit unit) :=
  match ops with
  | [] => Some ([], c)
  | z :: t => match dec_cache_op z with
              | None => None
              | Some op => let c' := step ubuild c op in
                           match cache_trace c' t with
                           | Some (out, cf) => Some (gens_of c' ++ out, cf) | None => None end
              end
  end.
Definition op_cache_run : opfun := fun zs _ =>
  if (Z.of_nat (length zs) <? 10)%Z then Err (-1) else
  let gens := firstn 9 zs in let tick := nth 9 zs 0%Z in
  match cache_trace (cache_of gens tick) (skipn 10 zs) with
  | Some (out, cf) => Ok (out ++ [qz (Z.of_nat (c_tick cf))])
  | None => Err 2 end.

(* ---------------- loss machines: D = W = Z (names of datasets / weight lists), val d w = (d, w)
   zs = kind :: flags :: w0 :: ops as triples (opc, a, b)
     kind 0 generic / 1 fast squared error, flags = fx_id + 2 fx_alias + 4 fx_ext (7 = repaired = the model of
       the code, 0 = as coded before the fixes c12-se-...);  kind 2 relative entropy as coded before the fixes
       c12-re-..., kind 3 relative entropy repaired
     opc 0: Configure dataset a with mode b (0 identity, 1 inverse_sample, 2 inverse_unbiased,
            3 "unbiased_inverse_covariance", >= 10: custom weights named b-10);  opc 1: SetW a (-1 = None)
   inverse-covariance weights of dataset d are named 1000 + 2 d + (1 if unbiased)
   reply per op: dataset in effect, weights in effect for value()/gradient() (-1 none), observable weights *)
Definition zinvw (b : bool) (d : Z) : Z := (1000 + 2 * d + (if b then 1 else 0))%Z.
Definition zval (d : Z) (w : option Z) : Z * option Z := (d, w).
Definition zo (o : option Z) : Z := match o with Some z => z | None => (-1)%Z end.
Definition oz (z : Z) : option Z := if (z <? 0)%Z then None else Some z.
Definition dec_mode (b : Z) : @wmode Z :=
  if (b =? 0)%Z then Identity else if (b =? 1)%Z then InvSample else if (b =? 2)%Z then InvUnbiased
  else if (b =? 3)%Z then Unhandled else Custom (b - 10)%Z.
Definition dec_lop (opc a b : Z) : @lop Z Z := if (opc =? 0)%Z then Configure a (dec_mode b) else SetW (oz a).
Definition dec_fixes (z : Z) : fixes :=
  {| fx_id := Z.odd z; fx_alias := Z.odd (z / 2); fx_ext := Z.odd (z / 4) |}.
Definition out_val (v : option (Z * option Z)) (obs : option Z) : list Qc :=
  match v with Some (d, w) => [qz d; qz (zo w); qz (zo obs)] | None => [qz (-1); qz (-1); qz (zo obs)] end.
Fixpoint loss_trace_g (p : fixes) (s : @gstate Z Z) (l : list Z) : list Qc :=
  match l with opc :: a :: b :: t => let s' := g_step_p zinvw p s (dec_lop opc a b) in
      out_val (g_value zval s') (g_w s') ++ loss_trace_g p s' t | _ => [] end.
Fixpoint loss_trace_f (p : fixes) (s : @fstate Z Z) (l : list Z) : list Qc :=
  match l with opc :: a :: b :: t => let s' := f_step_p zinvw p s (dec_lop opc a b) in
      out_val (f_value zval s') (f_w s') ++ loss_trace_f p s' t | _ => [] end.
Fixpoint loss_trace_r (s : @rstate Z Z) (l : list Z) : list Qc :=
  match l with opc :: a :: b :: t => let s' := r_step s (dec_lop opc a b) in
      out_val (r_value zval s') (r_w s') ++ loss_trace_r s' t | _ => [] end.
Fixpoint loss_trace_rx (s : @rstate Z Z) (l : list Z) : list Qc :=
  match l with opc :: a :: b :: t => let s' := r_step_fixed s (dec_lop opc a b) in
      out_val (r_value zval s') (r_w s') ++ loss_trace_rx s' t | _ => [] end.
Definition op_loss_machine : opfun := fun zs _ =>
  match zs with
  | kind :: fl :: w0 :: ops =>
      if (kind =? 0)%Z then Ok (loss_trace_g (dec_fixes fl) (g_init (oz w0)) ops)
      else if (kind =? 1)%Z then Ok (loss_trace_f (dec_fixes fl) (f_init (oz w0)) ops)
      else if (kind =? 2)%Z then Ok (loss_trace_r (r_init (oz w0)) ops)
      else if (kind =? 3)%Z then Ok (loss_trace_rx (r_init (oz w0)) ops) else Err 3
  | _ => Err (-1) end.

(* ---------------- algorithm machine: Q = O = P = Z, mkproj q o = 1000 q + o
   zs = fixed (1 = as repaired by pgd-cached-func-proj = the model of the code, 0 = as coded before) ::
        p0 (-1 = no projection handed to the constructor) :: pairs (qt, option); reply per configure: projection, qt *)
Definition zmkproj (q o : Z) : Z := (1000 * q + o)%Z.
Fixpoint algo_trace (s : @astate Z Z Z) (l : list Z) : list Qc :=
  match l with q :: o :: t => let s' := a_step zmkproj s (q, o) in
      [qz (zo (a_proj s')); qz (zo (a_qt s'))] ++ algo_trace s' t | _ => [] end.
Fixpoint algo_trace_x (user : option Z) (s : @astate Z Z Z) (l : list Z) : list Qc :=
  match l with q :: o :: t => let s' := a_step_fixed zmkproj user s (q, o) in
      [qz (zo (a_proj s')); qz (zo (a_qt s'))] ++ algo_trace_x user s' t | _ => [] end.
Definition op_algo_machine : opfun := fun zs _ =>
  match zs with
  | fx :: p0 :: l => if (fx =? 0)%Z then Ok (algo_trace (a_init (oz p0)) l) else Ok (algo_trace_x (oz p0) (a_init (oz p0)) l)
  | _ => Err (-1) end.

(* ---------------- numerical loss: zs = m :: nsched :: nvar :: has_w ;
   qs = A (m nsched nvar, row-major) ++ b ++ q ++ var ++ [W (nsched m m)] ; reply value :: gradient *)
Fixpoint chunk {A} (n k : nat) (l : list A) : list (list A) :=
  match k with O => [] | S k' => firstn n l :: chunk n k' (skipn n l) end.
Definition mk_dataset (m ns nv : nat) (A b q Ns n32 : list Qc) : dataset Qc_OF :=
  Build_dataset Qc_OF m (chunk nv (m * ns) A) b q Ns n32.
Definition op_loss_value : opfun := fun zs qs =>
  match zs with
  | [m; ns; nv; hw] =>
      let m := Z.to_nat m in let ns := Z.to_nat ns in let nv := Z.to_nat nv in
      let r := (m * ns)%nat in
      let A := firstn (r * nv) qs in let q1 := skipn (r * nv) qs in
      let b := firstn r q1 in let q2 := skipn r q1 in
      let q := firstn r q2 in let q3 := skipn r q2 in
      let var := firstn nv q3 in let q4 := skipn nv q3 in
      if negb (Nat.eqb (length var) nv) then Err 4 else
      let d := mk_dataset m ns nv A b q (repeat 0%Qc ns) (repeat 0%Qc ns) in
      let w := if (hw =? 0)%Z then None else Some (map (chunk m m) (chunk (m * m) ns q4)) in
      if negb (hw =? 0)%Z && negb (Nat.eqb (length q4) (ns * m * m)) then Err 5 else
      Ok (observe Qc_OF var d w)
  | _ => Err (-1) end.
(* zs = unbiased :: nsched ; qs = eps :: N (nsched) ++ n32 (nsched) ++ q (2 nsched); reply: the 2x2 weights, flat *)
Definition op_invw : opfun := fun zs qs =>
  match zs, qs with
  | [ub; ns], eps :: rest =>
      let ns := Z.to_nat ns in
      let Ns := firstn ns rest in let n32 := firstn ns (skipn ns rest) in let q := skipn (2 * ns) rest in
      if negb (Nat.eqb (length q) (2 * ns)) then Err 4 else
      let d := mk_dataset 2 ns 0 [] [] q Ns n32 in
      Ok (concat (map (@concat Qc) (invw Qc_OF eps (negb (ub =? 0)%Z) d)))
  | _, _ => Err (-1) end.

(* ---------------- heap model of MProcess.calc_proj_eq_constraint_with_var
   zs = d2 :: on_para :: fixed (1 = as repaired by mprocess-proj-eq-var-mutates-argument = the model of the code,
   0 = as coded before) ; qs = var (buffer 0 of the heap)
   reply: result buffer id :: result length :: result values ++ contents of buffer 0 afterwards *)
Definition heap0 (l : list Qc) : heap Qc_OF * arr :=
  (Build_heap Qc_OF 1 (fun _ => Build_buffer Qc_OF (length l) (fun i => nth i l 0%Qc)),
   {| a_buf := 0; a_off := 0; a_len := length l |}).
Definition op_mp_proj_eq : opfun := fun zs qs =>
  match zs with
  | [d2; op; fx] =>
      let '(h, var) := heap0 qs in
      let f := if (fx =? 0)%Z then proj_eq_with_var Qc_OF else proj_eq_with_var_fixed Qc_OF in
      match f h (Z.to_nat d2) (negb (op =? 0)%Z) var with
      | None => Err 1
      | Some (h', res) =>
          Ok (qz (Z.of_nat (a_buf res)) :: qz (Z.of_nat (a_len res))
              :: map (rd Qc_OF h' res) (seq 0 (a_len res)) ++ map (rd Qc_OF h' var) (seq 0 (a_len var)))
      end
  | _ => Err (-1) end.
(* convert_var_to_hss: reply n :: (buffer id, offset) per hs ++ all values *)
Definition op_mp_var_to_hss : opfun := fun zs qs =>
  match zs with
  | [d2; op] =>
      let '(h, var) := heap0 qs in
      match convert_var_to_hss Qc_OF h (Z.to_nat d2) (negb (op =? 0)%Z) var with
      | None => Err 1
      | Some (h', hss) =>
          Ok (qz (Z.of_nat (length hss))
              :: concat (map (fun a => [qz (Z.of_nat (a_buf a)); qz (Z.of_nat (a_off a))]) hss)
              ++ concat (map (fun a => map (rd Qc_OF h' a) (seq 0 (a_len a))) hss))
      end
  | _ => Err (-1) end.

Definition C13_ops : optable :=
  [ ("c13.cache_run"%string, op_cache_run);
    ("c13.loss_machine"%string, op_loss_machine);
    ("c13.algo_machine"%string, op_algo_machine);
    ("c13.loss_value"%string, op_loss_value);
    ("c13.invw"%string, op_invw);
    ("c13.mp_proj_eq"%string, op_mp_proj_eq);
    ("c13.mp_var_to_hss"%string, op_mp_var_to_hss) ].
