(* Executable wrappers for the C12 loss-function models (instantiated at Qc). *)
From Coq Require Import ZArith QArith Qcanon List Bool Arith.
From QV.Core Require Import OF QcOF Sums Mat.
From QV.Exec Require Import Base.
From QV.Model Require Import C12_Loss.
Import ListNotations.

Notation Q0 := (0%Qc).
Definition qvec := @vec Qc_OF.
Definition qmat := @mat Qc_OF.

Definition seg (n : nat) (l : list Qc) : list Qc * list Qc := (firstn n l, skipn n l).
Definition vecl (l : list Qc) : qvec := vec_of_list Q0 l.
Definition matl (m n : nat) (l : list Qc) : qmat := mat_of_flat Q0 m n l.
(* ns weight matrices of size m x m, concatenated row-major *)
Definition wtsl (ns m : nat) (l : list Qc) : nat -> qmat :=
  let ws := map (fun ch => matl m m ch) (chunks (m * m) ns l) in fun j => nth j ws (fun _ _ => Q0).
Definition flat_wts (ns m : nat) (w : nat -> qmat) : list Qc :=
  concat (map (fun j => flat_of_mat m m (w j)) (seq 0 ns)).
(* hp al be : flat vector of length N; laid out as [al][be][i] *)
Definition hpl (nv N : nat) (l : list Qc) : nat -> nat -> qvec :=
  let rows := chunks N (nv * nv) l in fun al be => vecl (nth (al * nv + be) rows []).
Definition lvec (n : nat) (v : qvec) : list Qc := list_of_vec n v.
Definition lmat (m n : nat) (M : qmat) : list Qc := flat_of_mat m n M.

(* ---- squared error, pointwise:  zs = [ns; m; nv; has_w; has_hp]
        qs = p(N) ++ q(N) ++ gp(N*nv) ++ [W (ns*m*m)] ++ [hp (nv*nv*N)]   ->  value :: grad(nv) ++ hess(nv*nv) *)
Definition op_se_at : opfun := fun zs qs =>
  match zs with
  | [ns; m; nv; hw; hh] =>
      let ns := nat_of ns in let m := nat_of m in let nv := nat_of nv in let N := (ns * m)%nat in
      let '(p, r) := seg N qs in let '(q, r) := seg N r in let '(gp, r) := seg (N * nv) r in
      let '(w, r) := if (hw =? 0)%Z then ([], r) else seg (ns * m * m) r in
      let W : @wts Qc_OF := if (hw =? 0)%Z then None else Some (wtsl ns m w) in
      let hp := if (hh =? 0)%Z then @hp0 Qc_OF else hpl nv N r in
      let p := vecl p in let q := vecl q in let gp := matl N nv gp in
      Ok (se_value_at ns m W p q :: lvec nv (se_grad_at ns m W gp p q) ++ lmat nv nv (se_hess_at ns m W gp hp p q))
  | _ => Err (-1) end.

(* ---- squared error on the tomography model: zs = [ns; m; nv; has_w]
        qs = A(N*nv) ++ b(N) ++ q(N) ++ v(nv) ++ [W]   ->  value :: grad ++ hess *)
Definition op_se : opfun := fun zs qs =>
  match zs with
  | [ns; m; nv; hw] =>
      let ns := nat_of ns in let m := nat_of m in let nv := nat_of nv in let N := (ns * m)%nat in
      let '(A, r) := seg (N * nv) qs in let '(b, r) := seg N r in let '(q, r) := seg N r in let '(v, r) := seg nv r in
      let W : @wts Qc_OF := if (hw =? 0)%Z then None else Some (wtsl ns m r) in
      let A := matl N nv A in let q := vecl q in
      let p := vfreeze Q0 N (pv nv A (vecl b) (vecl v)) in
      Ok (se_value_at ns m W p q :: lvec nv (se_grad_at ns m W A p q) ++ lmat nv nv (se_hess_at ns m W A hp0 p q))
  | _ => Err (-1) end.

(* ---- fast squared error: zs = [N; nv; has_e]; qs = A ++ b ++ q ++ v ++ [E (N*N)]  ->  value :: grad *)
Definition op_se_fast : opfun := fun zs qs =>
  match zs with
  | [N; nv; he] =>
      let N := nat_of N in let nv := nat_of nv in
      let '(A, r) := seg (N * nv) qs in let '(b, r) := seg N r in let '(q, r) := seg N r in let '(v, r) := seg nv r in
      let E : option qmat := if (he =? 0)%Z then None else Some (matl N N r) in
      let A := matl N nv A in
      let d := vfreeze Q0 N (vsub (pv nv A (vecl b) (vecl v)) (vecl q)) in
      Ok (fast_value_at N E d :: lvec nv (fast_grad_at N E A d))
  | _ => Err (-1) end.

(* ---- block-diagonal extension: zs = [ns; m]; qs = W -> E (N*N) *)
Definition op_ext_of : opfun := fun zs qs =>
  match zs with
  | [ns; m] => let ns := nat_of ns in let m := nat_of m in
      Ok (lmat (ns * m) (ns * m) (ext_of m (wtsl ns m qs)))
  | _ => Err (-1) end.

(* ---- matrix_util pieces *)
Definition op_replace_prob_dist : opfun := fun zs qs =>
  match zs, qs with
  | [m], eps :: q => let m := nat_of m in Ok (lvec m (replace_prob_dist Qc_OF m eps (vecl q)))
  | _, _ => Err (-1) end.
Definition op_cov : opfun := fun zs qs =>
  match zs, qs with
  | [m], n :: q => let m := nat_of m in Ok (lmat m m (cov_mat Qc_OF (vecl q) n))
  | _, _ => Err (-1) end.
(* zs = [unbiased; m]; qs = eps :: nd :: n32 :: q(m)  ->  (m-1)^2 entries of the matrix that is inverted *)
Definition op_extracted : opfun := fun zs qs =>
  match zs, qs with
  | [ub; m], eps :: nd :: n32 :: q => let m := nat_of m in
      Ok (lmat (m - 1) (m - 1) (extracted_of Qc_OF (negb (ub =? 0)%Z) m eps nd n32 (vecl q)))
  | _, _ => Err (-1) end.
(* zs = [unbiased; m]; qs = eps :: nd :: n32 :: q(m) ++ inv((m-1)^2)
   -> Err 2 when inv is not the exact two-sided inverse (certificate), Err 1 when the placement raises (never, by
      C12_inverse_covariance_all_outcome_counts), else W (m*m) *)
Definition op_inv_weight : opfun := fun zs qs =>
  match zs, qs with
  | [ub; m], eps :: nd :: n32 :: r => let m := nat_of m in
      let '(q, r) := seg m r in
      let M := freeze Q0 (m - 1) (m - 1) (extracted_of Qc_OF (negb (ub =? 0)%Z) m eps nd n32 (vecl q)) in
      let inv := matl (m - 1) (m - 1) r in
      if negb (is_inverse_b Qc_OF (m - 1) M inv) then Err 2 else
      match place_inv Qc_OF m inv with
      | Some W => Ok (lmat m m W)
      | None => Err 1
      end
  | _, _ => Err (-1) end.

(* ---- configuration histories (the repaired code), WITH option identities.
        zs = kind :: ns :: m :: has_w0 :: has_e0 :: held :: steps, every step = [mode; oid; has_custom; has_computed]
        (kind 0 generic class, 1 fast class; held = identity of the option object the loss holds, -1 none; mode 0 identity,
        1 custom, 2 inverse sample, 3 inverse unbiased, 4 the accepted alias "unbiased_inverse_covariance",
        5 direct set_weight_matrices(custom) on the object; oid = identity of the option object handed in);
        qs = [W0 (ns*m*m)] ++ [E0 (N*N)] ++ per step [custom (ns*m*m)] ++ [computed (ns*m*m)].
        -> Err k when step k (1-based) raises; else held' :: has_w :: [W] ++ has_ext :: [E] *)
Definition mode_of (z : Z) : wmode :=
  if (z =? 0)%Z then MIdentity else if (z =? 1)%Z then MCustom else if (z =? 2)%Z then MInvSample
  else if (z =? 3)%Z then MInvUnbiased else MAliasUnbiasedInv.
Definition held_of (z : Z) : option nat := if (z <? 0)%Z then None else Some (nat_of z).
Definition z_of_held (h : option nat) : Qc := match h with Some n => qz (Z.of_nat n) | None => qz (-1) end.
Fixpoint run_steps (kind : Z) (ns m : nat) (k : Z) (steps : list Z) (qs : list Qc) (os : @ostate Qc_OF) : res :=
  match steps with
  | md :: oid :: hc :: hk :: rest =>
      let sz := (ns * m * m)%nat in
      let '(c, r) := if (hc =? 0)%Z then ([], qs) else seg sz qs in
      let '(cmp, r) := if (hk =? 0)%Z then ([], r) else seg sz r in
      let custom : @wts Qc_OF := if (hc =? 0)%Z then None else Some (wtsl ns m c) in
      let computed := if (hk =? 0)%Z then None else Some (wtsl ns m cmp) in
      let s : @ostep Qc_OF := if (md =? 5)%Z then OSet custom else OConfig (nat_of oid) (mode_of md) custom computed in
      let nxt := if (kind =? 0)%Z then
                   match step_generic_o s (f_w (o_st os), o_opt os) with
                   | COk (w, h) => COk {| o_st := {| f_w := w; f_ext := None |}; o_opt := h |} | CErr => CErr end
                 else step_fast_o m s os in
      match nxt with
      | COk os' => run_steps kind ns m (k + 1)%Z rest r os'
      | CErr => Err k
      end
  | _ =>
      let N := (ns * m)%nat in let st := o_st os in
      Ok (z_of_held (o_opt os) ::
          (match f_w st with Some w => qz 1 :: flat_wts ns m w | None => [qz 0] end)
          ++ (match f_ext st with Some e => qz 1 :: lmat N N e | None => [qz 0] end))
  end.
Definition op_config_from : opfun := fun zs qs =>
  match zs with
  | kind :: ns :: m :: hw0 :: he0 :: held :: steps =>
      let ns := nat_of ns in let m := nat_of m in let N := (ns * m)%nat in
      let '(w0, r) := if (hw0 =? 0)%Z then ([], qs) else seg (ns * m * m) qs in
      let '(e0, r) := if (he0 =? 0)%Z then ([], r) else seg (N * N) r in
      let st0 : @fstate Qc_OF := {| f_w := if (hw0 =? 0)%Z then None else Some (wtsl ns m w0);
                                    f_ext := if (he0 =? 0)%Z then None else Some (matl N N e0) |} in
      run_steps kind ns m 1%Z steps r {| o_st := st0; o_opt := held_of held |}
  | _ => Err (-1) end.

(* fast relative-entropy object (the repaired code), with option identities:
   zs = ns :: m :: has_w0 :: has_ew0 :: held :: steps, every step = [op; oid; custom_mode; has_w]
   (op 1: set_from_standard_qtomography_option_data with option object oid / its mode / weights, 2: set_weights on the
   configured object); qs = [w0(ns)] ++ [ew0(N)] ++ per step [w(ns)].
   -> held' :: has_w :: [w] ++ sel :: [ew(N)]   with sel 0: value() uses no weights, 1: uses ew, 2: value() raises AttributeError *)
Fixpoint run_re_steps (ns m : nat) (steps : list Z) (qs : list Qc) (os : @rostate Qc_OF) : res :=
  match steps with
  | op :: oid :: cm :: hw :: rest =>
      let '(w, r) := if (hw =? 0)%Z then ([], qs) else seg ns qs in
      let wo : option qvec := if (hw =? 0)%Z then None else Some (vec_of_list 0%Qc w) in
      let s : @rostep Qc_OF := if (op =? 1)%Z then ROConfig (nat_of oid) (negb (cm =? 0)%Z) wo else ROSet wo in
      run_re_steps ns m rest r (step_re_fast_o m s os)
  | _ =>
      let N := (ns * m)%nat in let st := ro_st os in
      Ok (z_of_held (ro_opt os) ::
          (match r_w st with Some w => qz 1 :: list_of_vec ns w | None => [qz 0] end)
          ++ (match re_fast_sel st with COk None => [qz 0] | COk (Some e) => qz 1 :: list_of_vec N e | CErr => [qz 2] end))
  end.
Definition op_config_re_from : opfun := fun zs qs =>
  match zs with
  | ns :: m :: hw0 :: he0 :: held :: steps =>
      let ns := nat_of ns in let m := nat_of m in let N := (ns * m)%nat in
      let '(w0, r) := if (hw0 =? 0)%Z then ([], qs) else seg ns qs in
      let '(e0, r) := if (he0 =? 0)%Z then ([], r) else seg N r in
      let w0o : option qvec := if (hw0 =? 0)%Z then None else Some (vecl w0) in
      let e0o : option qvec := if (he0 =? 0)%Z then None else Some (vecl e0) in
      run_re_steps ns m steps r {| ro_st := {| r_w := w0o; r_ew := e0o |}; ro_opt := held_of held |}
  | _ => Err (-1) end.

(* ---- relative entropy.  The logarithm is not computed: the reply carries, per flat index, the WEIGHTED coefficient
        c_i and the argument a_i with  value = sum_i c_i * ln a_i  (lemma re_value_terms), then gradient and Hessian. *)
Definition ln_dummy : Qc -> Qc := fun x => x.
Definition wopt (hw : Z) (l : list Qc) : option qvec := if (hw =? 0)%Z then None else Some (vecl l).
Definition re_reply (ns m nv : nat) (w : option qvec) (epsq epsp : Qc) (gp : qmat) (hp : nat -> nat -> qvec) (p q : qvec) : res :=
  let N := (ns * m)%nat in
  Ok (lvec N (fun i => wsc Qc_OF w (i / m)%nat (re_coef Qc_OF epsq (q i)))
      ++ lvec N (fun i => re_arg Qc_OF epsq epsp (q i) (p i))
      ++ lvec nv (re_grad_at Qc_OF ns m w epsq epsp gp p q)
      ++ lmat nv nv (re_hess_at Qc_OF ns m w epsq epsp gp hp p q)).
(* zs = [ns; m; nv; has_w; has_hp]; qs = epsq :: epsp :: p(N) ++ q(N) ++ gp(N*nv) ++ [w(ns)] ++ [hp] *)
Definition op_re_at : opfun := fun zs qs =>
  match zs, qs with
  | [ns; m; nv; hw; hh], epsq :: epsp :: r =>
      let ns := nat_of ns in let m := nat_of m in let nv := nat_of nv in let N := (ns * m)%nat in
      let '(p, r) := seg N r in let '(q, r) := seg N r in let '(gp, r) := seg (N * nv) r in
      let '(w, r) := if (hw =? 0)%Z then ([], r) else seg ns r in
      let hp := if (hh =? 0)%Z then @hp0 Qc_OF else hpl nv N r in
      re_reply ns m nv (wopt hw w) epsq epsp (matl N nv gp) hp (vecl p) (vecl q)
  | _, _ => Err (-1) end.
(* zs = [ns; m; nv; has_w]; qs = epsq :: epsp :: A ++ b ++ q ++ v ++ [w(ns)] *)
Definition op_re : opfun := fun zs qs =>
  match zs, qs with
  | [ns; m; nv; hw], epsq :: epsp :: r =>
      let ns := nat_of ns in let m := nat_of m in let nv := nat_of nv in let N := (ns * m)%nat in
      let '(A, r) := seg (N * nv) r in let '(b, r) := seg N r in let '(q, r) := seg N r in let '(v, r) := seg nv r in
      let A := matl N nv A in
      let p := vfreeze Q0 N (pv nv A (vecl b) (vecl v)) in
      re_reply ns m nv (wopt hw r) epsq epsp A hp0 p (vecl q)
  | _, _ => Err (-1) end.
(* fast: zs = [N; nv; has_ew]; qs = epsq :: epsp :: A ++ b ++ q ++ v ++ [ew(N)]  ->  c(N) ++ a(N) ++ grad(nv) *)
Definition op_re_fast : opfun := fun zs qs =>
  match zs, qs with
  | [N; nv; he], epsq :: epsp :: r =>
      let N := nat_of N in let nv := nat_of nv in
      let '(A, r) := seg (N * nv) r in let '(b, r) := seg N r in let '(q, r) := seg N r in let '(v, r) := seg nv r in
      let A := matl N nv A in let q := vecl q in
      let ew := wopt he r in
      let p := vfreeze Q0 N (pv nv A (vecl b) (vecl v)) in
      Ok (lvec N (fun i => esc Qc_OF ew i (qtrunc Qc_OF epsq (q i)))
          ++ lvec N (fun i => re_arg Qc_OF epsq epsp (q i) (p i))
          ++ lvec nv (re_fast_grad_at Qc_OF N ew epsq epsp A p q))
  | _, _ => Err (-1) end.
(* zs = [m]; qs = w(ns)  -> extend weights of length ns*m   (zs = [ns; m]) *)
Definition op_ew_of : opfun := fun zs qs =>
  match zs with
  | [ns; m] => let ns := nat_of ns in let m := nat_of m in Ok (lvec (ns * m) (ew_of Qc_OF m (vecl qs)))
  | _ => Err (-1) end.
(* zs = [is_valid_required]; qs = [atol; z; eps] *)
Definition op_round_varz : opfun := fun zs qs =>
  match zs, qs with
  | [vr], [atol; z; eps] =>
      match round_varz Qc_OF (negb (vr =? 0)%Z) atol z eps with Some x => Ok [x] | None => Err 1 end
  | _, _ => Err (-1) end.

(* ---- SimpleQuadraticLossFunction: zs = [n]; qs = ref(n) ++ v(n) -> value :: grad ++ hess *)
Definition op_sq : opfun := fun zs qs =>
  match zs with
  | [n] => let n := nat_of n in let '(rf, r) := seg n qs in
      let rf := vecl rf in let v := vecl r in
      Ok (sq_value n rf v :: lvec n (sq_grad rf v) ++ lmat n n (@sq_hess Qc_OF))
  | _ => Err (-1) end.

Definition C12_ops : optable :=
  [ ("c12.se_at"%string, op_se_at); ("c12.se"%string, op_se); ("c12.se_fast"%string, op_se_fast);
    ("c12.ext_of"%string, op_ext_of); ("c12.replace_prob_dist"%string, op_replace_prob_dist);
    ("c12.cov"%string, op_cov); ("c12.extracted"%string, op_extracted); ("c12.inv_weight"%string, op_inv_weight);
    ("c12.config_from"%string, op_config_from); ("c12.config_re_from"%string, op_config_re_from); ("c12.re_at"%string, op_re_at); ("c12.re"%string, op_re);
    ("c12.re_fast"%string, op_re_fast); ("c12.ew_of"%string, op_ew_of); ("c12.round_varz"%string, op_round_varz);
    ("c12.sq"%string, op_sq) ].
