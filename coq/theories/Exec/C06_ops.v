(* Executable wrappers for the C06 models (composition), instantiated at Qc.
   Object encoding (both directions).  ints:                                   rationals:
     State    [0; sys]                                                         n entries
     Gate     [1; sys]                                                         n*n entries (row-major)
     Povm     [2; sys; m]                                                      m*n entries
     MProcess [3; sys; m; r; shape(r)]                                         eps_zero :: m*n*n entries
     Ensemble [4; sys; k; is_zero; r; shape(r)]                                eps_zero :: k probabilities ++ k*n state entries
     Dist     [5; is_zero; k; r; shape(r)]                                     k probabilities
   A reply is  h :: header ints (as rationals, h of them) ++ rationals of the object. *)
From Coq Require Import ZArith QArith Qcanon List Bool Arith.
From QV.Core Require Import OF QcOF Sums Mat Cplx.
From QV.Exec Require Import Base.
From QV.Model Require Import QObj Multinomial C06_Compose.
Import ListNotations.

Notation QF := Qc_OF.
Definition c06_vec (n : nat) (qs : list Qc) : (nat -> Qc) * list Qc := (vec_of_list 0%Qc (firstn n qs), skipn n qs).
Definition c06_mat (n : nat) (qs : list Qc) : (nat -> nat -> Qc) * list Qc :=
  (mat_of_flat 0%Qc n n (firstn (n * n) qs), skipn (n * n) qs).
Fixpoint c06_vecs (k n : nat) (qs : list Qc) : list (nat -> Qc) * list Qc :=
  match k with O => ([], qs)
  | S k' => let '(v, r) := c06_vec n qs in let '(vs, r') := c06_vecs k' n r in (v :: vs, r') end.
Fixpoint c06_mats (k n : nat) (qs : list Qc) : list (nat -> nat -> Qc) * list Qc :=
  match k with O => ([], qs)
  | S k' => let '(v, r) := c06_mat n qs in let '(vs, r') := c06_mats k' n r in (v :: vs, r') end.
Definition c06_shape (zs : list Z) : list nat * list Z :=
  match zs with r :: t => (map Z.to_nat (firstn (Z.to_nat r) t), skipn (Z.to_nat r) t) | [] => ([], []) end.

(* decode one object; returns the object and the unread remainders *)
Definition c06_decode (n : nat) (zs : list Z) (qs : list Qc) : option (qobj QF * list Z * list Qc) :=
  match zs with
  | 0%Z :: sys :: zr => let '(v, qr) := c06_vec n qs in Some (QState QF sys v, zr, qr)
  | 1%Z :: sys :: zr => let '(G, qr) := c06_mat n qs in Some (QGate QF sys G, zr, qr)
  | 2%Z :: sys :: m :: zr => let '(P, qr) := c06_vecs (Z.to_nat m) n qs in Some (QPovm QF sys P, zr, qr)
  | 3%Z :: sys :: m :: zr =>
      let '(sh, zr') := c06_shape zr in
      match qs with
      | eps :: qs' => let '(hss, qr) := c06_mats (Z.to_nat m) n qs' in
          Some (QMProc QF (Build_mproc QF sys hss sh eps), zr', qr)
      | [] => None end
  | 4%Z :: sys :: k :: isz :: zr =>
      let '(sh, zr') := c06_shape zr in
      match qs with
      | eps :: qs' =>
          let k' := Z.to_nat k in
          let ps := firstn k' qs' in
          let '(sts, qr) := c06_vecs k' n (skipn k' qs') in
          Some (QEns QF (Build_ensemble QF sys sts (Build_dist QF ps sh (negb (isz =? 0)%Z)) eps), zr', qr)
      | [] => None end
  | 5%Z :: isz :: k :: zr =>
      let '(sh, zr') := c06_shape zr in
      let k' := Z.to_nat k in
      Some (QDist QF (Build_dist QF (firstn k' qs) sh (negb (isz =? 0)%Z)), zr', skipn k' qs)
  | _ => None
  end.
Fixpoint c06_decode_all (fuel n : nat) (zs : list Z) (qs : list Qc) : option (list (qobj QF)) :=
  match fuel with
  | O => Some []
  | S f => match c06_decode n zs qs with
           | None => None
           | Some (q, zr, qr) => match c06_decode_all f n zr qr with None => None | Some l => Some (q :: l) end
           end
  end.

Definition zn (k : nat) : Z := Z.of_nat k.
Definition c06_enc_shape (sh : list nat) : list Z := zn (length sh) :: map zn sh.
Definition c06_reply (hdr : list Z) (data : list Qc) : res := Ok (qz (zn (length hdr)) :: map qz hdr ++ data).
Definition c06_encode (n : nat) (q : qobj QF) : res :=
  match q with
  | QState _ s v => c06_reply [0%Z; s] (list_of_vec n v)
  | QGate _ s G => c06_reply [1%Z; s] (flat_of_mat n n G)
  | QPovm _ s P => c06_reply [2%Z; s; zn (length P)] (flat_map (list_of_vec n) P)
  | QMProc _ M => c06_reply (3%Z :: mp_sys _ M :: zn (length (mp_hss _ M)) :: c06_enc_shape (mp_shape _ M))
                            (mp_eps _ M :: flat_map (flat_of_mat n n) (mp_hss _ M))
  | QEns _ E => let D := en_dist _ E in
      c06_reply (4%Z :: en_sys _ E :: zn (length (en_states _ E)) :: (if d_zero _ D then 1%Z else 0%Z) :: c06_enc_shape (d_shape _ D))
                (en_eps _ E :: d_ps _ D ++ flat_map (list_of_vec n) (en_states _ E))
  | QDist _ D => c06_reply (5%Z :: (if d_zero _ D then 1%Z else 0%Z) :: zn (length (d_ps _ D)) :: c06_enc_shape (d_shape _ D)) (d_ps _ D)
  end.

(* c06.compose : zs = n :: ortho :: fix_mm :: fix_ps :: nobj :: headers ; qs = sd :: atol :: eps8 :: [ivec (n) if ortho = 0] ++ data.
   runs compose_qoperations (the right-to-left fold) on the listed operands *)
Definition op_compose : opfun := fun zs qs =>
  match zs, qs with
  | n :: ortho :: fmm :: fps :: nobj :: zr, sd :: atol :: eps8 :: qr =>
      let n' := Z.to_nat n in
      let o := negb (ortho =? 0)%Z in
      let '(ivec, qr') := if o then ((fun _ : nat => 0%Qc), qr) else c06_vec n' qr in
      match c06_decode_all (Z.to_nat nobj) n' zr qr' with
      | None => Err (-1)
      | Some objs =>
          match compose_qoperations QF n' sd atol eps8 o ivec (negb (fmm =? 0)%Z) (negb (fps =? 0)%Z) objs with
          | MErr c => Err (Z.of_nat c)
          | MOk q => c06_encode n' q
          end
      end
  | _, _ => Err (-1) end.

(* c06.to_povm : zs = [n; m] ; qs = sd :: m*n*n *)
Definition op_to_povm : opfun := fun zs qs =>
  match zs, qs with
  | [n; m], sd :: qr => let n' := Z.to_nat n in
      Ok (flat_map (list_of_vec n') (to_povm QF sd (fst (c06_mats (Z.to_nat m) n' qr))))
  | _, _ => Err (-1) end.

(* c06.gm_mode2 : zs = [n; m; k]  (k = 0: one post state for all outcomes, else k post states) ; qs = m*n povm ++ post states *)
Definition op_gm_mode2 : opfun := fun zs qs =>
  match zs with
  | [n; m; k] => let n' := Z.to_nat n in
      let '(P, qr) := c06_vecs (Z.to_nat m) n' qs in
      let hss := if (k =? 0)%Z then gm_mode2_single QF P (fst (c06_vec n' qr))
                 else gm_mode2_list QF P (fst (c06_vecs (Z.to_nat k) n' qr)) in
      Ok (flat_map (flat_of_mat n' n') hss)
  | _ => Err (-1) end.

(* complex helpers *)
Definition c06_cmat (m n : nat) (l : list Qc) : cmat QF := mat_of_flat (0%Qc, 0%Qc) m n (cplx_of_flat l).
Definition c06_flat_cmat (m n : nat) (A : cmat QF) : list Qc := flat_of_cplx (flat_of_mat m n A).
Fixpoint c06_cmats (k d : nat) (qs : list Qc) : list (cmat QF) * list Qc :=
  match k with O => ([], qs)
  | S k' => let A := c06_cmat d d (firstn (2 * d * d) qs) in
            let '(r, rest) := c06_cmats k' d (skipn (2 * d * d) qs) in (A :: r, rest) end.
Definition cfreeze (m n : nat) (A : cmat QF) : cmat QF := freeze (0%Qc, 0%Qc) m n A.

(* the comp-basis HS matrix of one outcome, from the kernel output:
   mode 0: S (2 d d) ; mode 1 (the code: grouping tolerance tol) / 12 (before fix povm-generate-mprocess-mode1-eigenspace-tolerance: tol = 0) /
   10 (before fix povm-generate-mprocess-mode1-eigenvectors: rows, no conjugate) / 11 (docstring formula without grouping): w (d) ++ V (2 d d) *)
Definition c06_cb (d : nat) (mode : Z) (tol : Qc) (qs : list Qc) : cmat QF :=
  if (mode =? 0)%Z then gm_mode0_cb QF d (c06_cmat d d qs)
  else let w := vec_of_list 0%Qc (firstn d qs) in let V := c06_cmat d d (skipn d qs) in
       if (mode =? 1)%Z then gm_mode1_cb QF d tol w V
       else if (mode =? 12)%Z then gm_mode1_cb QF d 0%Qc w V
       else if (mode =? 10)%Z then gm_mode1_cb_prefix QF d w V else gm_mode1_cb_doc QF d w V.
(* c06.gm_cb : zs = [d; mode] ; qs = tol :: kernel output -> interleaved complex d^2 x d^2 *)
Definition op_gm_cb : opfun := fun zs qs =>
  match zs, qs with
  | [d; mode], tol :: qr => let d' := Z.to_nat d in Ok (c06_flat_cmat (d' * d') (d' * d') (c06_cb d' mode tol qr))
  | _, _ => Err (-1) end.
(* c06.gm_gb : zs = [d; mode] ; qs = eps (= Settings.get_atol(): truncate_hs threshold AND mode-1 grouping tolerance) :: basis (d*d matrices, 2 d d each) ++ kernel output -> real HS (general basis) or Err 26 *)
Definition op_gm_gb : opfun := fun zs qs =>
  match zs, qs with
  | [d; mode], eps :: qr => let d' := Z.to_nat d in let n := (d' * d')%nat in
      let '(Bs, rest) := c06_cmats n d' qr in
      let B := fun a => nth a Bs (fun _ _ => (0%Qc, 0%Qc)) in
      let Hcb := cfreeze n n (c06_cb d' mode eps rest) in
      let U := cfreeze n n (c06_umat QF d' B) in
      let UH := cfreeze n n (mmul n U Hcb) in
      let H := cfreeze n n (mmul n UH (cadj U)) in
      match truncate_hs QF d' eps H with
      | MErr c => Err (Z.of_nat c)
      | MOk R => Ok (flat_of_mat n n R)
      end
  | _, _ => Err (-1) end.
(* c06.induced_cb : zs = [d] ; qs = interleaved complex d^2 x d^2 comp-basis HS -> row-major vector (interleaved) of the induced effect *)
Definition op_induced_cb : opfun := fun zs qs =>
  match zs with
  | [d] => let d' := Z.to_nat d in let n := (d' * d')%nat in
      Ok (flat_of_cplx (list_of_vec n (induced_effect_cb QF d' (c06_cmat n n qs))))
  | _ => Err (-1) end.

(* the memoised pipeline of op_gm_gb is the model's c06_convert_from_cb (freeze is the identity on the index range) *)
Lemma c06_gm_gb_pipeline d B Hcb a b : (a < d * d)%nat -> (b < d * d)%nat ->
  cfreeze (d * d) (d * d) (mmul (d * d) (cfreeze (d * d) (d * d) (mmul (d * d) (cfreeze (d * d) (d * d) (c06_umat QF d B)) (cfreeze (d * d) (d * d) Hcb)))
        (cadj (cfreeze (d * d) (d * d) (c06_umat QF d B)))) a b
  = c06_convert_from_cb QF d B Hcb a b.
Proof. intros Ha Hb. unfold cfreeze. rewrite freeze_spec by assumption. unfold c06_convert_from_cb, mmul.
  apply sumn_ext; intros l Hl. rewrite freeze_spec by assumption. f_equal.
  - apply sumn_ext; intros k Hk. now rewrite !freeze_spec by assumption.
  - unfold cadj. now rewrite freeze_spec by assumption. Qed.

Definition C06_ops : optable :=
  [ ("c06.compose"%string, op_compose); ("c06.to_povm"%string, op_to_povm); ("c06.gm_mode2"%string, op_gm_mode2);
    ("c06.gm_cb"%string, op_gm_cb); ("c06.gm_gb"%string, op_gm_gb); ("c06.induced_cb"%string, op_induced_cb) ].
