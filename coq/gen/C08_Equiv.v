(* Re-checked on EVERY run against the definitions REGENERATED from /repo's current source by gen/c08_py2coq.py (Gen_c08_forward.v):
   the index / stacking logic of the tomography forward model, as written in Python today, equals the hand-written model of
   Model/C08_Forward.v about which the property theorems (Props/C08.v) are stated. Translated (34 definitions):
     num_variables formulas of StandardQst / Povmt / Qpt / Qmpt.__init__ ; num_outcomes of the four classes (schedule -> tester lookup) ;
     StandardQst._set_coeffs, StandardPovmt._set_coeffs, calc_c_qpt, StandardQpt._set_coeffs, cqpt_to_cqmpt, StandardQmpt._set_coeffs
     (dictionary keys (schedule_index, x), tester lookup, zero-block offsets, slices) ; calc_matA, calc_vecB (sorted stacking) ;
     the split of calc_prob_dists and the slice of calc_fisher_matrix (callees truncate_and_normalize / matrix_util.calc_fisher_matrix
     are uninterpreted parameters) ; the loop of Experiment.calc_prob_dists (calc_prob_dist uninterpreted) ;
     Experiment.calc_prob_dist (object lookup + reverse-order composition, compose_qoperations uninterpreted) ; _get_target_index of the four
     classes ; StandardQTomography.calc_prob_dist ; get_coeffs_0th_vec / get_coeffs_1st_mat ; is_all_same_composite_systems (CompositeSystem.__eq__ uninterpreted) ; generate_prob_dists_sequence (slot replacement loop) ; is_valid_experiment of the four classes ; is_fullrank_matA (np.linalg.matrix_rank uninterpreted).
   Schedules are lists of item indices ([enc_qst], [enc_povmt], [enc3] in Proofs/C08_NpSem.v). The last four theorems transport the
   forward-model property to the regenerated code: matA / vecB computed by the regenerated functions predict the Born statistics.
   A behaviour-changing edit of a translated function makes this file fail to compile: the check then reports the tie broken and its
   correspondence sub-checks (run with thorough-tier counts) supply the failing input. *)
From Coq Require Import ZArith Arith List Bool Lia.
From QV.Core Require Import OF Sums Mat.
From QV.Model Require Import QObj C08_Forward C08_NpSem.
From QV.Proofs Require Import C08_Forward C08_NpSem.
From QVGen Require Import Gen_c08_forward.
Import ListNotations.

Section Equiv.
Context (F : OF).
Notation D0 := (d_of F (@snd (lvec F) F)).
Notation D1 := (d_of F (@fst (lvec F) F)).


(* ---- num_variables *)
Lemma sq_pos d : (1 <= d)%nat -> (1 <= d * d)%nat.
Proof. intros H. change 1%nat with (1 * 1)%nat. now apply Nat.mul_le_mono. Qed.
(* the four proofs push Z.of_nat through the model's formula and finish with [ring]: any algebraically equivalent rewrite of the Python
   expression (e.g. dim ** 2 * (dim ** 2 - 1)) is still accepted *)
Ltac nv_solve := cbv zeta; repeat (rewrite !Nat2Z.inj_mul || (rewrite Nat2Z.inj_sub by lia)); change (Z.of_nat 1) with 1%Z; ring.
Theorem gen_qst_num_variables_eq : forall para d, (1 <= d)%nat ->
  gen_qst_num_variables F (Z.of_nat d) para = Z.of_nat (qst_num_variables para d).
Proof. intros para d Hd. pose proof (sq_pos d Hd). unfold gen_qst_num_variables, qst_num_variables. destruct para; nv_solve. Qed.
Theorem gen_povmt_num_variables_eq : forall para d m, (1 <= m)%nat ->
  gen_povmt_num_variables F (Z.of_nat d) (Z.of_nat m) para = Z.of_nat (povmt_num_variables para d m).
Proof. intros para d m Hm. unfold gen_povmt_num_variables, povmt_num_variables. destruct para; nv_solve. Qed.
Theorem gen_qpt_num_variables_eq : forall para d, (1 <= d)%nat ->
  gen_qpt_num_variables F (Z.of_nat d) para = Z.of_nat (qpt_num_variables para d).
Proof. intros para d Hd. pose proof (sq_pos d Hd) as H1. unfold gen_qpt_num_variables, qpt_num_variables.
  assert (H2 : (d * d <= d * d * (d * d))%nat). { rewrite <- (Nat.mul_1_r (d * d)) at 1. now apply Nat.mul_le_mono_l. }
  destruct para; nv_solve. Qed.
Theorem gen_qmpt_num_variables_eq : forall para d m, (1 <= d)%nat -> (1 <= m)%nat ->
  gen_qmpt_num_variables F (Z.of_nat d) (Z.of_nat m) para = Z.of_nat (qmpt_num_variables para d m).
Proof. intros para d m Hd Hm. pose proof (sq_pos d Hd) as H1. unfold gen_qmpt_num_variables, qmpt_num_variables.
  assert (H2 : (d * d <= m * (d * d * (d * d)))%nat).
  { rewrite <- (Nat.mul_1_r (d * d)) at 1. rewrite <- (Nat.mul_1_l (d * d * 1)). apply Nat.mul_le_mono; [exact Hm|]. now apply Nat.mul_le_mono_l. }
  destruct para; nv_solve. Qed.

(* ---- num_outcomes: schedule -> tester lookup *)
Theorem gen_qst_num_outcomes_eq : forall (povms : list (list (lvec F))) (scheds : list nat) j, (j < length scheds)%nat ->
  gen_qst_num_outcomes F (map enc_qst scheds) povms (Z.of_nat j) = Some (Z.of_nat (nth j (qst_counts F povms scheds) O)).
Proof. intros povms scheds j Hj. unfold gen_qst_num_outcomes.
  assert ((Z.of_nat j >=? 0)%Z = true) as -> by (apply Z.geb_le; lia).
  assert ((Z.of_nat j <? zlen (map enc_qst scheds))%Z = true) as -> by (apply Z.ltb_lt; rewrite zlen_map; unfold zlen; lia).
  rewrite znth_of_nat, (nth_map_lt _ _ O []) by exact Hj. unfold enc_qst. change 1%Z with (Z.of_nat 1). rewrite znth_of_nat. cbn [nth].
  rewrite znth_of_nat. unfold qst_counts. now rewrite (nth_map_lt _ _ O O) by exact Hj. Qed.
Theorem gen_povmt_num_outcomes_eq : forall m (scheds : list nat) j, (j < length scheds)%nat ->
  gen_povmt_num_outcomes F (zlen scheds) (Z.of_nat m) (Z.of_nat j) = Some (Z.of_nat (nth j (povmt_counts m scheds) O)).
Proof. intros m scheds j Hj. unfold gen_povmt_num_outcomes.
  assert ((Z.of_nat j >=? 0)%Z = true) as -> by (apply Z.geb_le; lia).
  assert ((Z.of_nat j <? zlen scheds)%Z = true) as -> by (apply Z.ltb_lt; unfold zlen; lia).
  unfold povmt_counts. now rewrite (nth_map_lt _ _ O O) by exact Hj. Qed.
Theorem gen_qpt_num_outcomes_eq : forall (povms : list (list (lvec F))) (scheds : list (nat * nat)) j, (j < length scheds)%nat ->
  gen_qpt_num_outcomes F (map enc3 scheds) povms (Z.of_nat j) = Some (Z.of_nat (nth j (qpt_counts F povms scheds) O)).
Proof. intros povms scheds j Hj. unfold gen_qpt_num_outcomes.
  assert ((Z.of_nat j >=? 0)%Z = true) as -> by (apply Z.geb_le; lia).
  assert ((Z.of_nat j <? zlen (map enc3 scheds))%Z = true) as -> by (apply Z.ltb_lt; rewrite zlen_map; unfold zlen; lia).
  rewrite znth_of_nat, (nth_map_lt _ _ (O, O) []) by exact Hj. unfold enc3. change 2%Z with (Z.of_nat 2). rewrite znth_of_nat. cbn [nth].
  rewrite znth_of_nat. unfold qpt_counts. now rewrite (nth_map_lt _ _ (O, O) O) by exact Hj. Qed.
Theorem gen_qmpt_num_outcomes_eq : forall m (povms : list (list (lvec F))) (scheds : list (nat * nat)) j, (j < length scheds)%nat ->
  gen_qmpt_num_outcomes F (map enc3 scheds) povms (Z.of_nat m) (Z.of_nat j) = Some (Z.of_nat (nth j (qmpt_counts F m povms scheds) O)).
Proof. intros m povms scheds j Hj. unfold gen_qmpt_num_outcomes.
  assert ((Z.of_nat j >=? 0)%Z = true) as -> by (apply Z.geb_le; lia).
  assert ((Z.of_nat j <? zlen (map enc3 scheds))%Z = true) as -> by (apply Z.ltb_lt; rewrite zlen_map; unfold zlen; lia).
  rewrite znth_of_nat, (nth_map_lt _ _ (O, O) []) by exact Hj. unfold enc3. change 2%Z with (Z.of_nat 2). rewrite znth_of_nat. cbn [nth].
  rewrite znth_of_nat. unfold qmpt_counts. rewrite (nth_map_lt _ _ (O, O) O) by exact Hj. unfold zlen. rewrite Nat2Z.inj_mul. f_equal. apply Z.mul_comm. Qed.

(* ---- sorted stacking: calc_matA / calc_vecB on ANY dictionary (any insertion order) *)
Theorem gen_calc_matA_eq : forall d : dict F, gen_calc_matA F (d_of F (@fst (lvec F) F) d) = calc_matA d.
Proof. intros d. unfold gen_calc_matA, calc_matA, np_vstack1. rewrite sorted_d_of. unfold d_of. rewrite map_map. reflexivity. Qed.
Theorem gen_calc_vecB_eq : forall d : dict F, gen_calc_vecB F (d_of F (@snd (lvec F) F) d) = calc_vecB d.
Proof. intros d. unfold gen_calc_vecB, calc_vecB. rewrite sorted_d_of. unfold d_of. rewrite map_map. reflexivity. Qed.

(* ---- the split of calc_prob_dists: counts[j] = num_outcomes(j), any counts *)
Theorem gen_calc_prob_dists_eq : forall para eps (A : list (lvec F)) (b var : list F) (counts : list nat),
  (forall r, In r A -> (length r <= length var)%nat) ->
  gen_calc_prob_dists F para A b var (zlen counts) (counts_fn counts) (trunc_norm F eps) = calc_prob_dists F eps A b (vl var) counts.
Proof. intros para eps A b var counts H. unfold gen_calc_prob_dists, calc_prob_dists, np_vstack1.
  rewrite sizes_of_counts, py_slice_droplast. unfold np_split, np_cumsum. rewrite np_split_counts.
  assert (E : (if para then vec_add F (matvec F A var) b else vec_add F (matvec F A var) b) = affine A b (vl var))
    by (destruct para; now apply vec_add_matvec).
  rewrite E. destruct (zlen (nodupz (map Z.of_nat counts)) =? 1)%Z; reflexivity. Qed.
(* ---- the slice of calc_fisher_matrix: what is handed to matrix_util.calc_fisher_matrix (an uninterpreted callee) *)
Theorem gen_calc_fisher_matrix_eq : forall (A : list (lvec F)) (b var : list F) (counts : list nat) j
    (ext : list F -> list (list F) -> list (list F)),
  (forall r, In r A -> (length r <= length var)%nat) ->
  gen_calc_fisher_matrix F A b (counts_fn counts) ext (Z.of_nat j) var
  = ext (fisher_prob_dist F A b (vl var) counts j) (firstn (nth j counts O) (skipn (offset counts j) A)).
Proof. intros A b var counts j ext H. unfold gen_calc_fisher_matrix, fisher_prob_dist. cbv zeta.
  rewrite zsum_counts. unfold counts_fn at 1 2 3. rewrite Nat2Z.id, !py_slice_window. f_equal.
  apply vec_add_matvec. intros r Hr. apply H. apply in_firstn in Hr. now apply in_skipn in Hr. Qed.


(* ---- StandardQst._set_coeffs: both dictionaries, for any tester list and any schedule list *)
Theorem gen_qst_set_coeffs_eq : forall para sd (povms : list (list (lvec F))) (scheds : list nat),
  gen_qst_set_coeffs F (map enc_qst scheds) povms sd para
  = (D0 (qst_coeffs F para sd povms scheds), D1 (qst_coeffs F para sd povms scheds)).
Proof. intros para sd povms scheds. unfold gen_qst_set_coeffs.
  set (pv := fun sched : list Z => znth [] povms (znth 0%Z sched (-1))).
  set (f0 := fun vec : lvec F => if para then kdiv F (znth (c0 F) vec 0) sd else c0 F).
  set (f1 := fun vec : lvec F => if para then py_slice vec (Some 1%Z) None else vec).
  rewrite (fold_left_pair _
     (fun d it => fold_left (fun d x => dict_set d (fst it, fst x) (f0 (snd x))) (zenumerate (pv (snd it))) d)
     (fun d it => fold_left (fun d x => dict_set d (fst it, fst x) (f1 (snd x))) (zenumerate (pv (snd it))) d)).
  2:{ intros a b [si sched]. cbv zeta. fold (pv sched).
      rewrite (fold_left_pair _ (fun d x => dict_set d (si, fst x) (f0 (snd x))) (fun d x => dict_set d (si, fst x) (f1 (snd x)))); [reflexivity|].
      intros a' b' [ei vec]. unfold f0, f1. destruct para; reflexivity. }
  rewrite !(nested_fill fst (fun it => zenumerate (pv (snd it))) fst) by (intros; apply nodup_zenumerate).
  unfold qst_coeffs. rewrite !concat_map_enumerate_build. unfold qst_per_schedule.
  rewrite !zenumerate_eq, !enumerate_map, !map_map. cbn [fst snd].
  f_equal; f_equal; apply map_ext; intros [j i]; cbn [fst snd]; unfold pv, enc_qst;
    (change (znth 0%Z [0%Z; Z.of_nat i] (-1)) with (Z.of_nat i)); rewrite znth_of_nat;
    unfold qst_rows; rewrite zenumerate_eq, enumerate_map, !map_map; apply map_ext; intros [x vec]; cbn [fst snd]; unfold f0, f1;
    destruct para; cbn [fst snd]; try reflexivity.
  - change 0%Z with (Z.of_nat 0). now rewrite znth_of_nat, nth0_hd.
  - change 1%Z with (Z.of_nat 1). now rewrite py_slice_from, skipn1_tl. Qed.


(* ---- calc_c_qpt (StandardQpt._set_coeffs stores its first two results): the two dictionaries and the per-schedule C matrices *)
Definition c_dict_model (states : list (lvec F)) (povms : list (list (lvec F))) (scheds : list (nat * nat)) : list (Z * list (lvec F)) :=
  map (fun p => (Z.of_nat (fst p), qpt_c_rows F (nth (fst (snd p)) states []) (nth (snd (snd p)) povms []))) (enumerate scheds).
Theorem gen_calc_c_qpt_eq : forall para (states : list (lvec F)) (povms : list (list (lvec F))) (scheds : list (nat * nat)),
  gen_calc_c_qpt F states povms (map enc3 scheds) para
  = (D0 (qpt_coeffs F para states povms scheds), D1 (qpt_coeffs F para states povms scheds), c_dict_model states povms scheds).
Proof. intros para states povms scheds. unfold gen_calc_c_qpt.
  set (st := fun sched : list Z => znth [] states (znth 0%Z sched 0)).
  set (pv := fun sched : list Z => znth [] povms (znth 0%Z sched 2)).
  set (cf := fun (sched : list Z) (x : Z * lvec F) => np_flatten F (np_outer F (snd x) (st sched))).
  set (g1 := fun (sched : list Z) x => if para then py_slice (cf sched x) (Some (zlen (st sched))) None else cf sched x).
  set (g0 := fun (sched : list Z) x => if para then znth (c0 F) (cf sched x) 0 else c0 F).
  rewrite (fold_left_triple _
     (fun d it => fold_left (fun d x => dict_set d (fst it, fst x) (g1 (snd it) x)) (zenumerate (pv (snd it))) d)
     (fun d it => fold_left (fun d x => dict_set d (fst it, fst x) (g0 (snd it) x)) (zenumerate (pv (snd it))) d)
     (fun cd it => dictz_set cd (fst it) (np_vstack1 F (map (cf (snd it)) (zenumerate (pv (snd it))))))).
  2:{ intros a b c [si sched]. cbv zeta. fold (st sched). fold (pv sched).
      rewrite (fold_left_triple _ (fun d x => dict_set d (si, fst x) (g1 sched x)) (fun d x => dict_set d (si, fst x) (g0 sched x))
                 (fun scl x => scl ++ [cf sched x])).
      - rewrite fold_left_snoc. reflexivity.
      - intros a' b' c' [ei vec]. unfold g0, g1, cf. destruct para; reflexivity. }
  rewrite !(nested_fill fst (fun it => zenumerate (pv (snd it))) fst) by (intros; apply nodup_zenumerate).
  rewrite (dictz_fill fst (fun it => np_vstack1 F (map (cf (snd it)) (zenumerate (pv (snd it)))))) by (try apply nodup_zenumerate; intros e it []).
  cbn [app]. unfold qpt_coeffs, c_dict_model. rewrite !concat_map_enumerate_build. unfold qpt_per_schedule.
  rewrite !zenumerate_eq, !enumerate_map, !map_map. cbn [fst snd].
  assert (Est : forall ik, st (enc3 ik) = nth (fst ik) states []).
  { intros ik. unfold st, enc3. change (znth 0%Z [Z.of_nat (fst ik); 0%Z; Z.of_nat (snd ik)] 0) with (Z.of_nat (fst ik)). apply znth_of_nat. }
  assert (Epv : forall ik, pv (enc3 ik) = nth (snd ik) povms []).
  { intros ik. unfold pv, enc3. change (znth 0%Z [Z.of_nat (fst ik); 0%Z; Z.of_nat (snd ik)] 2) with (Z.of_nat (snd ik)). apply znth_of_nat. }
  repeat match goal with |- (_, _) = (_, _) => apply f_equal2 end; [f_equal|f_equal|]; apply map_ext; intros [j ik]; cbn [fst snd]; rewrite Epv.
  - unfold qpt_rows, qpt_c_rows. rewrite map_map, zenumerate_eq, enumerate_map, !map_map. apply map_ext. intros [x vec]. cbn [fst snd].
    unfold g0, cf. rewrite Est. cbn [snd]. rewrite np_outer_flat. destruct para; cbn [snd]; [|reflexivity].
    change 0%Z with (Z.of_nat 0). now rewrite znth_of_nat.
  - unfold qpt_rows, qpt_c_rows. rewrite map_map, zenumerate_eq, enumerate_map, !map_map. apply map_ext. intros [x vec]. cbn [fst snd].
    unfold g1, cf. rewrite Est. cbn [snd]. rewrite np_outer_flat. destruct para; cbn [fst]; [|reflexivity].
    unfold zlen. now rewrite py_slice_from.
  - f_equal. unfold np_vstack1, qpt_c_rows. rewrite zenumerate_eq, map_map. unfold cf. rewrite Est.
    rewrite <- (map_snd_combine_seq (nth (snd ik) povms []) O) at 2. unfold enumerate. rewrite map_map. apply map_ext. intros [x vec]. cbn [snd].
    apply np_outer_flat. Qed.


(* ---- StandardPovmt._set_coeffs *)
(* the stacked row c of (state, outcome x) exactly as the generated text builds it *)
Definition gen_c (m : Z) (state : lvec F) (x : Z) : lvec F :=
  let vec_size := zlen state in
  let pre_zeros := np_flatten F (np_zeros2 F 1 (x * vec_size)) in
  let post_zeros := np_flatten F (np_zeros2 F 1 ((m - 1 - x) * vec_size)) in
  let stack_list := [] in
  let stack_list := if negb (zlen pre_zeros =? 0)%Z then stack_list ++ [pre_zeros] else stack_list in
  let stack_list := stack_list ++ [state] in
  let stack_list := if negb (zlen post_zeros =? 0)%Z then stack_list ++ [post_zeros] else stack_list in
  np_hstack1 F stack_list.
Lemma gen_c_eq m (s : lvec F) x : (x < m)%nat -> gen_c (Z.of_nat m) s (Z.of_nat x) = povmt_c F (length s) m x s.
Proof. intros Hx. unfold gen_c, povmt_c. cbv zeta. change (zlen s) with (Z.of_nat (length s)). rewrite <- Nat2Z.inj_mul.
  replace ((Z.of_nat m - 1 - Z.of_nat x) * Z.of_nat (length s))%Z with (Z.of_nat ((m - 1 - x) * length s)) by (rewrite Nat2Z.inj_mul; f_equal; lia).
  rewrite !flat_zeros_row, hstack1_cond, hstack1_snoc, hstack1_cond. cbn [app np_hstack1 concat]. now rewrite <- app_assoc. Qed.

Theorem gen_povmt_set_coeffs_eq : forall para sd m (states : list (lvec F)) (scheds : list nat),
  gen_povmt_set_coeffs F (map enc_povmt scheds) states (Z.of_nat m) sd para
  = (D0 (povmt_coeffs F para sd m states scheds), D1 (povmt_coeffs F para sd m states scheds)).
Proof. intros para sd m states scheds. unfold gen_povmt_set_coeffs. cbv zeta.
  set (M := Z.of_nat m).
  set (st := fun sched : list Z => znth [] states (znth 0%Z sched 0)).
  set (g1 := fun (sched : list Z) (x : Z) => let c := gen_c M (st sched) x in
               if para then vec_sub F (firstn (Z.to_nat (zlen (st sched) * (M - 1))) c)
                                      (np_tile1 F (skipn (Z.to_nat (zlen (st sched) * (M - 1))) c) (M - 1)) else c).
  set (g0 := fun (sched : list Z) (x : Z) => let c := gen_c M (st sched) x in
               if para then cmul F sd (znth (c0 F) (skipn (Z.to_nat (zlen (st sched) * (M - 1))) c) 0) else c0 F).
  rewrite (fold_left_pair _
     (fun d it => fold_left (fun d x => dict_set d (fst it, x) (g1 (snd it) x)) (zrange M) d)
     (fun d it => fold_left (fun d x => dict_set d (fst it, x) (g0 (snd it) x)) (zrange M) d)).
  2:{ intros a b [si sched]. fold (st sched).
      rewrite (fold_left_pair _ (fun d x => dict_set d (si, x) (g1 sched x)) (fun d x => dict_set d (si, x) (g0 sched x))); [reflexivity|].
      intros a' b' x. unfold g0, g1, gen_c. destruct para; reflexivity. }
  assert (Hnd : forall it : Z * list Z, NoDup (map (fun x : Z => x) (zrange M))) by (intros _; rewrite map_id; apply nodup_of_nat_seq).
  rewrite !(nested_fill fst (fun _ => zrange M) (fun x => x)) by (try apply nodup_zenumerate; exact Hnd).
  unfold povmt_coeffs. rewrite !concat_map_enumerate_build. unfold povmt_per_schedule.
  rewrite !zenumerate_eq, !enumerate_map, !map_map. cbn [fst snd].
  assert (Est : forall i, st (enc_povmt i) = nth i states []).
  { intros i. unfold st, enc_povmt. change (znth 0%Z [Z.of_nat i; 0%Z] 0) with (Z.of_nat i). apply znth_of_nat. }
  subst M. rewrite zrange_of_nat.
  f_equal; f_equal; apply map_ext; intros [j i]; cbn [fst snd]; unfold povmt_rows; rewrite enumerate_map, enumerate_seq0, !map_map;
    apply map_ext_in; intros x Hx; apply in_seq in Hx; cbn [fst snd]; f_equal; unfold g0, g1; cbv zeta; rewrite Est, gen_c_eq by lia;
    unfold povmt_row; unfold zlen;
    replace (Z.of_nat m - 1)%Z with (Z.of_nat (m - 1)) by lia; rewrite <- ?Nat2Z.inj_mul, ?Nat2Z.id; destruct para; cbn [fst snd]; try reflexivity.
  unfold vec_sub, np_tile1, tile. now rewrite vmap2_map2, Nat2Z.id. Qed.


(* ---- cqpt_to_cqmpt: block offsets, for EVERY matrix c_qpt, outcome count m and dimension d, both flags *)
Theorem gen_cqpt_to_cqmpt_eq : forall para d m (c : list (lvec F)),
  gen_cqpt_to_cqmpt F c (Z.of_nat m) (Z.of_nat d) para = cqpt_to_cqmpt F para (d * d) m c.
Proof. intros para d m c. unfold gen_cqpt_to_cqmpt, cqpt_to_cqmpt. cbv zeta. rewrite <- Nat2Z.inj_mul.
  set (n := (d * d)%nat). destruct para.
  - rewrite !list_repeat_single. replace (Z.to_nat (Z.of_nat m - 1)) with (m - 1)%nat by lia. rewrite sp_block_diag_repeat.
    unfold cols_to, cols_from.
    rewrite (map_ext (fun r : list F => py_slice r None (Some (Z.of_nat n))) (firstn n)) by (intros; apply py_slice_to).
    rewrite (map_ext (fun r : list F => py_slice r (Some (Z.of_nat n)) None) (skipn n)) by (intros; apply py_slice_from).
    rewrite hstack2_zeros. cbn [fst snd].
    assert (E1 : Z.to_nat (shape1 F (map (skipn n) c)) = (row_width F c - n)%nat).
    { destruct c as [|r c']; [reflexivity|]. unfold shape1, zlen. cbn [map row_width]. rewrite skipn_length. apply Nat2Z.id. }
    assert (E2 : Z.to_nat (shape1 F c - shape1 F (map (firstn n) c)) = (row_width F c - n)%nat).
    { destruct c as [|r c']; [reflexivity|]. unfold shape1, zlen. cbn [map row_width]. rewrite firstn_length. lia. }
    rewrite E1.
    replace (np_hstack2 F [mat_neg F (map (firstn n) c); np_zeros2 F (shape0 F (map (firstn n) c)) (shape1 F c - shape1 F (map (firstn n) c))])
      with (map (fun dr : list F => map (copp F) dr ++ zeros (row_width F c - n)) (map (firstn n) c)).
    2:{ replace (shape0 F (map (firstn n) c)) with (shape0 F (mat_neg F (map (firstn n) c))) by (unfold shape0, mat_neg; now rewrite !zlen_map).
        rewrite hstack2_zeros, E2. unfold mat_neg, vec_neg. rewrite !map_map. reflexivity. }
    set (D := map (fun dr : list F => map (copp F) dr ++ zeros (row_width F c - n)) (map (firstn n) c)).
    match goal with |- context [np_hstack2 F ?l] =>
      assert (Ea1 : np_hstack2 F l = map2 (fun dd e => tile dd (m - 1) ++ e) D (map (skipn n) c)) end.
    { destruct (m - 1)%nat as [|k] eqn:Ek.
      - cbn [repeat app np_hstack2 fold_left]. unfold D. symmetry. generalize (fun dr : list F => map (copp F) dr ++ zeros (row_width F c - n)) as g. intros g.
        clear. induction c as [|r c IH]; [reflexivity|]. cbn [map map2]. f_equal. exact IH.
      - cbn [repeat app np_hstack2]. rewrite <- (map_id D) at 2.
        rewrite (map_ext (fun x : list F => x) (fun dd => tile dd 1)) by (intros; unfold tile; cbn; now rewrite app_nil_r).
        rewrite hstack2_tiles. reflexivity. }
    rewrite Ea1. unfold np_vstack2, np_hstack1, np_zeros1, col0, shape0. cbn [concat]. rewrite !app_nil_r. f_equal. f_equal.
    unfold zeros. f_equal. rewrite zlen_map. unfold zlen. rewrite map_length. destruct m as [|m']; [cbn; lia|].
    replace (Z.of_nat (S m') - 1)%Z with (Z.of_nat m') by lia. rewrite <- Nat2Z.inj_mul, Nat2Z.id. f_equal. lia.
  - rewrite !list_repeat_single, Nat2Z.id, sp_block_diag_repeat. cbn [fst snd]. f_equal. unfold np_zeros1, shape0, zlen. now rewrite Nat2Z.id. Qed.


(* ---- StandardQmpt._set_coeffs: whenever the constructor does not raise (model: Some dct), both dictionaries *)
Theorem gen_qmpt_set_coeffs_eq : forall para d m (states : list (lvec F)) (povms : list (list (lvec F))) (scheds : list (nat * nat)) dct,
  qmpt_coeffs F para (d * d) m states povms scheds = Some dct ->
  gen_qmpt_set_coeffs F (map enc3 scheds) states povms (Z.of_nat m) (Z.of_nat d) para = (D0 dct, D1 dct).
Proof. intros para d m states povms scheds dct Hd. unfold gen_qmpt_set_coeffs. rewrite gen_calc_c_qpt_eq. cbv zeta.
  set (C := fun j : nat => qpt_c_rows F (nth (fst (nth j scheds (O, O))) states []) (nth (snd (nth j scheds (O, O))) povms [])).
  set (AB := fun j : nat => cqpt_to_cqmpt F para (d * d) m (C j)).
  set (cd := c_dict_model states povms scheds).
  set (gAB := fun j : Z => gen_cqpt_to_cqmpt F (dictz_get [] cd j) (Z.of_nat m) (Z.of_nat d) para).
  rewrite (fold_left_pair _
     (fun d1 j => fold_left (fun d1 x => dict_set d1 (j, fst x) (snd x)) (zenumerate (fst (gAB j))) d1)
     (fun d0 j => fold_left (fun d0 x => dict_set d0 (j, fst x) (znth (c0 F) (snd (gAB j)) (fst x))) (zenumerate (fst (gAB j))) d0)).
  2:{ intros a b j. change (gen_cqpt_to_cqmpt F (dictz_get [] cd j) (Z.of_nat m) (Z.of_nat d) para) with (gAB j). destruct (gAB j) as [aq bq]. cbn [fst snd].
      rewrite (fold_left_pair _ (fun d1 x => dict_set d1 (j, fst x) (snd x)) (fun d0 x => dict_set d0 (j, fst x) (znth (c0 F) bq (fst x)))); [reflexivity|].
      intros a' b' [ei row]. reflexivity. }
  rewrite zlen_map. unfold zlen. rewrite zrange_of_nat.
  assert (Hnd : NoDup (map (fun x : Z => x) (map Z.of_nat (seq 0 (length scheds))))) by (rewrite map_id; apply nodup_of_nat_seq).
  rewrite !(nested_fill (fun j : Z => j) (fun j => zenumerate (fst (gAB j))) fst) by (try exact Hnd; intros; apply nodup_zenumerate).
  (* the generated per-schedule pair is the model's *)
  assert (EAB : forall j, (j < length scheds)%nat -> gAB (Z.of_nat j) = AB j).
  { intros j Hj. unfold gAB, AB. rewrite gen_cqpt_to_cqmpt_eq. f_equal. unfold cd, c_dict_model.
    rewrite (enumerate_seq_nth (O, O) scheds), map_map. cbn [fst snd].
    exact (dictz_get_map [] (fun ik : nat * nat => qpt_c_rows F (nth (fst ik) states []) (nth (snd ik) povms [])) (fun i => nth i scheds (O, O)) (length scheds) O j ltac:(lia)). }
  (* the model's dictionary *)
  unfold qmpt_coeffs, qmpt_per_schedule in Hd.
  destruct (all_some (map (fun ik => qmpt_rows F para (d * d) m (nth (fst ik) states []) (nth (snd ik) povms [])) scheds)) as [ps|] eqn:Eps; [|discriminate].
  injection Hd as <-. apply all_some_map in Eps.
  assert (Hps : forall j, (j < length scheds)%nat ->
            (length (fst (AB j)) <= length (snd (AB j)))%nat /\ nth j ps [] = combine (fst (AB j)) (snd (AB j))).
  { intros j Hj. assert (E : nth j (map Some ps) None = nth j (map (fun ik => qmpt_rows F para (d * d) m (nth (fst ik) states []) (nth (snd ik) povms [])) scheds) None) by now rewrite Eps.
    assert (Hlen : length ps = length scheds) by (rewrite <- (map_length Some ps), <- Eps; apply map_length).
    rewrite (nth_map_lt _ _ [] None) in E by lia. rewrite (nth_map_lt _ _ (O, O) None) in E by exact Hj.
    unfold qmpt_rows in E. fold (C j) in E. fold (AB j) in E.
    destruct (length (fst (AB j)) <=? length (snd (AB j)))%nat eqn:El; [|discriminate]. injection E as E. split; [now apply Nat.leb_le|exact E]. }
  assert (Hlen : length ps = length scheds) by (rewrite <- (map_length Some ps), <- Eps; apply map_length).
  rewrite !concat_map_enumerate_build. rewrite (enumerate_seq_nth [] ps), Hlen, !map_map. cbn [fst snd].
  f_equal; f_equal; apply map_ext_in; intros j Hj; apply in_seq in Hj; rewrite EAB by lia; destruct (Hps j ltac:(lia)) as [Hle ->]; cbv beta delta [coeff lvec];
    rewrite (enumerate_combine (c0 F)) by exact Hle; rewrite zenumerate_eq, !map_map; apply map_ext; intros [x row]; cbn [fst snd].
  - now rewrite znth_of_nat.
  - reflexivity. Qed.

(* ---- StandardQpt._set_coeffs stores the first two results of calc_c_qpt *)
Theorem gen_qpt_set_coeffs_eq : forall para (states : list (lvec F)) (povms : list (list (lvec F))) (scheds : list (nat * nat)),
  gen_qpt_set_coeffs F (map enc3 scheds) states povms para
  = (D0 (qpt_coeffs F para states povms scheds), D1 (qpt_coeffs F para states povms scheds)).
Proof. intros. unfold gen_qpt_set_coeffs. now rewrite gen_calc_c_qpt_eq. Qed.

(* ---- Experiment.calc_prob_dists: exactly one circuit evaluation per schedule INDEX, in schedule order, for ANY schedule list
   (repeated schedules are evaluated again: the result always has one entry per schedule) *)
Theorem gen_experiment_calc_prob_dists_eq : forall (schedules : list (list Z)) (cpd : Z -> list F),
  gen_experiment_calc_prob_dists F schedules cpd = map (fun j => cpd (Z.of_nat j)) (seq 0 (length schedules)).
Proof. intros schedules cpd. unfold gen_experiment_calc_prob_dists, zlen. rewrite zrange_of_nat.
  cbv zeta. rewrite (fold_left_snoc cpd). cbn [app]. now rewrite map_map. Qed.

(* ---- Experiment.calc_prob_dist: the objects named by the schedule are composed in REVERSE schedule order (appendleft: the last item,
   the measurement, is the left-most factor); a schedule item is (kind code, index), objects are opaque ids, compose is uninterpreted *)
Theorem gen_experiment_calc_prob_dist_eq : forall (schedules : list (list (Z * Z))) (compose : list Z -> list F) (lookup : Z -> Z -> Z) j,
  gen_experiment_calc_prob_dist F schedules compose lookup j
  = compose (rev (map (fun it => lookup (fst it) (snd it)) (znth [] schedules j))).
Proof. intros schedules compose lookup j. unfold gen_experiment_calc_prob_dist. cbv zeta.
  rewrite (fold_left_ext _ (fun acc it => lookup (fst it) (snd it) :: acc)) by (intros acc [k i]; reflexivity).
  now rewrite fold_left_cons_rev, app_nil_r. Qed.
(* ---- _get_target_index: the unknown is object 0 of its kind in every schedule of the four classes *)
Theorem gen_get_target_index_eq :
  (forall (scheds : list nat) j, (j < length scheds)%nat -> gen_qst_get_target_index F (map enc_qst scheds) (Z.of_nat j) = 0%Z) /\
  (forall (scheds : list nat) j, (j < length scheds)%nat -> gen_povmt_get_target_index F (map enc_povmt scheds) (Z.of_nat j) = 0%Z) /\
  (forall (scheds : list (nat * nat)) j, (j < length scheds)%nat -> gen_qpt_get_target_index F (map enc3 scheds) (Z.of_nat j) = 0%Z) /\
  (forall (scheds : list (nat * nat)) j, (j < length scheds)%nat -> gen_qmpt_get_target_index F (map enc3 scheds) (Z.of_nat j) = 0%Z).
Proof. repeat split; intros scheds j Hj.
  - unfold gen_qst_get_target_index. now rewrite znth_of_nat, (nth_map_lt _ _ O []) by exact Hj.
  - unfold gen_povmt_get_target_index. now rewrite znth_of_nat, (nth_map_lt _ _ O []) by exact Hj.
  - unfold gen_qpt_get_target_index. now rewrite znth_of_nat, (nth_map_lt _ _ (O, O) []) by exact Hj.
  - unfold gen_qmpt_get_target_index. now rewrite znth_of_nat, (nth_map_lt _ _ (O, O) []) by exact Hj. Qed.
(* ---- calc_prob_dist(qope, j) is entry j of calc_prob_dists(qope) *)
Theorem gen_calc_prob_dist_eq : forall (all : list (list F)) j, gen_calc_prob_dist F all (Z.of_nat j) = nth j all [].
Proof. intros all j. unfold gen_calc_prob_dist. apply znth_of_nat. Qed.
(* ---- is_fullrank_matA: rank == number of columns; with the exact rank in place of np.linalg.matrix_rank it is the model's guard,
   hence (C08_is_fullrank_matA_spec) true <=> the kernel is trivial *)
Theorem gen_is_fullrank_matA_eq : forall (A : list (lvec F)),
  gen_is_fullrank_matA F A (fun M => Z.of_nat (rank_elim F (row_width F M) M)) = is_fullrank_matA F (row_width F A) A.
Proof. intros A. unfold gen_is_fullrank_matA, is_fullrank_matA, fullcolrank_dec. cbv zeta. rewrite shape1_of_nat, of_nat_eqb. apply Nat.eqb_sym. Qed.

(* ---- get_coeffs_0th_vec / get_coeffs_1st_mat: the entries of the keys (j, x) of schedule j, asked for in dictionary INSERTION order
   (for the dictionaries of gen_*_set_coeffs_eq that is x = 0, 1, ... ; the element getters are uninterpreted) *)
Definition keys_of_schedule {T} (d : list (zkey * T)) (j : Z) : list Z := map snd (filter (fun k : zkey => (fst k =? j)%Z) (map fst d)).
Theorem gen_get_coeffs_0th_vec_eq : forall (d : list (zkey * F)) (g : Z -> Z -> F) j,
  gen_get_coeffs_0th_vec F d g j = map (g j) (keys_of_schedule d j).
Proof. intros d g j. unfold gen_get_coeffs_0th_vec, keys_of_schedule. cbv zeta. rewrite (fold_left_snoc (g j)). reflexivity. Qed.
Theorem gen_get_coeffs_1st_mat_eq : forall (d : list (zkey * F)) (g : Z -> Z -> list F) j,
  gen_get_coeffs_1st_mat F d g j = map (g j) (keys_of_schedule d j).
Proof. intros d g j. unfold gen_get_coeffs_1st_mat, keys_of_schedule, np_vstack1. cbv zeta. rewrite (fold_left_snoc (g j)). reflexivity. Qed.

(* ---- is_all_same_composite_systems (the constructors' validity test): true exactly when every later tester's CompositeSystem is EQUAL
   (CompositeSystem.__eq__, the uninterpreted [same]) to the first tester's -- equality, not object identity; any number of testers *)
Theorem gen_is_all_same_composite_systems_eq : forall (same : Z -> Z -> bool) (targets : list Z),
  gen_is_all_same_composite_systems F same targets = match targets with [] => true | t0 :: rest => forallb (same t0) rest end.
Proof. intros same targets. unfold gen_is_all_same_composite_systems. destruct targets as [|t0 [|t1 rest]]; [reflexivity|reflexivity|].
  assert ((zlen (t0 :: t1 :: rest) <=? 1)%Z = false) as -> by (apply Z.leb_gt; unfold zlen; cbn [length]; lia).
  change 1%Z with (Z.of_nat 1). rewrite py_slice_from. cbn [skipn]. change (znth 0%Z (t0 :: t1 :: rest) 0%Z) with t0.
  generalize (t1 :: rest) as l. intros l. induction l as [|x l IH]; [reflexivity|]. cbn [map forallb]. now rewrite IH. Qed.

(* ---- generate_prob_dists_sequence: (on the copy of the experiment) for every schedule index in order, the slot named by
   _get_target_index is overwritten with the true object; then Experiment.calc_prob_dists evaluates the updated object list.
   [slots] = the copy's objects of the estimated kind, _get_target_index and calc_prob_dists uninterpreted. *)
Theorem gen_generate_prob_dists_sequence_eq : forall ec (scheds : list (list Z)) (slots : list Z) (gti : Z -> Z) (cpd : list Z -> list (list F)) obj,
  gen_generate_prob_dists_sequence F ec scheds slots gti cpd obj
  = cpd (fold_left (fun s j => py_list_set s (gti (Z.of_nat j)) obj) (seq 0 (length scheds)) slots).
Proof. intros ec scheds slots gti cpd obj. unfold gen_generate_prob_dists_sequence, zlen. cbv zeta. rewrite zrange_of_nat. f_equal.
  generalize (seq 0 (length scheds)) as l. intros l. revert slots. induction l as [|j l IH]; intros slots; [reflexivity|]. cbn [map fold_left]. apply IH. Qed.
(* with the target index of the four classes (gen_get_target_index_eq: always object 0): the unknown's slot holds the true object, every
   other object of that kind is untouched, for ANY non-empty schedule list (repetitions included) *)
Theorem gen_generate_prob_dists_sequence_slot0 : forall ec (scheds : list (list Z)) s0 (rest : list Z) (gti : Z -> Z) (cpd : list Z -> list (list F)) obj,
  scheds <> [] -> (forall j, (j < length scheds)%nat -> gti (Z.of_nat j) = 0%Z) ->
  gen_generate_prob_dists_sequence F ec scheds (s0 :: rest) gti cpd obj = cpd (obj :: rest).
Proof. intros ec scheds s0 rest gti cpd obj Hne Hg. rewrite gen_generate_prob_dists_sequence_eq. f_equal.
  assert (H : forall (l : list nat) x, (forall j, In j l -> gti (Z.of_nat j) = 0%Z) -> l <> [] ->
            fold_left (fun s j => py_list_set s (gti (Z.of_nat j)) obj) l (x :: rest) = obj :: rest).
  { induction l as [|j l IH]; intros x Hl Hn; [congruence|]. cbn [fold_left]. rewrite (Hl j) by (now left).
    change (py_list_set (x :: rest) 0 obj) with (obj :: rest). destruct l as [|j' l']; [reflexivity|].
    apply IH; [intros; apply Hl; now right|discriminate]. }
  apply H.
  - intros j Hj. apply in_seq in Hj. apply Hg. lia.
  - destruct scheds; [congruence|discriminate]. Qed.

(* ---- is_valid_experiment: QST tests its tester POVMs, POVMT its tester states, QPT / QMPT their states AND their POVMs (each list
   within itself), with the regenerated is_all_same_composite_systems *)
Theorem gen_is_valid_experiment_eq : forall (same : Z -> Z -> bool) (states povms : list Z),
  let all_same := gen_is_all_same_composite_systems F same in
  gen_qst_is_valid_experiment F povms all_same = all_same povms /\
  gen_povmt_is_valid_experiment F states all_same = all_same states /\
  gen_qpt_is_valid_experiment F states povms all_same = (all_same states && all_same povms)%bool /\
  gen_qmpt_is_valid_experiment F states povms all_same = (all_same states && all_same povms)%bool.
Proof. intros same states povms all_same. repeat split. Qed.

(* ---- the property, about the code as regenerated: the stacked coefficients computed by the regenerated _set_coeffs + calc_matA /
   calc_vecB predict, for EVERY variable vector, the Born distribution of every schedule's circuit *)
Theorem gen_qst_forward : forall d para sd (povms : list (list (lvec F))) (scheds : list nat) (v : rvec F),
  sd <> c0 F -> (forall i, In i scheds -> forall pv, In pv (nth i povms []) -> length pv = (d * d)%nat) ->
  let cf := gen_qst_set_coeffs F (map enc_qst scheds) povms sd para in
  affine (gen_calc_matA F (snd cf)) (gen_calc_vecB F (fst cf)) v = concat (map (fun i => qst_born F d para sd (nth i povms []) v) scheds).
Proof. intros d para sd povms scheds v Hsd Hwf cf. unfold cf. rewrite gen_qst_set_coeffs_eq. cbn [fst snd].
  rewrite gen_calc_matA_eq, gen_calc_vecB_eq. now apply qst_forward. Qed.
Theorem gen_povmt_forward : forall d para sd m (states : list (lvec F)) (scheds : list nat) (v : rvec F),
  (0 < d)%nat -> (forall i, In i scheds -> length (nth i states []) = (d * d)%nat) ->
  let cf := gen_povmt_set_coeffs F (map enc_povmt scheds) states (Z.of_nat m) sd para in
  affine (gen_calc_matA F (snd cf)) (gen_calc_vecB F (fst cf)) v = concat (map (fun i => povmt_born F d para sd m (nth i states []) v) scheds).
Proof. intros d para sd m states scheds v Hd Hwf cf. unfold cf. rewrite gen_povmt_set_coeffs_eq. cbn [fst snd].
  rewrite gen_calc_matA_eq, gen_calc_vecB_eq. now apply povmt_forward. Qed.
Theorem gen_qpt_forward : forall d para (states : list (lvec F)) (povms : list (list (lvec F))) (scheds : list (nat * nat)) (v : rvec F),
  (0 < d)%nat ->
  (forall ik, In ik scheds -> length (nth (fst ik) states []) = (d * d)%nat /\ forall pv, In pv (nth (snd ik) povms []) -> length pv = (d * d)%nat) ->
  let cf := gen_qpt_set_coeffs F (map enc3 scheds) states povms para in
  affine (gen_calc_matA F (snd cf)) (gen_calc_vecB F (fst cf)) v
  = concat (map (fun ik => qpt_born F d para (nth (fst ik) states []) (nth (snd ik) povms []) v) scheds).
Proof. intros d para states povms scheds v Hd Hwf cf. unfold cf. rewrite gen_qpt_set_coeffs_eq. cbn [fst snd].
  rewrite gen_calc_matA_eq, gen_calc_vecB_eq. now apply qpt_forward. Qed.
Theorem gen_qmpt_forward : forall d (para : bool) m (states : list (lvec F)) (povms : list (list (lvec F))) (scheds : list (nat * nat)),
  (0 < d)%nat -> ((if para then 2 else 1) <= m)%nat ->
  (forall ik, In ik scheds -> length (nth (fst ik) states []) = (d * d)%nat /\ forall pv, In pv (nth (snd ik) povms []) -> length pv = (d * d)%nat) ->
  let cf := gen_qmpt_set_coeffs F (map enc3 scheds) states povms (Z.of_nat m) (Z.of_nat d) para in
  forall v : rvec F, affine (gen_calc_matA F (snd cf)) (gen_calc_vecB F (fst cf)) v
    = concat (map (fun ik => qmpt_born F d para m (nth (fst ik) states []) (nth (snd ik) povms []) v) scheds).
Proof. intros d para m states povms scheds Hd Hm Hwf cf v. destruct (qmpt_forward F d para m states povms scheds Hd Hm Hwf) as [dct [E1 E2]].
  unfold cf. rewrite (gen_qmpt_set_coeffs_eq para d m states povms scheds dct E1). cbn [fst snd].
  rewrite gen_calc_matA_eq, gen_calc_vecB_eq. apply E2. Qed.
End Equiv.

Print Assumptions gen_qst_num_variables_eq.
Print Assumptions gen_povmt_num_variables_eq.
Print Assumptions gen_qpt_num_variables_eq.
Print Assumptions gen_qmpt_num_variables_eq.
Print Assumptions gen_qst_num_outcomes_eq.
Print Assumptions gen_povmt_num_outcomes_eq.
Print Assumptions gen_qpt_num_outcomes_eq.
Print Assumptions gen_qmpt_num_outcomes_eq.
Print Assumptions gen_calc_matA_eq.
Print Assumptions gen_calc_vecB_eq.
Print Assumptions gen_calc_prob_dists_eq.
Print Assumptions gen_calc_fisher_matrix_eq.
Print Assumptions gen_qst_set_coeffs_eq.
Print Assumptions gen_calc_c_qpt_eq.
Print Assumptions gen_povmt_set_coeffs_eq.
Print Assumptions gen_cqpt_to_cqmpt_eq.
Print Assumptions gen_qmpt_set_coeffs_eq.
Print Assumptions gen_qpt_set_coeffs_eq.
Print Assumptions gen_experiment_calc_prob_dists_eq.
Print Assumptions gen_experiment_calc_prob_dist_eq.
Print Assumptions gen_get_target_index_eq.
Print Assumptions gen_calc_prob_dist_eq.
Print Assumptions gen_is_fullrank_matA_eq.
Print Assumptions gen_get_coeffs_0th_vec_eq.
Print Assumptions gen_get_coeffs_1st_mat_eq.
Print Assumptions gen_is_all_same_composite_systems_eq.
Print Assumptions gen_generate_prob_dists_sequence_eq.
Print Assumptions gen_generate_prob_dists_sequence_slot0.
Print Assumptions gen_is_valid_experiment_eq.
Print Assumptions gen_qst_forward.
Print Assumptions gen_povmt_forward.
Print Assumptions gen_qpt_forward.
Print Assumptions gen_qmpt_forward.
