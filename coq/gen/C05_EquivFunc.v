(* C05 — translator tie, closures: ONE call of the function returned by QOperation.func_calc_proj_physical /
   func_calc_proj_physical_with_var, as regenerated from /repo (Gen_c05_dykstra.v), for an ARBITRARY oracle [o] and
   self-attribute table [sa] (nothing about the called routines is assumed): the wrappers are pure dispatch, and these
   theorems say exactly which calls they make with which arguments.
     func_calc_proj_physical_with_var(on_para_eq_constraint, mode_proj_order, max_iteration)(var)
        = COPY.calc_proj_physical_with_var(var, on_para_eq_constraint = (self._on_para_eq_constraint if None), max_iteration)
          where COPY = self.copy() after set_mode_proj_order(mode_proj_order)      (self itself is only copied)
     func_calc_proj_physical(on_para_eq_constraint, mode_proj_order, max_iteration, is_iteration_history)(var)
        = TMP.calc_proj_physical(max_iteration, is_iteration_history).to_var()  [with the history as second component]
          where TMP = self.generate_zero_obj().generate_from_var(var, on_para_eq_constraint = …, mode_proj_order)  *)
From Coq Require Import List Arith Bool String ZArith Lia.
From QV.Core Require Import OF Sums Mat.
From QV.Model Require Import C05_Dykstra C05_PySem.
From QV.Proofs Require Import C05_Dykstra C05_PySem.
From QVGen Require Import Gen_c05_dykstra.
Import ListNotations.
Local Open Scope string_scope.

Section Func.
Context (F : OF) (n : nat) (o : string -> list (val F) -> val F) (sa : string -> val F).

Ltac evf t := eval lazy [upd restrict Pos.eqb N_err N_printed N_break N_ret env0 empty raise
                v_is_none v_is_not_none v_and v_or v_unpack List.length Nat.eqb List.nth] in t.
Ltac lk := lazy [upd restrict Pos.eqb N_err N_printed N_break N_ret env0 empty].

(* the explicit argument, or the object's own flag when it is None *)
Definition para_of (a : val F) : val F := match a with VNone => sa "_on_para_eq_constraint" | _ => a end.

Theorem gen_func_with_var_dispatch : forall (self mode mi var para : val F), (para = VNone \/ exists b, para = VBool b) ->
  let e := gen_func_calc_proj_physical_with_var F o sa self para mode mi var in
  e N_err = VBool false /\
  e N_ret = o ".calc_proj_physical_with_var|max_iteration,on_para_eq_constraint"
              [o ".set_mode_proj_order!" [o "copy" [self]; mode]; var; mi; para_of para].
Proof. intros self mode mi var para Hp e. subst e.
  unfold gen_func_calc_proj_physical_with_var.
  destruct Hp as [->|[b ->]];
  ( match goal with |- context [gen_func_calc_proj_physical_with_var__body _ _ _ ?vs ?E] =>
      eassert (Hrun : gen_func_calc_proj_physical_with_var__body F o sa vs E = _) by
        (unfold gen_func_calc_proj_physical_with_var__body; py_run evf idtac ltac:(fail)) end;
    rewrite Hrun; split; lk; reflexivity ).
Qed.

Theorem gen_func_obj_dispatch : forall (self mode mi var para : val F) (h : bool), (para = VNone \/ exists b, para = VBool b) ->
  let e := gen_func_calc_proj_physical F o sa self para mode mi (VBool h) var in
  let tmp := o ".generate_from_var|mode_proj_order,on_para_eq_constraint" [o "generate_zero_obj" [self]; var; mode; para_of para] in
  let res := o ".calc_proj_physical|is_iteration_history,max_iteration" [tmp; VBool h; mi] in
  e N_err = VBool false /\
  e N_ret = (if h then VTuple [o ".to_var" [v_unpack 2 0 res]; v_unpack 2 1 res] else o ".to_var" [res]).
Proof. intros self mode mi var para h Hp e tmp res. subst e tmp res.
  unfold gen_func_calc_proj_physical.
  destruct h; destruct Hp as [->|[b ->]];
  ( match goal with |- context [gen_func_calc_proj_physical__body _ _ _ ?vs ?E] =>
      eassert (Hrun : gen_func_calc_proj_physical__body F o sa vs E = _) by
        (unfold gen_func_calc_proj_physical__body; py_run evf idtac ltac:(fail)) end;
    rewrite Hrun; split; lk; reflexivity ).
Qed.

(* the defaults written in the two signatures *)
Theorem gen_func_defaults :
  gen_func_calc_proj_physical__defaults F = [("on_para_eq_constraint", VNone); ("mode_proj_order", VStr "eq_ineq"); ("max_iteration", VInt 1000); ("is_iteration_history", VBool false)] /\
  gen_func_calc_proj_physical_with_var__defaults F = [("on_para_eq_constraint", VNone); ("mode_proj_order", VStr "eq_ineq"); ("max_iteration", VInt 1000)].
Proof. split; reflexivity. Qed.
End Func.
Print Assumptions gen_func_with_var_dispatch.
Print Assumptions gen_func_obj_dispatch.
Print Assumptions gen_func_defaults.
