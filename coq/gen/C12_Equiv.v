(* Re-checked on every run against the definitions REGENERATED (gen/c12_py2coq.py) from the current source of
     quara/loss_function/weighted_probability_based_squared_error.py : WeightedProbabilityBasedSquaredErrorOption.__init__,
                                                                       WeightedProbabilityBasedSquaredError._set_weights_by_mode
     quara/loss_function/weighted_relative_entropy.py                : WeightedRelativeEntropyOption.__init__,
                                                                       WeightedRelativeEntropy._set_weights_by_mode
     quara/utils/matrix_util.py                                      : replace_prob_dist
     quara/loss_function/probability_based_loss_function.py          : set_from_standard_qtomography_option_data (call skeleton)
     quara/loss_function/standard_qtomography_based_weighted_*.py    : cache rebuild, overridden setters, set_func_* (call skeletons)
     quara/loss_function/probability_based_loss_function.py          : set_func_{prob_dists,gradient_prob_dists,hessian_prob_dists}_from_standard_qt
                                                                       and the three closure generators (index arithmetic of the slicing)
   The regenerated decision tables equal the hand-written ones (Model/C12_Dispatch.v, which Proofs/C12_Dispatch.v ties to the
   state-machine model of Model/C12_Loss.v), for ALL inputs, hence "every accepted mode installs weights" holds for the
   source as it is.  The proofs go by case analysis on the mode string, so re-ordering the branches / the accepted list or
   rewriting conditions equivalently keeps them valid; dropping a branch, a spelling, `pass` instead of a reset, swapping
   sample / unbiased, other slice bounds, another replacement formula breaks them. *)
From Coq Require Import String List Bool ZArith Arith Lia.
From QV.Core Require Import OF Sums Mat.
From QV.Model Require Import C12_Loss C12_Dispatch C12_Skeleton C12_Slices.
From QV.Proofs Require Import C12_Dispatch C12_Skeleton C12_Slices.
From QVGen Require Import Gen_c12_dispatch.
Import ListNotations.
Open Scope string_scope.

(* decide a goal about finitely many string comparisons with a variable mode string *)
Ltac str_cases :=
  repeat match goal with
  | |- context [String.eqb ?s ?c] => is_var s; destruct (String.eqb_spec s c); [subst s; vm_compute; try reflexivity|]
  end; try reflexivity.
Ltac table := cbn [omem existsb oeqb orb andb negb]; str_cases; try (vm_compute; reflexivity).

Theorem gen_se_option_eq : forall mw hw, gen_se_option mw hw = option_accepts se_modes mw hw.
Proof. intros mw hw. unfold gen_se_option, option_accepts, se_modes. destruct hw; [vm_compute; reflexivity|].
  cbv zeta. destruct mw as [s|]; [|vm_compute; reflexivity]. table. Qed.
Print Assumptions gen_se_option_eq.

Theorem gen_re_option_eq : forall mw hw, gen_re_option mw hw = option_accepts re_modes mw hw.
Proof. intros mw hw. unfold gen_re_option, option_accepts, re_modes. destruct hw; [vm_compute; reflexivity|].
  cbv zeta. destruct mw as [s|]; [|vm_compute; reflexivity]. table. Qed.
Print Assumptions gen_re_option_eq.

Theorem gen_se_dispatch_eq : forall mw, gen_se_dispatch mw = se_dispatch mw.
Proof. intros mw. unfold gen_se_dispatch, se_dispatch, mode_of_string. destruct mw as [s|]; [|vm_compute; reflexivity]. table. Qed.
Print Assumptions gen_se_dispatch_eq.

Theorem gen_re_dispatch_eq : forall mw, gen_re_dispatch mw = re_dispatch mw.
Proof. intros mw. unfold gen_re_dispatch, re_dispatch. destruct mw as [s|]; [|vm_compute; reflexivity]. table. Qed.
Print Assumptions gen_re_dispatch_eq.

(* the property at the level of the decision tables, for the source as it is: whatever a user passes to an option
   constructor, if the option is created then the mode it holds has a branch that INSTALLS weights *)
Theorem gen_every_accepted_mode_installs_weights : forall mw hw mw',
  (gen_se_option mw hw = OOk mw' ->
     gen_se_dispatch mw' = AReset \/ gen_se_dispatch mw' = ACustom \/ exists ub, gen_se_dispatch mw' = AInverse ub) /\
  (gen_re_option mw hw = OOk mw' -> gen_re_dispatch mw' = AReset \/ gen_re_dispatch mw' = ACustom).
Proof. intros mw hw mw'. rewrite gen_se_option_eq, gen_re_option_eq, gen_se_dispatch_eq, gen_re_dispatch_eq.
  split; [apply se_accepted_mode_has_branch|apply re_accepted_mode_has_branch]. Qed.
Print Assumptions gen_every_accepted_mode_installs_weights.

(* ... and it is the branch of the state-machine model: the regenerated dispatcher, interpreted, is set_weights_by_mode *)
Theorem gen_dispatch_is_state_machine : forall (R : CR) s md (c : @wts R) k (cur : @wts R),
  mode_of_string s = Some md ->
  run_action (gen_se_dispatch (Some s)) c k cur = set_weights_by_mode md c k cur.
Proof. intros R s md c k cur H. rewrite gen_se_dispatch_eq, set_weights_by_mode_is_table. unfold se_dispatch. now rewrite H. Qed.
Print Assumptions gen_dispatch_is_state_machine.

(* sample / unbiased selection of the three inverse-covariance spellings *)
Theorem gen_unbiased_selection :
  gen_se_dispatch (Some "inverse_sample_covariance") = AInverse false /\
  gen_se_dispatch (Some "inverse_unbiased_covariance") = AInverse true /\
  gen_se_dispatch (Some "unbiased_inverse_covariance") = AInverse true.
Proof. repeat split; vm_compute; reflexivity. Qed.
Print Assumptions gen_unbiased_selection.

(* placement of the inverse block: the regenerated slice bounds are those of the model (place_inv), for every outcome count *)
Theorem gen_placement_eq : forall row : nat, (1 <= row)%nat ->
  gen_place_special (Z.of_nat row) (Z.of_nat row) = Nat.eqb row 2 /\
  Z.to_nat (gen_place_rows (Z.of_nat row) (Z.of_nat row)) = (row - 1)%nat /\
  Z.to_nat (gen_place_cols (Z.of_nat row) (Z.of_nat row)) = (row - 1)%nat.
Proof. intros row H. destruct (place_table_matches_model row H) as [H1 [H2 H3]].
  assert (E1 : forall r c, gen_place_special r c = place_special r c).
  { intros r c. unfold gen_place_special, place_special.
    repeat match goal with |- context [(?a =? ?b)%Z] => destruct (Z.eqb_spec a b) end; try reflexivity; lia. }
  assert (E2 : forall r c, gen_place_rows r c = place_rows r c) by (intros; unfold gen_place_rows, place_rows; lia).
  assert (E3 : forall r c, gen_place_cols r c = place_cols r c) by (intros; unfold gen_place_cols, place_cols; lia).
  rewrite E1, E2, E3. auto. Qed.
Print Assumptions gen_placement_eq.

(* replace_prob_dist: the regenerated function is the model's, over every ordered field, every length, every input;
   its default eps is the double 1e-8 (the value the harness feeds to the model) *)
Theorem gen_replace_prob_dist_eq : forall (F : OF) m eps (q : @vec F) x,
  gen_replace_prob_dist F m eps q x = replace_prob_dist F m eps q x.
Proof. intros F m eps q x. rewrite replace_prob_dist_alt. unfold gen_replace_prob_dist. cbv zeta.
  destruct (ltb F (q x) eps); reflexivity. Qed.
Print Assumptions gen_replace_prob_dist_eq.

Theorem gen_replace_default_eps_is_1e8 :
  gen_replace_default_eps_num = 3022314549036573%Z /\ gen_replace_default_eps_den = (2 ^ 78)%Z.
Proof. split; vm_compute; reflexivity. Qed.
Print Assumptions gen_replace_default_eps_is_1e8.

(* ------------------------------------------------------------------ call skeletons *)
(* the REGENERATED configuration sequence + the regenerated fast-class methods + the regenerated dispatcher, given their
   meaning (Model/C12_Skeleton.v), ARE one step of the state machine the harness executes and the theorems of Props/C12.v
   talk about - for every mode string the option can hold, both flags, every object state, every option identity.
   (proved by computation over all cases, so an equivalent re-ordering of the calls keeps it valid; a guard around
   _set_weights_by_mode, a cache rebuild that is dropped or moved before the weights are stored, a setter that no longer
   rebuilds, a cache that is not cleared without weights break it) *)
Theorem gen_configuration_is_state_machine_fast : forall (R : CR) m gr he oid s md (c : @wts R) k (os : @ostate R),
  mode_of_string s = Some md ->
  sem_config_fast m gen_se_bodies gen_sk_config gr he oid (gen_se_dispatch (Some s)) c k os = step_fast_o m (OConfig oid md c k) os.
Proof. intros R m gr he oid s md c k os H. rewrite gen_se_dispatch_eq. unfold se_dispatch. rewrite H.
  rewrite <- (sk_config_fast m gr he oid md c k os).
  destruct os as [[[w|] e] o], md, gr, he, k as [k|], c as [c|]; reflexivity. Qed.
Print Assumptions gen_configuration_is_state_machine_fast.

Theorem gen_configuration_is_state_machine_generic : forall (R : CR) gr he oid s md (c : @wts R) k (cur : @wts R * option nat),
  mode_of_string s = Some md ->
  sem_config_generic gen_sk_config gr he oid (gen_se_dispatch (Some s)) c k cur = step_generic_o (OConfig oid md c k) cur.
Proof. intros R gr he oid s md c k cur H. rewrite gen_se_dispatch_eq. unfold se_dispatch. rewrite H.
  destruct cur as [[w|] o], md, gr, he, k as [k|], c as [c|]; reflexivity. Qed.
Print Assumptions gen_configuration_is_state_machine_generic.

Theorem gen_setter_is_state_machine : forall (R : CR) m (w : @wts R) (st : @fstate R) hasq (wr : option (@vec R)) (rs : @rstate R),
  sem_setter (sem_calc_ext m (sb_calc gen_se_bodies)) (sb_setter gen_se_bodies) w st = set_direct_fast m w st /\
  sem_setter_re (sem_calc_ew m (sb_calc gen_re_bodies)) (sb_setter gen_re_bodies) hasq wr rs = set_weights_re_fast m hasq wr rs.
Proof. intros. split.
  - destruct st as [w0 e], w as [w|]; reflexivity.
  - destruct rs as [w0 e], wr as [wr|], hasq; reflexivity. Qed.
Print Assumptions gen_setter_is_state_machine.

(* relative entropy: equality of everything value() / gradient() can observe (the weights, what re_fast_sel selects - incl.
   "attribute missing" -, the held option); the content of a cache that is not consulted (no weights) is left free, so that
   the order of the calls inside the configuration may change *)
Theorem gen_configuration_is_state_machine_re_fast : forall (R : CR) m gr he oid (cm : bool) (c : option (@vec R)) (os : @rostate R),
  let a := sem_config_re_fast m gen_re_bodies gen_sk_config gr he oid (gen_re_dispatch (Some (if cm then "custom" else "identity"))) c os in
  let b := step_re_fast_o m (ROConfig oid cm c) os in
  r_w (ro_st a) = r_w (ro_st b) /\ re_fast_sel (ro_st a) = re_fast_sel (ro_st b) /\ ro_opt a = ro_opt b.
Proof. intros. subst a b. rewrite gen_re_dispatch_eq.
  destruct os as [[[w|] e] o], cm, c as [c|], gr, he; repeat split; reflexivity. Qed.
Print Assumptions gen_configuration_is_state_machine_re_fast.

(* ------------------------------------------------------------------ slicing of the stacked forward model *)
(* rows of the ORIGINAL matA / vecB that the closure of one schedule reads: the closure is built for the slice [lo, hi) with
   arguments (size, index) and reads rows [a, b) = gen_helper_rows size index of THAT slice (numpy truncates at its end) *)
Definition rows_read (pc : nat * nat * nat * nat) : nat * nat :=
  let '(lo, hi, sz, ix) := pc in (lo + fst (gen_helper_rows sz ix), lo + Nat.min (snd (gen_helper_rows sz ix)) (hi - lo)).

Lemma gen_pd_rows_from : forall sizes start, map rows_read (gen_pd_pieces_from start sizes) = slices_from start sizes.
Proof. induction sizes as [|n t IH]; intros start; [reflexivity|].
  cbn [gen_pd_pieces_from slices_from map]. cbv zeta. f_equal.
  - unfold rows_read, gen_helper_rows. cbn [fst snd]. f_equal; lia.
  - first [apply IH | (rewrite <- IH; repeat f_equal; lia)]. Qed.

(* every schedule's predicted distribution is computed from exactly ITS rows: the row ranges the regenerated code reads are
   the model's slices, which partition the rows (schedule j: [offset j, offset j + outcomes j), any outcome counts) *)
Theorem gen_prob_dist_rows_partition : forall sizes,
  map rows_read (gen_pd_pieces sizes) = slices sizes /\
  (forall j, (j < length sizes)%nat ->
     nth j (map rows_read (gen_pd_pieces sizes)) (0, 0)%nat = (offset sizes j, offset sizes j + nth j sizes 0)%nat) /\
  offset sizes (length sizes) = total sizes.
Proof. intros sizes. assert (E : map rows_read (gen_pd_pieces sizes) = slices sizes) by apply gen_pd_rows_from.
  split; [exact E|]. destruct (slices_partition sizes) as [_ [H [_ Ht]]]. split; [|exact Ht].
  intros j Hj. rewrite E. exact (proj1 (H j Hj)). Qed.
Print Assumptions gen_prob_dist_rows_partition.

(* the gradient closures: schedule j's closure has as many entries as the schedule has outcomes and entry i reads row
   offset j + i, inside its slice *)
Definition grad_ok (pc : nat * nat * nat * nat) (sl : nat * nat) : Prop :=
  let '(lo, hi, sz, ix) := pc in
  sz = (snd sl - fst sl)%nat /\ forall i, (i < sz)%nat -> (lo + gen_helper_grad_row sz ix i = fst sl + i /\ lo + gen_helper_grad_row sz ix i < hi)%nat.
Lemma gen_grad_rows_from : forall sizes start, Forall2 grad_ok (gen_grad_pieces_from start sizes) (slices_from start sizes).
Proof. induction sizes as [|n t IH]; intros start; [constructor|].
  cbn [gen_grad_pieces_from slices_from]. cbv zeta. constructor.
  - unfold grad_ok, gen_helper_grad_row. cbn [fst snd]. split; [lia|]. intros i Hi. lia.
  - first [apply IH | (match goal with |- Forall2 _ (_ ?a _) (_ ?b _) => replace a with b by lia end; apply IH)]. Qed.
Theorem gen_gradient_rows_partition : forall sizes, Forall2 grad_ok (gen_grad_pieces sizes) (slices sizes).
Proof. intros. apply gen_grad_rows_from. Qed.
Print Assumptions gen_gradient_rows_partition.

(* the Hessian closures return as many zeros as the schedule has outcomes *)
Theorem gen_hessian_sizes_eq : forall sizes, gen_hess_sizes sizes = sizes /\ forall n ix, gen_hess_len n ix = n.
Proof. intros sizes. split; [|intros; unfold gen_hess_len; lia].
  unfold gen_hess_sizes. induction sizes as [|n t IH]; [reflexivity|]. cbn [map]. rewrite IH. cbv beta. f_equal; lia. Qed.
Print Assumptions gen_hessian_sizes_eq.
