(* Re-checked on every run against the definitions REGENERATED (gen/c12_py2coq.py) from the current source of
     quara/loss_function/weighted_probability_based_squared_error.py : WeightedProbabilityBasedSquaredErrorOption.__init__,
                                                                       WeightedProbabilityBasedSquaredError._set_weights_by_mode
     quara/loss_function/weighted_relative_entropy.py                : WeightedRelativeEntropyOption.__init__,
                                                                       WeightedRelativeEntropy._set_weights_by_mode
     quara/utils/matrix_util.py                                      : replace_prob_dist
   The regenerated decision tables equal the hand-written ones (Model/C12_Dispatch.v, which Proofs/C12_Dispatch.v ties to the
   state-machine model of Model/C12_Loss.v), for ALL inputs, hence "every accepted mode installs weights" holds for the
   source as it is.  The proofs go by case analysis on the mode string, so re-ordering the branches / the accepted list or
   rewriting conditions equivalently keeps them valid; dropping a branch, a spelling, `pass` instead of a reset, swapping
   sample / unbiased, other slice bounds, another replacement formula breaks them. *)
From Coq Require Import String List Bool ZArith Arith Lia.
From QV.Core Require Import OF Sums Mat.
From QV.Model Require Import C12_Loss C12_Dispatch.
From QV.Proofs Require Import C12_Dispatch.
From QVGen Require Import Gen_c12_dispatch.
Import ListNotations.
Open Scope string_scope.

(* decide a goal about finitely many string comparisons with a variable mode string *)
Ltac str_cases :=
  repeat match goal with
  | |- context [String.eqb ?s ?c] => is_var s; destruct (String.eqb_spec s c); [subst s; vm_compute; try reflexivity|]
  end; try reflexivity.
Ltac table := cbn [omem existsb oeqb orb andb negb]; str_cases; try (vm_compute; reflexivity).

Theorem gen_se_option_eq : forall mw hw, gen_se_option mw hw = option_accepts se_modes mw hw.
Proof. intros mw hw. unfold gen_se_option, option_accepts, se_modes. destruct hw; [vm_compute; reflexivity|].
  cbv zeta. destruct mw as [s|]; [|vm_compute; reflexivity]. table. Qed.
Print Assumptions gen_se_option_eq.

Theorem gen_re_option_eq : forall mw hw, gen_re_option mw hw = option_accepts re_modes mw hw.
Proof. intros mw hw. unfold gen_re_option, option_accepts, re_modes. destruct hw; [vm_compute; reflexivity|].
  cbv zeta. destruct mw as [s|]; [|vm_compute; reflexivity]. table. Qed.
Print Assumptions gen_re_option_eq.

Theorem gen_se_dispatch_eq : forall mw, gen_se_dispatch mw = se_dispatch mw.
Proof. intros mw. unfold gen_se_dispatch, se_dispatch, mode_of_string. destruct mw as [s|]; [|vm_compute; reflexivity]. table. Qed.
Print Assumptions gen_se_dispatch_eq.

Theorem gen_re_dispatch_eq : forall mw, gen_re_dispatch mw = re_dispatch mw.
Proof. intros mw. unfold gen_re_dispatch, re_dispatch. destruct mw as [s|]; [|vm_compute; reflexivity]. table. Qed.
Print Assumptions gen_re_dispatch_eq.

(* the property at the level of the decision tables, for the source as it is: whatever a user passes to an option
   constructor, if the option is created then the mode it holds has a branch that INSTALLS weights *)
Theorem gen_every_accepted_mode_installs_weights : forall mw hw mw',
  (gen_se_option mw hw = OOk mw' ->
     gen_se_dispatch mw' = AReset \/ gen_se_dispatch mw' = ACustom \/ exists ub, gen_se_dispatch mw' = AInverse ub) /\
  (gen_re_option mw hw = OOk mw' -> gen_re_dispatch mw' = AReset \/ gen_re_dispatch mw' = ACustom).
Proof. intros mw hw mw'. rewrite gen_se_option_eq, gen_re_option_eq, gen_se_dispatch_eq, gen_re_dispatch_eq.
  split; [apply se_accepted_mode_has_branch|apply re_accepted_mode_has_branch]. Qed.
Print Assumptions gen_every_accepted_mode_installs_weights.

(* ... and it is the branch of the state-machine model: the regenerated dispatcher, interpreted, is set_weights_by_mode *)
Theorem gen_dispatch_is_state_machine : forall (R : CR) s md (c : @wts R) k (cur : @wts R),
  mode_of_string s = Some md ->
  run_action (gen_se_dispatch (Some s)) c k cur = set_weights_by_mode md c k cur.
Proof. intros R s md c k cur H. rewrite gen_se_dispatch_eq, set_weights_by_mode_is_table. unfold se_dispatch. now rewrite H. Qed.
Print Assumptions gen_dispatch_is_state_machine.

(* sample / unbiased selection of the three inverse-covariance spellings *)
Theorem gen_unbiased_selection :
  gen_se_dispatch (Some "inverse_sample_covariance") = AInverse false /\
  gen_se_dispatch (Some "inverse_unbiased_covariance") = AInverse true /\
  gen_se_dispatch (Some "unbiased_inverse_covariance") = AInverse true.
Proof. repeat split; vm_compute; reflexivity. Qed.
Print Assumptions gen_unbiased_selection.

(* placement of the inverse block: the regenerated slice bounds are those of the model (place_inv), for every outcome count *)
Theorem gen_placement_eq : forall row : nat, (1 <= row)%nat ->
  gen_place_special (Z.of_nat row) (Z.of_nat row) = Nat.eqb row 2 /\
  Z.to_nat (gen_place_rows (Z.of_nat row) (Z.of_nat row)) = (row - 1)%nat /\
  Z.to_nat (gen_place_cols (Z.of_nat row) (Z.of_nat row)) = (row - 1)%nat.
Proof. intros row H. destruct (place_table_matches_model row H) as [H1 [H2 H3]].
  assert (E1 : forall r c, gen_place_special r c = place_special r c).
  { intros r c. unfold gen_place_special, place_special.
    repeat match goal with |- context [(?a =? ?b)%Z] => destruct (Z.eqb_spec a b) end; try reflexivity; lia. }
  assert (E2 : forall r c, gen_place_rows r c = place_rows r c) by (intros; unfold gen_place_rows, place_rows; lia).
  assert (E3 : forall r c, gen_place_cols r c = place_cols r c) by (intros; unfold gen_place_cols, place_cols; lia).
  rewrite E1, E2, E3. auto. Qed.
Print Assumptions gen_placement_eq.

(* replace_prob_dist: the regenerated function is the model's, over every ordered field, every length, every input;
   its default eps is the double 1e-8 (the value the harness feeds to the model) *)
Theorem gen_replace_prob_dist_eq : forall (F : OF) m eps (q : @vec F) x,
  gen_replace_prob_dist F m eps q x = replace_prob_dist F m eps q x.
Proof. intros F m eps q x. rewrite replace_prob_dist_alt. unfold gen_replace_prob_dist. cbv zeta.
  destruct (ltb F (q x) eps); reflexivity. Qed.
Print Assumptions gen_replace_prob_dist_eq.

Theorem gen_replace_default_eps_is_1e8 :
  gen_replace_default_eps_num = 3022314549036573%Z /\ gen_replace_default_eps_den = (2 ^ 78)%Z.
Proof. split; vm_compute; reflexivity. Qed.
Print Assumptions gen_replace_default_eps_is_1e8.
