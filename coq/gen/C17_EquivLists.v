(* C17 — thorough tier: the regenerated 2-qutrit catalogue list functions (see coq/gen/C17_Equiv.v). Axiom-free. *)
From Coq Require Import String Ascii List ZArith QArith Qcanon Bool Arith Lia.
From QV.Core Require Import OF Sums Mat C17_Z8.
From QV.Model Require Import C17_Tables C17_Names C17_PySem C17_Permute.
From QV.Proofs Require Import C17_Tables C17_Names.
From QVGen Require Import Gen_c17_names C17_Equiv.
Import ListNotations.
Open Scope string_scope.

(* the 39 006 two-term 2-qutrit names and the complete gate list, as quara builds them, are the Coq catalogue *)
Theorem C17gen_2qutrit_catalogue_lists :
  is_strlist g_get_gate_names_2qutrit_two_base_matrices (map fst cat_gates_2qutrit_double) &&
  is_strlist g_get_gate_names_2qutrit (map fst cat_gates_2qutrit) &&
  is_strlist g_get_gate_names ("identity" :: gate_names 0 ++ gate_names 1 ++ gate_names 2 ++ gate_names 3 ++ map fst cat_gates_2qutrit)%list = true.
Proof. vm_cast_no_check (@eq_refl bool true). Qed.
Print Assumptions C17gen_2qutrit_catalogue_lists.
