(* Re-checked on every run against _random_number_to_data REGENERATED from /repo's data_generator.py:
   the generated function equals the hand-written model rn2data of Model/C14_DataGen.v, over any OF. *)
From Coq Require Import ZArith List Bool Lia.
From QV.Core Require Import OF.
From QV.Model Require Import C14_DataGen.
From QVGen Require Import Gen_random_number.
Import ListNotations.

Section Equiv.
Context (F : OF).

Definition gstep (r : F) : F * option Z -> Z * F -> F * option Z :=
  fun '(cumulative_sum, ret_) '(index, prob) =>
    match ret_ with
    | Some _ => (cumulative_sum, ret_)
    | None => let cumulative_sum := cadd F cumulative_sum prob in
              if negb (kleb F cumulative_sum r) then (cumulative_sum, Some index) else (cumulative_sum, ret_)
    end.

Lemma gstep_some r l : forall c v, snd (fold_left (gstep r) l (c, Some v)) = Some v.
Proof. induction l as [|[i p] l IH]; intros c v; cbn; [reflexivity|apply IH]. Qed.

Lemma gfold r ps : forall s c,
  snd (fold_left (gstep r) (combine (map Z.of_nat (seq s (length ps))) ps) (c, None)) =
  option_map Z.of_nat (rn2d_go F ps c r s).
Proof. induction ps as [|p ps IH]; intros s c; cbn [length seq map combine fold_left rn2d_go]; [reflexivity|].
  unfold gstep at 2. unfold flt. destruct (negb (kleb F (cadd F c p) r)) eqn:E.
  - rewrite gstep_some. reflexivity.
  - apply IH. Qed.

Lemma fold_left_ext2 {A B} (f g : A -> B -> A) : (forall a b, f a b = g a b) ->
  forall l i, fold_left f l i = fold_left g l i.
Proof. intros H l. induction l as [|x l IH]; intros i; cbn; [reflexivity|]. now rewrite H, IH. Qed.

Theorem gen_random_number_to_data_eq : forall ps r, gen_random_number_to_data F ps r = rn2data F ps r.
Proof. intros ps r. unfold gen_random_number_to_data, rn2data.
  erewrite (fold_left_ext2 _ (gstep r)) by (intros [c o] [i p]; reflexivity).
  pose proof (gfold r ps 0%nat (c0 F)) as H.
  destruct (fold_left (gstep r) _ _) as [c o]. cbn [snd] in H. rewrite H.
  destruct (rn2d_go F ps (c0 F) r 0); reflexivity. Qed.
End Equiv.
Print Assumptions gen_random_number_to_data_eq.
