(* Re-checked on every run against _random_number_to_data REGENERATED from /repo's data_generator.py by gen/py2coq.py:
   the generated function equals the hand-written model rn2data of Model/C14_DataGen.v (the code as repaired by
   fixes/C14-rn2data-fallback-zero-probability), over any ordered field; the validity theorem is transported to the
   regenerated function.  On the unrepaired source (fallback `return len(probdist) - 1`) this file does NOT compile:
   the tie is reported broken and the sub-checks rn2data / fallback supply the failing input. *)
From Coq Require Import ZArith List Bool Lia.
From QV.Core Require Import OF.
From QV.Model Require Import C14_DataGen.
From QV.Proofs Require Import C14_DataGen.
From QVGen Require Import Gen_random_number.
Import ListNotations.

Section Equiv.
Context (F : OF).

(* one iteration of the generated loop; state = (cumulative_sum, last_positive, early return value) *)
Definition gstep (r : F) : F * Z * option Z -> Z * F -> F * Z * option Z :=
  fun '(cumulative_sum, last_positive, ret_) '(index, prob) =>
    match ret_ with
    | Some _ => (cumulative_sum, last_positive, ret_)
    | None => let cumulative_sum := cadd F cumulative_sum prob in
              if negb (kleb F cumulative_sum r) then (cumulative_sum, last_positive, Some index)
              else let last_positive := if negb (kleb F prob (c0 F)) then index else last_positive in
                   (cumulative_sum, last_positive, ret_)
    end.
Definition fin (st : F * Z * option Z) : Z :=
  match st with (_, lp, Some v) => v | (_, lp, None) => lp end.

Lemma gstep_some r l : forall c lp v, fin (fold_left (gstep r) l (c, lp, Some v)) = v.
Proof. induction l as [|[i p] l IH]; intros c lp v; cbn; [reflexivity|apply IH]. Qed.

Lemma gfold r ps : forall s c lp,
  fin (fold_left (gstep r) (combine (map Z.of_nat (seq s (length ps))) ps) (c, lp, None)) = rn2d_r F (cadd F) ps c r s lp.
Proof. induction ps as [|p ps IH]; intros s c lp; cbn [length seq map combine fold_left rn2d_r]; [reflexivity|].
  unfold gstep at 2. unfold flt. destruct (negb (kleb F (cadd F c p) r)) eqn:E.
  - apply gstep_some.
  - apply IH. Qed.

Lemma fold_left_ext2 {A B} (f g : A -> B -> A) : (forall a b, f a b = g a b) ->
  forall l i, fold_left f l i = fold_left g l i.
Proof. intros H l. induction l as [|x l IH]; intros i; cbn; [reflexivity|]. now rewrite H, IH. Qed.

Theorem gen_random_number_to_data_eq : forall ps r, gen_random_number_to_data F ps r = rn2data F ps r.
Proof. intros ps r. rewrite <- rn2data_r_exact_add. unfold gen_random_number_to_data, rn2data_r.
  erewrite (fold_left_ext2 _ (gstep r)) by (intros [[c lp] o] [i p]; reflexivity).
  pose proof (gfold r ps 0%nat (c0 F) (Z.of_nat (length ps) - 1)%Z) as H.
  destruct (fold_left (gstep r) _ _) as [[c lp] o]. cbn [fin] in H. rewrite <- H.
  destruct o; reflexivity. Qed.

(* the property, about the function regenerated from the Python text: for every r >= 0 and every vector with a positive
   entry the returned outcome is in range and has positive probability *)
Theorem gen_random_number_to_data_valid : forall ps r, kle F (c0 F) r -> has_pos F ps ->
  exists n : nat, gen_random_number_to_data F ps r = Z.of_nat n /\ (n < length ps)%nat /\ klt F (c0 F) (nth n ps (c0 F)).
Proof. intros ps r Hr Hp. rewrite gen_random_number_to_data_eq. exact (rn2data_valid F ps r Hr Hp). Qed.
End Equiv.
Print Assumptions gen_random_number_to_data_eq.
Print Assumptions gen_random_number_to_data_valid.
