(* Re-checked on every run against the functions REGENERATED (gen/c15_py2coq.py) from the current source of
     quara/data_analysis/physicality_violation_check.py : get_ineq_const_eps, get_eq_const_eps, _convert_result_to_qoperation,
         calc_unphysical_qobjects_n, is_physical_qobjects_all, is_eq_constraint_satisfied_all, is_ineq_constraint_satisfied_all
     quara/simulation/standard_qtomography_simulation_check.py : StandardQTomographySimulationCheck.execute_physicality_violation_check
   The regenerated functions equal the hand-written decision-table model (Model/C15_PhysCheck.v) on ALL inputs (any number of
   repetitions / sample sizes, ragged or empty result lists included: None = the exception), hence the property theorem
   "the check fails exactly when some stored estimate violates a constraint its estimator was configured to enforce" holds for
   the code as translated.  A source change that alters behaviour (a threshold, which estimate supplies the parametrisation, a
   dropped loop iteration, a swapped branch, an estimator class) breaks these proofs.

   Second part (stream dataflow), regenerated from
     quara/utils/number_util.py : to_stream
     quara/protocol/qtomography/standard/standard_{qst,povmt,qpt,qmpt}.py : generate_empi_dists_sequence
     quara/simulation/standard_qtomography_simulation.py : _generate_empi_dists_and_calc_estimate,
         generate_empi_dists_and_calc_estimate, execute_simulation
   For every kind of seed argument (None -> seed_data or np.random, an integer of ANY integer type, a Generator object) and any
   n_rep, the task-draws of the repetitions of execute_simulation AS TRANSLATED are exactly the keys of the hand-written dataflow
   model (Model/C15_Dataflow.single_keys), hence pairwise distinct positions of ONE stream (C15_single_keys_distinct). *)
From Coq Require Import List Arith Bool Lia ZArith.
From QV.Core Require Import OF.
From QV.Model Require Import C15_Dataflow C15_PhysCheck C15_PySem.
From QV.Proofs Require Import C15_Dataflow C15_PhysCheck C15_PySem.
From QVGen Require Import Gen_c15_physcheck.
Import ListNotations.

Section Equiv.
Context (F : OF).
Variable th : thresholds F.
Notation est := (est F).

Theorem gen_get_ineq_const_eps_eq : gen_get_ineq_const_eps F th = t_ineq th.
Proof. reflexivity. Qed.

Theorem gen_get_eq_const_eps_eq : forall para, gen_get_eq_const_eps F th para = eq_eps F th para.
Proof. intros para. unfold gen_get_eq_const_eps, eq_eps. destruct para; reflexivity. Qed.

(* _convert_result_to_qoperation: the estimate of sample size i of every repetition (both branches of the source agree) *)
Theorem gen_convert_result_to_qoperation_eq : forall (ests : list (list est)) i,
  gen_convert_result_to_qoperation F ests i = omap (fun row => py_idx row i) ests.
Proof. intros ests i. unfold gen_convert_result_to_qoperation.
  destruct (Nat.eqb_spec i 0) as [->|_]; cbv zeta; rewrite obind_id; apply omap_ext; intros row _; apply obind_id. Qed.

(* calc_unphysical_qobjects_n(results, i) == 0  is the hand model's verdict for sample size i *)
Theorem gen_calc_unphysical_zero : forall (ests : list (list est)) i,
  option_map (fun n => Nat.eqb n 0) (gen_calc_unphysical_qobjects_n F th ests i) =
  match get F ests 0 i with
  | None => None
  | Some e0 => column F ests i (fun e => physical F e (eq_eps F th (e_para e0)) (t_ineq th))
  end.
Proof. intros ests i. unfold gen_calc_unphysical_qobjects_n. cbv zeta.
  rewrite gen_convert_result_to_qoperation_eq.
  destruct ests as [|row0 t]; [reflexivity|].
  unfold get, py_idx. cbn [nth_error obind omap].
  destruct (nth_error row0 i) as [e0|] eqn:E0; cbn [obind option_map]; [|reflexivity].
  rewrite column_omap, (omap_fuse (fun row => py_idx row i)).
  unfold py_idx. cbn [omap]. rewrite E0. cbn [obind].
  destruct (omap (fun row => nth_error row i) t) as [bs|]; cbn [obind option_map nth_error]; [|reflexivity].
  rewrite omap_id. cbn [obind option_map]. rewrite gen_get_eq_const_eps_eq.
  unfold gen_get_ineq_const_eps.
  f_equal. exact (count_filter_zero (fun e => physical F e (eq_eps F th (e_para e0)) (t_ineq th)) (e0 :: bs)). Qed.

Theorem gen_is_physical_qobjects_all_eq : forall (ests : list (list est)) n,
  gen_is_physical_qobjects_all F th ests n = is_physical_all F th ests n.
Proof. intros ests n. unfold gen_is_physical_qobjects_all, is_physical_all. cbv zeta.
  rewrite (ofold_append (fun i => gen_calc_unphysical_qobjects_n F th ests i) (fun r => Nat.eqb r 0)).
  rewrite all_opt_omap.
  rewrite (omap_ext _ (fun i => match get F ests 0 i with
                                | Some e0 => column F ests i (fun e => physical F e (eq_eps F th (e_para e0)) (t_ineq th))
                                | None => None end)) by (intros i _; apply gen_calc_unphysical_zero).
  destruct (omap _ (seq 0 n)) as [bs|]; cbn [option_map obind app]; [|reflexivity]. first [apply if_in_false | reflexivity]. Qed.

Theorem gen_is_ineq_constraint_satisfied_all_eq : forall (ests : list (list est)) n,
  gen_is_ineq_constraint_satisfied_all F th ests n = is_ineq_all F th ests n.
Proof. intros ests n. unfold gen_is_ineq_constraint_satisfied_all, is_ineq_all. cbv zeta.
  rewrite (ofold_append (fun i => omap (fun row => obind (py_idx row i) (fun x => Some (ineq_ok F x (gen_get_ineq_const_eps F th)))) ests)
                        (fun l => negb (py_in false l))).
  rewrite all_opt_omap.
  rewrite (omap_ext (fun i => column F ests i (fun e => ineq_ok F e (t_ineq th))) _) by (intros i _; apply column_omap).
  unfold gen_get_ineq_const_eps.
  destruct (omap _ (seq 0 n)) as [bs|]; reflexivity. Qed.

Theorem gen_is_eq_constraint_satisfied_all_eq : forall (ests : list (list est)) n,
  gen_is_eq_constraint_satisfied_all F th ests n = is_eq_all F th ests n.
Proof. intros ests n. unfold gen_is_eq_constraint_satisfied_all, is_eq_all. cbv zeta.
  rewrite (get_as_idx F ests 0 0). destruct (get F ests 0 0) as [e0|]; [|reflexivity].
  rewrite gen_get_eq_const_eps_eq.
  rewrite (ofold_append (fun i => omap (fun row => obind (py_idx row i) (fun x => Some (eq_ok F x (eq_eps F th (e_para e0))))) ests)
                        (fun l => negb (py_in false l))).
  rewrite all_opt_omap.
  rewrite (omap_ext (fun i => column F ests i (fun e => eq_ok F e (eq_eps F th (e_para e0)))) _) by (intros i _; apply column_omap).
  destruct (omap _ (seq 0 n)) as [bs|]; reflexivity. Qed.

(* the whole decision table *)
Theorem gen_execute_physicality_violation_check_eq : forall (c : chkcfg) (ests : list (list est)) n,
  gen_execute_physicality_violation_check F th c ests n = check F th c ests n.
Proof. intros c ests n. unfold gen_execute_physicality_violation_check, check. cbv zeta.
  rewrite !obind_id, !gen_is_physical_qobjects_all_eq, !gen_is_eq_constraint_satisfied_all_eq, !gen_is_ineq_constraint_satisfied_all_eq.
  rewrite (get_as_idx F ests 0 0).
  destruct (k_kind c); cbn [kind_eqb]; try reflexivity;
    try (destruct (get F ests 0 0) as [e0|]; [destruct (e_para e0)|]; reflexivity).
  destruct (k_has_option c); [|reflexivity].
  destruct (k_algo_eq c), (k_algo_ineq c); cbn [app all_opt];
    repeat match goal with |- context [is_eq_all F th ests n] => destruct (is_eq_all F th ests n) as [[|]|] end;
    repeat match goal with |- context [is_ineq_all F th ests n] => destruct (is_ineq_all F th ests n) as [[|]|] end;
    cbn; reflexivity. Qed.

(* transported property theorem: the code AS TRANSLATED returns a verdict and fails exactly when some stored estimate violates,
   beyond its threshold, a constraint the estimator was configured to enforce *)
Theorem gen_check_fails_iff : forall c (ests : list (list est)) n para,
  ests <> [] -> (0 < n)%nat -> rectangular F ests n -> uniform_para F ests para ->
  exists b, gen_execute_physicality_violation_check F th c ests n = Some b /\
    (b = false <-> exists r i e, get F ests r i = Some e /\ violates F th c para e = true).
Proof. intros c ests n para H1 H2 H3 H4. rewrite gen_execute_physicality_violation_check_eq.
  now apply check_fails_iff. Qed.
End Equiv.

Print Assumptions gen_get_ineq_const_eps_eq.
Print Assumptions gen_get_eq_const_eps_eq.
Print Assumptions gen_convert_result_to_qoperation_eq.
Print Assumptions gen_calc_unphysical_zero.
Print Assumptions gen_is_physical_qobjects_all_eq.
Print Assumptions gen_is_ineq_constraint_satisfied_all_eq.
Print Assumptions gen_is_eq_constraint_satisfied_all_eq.
Print Assumptions gen_execute_physicality_violation_check_eq.
Print Assumptions gen_check_fails_iff.

(* ==================================================================== stream dataflow of the single-setting entry point *)
Section StreamEquiv.
Variable origin : Z * list nat * nat.

(* the four tomography classes treat the seed in the same way *)
Theorem gen_tomo_methods_agree : forall v st,
  gen_StandardPovmt_generate_empi_dists_sequence origin v st = gen_StandardQst_generate_empi_dists_sequence origin v st /\
  gen_StandardQpt_generate_empi_dists_sequence origin v st = gen_StandardQst_generate_empi_dists_sequence origin v st /\
  gen_StandardQmpt_generate_empi_dists_sequence origin v st = gen_StandardQst_generate_empi_dists_sequence origin v st.
Proof. intros v st. repeat split; reflexivity. Qed.

Notation tomo := (gen_StandardQst_generate_empi_dists_sequence origin).
Notation rep := (gen_one_repetition tomo).

Lemma sbind_sret {A} (x : sm A) st : sbind x (fun a => sret a) st = x st.
Proof. unfold sbind, sret. now destruct (x st). Qed.
Lemma sbind_assoc_pt {A B C} (x : sm A) (f : A -> sm B) (g : B -> sm C) st :
  sbind (sbind x f) g st = sbind x (fun a => sbind (f a) g) st.
Proof. unfold sbind. now destruct (x st). Qed.
Lemma sbind_sret_l {A B} (a : A) (f : A -> sm B) st : sbind (sret a) f st = f a st.
Proof. reflexivity. Qed.

(* one repetition handed a stream OBJECT draws on that object; handed None it draws on np.random *)
Lemma rep_stream s st : rep (VStream s) st = draw_stream origin s st.
Proof. unfold gen_one_repetition, gen_StandardQst_generate_empi_dists_sequence, gen_to_stream. cbn [sv_is_none sv_is_int].
  rewrite sbind_sret. unfold sbind at 1, sret at 1. rewrite sbind_sret. reflexivity. Qed.
Lemma rep_none st : rep VNone st = draw_stream origin SAmb st.
Proof. unfold gen_one_repetition, gen_StandardQst_generate_empi_dists_sequence, gen_to_stream. cbn [sv_is_none sv_is_int].
  rewrite sbind_sret. cbv zeta. unfold sbind at 1, sret at 1. rewrite sbind_sret. reflexivity. Qed.
Lemma draws_ext (f g : sm key) n : (forall st, f st = g st) -> forall st, draws f n st = draws g n st.
Proof. intros H. induction n as [|n IH]; intros st; [reflexivity|]. cbn [draws]. rewrite H. destruct (g st). now rewrite IH. Qed.

(* generate_empi_dists_and_calc_estimate: the keys of the n repetitions *)
Lemma gen_generate_keys n v st :
  fst (gen_generate_empi_dists_and_calc_estimate tomo n v st) =
  match v with
  | VNone => draws (draw_stream origin SAmb) n st
  | VStream s => draws (draw_stream origin s) n st
  | VInt z => map (fun i => KSeed z [] i) (seq 0 n)
  end.
Proof. unfold gen_generate_empi_dists_and_calc_estimate. destruct v as [|z|s]; cbn [sv_is_none negb].
  - unfold sbind at 1. pose proof (sloop_pairs (rep VNone) n [] [] st) as H. cbv zeta.
    destruct (sloop n _ ([], []) st) as [[l1 l2] st'] eqn:E. cbn [fst] in H. inversion H. unfold sret. cbn [fst app].
    apply draws_ext. apply rep_none.
  - unfold gen_to_stream. cbn [sv_is_none sv_is_int]. rewrite sbind_assoc_pt.
    unfold sbind at 1. cbn [sv_alloc]. rewrite sbind_sret_l.
    set (st1 := {| s_amb := s_amb st; s_arg := s_arg st; s_new := s_new st ++ [(z, 0)] |}).
    set (id := length (s_new st)).
    unfold sbind at 1. pose proof (sloop_pairs (rep (VStream (SNew id))) n [] [] st1) as H. cbv zeta.
    destruct (sloop n _ ([], []) st1) as [[l1 l2] st'] eqn:E. cbn [fst] in H. inversion H. unfold sret. cbn [fst app].
    rewrite (draws_ext _ (draw_stream origin (SNew id)) n (rep_stream (SNew id))).
    rewrite (draws_new origin id n st1 z 0).
    + apply map_ext. intros i. reflexivity.
    + unfold st1, id. cbn [s_new]. rewrite nth_error_app2 by lia. now rewrite Nat.sub_diag.
  - unfold gen_to_stream. cbn [sv_is_none sv_is_int]. unfold sbind at 1, sret at 1.
    unfold sbind at 1. pose proof (sloop_pairs (rep (VStream s)) n [] [] st) as H. cbv zeta.
    destruct (sloop n _ ([], []) st) as [[l1 l2] st'] eqn:E. cbn [fst] in H. inversion H. unfold sret. cbn [fst app].
    apply draws_ext. apply rep_stream. Qed.
End StreamEquiv.

(* execute_simulation as translated draws exactly the keys of the dataflow model, for every kind of seed argument *)
Theorem gen_execute_simulation_keys : forall arg seed_data n_rep,
  fst (gen_execute_simulation (gen_StandardQst_generate_empi_dists_sequence (origin_of_seedarg arg))
         (sval_of_seedarg arg) (sval_of_seed_data seed_data) n_rep st0)
  = single_keys arg seed_data n_rep.
Proof. intros arg seed_data n_rep. unfold gen_execute_simulation, single_keys.
  destruct arg as [|z|r p o]; cbn [sval_of_seedarg sv_is_none resolve_seed]; rewrite sbind_sret, gen_generate_keys.
  - destruct seed_data as [z|]; cbn [sval_of_seed_data].
    + apply map_ext. reflexivity.
    + rewrite draws_amb. apply map_ext. reflexivity.
  - apply map_ext. reflexivity.
  - rewrite draws_arg. cbn [origin_of_seedarg st0 s_arg]. apply map_ext. intros i. cbn [single_key]. f_equal. lia. Qed.

(* transported: the repetitions of the translated execute_simulation draw from pairwise distinct stream positions *)
Theorem gen_execute_simulation_keys_distinct : forall arg seed_data n_rep,
  NoDup (fst (gen_execute_simulation (gen_StandardQst_generate_empi_dists_sequence (origin_of_seedarg arg))
                (sval_of_seedarg arg) (sval_of_seed_data seed_data) n_rep st0)).
Proof. intros. rewrite gen_execute_simulation_keys. apply single_keys_distinct. Qed.

Print Assumptions gen_tomo_methods_agree.
Print Assumptions gen_execute_simulation_keys.
Print Assumptions gen_execute_simulation_keys_distinct.
