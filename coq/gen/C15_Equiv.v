(* Re-checked on every run against the functions REGENERATED (gen/c15_py2coq.py) from the current source of
     quara/data_analysis/physicality_violation_check.py : get_ineq_const_eps, get_eq_const_eps, _convert_result_to_qoperation,
         calc_unphysical_qobjects_n, is_physical_qobjects_all, is_eq_constraint_satisfied_all, is_ineq_constraint_satisfied_all
     quara/simulation/standard_qtomography_simulation_check.py : StandardQTomographySimulationCheck.execute_physicality_violation_check
   The regenerated functions equal the hand-written decision-table model (Model/C15_PhysCheck.v) on ALL inputs (any number of
   repetitions / sample sizes, ragged or empty result lists included: None = the exception), hence the property theorem
   "the check fails exactly when some stored estimate violates a constraint its estimator was configured to enforce" holds for
   the code as translated.  A source change that alters behaviour (a threshold, which estimate supplies the parametrisation, a
   dropped loop iteration, a swapped branch, an estimator class) breaks these proofs.

   Third part (depolarising-noise constructors), regenerated from
     quara/objects/gate.py : get_depolarizing_channel
     quara/simulation/depolarized_qoperation_generation_setting.py : DepolarizedQOperationGenerationSetting.{__init__, generate_state,
         generate_povm, generate_gate, generate_mprocess}
     quara/objects/qoperation_typical.py : generate_qoperation_depolarized (specialised to each mode string)
   The translated constructors accept exactly the rates 0 <= p <= 1 and return exactly the model's composition (Model/C15_Depol.v:
   depol_state / depol_povm / depol_gate / depol_mprocess - the noise channel on the side the theorems of Props/C15.v are about),
   hence the stated mixture.  A change of the composition side, of the diagonal of the noise matrix or of the rate guard breaks these proofs.

   Fourth part (spawn structure of the flow entry point), regenerated from
     quara/simulation/standard_qtomography_simulation_flow.py : execute_simulation_test_setting_unit
   Sample i is handed exactly the i-th spawned child of SeedSequence(seed_qoperation) - the stream the model's qop_key names - and the
   returned list is the concatenation of the samples' results in sample order (the model's flow_spec), for any sample count.

   Fifth part (dispatch of the sample's stream to the generation settings), regenerated from
     quara/simulation/standard_qtomography_simulation_flow.py : _generate_with_stream  (its test _takes_stream is checked textually)
   A setting whose generate takes the stream makes exactly one draw on the stream it is handed, any other setting makes no draw on any
   stream (in particular not on np.random); served one after the other with the sample's spawned stream, the true object and the
   testers receive exactly the keys qop_key of the dataflow model, for every mix of noise methods.

   Sixth part (objects handed to the estimation tasks), regenerated from
     quara/simulation/standard_qtomography_simulation.py : execute_estimation  (the task list of its joblib.Parallel call)
   Every repetition's task receives its OWN deep copy of estimator, loss and algo; hence, whatever interleaving of the tasks' load /
   optimise steps a thread backend produces, every task optimises over its own data.

   Second part (stream dataflow), regenerated from
     quara/utils/number_util.py : to_stream
     quara/protocol/qtomography/standard/standard_{qst,povmt,qpt,qmpt}.py : generate_empi_dists_sequence
     quara/simulation/standard_qtomography_simulation.py : _generate_empi_dists_and_calc_estimate,
         generate_empi_dists_and_calc_estimate, execute_simulation
   For every kind of seed argument (None -> seed_data or np.random, an integer of ANY integer type, a Generator object) and any
   n_rep, the task-draws of the repetitions of execute_simulation AS TRANSLATED are exactly the keys of the hand-written dataflow
   model (Model/C15_Dataflow.single_keys), hence pairwise distinct positions of ONE stream (C15_single_keys_distinct). *)
From Coq Require Import List Arith Bool Lia ZArith.
From QV.Core Require Import OF.
From QV.Core Require Import Sums Mat.
From QV.Model Require Import QObj C15_Dataflow C15_PhysCheck C15_PySem C15_Depol.
From QV.Proofs Require Import C15_Dataflow C15_PhysCheck C15_PySem C15_Depol.
From QVGen Require Import Gen_c15_physcheck.
Import ListNotations.

Section Equiv.
Context (F : OF).
Variable th : thresholds F.
Notation est := (est F).

Theorem gen_get_ineq_const_eps_eq : gen_get_ineq_const_eps F th = t_ineq th.
Proof. reflexivity. Qed.

Theorem gen_get_eq_const_eps_eq : forall para, gen_get_eq_const_eps F th para = eq_eps F th para.
Proof. intros para. unfold gen_get_eq_const_eps, eq_eps. destruct para; reflexivity. Qed.

(* _convert_result_to_qoperation: the estimate of sample size i of every repetition (both branches of the source agree) *)
Theorem gen_convert_result_to_qoperation_eq : forall (ests : list (list est)) i,
  gen_convert_result_to_qoperation F ests i = omap (fun row => py_idx row i) ests.
Proof. intros ests i. unfold gen_convert_result_to_qoperation.
  destruct (Nat.eqb_spec i 0) as [->|_]; cbv zeta; rewrite obind_id; apply omap_ext; intros row _; apply obind_id. Qed.

(* calc_unphysical_qobjects_n(results, i) == 0  is the hand model's verdict for sample size i *)
Theorem gen_calc_unphysical_zero : forall (ests : list (list est)) i,
  option_map (fun n => Nat.eqb n 0) (gen_calc_unphysical_qobjects_n F th ests i) =
  match get F ests 0 i with
  | None => None
  | Some e0 => column F ests i (fun e => physical F e (eq_eps F th (e_para e0)) (t_ineq th))
  end.
Proof. intros ests i. unfold gen_calc_unphysical_qobjects_n. cbv zeta.
  rewrite gen_convert_result_to_qoperation_eq.
  destruct ests as [|row0 t]; [reflexivity|].
  unfold get, py_idx. cbn [nth_error obind omap].
  destruct (nth_error row0 i) as [e0|] eqn:E0; cbn [obind option_map]; [|reflexivity].
  rewrite column_omap, (omap_fuse (fun row => py_idx row i)).
  unfold py_idx. cbn [omap]. rewrite E0. cbn [obind].
  destruct (omap (fun row => nth_error row i) t) as [bs|]; cbn [obind option_map nth_error]; [|reflexivity].
  rewrite omap_id. cbn [obind option_map]. rewrite gen_get_eq_const_eps_eq.
  unfold gen_get_ineq_const_eps.
  f_equal. exact (count_filter_zero (fun e => physical F e (eq_eps F th (e_para e0)) (t_ineq th)) (e0 :: bs)). Qed.

Theorem gen_is_physical_qobjects_all_eq : forall (ests : list (list est)) n,
  gen_is_physical_qobjects_all F th ests n = is_physical_all F th ests n.
Proof. intros ests n. unfold gen_is_physical_qobjects_all, is_physical_all. cbv zeta.
  rewrite (ofold_append (fun i => gen_calc_unphysical_qobjects_n F th ests i) (fun r => Nat.eqb r 0)).
  rewrite all_opt_omap.
  rewrite (omap_ext _ (fun i => match get F ests 0 i with
                                | Some e0 => column F ests i (fun e => physical F e (eq_eps F th (e_para e0)) (t_ineq th))
                                | None => None end)) by (intros i _; apply gen_calc_unphysical_zero).
  destruct (omap _ (seq 0 n)) as [bs|]; cbn [option_map obind app]; [|reflexivity]. first [apply if_in_false | reflexivity]. Qed.

Theorem gen_is_ineq_constraint_satisfied_all_eq : forall (ests : list (list est)) n,
  gen_is_ineq_constraint_satisfied_all F th ests n = is_ineq_all F th ests n.
Proof. intros ests n. unfold gen_is_ineq_constraint_satisfied_all, is_ineq_all. cbv zeta.
  rewrite (ofold_append (fun i => omap (fun row => obind (py_idx row i) (fun x => Some (ineq_ok F x (gen_get_ineq_const_eps F th)))) ests)
                        (fun l => negb (py_in false l))).
  rewrite all_opt_omap.
  rewrite (omap_ext (fun i => column F ests i (fun e => ineq_ok F e (t_ineq th))) _) by (intros i _; apply column_omap).
  unfold gen_get_ineq_const_eps.
  destruct (omap _ (seq 0 n)) as [bs|]; reflexivity. Qed.

Theorem gen_is_eq_constraint_satisfied_all_eq : forall (ests : list (list est)) n,
  gen_is_eq_constraint_satisfied_all F th ests n = is_eq_all F th ests n.
Proof. intros ests n. unfold gen_is_eq_constraint_satisfied_all, is_eq_all. cbv zeta.
  rewrite (get_as_idx F ests 0 0). destruct (get F ests 0 0) as [e0|]; [|reflexivity].
  rewrite gen_get_eq_const_eps_eq.
  rewrite (ofold_append (fun i => omap (fun row => obind (py_idx row i) (fun x => Some (eq_ok F x (eq_eps F th (e_para e0))))) ests)
                        (fun l => negb (py_in false l))).
  rewrite all_opt_omap.
  rewrite (omap_ext (fun i => column F ests i (fun e => eq_ok F e (eq_eps F th (e_para e0)))) _) by (intros i _; apply column_omap).
  destruct (omap _ (seq 0 n)) as [bs|]; reflexivity. Qed.

(* the whole decision table *)
Theorem gen_execute_physicality_violation_check_eq : forall (c : chkcfg) (ests : list (list est)) n,
  gen_execute_physicality_violation_check F th c ests n = check F th c ests n.
Proof. intros c ests n. unfold gen_execute_physicality_violation_check, check. cbv zeta.
  rewrite !obind_id, !gen_is_physical_qobjects_all_eq, !gen_is_eq_constraint_satisfied_all_eq, !gen_is_ineq_constraint_satisfied_all_eq.
  rewrite (get_as_idx F ests 0 0).
  destruct (k_kind c); cbn [kind_eqb]; try reflexivity;
    try (destruct (get F ests 0 0) as [e0|]; [destruct (e_para e0)|]; reflexivity).
  destruct (k_has_option c); [|reflexivity].
  destruct (k_algo_eq c), (k_algo_ineq c); cbn [app all_opt];
    repeat match goal with |- context [is_eq_all F th ests n] => destruct (is_eq_all F th ests n) as [[|]|] end;
    repeat match goal with |- context [is_ineq_all F th ests n] => destruct (is_ineq_all F th ests n) as [[|]|] end;
    cbn; reflexivity. Qed.

(* transported property theorem: the code AS TRANSLATED returns a verdict and fails exactly when some stored estimate violates,
   beyond its threshold, a constraint the estimator was configured to enforce *)
Theorem gen_check_fails_iff : forall c (ests : list (list est)) n para,
  ests <> [] -> (0 < n)%nat -> rectangular F ests n -> uniform_para F ests para ->
  exists b, gen_execute_physicality_violation_check F th c ests n = Some b /\
    (b = false <-> exists r i e, get F ests r i = Some e /\ violates F th c para e = true).
Proof. intros c ests n para H1 H2 H3 H4. rewrite gen_execute_physicality_violation_check_eq.
  now apply check_fails_iff. Qed.
End Equiv.

Print Assumptions gen_get_ineq_const_eps_eq.
Print Assumptions gen_get_eq_const_eps_eq.
Print Assumptions gen_convert_result_to_qoperation_eq.
Print Assumptions gen_calc_unphysical_zero.
Print Assumptions gen_is_physical_qobjects_all_eq.
Print Assumptions gen_is_ineq_constraint_satisfied_all_eq.
Print Assumptions gen_is_eq_constraint_satisfied_all_eq.
Print Assumptions gen_execute_physicality_violation_check_eq.
Print Assumptions gen_check_fails_iff.

(* ==================================================================== depolarising-noise constructors *)
Section DepolEquiv.
Context (F : OF).

Theorem gen_get_depolarizing_channel_eq : forall p n,
  gen_get_depolarizing_channel F p n = if rate_ok F p then Some (depol_hs F p) else None.
Proof. intros p n. unfold gen_get_depolarizing_channel, py_chain_le, rate_ok.
  destruct (kleb F (c0 F) p && kleb F p (c1 F))%bool; reflexivity. Qed.

Theorem gen_DepolarizedSetting_init_eq : forall p, gen_DepolarizedSetting_init F p = if rate_ok F p then Some tt else None.
Proof. intros p. unfold gen_DepolarizedSetting_init, py_chain_le, rate_ok.
  destruct (kleb F (c0 F) p && kleb F p (c1 F))%bool; reflexivity. Qed.

(* the generation setting: a constructed setting (rate accepted) generates exactly the model's composition *)
Theorem gen_DepolarizedSetting_generate_state_eq : forall p v n,
  gen_DepolarizedSetting_generate_state F p v n = if rate_ok F p then Some (depol_state F n p v) else None.
Proof. intros. unfold gen_DepolarizedSetting_generate_state. rewrite gen_get_depolarizing_channel_eq. destruct (rate_ok F p); reflexivity. Qed.
Theorem gen_DepolarizedSetting_generate_povm_eq : forall p vs n,
  gen_DepolarizedSetting_generate_povm F p vs n = if rate_ok F p then Some (depol_povm F n p vs) else None.
Proof. intros. unfold gen_DepolarizedSetting_generate_povm. rewrite gen_get_depolarizing_channel_eq. destruct (rate_ok F p); reflexivity. Qed.
Theorem gen_DepolarizedSetting_generate_gate_eq : forall p HS n,
  gen_DepolarizedSetting_generate_gate F p HS n = if rate_ok F p then Some (depol_gate F n p HS) else None.
Proof. intros. unfold gen_DepolarizedSetting_generate_gate. rewrite gen_get_depolarizing_channel_eq. destruct (rate_ok F p); reflexivity. Qed.
Theorem gen_DepolarizedSetting_generate_mprocess_eq : forall p HSs n,
  gen_DepolarizedSetting_generate_mprocess F p HSs n = if rate_ok F p then Some (depol_mprocess F n p HSs) else None.
Proof. intros. unfold gen_DepolarizedSetting_generate_mprocess. rewrite gen_get_depolarizing_channel_eq. destruct (rate_ok F p); reflexivity. Qed.

(* qoperation_typical.generate_qoperation_depolarized, one theorem per mode string; any other string raises *)
Theorem gen_generate_qoperation_depolarized_state_eq : forall n p v,
  gen_generate_qoperation_depolarized_state F n p v = if rate_ok F p then Some (depol_state F n p v) else None.
Proof. intros. unfold gen_generate_qoperation_depolarized_state. rewrite gen_get_depolarizing_channel_eq. destruct (rate_ok F p); reflexivity. Qed.
Theorem gen_generate_qoperation_depolarized_povm_eq : forall n p vs,
  gen_generate_qoperation_depolarized_povm F n p vs = if rate_ok F p then Some (depol_povm F n p vs) else None.
Proof. intros. unfold gen_generate_qoperation_depolarized_povm. rewrite gen_get_depolarizing_channel_eq. destruct (rate_ok F p); reflexivity. Qed.
Theorem gen_generate_qoperation_depolarized_gate_eq : forall n p HS,
  gen_generate_qoperation_depolarized_gate F n p HS = if rate_ok F p then Some (depol_gate F n p HS) else None.
Proof. intros. unfold gen_generate_qoperation_depolarized_gate. rewrite gen_get_depolarizing_channel_eq. destruct (rate_ok F p); reflexivity. Qed.
Theorem gen_generate_qoperation_depolarized_mprocess_eq : forall n p HSs,
  gen_generate_qoperation_depolarized_mprocess F n p HSs = if rate_ok F p then Some (depol_mprocess F n p HSs) else None.
Proof. intros. unfold gen_generate_qoperation_depolarized_mprocess. rewrite gen_get_depolarizing_channel_eq. destruct (rate_ok F p); reflexivity. Qed.
Theorem gen_generate_qoperation_depolarized_other_raises : forall n p v, gen_generate_qoperation_depolarized_other F n p v = None.
Proof. intros. unfold gen_generate_qoperation_depolarized_other. rewrite gen_get_depolarizing_channel_eq. destruct (rate_ok F p); reflexivity. Qed.

(* transported: what the translated generation setting returns for a gate IS the stated mixture (any HS matrix: non-unital,
   not trace preserving, not symmetric), and for a state likewise *)
Theorem gen_DepolarizedSetting_generate_gate_is_mixture : forall p HS n, rate_ok F p = true ->
  exists HS', gen_DepolarizedSetting_generate_gate F p HS n = Some HS' /\ forall a b, (a < n)%nat -> HS' a b = mix_hs F p HS a b.
Proof. intros p HS n H. rewrite gen_DepolarizedSetting_generate_gate_eq, H. eexists. split; [reflexivity|].
  intros a b Ha. now apply depol_gate_is_mixture. Qed.
Theorem gen_DepolarizedSetting_generate_state_is_mixture : forall p v n, rate_ok F p = true ->
  exists v', gen_DepolarizedSetting_generate_state F p v n = Some v' /\ forall a, (a < n)%nat -> v' a = mix_vec F p v a.
Proof. intros p v n H. rewrite gen_DepolarizedSetting_generate_state_eq, H. eexists. split; [reflexivity|].
  intros a Ha. now apply depol_state_is_mixture. Qed.
End DepolEquiv.

Print Assumptions gen_get_depolarizing_channel_eq.
Print Assumptions gen_DepolarizedSetting_init_eq.
Print Assumptions gen_DepolarizedSetting_generate_state_eq.
Print Assumptions gen_DepolarizedSetting_generate_povm_eq.
Print Assumptions gen_DepolarizedSetting_generate_gate_eq.
Print Assumptions gen_DepolarizedSetting_generate_mprocess_eq.
Print Assumptions gen_generate_qoperation_depolarized_state_eq.
Print Assumptions gen_generate_qoperation_depolarized_povm_eq.
Print Assumptions gen_generate_qoperation_depolarized_gate_eq.
Print Assumptions gen_generate_qoperation_depolarized_mprocess_eq.
Print Assumptions gen_generate_qoperation_depolarized_other_raises.
Print Assumptions gen_DepolarizedSetting_generate_gate_is_mixture.
Print Assumptions gen_DepolarizedSetting_generate_state_is_mixture.

(* ==================================================================== stream dataflow of the single-setting entry point *)
Section StreamEquiv.
Variable origin : Z * list nat * nat.

(* the four tomography classes treat the seed in the same way *)
Theorem gen_tomo_methods_agree : forall v st,
  gen_StandardPovmt_generate_empi_dists_sequence origin v st = gen_StandardQst_generate_empi_dists_sequence origin v st /\
  gen_StandardQpt_generate_empi_dists_sequence origin v st = gen_StandardQst_generate_empi_dists_sequence origin v st /\
  gen_StandardQmpt_generate_empi_dists_sequence origin v st = gen_StandardQst_generate_empi_dists_sequence origin v st.
Proof. intros v st. repeat split; reflexivity. Qed.

Notation tomo := (gen_StandardQst_generate_empi_dists_sequence origin).
Notation rep := (gen_one_repetition tomo).

Lemma sbind_sret {A} (x : sm A) st : sbind x (fun a => sret a) st = x st.
Proof. unfold sbind, sret. now destruct (x st). Qed.
Lemma sbind_assoc_pt {A B C} (x : sm A) (f : A -> sm B) (g : B -> sm C) st :
  sbind (sbind x f) g st = sbind x (fun a => sbind (f a) g) st.
Proof. unfold sbind. now destruct (x st). Qed.
Lemma sbind_sret_l {A B} (a : A) (f : A -> sm B) st : sbind (sret a) f st = f a st.
Proof. reflexivity. Qed.

(* one repetition handed a stream OBJECT draws on that object; handed None it draws on np.random *)
Lemma rep_stream s st : rep (VStream s) st = draw_stream origin s st.
Proof. unfold gen_one_repetition, gen_StandardQst_generate_empi_dists_sequence, gen_to_stream. cbn [sv_is_none sv_is_int].
  rewrite sbind_sret. unfold sbind at 1, sret at 1. rewrite sbind_sret. reflexivity. Qed.
Lemma rep_none st : rep VNone st = draw_stream origin SAmb st.
Proof. unfold gen_one_repetition, gen_StandardQst_generate_empi_dists_sequence, gen_to_stream. cbn [sv_is_none sv_is_int].
  rewrite sbind_sret. cbv zeta. unfold sbind at 1, sret at 1. rewrite sbind_sret. reflexivity. Qed.
Lemma draws_ext (f g : sm key) n : (forall st, f st = g st) -> forall st, draws f n st = draws g n st.
Proof. intros H. induction n as [|n IH]; intros st; [reflexivity|]. cbn [draws]. rewrite H. destruct (g st). now rewrite IH. Qed.

(* generate_empi_dists_and_calc_estimate: the keys of the n repetitions *)
Lemma gen_generate_keys n v st :
  fst (gen_generate_empi_dists_and_calc_estimate tomo n v st) =
  match v with
  | VNone => draws (draw_stream origin SAmb) n st
  | VStream s => draws (draw_stream origin s) n st
  | VInt z => map (fun i => KSeed z [] i) (seq 0 n)
  end.
Proof. unfold gen_generate_empi_dists_and_calc_estimate. destruct v as [|z|s]; cbn [sv_is_none negb].
  - unfold sbind at 1. pose proof (sloop_pairs (rep VNone) n [] [] st) as H. cbv zeta.
    destruct (sloop n _ ([], []) st) as [[l1 l2] st'] eqn:E. cbn [fst] in H. inversion H. unfold sret. cbn [fst app].
    apply draws_ext. apply rep_none.
  - unfold gen_to_stream. cbn [sv_is_none sv_is_int]. rewrite sbind_assoc_pt.
    unfold sbind at 1. cbn [sv_alloc]. rewrite sbind_sret_l.
    set (st1 := {| s_amb := s_amb st; s_arg := s_arg st; s_new := s_new st ++ [(z, 0)] |}).
    set (id := length (s_new st)).
    unfold sbind at 1. pose proof (sloop_pairs (rep (VStream (SNew id))) n [] [] st1) as H. cbv zeta.
    destruct (sloop n _ ([], []) st1) as [[l1 l2] st'] eqn:E. cbn [fst] in H. inversion H. unfold sret. cbn [fst app].
    rewrite (draws_ext _ (draw_stream origin (SNew id)) n (rep_stream (SNew id))).
    rewrite (draws_new origin id n st1 z 0).
    + apply map_ext. intros i. reflexivity.
    + unfold st1, id. cbn [s_new]. rewrite nth_error_app2 by lia. now rewrite Nat.sub_diag.
  - unfold gen_to_stream. cbn [sv_is_none sv_is_int]. unfold sbind at 1, sret at 1.
    unfold sbind at 1. pose proof (sloop_pairs (rep (VStream s)) n [] [] st) as H. cbv zeta.
    destruct (sloop n _ ([], []) st) as [[l1 l2] st'] eqn:E. cbn [fst] in H. inversion H. unfold sret. cbn [fst app].
    apply draws_ext. apply rep_stream. Qed.
End StreamEquiv.

(* execute_simulation as translated draws exactly the keys of the dataflow model, for every kind of seed argument *)
Theorem gen_execute_simulation_keys : forall arg seed_data n_rep,
  fst (gen_execute_simulation (gen_StandardQst_generate_empi_dists_sequence (origin_of_seedarg arg))
         (sval_of_seedarg arg) (sval_of_seed_data seed_data) n_rep st0)
  = single_keys arg seed_data n_rep.
Proof. intros arg seed_data n_rep. unfold gen_execute_simulation, single_keys.
  destruct arg as [|z|r p o]; cbn [sval_of_seedarg sv_is_none resolve_seed]; rewrite sbind_sret, gen_generate_keys.
  - destruct seed_data as [z|]; cbn [sval_of_seed_data].
    + apply map_ext. reflexivity.
    + rewrite draws_amb. apply map_ext. reflexivity.
  - apply map_ext. reflexivity.
  - rewrite draws_arg. cbn [origin_of_seedarg st0 s_arg]. apply map_ext. intros i. cbn [single_key]. f_equal. lia. Qed.

(* transported: the repetitions of the translated execute_simulation draw from pairwise distinct stream positions *)
Theorem gen_execute_simulation_keys_distinct : forall arg seed_data n_rep,
  NoDup (fst (gen_execute_simulation (gen_StandardQst_generate_empi_dists_sequence (origin_of_seedarg arg))
                (sval_of_seedarg arg) (sval_of_seed_data seed_data) n_rep st0)).
Proof. intros. rewrite gen_execute_simulation_keys. apply single_keys_distinct. Qed.

Print Assumptions gen_tomo_methods_agree.
Print Assumptions gen_execute_simulation_keys.
Print Assumptions gen_execute_simulation_keys_distinct.

(* ==================================================================== spawn structure of the flow entry point *)
Lemma combine_seq_from {A} (d : A) (l : list A) : forall a,
  combine (seq a (length l)) l = map (fun i => (i, nth (i - a) l d)) (seq a (length l)).
Proof. induction l as [|x t IH]; intros a; [reflexivity|]. cbn [length seq combine map]. rewrite Nat.sub_diag. cbn [nth]. f_equal.
  rewrite IH. apply map_ext_in. intros i Hi. apply in_seq in Hi. f_equal.
  replace (i - a)%nat with (S (i - S a)) by lia. reflexivity. Qed.
Lemma combine_seq_map {A} (l : list A) (d : A) : combine (seq 0 (length l)) l = map (fun i => (i, nth i l d)) (seq 0 (length l)).
Proof. rewrite (combine_seq_from d l 0). apply map_ext. intros i. now rewrite Nat.sub_0_r. Qed.

(* sample i runs on the i-th spawned child; results come back concatenated in sample order *)
Theorem gen_test_setting_unit_spec : forall (R : Type) (task : nat -> key -> list R) seed n,
  gen_execute_simulation_test_setting_unit R task seed n = concat (map (fun i => task i (KSeed seed [i] 0)) (seq 0 n)).
Proof. intros R task seed n. unfold gen_execute_simulation_test_setting_unit, py_parallel_enumerate, py_spawn_streams. cbv zeta. f_equal.
  rewrite (combine_seq_map _ (KAmbient 0)), map_map. unfold spawn. rewrite map_length, seq_length.
  apply map_ext_in. intros i Hi. apply in_seq in Hi. cbn [fst snd]. f_equal.
  rewrite (nth_indep _ (KAmbient 0) (KSeed seed ([] ++ [0]) 0)) by (rewrite map_length, seq_length; lia).
  rewrite (map_nth (fun j => KSeed seed ([] ++ [j]) 0)), seq_nth by lia. reflexivity. Qed.

(* ... and that child is the stream the dataflow model assigns to the objects of sample i (any noise configuration whose
   true object takes a stream): same root, same spawn path *)
Theorem gen_test_setting_unit_streams_are_model_keys : forall c s, f_true_seeded c = true ->
  qop_key c s 0 = GKey (nth s (py_spawn_streams (f_seed_qop c) (S s)) (KAmbient 0)).
Proof. intros c s H. unfold qop_key, seeded_at, py_spawn_streams. rewrite H. cbn [seq map count_true filter length].
  rewrite spawn_nth by lia. reflexivity. Qed.

Print Assumptions gen_test_setting_unit_spec.
Print Assumptions gen_test_setting_unit_streams_are_model_keys.

(* ==================================================================== the sample's stream handed to the generation settings *)
Theorem gen_generate_with_stream_spec : forall origin takes s st,
  gen_generate_with_stream origin takes (VStream s) st =
  if takes then (let (k, st') := draw_stream origin s st in (GKey k, st')) else (GNoRandom, st).
Proof. intros origin takes s st. unfold gen_generate_with_stream, setting_generate, setting_generate_default.
  destruct takes; cbn [experiment_draw]; unfold sbind, sret; [destruct (draw_stream origin s st)|]; reflexivity. Qed.

Lemma firstn_as_map (l : list bool) : forall j, (j <= length l)%nat -> map (fun i => nth i l false) (seq 0 j) = firstn j l.
Proof. induction l as [|b t IH]; intros j Hj.
  - cbn in Hj. assert (j = 0%nat) by lia. subst. reflexivity.
  - destruct j as [|j]; [reflexivity|]. cbn [seq map firstn nth]. f_equal. rewrite <- seq_shift, map_map. cbn [nth].
    apply IH. cbn in Hj. lia. Qed.

Lemma smapM_settings_keys seed smp : forall flags u st, s_arg st = u ->
  fst (smapM (fun t => gen_generate_with_stream (seed, [smp], 0%nat) t (VStream SArg)) flags st) =
  map (fun j => if nth j flags false then GKey (KSeed seed [smp] (u + count_true (firstn j flags))) else GNoRandom) (seq 0 (length flags)).
Proof. induction flags as [|t rest IH]; intros u st Hu; [reflexivity|].
  cbn [smapM length seq map]. unfold sbind at 1. rewrite gen_generate_with_stream_spec.
  destruct t.
  - cbn [draw_stream]. unfold sbind at 1.
    specialize (IH (S u) {| s_amb := s_amb st; s_arg := S (s_arg st); s_new := s_new st |}).
    destruct (smapM _ rest _) as [bs st'] eqn:E. cbn [fst] in IH. unfold sret. cbn [fst nth firstn]. rewrite IH by (cbn; lia).
    f_equal; [unfold count_true; cbn; rewrite Hu; do 2 f_equal; lia|].
    rewrite <- seq_shift, map_map. apply map_ext. intros j. cbn [nth firstn]. destruct (nth j rest false); [|reflexivity].
    unfold count_true. cbn [filter length]. do 2 f_equal. lia.
  - unfold sbind at 1. specialize (IH u st Hu). destruct (smapM _ rest st) as [bs st'] eqn:E. cbn [fst] in IH. unfold sret. cbn [fst nth]. rewrite IH.
    f_equal. rewrite <- seq_shift, map_map. apply map_ext. intros j. cbn [nth firstn]. destruct (nth j rest false); [|reflexivity].
    unfold count_true. cbn [filter length]. reflexivity. Qed.

(* the true object (index 0) and the testers, served in this order with the stream spawned for sample smp, draw exactly from the
   keys the dataflow model assigns: every mix of noise methods *)
Theorem gen_generate_with_stream_keys : forall c smp,
  fst (smapM (fun t => gen_generate_with_stream (f_seed_qop c, [smp], 0%nat) t (VStream SArg)) (f_true_seeded c :: f_tester_seeded c) st0)
  = map (qop_key c smp) (seq 0 (S (length (f_tester_seeded c)))).
Proof. intros c smp. rewrite (smapM_settings_keys (f_seed_qop c) smp _ 0 st0 eq_refl). cbn [length].
  apply map_ext_in. intros j Hj. apply in_seq in Hj. unfold qop_key.
  assert (Es : forall i, seeded_at c i = nth i (f_true_seeded c :: f_tester_seeded c) false) by (intros [|i]; reflexivity).
  rewrite Es. destruct (nth j (f_true_seeded c :: f_tester_seeded c) false); [|reflexivity].
  do 3 f_equal. rewrite (map_ext _ (fun i => nth i (f_true_seeded c :: f_tester_seeded c) false) Es).
  rewrite firstn_as_map by (cbn [length]; lia). reflexivity. Qed.

Print Assumptions gen_generate_with_stream_spec.
Print Assumptions gen_generate_with_stream_keys.

(* ==================================================================== the objects handed to the estimation tasks *)
Theorem gen_execute_estimation_private_copies : forall n t, (t < n)%nat ->
  nth_error (gen_execute_estimation_tasks n) t = Some {| t_estimator := OFresh; t_loss := OFresh; t_algo := OFresh |}.
Proof. intros n t Ht. unfold gen_execute_estimation_tasks.
  rewrite (nth_error_nth' _ gen_execute_estimation_task) by now rewrite repeat_length.
  f_equal. destruct (nth_in_or_default t (repeat gen_execute_estimation_task n) gen_execute_estimation_task) as [Hin|E].
  - apply repeat_spec in Hin. rewrite Hin. unfold gen_execute_estimation_task. reflexivity.
  - rewrite E. reflexivity. Qed.

Theorem gen_execute_estimation_loss_registers : forall n t, (t < n)%nat -> loss_register (gen_execute_estimation_tasks n) t = Some t.
Proof. intros n t Ht. unfold loss_register. now rewrite gen_execute_estimation_private_copies. Qed.

(* transported: for any number of repetitions and EVERY program-ordered interleaving of their load / optimise steps, each task of
   execute_estimation as translated optimises over its own data *)
Theorem gen_execute_estimation_race_free : forall n sched,
  (forall s, In s sched -> (step_task s < n)%nat) -> program_order [] sched = true ->
  all_own (run_objs (loss_register (gen_execute_estimation_tasks n)) (fun _ => None) sched).
Proof. intros n sched Hb Hp. apply (run_objs_private_race_free _ sched [] (fun _ => None)); [|exact Hp|intros t []].
  intros s Hs. apply gen_execute_estimation_loss_registers. now apply Hb. Qed.

Print Assumptions gen_execute_estimation_private_copies.
Print Assumptions gen_execute_estimation_loss_registers.
Print Assumptions gen_execute_estimation_race_free.
