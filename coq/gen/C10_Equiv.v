(* Re-checked on every run against the definitions REGENERATED (gen/c10_py2coq.py) from the current source of
     quara/minimization_algorithm/projected_gradient_descent.py : ProjectedGradientDescent.__init__ /
         set_constraint_from_standard_qt_and_option                         (gen_keeps_installed, gen_select, gen_configure)
     quara/objects/qoperation.py : QOperation.func_calc_proj_physical_with_var  (gen_closure)
     quara/protocol/qtomography/standard/projected_linear_estimator.py : ProjectedLinearEstimator.calc_estimate_sequence   (gen_ple_sequence)
     quara/minimization_algorithm/projected_gradient_descent_backtracking.py : _is_doing_for_alpha, optimize
                                                                            (gen_is_doing_for_alpha, gen_bt_body, gen_bt_locals, gen_bt_for, gen_bt_optimize)
     quara/minimization_algorithm/projected_gradient_descent_with_momentum.py : optimize   (gen_mom_body, gen_mom_for, gen_mom_optimize)
     quara/minimization_algorithm/projected_fast_iterative_shrinkage_thresholding_algorithm.py : optimize   (gen_fista_body, gen_fista_locals, gen_fista_for, gen_fista_optimize)
   The regenerated text agrees with the hand-written model (Model/C10_Estimators.v) the property theorems are stated about, for ALL
   inputs (every loss f, gradient g, projection P, oracles sq / mag, constant z0, dimension, option values, stopping mode and window,
   start point, iteration limit and line-search fuel); the theorems of Props/C10.v are transported to the loops as they are written in
   the source today: the step size is 2^-j in (0,1], the returned point is the start point advanced by k model steps (1 <= k <=
   max_iteration), hence feasible / an output of P.
   What breaks these proofs: another start value or factor of the line search (alpha = 2.0), another Armijo right-hand side, `>=`
   instead of `>`, an update that is not x + alpha*y / P(x + m') / P(extrapolation), another momentum or extrapolation coefficient, a
   missing shift or break, a projection factory called with other arguments, a closure that runs in another order, an early return on
   another condition.  A step size or loss value carried over between iterations is rejected by the translator (loop-carried state). *)
From Coq Require Import Arith List Bool ZArith Lia Ring Field.
From QV.Core Require Import OF Sums Mat.
From QV.Model Require Import C10_Estimators.
From QV.Proofs Require Import C10_Estimators.
From QVGen Require Import Gen_c10.
Import ListNotations.

(* ------------------------------------------------------------------ 1. the decision function *)
(* two descriptors are observationally equal: same kind, same installed function for every interpretation of the projections *)
Definition desc_eqv (d d' : C10_desc) : Prop :=
  d_kind d = d_kind d' /\
  forall (V : Type) (Pphys : C10_order -> bool -> Z -> V -> V) (Peq Pineq : bool -> V -> V),
    C10_apply Pphys Peq Pineq d = C10_apply Pphys Peq Pineq d'.
Definition odesc_eqv (a b : option C10_desc) : Prop :=
  match a, b with Some d, Some d' => desc_eqv d d' | None, None => True | _, _ => False end.
Definition algo_eqv (a a' : C10_algo) : Prop := odesc_eqv (a_given a) (a_given a') /\ odesc_eqv (a_derived a) (a_derived a').
Lemma desc_eqv_refl d : desc_eqv d d.
Proof. split; reflexivity. Qed.

Theorem gen_select_eq : forall t o, desc_eqv (gen_select t o) (C10_select None t o).
Proof. intros t o. unfold desc_eqv, gen_select, gen_closure, C10_select, C10_apply, C10_kind_of_flags.
  destruct (o_eq o), (o_ineq o); cbn; split; reflexivity. Qed.

Theorem gen_configure_eq : forall a a' c, algo_eqv a a' -> algo_eqv (gen_configure a c) (C10_configure a' c).
Proof. intros [ga da] [ga' da'] c [Hg Hd]. unfold gen_configure, gen_keeps_installed, C10_configure, algo_eqv in *. cbn in *.
  destruct ga as [d|], ga' as [d'|]; cbn in *; try contradiction.
  - split; assumption.
  - try (destruct da, da'; cbn in *; try contradiction). all: split; cbn; try exact I; try assumption; apply gen_select_eq. Qed.

(* any history of configurations: the regenerated object and the model stay observationally equal, hence (Props:
   C10_reused_algorithm_installs_projection_of_last_configuration) the installed projection is the one of the LAST configuration *)
Theorem gen_configure_seq_eq : forall cfgs a a', algo_eqv a a' ->
  algo_eqv (fold_left gen_configure cfgs a) (fold_left C10_configure cfgs a').
Proof. induction cfgs as [|c l IH]; intros a a' H; cbn [fold_left]; [exact H|]. apply IH, gen_configure_eq, H. Qed.

Theorem gen_installed_after_history : forall cfgs c,
  let a := fold_left gen_configure (cfgs ++ [c]) {| a_given := None; a_derived := None |} in
  odesc_eqv (C10_installed a) (Some (C10_select None (fst c) (snd c))).
Proof. intros cfgs c a.
  pose proof (gen_configure_seq_eq (cfgs ++ [c]) {| a_given := None; a_derived := None |} {| a_given := None; a_derived := None |}) as H.
  assert (H0 : algo_eqv {| a_given := None; a_derived := None |} {| a_given := None; a_derived := None |}) by (split; exact I).
  specialize (H H0). fold a in H. destruct H as [Hg Hd].
  pose proof (C10_configure_seq_last cfgs {| a_given := None; a_derived := None |} c eq_refl) as L.
  pose proof (C10_configure_seq_given (cfgs ++ [c]) {| a_given := None; a_derived := None |}) as G. cbn [a_given] in G.
  unfold C10_installed in *. rewrite G in L, Hg.
  destruct (a_given a); [contradiction|]. rewrite L in Hd. exact Hd. Qed.

(* ------------------------------------------------------------------ 1b. ProjectedLinearEstimator.calc_estimate_sequence *)
(* every linear estimate is projected in the ESTIMATOR's order (whatever order the linear estimate carries), nothing else happens to it *)
Theorem gen_ple_sequence_eq : forall (V W : Type) (proj : C10_order -> V -> option W) so lo lins,
  gen_ple_sequence proj so lo lins = map (proj so) lins.
Proof. intros. unfold gen_ple_sequence. apply map_ext. intros; reflexivity. Qed.

(* ... hence, with [proj] = to_var o calc_proj_physical o to_stacked and the linear estimate of the model, the estimate is C10_ple *)
Theorem gen_ple_is_model : forall (F : OF) n nv nd to_stacked to_var Peq Pineq eps order maxit M A b fd lo,
  gen_ple_sequence (fun o x => option_map to_var (C10_proj_physical F n Peq Pineq eps o maxit (to_stacked x))) order lo
    [C10_lin_est F nv nd M A b fd]
  = [C10_ple F n nv nd to_stacked to_var Peq Pineq eps order maxit M A b fd].
Proof. intros. rewrite gen_ple_sequence_eq. reflexivity. Qed.

(* ------------------------------------------------------------------ 2. the loops *)
Section C10_Equiv.
Context (F : OF).
Add Field Ffeq10 : (k_field F).
Notation vec := (@vec F).
Variables (sq : F -> F) (sqn : nat -> F) (mag : F -> Z) (z0 : F) (n : nat) (f : vec -> F) (g P : vec -> vec).

(* the current point after the shift statement *)
Definition cur (xp : vec) (xn : option vec) : vec := match xn with Some v => v | None => xp end.

(* ---- _is_doing_for_alpha = the model's failed Armijo test *)
Theorem gen_is_doing_for_alpha_eq : forall (x y : vec) (alpha gamma : F),
  gen_is_doing_for_alpha F n f g x y alpha gamma = C10_armijo_fails F n f g gamma x y alpha.
Proof. intros. unfold gen_is_doing_for_alpha, C10_armijo_fails, C10_ltb. cbv zeta.
  try reflexivity. all: (f_equal; try reflexivity). all: (f_equal; try reflexivity). all: try ring. Qed.

(* ---- the while loop = C10_alpha_search, for any condition / update extensionally equal to the test / halving *)
Lemma gen_while_alpha_search (x y : vec) (gamma : F) (c : F -> bool) (b : F -> F) :
  (forall a, c a = C10_armijo_fails F n f g gamma x y a) -> (forall a, b a = cmul F (C10_half F) a) ->
  forall fuel a, gen_while F fuel c b a = C10_alpha_search F n f g gamma fuel x y a.
Proof. intros Hc Hb. induction fuel as [|k IH]; intros a; [reflexivity|].
  cbn [gen_while C10_alpha_search]. rewrite Hc. destruct (C10_armijo_fails F n f g gamma x y a); [|reflexivity].
  rewrite Hb. apply IH. Qed.

(* ---- backtracking: direction and step size of one pass *)
Theorem gen_bt_locals_eq : forall mode h fuel mu gamma eps k xp xn errs,
  gen_bt_locals F n f g P mode h fuel mu gamma eps k xp xn errs
  = (C10_bt_dir F P g mu (cur xp xn), C10_bt_alpha F n P f g mu gamma fuel (cur xp xn)).
Proof. intros. unfold gen_bt_locals. cbv zeta.
  replace (match xn with Some _ => match xn with Some v_ => v_ | None => xp end | None => xp end) with (cur xp xn) by (destruct xn; reflexivity).
  set (x := cur xp xn).
  change (vsub (P (vsub x (C10_vdiv F (g x) mu))) x) with (C10_bt_dir F P g mu x).
  f_equal. unfold C10_bt_alpha.
  apply gen_while_alpha_search; intros; [apply gen_is_doing_for_alpha_eq|ring]. Qed.

(* transported C10_backtracking_alpha: the step size of the loop AS WRITTEN is 2^-j in (0,1] *)
Theorem gen_bt_alpha_range : forall mode h fuel mu gamma eps k xp xn errs,
  let a := snd (gen_bt_locals F n f g P mode h fuel mu gamma eps k xp xn errs) in
  kle F (c0 F) a /\ kle F a (c1 F) /\ a <> c0 F /\
  exists j, (j <= fuel)%nat /\ a = Nat.iter j (fun b => cmul F (C10_half F) b) (c1 F).
Proof. intros. subst a. rewrite gen_bt_locals_eq. cbn [snd]. apply C10_bt_alpha_full. Qed.

(* ---- backtracking: one pass advances the current point by the model step *)
Theorem gen_bt_body_step : forall mode h fuel mu gamma eps k xp xn errs,
  exists errs' b, gen_bt_body F sq n f g P mode h fuel mu gamma eps k xp xn errs
  = ((cur xp xn, Some (C10_bt_step F n P f g mu gamma fuel (cur xp xn)), errs'), b).
Proof. intros. unfold gen_bt_body. cbv zeta.
  replace (match xn with Some _ => match xn with Some v_ => v_ | None => xp end | None => xp end) with (cur xp xn) by (destruct xn; reflexivity).
  set (x := cur xp xn).
  change (vsub (P (vsub x (C10_vdiv F (g x) mu))) x) with (C10_bt_dir F P g mu x).
  rewrite (gen_while_alpha_search x (C10_bt_dir F P g mu x) gamma); [|intros; apply gen_is_doing_for_alpha_eq|intros; ring].
  do 2 eexists. reflexivity. Qed.

Definition bt_out (r : gen_bt_result F) : option (option vec * nat) :=
  match r with Gen_bt_Broke _ (_, xn, _) k | Gen_bt_Exhausted _ (_, xn, _) k => Some (xn, k) | Gen_bt_Unbound _ => None end.

Lemma gen_bt_for_steps mode h fuel mu gamma eps : forall rem k xp xn errs, (0 < rem)%nat ->
  exists k', bt_out (gen_bt_for F sq n f g P mode h fuel mu gamma eps rem k (xp, xn, errs))
             = Some (Some (C10_steps (fun _ => C10_bt_step F n P f g mu gamma fuel) (S (k' - k)) k (cur xp xn)), k')
             /\ (k <= k' < k + rem)%nat.
Proof. induction rem as [|r IH]; intros k xp xn errs Hr; [lia|].
  cbn [gen_bt_for]. destruct (gen_bt_body_step mode h fuel mu gamma eps k xp xn errs) as [e' [b ->]].
  destruct b; cbn [negb].
  - destruct r as [|r'].
    + exists k. cbn [bt_out]. rewrite Nat.sub_diag. split; [reflexivity|lia].
    + destruct (IH (S k) (cur xp xn) (Some (C10_bt_step F n P f g mu gamma fuel (cur xp xn))) e') as [k' [E Hk]]; [lia|].
      exists k'. rewrite E. split; [|lia]. cbn [cur]. replace (S (k' - k)) with (S (S (k' - S k))) by lia. reflexivity.
  - exists k. cbn [bt_out]. rewrite Nat.sub_diag. split; [reflexivity|lia]. Qed.

(* the result of optimize AS WRITTEN: the start point advanced by k model steps, 1 <= k <= max_iteration; nothing for max_iteration = 0 *)
Theorem gen_bt_optimize_steps : forall mode h fuel mu gamma eps max_iteration x0,
  match bt_out (gen_bt_optimize F sq n f g P mode h fuel mu gamma eps max_iteration x0) with
  | Some (xn, k) => (1 <= k <= max_iteration)%nat /\ xn = Some (C10_steps (fun _ => C10_bt_step F n P f g mu gamma fuel) k 1 x0)
  | None => max_iteration = 0%nat
  end.
Proof. intros. unfold gen_bt_optimize. destruct max_iteration as [|m]; [reflexivity|].
  destruct (gen_bt_for_steps mode h fuel mu gamma eps (S m) 1 x0 None [] ltac:(lia)) as [k' [E Hk]].
  rewrite E. cbn [cur]. split; [lia|]. replace (S (k' - 1)) with k' by lia. reflexivity. Qed.

(* transported C10_backtracking_iterates_feasible: convex C, P into C, start in C  =>  the point returned by the loop AS WRITTEN is in C *)
Theorem gen_bt_optimize_feasible : forall (C : vec -> Prop), C10_convex F C -> C10_ext F n C -> C10_into F P C ->
  forall mode h fuel mu gamma eps max_iteration x0 xn k, C x0 ->
  bt_out (gen_bt_optimize F sq n f g P mode h fuel mu gamma eps max_iteration x0) = Some (Some xn, k) -> C xn.
Proof. intros C Hc He Hi mode h fuel mu gamma eps mx x0 xn k H0 E.
  pose proof (gen_bt_optimize_steps mode h fuel mu gamma eps mx x0) as S. rewrite E in S. destruct S as [_ Ex]. injection Ex as ->.
  apply (C10_steps_inv vec (fun _ => C10_bt_step F n P f g mu gamma fuel) C); [|exact H0].
  intros _ s Hs. now apply (C10_bt_step_feasible F n P f g mu gamma fuel C Hc He Hi). Qed.

(* ---- momentum *)
Definition mom_rel (st : gen_mom_state F) (s : C10_mstate F) : Prop :=
  let '(xp, mp, z, mg, xn, mn, _) := st in
  cur xp xn = ms_x F s /\ match xn with Some _ => match mn with Some v => v | None => mp end | None => mp end = ms_m F s /\
  z = ms_zeta F s /\ mg = ms_mag F s.

Theorem gen_mom_body_step : forall mode h fuel gamma eps k xp mp z mg xn mn errs s,
  mom_rel (xp, mp, z, mg, xn, mn, errs) s ->
  exists st' b, gen_mom_body F sq mag z0 n f g P mode h fuel gamma eps k xp mp z mg xn mn errs = (st', b) /\
    mom_rel st' (C10_mom_step F P f g gamma z0 mag s) /\
    (let '(_, _, _, _, xn', _, _) := st' in xn' = Some (ms_x F (C10_mom_step F P f g gamma z0 mag s))).
Proof. intros mode h fuel gamma eps k xp mp z mg xn mn errs s [Hx [Hm [Hz Hg]]]. unfold gen_mom_body. cbv zeta.
  replace (match xn with Some _ => match xn with Some v_ => v_ | None => xp end | None => xp end) with (cur xp xn) by (destruct xn; reflexivity).
  rewrite Hx, Hm. subst z mg. unfold C10_mom_step. cbn [ms_x ms_m ms_zeta ms_mag].
  destruct (Z.ltb (mag (f (ms_x F s))) (ms_mag F s)); do 2 eexists; (split; [reflexivity|]);
    unfold mom_rel; cbn [cur ms_x ms_m ms_zeta ms_mag]; repeat split; reflexivity. Qed.

Definition mom_out (r : gen_mom_result F) : option (option vec * nat) :=
  match r with Gen_mom_Broke _ (_, _, _, _, xn, _, _) k | Gen_mom_Exhausted _ (_, _, _, _, xn, _, _) k => Some (xn, k) | Gen_mom_Unbound _ => None end.

Lemma gen_mom_for_steps mode h fuel gamma eps : forall rem k st s, (0 < rem)%nat -> mom_rel st s ->
  exists k', mom_out (gen_mom_for F sq mag z0 n f g P mode h fuel gamma eps rem k st)
             = Some (Some (ms_x F (C10_steps (fun _ => C10_mom_step F P f g gamma z0 mag) (S (k' - k)) k s)), k')
             /\ (k <= k' < k + rem)%nat.
Proof. induction rem as [|r IH]; intros k st s Hr R; [lia|].
  destruct st as [[[[[[xp mp] z] mg] xn] mn] errs]. cbn [gen_mom_for].
  destruct (gen_mom_body_step mode h fuel gamma eps k xp mp z mg xn mn errs s R) as [st' [b [-> [R' Hxn]]]].
  destruct st' as [[[[[[xp' mp'] z'] mg'] xn'] mn'] errs']. subst xn'.
  destruct b; cbn [negb].
  - destruct r as [|r'].
    + exists k. cbn [mom_out]. rewrite Nat.sub_diag. split; [reflexivity|lia].
    + destruct (IH (S k) _ _ ltac:(lia) R') as [k' [E Hk]].
      exists k'. rewrite E. split; [|lia]. replace (S (k' - k)) with (S (S (k' - S k))) by lia. reflexivity.
  - exists k. cbn [mom_out]. rewrite Nat.sub_diag. split; [reflexivity|lia]. Qed.

Theorem gen_mom_optimize_steps : forall mode h fuel gamma eps max_iteration x0 m0,
  match mom_out (gen_mom_optimize F sq mag z0 n f g P mode h fuel gamma eps max_iteration x0 m0) with
  | Some (xn, k) => (1 <= k <= max_iteration)%nat /\
        xn = Some (ms_x F (C10_steps (fun _ => C10_mom_step F P f g gamma z0 mag) k 1 (C10_mom_init F f z0 mag x0 m0)))
  | None => max_iteration = 0%nat
  end.
Proof. intros. unfold gen_mom_optimize. destruct max_iteration as [|m]; [reflexivity|].
  assert (R : mom_rel (x0, m0, z0, mag (f x0), None, None, []) (C10_mom_init F f z0 mag x0 m0)) by (repeat split; reflexivity).
  destruct (gen_mom_for_steps mode h fuel gamma eps (S m) 1 _ _ ltac:(lia) R) as [k' [E Hk]].
  rewrite E. split; [lia|]. replace (S (k' - 1)) with k' by lia. reflexivity. Qed.

(* transported C10_momentum_iterates_in_range_of_P: the point returned by the loop AS WRITTEN is an OUTPUT of P *)
Theorem gen_mom_optimize_in_range : forall mode h fuel gamma eps max_iteration x0 m0 xn k,
  mom_out (gen_mom_optimize F sq mag z0 n f g P mode h fuel gamma eps max_iteration x0 m0) = Some (Some xn, k) -> C10_in_range F P xn.
Proof. intros mode h fuel gamma eps mx x0 m0 xn k E.
  pose proof (gen_mom_optimize_steps mode h fuel gamma eps mx x0 m0) as S. rewrite E in S. destruct S as [Hk Ex]. injection Ex as ->.
  destruct k as [|j]; [lia|]. rewrite C10_steps_last. apply C10_mom_step_range. Qed.

(* ---- FISTA *)
Definition fista_pair (st : gen_fista_state F) : vec * vec :=
  let '(xpp, xp, xn, _) := st in (match xn with Some _ => xp | None => xpp end, cur xp xn).

Theorem gen_fista_body_step : forall mode h fuel delta eps k xpp xp xn errs,
  exists st' b, gen_fista_body F sq n f g P mode h fuel delta eps k xpp xp xn errs = (st', b) /\
    fista_pair st' = C10_fista_step F P g delta k (fista_pair (xpp, xp, xn, errs)) /\
    (let '(_, _, xn', _) := st' in xn' = Some (snd (C10_fista_step F P g delta k (fista_pair (xpp, xp, xn, errs))))).
Proof. intros. unfold gen_fista_body. cbv zeta.
  replace (match xn with Some _ => match xn with Some v_ => v_ | None => xp end | None => xp end) with (cur xp xn) by (destruct xn; reflexivity).
  set (a := match xn with Some _ => xp | None => xpp end). set (b := cur xp xn).
  change (vsub (vadd b (vscale (kdiv F (csub F (C10_ofnat F k) (C10_two F)) (cadd F (C10_ofnat F k) (c1 F))) (vsub b a))) (vscale delta (g b)))
    with (C10_fista_arg F g delta k a b).
  do 2 eexists. split; [reflexivity|]. unfold fista_pair, C10_fista_step. fold a b. cbn [cur snd]. split; reflexivity. Qed.

Definition fista_out (r : gen_fista_result F) : option (option vec * nat) :=
  match r with Gen_fista_Broke _ (_, _, xn, _) k | Gen_fista_Exhausted _ (_, _, xn, _) k => Some (xn, k) | Gen_fista_Unbound _ => None end.

Lemma gen_fista_for_steps mode h fuel delta eps : forall rem k st, (0 < rem)%nat ->
  exists k', fista_out (gen_fista_for F sq n f g P mode h fuel delta eps rem k st)
             = Some (Some (snd (C10_steps (C10_fista_step F P g delta) (S (k' - k)) k (fista_pair st))), k')
             /\ (k <= k' < k + rem)%nat.
Proof. induction rem as [|r IH]; intros k st Hr; [lia|].
  destruct st as [[[xpp xp] xn] errs]. cbn [gen_fista_for].
  destruct (gen_fista_body_step mode h fuel delta eps k xpp xp xn errs) as [st' [b [-> [R' Hxn]]]].
  destruct st' as [[[xpp' xp'] xn'] errs']. subst xn'.
  destruct b; cbn [negb].
  - destruct r as [|r'].
    + exists k. cbn [fista_out]. rewrite Nat.sub_diag. split; [reflexivity|lia].
    + destruct (IH (S k) (xpp', xp', Some (snd (C10_fista_step F P g delta k (fista_pair (xpp, xp, xn, errs)))), errs') ltac:(lia)) as [k' [E Hk]].
      exists k'. rewrite E. split; [|lia]. rewrite R'. replace (S (k' - k)) with (S (S (k' - S k))) by lia. reflexivity.
  - exists k. cbn [fista_out]. rewrite Nat.sub_diag. split; [reflexivity|lia]. Qed.

Theorem gen_fista_optimize_steps : forall mode h fuel delta eps max_iteration x0,
  match fista_out (gen_fista_optimize F sq n f g P mode h fuel delta eps max_iteration x0) with
  | Some (xn, k) => (1 <= k <= max_iteration)%nat /\ xn = Some (snd (C10_steps (C10_fista_step F P g delta) k 1 (x0, x0)))
  | None => max_iteration = 0%nat
  end.
Proof. intros. unfold gen_fista_optimize. destruct max_iteration as [|m]; [reflexivity|].
  destruct (gen_fista_for_steps mode h fuel delta eps (S m) 1 (x0, x0, None, []) ltac:(lia)) as [k' [E Hk]].
  rewrite E. split; [lia|]. replace (S (k' - 1)) with k' by lia. reflexivity. Qed.

(* transported C10_fista_iterates_in_range_of_P *)
Theorem gen_fista_optimize_in_range : forall mode h fuel delta eps max_iteration x0 xn k,
  fista_out (gen_fista_optimize F sq n f g P mode h fuel delta eps max_iteration x0) = Some (Some xn, k) -> C10_in_range F P xn.
Proof. intros mode h fuel delta eps mx x0 xn k E.
  pose proof (gen_fista_optimize_steps mode h fuel delta eps mx x0) as S. rewrite E in S. destruct S as [Hk Ex]. injection Ex as ->.
  destruct k as [|j]; [lia|]. rewrite C10_steps_last. apply C10_fista_step_range. Qed.
(* ---- the code BEFORE the loops: start point and step parameter as functions of the options (None = raises), for every combination of
   given / missing option value, start point and tomography *)
(* the validation raises before the loops: all three optimize methods run iff the loss provides values AND gradients *)
Theorem gen_precondition_eq : forall v gr,
  gen_bt_precondition v gr = C10_precondition v gr /\ gen_mom_precondition v gr = C10_precondition v gr /\
  gen_fista_precondition v gr = C10_precondition v gr.
Proof. intros [] []; repeat split; reflexivity. Qed.
Theorem gen_start_eq : forall vs origin,
  gen_bt_start F vs origin = C10_start F vs origin /\ gen_mom_start F vs origin = C10_start F vs origin /\
  gen_fista_start F vs origin = C10_start F vs origin.
Proof. intros [v|] origin; repeat split; reflexivity. Qed.
Theorem gen_bt_mu_eq : forall mu vs qt, gen_bt_mu F sqn mu vs qt = C10_bt_mu F sqn mu vs qt.
Proof. intros mu [l|] [m|]; unfold gen_bt_mu, C10_bt_mu; destruct (C10_truthy F mu); reflexivity. Qed.
Theorem gen_mom_gamma_eq : forall r vs qt, gen_mom_gamma F sqn r vs qt = C10_mom_gamma F sqn r vs qt.
Proof. intros r [l|] [m|]; unfold gen_mom_gamma, C10_mom_gamma; destruct (C10_truthy F r); reflexivity. Qed.
Theorem gen_fista_delta_eq : forall d vs qt, gen_fista_delta F sqn d vs qt = C10_fista_delta F sqn d vs qt.
Proof. intros [v|] [l|] [m|]; unfold gen_fista_delta, C10_fista_delta, C10_truthy, C10_getF; try destruct (negb (keqb F v (c0 F))); reflexivity. Qed.
(* with a tomography set and default options the documented defaults are used *)
Theorem gen_defaults_with_tomography : forall m r, C10_truthy F (Some r) = true ->
  gen_bt_mu F sqn None None (Some m) = Some (kdiv F (C10_three F) (cmul F (C10_two F) (sqn m))) /\
  gen_mom_gamma F sqn (Some r) None (Some m) = Some (kdiv F (c1 F) (cmul F (cmul F (C10_two F) r) (sqn m))) /\
  gen_fista_delta F sqn None None (Some m) = Some (kdiv F (c1 F) (cmul F (C10_ten F) (sqn m))).
Proof. intros m r Hr. unfold gen_bt_mu, gen_mom_gamma, gen_fista_delta. rewrite Hr. repeat split; reflexivity. Qed.

(* ---- the stopping rule of the three loops AS WRITTEN = C10_err_value / C10_continue (value > eps continues; window = last h error values) *)
Lemma firstn_min_length {A} (l : list A) h : firstn (Nat.min (List.length l) h) l = firstn h l.
Proof. destruct (Nat.le_ge_cases (List.length l) h) as [H|H].
  - rewrite (Nat.min_l _ _ H), firstn_all. symmetry. now apply firstn_all2.
  - now rewrite (Nat.min_r _ _ H). Qed.
Lemma if_bool_id (b : bool) : (if b then true else false) = b.
Proof. destruct b; reflexivity. Qed.

Theorem gen_bt_body_stop : forall mode h fuel mu gamma eps k xp xn errs,
  let x := cur xp xn in let x' := C10_bt_step F n P f g mu gamma fuel x in
  let errs' := C10_err_value F sq n f mode x x' (C10_bt_dir F P g mu x) :: errs in
  gen_bt_body F sq n f g P mode h fuel mu gamma eps k xp xn errs = ((x, Some x', errs'), C10_continue F h eps errs').
Proof. intros. unfold gen_bt_body. cbv zeta.
  replace (match xn with Some _ => match xn with Some v_ => v_ | None => xp end | None => xp end) with (cur xp xn) by (destruct xn; reflexivity).
  fold x. change (vsub (P (vsub x (C10_vdiv F (g x) mu))) x) with (C10_bt_dir F P g mu x).
  rewrite (gen_while_alpha_search x (C10_bt_dir F P g mu x) gamma); [|intros; apply gen_is_doing_for_alpha_eq|intros; ring].
  rewrite firstn_min_length, if_bool_id. unfold C10_continue, C10_err_value, errs', x'. destruct mode; reflexivity. Qed.

Theorem gen_mom_body_stop : forall mode h fuel gamma eps k xp mp z mg xn mn errs s,
  mom_rel (xp, mp, z, mg, xn, mn, errs) s ->
  let s' := C10_mom_step F P f g gamma z0 mag s in
  let errs' := C10_err_value F sq n f mode (ms_x F s) (ms_x F s') (ms_x F s') :: errs in
  snd (gen_mom_body F sq mag z0 n f g P mode h fuel gamma eps k xp mp z mg xn mn errs) = C10_continue F h eps errs'.
Proof. intros mode h fuel gamma eps k xp mp z mg xn mn errs s [Hx [Hm [Hz Hg]]] s' errs'. unfold gen_mom_body. cbv zeta.
  replace (match xn with Some _ => match xn with Some v_ => v_ | None => xp end | None => xp end) with (cur xp xn) by (destruct xn; reflexivity).
  rewrite Hx, Hm. subst z mg. unfold errs', s', C10_mom_step, C10_continue, C10_err_value. cbn [ms_x ms_m ms_zeta ms_mag].
  destruct (Z.ltb (mag (f (ms_x F s))) (ms_mag F s)); cbn [snd]; rewrite firstn_min_length, if_bool_id; destruct mode; reflexivity. Qed.

Theorem gen_fista_body_stop : forall mode h fuel delta eps k xpp xp xn errs,
  let pr := fista_pair (xpp, xp, xn, errs) in let x' := snd (C10_fista_step F P g delta k pr) in
  let errs' := C10_err_value F sq n f mode (snd pr) x' x' :: errs in
  snd (gen_fista_body F sq n f g P mode h fuel delta eps k xpp xp xn errs) = C10_continue F h eps errs'.
Proof. intros. unfold gen_fista_body. cbv zeta.
  replace (match xn with Some _ => match xn with Some v_ => v_ | None => xp end | None => xp end) with (cur xp xn) by (destruct xn; reflexivity).
  set (a := match xn with Some _ => xp | None => xpp end). set (b := cur xp xn).
  change (vsub (vadd b (vscale (kdiv F (csub F (C10_ofnat F k) (C10_two F)) (cadd F (C10_ofnat F k) (c1 F))) (vsub b a))) (vscale delta (g b)))
    with (C10_fista_arg F g delta k a b).
  cbn [snd]. rewrite firstn_min_length, if_bool_id. unfold errs', x', pr, fista_pair, C10_fista_step, C10_continue, C10_err_value. fold a b. cbn [snd].
  destruct mode; reflexivity. Qed.

(* when a loop leaves through `break`, the window sum of the error values is <= eps: the accuracy the stopping threshold promises *)
Theorem C10_break_means_threshold_reached : forall h eps (errs : list F),
  C10_continue F h eps errs = false <-> kle F (C10_lsum F (firstn h errs)) eps.
Proof. intros. unfold C10_continue. rewrite negb_false_iff. apply (k_leb F). Qed.
End C10_Equiv.

Print Assumptions gen_select_eq.
Print Assumptions gen_configure_eq.
Print Assumptions gen_configure_seq_eq.
Print Assumptions gen_installed_after_history.
Print Assumptions gen_ple_sequence_eq.
Print Assumptions gen_ple_is_model.
Print Assumptions gen_is_doing_for_alpha_eq.
Print Assumptions gen_bt_locals_eq.
Print Assumptions gen_bt_alpha_range.
Print Assumptions gen_bt_body_step.
Print Assumptions gen_bt_optimize_steps.
Print Assumptions gen_bt_optimize_feasible.
Print Assumptions gen_mom_body_step.
Print Assumptions gen_mom_optimize_steps.
Print Assumptions gen_mom_optimize_in_range.
Print Assumptions gen_fista_body_step.
Print Assumptions gen_fista_optimize_steps.
Print Assumptions gen_fista_optimize_in_range.
Print Assumptions gen_precondition_eq.
Print Assumptions gen_start_eq.
Print Assumptions gen_bt_mu_eq.
Print Assumptions gen_mom_gamma_eq.
Print Assumptions gen_fista_delta_eq.
Print Assumptions gen_defaults_with_tomography.
Print Assumptions gen_bt_body_stop.
Print Assumptions gen_mom_body_stop.
Print Assumptions gen_fista_body_stop.
Print Assumptions C10_break_means_threshold_reached.
