(* C17 — proofs about the name -> Hamiltonian code REGENERATED from /repo's quara/objects/gate_typical.py by gen/c17_py2coq.py
   (QVGen.Gen_c17_names, rebuilt and re-checked on every run).  Axiom-free.
   The catalogue of Model/C17_Names.v PRINTS every 2-qutrit gate name from its terms (b0, b1, k); the regenerated parser must read every
   one of the 39 204 names back into exactly those terms - each term with ITS OWN angle coefficient k * pi / 4 and its own two base
   matrices - and the literal base matrices of the regenerated zero-argument functions must be the tables base3. *)
From Coq Require Import String Ascii List ZArith QArith Qcanon Bool Arith Lia.
From QV.Core Require Import OF Sums Mat C17_Z8.
From QV.Model Require Import C17_Tables C17_Names C17_PySem C17_Permute C17_Ham3q.
From QV.Proofs Require Import C17_Tables C17_Names.
From QVGen Require Import Gen_c17_names.
Import ListNotations.
Open Scope string_scope.

Definition gen_ham2 (name : string) : pres pyv := g_calc_hamiltonian_mat_from_gate_name_2qutrit_base_matrices (VStr name).
Definition gen_ham1 (name : string) : pres pyv := g_generate_gate_1qutrit_single_gellmann_hamiltonian_mat (VStr name).

(* the ten literal base matrices returned by calc_base_matrix_1qutrit_identity / _<axis>_<levels> are the tables base3 0 .. 9 *)
Theorem C17gen_base_matrices_are_tables : lits_are_tables g_method_table.
Proof. apply lits_are_tablesb_spec. vm_compute. reflexivity. Qed.
Print Assumptions C17gen_base_matrices_are_tables.

(* every one-term 2-qutrit gate name (198) and the cross-shaped part of the two-term names (1564, see Model/C17_Names.v; ALL 39 006 in
   coq/gen/C17_EquivAll.v, thorough tier) is parsed into the formal Hamiltonian  sum_k (k_k pi / 4) * B(b0_k) (x) B(b1_k)  of ITS OWN terms, in order *)
Theorem C17gen_2qutrit_names_parse_quick :
  forall name terms, In (name, terms) cat_gates_2qutrit_quick -> gen_ham2 name = POk (VMat 9 (map expected_term terms)).
Proof. intros name terms H.
  assert (A : forallb (fun e : string * list (nat * nat * nat) => is_mat (gen_ham2 (fst e)) 9 (map expected_term (snd e))) cat_gates_2qutrit_quick = true)
    by (vm_cast_no_check (@eq_refl bool true)).
  rewrite forallb_forall in A. specialize (A _ H). now apply is_mat_spec. Qed.
Print Assumptions C17gen_2qutrit_names_parse_quick.

(* ... hence the Hamiltonian quara computes for the name denotes (pi/4) x the table ham2t of the name's terms *)
Theorem C17gen_2qutrit_names_denote_tables_quick :
  forall name terms, In (name, terms) cat_gates_2qutrit_quick ->
    exists fm, gen_ham2 name = POk (VMat 9 fm) /\ meq 9 9 (denote4 g_method_table fm) (ham2t terms).
Proof. intros name terms H. exists (map expected_term terms). split; [now apply C17gen_2qutrit_names_parse_quick|].
  apply denote4_expected; [exact C17gen_base_matrices_are_tables|]. apply (cat_2qutrit_terms_good name). now apply cat_quick_incl. Qed.
Print Assumptions C17gen_2qutrit_names_denote_tables_quick.

(* the 18 one-qutrit gate names: (k pi / 4) * B(1 + index mod 9), k = 1 for the first nine (angle 90), 2 for the others *)
Theorem C17gen_1qutrit_names_parse :
  forall k, (k < 18)%nat -> gen_ham1 (gate1t_name k) = POk (VMat 3 [(qpi (if (k <? 9)%nat then 1 else 2) 4, [base_method (S (k mod 9))])]).
Proof. intros k Hk.
  assert (A : forallb (fun k => is_mat (gen_ham1 (gate1t_name k)) 3 [(qpi (if (k <? 9)%nat then 1 else 2) 4, [base_method (S (k mod 9))])]) (seq 0 18) = true)
    by (vm_compute; reflexivity).
  rewrite forallb_forall in A. apply is_mat_spec. apply A. apply in_seq. lia. Qed.
Print Assumptions C17gen_1qutrit_names_parse.

(* angle strings: 90 -> pi/4, 180 -> pi/2 (coefficient = angle / 2), m90 / m180 negative, anything else ValueError *)
Definition is_num (r : pres pyv) (x : pnum) : bool := match r with POk (VNum y) => neqb y x | _ => false end.
Definition is_error (r : pres pyv) (e : string) : bool := match r with PErr e' => String.eqb e e' | _ => false end.

(* malformed spellings are errors of the parser itself: wrong number of axis letters, empty term, unknown angle, unknown levels *)

(* ================= id bookkeeping of the multi-qubit gates, REGENERATED from get_permutation_matrix_from_ascending_order,
   permute_pauli_symbol, convert_*, is_no_duplication_list: on a bounded domain the translated code IS the hand-written model of
   Model/C17_Permute.v, for which Props/C17.v proves the specification for ALL lengths and id lists (C17_permute_fixed_spec). *)
Fixpoint nat_nodupb (l : list nat) : bool := match l with [] => true | x :: r => negb (existsb (Nat.eqb x) r) && nat_nodupb r end.
(* all lists of n pairwise different ids below vals *)
Definition ids_lists (vals n : nat) : list (list nat) := filter nat_nodupb (nprod (seq 0 vals) n).
Definition vints (l : list nat) : pyv := VList (map (fun x => VInt (Z.of_nat x)) l).
Definition letter (k : nat) : string := match k with 0%nat => "i" | 1%nat => "x" | 2%nat => "y" | _ => "z" end.
Definition symbol_of (l : list nat) : string := String.concat "" (map letter l).
Definition is_imat (r : pres pyv) (rows : list (list Z)) : bool :=
  match r with
  | POk (VIMat m) => Nat.eqb (List.length m) (List.length rows) &&
                     forallb (fun p => Nat.eqb (List.length (fst p)) (List.length (snd p)) && forallb (fun q => Z.eqb (fst q) (snd q)) (combine (fst p) (snd p))) (combine m rows)
  | _ => false end.
Definition is_str (r : pres pyv) (s : string) : bool := match r with POk (VStr t) => String.eqb s t | _ => false end.
Definition matP_rows (ids : list nat) : list (list Z) :=
  let n := List.length ids in map (fun i => map (fun j => if matP ids i j then 1%Z else 0%Z) (seq 0 n)) (seq 0 n).
(* the domain: 1 - 3 pairwise different ids below 5 (85 lists), every Pauli symbol of that length *)
Definition perm_domain : list (list nat) := (ids_lists 5 1 ++ ids_lists 5 2 ++ ids_lists 5 3)%list.



Theorem C17gen_permutation_code_bounded :
  forall ids, In ids perm_domain ->
    is_imat (g_get_permutation_matrix_from_ascending_order (vints ids)) (matP_rows ids) = true /\
    forall v, In v (nprod [0; 1; 2; 3]%nat (List.length ids)) ->
      is_str (g_permute_pauli_symbol (VStr (symbol_of v)) (vints ids)) (symbol_of (permute_fixed ids v)) = true.
Proof. intros ids Hi.
  assert (A : forallb (fun ids => is_imat (g_get_permutation_matrix_from_ascending_order (vints ids)) (matP_rows ids) &&
                                  forallb (fun v => is_str (g_permute_pauli_symbol (VStr (symbol_of v)) (vints ids)) (symbol_of (permute_fixed ids v)))
                                         (nprod [0; 1; 2; 3]%nat (List.length ids))) perm_domain = true) by (vm_cast_no_check (@eq_refl bool true)).
  rewrite forallb_forall in A. specialize (A ids Hi). rewrite andb_true_iff, forallb_forall in A. split; [apply A|apply A]. Qed.
Print Assumptions C17gen_permutation_code_bounded.

(* error branches of the translated code: angle strings (90 -> pi/4, 180 -> pi/2, m90 / m180 negative, anything else ValueError), malformed
   2-qutrit spellings, ids with a repetition / symbols of another length or with an unknown letter *)
Theorem C17gen_error_branches :
  (is_num (g_calc_coeff_from_angle_str (VStr "90")) (qpi 1 4) = true /\ is_num (g_calc_coeff_from_angle_str (VStr "180")) (qpi 1 2) = true /\
  is_num (g_calc_coeff_from_angle_str (VStr "m90")) (qpi (-1) 4) = true /\ is_num (g_calc_coeff_from_angle_str (VStr "m180")) (qpi (-1) 2) = true /\
  is_error (g_calc_coeff_from_angle_str (VStr "45")) "ValueError" = true /\ is_error (g_calc_coeff_from_angle_str (VStr "")) "ValueError" = true) /\
  (forallb (fun n => is_err (gen_ham2 n)) ["01x90"; ""; "01xi90_"; "_01xi90"; "01xi45"; "03xi90"; "01x01x01x90"; "i90"; "01xi"; "01wi90"] = true) /\
  (forallb (fun ids => is_err (g_permute_pauli_symbol (VStr (symbol_of (map (fun _ => 1%nat) ids))) (vints ids)))
          (filter (fun l => negb (nat_nodupb l)) (nprod [0; 1; 2]%nat 2 ++ nprod [0; 1; 2]%nat 3)%list) = true /\
  is_err (g_permute_pauli_symbol (VStr "ix") (vints [0; 1; 2]%nat)) = true /\ is_err (g_permute_pauli_symbol (VStr "iwx") (vints [0; 1; 2]%nat)) = true).
Proof. repeat split; vm_compute; reflexivity. Qed.
Print Assumptions C17gen_error_branches.

(* the Hamiltonians of toffoli and fredkin, for every one of the 60 lists of three pairwise different ids below 5 (contiguous or not):
   the translated code yields exactly  sum_t sign_t (pi/8) * Pauli3[index of the role string t re-ordered by the ids]  (Model/C17_Ham3q.v),
   which is -pi times a projector whose reflection is the table gate (Proofs/C17_Ham3q.toffoli_fredkin_hamiltonians_are_projectors) *)
Theorem C17gen_toffoli_fredkin_hamiltonians :
  forall ids, In ids (ids_lists 5 3) ->
    is_mat (g_generate_gate_toffoli_hamiltonian_mat (vints ids)) 8 (expected_ham3q 0 ids) = true /\
    is_mat (g_generate_gate_fredkin_hamiltonian_mat (vints ids)) 8 (expected_ham3q 1 ids) = true.
Proof. intros ids Hi.
  assert (A : forallb (fun ids => is_mat (g_generate_gate_toffoli_hamiltonian_mat (vints ids)) 8 (expected_ham3q 0 ids) &&
                                  is_mat (g_generate_gate_fredkin_hamiltonian_mat (vints ids)) 8 (expected_ham3q 1 ids)) (ids_lists 5 3) = true)
    by (vm_cast_no_check (@eq_refl bool true)).
  rewrite forallb_forall in A. specialize (A ids Hi). now apply andb_true_iff in A. Qed.
Print Assumptions C17gen_toffoli_fredkin_hamiltonians.

(* ================= the catalogue LIST functions and the state-name validator, REGENERATED from state_typical.py, povm_typical.py,
   gate_typical.py, mprocess_typical.py, state_ensemble_typical.py: the lists quara returns ARE the named catalogues of Model/C17_Names.v
   (same names, same order), and is_valid_state_name - the gate keeper of every state generator - accepts EXACTLY the listed names,
   for every string. *)
Lemma gen_state_lists :
  g_get_state_names_1qubit = POk (VList (map VStr (state_names 0))) /\ g_get_state_names_2qubit = POk (VList (map VStr (state_names 1))) /\
  g_get_state_names_3qubit = POk (VList (map VStr (state_names 2))) /\ g_get_state_names_1qutrit = POk (VList (map VStr (state_names 3))) /\
  g_get_state_names_2qutrit = POk (VList (map VStr (state_names 4))).
Proof. repeat split; vm_compute; reflexivity. Qed.

Theorem C17gen_catalogue_lists :
  (is_strlist g_get_state_names_1qubit (state_names 0) && is_strlist g_get_state_names_2qubit (state_names 1) && is_strlist g_get_state_names_3qubit (state_names 2) &&
  is_strlist g_get_state_names_1qutrit (state_names 3) && is_strlist g_get_state_names_2qutrit (state_names 4) && is_strlist g_get_state_names all_state_names = true) /\
  (is_strlist g_get_povm_names_1qubit (povm_names 0) && is_strlist g_get_povm_names_2qubit (povm_names 1) && is_strlist g_get_povm_names_3qubit (povm_names 2) &&
  is_strlist g_get_povm_names_1qutrit (povm_names 3) && is_strlist g_get_povm_names_2qutrit (povm_names 4) &&
  is_strlist g_get_povm_names (flat_map povm_names (seq 0 5)) &&
  (* the two auxiliary validity lists together are exactly the 14 single names, rank-1 ones as in the tables *)
  match g_get_povm_names_rank1, g_get_povm_names_not_rank1 with
  | POk (VList r1), POk (VList r2) =>
      forallb (fun k => Bool.eqb (povm1_rank1 k) (existsb (py_eqb (VStr (povm1_name k))) r1) && Bool.eqb (negb (povm1_rank1 k)) (existsb (py_eqb (VStr (povm1_name k))) r2)) (seq 0 14)
      && Nat.eqb (List.length r1 + List.length r2) 14
  | _, _ => false end = true) /\
  (is_strlist g_get_gate_names_1qubit (gate_names 0) && is_strlist g_get_gate_names_2qubit (gate_names 1) && is_strlist g_get_gate_names_3qubit (gate_names 2) &&
  is_strlist g_get_gate_names_1qutrit (gate_names 3) && is_strlist g_get_gate_names_2qutrit_single_base_matrix (map fst cat_gates_2qutrit_single) &&
  is_strlist g_get_gate_names_2qubit_asymmetric ["cx"; "zx90"] && is_strlist g_get_gate_names_3qubit_asymmetric ["toffoli"; "fredkin"] &&
  match g_get_mprocess_names_type1, g_get_mprocess_names_type2 with
  | POk (VList a), POk (VList b) => is_strlist (POk (VList (a ++ b)%list)) (map fst cat_mprocs) | _, _ => false end &&
  is_strlist g_get_state_ensemble_names cat_ensembles = true).
Proof. repeat split; vm_compute; reflexivity. Qed.
Print Assumptions C17gen_catalogue_lists.

Theorem C17gen_state_validator_closed :
  forall n : string, g_is_valid_state_name (VStr n) = POk (VBool (existsb (String.eqb n) all_state_names)).
Proof. intros n. destruct gen_state_lists as [L0 [L1 [L2 [L3 L4]]]].
  change all_state_names with (state_names 0 ++ state_names 1 ++ state_names 2 ++ state_names 3 ++ state_names 4 ++ [])%list.
  rewrite !existsb_app. unfold g_is_valid_state_name.
  rewrite L0. cbn [pbind]. rewrite py_in_strs. cbn [pbind py_truth]. destruct (existsb (String.eqb n) (state_names 0)); [reflexivity|].
  rewrite L1. cbn [pbind]. rewrite py_in_strs. cbn [pbind py_truth]. destruct (existsb (String.eqb n) (state_names 1)); [reflexivity|].
  rewrite L2. cbn [pbind]. rewrite py_in_strs. cbn [pbind py_truth]. destruct (existsb (String.eqb n) (state_names 2)); [reflexivity|].
  rewrite L3. cbn [pbind]. rewrite py_in_strs. cbn [pbind py_truth]. destruct (existsb (String.eqb n) (state_names 3)); [reflexivity|].
  rewrite L4. cbn [pbind]. rewrite py_in_strs. cbn [pbind py_truth]. destruct (existsb (String.eqb n) (state_names 4)); reflexivity. Qed.
Print Assumptions C17gen_state_validator_closed.



(* ================= the DISPATCH of the state generators (generate_state_pure_state_vector_from_name incl. its nested helper, the eval look-up,
   _generate_pure_state_vec_tensor_product, tensor_product_for_vecs; generate_state_density_mat_from_name), regenerated with the numeric vector
   functions as ORACLE atoms: every catalogued name goes to the vector functions its table code names, in tensor order; EVERY other string raises. *)
Theorem C17gen_state_dispatch_catalogue :
  forall sys, (sys < 5)%nat -> forall e, In e (cat_states sys) ->
    is_kronvec (g_generate_state_pure_state_vector_from_name (VStr (fst e))) (state_atoms (snd e)) = true /\
    is_app1_kronvec (g_generate_state_density_mat_from_name (VStr (fst e))) "calc_mat_from_vector_adjoint" (state_atoms (snd e)) = true.
Proof. intros sys Hs e He.
  assert (A : forallb (fun sys => forallb (fun e : string * sname =>
                is_kronvec (g_generate_state_pure_state_vector_from_name (VStr (fst e))) (state_atoms (snd e)) &&
                is_app1_kronvec (g_generate_state_density_mat_from_name (VStr (fst e))) "calc_mat_from_vector_adjoint" (state_atoms (snd e))) (cat_states sys)) (seq 0 5) = true)
    by (vm_cast_no_check (@eq_refl bool true)).
  rewrite forallb_forall in A. specialize (A sys ltac:(apply in_seq; lia)). rewrite forallb_forall in A. specialize (A e He). now apply andb_true_iff in A. Qed.
Print Assumptions C17gen_state_dispatch_catalogue.

Theorem C17gen_state_generators_closed :
  forall n : string, existsb (String.eqb n) all_state_names = false ->
    g_generate_state_pure_state_vector_from_name (VStr n) = PErr "ValueError" /\
    g_generate_state_density_mat_from_name (VStr n) = PErr "NotImplementedError".
Proof. intros n H. split.
  - unfold g_generate_state_pure_state_vector_from_name. rewrite C17gen_state_validator_closed, H. reflexivity.
  - unfold g_generate_state_density_mat_from_name. rewrite C17gen_state_validator_closed, H. reflexivity. Qed.
Print Assumptions C17gen_state_generators_closed.

(* ================= the DISPATCH of the POVM generators (generate_povm_pure_state_vectors_from_name, _generate_povm_pure_state_vectors_from_single_name,
   _generate_povm_matrices_from_single_name; the state vector functions, calc_mat_from_vector_adjoint and the parity matrix functions are ORACLE atoms).
   POVM names are compositional, so closure is at the FACTOR level: a single name outside the two validity lists raises, for EVERY string. *)
Lemma gen_povm_validity_lists :
  g_get_povm_names_rank1 = POk (VList (map VStr povm_rank1_names)) /\ g_get_povm_names_not_rank1 = POk (VList (map VStr povm_not_rank1_names)).
Proof. split; vm_compute; reflexivity. Qed.
Definition is_kronvec_list (r : pres pyv) (atoms : list (list string)) : bool :=
  match r with
  | POk (VList l) => Nat.eqb (List.length l) (List.length atoms) && forallb (fun p => is_kronvec (POk (fst p)) (snd p)) (combine l atoms)
  | _ => false end.
Definition is_adjoint_list (r : pres pyv) (atoms : list (list string)) : bool :=
  match r with
  | POk (VList l) => Nat.eqb (List.length l) (List.length atoms) && forallb (fun p => is_app1_kronvec (POk (fst p)) "calc_mat_from_vector_adjoint" (snd p)) (combine l atoms)
  | _ => false end.
Definition all_rank1 (ks : list nat) : bool := forallb povm1_rank1 ks.

(* every catalogued POVM name: rank-1 names yield, outcome by outcome in product order, the vector functions of the states of the POVM table;
   names with a factor that is not rank 1 raise in the pure_state_vectors form; single rank-1 names yield the adjoint of those vectors as matrices *)
Theorem C17gen_povm_dispatch_catalogue :
  forall sys, (sys < 5)%nat -> forall e, In e (cat_povms sys) ->
    (if all_rank1 (snd e) then is_kronvec_list (g_generate_povm_pure_state_vectors_from_name (VStr (fst e))) (povm_atoms (snd e))
     else is_err (g_generate_povm_pure_state_vectors_from_name (VStr (fst e)))) = true /\
    (match snd e with
     | [k] => if povm1_rank1 k then is_adjoint_list (g__generate_povm_matrices_from_single_name (VStr (fst e))) (povm_atoms [k])
              else negb (is_err (g__generate_povm_matrices_from_single_name (VStr (fst e))))
     | _ => true end) = true.
Proof. intros sys Hs e He.
  assert (A : forallb (fun sys => forallb (fun e : string * list nat =>
      (if all_rank1 (snd e) then is_kronvec_list (g_generate_povm_pure_state_vectors_from_name (VStr (fst e))) (povm_atoms (snd e))
       else is_err (g_generate_povm_pure_state_vectors_from_name (VStr (fst e)))) &&
      (match snd e with
       | [k] => if povm1_rank1 k then is_adjoint_list (g__generate_povm_matrices_from_single_name (VStr (fst e))) (povm_atoms [k])
                else negb (is_err (g__generate_povm_matrices_from_single_name (VStr (fst e))))
       | _ => true end)) (cat_povms sys)) (seq 0 5) = true) by (vm_cast_no_check (@eq_refl bool true)).
  rewrite forallb_forall in A. specialize (A sys ltac:(apply in_seq; lia)). rewrite forallb_forall in A. specialize (A e He). now apply andb_true_iff in A. Qed.
Print Assumptions C17gen_povm_dispatch_catalogue.

Theorem C17gen_povm_factors_closed :
  forall p : string,
    (existsb (String.eqb p) povm_rank1_names = false -> g__generate_povm_pure_state_vectors_from_single_name (VStr p) = PErr "ValueError") /\
    (existsb (String.eqb p) (povm_rank1_names ++ povm_not_rank1_names) = false -> g__generate_povm_matrices_from_single_name (VStr p) = PErr "ValueError").
Proof. intros p. destruct gen_povm_validity_lists as [L1 L2]. split.
  - intros H. unfold g__generate_povm_pure_state_vectors_from_single_name. rewrite L1. cbn [pbind]. rewrite py_in_strs, H. reflexivity.
  - intros H. rewrite existsb_app in H. apply orb_false_iff in H. destruct H as [H1 H2].
    assert (Hz : String.eqb p "z2" = false) by (cbn [existsb povm_not_rank1_names] in H2; apply orb_false_iff in H2; tauto).
    unfold g__generate_povm_matrices_from_single_name. rewrite L1. cbn [pbind]. rewrite py_in_strs, H1. cbn [pbind py_truth py_eq py_eqb]. rewrite Hz.
    cbn [pbind py_truth]. rewrite L2. cbn [pbind]. rewrite py_in_strs, H2. reflexivity. Qed.
Print Assumptions C17gen_povm_factors_closed.
