(* Re-checked on every run against the definitions REGENERATED (gen/c11_py2coq.py) from the current source of
     quara/minimization_algorithm/projected_gradient_descent_backtracking.py :
         ProjectedGradientDescentBacktracking._is_doing_for_alpha   (gen_is_doing_for_alpha)
         ProjectedGradientDescentBacktracking.optimize              (gen_body, gen_for, gen_optimize, gen_warning)
     quara/interface/cvxpy/conversion.py : num_cvxpy_variable       (gen_num_cvxpy_variable)
         generate_cvxpy_constraints_from_cvxpy_variable(_with_sparsity)  (gen_constraints_dense / _sparse; generate_cvxpy_variable: shape check)
     quara/interface/cvxpy/qtomography/standard/loss_function.py : the three value_cvxpy expressions (gen_cvx_re / gen_cvx_se / gen_cvx_are)
     ProjectedGradientDescentBacktracking.optimize, before the loop: start point and default mu (gen_start / gen_mu)
     quara/interface/cvxpy/qtomography/standard/minimization_algorithm.py : CvxpyMinimizationAlgorithm.optimize dispatch
         (gen_cvx_needs_outcomes / gen_cvx_constrained / gen_cvx_solver; objective, problem and result fields checked verbatim)
     the two estimators' calc_estimate_sequence loop skeletons (gen_estimate_sequence / gen_cvx_estimate_sequence)
   The regenerated text equals the hand-written model (Model/C11_Pgdb.v, Model/C11_Cvx.v) the property theorems are stated about,
   for ALL inputs (every loss f, gradient g, projection P, square-root oracle sq, dimension, option values, start point, iteration
   limit and line-search fuel), hence the theorems of Props/C11.v (feasible monotone runs, first-success line search, ...) are
   statements about the loop as it is written in the source today.
   The proofs go through extensional lemmas (ring identities, case analysis on the mode, induction on fuel / remaining iterations), so
   re-ordering the branches of the stopping-mode chain, re-associating products, renaming variables or introducing temporaries keeps
   them valid; another halving factor, another Armijo right-hand side, a cached loss value (rejected by the translator: loop-carried
   state), another window, `>=` instead of `>`, another error value or a missing `break` breaks them. *)
From Coq Require Import Arith List Bool String ZArith Lia Ring Field.
From QV.Core Require Import OF Sums Mat.
From QV.Model Require Import C11_Pgdb C11_Cvx.
From QVGen Require Import Gen_c11.
Import ListNotations.

Section C11_Equiv.
Context (F : OF).
Add Field Ffeq11 : (k_field F).
Notation vec := (@vec F).
Variables (sq : F -> F) (n : nat) (f : vec -> F) (g P : vec -> vec).

(* ---- _is_doing_for_alpha = the negated Armijo test of the model *)
Theorem gen_is_doing_for_alpha_eq : forall (x y : vec) (alpha gamma : F),
  gen_is_doing_for_alpha F n f g x y alpha gamma
  = negb (C11_armijo_ok F (C11_phi F f x y) (f x) gamma (C11_slope F n g x y) alpha).
Proof. intros. unfold gen_is_doing_for_alpha, C11_armijo_ok, C11_phi, C11_point, C11_slope. cbv zeta.
  try reflexivity. all: (f_equal; try reflexivity). all: (f_equal; try reflexivity). all: ring. Qed.

(* ---- the while loop = C11_backtrack, for any condition / update extensionally equal to test / halving *)
Lemma gen_while_backtrack (x y : vec) (gamma : F) (c : F -> bool) (b : F -> F) :
  (forall a, c a = negb (C11_armijo_ok F (C11_phi F f x y) (f x) gamma (C11_slope F n g x y) a)) ->
  (forall a, b a = cmul F (C11_half F) a) ->
  forall fuel a, gen_while F fuel c b a = C11_backtrack F fuel (C11_phi F f x y) (f x) gamma (C11_slope F n g x y) a.
Proof. intros Hc Hb. induction fuel as [|k IH]; intros a; [reflexivity|].
  cbn [gen_while C11_backtrack]. rewrite Hc. destruct (C11_armijo_ok F _ _ _ _ a); cbn [negb]; [reflexivity|].
  rewrite Hb. apply IH. Qed.
Lemma backtrack_count_none fuel phi fx gamma slope : forall a,
  C11_backtrack F fuel phi fx gamma slope a = None -> C11_backtrack_count F fuel phi fx gamma slope a = None.
Proof. induction fuel as [|k IH]; intros a H; [reflexivity|]. cbn [C11_backtrack C11_backtrack_count] in *.
  destruct (C11_armijo_ok F phi fx gamma slope a); [discriminate|]. now rewrite (IH _ H). Qed.
Lemma backtrack_count_some fuel phi fx gamma slope : forall a r,
  C11_backtrack F fuel phi fx gamma slope a = Some r -> exists c, C11_backtrack_count F fuel phi fx gamma slope a = Some c.
Proof. induction fuel as [|k IH]; intros a r H; [discriminate|]. cbn [C11_backtrack C11_backtrack_count] in *.
  destruct (C11_armijo_ok F phi fx gamma slope a); [now exists O|]. destruct (IH _ _ H) as [c ->]. now exists (S c). Qed.
Lemma firstn_min_length {A} (l : list A) h : firstn (Nat.min (List.length l) h) l = firstn h l.
Proof. destruct (Nat.le_ge_cases (List.length l) h) as [H|H].
  - rewrite (Nat.min_l _ _ H), firstn_all. symmetry. now apply firstn_all2.
  - now rewrite (Nat.min_r _ _ H). Qed.

(* ---- one pass through the loop body = C11_body (direction, line search, update, error value, window, continue flag) *)
Definition body_view (x : vec) (errs : list F) (o : C11_iter_out F) : vec * vec * list F * bool :=
  (x, io_x o, io_err o :: errs, io_continue o).
Theorem gen_body_eq : forall (mode : C11_mode) (h fuel : nat) (mu gamma eps : F) (xp : vec) (xn : option vec) (errs : list F),
  let x := match xn with Some v => v | None => xp end in
  gen_body F sq n f g P mode h fuel mu gamma eps xp xn errs
  = option_map (body_view x errs) (C11_body F sq n f g gamma eps mode h fuel x (C11_dir F P g mu x) errs).
Proof. intros mode h fuel mu gamma eps xp xn errs x. unfold gen_body. cbv zeta. fold x.
  change (vsub (P (vsub x (C11_vdiv F (g x) mu))) x) with (C11_dir F P g mu x).
  set (y := C11_dir F P g mu x).
  rewrite (gen_while_backtrack x y gamma); [|intros; apply gen_is_doing_for_alpha_eq|intros; ring].
  unfold C11_body, C11_body_ray.
  destruct (C11_backtrack F fuel (C11_phi F f x y) (f x) gamma (C11_slope F n g x y) (c1 F)) as [a|] eqn:Eb.
  2:{ first [reflexivity | now rewrite (backtrack_count_none _ _ _ _ _ _ Eb)]. }
  destruct (backtrack_count_some _ _ _ _ _ _ _ Eb) as [c ->].
  cbn [option_map]. unfold body_view. cbn [io_x io_err io_continue].
  rewrite firstn_min_length.
  assert (Ee : match mode with
               | C11_SingleDiffLoss => csub F (f x) (f (vadd x (vscale a y)))
               | C11_SumAbsDiffLoss => C11_absF F (csub F (f x) (f (vadd x (vscale a y))))
               | C11_SumAbsDiffVar => sq (C11_nrm2 F n (vsub x (vadd x (vscale a y))))
               | C11_SumAbsDiffProjGrad => sq (C11_nrm2 F n y)
               end = C11_err_value F sq n mode (f x) (C11_phi F f x y a) x (C11_point F x y a) y)
    by (destruct mode; reflexivity).
  rewrite Ee. unfold C11_continue, C11_window_sum, C11_point.
  destruct (negb (kleb F _ eps)); reflexivity. Qed.

(* ---- the for / break skeleton and what follows the loop = C11_optimize *)
Inductive obs := Obs_Done (x : vec) (errs : list F) (k : nat) (warning : bool) | Obs_Fuel (k : nat) | Obs_NoIteration.
Definition obs_gen (max_iteration : nat) (r : gen_result F) : obs :=
  match r with
  | Gen_Broke _ x e k | Gen_Exhausted _ x e k => Obs_Done x e k (gen_warning F max_iteration r)
  | Gen_Fuel _ k => Obs_Fuel k
  | Gen_Unbound _ => Obs_NoIteration
  end.
Definition obs_model (r : C11_result F) : obs :=
  match r with
  | C11_Done (x :: _) errs k w => Obs_Done x errs k w
  | C11_Done [] _ _ _ => Obs_NoIteration
  | C11_LineSearchFuel k => Obs_Fuel k
  | C11_NoIteration => Obs_NoIteration
  end.

Lemma gen_for_loop (mode : C11_mode) (h fuel : nat) (mu gamma eps : F) (maxi : nat) :
  forall rem k xp xn t errs, (k + rem = S maxi)%nat ->
  obs_gen maxi (gen_for F sq n f g P mode h fuel mu gamma eps rem k xp xn errs)
  = obs_model (C11_loop F sq n f g P mu gamma eps mode h fuel rem k ((match xn with Some v => v | None => xp end) :: t) errs).
Proof. induction rem as [|r IH]; intros k xp xn t errs Hk; [reflexivity|].
  cbn [gen_for C11_loop]. rewrite gen_body_eq. cbv zeta. set (x := match xn with Some v => v | None => xp end).
  destruct (C11_body F sq n f g gamma eps mode h fuel x (C11_dir F P g mu x) errs) as [o|]; [|reflexivity].
  cbn [option_map]. unfold body_view. destruct (io_continue o); cbn [negb].
  - destruct r as [|r'].
    + cbn [obs_gen obs_model gen_warning]. f_equal. apply Nat.eqb_eq. lia.
    + rewrite (IH (S k) x (Some (io_x o)) (x :: t) (io_err o :: errs)) by lia. reflexivity.
  - cbn [obs_gen obs_model gen_warning]. f_equal. destruct r as [|r'].
    + apply Nat.eqb_eq. lia.
    + apply Nat.eqb_neq. lia. Qed.

Theorem gen_optimize_eq : forall (mode : C11_mode) (h fuel : nat) (mu gamma eps : F) (max_iteration : nat) (x0 : vec),
  obs_gen max_iteration (gen_optimize F sq n f g P mode h fuel mu gamma eps max_iteration x0)
  = obs_model (C11_optimize F sq n f g P mu gamma eps mode h fuel max_iteration x0).
Proof. intros. unfold gen_optimize, C11_optimize. destruct max_iteration as [|m]; [reflexivity|].
  apply (gen_for_loop mode h fuel mu gamma eps (S m) (S m) 1 x0 None [] []). lia. Qed.
End C11_Equiv.
Print Assumptions gen_is_doing_for_alpha_eq.
Print Assumptions gen_body_eq.
Print Assumptions gen_optimize_eq.

(* ---- the CVXPY loss expressions = the closed forms of the model, for all data, ratios, predicted probabilities and any ln *)
Section C11_EquivCvx.
Context (F : OF).
Add Field Ffeq11c : (k_field F).
Variables (ln : F -> F) (S : nat) (nout : nat -> nat) (c : nat -> F) (q p : nat -> nat -> F) (eps : F).

Lemma one_ne0 : c1 F <> c0 F. Proof. exact (one_neq_zero F). Qed.
(* (x0 + sum_i X_i) with X_i = y0 + c_i (z0 + sum_j A_ij)  normalises to  sum_i c_i sum_j A_ij  when the initial values are 0 *)
Lemma acc2 (A : nat -> nat -> F) :
  cadd F (c0 F) (sumn S (fun i => cadd F (c0 F) (cmul F (c i) (cadd F (c0 F) (sumn (nout i) (fun j => A i j))))))
  = sumn S (fun i => cmul F (c i) (sumn (nout i) (fun j => A i j))).
Proof. transitivity (sumn S (fun i => cadd F (c0 F) (cmul F (c i) (cadd F (c0 F) (sumn (nout i) (fun j => A i j)))))); [ring|].
  apply sumn_ext; intros i _. ring. Qed.

Lemma acc_split (n : nat) (ci : F) (A B : nat -> F) :
  cadd F (cmul F ci (sumn n A)) (cadd F (c0 F) (cmul F ci (cadd F (c0 F) (sumn n B)))) = cmul F ci (sumn n (fun j => cadd F (A j) (B j))).
Proof. rewrite sumn_add. ring. Qed.

Theorem gen_cvx_se_eq : gen_cvx_se F ln S nout c q p eps = C11_cvx_se F S nout c q p.
Proof. unfold gen_cvx_se, C11_cvx_se. rewrite acc2. apply sumn_ext; intros i _. f_equal. apply sumn_ext; intros j _.
  field. exact one_ne0. Qed.

Theorem gen_cvx_re_eq : gen_cvx_re F ln S nout c q p eps = C11_cvx_re F ln eps S nout c q p.
Proof. unfold gen_cvx_re, C11_cvx_re, C11_gt. rewrite acc2.
  rewrite <- sumn_add. apply sumn_ext; intros i _. cbv beta.
  rewrite acc_split.
  f_equal. apply sumn_ext; intros j _. destruct (negb (kleb F (q i j) eps)); ring. Qed.

Theorem gen_cvx_are_eq : (forall i j, (i < S)%nat -> (j < nout i)%nat -> C11_gt F (q i j) eps = true -> q i j <> c0 F) ->
  gen_cvx_are F ln S nout c q p eps = C11_cvx_are F eps S nout c q p.
Proof. intros Hq. unfold gen_cvx_are, C11_cvx_are. rewrite acc2. apply sumn_ext; intros i Hi. f_equal. apply sumn_ext; intros j Hj.
  pose proof (Hq i j Hi Hj) as Hn. unfold C11_gt in *. destruct (negb (kleb F (q i j) eps)); [|ring].
  unfold C11_half. field. split; [exact (Hn eq_refl)|exact (double_neq0 F _ one_ne0)]. Qed.

(* ---- before the loop of optimize: start point and default mu = the model's selection, for every option value *)
Theorem gen_start_mu_eq : forall (sqrtn : nat -> F) (mu_opt : option F) (sl qn : option nat),
  gen_mu F sqrtn mu_opt sl qn = C11_default_mu F sqrtn mu_opt sl qn
  /\ (forall (V : Type) (origin : V) (vs : option V), gen_start origin vs = C11_start origin vs).
Proof. intros sqrtn mu_opt sl qn. split; [|intros V origin [v|]; reflexivity].
  assert (E3 : C11_nat_F F 3 = cadd F (cadd F (c1 F) (c1 F)) (c1 F)) by (cbn; ring).
  assert (E2 : C11_nat_F F 2 = cadd F (c1 F) (c1 F)) by (cbn; ring).
  unfold gen_mu, C11_default_mu, C11_mu_formula. rewrite E3, E2.
  destruct mu_opt as [m|]; [destruct (keqb F m (c0 F))|]; cbn [negb]; destruct sl as [n1|]; destruct qn as [n2|]; reflexivity. Qed.
End C11_EquivCvx.
Print Assumptions gen_cvx_se_eq.
Print Assumptions gen_cvx_re_eq.
Print Assumptions gen_cvx_are_eq.
Print Assumptions gen_start_mu_eq.

(* ---- CvxpyMinimizationAlgorithm.optimize: the three dispatch tables = the model's, for every string *)
Theorem gen_cvx_optimize_dispatch_eq : forall s : string,
  gen_cvx_needs_outcomes s = C11_cvx_needs_outcomes s /\ gen_cvx_constrained s = C11_cvx_constrained s /\ gen_cvx_solver s = C11_cvx_solver s.
Proof. intros s. unfold gen_cvx_needs_outcomes, C11_cvx_needs_outcomes, gen_cvx_constrained, C11_cvx_constrained, gen_cvx_solver, C11_cvx_solver.
  split; [|split].
  - destruct (String.eqb_spec s "state") as [->|]; [reflexivity|]. destruct (String.eqb_spec s "gate") as [->|]; [reflexivity|].
    destruct (String.eqb s "povm"), (String.eqb s "mprocess"); reflexivity.
  - destruct (String.eqb_spec s "unconstraint") as [->|]; [reflexivity|]. destruct (String.eqb s "physical"); reflexivity.
  - destruct (String.eqb s "scs"), (String.eqb s "mosek"), (String.eqb s "cvxopt"); reflexivity. Qed.
Print Assumptions gen_cvx_optimize_dispatch_eq.

(* ---- the two constraint generators = the table of the model, for every type string and outcome count *)
Theorem gen_constraints_eq : forall (t : string) (m : nat),
  gen_constraints_dense t m = C11_constraint_table false t m /\ gen_constraints_sparse t m = C11_constraint_table true t m.
Proof. intros t m. unfold gen_constraints_dense, gen_constraints_sparse, C11_constraint_table. cbv zeta.
  destruct (String.eqb t "state"), (String.eqb t "povm"), (String.eqb t "gate"), (String.eqb t "mprocess"); split; reflexivity. Qed.
Print Assumptions gen_constraints_eq.

(* ---- the estimators' wiring: one configure-and-optimise per data set, collected in order (the regenerated definition exists only when
   the source has exactly that loop shape; a shortcut that returns something else than the optimiser's value, a `continue`, a conditional
   append is rejected by the translator) *)
Theorem gen_estimate_sequence_eq : forall (D V : Type) (co : D -> V) (l : list D),
  gen_estimate_sequence co l = C11_estimate_sequence co l /\ gen_cvx_estimate_sequence co l = C11_estimate_sequence co l
  /\ List.length (gen_estimate_sequence co l) = List.length l /\ (forall d, gen_estimate_sequence co [d] = [co d]).
Proof. intros. unfold gen_estimate_sequence, gen_cvx_estimate_sequence, C11_estimate_sequence. repeat split; try reflexivity. apply map_length. Qed.
Print Assumptions gen_estimate_sequence_eq.

(* ---- num_cvxpy_variable = the parameter count of the model, for every type string, dimension and outcome count *)
Theorem gen_num_cvxpy_variable_eq : forall (t : string) (dim : Z) (m : option Z),
  gen_num_cvxpy_variable t dim m = C11_num_var t dim m.
Proof. intros t dim m. unfold gen_num_cvxpy_variable, C11_num_var. cbn [existsb].
  destruct (dim <=? 0)%Z eqn:Ed.
  - destruct (String.eqb t "state"), (String.eqb t "povm"), (String.eqb t "gate"), (String.eqb t "mprocess"); reflexivity.
  - cbv zeta.
    destruct (String.eqb_spec t "state") as [->|N1]; [cbn; f_equal; ring|].
    destruct (String.eqb_spec t "povm") as [->|N2]; [cbn; destruct m; cbn; [f_equal; ring|reflexivity]|].
    destruct (String.eqb_spec t "gate") as [->|N3]; [cbn; f_equal; ring|].
    destruct (String.eqb_spec t "mprocess") as [->|N4]; [cbn; destruct m; cbn; [f_equal; ring|reflexivity]|].
    cbn. reflexivity. Qed.
Print Assumptions gen_num_cvxpy_variable_eq.
