(* Re-checked on every run against the definitions REGENERATED (gen/c09_py2coq.py) from the current source of
     quara/protocol/qtomography/standard/standard_qtomography.py            StandardQTomography.is_fullrank_matA
     quara/protocol/qtomography/standard/linear_estimator.py                LinearEstimator.calc_estimate_sequence, calc_estimate
     quara/protocol/qtomography/standard/standard_qtomography_estimator.py  estimated_var, estimated_var_sequence,
                                                                            estimated_qoperation, estimated_qoperation_sequence
   The regenerated functions equal the hand-written model (Model/C09_LinEst.v: coded_guard, calc_estimate_sequence,
   calc_estimate, estimated_var) on ALL inputs, hence the property theorems hold for them.  A source change that alters
   the glue (which guard is consulted / how it is negated, rank compared with another dimension, operand order or a
   missing transpose in (A^T A)^-1 A^T, f + b instead of f - b, which component of the (count, distribution) pairs
   is stacked, vstack instead of hstack, what is appended / returned, a detour in calc_estimate) breaks these proofs
   or makes the translator reject the source; either is reported as a violation of the tie. *)
From Coq Require Import ZArith List Bool Arith Lia.
From QV.Core Require Import OF Sums Mat.
From QV.Model Require Import C09_LinEst C09_PySem.
From QV.Proofs Require Import C09_LinEst C09_Rank C09_GJ C09_History.
From QVGen Require Import Gen_c09_linear.
Import ListNotations.

Section E.
Context (F : OF).
Add Ring Fr9e : (c_ring (K F)).

(* ------------------------------------------------------------------ the guard *)
Theorem gen_is_fullrank_matA_eq : forall q : qtomo F,
  gen_is_fullrank_matA q = coded_guard (qt_m q) (qt_n q) (qt_A q).
Proof. intros [m n A b]. unfold gen_is_fullrank_matA, coded_guard, np_matrix_rank, np_shape1, np_shape0, np_min_shape, qt_calc_matA.
  cbn [a_rows a_cols a_dat qt_m qt_n qt_A].
  apply Bool.eq_iff_eq_true. rewrite !Nat.eqb_eq. split; intros H; lia. Qed.

(* ------------------------------------------------------------------ helper facts about the numpy vocabulary *)
Lemma length_vsub_list : forall f b : list F, length f = length b -> length (vsub_list f b) = length f.
Proof. induction f as [|x f IH]; intros [|y b] H; cbn in *; try discriminate; [reflexivity|]. f_equal. apply IH. lia. Qed.
Lemma vofl_vsub_list : forall (f b : list F) j, length f = length b ->
  vofl (vsub_list f b) j = csub F (vofl f j) (vofl b j).
Proof. unfold vofl. induction f as [|x f IH]; intros [|y b] j H; cbn in *; try discriminate.
  - destruct j; cbn; ring.
  - destruct j; cbn; [reflexivity|]. apply IH. lia. Qed.

(* (M A^T) (f - b), as the code computes it, is the model's M (A^T (f - b)) *)
Lemma step_value m n (M A : @mat F) (b f : list F) : length b = m -> length f = m ->
  py_bind (np_vsub f b) (fun t => np_matvec (mkArr2 n m (mmul n M (mT A))) t) = PyOk (one_estimate m n M A b f).
Proof. intros Hb Hf. unfold np_vsub. rewrite Hb, Hf, Nat.eqb_refl. cbn [py_bind]. unfold np_matvec. cbn [a_cols a_rows a_dat].
  rewrite length_vsub_list by congruence. rewrite Hf, Nat.eqb_refl. f_equal.
  unfold one_estimate. apply lvec_ext. intros i Hi. rewrite mv_mmul.
  rewrite (estimate_x_spec F m n M A (vofl b) (vofl f) i Hi). unfold estimate.
  apply (mv_ext n n M M); [apply meq_refl| |exact Hi]. apply (mv_ext n m (mT A) (mT A)); [apply meq_refl|].
  intros j _. unfold vsub. apply vofl_vsub_list. congruence. Qed.
Lemma step_shape m n (M A : @mat F) (b f : list F) : length b = m -> length f <> m ->
  py_bind (np_vsub f b) (fun t => np_matvec (mkArr2 n m (mmul n M (mT A))) t) = PyRaise ExValueErrorShape.
Proof. intros Hb Hf. unfold np_vsub. rewrite Hb. rewrite (proj2 (Nat.eqb_neq _ _) Hf). reflexivity. Qed.

Definition py_of_loop (r : eres F) : py (list (list F)) :=
  match r with E_ok xs => PyOk xs | E_guard => PyRaise ExException | E_singular => PyRaise ExLinAlgError
          | E_stack => PyRaise ExValueErrorStack | E_shape => PyRaise ExValueErrorShape | E_internal => PyRaise ExInternal end.

(* any loop body that does, per dataset, "stack, check the length, append the estimate" is the model's loop *)
Lemma py_for_est_loop (body : dataset F -> list (list F) -> py (list (list F))) (one : list F -> list F) m :
  (forall ds st, body ds st = match hstack (map snd ds) with
                              | None => PyRaise ExValueErrorStack
                              | Some f => if Nat.eqb (length f) m then PyOk (st ++ [one f]) else PyRaise ExValueErrorShape
                              end) ->
  forall sq acc, py_for sq acc body = py_of_loop (est_loop_with hstack one m sq acc).
Proof. intros H. induction sq as [|ds rest IH]; intros acc; cbn [py_for est_loop_with]; [reflexivity|].
  rewrite H. destruct (hstack (map snd ds)) as [f|]; [|reflexivity].
  destruct (Nat.eqb (length f) m); [|reflexivity]. cbn [py_bind]. apply IH. Qed.

(* ------------------------------------------------------------------ LinearEstimator.calc_estimate_sequence *)
Theorem gen_calc_estimate_sequence_eq : forall (q : qtomo F) (sq : list (dataset F)) (flag : bool), qt_wf q ->
  gen_calc_estimate_sequence q sq flag =
  py_of_eres (calc_estimate_sequence (qt_m q) (qt_n q) (qt_A q) (qt_b q) sq).
Proof. intros q sq flag Hwf. unfold gen_calc_estimate_sequence.
  rewrite gen_is_fullrank_matA_eq. destruct q as [m n A b]. unfold qt_wf in Hwf. cbn [qt_m qt_n qt_A qt_b] in *.
  unfold calc_estimate_sequence, calc_estimate_sequence_with.
  destruct (negb (coded_guard m n A)); [reflexivity|].
  unfold qt_calc_matA, qt_calc_vecB, np_matmul, np_T, np_inv. cbn [a_rows a_cols a_dat qt_m qt_n qt_A qt_b].
  rewrite !Nat.eqb_refl. cbn [py_bind negb a_rows a_cols a_dat].
  rewrite !Nat.eqb_refl. cbn [py_bind negb a_rows a_cols a_dat].
  change (solve_g n (mfrz n n (mmul m (mT A) A))) with (solve m n A).
  destruct (solve m n A) as [M|w|]; cbn [py_bind py_of_eres]; try reflexivity.
  cbn [a_rows a_cols a_dat]. rewrite !Nat.eqb_refl. cbn [py_bind a_rows a_cols a_dat].
  rewrite (py_for_est_loop _ (one_estimate m n M A b) m).
  - destruct (est_loop_with hstack (one_estimate m n M A b) m sq []); reflexivity.
  - intros ds st. unfold np_hstack. destruct (hstack (map snd ds)) as [f|]; [|reflexivity]. cbn [py_bind].
    destruct (Nat.eqb (length f) m) eqn:El.
    + apply Nat.eqb_eq in El. rewrite (step_value m n M A b f Hwf El). reflexivity.
    + apply Nat.eqb_neq in El. rewrite (step_shape m n M A b f Hwf El). reflexivity. Qed.

(* ------------------------------------------------------------------ LinearEstimator.calc_estimate *)
Theorem gen_calc_estimate_eq : forall (q : qtomo F) (ds : dataset F) (flag : bool), qt_wf q ->
  gen_calc_estimate q ds flag = py_of_eres (calc_estimate (qt_m q) (qt_n q) (qt_A q) (qt_b q) ds).
Proof. intros q ds flag Hwf. unfold gen_calc_estimate, calc_estimate.
  rewrite (gen_calc_estimate_sequence_eq q [ds] flag Hwf).
  destruct (calc_estimate_sequence (qt_m q) (qt_n q) (qt_A q) (qt_b q) [ds]); reflexivity. Qed.

(* ------------------------------------------------------------------ the result accessors *)
Theorem gen_estimated_var_eq : forall (r : est_result F) x,
  gen_estimated_var r = PyOk x -> estimated_var (r_vars r) = x.
Proof. intros [xs] x. unfold gen_estimated_var, estimated_var. cbn. destruct xs as [|y t]; cbn; [discriminate|]. now intros [= ->]. Qed.
Theorem gen_estimated_var_sequence_eq : forall (r : est_result F),
  gen_estimated_var_sequence r = estimated_var_sequence (r_vars r).
Proof. intros [xs]. reflexivity. Qed.

(* ------------------------------------------------------------------ the property, transported to the regenerated code *)
(* the computation-time flag does not influence the estimates *)
Theorem gen_flag_irrelevant : forall (q : qtomo F) sq, qt_wf q ->
  gen_calc_estimate_sequence q sq true = gen_calc_estimate_sequence q sq false.
Proof. intros q sq H. now rewrite !gen_calc_estimate_sequence_eq. Qed.

(* informationally complete tester set (the regenerated guard passes) + exact data of v in every dataset
   -> the regenerated estimator returns one estimate per dataset, each equal to v *)
Theorem gen_complete_tester_set_recovers : forall (q : qtomo F) sq flag (v : @vec F), qt_wf q ->
  gen_is_fullrank_matA q = true ->
  Forall (fun ds => ds <> [] /\ length (concat (map snd ds)) = qt_m q /\
                    veq (qt_m q) (vofl (concat (map snd ds))) (predict (qt_n q) (qt_A q) (vofl (qt_b q)) v)) sq ->
  exists r, gen_calc_estimate_sequence q sq flag = PyOk r /\ length (r_vars r) = length sq /\
            Forall (fun x => length x = qt_n q /\ veq (qt_n q) (vofl x) v) (r_vars r).
Proof. intros q sq flag v Hwf Hg Hd. rewrite gen_is_fullrank_matA_eq in Hg.
  destruct (complete_tester_set_recovers F (qt_m q) (qt_n q) (qt_A q) (qt_b q) sq v Hg Hd) as [xs [H1 [H2 H3]]].
  exists (mkResult xs). rewrite (gen_calc_estimate_sequence_eq q sq flag Hwf), H1. cbn. auto. Qed.

(* the regenerated guard raises (ExException) exactly when no inverse of A^T A exists *)
Theorem gen_guard_iff_invertible : forall (q : qtomo F),
  gen_is_fullrank_matA q = true <-> exists M, left_inverse_cert (qt_n q) M (gram (qt_m q) (qt_A q)).
Proof. intros q. rewrite gen_is_fullrank_matA_eq. apply guard_iff_invertible. Qed.

(* the sequence entry point = the single entry point applied to each dataset *)
Theorem gen_sequence_is_map : forall (q : qtomo F) sq flag r, qt_wf q ->
  gen_calc_estimate_sequence q sq flag = PyOk r ->
  Forall2 (fun ds x => gen_calc_estimate q ds flag = PyOk (mkResult [x])) sq (r_vars r).
Proof. intros q sq flag r Hwf H. rewrite (gen_calc_estimate_sequence_eq q sq flag Hwf) in H.
  destruct (calc_estimate_sequence (qt_m q) (qt_n q) (qt_A q) (qt_b q) sq) as [xs| | | | |] eqn:E; try discriminate.
  cbn in H. injection H as <-. cbn [r_vars].
  pose proof (sequence_is_map F _ _ _ _ _ _ E) as HF. clear E.
  induction HF as [|ds x sq xs Hx _ IH]; constructor; [|exact IH].
  rewrite (gen_calc_estimate_eq q ds flag Hwf), Hx. reflexivity. Qed.

(* the sample counts attached to the data are not used *)
Theorem gen_sample_counts_irrelevant : forall (q : qtomo F) sq sq' flag, qt_wf q ->
  map (map snd) sq = map (map snd) sq' ->
  gen_calc_estimate_sequence q sq flag = gen_calc_estimate_sequence q sq' flag.
Proof. intros q sq sq' flag Hwf H. rewrite !gen_calc_estimate_sequence_eq by exact Hwf.
  now rewrite (counts_irrelevant F _ _ _ _ sq sq' H). Qed.
(* ------------------------------------------------------------------ estimated_qoperation / estimated_qoperation_sequence
   ([gfv] = the template object's generate_from_var, abstract) *)
Theorem gen_estimated_qoperation_eq : forall (Obj : Type) (gfv : list F -> Obj) (r : est_result F) o,
  gen_estimated_qoperation gfv r = PyOk o -> o = gfv (estimated_var (r_vars r)).
Proof. intros Obj gfv [xs] o. unfold gen_estimated_qoperation, estimated_var. cbn [r_vars].
  destruct xs as [|y t]; cbn; [discriminate|]. now intros [= <-]. Qed.
Theorem gen_estimated_qoperation_sequence_eq : forall (Obj : Type) (gfv : list F -> Obj) (r : est_result F),
  gen_estimated_qoperation_sequence gfv r = map gfv (estimated_var_sequence (r_vars r)).
Proof. intros Obj gfv [xs]. reflexivity. Qed.

Lemma list_eq_of_veq n : forall (x y : list F), length x = n -> length y = n -> veq n (vofl x) (vofl y) -> x = y.
Proof. induction n as [|n IH]; intros [|a x] [|c y] Hx Hy H; cbn in *; try discriminate; [reflexivity|].
  f_equal; [exact (H 0%nat (Nat.lt_0_succ n))|].
  apply IH; [lia|lia|]. intros i Hi. exact (H (S i) (proj1 (Nat.succ_lt_mono i n) Hi)). Qed.

(* END TO END on the regenerated code: informationally complete tester set, the exact outcome distributions of the object
   with variables vl in the (single) dataset -> calc_estimate returns, and estimated_qoperation of its result is the
   object generated from vl; with generate_from_var (to_var o) = o this is the object itself *)
Theorem gen_exact_data_returns_object : forall (Obj : Type) (gfv : list F -> Obj) (q : qtomo F) (ds : dataset F) flag (vl : list F),
  qt_wf q -> gen_is_fullrank_matA q = true -> length vl = qt_n q ->
  ds <> [] -> length (concat (map snd ds)) = qt_m q ->
  veq (qt_m q) (vofl (concat (map snd ds))) (predict (qt_n q) (qt_A q) (vofl (qt_b q)) (vofl vl)) ->
  exists r, gen_calc_estimate q ds flag = PyOk r /\ gen_estimated_qoperation gfv r = PyOk (gfv vl) /\
            gen_estimated_qoperation_sequence gfv r = [gfv vl].
Proof. intros Obj gfv q ds flag vl Hwf Hg Hvl H1 H2 H3.
  destruct (gen_complete_tester_set_recovers q [ds] flag (vofl vl) Hwf Hg) as [r [Hr [Hlen Hall]]].
  { constructor; [|constructor]. auto. }
  exists r. unfold gen_calc_estimate. rewrite Hr. cbn [py_bind py_ret]. split; [reflexivity|].
  destruct r as [xs]. cbn [r_vars] in *. destruct xs as [|x [|y t]]; cbn in Hlen; try discriminate.
  inversion Hall as [|? ? [Hx1 Hx2] _]; subst.
  assert (E : x = vl) by (apply (list_eq_of_veq (qt_n q)); [exact Hx1|exact Hvl|exact Hx2]). subst x.
  split; reflexivity. Qed.
End E.

Print Assumptions gen_is_fullrank_matA_eq.
Print Assumptions gen_calc_estimate_sequence_eq.
Print Assumptions gen_calc_estimate_eq.
Print Assumptions gen_estimated_var_eq.
Print Assumptions gen_estimated_var_sequence_eq.
Print Assumptions gen_flag_irrelevant.
Print Assumptions gen_complete_tester_set_recovers.
Print Assumptions gen_guard_iff_invertible.
Print Assumptions gen_sequence_is_map.
Print Assumptions gen_sample_counts_irrelevant.
Print Assumptions gen_estimated_qoperation_eq.
Print Assumptions gen_estimated_qoperation_sequence_eq.
Print Assumptions gen_exact_data_returns_object.
