(* C13 - the tables regenerated from quara's CURRENT source (gen/c13_py2coq.py -> Gen_C13.v) agree with the hand-written
   models of Model/C13_Cache.v and Model/C13_Loss.v, and the main cache theorem holds for the machine built from the
   REGENERATED tables.  Re-checked on every run against the freshly generated Gen_C13.v.
   The equivalences are stated extensionally (membership, case analysis) so that harmless rewrites of the source
   (other order of assignments, other order of the elif branches) do not break them. *)
From Coq Require Import List String Bool Arith Lia.
From QV.Model Require Import C13_Cache C13_Loss.
From QV.Proofs Require Import C13_Cache C13_Loss.
From QVGen Require Import Gen_C13.
Import ListNotations.
Open Scope string_scope.

(* ================= G1: CompositeSystem lazy tables ================= *)
(* every getter tests the attribute it returns *)
Theorem C13_gen_tested_own : forall s, gen_tested s = s.
Proof. intros s; destruct s; reflexivity. Qed.
Print Assumptions C13_gen_tested_own.

(* a miss assigns exactly the attributes of the model's builder group (as a set) *)
Theorem C13_gen_fills_eq : forall s x, smem x (gen_fills s) = smem x (fills s).
Proof. intros s x; destruct s, x; reflexivity. Qed.
Print Assumptions C13_gen_fills_eq.

(* delete_<s> clears exactly attribute s; there is no delete method for _basis_basisconjugate *)
Theorem C13_gen_deletes_eq : forall s x, smem x (gen_deletes s) = (deletable s && slot_eqb x s).
Proof. intros s x; destruct s, x; reflexivity. Qed.
Print Assumptions C13_gen_deletes_eq.

(* every builder reads the basis and no cache attribute outside its own group (so [build] is a function of the basis) *)
Theorem C13_gen_builders_read_only_basis : gen_reads_only_basis = true.
Proof. reflexivity. Qed.
Print Assumptions C13_gen_builders_read_only_basis.

Section GenMachine.
Context {B T : Type} (build : B -> slot -> T).
Notation cache := (@cache B T).

(* the cache machine written with the REGENERATED tables *)
Definition gstep (c : cache) (op : cache_op) : cache :=
  match op with
  | Get s => match c_tab c (gen_tested s) with
             | Some _ => c
             | None => {| c_basis := c_basis c; c_tick := S (c_tick c);
                          c_tab := fun x => if smem x (gen_fills s) then Some (c_tick c, build (c_basis c) x) else c_tab c x |}
             end
  | Del s => {| c_basis := c_basis c; c_tick := c_tick c; c_tab := fun x => if smem x (gen_deletes s) then None else c_tab c x |}
  | Poke b => {| c_basis := b; c_tick := c_tick c; c_tab := c_tab c |}
  end.
Definition grun (ops : list cache_op) (c : cache) : cache := fold_left gstep ops c.

Definition ceq (c c' : cache) : Prop := c_basis c = c_basis c' /\ c_tick c = c_tick c' /\ forall x, c_tab c x = c_tab c' x.

Lemma ceq_refl c : ceq c c. Proof. repeat split. Qed.

Lemma gstep_step c c' op : ceq c c' -> ceq (gstep c op) (step build c' op).
Proof.
  intros [Hb [Ht Hx]]. destruct op as [s|s|b]; cbn [gstep step].
  - rewrite C13_gen_tested_own, (Hx s). destruct (c_tab c' s); [repeat split; assumption|].
    unfold rebuild. split; [exact Hb|split; [cbn; now rewrite Ht|]]. intros x. cbn.
    rewrite C13_gen_fills_eq, Hb, Ht, (Hx x). reflexivity.
  - destruct (deletable s) eqn:E.
    + split; [exact Hb|split; [exact Ht|]]. intros x. cbn. rewrite C13_gen_deletes_eq, E, (Hx x). reflexivity.
    + split; [exact Hb|split; [exact Ht|]]. intros x. cbn. rewrite C13_gen_deletes_eq, E. cbn. apply Hx.
  - repeat split; cbn; assumption.
Qed.

Lemma grun_run ops : forall c c', ceq c c' -> ceq (grun ops c) (run build ops c').
Proof. induction ops as [|op ops IH]; intros c c' H; [exact H|]. cbn. apply IH. now apply gstep_step. Qed.

(* MAIN, for the machine regenerated from the source: after any sequence of getter and delete_* calls every getter
   returns the table a fresh object builds from the basis *)
Theorem C13_gen_cache_history_irrelevant : forall (b : B) (ops : list cache_op) (s : slot),
  quara_ops ops -> option_map snd (c_tab (gstep (grun ops (init b)) (Get s)) s) = Some (build b s).
Proof.
  intros b ops s Hq.
  destruct (gstep_step _ _ (Get s) (grun_run ops _ _ (ceq_refl (init b)))) as [_ [_ Hx]].
  rewrite (Hx s). exact (cache_history_irrelevant build b ops s Hq).
Qed.
End GenMachine.
Print Assumptions C13_gen_cache_history_irrelevant.

(* ================= G2: weighting-mode dispatch of the loss functions ================= *)
Definition act_weights {D W : Type} (invw : bool -> D -> W) (a : gaction) (custom : W) (d : D) (old : option W) : option W :=
  match a with GKeep => old | GReset => None | GCustom => Some custom | GInv b => Some (invw b d) end.
(* the mode strings (the harness passes exactly these to the implementation) *)
Definition mode_name {W : Type} (o : @wmode W) : string :=
  match o with
  | Identity => "identity" | Custom _ => "custom" | InvSample => "inverse_sample_covariance"
  | InvUnbiased => "inverse_unbiased_covariance" | Unhandled => "unbiased_inverse_covariance"
  end.
Definition mode_custom {W : Type} (o : @wmode W) (dflt : W) : W := match o with Custom w => w | _ => dflt end.

(* WeightedProbabilityBasedSquaredError._set_weights_by_mode as regenerated = the repaired step of the model, for all five modes *)
Theorem C13_gen_sq_modes : forall (D W : Type) (invw : bool -> D -> W) (o : @wmode W) (d : D) (old : option W) (dflt : W),
  act_weights invw (gen_sq_action (mode_name o)) (mode_custom o dflt) d old = new_weights_p invw repaired o d old.
Proof. intros. destruct o; reflexivity. Qed.
Print Assumptions C13_gen_sq_modes.

(* WeightedRelativeEntropy._set_weights_by_mode as regenerated = r_new_weights *)
Theorem C13_gen_re_modes : forall (D W : Type) (invw : bool -> D -> W) (o : @wmode W) (d : D) (old : option W) (dflt : W),
  act_weights invw (gen_re_action (mode_name o)) (mode_custom o dflt) d old = r_new_weights o old.
Proof. intros. destruct o; reflexivity. Qed.
Print Assumptions C13_gen_re_modes.

(* what fx_ext = true of the model means in the source: the setters of the fast losses rebuild the cached extension, and
   the squared-error one clears it when there are no weights *)
Theorem C13_gen_fast_extension_refreshed :
  gen_fast_setter_rebuilds = true /\ gen_fast_clears_on_none = true /\ gen_refast_setter_rebuilds = true.
Proof. repeat split. Qed.
Print Assumptions C13_gen_fast_extension_refreshed.

(* ================= G3: ProjectedGradientDescent ================= *)
(* a_step_fixed: the early return happens exactly for a projection handed to the constructor; otherwise the projection is
   chosen from the two constraint flags as documented *)
Theorem C13_gen_pgd_dispatch :
  gen_pgd_keeps_user = true /\
  forall eq ineq, gen_pgd_choice eq ineq = (if eq then (if ineq then PPhysical else PEq) else (if ineq then PIneq else PSelf)).
Proof. split; [reflexivity|]. intros [|] [|]; reflexivity. Qed.
Print Assumptions C13_gen_pgd_dispatch.

(* ================= G4: call skeletons ================= *)
Fixpoint idx (a : string) (l : list string) : option nat :=
  match l with [] => None | x :: t => if String.eqb a x then Some 0%nat else option_map S (idx a t) end.
Definition before (a b : string) (l : list string) : bool :=
  match idx a l, idx b l with Some i, Some j => Nat.ltb i j | _, _ => false end.

(* est_step_*p of the model: for EVERY data set (inside the loop) the loss is configured with that data set before the
   algorithm takes the loss and before the optimiser runs; the algorithm's option / projection (which do not depend on
   the data set) are set before the optimiser runs - inside the loop or, harmlessly, once before it; nothing happens
   after the loop *)
Definition est_calls : list string := gen_est_calls_before_loop ++ gen_est_loop_calls.
Theorem C13_gen_estimation_loop :
  gen_est_calls_after_loop = [] /\
  idx "loss.set_from_standard_qtomography_option_data" gen_est_calls_before_loop = None /\
  idx "algo.optimize" gen_est_calls_before_loop = None /\
  before "loss.set_from_standard_qtomography_option_data" "algo.set_from_loss" gen_est_loop_calls = true /\
  before "loss.set_from_standard_qtomography_option_data" "algo.optimize" gen_est_loop_calls = true /\
  before "algo.set_from_loss" "algo.optimize" gen_est_loop_calls = true /\
  before "algo.set_from_option" "algo.optimize" est_calls = true /\
  before "algo.set_constraint_from_standard_qt_and_option" "algo.optimize" est_calls = true.
Proof. repeat split; reflexivity. Qed.
Print Assumptions C13_gen_estimation_loop.

(* the Configure step of the loss machines: option, data, probability functions, and - unconditionally, after them - the
   weights of the mode of THIS call *)
Theorem C13_gen_loss_configure_sequence :
  before "self.set_from_option" "self._set_weights_by_mode" gen_loss_configure_calls = true /\
  before "self.set_prob_dists_q" "self._set_weights_by_mode" gen_loss_configure_calls = true /\
  before "self.set_func_prob_dists_from_standard_qt" "self._set_weights_by_mode" gen_loss_configure_calls = true /\
  before "self.set_func_gradient_prob_dists_from_standard_qt?" "self._set_weights_by_mode" gen_loss_configure_calls = true.
Proof. repeat split; reflexivity. Qed.
Print Assumptions C13_gen_loss_configure_sequence.

(* ================= G5: copies share no mutable member ================= *)
Definition deep (m : string) (l : list (string * bool)) : bool := existsb (fun p => String.eqb (fst p) m && snd p) l.
Definition passed_through (l : list (string * bool)) : list string := map fst (filter (fun p => negb (snd p)) l).
(* "copies are independent of their originals", on the regenerated _copy methods: every member that holds mutable data (the
   arrays; for an MProcess also random_seed_or_generator, which may be a np.random.Generator instance) is handed to the new
   object as a deep copy; only immutable members (shape: tuple, mode_sampling: bool) may be passed through; copy() builds the
   new object from the values _copy() returns *)
Theorem C13_gen_copy_shares_no_mutable_member :
  deep "vec" gen_copy_State = true /\ passed_through gen_copy_State = [] /\
  deep "hs" gen_copy_Gate = true /\ passed_through gen_copy_Gate = [] /\
  deep "vecs" gen_copy_Povm = true /\ passed_through gen_copy_Povm = [] /\
  deep "hss" gen_copy_MProcess = true /\ deep "random_seed_or_generator" gen_copy_MProcess = true /\
  forallb (fun m => String.eqb m "shape" || String.eqb m "mode_sampling") (passed_through gen_copy_MProcess) = true /\
  gen_copy_uses_private_copy = true.
Proof. repeat split; reflexivity. Qed.
Print Assumptions C13_gen_copy_shares_no_mutable_member.

(* ================= G6: reading is not an operation ================= *)
(* no @property getter of the object, container, tomography, loss and algorithm classes assigns to (a part of) self, deletes an
   attribute or calls a setter / builder: a read cannot change its object (the lazily building getters of CompositeSystem
   are the subject of G1) *)
Theorem C13_gen_getters_are_pure_reads : gen_impure_getters = [] /\ Nat.leb 60 gen_getters_scanned = true.
Proof. split; reflexivity. Qed.
Print Assumptions C13_gen_getters_are_pure_reads.
