(* C01 — translator tie, re-checked on EVERY run against Gen_c01_glue.v, which gen/c01_py2coq.py regenerates from /repo's current
   source (compiled in the run's scratch directory as QVGen.Gen_c01_glue).

   1. C01_gen_templates_pinned: the numeric primitives (and calls) the glue refers to are, as canonical source text, exactly the ones
      read below.  A changed / added / removed numeric expression breaks this theorem.
   2. Reading of the templates: each is given its meaning — a numeric primitive of Model/C01_Verdicts.v (trace, sum matrix, first HS row,
      image traces, Hermiticity test, eigenvalue test = exact PSD decision, Choi matrix) or the EVALUATION of another regenerated function.
      Environments are layered so that every function is evaluated in an environment that reads exactly its callees.
   3. C01_gen_*: for ALL tolerance arguments (None or a value), every Settings value, every object, the regenerated glue evaluates to
      the hand-written verdict model with rtol = 0: tolerance resolution, routing of atol_eq_const / atol_ineq_const, the conjunction,
      the basis-flag branch of is_tp, the element loops, and the constructors' raise.
   What is NOT tied here: the meaning of the numeric templates themselves (they are compared with the model differentially by the
   harness), and the parts of the constructors before the physicality guard. *)
From Coq Require Import String List Bool Arith Lia.
From QV.Core Require Import OF Sums Mat Cplx Psd C01_HermPsd.
From QV.Model Require Import QObj HermEmbed C01_Verdicts C01_Glue.
From QV.Proofs Require Import C01_Verdicts C01_Glue.
From QVGen Require Import Gen_c01_glue.
Import ListNotations.
Local Open Scope string_scope.

Theorem C01_gen_templates_pinned : gen_templates = [
  (* 0 *) "adjoint = matrix.conj().T ;; allclose(matrix, adjoint, atol=<0>, rtol=<1>)";
  (* 1 *) "eigvals_array = np.linalg.eigvalsh(matrix) ;; close_zero = np.where(np.isclose(eigvals_array, 0, atol=<0>, rtol=<1>)) ;; eigvals_not_close_zero = np.delete(eigvals_array, close_zero) ;; np.all(eigvals_not_close_zero >= 0)";
  (* 2 *) "expected_row = np.zeros(c_sys.dim ** 2) ;; expected_row[0] = 1 ;; np.allclose(hs[0], expected_row, atol=<0>, rtol=<1>)";
  (* 3 *) "for (index, basis) in enumerate(c_sys.basis()): ;; trace_before_mapped = basis.diagonal().sum() ;; vec = np.zeros(c_sys.dim ** 2) ;; vec[index] = 1 ;; vec_after_mapped = hs @ vec ;; density = np.zeros((c_sys.dim, c_sys.dim), dtype=np.complex128) ;; for coefficient, basis in zip(vec_after_mapped, c_sys.basis()): ;;     density += coefficient * basis ;; trace_after_mapped = np.trace(density) ;; np.isclose(trace_after_mapped, trace_before_mapped, atol=<0>, rtol=<1>)";
  (* 4 *) "for hs in self.hss: ;; gate.is_cp(self.composite_system, hs, <0>)";
  (* 5 *) "for m in self.matrices_with_sparsity(): ;; mutil.is_positive_semidefinite(m, <0>)";
  (* 6 *) "is_cp(self.composite_system, self.hs, <0>)";
  (* 7 *) "is_hermitian(matrix, <0>)";
  (* 8 *) "is_tp(self.composite_system, self.hs, <0>)";
  (* 9 *) "mutil.is_hermitian(self.to_density_matrix_with_sparsity(), atol=<0>)";
  (* 10 *) "mutil.is_positive_semidefinite(self.to_density_matrix_with_sparsity(), atol=<0>)";
  (* 11 *) "mutil.is_positive_semidefinite(to_choi_from_hs_with_sparsity(c_sys, hs), atol=<0>)";
  (* 12 *) "rows, columns = matrix.shape ;; rows != columns";
  (* 13 *) "self.is_cp(<0>)";
  (* 14 *) "self.is_cp(atol=<0>)";
  (* 15 *) "self.is_eq_constraint_satisfied(<0>)";
  (* 16 *) "self.is_identity_sum(<0>)";
  (* 17 *) "self.is_ineq_constraint_satisfied(<0>)";
  (* 18 *) "self.is_physical()";
  (* 19 *) "self.is_positive_semidefinite(<0>)";
  (* 20 *) "self.is_sum_tp(atol=<0>)";
  (* 21 *) "self.is_tp(<0>)";
  (* 22 *) "self.is_trace_one(<0>)";
  (* 23 *) "sum_hss = np.sum(self._hss, axis=0) ;; gate.is_tp(self.composite_system, sum_hss, <0>)";
  (* 24 *) "sum_matrix = self._sum_matrix() ;; identity = np.identity(self.dim, dtype=np.complex128) ;; np.allclose(sum_matrix, identity, atol=<0>, rtol=<1>)";
  (* 25 *) "tr = np.trace(self.to_density_matrix_with_sparsity()) ;; np.isclose(tr, 1, atol=<0>, rtol=<1>)"
].
Proof. reflexivity. Qed.
Print Assumptions C01_gen_templates_pinned.

Section Tie.
Context (F : OF).
Variable st : F.                       (* Settings.get_atol() at the time of the call *)
Notation Cx := (CF F).

Definition no_flag : string -> bool := fun _ => false.
Definition no_len : string -> nat := fun _ => O.
Definition mk (fl : string -> bool) (ln : string -> nat) (pr : nat -> nat -> list (option F) -> bool) : genv F :=
  Build_genv st fl ln pr.
(* numeric primitive with holes [atol; rtol]; the templates whose numpy meaning involves |b| (allclose against a non-constant) are read
   only for rtol = 0 (the [keqb] test): with any other rtol the reading is "false", so that a dropped `rtol=0.0` breaks the tie *)
Definition with_atol_rtol0 (args : list (option F)) (f : F -> bool) : bool :=
  match args with [Some a; Some r] => keqb F r (c0 F) && f a | _ => false end.
Definition with_atol_rtol (args : list (option F)) (f : F -> F -> bool) : bool :=
  match args with [Some a; Some r] => f a r | _ => false end.
Definition run (g : genv F) (params : list string) (body : stmt) (args : list (option F)) : bool := ret_true (call g params body 0 args).

(* ---------------------------------------------------------------- matrix_util on an n x n matrix H *)
Section Mutil.
Variables (n : nat) (H : cmat F).
Definition g_mutil0 : genv F := mk no_flag no_len (fun id _ args =>
  match id with
  | 12 => false                                                   (* rows != columns : the model covers square matrices *)
  | 0 => with_atol_rtol0 args (fun a => mutil_is_hermitian n H a)
  | _ => false end).
Definition g_mutil1 : genv F := mk no_flag no_len (fun id _ args =>
  match id with
  | 7 => run g_mutil0 gen_mutil_is_hermitian_params gen_mutil_is_hermitian args
  | 1 => with_atol_rtol args (fun a _ => herm_psd_dec F n (lowerherm H) a)   (* isclose(lambda, 0, atol, rtol) = |lambda| <= atol whatever rtol *)
  | _ => false end).
Lemma gen_mutil_is_hermitian_eq a :
  run g_mutil0 gen_mutil_is_hermitian_params gen_mutil_is_hermitian [a] = mutil_is_hermitian n H (resolve_atol st a).
Proof. destruct a as [a|]; cbv [run call bind upd eval eval_b eval_tol ret_true gen_mutil_is_hermitian gen_mutil_is_hermitian_params
    g_mutil0 mk g_prim g_settings map with_atol_rtol0 String.eqb Ascii.eqb Bool.eqb resolve_atol]; now rewrite keqb_refl. Qed.
Lemma gen_mutil_is_psd_eq a :
  run g_mutil1 gen_mutil_is_positive_semidefinite_params gen_mutil_is_positive_semidefinite [a] = mutil_is_psd n H (resolve_atol st a).
Proof. unfold mutil_is_psd. pose proof (gen_mutil_is_hermitian_eq (Some (resolve_atol st a))) as E. change (resolve_atol st (Some (resolve_atol st a))) with (resolve_atol st a) in E. rewrite <- E. clear E.
  destruct a as [a|]; cbv [run call bind upd eval eval_b eval_tol ret_true gen_mutil_is_positive_semidefinite
    gen_mutil_is_positive_semidefinite_params g_mutil1 mk g_prim g_settings map with_atol_rtol String.eqb Ascii.eqb Bool.eqb resolve_atol];
  match goal with |- context [if ?c then _ else _] => destruct c end; reflexivity. Qed.
End Mutil.

(* QOperation.is_physical over given equality / inequality verdict functions *)
Definition g_phys (veq vineq : list (option F) -> bool) : genv F := mk no_flag no_len (fun id _ args =>
  match id with 15 => veq args | 17 => vineq args | _ => false end).
Lemma gen_is_physical_eq veq vineq a b :
  run (g_phys veq vineq) gen_QOperation_is_physical_params gen_QOperation_is_physical [a; b] = veq [a] && vineq [b].
Proof. destruct a, b; (reflexivity || (etransitivity; [|apply andb_comm]; reflexivity)). Qed.     (* either order of the two conjuncts *)
(* the constructors' guard: self.is_physical() is is_physical with both tolerances omitted *)
Definition g_ctor (flags : string -> bool) (phys : list (option F) -> bool) : genv F := mk flags no_len (fun id _ args =>
  match id with 18 => phys args | _ => false end).
Ltac guard_tac required p :=
  cbv [raises call bind eval eval_b g_ctor mk g_flag g_prim map
       gen_State_init_guards gen_Povm_init_guards gen_Gate_init_guards gen_MProcess_init_guards];
  generalize p; let q := fresh "q" in intros q; destruct required, q; reflexivity.

(* ---------------------------------------------------------------- State *)
Section State.
Variables (d : nat) (B : nat -> cmat F) (v : rvec F).
Definition g_state1 : genv F := mk no_flag no_len (fun id _ args =>
  match id with
  | 25 => with_atol_rtol args (fun a r => ciscl (state_trace d B v) (c1 Cx) (c1 F) a r)
  | 9 => run (g_mutil0 d (op_of_vec d B v)) gen_mutil_is_hermitian_params gen_mutil_is_hermitian args
  | 10 => run (g_mutil1 d (op_of_vec d B v)) gen_mutil_is_positive_semidefinite_params gen_mutil_is_positive_semidefinite args
  | _ => false end).
Definition g_state2 : genv F := mk no_flag no_len (fun id _ args =>
  match id with
  | 22 => run g_state1 gen_State_is_trace_one_params gen_State_is_trace_one args
  | 19 => run g_state1 gen_State_is_positive_semidefinite_params gen_State_is_positive_semidefinite args
  | _ => false end).
Definition state_eq (args : list (option F)) := run g_state2 gen_State_is_eq_constraint_satisfied_params gen_State_is_eq_constraint_satisfied args.
Definition state_ineq (args : list (option F)) := run g_state2 gen_State_is_ineq_constraint_satisfied_params gen_State_is_ineq_constraint_satisfied args.
Definition state_phys (args : list (option F)) := run (g_phys state_eq state_ineq) gen_QOperation_is_physical_params gen_QOperation_is_physical args.

Lemma state_eq_eq a : state_eq [a] = state_is_trace_one d B v (resolve_atol st a) (c0 F).
Proof. destruct a; reflexivity. Qed.
Lemma state_ineq_eq a : state_ineq [a] = state_is_psd d B v (resolve_atol st a).
Proof. unfold state_is_psd. rewrite <- (gen_mutil_is_psd_eq d (op_of_vec d B v) a). destruct a; reflexivity. Qed.
Lemma state_herm_eq a : run g_state1 gen_State_is_hermitian_params gen_State_is_hermitian [a] = state_is_hermitian d B v (resolve_atol st a).
Proof. unfold state_is_hermitian. rewrite <- (gen_mutil_is_hermitian_eq d (op_of_vec d B v) a). destruct a; reflexivity. Qed.

(* is_physical(atol_eq_const, atol_ineq_const), as regenerated from qoperation.py + state.py + matrix_util.py, is the model's *)
Theorem C01_gen_state_is_physical a b : state_phys [a; b] = state_is_physical st (c0 F) d B v a b.
Proof. unfold state_phys, state_is_physical. now rewrite gen_is_physical_eq, state_eq_eq, state_ineq_eq. Qed.
Theorem C01_gen_state_subverdicts a :
  state_eq [a] = state_is_trace_one d B v (resolve_atol st a) (c0 F) /\ state_ineq [a] = state_is_psd d B v (resolve_atol st a) /\
  run g_state1 gen_State_is_hermitian_params gen_State_is_hermitian [a] = state_is_hermitian d B v (resolve_atol st a).
Proof. split; [apply state_eq_eq|]. split; [apply state_ineq_eq|apply state_herm_eq]. Qed.
Lemma state_phys_nil : state_phys [] = state_phys [None; None].
Proof. reflexivity. Qed.
Theorem C01_gen_state_ctor required :
  raises (call (g_ctor (fun _ => required) state_phys) gen_State_init_guards_params gen_State_init_guards 0 [])
  = state_ctor_raises st (c0 F) d B v required.
Proof. unfold state_ctor_raises, ctor_raises. rewrite <- (C01_gen_state_is_physical None None), <- state_phys_nil. guard_tac required (state_phys []). Qed.
End State.

(* ---------------------------------------------------------------- Povm (m elements) *)
Section Povm.
Variables (d : nat) (B : nat -> cmat F) (m : nat) (vs : nat -> rvec F).
Definition g_povm1 : genv F := mk no_flag (fun _ => m) (fun id j args =>
  match id with
  | 24 => with_atol_rtol0 args (fun a => povm_is_identity_sum d B m vs a (c0 F))
  | 5 => run (g_mutil1 d (op_of_vec d B (vs j))) gen_mutil_is_positive_semidefinite_params gen_mutil_is_positive_semidefinite args
  | _ => false end).
Definition g_povm2 : genv F := mk no_flag no_len (fun id _ args =>
  match id with
  | 16 => run g_povm1 gen_Povm_is_identity_sum_params gen_Povm_is_identity_sum args
  | 19 => run g_povm1 gen_Povm_is_positive_semidefinite_params gen_Povm_is_positive_semidefinite args
  | _ => false end).
Definition povm_eq (args : list (option F)) := run g_povm2 gen_Povm_is_eq_constraint_satisfied_params gen_Povm_is_eq_constraint_satisfied args.
Definition povm_ineq (args : list (option F)) := run g_povm2 gen_Povm_is_ineq_constraint_satisfied_params gen_Povm_is_ineq_constraint_satisfied args.
Definition povm_phys (args : list (option F)) := run (g_phys povm_eq povm_ineq) gen_QOperation_is_physical_params gen_QOperation_is_physical args.

Lemma povm_eq_eq a : povm_eq [a] = povm_is_identity_sum d B m vs (resolve_atol st a) (c0 F).
Proof. destruct a; cbv [povm_eq run call bind upd eval eval_b eval_tol ret_true gen_Povm_is_eq_constraint_satisfied gen_Povm_is_eq_constraint_satisfied_params
    gen_Povm_is_identity_sum gen_Povm_is_identity_sum_params g_povm2 g_povm1 mk g_prim g_settings map with_atol_rtol0 String.eqb Ascii.eqb Bool.eqb resolve_atol];
  now rewrite keqb_refl. Qed.
Lemma povm_ineq_eq a : povm_ineq [a] = povm_is_psd d B m vs (resolve_atol st a).
Proof. unfold povm_is_psd.
  assert (E : forall t : F, run g_povm1 gen_Povm_is_positive_semidefinite_params gen_Povm_is_positive_semidefinite [Some t]
                            = allb m (fun x => mutil_is_psd d (op_of_vec d B (vs x)) t)).
  { intros t. unfold run, call. cbn [bind gen_Povm_is_positive_semidefinite eval eval_tol upd]. cbv [String.eqb Ascii.eqb Bool.eqb].
    cbn [g_len g_povm1 mk].
    rewrite (scan_allb _ (fun j => mutil_is_psd d (op_of_vec d B (vs j)) t) m).
    - destruct (allb m _); reflexivity.
    - intros j. cbv [eval eval_b g_prim g_povm1 mk map eval_tol upd bind gen_Povm_is_positive_semidefinite_params String.eqb Ascii.eqb Bool.eqb].
      rewrite (gen_mutil_is_psd_eq d (op_of_vec d B (vs j)) (Some t)). cbn [resolve_atol negb].
      destruct (mutil_is_psd d (op_of_vec d B (vs j)) t); reflexivity. }
  destruct a as [a|]; cbn [resolve_atol]; rewrite <- E; reflexivity. Qed.
Theorem C01_gen_povm_is_physical a b : povm_phys [a; b] = povm_is_physical st (c0 F) d B m vs a b.
Proof. unfold povm_phys, povm_is_physical. now rewrite gen_is_physical_eq, povm_eq_eq, povm_ineq_eq. Qed.
Lemma povm_phys_nil : povm_phys [] = povm_phys [None; None].
Proof. reflexivity. Qed.
Theorem C01_gen_povm_ctor required :
  raises (call (g_ctor (fun _ => required) povm_phys) gen_Povm_init_guards_params gen_Povm_init_guards 0 [])
  = povm_ctor_raises st (c0 F) d B m vs required.
Proof. unfold povm_ctor_raises, ctor_raises. rewrite <- (C01_gen_povm_is_physical None None), <- povm_phys_nil. guard_tac required (povm_phys []). Qed.
End Povm.
(* ---------------------------------------------------------------- gate.is_tp / gate.is_cp (module level) on an HS matrix *)
Section Gate.
Variables (flag : bool) (d : nat) (B : nat -> cmat F).
Definition flag_name := "c_sys.is_orthonormal_hermitian_0thprop_identity".
Definition g_gate1 (HS : rmat F) : genv F := mk (fun _ => flag) (fun _ => (d * d)%nat) (fun id j args =>
  match id with
  | 2 => with_atol_rtol0 args (fun a => gate_is_tp_row d HS a)
  | 3 => with_atol_rtol0 args (fun a => ciscl (gate_image_trace d B HS j) (mtrace d (B j)) (c0 F) a (c0 F))
  | 11 => run (g_mutil1 (d * d) (choi_of_hs d B HS)) gen_mutil_is_positive_semidefinite_params gen_mutil_is_positive_semidefinite args
  | _ => false end).
Definition fn_is_tp (HS : rmat F) (args : list (option F)) := run (g_gate1 HS) gen_gate_is_tp_params gen_gate_is_tp args.
Definition fn_is_cp (HS : rmat F) (args : list (option F)) := run (g_gate1 HS) gen_gate_is_cp_params gen_gate_is_cp args.

Lemma fn_is_tp_eq HS a : fn_is_tp HS [a] = gate_is_tp flag d B HS (resolve_atol st a).
Proof.
  assert (E : forall t : F, fn_is_tp HS [Some t] = gate_is_tp flag d B HS t).
  { intros t. unfold fn_is_tp, run, call, gate_is_tp.
    cbv [bind gen_gate_is_tp gen_gate_is_tp_params eval eval_tol eval_b upd String.eqb Ascii.eqb Bool.eqb g_flag g_gate1 mk].
    destruct flag.
    - cbv [g_prim map eval_tol with_atol_rtol0 ret_true]. now rewrite keqb_refl.
    - cbn [g_len].
      rewrite (scan_allb _ (fun j => ciscl (gate_image_trace d B HS j) (mtrace d (B j)) (c0 F) t (c0 F)) (d * d)).
      + unfold gate_is_tp_trace. destruct (allb (d * d) _); reflexivity.
      + intros j. cbv [eval eval_b g_prim map eval_tol upd with_atol_rtol0 String.eqb Ascii.eqb Bool.eqb]. rewrite keqb_refl. cbn [andb].
        destruct (ciscl _ _ _ _ _); reflexivity. }
  destruct a as [a|]; cbn [resolve_atol]; rewrite <- E; reflexivity. Qed.
Lemma fn_is_cp_eq HS a : fn_is_cp HS [a] = gate_is_cp d B HS (resolve_atol st a).
Proof. unfold gate_is_cp. rewrite <- (gen_mutil_is_psd_eq (d * d) (choi_of_hs d B HS) a). destruct a; reflexivity. Qed.

(* ---- Gate object *)
Variable HS : rmat F.
Definition g_gate2 : genv F := mk no_flag no_len (fun id _ args =>
  match id with 8 => fn_is_tp HS args | 6 => fn_is_cp HS args | _ => false end).
Definition g_gate3 : genv F := mk no_flag no_len (fun id _ args =>
  match id with
  | 21 => run g_gate2 gen_Gate_is_tp_params gen_Gate_is_tp args
  | 13 => run g_gate2 gen_Gate_is_cp_params gen_Gate_is_cp args
  | _ => false end).
Definition gate_eq (args : list (option F)) := run g_gate3 gen_Gate_is_eq_constraint_satisfied_params gen_Gate_is_eq_constraint_satisfied args.
Definition gate_ineq (args : list (option F)) := run g_gate3 gen_Gate_is_ineq_constraint_satisfied_params gen_Gate_is_ineq_constraint_satisfied args.
Definition gate_phys (args : list (option F)) := run (g_phys gate_eq gate_ineq) gen_QOperation_is_physical_params gen_QOperation_is_physical args.
Lemma gate_eq_eq a : gate_eq [a] = gate_is_tp flag d B HS (resolve_atol st a).
Proof. rewrite <- fn_is_tp_eq. destruct a; reflexivity. Qed.
Lemma gate_ineq_eq a : gate_ineq [a] = gate_is_cp d B HS (resolve_atol st a).
Proof. rewrite <- fn_is_cp_eq. destruct a; reflexivity. Qed.
Theorem C01_gen_gate_is_physical a b : gate_phys [a; b] = gate_is_physical st flag d B HS a b.
Proof. unfold gate_phys, gate_is_physical. now rewrite gen_is_physical_eq, gate_eq_eq, gate_ineq_eq. Qed.
Lemma gate_phys_nil : gate_phys [] = gate_phys [None; None].
Proof. reflexivity. Qed.
Theorem C01_gen_gate_ctor required :
  raises (call (g_ctor (fun _ => required) gate_phys) gen_Gate_init_guards_params gen_Gate_init_guards 0 [])
  = gate_ctor_raises st flag d B HS required.
Proof. unfold gate_ctor_raises, ctor_raises. rewrite <- (C01_gen_gate_is_physical None None), <- gate_phys_nil. guard_tac required (gate_phys []). Qed.

(* ---------------------------------------------------------------- MProcess (m outcomes) *)
Variables (m : nat) (hss : nat -> rmat F).
Definition g_mp1 : genv F := mk no_flag (fun _ => m) (fun id j args =>
  match id with
  | 23 => fn_is_tp (mprocess_sum_hs m hss) args
  | 4 => fn_is_cp (hss j) args
  | _ => false end).
Definition g_mp2 : genv F := mk no_flag no_len (fun id _ args =>
  match id with
  | 20 => run g_mp1 gen_MProcess_is_sum_tp_params gen_MProcess_is_sum_tp args
  | 14 => run g_mp1 gen_MProcess_is_cp_params gen_MProcess_is_cp args
  | _ => false end).
Definition mp_eq (args : list (option F)) := run g_mp2 gen_MProcess_is_eq_constraint_satisfied_params gen_MProcess_is_eq_constraint_satisfied args.
Definition mp_ineq (args : list (option F)) := run g_mp2 gen_MProcess_is_ineq_constraint_satisfied_params gen_MProcess_is_ineq_constraint_satisfied args.
Definition mp_phys (args : list (option F)) := run (g_phys mp_eq mp_ineq) gen_QOperation_is_physical_params gen_QOperation_is_physical args.
Lemma mp_eq_eq a : mp_eq [a] = mprocess_is_sum_tp flag d B m hss (resolve_atol st a).
Proof. unfold mprocess_is_sum_tp. rewrite <- fn_is_tp_eq. destruct a; reflexivity. Qed.
Lemma mp_ineq_eq a : mp_ineq [a] = mprocess_is_cp d B m hss (resolve_atol st a).
Proof. unfold mprocess_is_cp.
  assert (E : forall a : option F, run g_mp1 gen_MProcess_is_cp_params gen_MProcess_is_cp [a]
                                   = allb m (fun x => gate_is_cp d B (hss x) (resolve_atol st a))).
  { intros a0. unfold run, call. cbn [bind gen_MProcess_is_cp gen_MProcess_is_cp_params eval]. cbn [g_len g_mp1 mk].
    rewrite (scan_allb _ (fun j => gate_is_cp d B (hss j) (resolve_atol st a0)) m).
    - destruct (allb m _); reflexivity.
    - intros j. cbv [eval eval_b g_prim g_mp1 mk map eval_tol upd bind String.eqb Ascii.eqb Bool.eqb].
      rewrite (fn_is_cp_eq (hss j) a0). destruct (gate_is_cp d B (hss j) (resolve_atol st a0)); reflexivity. }
  rewrite <- E. destruct a; reflexivity. Qed.
Theorem C01_gen_mprocess_is_physical a b : mp_phys [a; b] = mprocess_is_physical st flag d B m hss a b.
Proof. unfold mp_phys, mprocess_is_physical. now rewrite gen_is_physical_eq, mp_eq_eq, mp_ineq_eq. Qed.
Lemma mp_phys_nil : mp_phys [] = mp_phys [None; None].
Proof. reflexivity. Qed.
(* the constructor: basis-flag guard, then the physicality guard *)
Theorem C01_gen_mprocess_ctor required :
  raises (call (g_ctor (fun s => if String.eqb s flag_name then flag else required) mp_phys)
               gen_MProcess_init_guards_params gen_MProcess_init_guards 0 [])
  = mprocess_ctor_raises st flag d B m hss required.
Proof. unfold mprocess_ctor_raises, ctor_raises. rewrite <- (C01_gen_mprocess_is_physical None None), <- mp_phys_nil.
  cbv [raises call bind eval eval_b g_ctor mk g_flag g_prim map gen_MProcess_init_guards flag_name String.eqb Ascii.eqb Bool.eqb].
  generalize (mp_phys []); intros q. destruct flag, required, q; reflexivity. Qed.
End Gate.
End Tie.

(* ---------------------------------------------------------------- quara/settings.py *)
Section SettingsTie.
Context (F : OF).
(* after set_atol(x) with a float x, get_atol() returns x (and nothing else about the call is remembered); this is the [HSet] / [TSettings]
   reading of Model/C01_History.v and Model/C01_Glue.v *)
Theorem C01_gen_settings_set_then_get : forall (cls : clsstate F) (x : F) (a : pyarg F),
  snd (eval_s gen_Settings_set_atol cls (PFloat x)) = RNone /\
  eval_s gen_Settings_get_atol (fst (eval_s gen_Settings_set_atol cls (PFloat x))) a
  = (fst (eval_s gen_Settings_set_atol cls (PFloat x)), RVal x).
Proof. intros cls x a. split; [reflexivity|]. cbn. unfold upd. now rewrite ?String.eqb_refl. Qed.
(* a non-float argument is rejected with TypeError and leaves the setting unchanged; reading never changes the setting *)
Theorem C01_gen_settings_guard_and_purity : forall (cls : clsstate F) (a : pyarg F),
  eval_s gen_Settings_set_atol cls POther = (cls, RTypeError) /\ fst (eval_s gen_Settings_get_atol cls a) = cls.
Proof. intros cls a. split; reflexivity. Qed.
(* the default global tolerance is the float literal 1e-13 *)
Theorem C01_gen_settings_default : forall attr, gen_Settings_get_atol = SsRet attr -> In (attr, "1e-13") gen_Settings_class_attrs.
Proof. intros attr E. injection E as <-. cbn. auto. Qed.
End SettingsTie.

(* ---------------------------------------------------------------- _generate_origin_obj / _generate_zero_obj of the four classes *)
Section OriginTie.
Context (F : OF).
(* the regenerated origin / zero data ARE the model's (every index; x = any element of the POVM / instrument) *)
Theorem C01_gen_origin_zero_data : forall (sd : F) (m x a b : nat),
  (eval_arr1 sd m gen_State_origin a = state_origin sd a /\ eval_arr1 sd m gen_Povm_origin a = povm_origin sd m x a) /\
  (eval_arr2 sd m gen_Gate_origin a b = @gate_origin F a b /\ eval_arr2 sd m gen_MProcess_origin a b = mprocess_origin m x a b) /\
  (eval_arr1 sd m gen_State_zero a = @state_zero F a /\ eval_arr1 sd m gen_Povm_zero a = @povm_zero F x a) /\
  (eval_arr2 sd m gen_Gate_zero a b = @gate_zero F a b /\ eval_arr2 sd m gen_MProcess_zero a b = @mprocess_zero F x a b).
Proof. intros sd m x a b. split; [split; reflexivity|]. split; [split; reflexivity|]. split; split; reflexivity. Qed.
(* one such array per element of the POVM / instrument, a single array for states and gates *)
Theorem C01_gen_origin_zero_iteration :
  (gen_State_origin_iter = "" /\ gen_State_zero_iter = "" /\ gen_Gate_origin_iter = "" /\ gen_Gate_zero_iter = "") /\
  (In gen_Povm_origin_iter ["range(len(self.vecs))"; "self.vecs"] /\ In gen_Povm_zero_iter ["range(len(self.vecs))"; "self.vecs"]) /\
  (In gen_MProcess_origin_iter ["range(len(self.hss))"; "self.hss"] /\ In gen_MProcess_zero_iter ["range(len(self.hss))"; "self.hss"]).
Proof. split; [split; [reflexivity|split; [reflexivity|split; reflexivity]]|]. split; (split; cbn; auto). Qed.
(* hence (Props C01_origin_objects_physical transported): the origin objects AS REGENERATED FROM THE SOURCE are physical, for every d, m,
   every basis with B_0 = I/sd, sd*sd = d, every tolerance >= 0 *)
Theorem C01_gen_origin_objects_physical : forall (st rtol : F) flag d (sd : F) B m aeq aineq,
  (flag = false -> basis_orthonormal d B) -> basis_0th_identity d sd B -> cmul F sd sd = knat d -> kle F (c0 F) sd ->
  (0 < d)%nat -> (0 < m)%nat ->
  kle F (c0 F) (resolve_atol st aeq) -> kle F (c0 F) (resolve_atol st aineq) -> kle F (c0 F) rtol ->
  state_is_physical st rtol d B (eval_arr1 sd m gen_State_origin) aeq aineq = true /\
  povm_is_physical st rtol d B m (fun _ => eval_arr1 sd m gen_Povm_origin) aeq aineq = true /\
  gate_is_physical st flag d B (eval_arr2 sd m gen_Gate_origin) aeq aineq = true /\
  mprocess_is_physical st flag d B m (fun _ => eval_arr2 sd m gen_MProcess_origin) aeq aineq = true.
Proof. intros st rtol flag d sd B m aeq aineq Ho H0 Hsd Hs Hd Hm Ha1 Ha2 Hr.
  split; [exact (state_origin_physical F st rtol d sd B aeq aineq H0 Hsd Hd Ha1 Ha2 Hr)|].
  split; [exact (povm_origin_physical F st rtol d sd B m aeq aineq H0 Hsd Hd Hm Ha1 Ha2 Hr)|].
  split; [exact (gate_origin_physical F st flag d sd B aeq aineq Ho H0 Hsd Hs Hd Ha1 Ha2)|].
  exact (mprocess_origin_physical F st flag d sd B m aeq aineq Ho H0 Hsd Hs Hd Hm Ha1 Ha2). Qed.
End OriginTie.

Print Assumptions C01_gen_state_is_physical.
Print Assumptions C01_gen_state_subverdicts.
Print Assumptions C01_gen_state_ctor.
Print Assumptions C01_gen_povm_is_physical.
Print Assumptions C01_gen_povm_ctor.
Print Assumptions C01_gen_gate_is_physical.
Print Assumptions C01_gen_gate_ctor.
Print Assumptions C01_gen_mprocess_is_physical.
Print Assumptions C01_gen_mprocess_ctor.
Print Assumptions C01_gen_settings_set_then_get.
Print Assumptions C01_gen_settings_guard_and_purity.
Print Assumptions C01_gen_settings_default.
Print Assumptions C01_gen_origin_zero_data.
Print Assumptions C01_gen_origin_zero_iteration.
Print Assumptions C01_gen_origin_objects_physical.
