(* C05 — translator tie, part 1 (re-checked on every run against Gen_c05_dykstra.v, which gen/c05_py2coq.py regenerates
   from /repo's quara/objects/qoperation.py): the oracle table and self-attribute table under which the generated
   functions are compared with the model, the stopping-criterion arithmetic
     _calc_stopping_criterion_birgin_raydan2_vectors  = Model.br       (the quantity the loop uses)
     _calc_stopping_criterion_birgin_raydan_vectors   = Model.br_full  (defined, unused by the loop)
     _is_satisfied_stopping_criterion_birgin_raydan_vectors / _qoperations = (error < eps  STRICT, error)
   for every vector length, every ordered field and all inputs, and the vocabulary shared by C05_EquivVar / C05_EquivObj.
   ORACLE TABLE [orc]: what is NOT translated.  The two constraint projections are arbitrary functions Peq / Pineq, but
   only when called with exactly the arguments the code is expected to pass (self, self.composite_system, the vector,
   on_para_eq_constraint=False, eps_truncate_imaginary_part=self.eps_truncate_imaginary_part); any other call shape
   yields VErr, which makes the equivalence proofs fail.  A QOperation object is represented by its stacked vector
   (copy / to_stacked_vector / setting the two flags of the copy are the identity on that vector; generate_zero_obj is
   the zero vector; object + / - are the vector operations). *)
From Coq Require Import List Arith Bool String ZArith Lia.
From QV.Core Require Import OF Sums Mat.
From QV.Model Require Import C05_Dykstra C05_PySem.
From QV.Proofs Require Import C05_Dykstra C05_PySem.
From QVGen Require Import Gen_c05_dykstra.
Import ListNotations.
Local Open Scope string_scope.

Section Base.
Context (F : OF) (n : nat).
Add Field FfE : (k_field F).
Notation vec := (@vec F).
Context (Peq Pineq : vec -> vec) (conv_in : vec) (conv_out : vec -> vec) (mode : string) (eps : F).

Definition sattr (s : string) : val F :=
  if s =? "mode_proj_order" then VStr mode else if s =? "eps_proj_physical" then VNum eps
  else if s =? "composite_system" then VStr "<composite_system>"
  else if s =? "eps_truncate_imaginary_part" then VStr "<eps_truncate_imaginary_part>" else VErr.

Definition is_tok (t : string) (v : val F) : bool := match v with VStr s => s =? t | _ => false end.
Definition orc (name : string) (args : list (val F)) : val F :=
  if name =? "generate_zero_obj" then match args with [_] => VVec vzero | _ => VErr end
  else if name =? ".to_stacked_vector" then match args with [VVec v] => VVec v | _ => VErr end
  else if name =? "copy" then match args with [VVec v] => VVec v | _ => VErr end
  else if name =? "setattr._is_physicality_required" then match args with [VVec v; VBool false] => VVec v | _ => VErr end
  else if name =? "setattr._is_estimation_object" then match args with [VVec v; VBool false] => VVec v | _ => VErr end
  else if name =? ".calc_proj_eq_constraint" then match args with [VVec u] => VVec (Peq u) | _ => VErr end
  else if name =? ".calc_proj_ineq_constraint" then match args with [VVec u] => VVec (Pineq u) | _ => VErr end
  else if name =? "calc_proj_eq_constraint_with_var|on_para_eq_constraint" then
    match args with [s; c; VVec u; VBool false] => if is_tok "<self>" s && is_tok "<composite_system>" c then VVec (Peq u) else VErr | _ => VErr end
  else if name =? "calc_proj_ineq_constraint_with_var|eps_truncate_imaginary_part,on_para_eq_constraint" then
    match args with [s; c; VVec u; t; VBool false] =>
      if is_tok "<self>" s && is_tok "<composite_system>" c && is_tok "<eps_truncate_imaginary_part>" t then VVec (Pineq u) else VErr | _ => VErr end
  else if name =? "convert_var_to_stacked_vector|on_para_eq_constraint" then
    match args with [s; c; v; p] => if is_tok "<self>" s && is_tok "<composite_system>" c && is_tok "<var>" v && is_tok "<on_para_eq_constraint>" p then VVec conv_in else VErr | _ => VErr end
  else if name =? "convert_stacked_vector_to_var|on_para_eq_constraint" then
    match args with [s; c; VVec x; p] => if is_tok "<self>" s && is_tok "<composite_system>" c && is_tok "<on_para_eq_constraint>" p then VVec (conv_out x) else VErr | _ => VErr end
  else VErr.

Ltac ev := cbv [upd restrict Pos.eqb N_err N_printed N_break N_ret String.eqb Ascii.eqb Bool.eqb andb env0 empty call_ret raise s_if s_print existsb is_bad orb
                v_add v_sub v_mul v_pow2 v_npsum v_npdot v_lt v_is_none v_is_not_none v_and v_or v_append v_unpack
                List.length Nat.eqb List.nth app sattr orc is_tok
                gen__calc_stopping_criterion_birgin_raydan_vectors gen__calc_stopping_criterion_birgin_raydan_vectors__vars
                gen__calc_stopping_criterion_birgin_raydan2_vectors gen__calc_stopping_criterion_birgin_raydan2_vectors__vars
                gen__is_satisfied_stopping_criterion_birgin_raydan_vectors gen__is_satisfied_stopping_criterion_birgin_raydan_qoperations
                gen__calc_stopping_criterion_birgin_raydan_vectors__body gen__calc_stopping_criterion_birgin_raydan2_vectors__body
                gen__is_satisfied_stopping_criterion_birgin_raydan_vectors__body gen__is_satisfied_stopping_criterion_birgin_raydan_qoperations__body
                seq fold_left s_assign s_bind s_ifs].

Theorem gen_br2_equiv : forall (self : val F) (p p' q q' : vec) (X X' Y Y' : val F),
  call_ret (gen__calc_stopping_criterion_birgin_raydan2_vectors F n self (VVec p) (VVec p') (VVec q) (VVec q') X X' Y Y')
  = VNum (br F n (mkst (@vzero F) (@vzero F) p q) (mkst (@vzero F) (@vzero F) p' q')).
Proof. intros. ev. f_equal. Qed.

Theorem gen_br_full_equiv : forall (self : val F) (p p' q q' x x' y y' : vec),
  call_ret (gen__calc_stopping_criterion_birgin_raydan_vectors F n self (VVec p) (VVec p') (VVec q) (VVec q') (VVec x) (VVec x') (VVec y) (VVec y'))
  = VNum (br_full F n (mkst x y p q) (mkst x' y' p' q')).
Proof. intros. ev. f_equal. unfold br_full, br, sqr, two, vadd, vsub. cbn [sp sq sx sy].
  unfold z_inj. change (Pos.to_nat 2) with 2%nat. cbn [nat_inj]. ring. Qed.

Theorem gen_is_satisfied_vectors_equiv : forall (self : val F) (p p' q q' : vec) (X X' Y Y' : val F) (e0 : F),
  call_ret (gen__is_satisfied_stopping_criterion_birgin_raydan_vectors F n self (VVec p) (VVec p') (VVec q) (VVec q') X X' Y Y' (VNum e0))
  = VTuple [VBool (ltb F (br F n (mkst (@vzero F) (@vzero F) p q) (mkst (@vzero F) (@vzero F) p' q')) e0);
            VNum (br F n (mkst (@vzero F) (@vzero F) p q) (mkst (@vzero F) (@vzero F) p' q'))].
Proof. intros. ev.
  change (sumn n (fun i => cadd F (cmul F (vsub p p' i) (vsub p p' i)) (cmul F (vsub q q' i) (vsub q q' i))))
    with (br F n (mkst (@vzero F) (@vzero F) p q) (mkst (@vzero F) (@vzero F) p' q')).
  destruct (ltb F _ e0); reflexivity. Qed.


(* object level: the wrapper converts the eight objects with .to_stacked_vector (any oracle that is the identity on vectors) *)
Theorem gen_is_satisfied_qoperations_equiv : forall (o : string -> list (val F) -> val F),
  (forall v, o ".to_stacked_vector" [VVec v] = VVec v) ->
  forall (self : val F) (p p' q q' x x' y y' : vec) (e0 : F),
  call_ret (gen__is_satisfied_stopping_criterion_birgin_raydan_qoperations F n o self (VVec p) (VVec p') (VVec q) (VVec q')
              (VVec x) (VVec x') (VVec y) (VVec y') (VNum e0))
  = VTuple [VBool (ltb F (br F n (mkst (@vzero F) (@vzero F) p q) (mkst (@vzero F) (@vzero F) p' q')) e0);
            VNum (br F n (mkst (@vzero F) (@vzero F) p q) (mkst (@vzero F) (@vzero F) p' q'))].
Proof. intros o Ho self p p' q q' x x' y y' e0.
  unfold gen__is_satisfied_stopping_criterion_birgin_raydan_qoperations, gen__is_satisfied_stopping_criterion_birgin_raydan_qoperations__body.
  repeat (py_step ltac:(fun t => eval lazy [upd Pos.eqb N_err N_printed N_break N_ret String.eqb Ascii.eqb Bool.eqb andb env0 empty v_is_none v_or v_unpack List.length Nat.eqb List.nth] in t)).
  rewrite !Ho.
  pose proof (gen_is_satisfied_vectors_equiv self p p' q q' (VVec x) (VVec x') (VVec y) (VVec y') e0) as Hv.
  rewrite Hv.
  repeat (py_step ltac:(fun t => eval lazy [upd Pos.eqb N_err N_printed N_break N_ret String.eqb Ascii.eqb Bool.eqb andb env0 empty v_is_none v_or v_unpack List.length Nat.eqb List.nth] in t)).
  cbv [call_ret upd Pos.eqb N_err N_printed N_break N_ret String.eqb Ascii.eqb Bool.eqb andb env0 empty]. reflexivity. Qed.

(* ---------------------------------------------------------------- shared vocabulary of the two loop equivalences *)
Definition idv (v : vec) : vec := v.
Definition PA (b : bool) : nat -> vec -> vec := first_proj F (fun _ => Peq) (fun _ => Pineq) b.
Definition PB (b : bool) : nat -> vec -> vec := second_proj F (fun _ => Peq) (fun _ => Pineq) b.
Definition LV (hist : bool) (l : list (val F)) : val F := if hist then VList l else VUnbound.
Definition fp (s : dstate F) : val F := VVec (sp s).
Definition fq (s : dstate F) : val F := VVec (sq s).
Definition fx (s : dstate F) : val F := VVec (sx s).
Definition fy (h : list (dstate F)) : list (val F) := VNone :: map (fun s => VVec (sy s)) (tl h).
Definition fe (o : option F) : val F := match o with Some v => VNum v | None => VNone end.
Lemma fy_app h s : h <> [] -> fy (h ++ [s])%list = (fy h ++ [VVec (sy s)])%list.
Proof. intros H. destruct h as [|a h]; [congruence|]. unfold fy. cbn [tl app]. now rewrite map_app. Qed.
Lemma warn_test st f : (1 <= st)%nat -> (Z.of_nat (Init.Nat.pred st) =? Z.of_nat (S f) - 1)%Z = Nat.eqb st (S f).
Proof. intros H. destruct (Nat.eqb_spec st (S f)) as [E|E].
  - apply Z.eqb_eq. subst st. cbn [Init.Nat.pred]. lia.
  - apply Z.eqb_neq. destruct st; [lia|]. cbn [Init.Nat.pred]. lia. Qed.
End Base.
Print Assumptions gen_br2_equiv.
Print Assumptions gen_br_full_equiv.
Print Assumptions gen_is_satisfied_vectors_equiv.
Print Assumptions gen_is_satisfied_qoperations_equiv.
