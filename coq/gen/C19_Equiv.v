(* C19 — translator tie.  Gen_c19.v is REGENERATED from /repo's current source on every run by gen/c19_py2coq.py:
     matrix_util.replace_prob_dist, calc_direct_sum, calc_covariance_mat_total, calc_fisher_matrix_total (guards / size / indices),
     StandardQTomography.calc_covariance_mat_single, calc_covariance_mat_total, calc_mse_empi_dists_analytical,
     calc_fisher_matrix_total, _calc_cramer_rao_bound, StandardPovmt._generate_matS, StandardQmpt._generate_matS.
   The theorems below (re-checked on every run, Print Assumptions gated) say that the regenerated functions ARE the hand-written
   model functions the theorems of Props/C19.v talk about, for all sizes / lists / inputs.  A behaviour-changing edit of one of the
   translated functions (wrong guard, other slice bound, another index, another divisor) breaks the corresponding theorem. *)
From Coq Require Import List Bool Arith Lia ZArith Field Ring String.
From QV.Core Require Import OF Sums Mat.
From QV.Model Require Import Multinomial C19_Expect C19_ErrFormulas C19_PySem.
From QV.Proofs Require Import C19_Expect C19_ErrFormulas.
From QVGen Require Import Gen_c19.
Import ListNotations.
Local Open Scope nat_scope.

Ltac bdestruct_all :=
  repeat match goal with
  | |- context [Nat.ltb ?a ?b] => destruct (Nat.ltb_spec a b); try lia
  | |- context [Nat.leb ?a ?b] => destruct (Nat.leb_spec a b); try lia
  end.

Section Equiv.
Context (F : OF).
Add Field Fq19 : (k_field F).
Notation vec := (@vec F). Notation mat := (@mat F).

(* ---------------- replace_prob_dist ---------------- *)
Lemma count_lt_le eps m (p : vec) : count_lt F eps m p <= m.
Proof. unfold count_lt. rewrite <- (seq_length m 0) at 2. generalize (seq 0 m) as l. induction l as [|a l IH]; cbn [filter List.length]; [lia|].
  destruct (flt F (p a) eps); cbn [List.length]; lia. Qed.
Lemma of_nat_sub a b : b <= a -> of_nat F (a - b) = csub F (of_nat F a) (of_nat F b).
Proof. intros H. replace a with ((a - b) + b) at 2 by lia. rewrite (of_nat_add F). ring. Qed.
Lemma gen_replace_prob_dist_eq_sec : forall m eps (p : vec) x,
  gen_replace_prob_dist F m eps p x = replace_prob_dist F eps m p x.
Proof. intros m eps p x. unfold gen_replace_prob_dist, replace_prob_dist. cbv zeta.
  destruct (flt F (p x) eps); [reflexivity|]. rewrite (of_nat_sub _ _ (count_lt_le eps m p)). reflexivity. Qed.
(* the default eps of replace_prob_dist is the float 1e-8 *)
Lemma gen_replace_default_eps_is_1e8_sec :
  gen_replace_default_eps_num = 3022314549036573%Z /\ gen_replace_default_eps_den = (2 ^ 78)%Z.
Proof. split; reflexivity. Qed.

(* ---------------- calc_direct_sum ---------------- *)
Lemma ds_place_spec (pstep : nat * mat -> nparr F -> nat * mat) :
  (forall idx M d, pstep (idx, M) d = (idx + a_sh0 d, np_place F idx (idx + a_sh0 d) idx (idx + a_sh0 d) (a_dat d) M)) ->
  forall bs idx M0, (forall i j, idx <= i \/ idx <= j -> M0 i j = c0 F) ->
  fst (fold_left pstep bs (idx, M0)) = idx + dsum_size F (ds_blocks F bs) /\
  forall i j, snd (fold_left pstep bs (idx, M0)) i j =
     if Nat.ltb i idx && Nat.ltb j idx then M0 i j
     else if Nat.leb idx i && Nat.leb idx j then dsum F (ds_blocks F bs) (i - idx) (j - idx) else c0 F.
Proof. intros Hstep. induction bs as [|d t IH]; intros idx M0 Hinv; cbn [fold_left];
    [change (ds_blocks F []) with (@nil (nat * mat))|change (ds_blocks F (d :: t)) with ((a_sh0 d, a_dat d) :: ds_blocks F t)];
    cbn [dsum_size dsum].
  - split; [cbn; lia|]. intros i j. cbn [fst snd]. bdestruct_all; cbn [andb]; try reflexivity; apply Hinv; lia.
  - rewrite Hstep. set (s := a_sh0 d). set (M1 := np_place F idx (idx + s) idx (idx + s) (a_dat d) M0).
    assert (Hinv1 : forall i j, idx + s <= i \/ idx + s <= j -> M1 i j = c0 F).
    { intros i j Hij. unfold M1, np_place. bdestruct_all; cbn [andb]; apply Hinv; lia. }
    destruct (IH (idx + s) M1 Hinv1) as [Hf Hs]. split; [etransitivity; [exact Hf|lia]|].
    intros i j. etransitivity; [apply Hs|]. unfold M1, np_place. cbn [fst snd].
    bdestruct_all; cbn [andb]; try reflexivity; try (symmetry; apply Hinv; lia); try (apply Hinv; lia);
      try (f_equal; lia). Qed.
Lemma ds_validate_spec (vstep : mres nat -> nparr F -> mres nat) :
  (forall c d, vstep (MErr c) d = MErr c) ->
  (forall s d, vstep (MOk s) d = if negb (Nat.eqb (a_ndim d) 2) then MErr 1 else if negb (Nat.eqb (a_sh0 d) (a_sh1 d)) then MErr 2
                                 else MOk (s + a_sh0 d)) ->
  forall bs s, fold_left vstep bs (MOk s) =
     match ds_check F bs with MErr c => MErr c | MOk _ => MOk (s + dsum_size F (ds_blocks F bs)) end.
Proof. intros He Ho. induction bs as [|d t IH]; intros s; cbn [fold_left ds_check];
    [change (ds_blocks F []) with (@nil (nat * mat))|change (ds_blocks F (d :: t)) with ((a_sh0 d, a_dat d) :: ds_blocks F t)];
    cbn [dsum_size]. { f_equal. lia. }
  rewrite Ho. destruct (negb (Nat.eqb (a_ndim d) 2)).
  { clear IH. induction t as [|d' t IH]; cbn [fold_left]; [reflexivity|]. now rewrite He. }
  destruct (negb (Nat.eqb (a_sh0 d) (a_sh1 d))).
  { clear IH. induction t as [|d' t IH]; cbn [fold_left]; [reflexivity|]. now rewrite He. }
  rewrite IH. destruct (ds_check F t); [f_equal; cbn [fst]; lia|reflexivity]. Qed.
(* the regenerated calc_direct_sum: same ValueError (non-2d first, then non-square, per entry in order) or the same size and,
   entry by entry, the direct sum of the model *)
Lemma gen_direct_sum_eq_sec : forall bs : list (nparr F), mres_sized_eq F (gen_direct_sum F bs) (direct_sum_spec F bs).
Proof. intros bs. unfold gen_direct_sum, direct_sum_spec, gen_ds_validate, gen_ds_place.
  match goal with |- context [fold_left ?f bs (MOk 0)] => set (vstep := f) end.
  match goal with |- context [fold_left ?f bs (0, np_zeros F)] => set (pstep := f) end.
  assert (He : forall c d, vstep (MErr c) d = MErr c) by (intros; reflexivity).
  assert (Ho : forall s d, vstep (MOk s) d = if negb (Nat.eqb (a_ndim d) 2) then MErr 1 else if negb (Nat.eqb (a_sh0 d) (a_sh1 d)) then MErr 2
                                              else MOk (s + a_sh0 d)) by (intros; reflexivity).
  assert (Hp : forall idx M d, pstep (idx, M) d = (idx + a_sh0 d, np_place F idx (idx + a_sh0 d) idx (idx + a_sh0 d) (a_dat d) M))
    by (intros; reflexivity).
  rewrite (ds_validate_spec vstep He Ho bs 0).
  destruct (ds_check F bs) as [u|c]; [|reflexivity]. cbn [mres_sized_eq]. split; [lia|].
  intros i j. destruct (ds_place_spec pstep Hp bs 0 (np_zeros F)) as [_ Hs]; [intros; reflexivity|].
  rewrite Hs. cbn [Nat.ltb Nat.leb andb]. rewrite !Nat.sub_0_r. destruct (Nat.ltb i 0 && Nat.ltb j 0) eqn:E; [|reflexivity].
  apply andb_prop in E as [E _]. apply Nat.ltb_lt in E. lia. Qed.
(* on valid input (2-d square blocks) that is the direct sum, whatever the blocks *)
Lemma gen_direct_sum_valid_sec : forall bs : list (nparr F), ds_check F bs = MOk tt ->
  exists M, gen_direct_sum F bs = MOk (dsum_size F (ds_blocks F bs), M) /\ forall i j, M i j = dsum F (ds_blocks F bs) i j.
Proof. intros bs Hv. pose proof (gen_direct_sum_eq_sec bs) as H. unfold direct_sum_spec in H. rewrite Hv in H.
  destruct (gen_direct_sum F bs) as [[n M]|c]; cbn in H; [|contradiction]. destruct H as [-> H]. now exists M. Qed.

(* ---------------- matrix_util.calc_covariance_mat_total / calc_fisher_matrix_total ---------------- *)
(* empirical distributions are tuples (data_num, distribution) *)
Lemma gen_mu_cov_components_sec : gen_mu_cov_dist_component = 1 /\ gen_mu_cov_num_component = 0.
Proof. split; reflexivity. Qed.
(* the accumulator has the size of the VARIABLES; the loop runs over the distributions and uses one index for all three lists;
   equal lengths are never rejected, different numbers of distributions and gradient lists always are *)
Lemma gen_fisher_total_skeleton_sec : forall m nv lp lg lw index,
  gen_ft_size m nv = nv /\ gen_ft_range lp lg lw = lp /\
  gen_ft_weight_index index = index /\ gen_ft_prob_index index = index /\ gen_ft_grad_index index = index /\
  (lp = lg -> lg = lw -> gen_ft_len_mismatch lp lg lw = false) /\ (lp <> lg -> gen_ft_len_mismatch lp lg lw = true).
Proof. intros. repeat (split; [reflexivity|]). unfold gen_ft_len_mismatch. split.
  - intros -> ->. rewrite ?Nat.eqb_refl. reflexivity.
  - intros H. apply Nat.eqb_neq in H. rewrite ?H. cbn. rewrite ?orb_true_r. reflexivity. Qed.

(* ---------------- StandardQTomography loops ---------------- *)
Lemma tomo_cov_blocks_from s J (pd : nat -> nat * vec) (ns : nat -> F) :
  map (fun j => gen_tomo_cov_single F pd j (ns j)) (seq s J) = cov_blocks F ns s (map pd (seq s J)).
Proof. revert s. induction J as [|J IH]; intros s; cbn [seq map cov_blocks]; [reflexivity|].
  rewrite IH. unfold gen_tomo_cov_single. destruct (pd s) as [m p]. reflexivity. Qed.
(* calc_covariance_mat_total: block j is calc_covariance_mat(prob_dist j, data_num_list[j]) *)
Lemma gen_tomo_cov_blocks_eq_sec : forall J (pd : nat -> nat * vec) (ns : nat -> F),
  gen_tomo_cov_blocks F J pd ns = cov_blocks F ns 0 (map pd (seq 0 J)).
Proof. intros. unfold gen_tomo_cov_blocks. apply tomo_cov_blocks_from. Qed.
Lemma map_nth_seq {A} (l : list A) (d : A) : map (fun j => nth j l d) (seq 0 (List.length l)) = l.
Proof. induction l as [|a l IH]; cbn [List.length seq map nth]; [reflexivity|]. f_equal. rewrite <- seq_shift, map_map. exact IH. Qed.
(* ... so with the distributions of calc_prob_dists it is the model's tomo_cov_total *)
Lemma gen_tomo_cov_total_eq_sec : forall eps nv ms (A : mat) (b v : vec) (ns : nat -> F),
  let pds := tomo_pds F eps nv ms A b v in
  dsum F (gen_tomo_cov_blocks F (List.length pds) (fun j => nth j pds (0, fun _ => c0 F)) ns) = tomo_cov_total F eps nv ms A b v ns.
Proof. intros. rewrite gen_tomo_cov_blocks_eq_sec, map_nth_seq. reflexivity. Qed.
(* calc_mse_empi_dists_analytical: sum over enumerate(data_num_list) of tr(calc_covariance_mat_single(j, n_j)) *)
Lemma mse_empi_fold (pd : nat -> nat * vec) (ns : nat -> F) : forall k s acc,
  fold_left (fun a (jn : nat * F) => let '(j, n) := jn in cadd F a (let b := gen_tomo_cov_single F pd j n in mtrace (fst b) (snd b)))
            (combine (seq s k) (map ns (seq s k))) acc
  = cadd F acc (mse_empi_pds F ns s (map pd (seq s k))).
Proof. induction k as [|k IH]; intros s acc; cbn [seq combine fold_left map mse_empi_pds]; [ring|].
  rewrite IH. unfold gen_tomo_cov_single. destruct (pd s) as [m p]. cbn [fst snd]. ring. Qed.
Lemma gen_tomo_mse_empi_eq_sec : forall (pd : nat -> nat * vec) (data_num_list : list F),
  gen_tomo_mse_empi F pd data_num_list
  = mse_empi_pds F (fun j => nth j data_num_list (c0 F)) 0 (map pd (seq 0 (List.length data_num_list))).
Proof. intros pd l. unfold gen_tomo_mse_empi.
  rewrite <- (map_nth_seq l (c0 F)) at 2. rewrite mse_empi_fold. ring. Qed.
(* calc_fisher_matrix_total: the summed terms are weights[j] * calc_fisher_matrix(j, var), j = 0 .. num_schedules-1 *)
Lemma gen_tomo_fisher_terms_eq_sec : forall J (fisher : nat -> mat) (w : nat -> F),
  gen_tomo_fisher_terms F J fisher w = combine (map w (seq 0 J)) (map fisher (seq 0 J)).
Proof. intros. unfold gen_tomo_fisher_terms. generalize 0 as s. induction J as [|J IH]; intros s; cbn [seq map combine]; [reflexivity|].
  now rewrite IH. Qed.
(* _calc_cramer_rao_bound: weights N_j / N, value tr(F^-1) / N  (the model's cr_weights / cr_var) *)
Lemma gen_cramer_rao_eq_sec : forall (N : F) (ns : nat -> F) j nv (Minv : mat),
  gen_cr_weight F N (ns j) = cr_weights F N ns j /\ gen_cr_value F N (mtrace nv Minv) = cr_var F nv N Minv.
Proof. intros. split; reflexivity. Qed.

(* ---------------- _generate_matS ---------------- *)
Lemma nth_repeat_lt {A} (a d : A) n k : k < n -> nth k (repeat a n) d = a.
Proof. revert k. induction n as [|n IH]; intros k Hk; [lia|]. destruct k as [|k]; cbn [repeat nth]; [reflexivity|]. apply IH. lia. Qed.
(* StandardPovmt: num_outcomes - 1 identities side by side *)
Lemma gen_povmt_matS_eq_sec : forall d2 mo i j, j < (mo - 1) * d2 ->
  gen_povmt_matS F d2 mo i j = matS F d2 i j.
Proof. intros d2 mo i j Hj. unfold gen_povmt_matS, gen_povmt_matS_blocks, np_hstack, matS.
  assert (Hd : d2 <> 0) by (intros ->; lia).
  rewrite nth_repeat_lt by (apply Nat.div_lt_upper_bound; lia).
  unfold np_eye. rewrite Nat.eqb_sym. reflexivity. Qed.
(* StandardQmpt: an identity at the first-row columns of each of the first num_outcomes - 1 HS blocks *)
Lemma qmpt_matS_fold d2 : forall n i j, i < d2 ->
  fold_left (fun (M : mat) o => np_place_cols F (o * (d2 * d2)) (o * (d2 * d2) + d2) (np_eye F) M) (seq 0 n) (np_zeros F) i j
  = if Nat.ltb j (n * (d2 * d2)) && Nat.eqb (j mod (d2 * d2)) i then c1 F else c0 F.
Proof. intros n i j Hi. assert (HD : d2 <= d2 * d2) by (rewrite <- (Nat.mul_1_r d2) at 1; apply Nat.mul_le_mono_l; lia).
  assert (HD0 : d2 * d2 <> 0) by lia.
  induction n as [|n IH]. { cbn. reflexivity. }
  rewrite seq_S, fold_left_app. cbn [fold_left Nat.add]. unfold np_place_cols at 1. rewrite IH. unfold np_eye.
  set (D := d2 * d2) in *.
  destruct (Nat.leb_spec (n * D) j) as [H1|H1]; destruct (Nat.ltb_spec j (n * D + d2)) as [H2|H2]; cbn [andb].
  - (* inside the new block *)
    assert (Hm : j mod D = j - n * D).
    { symmetry. apply (Nat.mod_unique j D n (j - n * D)); lia. }
    rewrite Hm. destruct (Nat.ltb_spec j (S n * D)); [|lia]. cbn [andb]. rewrite Nat.eqb_sym. reflexivity.
  - (* right of it *)
    destruct (Nat.ltb_spec j (n * D)); [lia|]. cbn [andb].
    destruct (Nat.ltb_spec j (S n * D)) as [H3|H3]; cbn [andb]; [|reflexivity].
    assert (Hm : j mod D = j - n * D).
    { symmetry. apply (Nat.mod_unique j D n (j - n * D)); lia. }
    rewrite Hm. destruct (Nat.eqb_spec (j - n * D) i); [lia|reflexivity].
  - (* left of it *)
    destruct (Nat.ltb_spec j (n * D)); [|lia]. destruct (Nat.ltb_spec j (S n * D)); [|lia]. reflexivity.
  - lia. Qed.
Lemma gen_qmpt_matS_eq_sec : forall d2 mo i j, i < d2 -> gen_qmpt_matS F d2 mo i j = matS_mp F d2 mo i j.
Proof. intros d2 mo i j Hi. unfold gen_qmpt_matS, matS_mp.
  replace (Nat.pow d2 2) with (d2 * d2) by (cbn; lia).
  exact (qmpt_matS_fold d2 (mo - 1) i j Hi). Qed.

(* ---------------- decision structure of calc_mse_linear_analytical / calc_cramer_rao_bound ---------------- *)
(* the value calc_mse_linear_analytical returns for tomography type ty, assembled from the REGENERATED pieces according to the
   regenerated override table (who overrides _calc_mse_linear_analytical_mode_qoperation) *)
Definition gen_mse_value (ty : ttype) (mode_qop on_eq : bool) (d2 mo nv : nat) (V : mat) : F :=
  let msev := gen_mse_var F nv V in
  if mode_qop then
    match ty with
    | POVMT => gen_povmt_mse_qop F on_eq d2 nv msev (gen_povmt_matS F d2 mo) V
    | QMPT => gen_qmpt_mse_qop F on_eq d2 nv msev (gen_qmpt_matS F d2 mo) V
    | _ => gen_base_mse_qop F on_eq d2 nv msev (np_zeros F) V
    end
  else msev.
Definition gen_cr_value_of (ty : ttype) (on_eq : bool) (d2 mo nv : nat) (N : F) (Minv : mat) : F :=
  let crv := gen_cr_value F N (mtrace nv Minv) in
  match ty with POVMT => gen_povmt_cr F on_eq d2 nv N crv (gen_povmt_matS F d2 mo) Minv | _ => crv end.
Lemma povmt_matS_meq d2 mo nv : nv <= (mo - 1) * d2 -> meq d2 nv (gen_povmt_matS F d2 mo) (matS F d2).
Proof. intros H i j _ Hj. apply gen_povmt_matS_eq_sec. lia. Qed.
Lemma qmpt_matS_meq d2 mo nv : meq d2 nv (gen_qmpt_matS F d2 mo) (matS_mp F d2 mo).
Proof. intros i j Hi _. now apply gen_qmpt_matS_eq_sec. Qed.
Lemma gen_override_tables_sec : gen_overrides_mse_qop = [false; true; false; true] /\ gen_overrides_cr = [false; true; false; false]
  /\ gen_overrides_other = false.
Proof. repeat split; reflexivity. Qed.
Lemma gen_mse_dispatch_eq_sec : forall mode : string,
  gen_mse_dispatch mode = (if String.eqb mode "qoperation" then Some true else if String.eqb mode "var" then Some false else None)
  /\ gen_mse_default_mode = "qoperation"%string.
Proof. intros. split; reflexivity. Qed.
(* all four types, both modes, both parametrisations: the regenerated decision structure with the regenerated S matrices computes
   the model's mse_analytical_of_cov (for POVMT the variables are the num_outcomes - 1 free elements: nv <= (mo - 1) * d2) *)
Lemma gen_mse_value_eq_sec : forall ty mode on_eq d2 mo nv (V : mat), (ty = POVMT -> nv <= (mo - 1) * d2) ->
  gen_mse_value ty mode on_eq d2 mo nv V = mse_analytical_of_cov F ty mode on_eq d2 mo nv V.
Proof. intros ty mode on_eq d2 mo nv V Hnv. unfold gen_mse_value, mse_analytical_of_cov, gen_mse_var, gen_base_mse_qop,
    gen_povmt_mse_qop, gen_qmpt_mse_qop.
  destruct mode, ty, on_eq; cbn [andb]; try reflexivity.
  - f_equal. apply mtrace_ext. apply (conjugate_ext F); [apply povmt_matS_meq; now apply Hnv|apply meq_refl].
  - f_equal. apply mtrace_ext. apply (conjugate_ext F); [apply qmpt_matS_meq|apply meq_refl]. Qed.
Lemma gen_cov_linear_eq_sec : forall nr (L Sigma : mat), gen_cov_linear F nr L Sigma = cov_linear F nr L Sigma.
Proof. reflexivity. Qed.
Lemma gen_cr_value_eq_sec : forall ty on_eq d2 mo nv (N : F) (Minv : mat), (ty = POVMT -> nv <= (mo - 1) * d2) ->
  gen_cr_value_of ty on_eq d2 mo nv N Minv = cr_analytical F ty on_eq d2 nv N Minv.
Proof. intros ty on_eq d2 mo nv N Minv Hnv. unfold gen_cr_value_of, cr_analytical, gen_povmt_cr, gen_cr_value, cr_var.
  destruct ty, on_eq; try reflexivity.
  f_equal. f_equal. apply mtrace_ext. apply (conjugate_ext F); [apply povmt_matS_meq; now apply Hnv|apply meq_refl]. Qed.

(* ---------------- numerical one-liners, sample statistics, calc_fisher_matrix ---------------- *)
Lemma gen_cov_mat_eq_sec : forall (n : F) (q : vec) i j, gen_cov_mat F n q i j = cov_mat F n q i j /\ gen_da_cov_mat F n q i j = cov_mat F n q i j.
Proof. intros. split; reflexivity. Qed.
(* data_analysis.calc_covariance_matrix_of_prob_dists: total size and, entry by entry, the direct sum of the covariance blocks *)
Lemma gen_da_cov_total_eq_sec : forall (n : F) (pds : list (nat * vec)),
  fst (gen_da_cov_place F n pds) = dsum_size F (map (fun p : nat * vec => (fst p, cov_mat F n (snd p))) pds) /\
  forall i j, snd (gen_da_cov_place F n pds) i j = dsum F (map (fun p : nat * vec => (fst p, cov_mat F n (snd p))) pds) i j.
Proof. intros n pds. unfold gen_da_cov_place.
  match goal with |- context [fold_left ?f _ (0, np_zeros F)] => set (pstep := f) end.
  assert (Hp : forall idx M d, pstep (idx, M) d = (idx + a_sh0 d, np_place F idx (idx + a_sh0 d) idx (idx + a_sh0 d) (a_dat d) M))
    by (intros; reflexivity).
  set (bs := map _ pds).
  assert (Hb : ds_blocks F bs = map (fun p : nat * vec => (fst p, cov_mat F n (snd p))) pds).
  { unfold bs, ds_blocks. rewrite map_map. reflexivity. }
  destruct (ds_place_spec pstep Hp bs 0 (np_zeros F)) as [Hf Hs]; [intros; reflexivity|].
  rewrite Hb in Hf, Hs. split; [etransitivity; [exact Hf|lia]|].
  intros i j. etransitivity; [apply Hs|]. cbn [Nat.ltb Nat.leb andb]. rewrite !Nat.sub_0_r.
  destruct (Nat.ltb i 0 && Nat.ltb j 0) eqn:E; [|reflexivity]. apply andb_prop in E as [E _]. apply Nat.ltb_lt in E. lia. Qed.
Lemma lsumF_map {A} (f : A -> F) l : lsumF F (map f l) = fold_right (fun a acc => cadd F (f a) acc) (c0 F) l.
Proof. induction l as [|a l IH]; cbn [map lsumF fold_right]; [reflexivity|]. unfold lsumF in *. cbn [fold_right]. now rewrite IH. Qed.
(* calc_se: sum over the zipped pairs of |x - y|^2 *)
Lemma gen_calc_se_eq_sec : forall n (xs ys : list vec), gen_calc_se F n xs ys = calc_se F n (combine xs ys).
Proof. intros. unfold gen_calc_se, calc_se. apply lsumF_map. Qed.
(* calc_mse_prob_dists: mean and (squared) standard deviation with ddof = 1 of the per-repetition squared errors *)
Lemma gen_mse_prob_dists_eq_sec : forall n (xsl ysl : list (list vec)),
  let ses := map (fun p : list vec * list vec => calc_se F n (combine (fst p) (snd p))) (combine xsl ysl) in
  gen_mse_prob_dists F n xsl ysl = (mean F ses, var_ddof1 F ses).
Proof. intros. unfold gen_mse_prob_dists, ses.
  rewrite (map_ext _ (fun p : list vec * list vec => calc_se F n (combine (fst p) (snd p)))) by (intros; apply gen_calc_se_eq_sec).
  reflexivity. Qed.
(* data_analysis.calc_mse_qoperations (qoperation mode): point k is |stacked(x_k) - stacked(y_k)|^2 with the k-th reference *)
Lemma gen_mse_qoperations_eq_sec : forall n (xs ys : list vec) with_std,
  let points := map (fun xy : vec * vec => sqdist F n (fst xy) (snd xy)) (combine xs ys) in
  gen_mse_qoperations F n xs ys with_std = (mean F points, if with_std then Some (var_ddof1 F points) else None).
Proof. intros. reflexivity. Qed.
Lemma gen_mse_qops_dispatch_eq_sec : forall mode : string,
  gen_mse_qops_dispatch mode = (if String.eqb mode "qoperation" then Some true else if String.eqb mode "var" then Some false else None)
  /\ gen_mse_qops_default_mode = "qoperation"%string /\ gen_mse_qops_default_with_std = true.
Proof. intros. repeat split; reflexivity. Qed.
(* matrix_util.calc_fisher_matrix: same error code (validation, then size mismatch, then eps <= 0) or entrywise the model's matrix *)
Lemma gen_mu_fisher_eq_sec : forall eps m g (p : vec) (G : mat),
  mres_mat_eq F (gen_mu_fisher F eps m g p G) (mu_fisher F eps m g p G).
Proof. intros. unfold gen_mu_fisher, mu_fisher. destruct (validate F eps true (map p (seq 0 m))) as [u|c]; [|reflexivity].
  destruct (Nat.eqb_spec m g) as [->|Hne]; cbn [negb]; [|reflexivity].
  destruct (kleb F eps (c0 F)); [reflexivity|]. cbn [mres_mat_eq]. intros a b. rewrite Nat.min_id. unfold fisher_core.
  apply sumn_ext; intros x Hx. now rewrite gen_replace_prob_dist_eq_sec. Qed.
Lemma gen_fisher_default_eps_sec : gen_fisher_default_eps_num = 3022314549036573%Z /\ gen_fisher_default_eps_den = (2 ^ 78)%Z.
Proof. split; reflexivity. Qed.

(* ---------------- num_outcomes(schedule_index): the POVM NAMED in the schedule (not the schedule_index-th tester) ---------------- *)
Definition gen_num_outcomes (ty : ttype) (sched : nat -> list nat) (povm_len : nat -> nat) (mo j : nat) : nat :=
  match ty with
  | QST => gen_qst_num_outcomes sched povm_len mo j
  | POVMT => gen_povmt_num_outcomes sched povm_len mo j
  | QPT => gen_qpt_num_outcomes sched povm_len mo j
  | QMPT => gen_qmpt_num_outcomes sched povm_len mo j
  end.
Lemma gen_num_outcomes_eq_sec : forall ty sched povm_len mo j,
  gen_num_outcomes ty sched povm_len mo j = num_outcomes_spec ty sched povm_len mo j.
Proof. intros. destruct ty; cbv [gen_num_outcomes num_outcomes_spec gen_qst_num_outcomes gen_povmt_num_outcomes gen_qpt_num_outcomes gen_qmpt_num_outcomes];
  try reflexivity; lia. Qed.

(* ---------------- StandardQTomography.calc_fisher_matrix: the rows of schedule j ---------------- *)
Lemma map_nth_seq_firstn (ms : list nat) : forall j, j <= List.length ms -> map (fun i => nth i ms 0) (seq 0 j) = firstn j ms.
Proof. induction ms as [|a t IH]; intros j Hj; cbn [List.length] in Hj.
  - assert (j = 0) by lia. subst. reflexivity.
  - destruct j as [|j]; [reflexivity|]. cbn [seq map firstn nth]. f_equal. rewrite <- seq_shift, map_map. apply IH. lia. Qed.
Lemma fold_add_sizes_sum (l : list nat) : fold_right Nat.add 0 l = sizes_sum l.
Proof. induction l as [|a l IH]; cbn [fold_right sizes_sum]; [reflexivity|]. now rewrite IH. Qed.
Lemma gen_tomo_fisher_slice_sec : forall (ms : list nat) j, j < List.length ms ->
  gen_tomo_fisher_start (fun i => nth i ms 0) j = sizes_sum (firstn j ms) /\
  gen_tomo_fisher_stop (fun i => nth i ms 0) j = sizes_sum (firstn j ms) + nth j ms 0.
Proof. intros ms j Hj. assert (E : gen_tomo_fisher_start (fun i => nth i ms 0) j = sizes_sum (firstn j ms)).
  { unfold gen_tomo_fisher_start. rewrite map_nth_seq_firstn by lia. apply fold_add_sizes_sum. }
  split; [exact E|]. unfold gen_tomo_fisher_stop. cbv zeta. rewrite E. reflexivity. Qed.
(* with num_outcomes(i) = ms[i]: the same error code or entrywise the model's tomo_fisher (rows sum(ms[:j]) .. + ms[j]) *)
Lemma gen_tomo_fisher_eq_sec : forall eps8 nv (A : mat) (b v : vec) (ms : list nat) j, j < List.length ms ->
  mres_mat_eq F (gen_tomo_fisher F eps8 (mv nv A v) b A (fun i => nth i ms 0) j) (tomo_fisher F eps8 nv ms j A b v).
Proof. intros eps8 nv A b v ms j Hj. destruct (gen_tomo_fisher_slice_sec ms j Hj) as [Es Et].
  unfold gen_tomo_fisher. cbv zeta. rewrite Es, Et.
  replace (sizes_sum (firstn j ms) + nth j ms 0 - sizes_sum (firstn j ms)) with (nth j ms 0) by lia.
  unfold tomo_fisher, fisher_of_raw. cbv zeta. apply gen_mu_fisher_eq_sec. Qed.

(* ---------------- StandardQTomography.calc_prob_dists: split at cumsum(sizes)[:-1], truncate and normalise every piece ---------------- *)
Lemma split_pieces eps (raw : vec) : forall (sizes : list nat) start, sizes <> [] ->
  map (fun ol : nat * nat => (snd ol, trunc_norm_row F eps (snd ol) (fun x => raw (fst ol + x))))
      (np_split_from start (removelast (np_cumsum_from start sizes)) (start + sizes_sum sizes))
  = pds_of_raw F eps raw start sizes.
Proof. induction sizes as [|a t IH]; intros start Hne; [contradiction|]. destruct t as [|b t'].
  - cbn [np_cumsum_from removelast np_split_from map sizes_sum pds_of_raw fst snd].
    replace (start + (a + 0) - start) with a by lia. reflexivity.
  - change (np_cumsum_from start (a :: b :: t')) with ((start + a) :: np_cumsum_from (start + a) (b :: t')).
    change (removelast ((start + a) :: np_cumsum_from (start + a) (b :: t')))
      with ((start + a) :: removelast (np_cumsum_from (start + a) (b :: t'))).
    cbn [np_split_from map fst snd]. change (pds_of_raw F eps raw start (a :: b :: t'))
      with ((a, trunc_norm_row F eps a (fun x => raw (start + x))) :: pds_of_raw F eps raw (start + a) (b :: t')).
    replace (start + a - start) with a by lia. f_equal.
    replace (start + sizes_sum (a :: b :: t')) with ((start + a) + sizes_sum (b :: t')) by (cbn [sizes_sum]; lia).
    apply IH. discriminate. Qed.
Lemma gen_prob_dists_eq_sec : forall eps nv (A : mat) (b v : vec) (ms : list nat), ms <> [] ->
  gen_prob_dists F eps (affine F nv A b v) (fun j => nth j ms 0) (List.length ms) (sizes_sum ms) = tomo_pds F eps nv ms A b v
  /\ gen_prob_dists_uses_var true = true /\ gen_prob_dists_uses_var false = false.
Proof. intros eps nv A b v ms Hne. split; [|split; reflexivity]. unfold gen_prob_dists, tomo_pds, np_cumsum. cbv zeta.
  rewrite (map_nth_seq ms 0). exact (split_pieces eps (affine F nv A b v) ms 0 Hne). Qed.
End Equiv.

(* ---- the theorems, closed (stated outside the section so that Print Assumptions reports the global context) ---- *)
Theorem gen_replace_prob_dist_eq : forall F : OF, forall m eps (p : (@vec F)) x,
  gen_replace_prob_dist F m eps p x = replace_prob_dist F eps m p x.
Proof. intro F; exact (gen_replace_prob_dist_eq_sec F) || exact gen_replace_prob_dist_eq_sec. Qed.
Print Assumptions gen_replace_prob_dist_eq.
Theorem gen_replace_default_eps_is_1e8 : forall F : OF, gen_replace_default_eps_num = 3022314549036573%Z /\ gen_replace_default_eps_den = (2 ^ 78)%Z.
Proof. intro F; exact (gen_replace_default_eps_is_1e8_sec F) || exact gen_replace_default_eps_is_1e8_sec. Qed.
Print Assumptions gen_replace_default_eps_is_1e8.
Theorem gen_direct_sum_eq : forall F : OF, forall bs : list (nparr F), mres_sized_eq F (gen_direct_sum F bs) (direct_sum_spec F bs).
Proof. intro F; exact (gen_direct_sum_eq_sec F) || exact gen_direct_sum_eq_sec. Qed.
Print Assumptions gen_direct_sum_eq.
Theorem gen_direct_sum_valid : forall F : OF, forall bs : list (nparr F), ds_check F bs = MOk tt ->
  exists M, gen_direct_sum F bs = MOk (dsum_size F (ds_blocks F bs), M) /\ forall i j, M i j = dsum F (ds_blocks F bs) i j.
Proof. intro F; exact (gen_direct_sum_valid_sec F) || exact gen_direct_sum_valid_sec. Qed.
Print Assumptions gen_direct_sum_valid.
Theorem gen_mu_cov_components : forall F : OF, gen_mu_cov_dist_component = 1 /\ gen_mu_cov_num_component = 0.
Proof. intro F; exact (gen_mu_cov_components_sec F) || exact gen_mu_cov_components_sec. Qed.
Print Assumptions gen_mu_cov_components.
Theorem gen_fisher_total_skeleton : forall F : OF, forall m nv lp lg lw index,
  gen_ft_size m nv = nv /\ gen_ft_range lp lg lw = lp /\
  gen_ft_weight_index index = index /\ gen_ft_prob_index index = index /\ gen_ft_grad_index index = index /\
  (lp = lg -> lg = lw -> gen_ft_len_mismatch lp lg lw = false) /\ (lp <> lg -> gen_ft_len_mismatch lp lg lw = true).
Proof. intro F; exact (gen_fisher_total_skeleton_sec F) || exact gen_fisher_total_skeleton_sec. Qed.
Print Assumptions gen_fisher_total_skeleton.
Theorem gen_tomo_cov_blocks_eq : forall F : OF, forall J (pd : nat -> nat * (@vec F)) (ns : nat -> F),
  gen_tomo_cov_blocks F J pd ns = cov_blocks F ns 0 (map pd (seq 0 J)).
Proof. intro F; exact (gen_tomo_cov_blocks_eq_sec F) || exact gen_tomo_cov_blocks_eq_sec. Qed.
Print Assumptions gen_tomo_cov_blocks_eq.
Theorem gen_tomo_cov_total_eq : forall F : OF, forall eps nv ms (A : (@mat F)) (b v : (@vec F)) (ns : nat -> F),
  let pds := tomo_pds F eps nv ms A b v in
  dsum F (gen_tomo_cov_blocks F (List.length pds) (fun j => nth j pds (0, fun _ => c0 F)) ns) = tomo_cov_total F eps nv ms A b v ns.
Proof. intro F; exact (gen_tomo_cov_total_eq_sec F) || exact gen_tomo_cov_total_eq_sec. Qed.
Print Assumptions gen_tomo_cov_total_eq.
Theorem gen_tomo_mse_empi_eq : forall F : OF, forall (pd : nat -> nat * (@vec F)) (data_num_list : list F),
  gen_tomo_mse_empi F pd data_num_list
  = mse_empi_pds F (fun j => nth j data_num_list (c0 F)) 0 (map pd (seq 0 (List.length data_num_list))).
Proof. intro F; exact (gen_tomo_mse_empi_eq_sec F) || exact gen_tomo_mse_empi_eq_sec. Qed.
Print Assumptions gen_tomo_mse_empi_eq.
Theorem gen_tomo_fisher_terms_eq : forall F : OF, forall J (fisher : nat -> (@mat F)) (w : nat -> F),
  gen_tomo_fisher_terms F J fisher w = combine (map w (seq 0 J)) (map fisher (seq 0 J)).
Proof. intro F; exact (gen_tomo_fisher_terms_eq_sec F) || exact gen_tomo_fisher_terms_eq_sec. Qed.
Print Assumptions gen_tomo_fisher_terms_eq.
Theorem gen_cramer_rao_eq : forall F : OF, forall (N : F) (ns : nat -> F) j nv (Minv : (@mat F)),
  gen_cr_weight F N (ns j) = cr_weights F N ns j /\ gen_cr_value F N (mtrace nv Minv) = cr_var F nv N Minv.
Proof. intro F; exact (gen_cramer_rao_eq_sec F) || exact gen_cramer_rao_eq_sec. Qed.
Print Assumptions gen_cramer_rao_eq.
Theorem gen_povmt_matS_eq : forall F : OF, forall d2 mo i j, j < (mo - 1) * d2 ->
  gen_povmt_matS F d2 mo i j = matS F d2 i j.
Proof. intro F; exact (gen_povmt_matS_eq_sec F) || exact gen_povmt_matS_eq_sec. Qed.
Print Assumptions gen_povmt_matS_eq.
Theorem gen_qmpt_matS_eq : forall F : OF, forall d2 mo i j, i < d2 -> gen_qmpt_matS F d2 mo i j = matS_mp F d2 mo i j.
Proof. intro F; exact (gen_qmpt_matS_eq_sec F) || exact gen_qmpt_matS_eq_sec. Qed.
Print Assumptions gen_qmpt_matS_eq.
Theorem gen_override_tables : forall F : OF, gen_overrides_mse_qop = [false; true; false; true] /\ gen_overrides_cr = [false; true; false; false]
  /\ gen_overrides_other = false.
Proof. intro F; exact (gen_override_tables_sec F) || exact gen_override_tables_sec. Qed.
Print Assumptions gen_override_tables.
Theorem gen_mse_dispatch_eq : forall F : OF, forall mode : string,
  gen_mse_dispatch mode = (if String.eqb mode "qoperation" then Some true else if String.eqb mode "var" then Some false else None)
  /\ gen_mse_default_mode = "qoperation"%string.
Proof. intro F; exact (gen_mse_dispatch_eq_sec F) || exact gen_mse_dispatch_eq_sec. Qed.
Print Assumptions gen_mse_dispatch_eq.
Theorem gen_mse_value_eq : forall F : OF, forall ty mode on_eq d2 mo nv (V : @mat F), (ty = POVMT -> nv <= (mo - 1) * d2) ->
  gen_mse_value F ty mode on_eq d2 mo nv V = mse_analytical_of_cov F ty mode on_eq d2 mo nv V.
Proof. exact gen_mse_value_eq_sec. Qed.
Print Assumptions gen_mse_value_eq.
Theorem gen_cov_linear_eq : forall F : OF, forall nr (L Sigma : @mat F), gen_cov_linear F nr L Sigma = cov_linear F nr L Sigma.
Proof. exact gen_cov_linear_eq_sec. Qed.
Print Assumptions gen_cov_linear_eq.
Theorem gen_cr_value_eq : forall F : OF, forall ty on_eq d2 mo nv (N : F) (Minv : @mat F), (ty = POVMT -> nv <= (mo - 1) * d2) ->
  gen_cr_value_of F ty on_eq d2 mo nv N Minv = cr_analytical F ty on_eq d2 nv N Minv.
Proof. exact gen_cr_value_eq_sec. Qed.
Print Assumptions gen_cr_value_eq.
Theorem gen_cov_mat_eq : forall F : OF, forall (n : F) (q : @vec F) i j,
  gen_cov_mat F n q i j = cov_mat F n q i j /\ gen_da_cov_mat F n q i j = cov_mat F n q i j.
Proof. exact gen_cov_mat_eq_sec. Qed.
Print Assumptions gen_cov_mat_eq.
Theorem gen_da_cov_total_eq : forall F : OF, forall (n : F) (pds : list (nat * @vec F)),
  fst (gen_da_cov_place F n pds) = dsum_size F (map (fun p : nat * @vec F => (fst p, cov_mat F n (snd p))) pds) /\
  forall i j, snd (gen_da_cov_place F n pds) i j = dsum F (map (fun p : nat * @vec F => (fst p, cov_mat F n (snd p))) pds) i j.
Proof. exact gen_da_cov_total_eq_sec. Qed.
Print Assumptions gen_da_cov_total_eq.
Theorem gen_calc_se_eq : forall F : OF, forall n (xs ys : list (@vec F)), gen_calc_se F n xs ys = calc_se F n (combine xs ys).
Proof. exact gen_calc_se_eq_sec. Qed.
Print Assumptions gen_calc_se_eq.
Theorem gen_mse_prob_dists_eq : forall F : OF, forall n (xsl ysl : list (list (@vec F))),
  let ses := map (fun p : list (@vec F) * list (@vec F) => calc_se F n (combine (fst p) (snd p))) (combine xsl ysl) in
  gen_mse_prob_dists F n xsl ysl = (mean F ses, var_ddof1 F ses).
Proof. exact gen_mse_prob_dists_eq_sec. Qed.
Print Assumptions gen_mse_prob_dists_eq.
Theorem gen_mse_qoperations_eq : forall F : OF, forall n (xs ys : list (@vec F)) with_std,
  let points := map (fun xy : @vec F * @vec F => sqdist F n (fst xy) (snd xy)) (combine xs ys) in
  gen_mse_qoperations F n xs ys with_std = (mean F points, if with_std then Some (var_ddof1 F points) else None).
Proof. exact gen_mse_qoperations_eq_sec. Qed.
Print Assumptions gen_mse_qoperations_eq.
Theorem gen_mse_qops_dispatch_eq : forall F : OF, forall mode : string,
  gen_mse_qops_dispatch mode = (if String.eqb mode "qoperation" then Some true else if String.eqb mode "var" then Some false else None)
  /\ gen_mse_qops_default_mode = "qoperation"%string /\ gen_mse_qops_default_with_std = true.
Proof. intro F; exact (gen_mse_qops_dispatch_eq_sec F) || exact gen_mse_qops_dispatch_eq_sec. Qed.
Print Assumptions gen_mse_qops_dispatch_eq.
Theorem gen_mu_fisher_eq : forall F : OF, forall eps m g (p : @vec F) (G : @mat F),
  mres_mat_eq F (gen_mu_fisher F eps m g p G) (mu_fisher F eps m g p G).
Proof. exact gen_mu_fisher_eq_sec. Qed.
Print Assumptions gen_mu_fisher_eq.
Theorem gen_fisher_default_eps_is_1e8 : forall F : OF, gen_fisher_default_eps_num = 3022314549036573%Z /\ gen_fisher_default_eps_den = (2 ^ 78)%Z.
Proof. intro F; exact (gen_fisher_default_eps_sec F) || exact gen_fisher_default_eps_sec. Qed.
Print Assumptions gen_fisher_default_eps_is_1e8.
Theorem gen_num_outcomes_eq : forall F : OF, forall ty sched povm_len mo j,
  gen_num_outcomes ty sched povm_len mo j = num_outcomes_spec ty sched povm_len mo j.
Proof. intro F; exact (gen_num_outcomes_eq_sec F) || exact gen_num_outcomes_eq_sec. Qed.
Print Assumptions gen_num_outcomes_eq.
Theorem gen_tomo_fisher_slice : forall F : OF, forall (ms : list nat) j, j < List.length ms ->
  gen_tomo_fisher_start (fun i => nth i ms 0) j = sizes_sum (firstn j ms) /\
  gen_tomo_fisher_stop (fun i => nth i ms 0) j = sizes_sum (firstn j ms) + nth j ms 0.
Proof. intro F; exact (gen_tomo_fisher_slice_sec F) || exact gen_tomo_fisher_slice_sec. Qed.
Print Assumptions gen_tomo_fisher_slice.
Theorem gen_tomo_fisher_eq : forall F : OF, forall eps8 nv (A : @mat F) (b v : @vec F) (ms : list nat) j, j < List.length ms ->
  mres_mat_eq F (gen_tomo_fisher F eps8 (mv nv A v) b A (fun i => nth i ms 0) j) (tomo_fisher F eps8 nv ms j A b v).
Proof. exact gen_tomo_fisher_eq_sec. Qed.
Print Assumptions gen_tomo_fisher_eq.
(* the regenerated calc_prob_dists IS the model's tomo_pds (= pds_of_raw: consecutive pieces of the outcome counts of the schedules),
   and the variables are used exactly when the tomography carries the equality constraint *)
Theorem gen_prob_dists_eq : forall F : OF, forall eps nv (A : @mat F) (b v : @vec F) (ms : list nat), ms <> [] ->
  gen_prob_dists F eps (affine F nv A b v) (fun j => nth j ms 0) (List.length ms) (sizes_sum ms) = tomo_pds F eps nv ms A b v
  /\ gen_prob_dists_uses_var true = true /\ gen_prob_dists_uses_var false = false.
Proof. exact gen_prob_dists_eq_sec. Qed.
Print Assumptions gen_prob_dists_eq.
