(* C18 — equivalence of the definitions REGENERATED from quara's source by gen/c18_py2coq.py (QVGen.Gen_c18, rebuilt on every run) with
   the hand-written model Model/C18_Lindblad.v, for ALL inputs: the loop skeletons of calc_h_mat / calc_j_mat / calc_k_mat (which basis
   elements are visited, with which index and which factor), of generate_j/k/d_part_cb_from_jump_operators and of the table builder
   CompositeSystem._calc_basis_basisconjugate_sparse (product order, `alpha != 0 and beta != 0` filter, which list feeds which table).
   The proofs go through generic fold / flat_map lemmas and `ring` / `field`, so they survive renamings and harmless re-orderings of
   the arithmetic; a change of the iteration range (e.g. basis[1:] for basis), of an index, a factor or a filter breaks them. *)
From Coq Require Import Field Ring Arith Lia List Bool String.
From QV.Core Require Import OF Sums Mat Cplx.
From QV.Model Require Import QObj C18_Lindblad C18_PySem.
From QV.Proofs Require Import C18_Algebra C18_Misc C18_Verdict.
From QVGen Require Import Gen_c18.
Import ListNotations.

Section Equiv.
Context (F : OF).
Add Field Ffg : (k_field F).
Notation Cx := (CF F).
Add Ring Crg : (c_ring Cx).
Notation cmat := (cmat F).
Notation "x +c y" := (cadd Cx x y) (at level 50, left associativity).
Notation "x *c y" := (cmul Cx x y) (at level 40, left associativity).
Notation "0c" := (c0 Cx).

(* ---------------------------------------------------------------- lists built from index functions *)
Lemma nth_map_seq {A} (f : nat -> A) k q dflt : (q < k)%nat -> nth q (map f (seq 0 k)) dflt = f q.
Proof. intros H. rewrite (nth_indep _ dflt (f 0%nat)) by now rewrite map_length, seq_length.
  rewrite (map_nth f (seq 0 k) 0%nat q). now rewrite seq_nth. Qed.
Lemma enum_map_seq {A} (f : nat -> A) k : enum (map f (seq 0 k)) = map (fun q => (q, f q)) (seq 0 k).
Proof. unfold enum. rewrite map_length, seq_length. generalize 0%nat as s. induction k as [|k IH]; intros s; cbn; [reflexivity|]. now rewrite IH. Qed.
Lemma skipn1_map_seq {A} (f : nat -> A) k : skipn 1 (map f (seq 0 k)) = map (fun q => f (S q)) (seq 0 (k - 1)).
Proof. destruct k as [|k]; [reflexivity|]. replace (S k - 1)%nat with k by lia. cbn [seq map skipn]. now rewrite <- seq_shift, map_map. Qed.

(* an additive accumulator loop over [map f (seq 0 k)] is a finite sum *)
Lemma fold_sum {A} (g : cmat -> A -> cmat) (t : A -> cmat) (f : nat -> A) i j :
  (forall acc x, g acc x i j = acc i j +c t x i j) ->
  forall k a, fold_left g (map f (seq 0 k)) a i j = a i j +c sumn k (fun q => t (f q) i j).
Proof. intros Hg. induction k as [|k IH]; intros a. { cbn [seq map fold_left sumn]. ring. }
  rewrite seq_S, map_app, fold_left_app. cbn [map fold_left sumn plus]. rewrite Hg, IH. ring. Qed.

(* an element-store double loop *)
Lemma fold_mset_inner {A} (v : A -> Cx) (f : nat -> A) a0 i j : forall k acc,
  fold_left (fun acc '(b, y) => mset F acc a0 b (v y)) (map (fun q => (q, f q)) (seq 0 k)) acc i j
  = if Nat.eqb i a0 && (j <? k)%nat then v (f j) else acc i j.
Proof. induction k as [|k IH]; intros acc. { cbn [seq map fold_left]. now rewrite andb_false_r. }
  rewrite seq_S, map_app, fold_left_app. cbn [map fold_left plus]. unfold mset at 1. rewrite IH.
  destruct (Nat.eqb_spec i a0) as [->|]; cbn [andb]; [|reflexivity].
  destruct (Nat.eqb_spec j k) as [->|Hne].
  - destruct (Nat.ltb_spec k (S k)); [reflexivity|lia].
  - destruct (Nat.ltb_spec j k), (Nat.ltb_spec j (S k)); try reflexivity; lia. Qed.
Lemma fold_mset_outer {A} (v : A -> A -> Cx) (f : nat -> A) i j k : forall k' acc,
  fold_left (fun acc '(a, x) => fold_left (fun acc '(b, y) => mset F acc a b (v x y)) (map (fun q => (q, f q)) (seq 0 k)) acc)
            (map (fun q => (q, f q)) (seq 0 k')) acc i j
  = if (i <? k')%nat && (j <? k)%nat then v (f i) (f j) else acc i j.
Proof. induction k' as [|k' IH]; intros acc. { reflexivity. }
  rewrite seq_S, map_app, fold_left_app. cbn [map fold_left plus]. rewrite (fold_mset_inner (v (f k')) f k' i j k). rewrite IH.
  destruct (Nat.eqb_spec i k') as [->|Hne]; cbn [andb].
  - destruct (Nat.ltb_spec k' (S k')); [|lia]. destruct (Nat.ltb_spec k' k'); [lia|]. cbn [andb]. now destruct (j <? k)%nat.
  - destruct (Nat.ltb_spec i k'), (Nat.ltb_spec i (S k')); try reflexivity; lia. Qed.

(* ---------------------------------------------------------------- scalars *)
Lemma ofnat_add a b : @ofnat F (a + b) = cadd F (ofnat a) (ofnat b).
Proof. induction b as [|b IH]; [rewrite Nat.add_0_r; cbn; ring|]. rewrite Nat.add_succ_r. cbn [ofnat]. rewrite IH. ring. Qed.
Lemma ofnat_mul a b : @ofnat F (a * b) = cmul F (ofnat a) (ofnat b).
Proof. induction a as [|a IH]; [cbn; ring|]. cbn [Nat.mul]. rewrite ofnat_add, IH. cbn [ofnat]. ring. Qed.
Lemma ofnat_2 : @ofnat F 2 = two F. Proof. cbn. unfold two. ring. Qed.
Lemma ofnat_1 : @ofnat F 1 = c1 F. Proof. cbn. ring. Qed.
Lemma two_ne0 : two F <> c0 F.
Proof. unfold two. intros E. apply (double_neq0 F) in E; [exact E|apply one_neq_zero]. Qed.

(* ---------------------------------------------------------------- calc_h_mat / calc_j_mat / calc_k_mat *)
Section Extract.
Variable d : nat.
Hypothesis Hd : (0 < d)%nat.
Variable B : nat -> cmat.
Variable L : cmat.
Notation n := (d * d)%nat.
Notation m := (d * d - 1)%nat.
Notation basis := (map B (seq 0 n)).
Lemma d_ne0 : @ofnat F d <> c0 F.
Proof. replace d with (S (d - 1)) by lia. apply ofnat_S_neq0. Qed.

Theorem C18_gen_calc_h_mat : forall i j, gen_calc_h_mat F d basis L i j = calc_h_mat d B L i j.
Proof. intros i j. unfold gen_calc_h_mat, calc_h_mat. cbv zeta.
  rewrite (fold_sum _ (fun X => mscale ((c0 F, kdiv F (c1 F) (cmul F (two F) (ofnat d))) *c tr2 d L (probe_m d X)) X) B i j).
  - unfold mzero. cbn beta. match goal with |- 0c +c ?x = _ => replace (0c +c x) with x by ring end. reflexivity.
  - intros acc X. unfold madd, mscale, tr2, probe_m, cI, cdivr, ci, rc. rewrite ?ofnat_mul, ?ofnat_add, ?ofnat_2, ?ofnat_1.
    set (T := mtrace _ _). apply cplx_eq; cbn; unfold two; field; repeat split; first [apply d_ne0|apply two_ne0|apply one_neq_zero]. Qed.

Theorem C18_gen_calc_j_mat : forall i j, gen_calc_j_mat F d basis L i j = calc_j_mat d B L i j.
Proof. intros i j. unfold gen_calc_j_mat, calc_j_mat. cbv zeta. rewrite enum_map_seq.
  rewrite (fold_sum (fun acc (p : nat * cmat) => let '(a, X) := p in _) (fun p : nat * cmat => mscale (zof (jden F d (Nat.eqb (fst p) 0)) *c tr2 d L (probe_p d (snd p))) (snd p))
                    (fun q => (q, B q)) i j).
  - unfold mzero. cbn [fst snd]. match goal with |- 0c +c ?x = _ => replace (0c +c x) with x by ring end. reflexivity.
  - intros acc [a X]. cbn [fst snd]. unfold madd, mscale, tr2, probe_p, cI, cdivr, ci, rc, jden.
    destruct (Nat.eqb a 0); rewrite ?ofnat_mul, ?ofnat_add, ?ofnat_2, ?ofnat_1; cbn [ofnat]; set (T := mtrace _ _);
      apply cplx_eq; cbn; unfold two; field; repeat split; first [apply d_ne0|apply two_ne0|apply one_neq_zero]. Qed.

Theorem C18_gen_calc_k_mat : forall a b, (a < m)%nat -> (b < m)%nat -> gen_calc_k_mat F d basis L a b = calc_k_mat d B L a b.
Proof. intros a b Ha Hb. unfold gen_calc_k_mat, calc_k_mat. cbv zeta. rewrite skipn1_map_seq, enum_map_seq.
  rewrite (fold_mset_outer (fun X Y => mtrace n (mmul n L (kron d d X (cconj Y)))) (fun q => B (S q)) a b m m).
  destruct (Nat.ltb_spec a m); [|lia]. destruct (Nat.ltb_spec b m); [|lia]. reflexivity. Qed.
End Extract.

(* ---------------------------------------------------------------- generate_j / k / d_part_cb_from_jump_operators *)
Lemma fold_madd (l : list cmat) : forall a s t, fold_left (fun x y => madd x y) l a s t = a s t +c msum l s t.
Proof. induction l as [|x l IH]; intros a s t; cbn [fold_left].
  - unfold msum. cbn [fold_right]. unfold mzero. ring.
  - rewrite IH. unfold msum. cbn [fold_right]. unfold madd. ring. Qed.
Lemma reduce_add_msum (l : list cmat) s t : l <> [] -> reduce_add F l s t = msum l s t.
Proof. destruct l as [|x l]; [congruence|]. intros _. unfold reduce_add. rewrite fold_madd. unfold msum. cbn [fold_right]. reflexivity. Qed.
Lemma mhalf_eq : rc F (kdiv F (copp F (ofnat 1)) (ofnat 2)) = (zof (copp F (half F)) : Cx).
Proof. unfold rc. f_equal. rewrite ofnat_1, ofnat_2. unfold half. field. apply two_ne0. Qed.

Theorem C18_gen_jump_parts (d : nat) (cs : list cmat) : cs <> [] -> forall s t,
  gen_j_part_cb F d cs s t = jump_j d cs s t /\ gen_k_part_cb F d cs s t = jump_k d cs s t /\ gen_d_part_cb F d cs s t = jump_d d cs s t.
Proof. intros Hne s t.
  assert (Ej : gen_j_part_cb F d cs s t = jump_j d cs s t).
  { unfold gen_j_part_cb, jump_j. cbv zeta. unfold mscale. rewrite mhalf_eq. f_equal.
    rewrite reduce_add_msum by (destruct cs; [congruence|cbn [map]; intro; discriminate]). now rewrite map_map. }
  assert (Ek : gen_k_part_cb F d cs s t = jump_k d cs s t).
  { unfold gen_k_part_cb, jump_k. cbv zeta. apply reduce_add_msum. destruct cs; [congruence|cbn [map]; intro; discriminate]. }
  split; [exact Ej|]. split; [exact Ek|]. unfold gen_d_part_cb, jump_d. cbv zeta. unfold madd. now rewrite Ej, Ek. Qed.

(* ---------------------------------------------------------------- the table builder *)
Lemma flat_map_map {A A' C} (h : A -> A') (g : A' -> list C) l : flat_map g (map h l) = flat_map (fun a => g (h a)) l.
Proof. induction l as [|a l IH]; [reflexivity|]. cbn. now rewrite IH. Qed.
Lemma flat_map_prod {A C} (g : nat * nat -> list C) (l1 l2 : list nat) (_ : A) :
  flat_map g (list_prod l1 l2) = flat_map (fun a => flat_map (fun b => g (a, b)) l2) l1.
Proof. induction l1 as [|a l1 IH]; [reflexivity|]. cbn [list_prod flat_map]. rewrite flat_map_app, IH. f_equal. apply flat_map_map. Qed.
Lemma flat_map_nil {A C} (l : list A) : flat_map (fun _ : A => @nil C) l = [].
Proof. induction l; [reflexivity|exact IHl]. Qed.
Lemma flat_map_single {A C} (h : A -> C) (l : list A) : flat_map (fun b => [h b]) l = map h l.
Proof. induction l as [|b l IH]; [reflexivity|]. cbn. now rewrite IH. Qed.
Lemma flat_map_ext' {A C} (g g' : A -> list C) l : (forall a, g a = g' a) -> flat_map g l = flat_map g' l.
Proof. intros E. induction l as [|a l IH]; [reflexivity|]. cbn. now rewrite E, IH. Qed.
Lemma len_rows {C} (h : nat -> nat -> C) (m k : nat) : List.length (flat_map (fun a => map (h a) (seq 0 m)) (seq 0 k)) = (k * m)%nat.
Proof. induction k as [|k IHk]; [reflexivity|]. rewrite seq_S, flat_map_app, app_length, IHk. cbn [flat_map plus]. rewrite app_nil_r, map_length, seq_length. lia. Qed.
(* rows of length m laid one after the other: entry c is (c / m, c mod m) *)
Lemma nth_rows {C} (h : nat -> nat -> C) (m : nat) dflt : forall k c, (c < k * m)%nat ->
  nth c (flat_map (fun a => map (h a) (seq 0 m)) (seq 0 k)) dflt = h (c / m)%nat (c mod m)%nat.
Proof. induction k as [|k IH]; intros c Hc; [lia|].
  assert (Hm : (0 < m)%nat) by (destruct m; lia).
  rewrite seq_S, flat_map_app. cbn [flat_map plus]. rewrite app_nil_r.
  pose proof (len_rows h m k) as Hlen.
  destruct (Nat.lt_ge_cases c (k * m)) as [H|H].
  - rewrite app_nth1 by now rewrite Hlen. now apply IH.
  - rewrite app_nth2 by now rewrite Hlen. rewrite Hlen.
    assert (Hr : (c - k * m < m)%nat) by lia.
    rewrite nth_map_seq by exact Hr.
    replace c with ((c - k * m) + k * m)%nat at 2 3 by lia.
    rewrite Nat.div_add by lia. rewrite Nat.mod_add by lia. rewrite Nat.div_small, Nat.mod_small by exact Hr. reflexivity. Qed.

Section Tables.
Variable d : nat.
Variable B : nat -> cmat.
Notation n := (d * d)%nat.
Notation m := (d * d - 1)%nat.
Notation basis := (map B (seq 0 n)).
Hypothesis Hd : (0 < d)%nat.
Lemma n_S : n = S m. Proof. nia. Qed.

(* list 0 (all pairs): entry a*n + b is B_a (x) conj B_b *)
Theorem C18_gen_tab_0 : List.length (gen_tab_0 F d basis) = (n * n)%nat /\
  forall c s t, (c < n * n)%nat -> nth c (gen_tab_0 F d basis) mzero s t = bbc d B (c / n) (c mod n) s t.
Proof. unfold gen_tab_0. rewrite map_length, seq_length. rewrite (flat_map_prod _ _ _ tt).
  rewrite (flat_map_ext' _ (fun a => map (fun b => kron d d (mnth F basis a) (cconj (mnth F basis b))) (seq 0 n))) by (intros a; apply flat_map_single).
  split.
  - apply len_rows.
  - intros c s t Hc. refine (eq_trans (f_equal (fun M : cmat => M s t) (nth_rows (fun a b => kron d d (mnth F basis a) (cconj (mnth F basis b))) n mzero n c Hc)) _). cbv beta.
    assert (H1 : (c / n < n)%nat) by (apply Nat.div_lt_upper_bound; lia). assert (H2 : (c mod n < n)%nat) by (apply Nat.mod_upper_bound; lia).
    unfold bbc, kron, cconj, mnth. now rewrite !nth_map_seq by assumption. Qed.

(* the filter `alpha != 0 and beta != 0` keeps exactly the pairs (a+1, b+1), a, b < n-1, in row-major order *)
Lemma filtered_rows {C} (f : nat -> nat -> C) :
  flat_map (fun p : nat * nat => let '(a, b) := p in if negb (Nat.eqb a 0) && negb (Nat.eqb b 0) then [f a b] else []) (list_prod (seq 0 (S m)) (seq 0 (S m)))
  = flat_map (fun a => map (fun b => f (S a) (S b)) (seq 0 m)) (seq 0 m).
Proof. rewrite (flat_map_prod _ _ _ tt).
  change (flat_map (fun a => flat_map (fun b => if negb (Nat.eqb a 0) && negb (Nat.eqb b 0) then [f a b] else []) (seq 0 (S m))) (seq 0 (S m))
          = flat_map (fun a => map (fun b => f (S a) (S b)) (seq 0 m)) (seq 0 m)).
  cbn [seq flat_map]. rewrite <- !seq_shift.
  assert (E0 : forall l : list nat, flat_map (fun b => if negb (Nat.eqb 0 0) && negb (Nat.eqb b 0) then [f 0%nat b] else []) l = []).
  { intros l. cbn [Nat.eqb negb andb]. apply flat_map_nil. }
  rewrite (E0 (map S (seq 0 m))). cbn [Nat.eqb negb andb app]. rewrite flat_map_map. apply flat_map_ext'. intros a.
  cbn [Nat.eqb negb andb app]. rewrite flat_map_map. cbn [Nat.eqb negb andb]. apply flat_map_single. Qed.

Lemma filtered_rows' {C} (f : nat -> nat -> C) N : N = S m ->
  flat_map (fun p : nat * nat => let '(a, b) := p in if negb (Nat.eqb a 0) && negb (Nat.eqb b 0) then [f a b] else []) (list_prod (seq 0 N) (seq 0 N))
  = flat_map (fun a => map (fun b => f (S a) (S b)) (seq 0 m)) (seq 0 m).
Proof. intros ->. apply filtered_rows. Qed.

Theorem C18_gen_tab_1 : forall c s t, (c < m * m)%nat ->
  nth c (gen_tab_1 F d basis) mzero s t = bbc d B (S (c / m)) (S (c mod m)) s t.
Proof. intros c s t Hc. unfold gen_tab_1. rewrite map_length, seq_length.
  change (nth c (flat_map (fun p : nat * nat => let '(a, b) := p in if negb (Nat.eqb a 0) && negb (Nat.eqb b 0)
                   then [kron d d (mnth F basis a) (cconj (mnth F basis b))] else []) (list_prod (seq 0 n) (seq 0 n))) mzero s t = bbc d B (S (c / m)) (S (c mod m)) s t).
  rewrite (filtered_rows' (fun a b => kron d d (mnth F basis a) (cconj (mnth F basis b))) n n_S).
  refine (eq_trans (f_equal (fun M : cmat => M s t) (nth_rows (fun a b => kron d d (mnth F basis (S a)) (cconj (mnth F basis (S b)))) m mzero m c Hc)) _). cbv beta.
  assert (Hm : (0 < m)%nat) by (destruct m; lia).
  assert (H1 : (S (c / m) < n)%nat) by (assert (c / m < m)%nat by (apply Nat.div_lt_upper_bound; lia); lia).
  assert (H2 : (S (c mod m) < n)%nat) by (assert (c mod m < m)%nat by (apply Nat.mod_upper_bound; lia); lia).
  unfold bbc, kron, cconj, mnth. now rewrite !nth_map_seq by assumption. Qed.

Theorem C18_gen_tab_2 : forall c i j, (c < m * m)%nat ->
  nth c (gen_tab_2 F d basis) mzero i j = bhb d B (S (c / m)) (S (c mod m)) i j.
Proof. intros c i j Hc. unfold gen_tab_2. rewrite map_length, seq_length.
  change (nth c (flat_map (fun p : nat * nat => let '(a, b) := p in if negb (Nat.eqb a 0) && negb (Nat.eqb b 0)
                   then [mmul d (cadj (mnth F basis b)) (mnth F basis a)] else []) (list_prod (seq 0 n) (seq 0 n))) mzero i j = bhb d B (S (c / m)) (S (c mod m)) i j).
  rewrite (filtered_rows' (fun a b => mmul d (cadj (mnth F basis b)) (mnth F basis a)) n n_S).
  refine (eq_trans (f_equal (fun M : cmat => M i j) (nth_rows (fun a b => mmul d (cadj (mnth F basis (S b))) (mnth F basis (S a))) m mzero m c Hc)) _). cbv beta.
  assert (Hm : (0 < m)%nat) by (destruct m; lia).
  assert (H1 : (S (c / m) < n)%nat) by (assert (c / m < m)%nat by (apply Nat.div_lt_upper_bound; lia); lia).
  assert (H2 : (S (c mod m) < n)%nat) by (assert (c mod m < m)%nat by (apply Nat.mod_upper_bound; lia); lia).
  unfold bhb, mmul, cadj, mnth. apply (@sumn_ext Cx); intros l _. now rewrite !nth_map_seq by assumption. Qed.
End Tables.

(* ---------------------------------------------------------------- the two helpers that read the sparse tables:  table . k_mat.flatten(), reshaped.
   `flatten()` is the ROW-MAJOR vectorisation whatever the memory layout of k_mat (a layout-dependent `ravel(order="A")` is outside the
   translator's subset); with the tables of C18_gen_tab_1 / _2 (wiring "T": column c = flattened list entry c) these are the model's
   j_of_k_sparse / k_part_sparse, which Props/C18_sparse_tables proves equal to the slow formulas *)
Theorem C18_gen_sparse_helpers (d : nat) (B : nat -> cmat) (K : cmat) :
  (forall i j, gen_j_of_k_sparse F d (tab_j d B) K i j = j_of_k_sparse d B K i j) /\
  (forall s t, gen_k_part_sparse F d (tab_k d B) K s t = k_part_sparse d B K s t) /\
  gen_sparse_tables = [("_calc_j_mat_from_k_mat_with_sparsity"%string, "basishermitian_basis_T_from_1"%string);
                       ("_calc_k_part_from_k_mat_with_sparsity"%string, "basis_basisconjugate_T_sparse_from_1"%string)].
Proof. split; [|split; [|reflexivity]].
  - intros i j. unfold gen_j_of_k_sparse, j_of_k_sparse. cbv zeta. unfold mscale. now rewrite mhalf_eq.
  - intros s t. reflexivity. Qed.

(* ---------------------------------------------------------------- calc_proj_ineq_constraint: the clipping loop (in-place, index by index) sets
   exactly the negative eigenvalues to 0 — for EVERY list, also when all or none of them are negative —, the new dissipator matrix is
   V diag(l') V^dagger, and the rebuild receives h_mat, j_mat and that matrix *)
Lemma nth_app_len (p q : list F) x dflt : nth (List.length p) (p ++ x :: q) dflt = x.
Proof. induction p; [reflexivity|exact IHp]. Qed.
Lemma lset_app_len (p q : list F) x v : lset F (p ++ x :: q) (List.length p) v = p ++ v :: q.
Proof. induction p as [|a p IH]; [reflexivity|]. cbn [app List.length lset]. now rewrite IH. Qed.
Lemma fold_clip (clip : F -> F) (test : F -> bool) (v : F) : (forall x, clip x = if test x then v else x) ->
  forall q p, fold_left (fun l i => if test (nth i l (c0 F)) then lset F l i v else l) (seq (List.length p) (List.length q)) (p ++ q) = p ++ map clip q.
Proof. intros Hc. induction q as [|x q IH]; intros p; [reflexivity|]. cbn [List.length seq fold_left map].
  rewrite nth_app_len, lset_app_len.
  assert (E : (if test x then p ++ v :: q else p ++ x :: q) = (p ++ [clip x]) ++ q).
  { rewrite Hc. destruct (test x); now rewrite <- app_assoc. }
  rewrite E. replace (S (List.length p)) with (List.length (p ++ [clip x])) by (rewrite app_length; cbn; lia).
  rewrite IH. now rewrite <- app_assoc. Qed.
Theorem C18_gen_proj_ineq (d : nat) (l : list F) (V : cmat) :
  (forall i j, gen_proj_ineq_kmat F d l V i j = proj_ineq_kmat d l V i j) /\
  gen_proj_ineq_args = ["h"%string; "j"%string; "new_k"%string].
Proof. split; [|reflexivity]. intros i j. unfold gen_proj_ineq_kmat, proj_ineq_kmat. cbv zeta. cbn [ofnat].
  pose proof (fold_clip (fun x => if fltb F x (c0 F) then c0 F else x) (fun x => rltb F x (c0 F)) (c0 F) (fun x => eq_refl) l []) as E.
  cbn [List.length app] in E. rewrite E. reflexivity. Qed.

(* ---------------------------------------------------------------- the constructors generate_hs_from_hjk / _hk / _h / _k: the computational-basis
   generator they hand to convert_hs (then _truncate_hs) is the model's lcb_hjk / lcb_hk / lcb_h / lcb_k, built from -1j (H (x) I - I (x) conj H),
   J (x) I + I (x) conj J and the two table helpers; the _check_*_mat calls come in the model's order (h, j, k) *)
Lemma mi_eq : copp Cx (ci F) = mi F. Proof. unfold ci, mi. apply cplx_eq; cbn; ring. Qed.
Lemma gen_h_part_eq d (H : cmat) s t : gen_h_part F d H s t = h_part d H s t.
Proof. unfold gen_h_part, h_part. cbv zeta. unfold mscale, cI. now rewrite mi_eq. Qed.
Lemma gen_j_part_eq d (J : cmat) s t : gen_j_part F d J s t = j_part d J s t.
Proof. reflexivity. Qed.
Theorem C18_gen_constructors (d : nat) (B : nat -> cmat) (H J K : cmat) : (0 < d)%nat -> forall s t, (t < d * d)%nat ->
  gen_lcb_hjk F d (tab_j d B) (tab_k d B) H J K s t = lcb_hjk d B H J K s t /\
  gen_lcb_hk F d (tab_j d B) (tab_k d B) H K s t = lcb_hk d B H K s t /\
  gen_lcb_h F d (tab_j d B) (tab_k d B) H s t = lcb_h d H s t /\
  gen_lcb_k F d (tab_j d B) (tab_k d B) K s t = lcb_k d B K s t /\
  gen_lcb_hjk_checks = [("_check_h_mat"%string, "h_mat"%string); ("_check_j_mat"%string, "j_mat"%string); ("_check_k_mat"%string, "k_mat"%string)] /\
  gen_lcb_hk_checks = [("_check_h_mat"%string, "h_mat"%string); ("_check_k_mat"%string, "k_mat"%string)] /\
  gen_lcb_h_checks = [("_check_h_mat"%string, "h_mat"%string)] /\ gen_lcb_k_checks = [("_check_k_mat"%string, "k_mat"%string)].
Proof. intros Hd s t Ht.
  assert (Hm : (t mod d < d)%nat) by (apply Nat.mod_upper_bound; lia).
  assert (Hq : (t / d < d)%nat) by (apply Nat.div_lt_upper_bound; lia).
  assert (Ek : gen_k_part_sparse F d (tab_k d B) K s t = k_part d B K s t).
  { destruct (C18_gen_sparse_helpers d B K) as [_ [E _]]. rewrite E. now apply k_part_sparse_eq. }
  assert (Ej : j_part d (gen_j_of_k_sparse F d (tab_j d B) K) s t = j_part d (j_of_k d B K) s t).
  { destruct (C18_gen_sparse_helpers d B K) as [E _]. unfold j_part, madd, kron, cconj.
    rewrite !E, !(j_of_k_sparse_eq F d B K) by assumption. reflexivity. }
  repeat split.
  - unfold gen_lcb_hjk, lcb_hjk. cbv zeta. unfold madd. rewrite ?gen_h_part_eq, ?gen_j_part_eq, ?Ek. ring.
  - unfold gen_lcb_hk, lcb_hk. cbv zeta. unfold madd. rewrite ?gen_h_part_eq, ?gen_j_part_eq, ?Ek, ?Ej. ring.
  - unfold gen_lcb_h, lcb_h. cbv zeta. apply gen_h_part_eq.
  - unfold gen_lcb_k, lcb_k. cbv zeta. unfold madd. rewrite ?gen_j_part_eq, ?Ek, ?Ej. ring. Qed.

(* which attribute is made from which list by which final operation *)
Theorem C18_gen_tab_wiring : gen_tab_wiring =
  [("_basisconjugate_basis_sparse"%string, (0%nat, "conjugate"%string)); ("_basis_basisconjugate_T_sparse"%string, (0%nat, "T"%string));
   ("_basis_basisconjugate_T_sparse_from_1"%string, (1%nat, "T"%string)); ("_basishermitian_basis_T_from_1"%string, (2%nat, "T"%string))].
Proof. reflexivity. Qed.
End Equiv.

Print Assumptions C18_gen_calc_h_mat.
Print Assumptions C18_gen_calc_j_mat.
Print Assumptions C18_gen_calc_k_mat.
Print Assumptions C18_gen_jump_parts.
Print Assumptions C18_gen_tab_0.
Print Assumptions C18_gen_tab_1.
Print Assumptions C18_gen_tab_2.
Print Assumptions C18_gen_sparse_helpers.
Print Assumptions C18_gen_proj_ineq.
Print Assumptions C18_gen_constructors.
Print Assumptions C18_gen_tab_wiring.
