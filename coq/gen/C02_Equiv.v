(* C02 — re-checked on every run against the glue REGENERATED from /repo's source by gen/c02_py2coq.py (QVGen.Gen_c02_glue):
   (1) every regenerated function is the recorded call skeleton (which callee / table / attribute, in which order, with which arguments);
   (2) round-trip theorems transported to the regenerated wrappers under the stated laws of the primitives they call;
   (3) the regenerated truncate_hs family, instantiated with an array semantics of its numpy vocabulary, IS Model/C02_Conv.truncate_hs. *)
From Coq Require Import Arith List Bool Lia.
From QV.Core Require Import OF Sums Mat Cplx.
From QV.Model Require Import QObj HermEmbed C02_Conv.
From QV.Proofs Require Import C02_QObjLemmas C02_Conv.
From QV.Model Require IndexUtil.
From QV.Proofs Require IndexUtil.
From Coq Require Import ZArith.
From QVGen Require Import Gen_c02_glue.
Import ListNotations.

(* ================================================================== (1) call skeletons *)
Section Skeleton.
Context {V : Type} (s : sym V).
Let dim2 c := tuple2 s (op_Pow s (attr_dim s c) (const_int_2 s)) (op_Pow s (attr_dim s c) (const_int_2 s)).
Let dim1 c := tuple2 s (attr_dim s c) (attr_dim s c).
Let atol_or e := ite s (cmp_Is s e (const_None s)) (call_Settings_get_atol_0 s) e.

Theorem gen_skeleton_truncate : forall hs e flag m,
  gen_truncate_imaginary_part s m e = call_np_where_3 s (cmp_Lt s (call_np_abs_1 s (attr_imag s m)) (atol_or e)) (attr_real s m) m /\
  gen_truncate_computational_fluctuation s m e = call_np_where_3 s (cmp_Lt s (call_np_abs_1 s m) (atol_or e)) (const_float_0_0 s) m /\
  gen_truncate_hs s hs e flag =
    (let size := ite s (cmp_Gt s (call_np_size_1 s hs) (const_int_0 s)) (call_np_max_1 s (call_np_abs_1 s (call_np_real_1 s hs))) (const_float_0_0 s) in
     let tmp := gen_truncate_imaginary_part s hs (op_Mult s (atol_or e) (call_max_2 s (const_float_1_0 s) size)) in
     ite s (op_And s (cmp_Eq s flag (const_True s)) (call_np_any_1 s (cmp_NotEq s (attr_imag s tmp) (const_int_0 s)))) (raise_ValueError s)
       (gen_truncate_computational_fluctuation s (ite s (cmp_Eq s flag (const_True s)) (meth_astype_1 s (attr_real s tmp) (mod_np_float64 s)) tmp) e)) /\
  gen_flatten s m = meth_flatten_0 s (ite s (op_Or s (cmp_Eq s (call_type_1 s m) (mod_sparse_csr_matrix s)) (cmp_Eq s (call_type_1 s m) (mod_sparse_csc_matrix s))) (meth_toarray_0 s m) m).
Proof. intros. repeat split; reflexivity. Qed.

Theorem gen_skeleton_state : forall c v x e p self,
  gen_to_density_matrix_from_vec s c v = meth_reshape_1 s (meth_dot_1 s (attr_basis_T_sparse s c) v) (dim1 c) /\
  gen_to_vec_from_density_matrix_with_sparsity s c x e = gen_truncate_hs s (meth_dot_1 s (attr_basisconjugate_sparse s c) (gen_flatten s x)) e (const_True s) /\
  gen_to_density_matrix_from_var s c v p = gen_to_density_matrix_from_vec s c (call_convert_var_to_vec_3 s c v p) /\
  gen_to_var_from_density_matrix s c x p = call_convert_vec_to_var_3 s c (gen_to_vec_from_density_matrix_with_sparsity s c x (const_None s)) p /\
  gen_State_to_density_matrix_with_sparsity s self = gen_to_density_matrix_from_vec s (attr_composite_system s self) (attr_vec s self).
Proof. intros. repeat split; reflexivity. Qed.

Theorem gen_skeleton_povm : forall c vs x xs e p self idx,
  gen_to_matrices_from_vecs s c vs = list_map s (fun v => meth_reshape_1 s (meth_dot_1 s (attr_basis_T_sparse s c) v) (dim1 c)) vs /\
  gen_to_vec_from_matrix_with_sparsity s c x e = gen_truncate_hs s (meth_dot_1 s (attr_basisconjugate_sparse s c) (meth_flatten_0 s x)) e (const_True s) /\
  gen_to_vecs_from_matrices_with_sparsity s c xs = list_map s (fun m => gen_to_vec_from_matrix_with_sparsity s c m (const_None s)) xs /\
  gen_to_matrices_from_var s c vs p = gen_to_matrices_from_vecs s c (call_convert_var_to_vecs_3 s c vs p) /\
  gen_to_var_from_matrices s c xs p = call_convert_vecs_to_var_3 s c (gen_to_vecs_from_matrices_with_sparsity s c xs) p /\
  gen_Povm_matrices_with_sparsity s self = gen_to_matrices_from_vecs s (attr_composite_system s self) (attr_vecs s self) /\
  gen_Povm_matrix_with_sparsity s self idx =
    meth_reshape_1 s (meth_dot_1 s (attr_basis_T_sparse s (attr_composite_system s self)) (gen_Povm_vec s self idx)) (tuple2 s (attr_dim s self) (attr_dim s self)).
Proof. intros. repeat split; reflexivity. Qed.

(* index dispatch of Povm.vec (hence of matrix_with_sparsity): int -> _vecs[index]; tuple -> length check (ValueError), then the serial index obtained by
   indexing  np.array(range(num_outcomes)).reshape(nums_local_outcomes)  successively with the components of the tuple *)
Theorem gen_skeleton_povm_index : forall self idx,
  gen_Povm__md_index2serial_index s self idx =
    list_fold s (fun t i => subscr s t i) idx (meth_reshape_1 s (call_np_array_1 s (call_range_1 s (attr__num_outcomes s self))) (attr_nums_local_outcomes s self)) /\
  gen_Povm_vec s self idx =
    ite s (cmp_Eq s (call_type_1 s idx) (builtin_tuple s))
      (ite s (cmp_NotEq s (call_len_1 s idx) (call_len_1 s (attr_nums_local_outcomes s self))) (raise_ValueError s)
         (subscr s (attr__vecs s self) (gen_Povm__md_index2serial_index s self idx)))
      (subscr s (attr__vecs s self) idx).
Proof. intros. split; reflexivity. Qed.

(* MProcess: hs(index) dispatch (int -> hss[index]; tuple -> length check, then hss[index_serial_from_index_multi_dimensional(shape, index)]) and the
   per-outcome conversions, each of which converts exactly hs(outcome) *)
Theorem gen_skeleton_mprocess : forall self idx,
  gen_MProcess_hs s self idx =
    ite s (cmp_Eq s (call_type_1 s idx) (builtin_tuple s))
      (ite s (cmp_NotEq s (call_len_1 s idx) (call_len_1 s (attr_shape s self))) (raise_ValueError s)
         (subscr s (attr_hss s self) (call_index_serial_from_index_multi_dimensional_2 s (attr_shape s self) idx)))
      (subscr s (attr_hss s self) idx) /\
  gen_MProcess_to_choi_matrix s self idx = call_gate_to_choi_from_hs_2 s (attr_composite_system s self) (gen_MProcess_hs s self idx) /\
  gen_MProcess_to_choi_matrix_with_dict s self idx = call_gate_to_choi_from_hs_with_dict_2 s (attr_composite_system s self) (gen_MProcess_hs s self idx) /\
  gen_MProcess_to_choi_matrix_with_sparsity s self idx = gen_to_choi_from_hs_with_sparsity s (attr_composite_system s self) (gen_MProcess_hs s self idx) /\
  gen_MProcess_to_kraus_matrices s self idx = call_gate_to_kraus_matrices_from_hs_2 s (attr_composite_system s self) (gen_MProcess_hs s self idx) /\
  gen_MProcess_to_process_matrix s self idx = call_gate_to_process_matrix_from_hs_2 s (attr_composite_system s self) (gen_MProcess_hs s self idx).
Proof. intros. repeat split; reflexivity. Qed.
(* transported: if the three HS -> Choi functions agree (theorem C02_variants_agree + the gate_choi correspondence), the three MProcess methods agree
   for every outcome index of every kind, because they convert the same hs(outcome) *)
Theorem gen_mprocess_choi_variants_agree : forall self idx,
  (forall c h, call_gate_to_choi_from_hs_2 s c h = gen_to_choi_from_hs_with_sparsity s c h) ->
  (forall c h, call_gate_to_choi_from_hs_with_dict_2 s c h = gen_to_choi_from_hs_with_sparsity s c h) ->
  gen_MProcess_to_choi_matrix s self idx = gen_MProcess_to_choi_matrix_with_sparsity s self idx /\
  gen_MProcess_to_choi_matrix_with_dict s self idx = gen_MProcess_to_choi_matrix_with_sparsity s self idx.
Proof. intros self idx H1 H2. unfold gen_MProcess_to_choi_matrix, gen_MProcess_to_choi_matrix_with_dict, gen_MProcess_to_choi_matrix_with_sparsity. cbv zeta.
  now rewrite H1, H2. Qed.

(* basis change: the guards of convert_hs / convert_vec (square HS, square dimension, equal basis dimensions and lengths -> ValueError), the representation
   matrix U[a,b] = vdot(to_basis[a], from_basis[b]) laid out row-major over product(to_basis, from_basis), U H U^dagger resp. U v, and the object-level wrappers *)
Theorem gen_skeleton_convert : forall h v fb tb self mode,
  gen_convert_hs s h fb tb =
    (let size := attr_shape s h in
     ite s (cmp_NotEq s (subscr s size (const_int_0 s)) (subscr s size (const_int_1 s))) (raise_ValueError s)
    (ite s (cmp_NotEq s (op_Pow s (call_int_1 s (call_np_sqrt_1 s (subscr s size (const_int_0 s)))) (const_int_2 s)) (subscr s size (const_int_0 s))) (raise_ValueError s)
    (ite s (cmp_NotEq s (attr_dim s fb) (attr_dim s tb)) (raise_ValueError s)
    (ite s (cmp_NotEq s (call_len_1 s fb) (call_len_1 s tb)) (raise_ValueError s)
    (let U := meth_reshape_2 s (call_np_array_1 s (list_map_product s (fun a b => call_vdot_2 s a b) tb fb)) (op_Pow s (attr_dim s fb) (const_int_2 s)) (op_Pow s (attr_dim s fb) (const_int_2 s)) in
     op_MatMult s (op_MatMult s U h) (attr_T s (meth_conj_0 s U))))))) /\
  gen_convert_vec s v fb tb =
    ite s (cmp_NotEq s (call_len_1 s fb) (call_len_1 s tb)) (raise_ValueError s)
    (ite s (cmp_NotEq s (attr_dim s fb) (attr_dim s tb)) (raise_ValueError s)
    (op_MatMult s (meth_reshape_2 s (call_np_array_1 s (list_map_product s (fun a b => call_mutil_vdot_2 s a b) tb fb)) (call_len_1 s fb) (call_len_1 s fb)) v)) /\
  gen_Gate_convert_basis s self tb = gen_convert_hs s (attr_hs s self) (meth_basis_0 s (attr_composite_system s self)) tb /\
  gen_Gate_convert_to_comp_basis s self mode =
    gen_convert_hs s (attr_hs s self) (meth_basis_0 s (attr_composite_system s self)) (meth_comp_basis_1__mode s (attr_composite_system s self) mode) /\
  gen_State_convert_basis s self tb = gen_convert_vec s (attr__vec s self) (meth_basis_0 s (attr_composite_system s self)) tb /\
  gen_Povm_convert_basis s self tb = list_map s (fun x => gen_convert_vec s x (meth_basis_0 s (attr_composite_system s self)) tb) (attr_vecs s self).
Proof. intros. repeat split; reflexivity. Qed.

Theorem gen_skeleton_gate : forall c h ch e v p self,
  gen_to_choi_from_hs_with_sparsity s c h = meth_reshape_1 s (meth_dot_1 s (attr_basis_basisconjugate_T_sparse s c) (meth_flatten_0 s h)) (dim2 c) /\
  gen_to_hs_from_choi_with_sparsity s c ch e =
    gen_truncate_hs s (meth_reshape_1 s (meth_dot_1 s (attr_basisconjugate_basis_sparse s c) (gen_flatten s ch)) (dim2 c)) e (const_True s) /\
  gen_to_choi_from_var s c v p = gen_to_choi_from_hs_with_sparsity s c (call_convert_var_to_hs_3 s c v p) /\
  gen_to_var_from_choi s c ch p = call_convert_hs_to_var_3 s c (gen_to_hs_from_choi_with_sparsity s c ch (const_None s)) p /\
  gen_Gate_to_choi_matrix s self = call_to_choi_from_hs_2 s (attr_composite_system s self) (attr_hs s self) /\
  gen_Gate_to_choi_matrix_with_dict s self = call_to_choi_from_hs_with_dict_2 s (attr_composite_system s self) (attr_hs s self) /\
  gen_Gate_to_choi_matrix_with_sparsity s self = gen_to_choi_from_hs_with_sparsity s (attr_composite_system s self) (attr__hs s self) /\
  gen_Gate_to_kraus_matrices s self = call_to_kraus_matrices_from_hs_3 s (attr_composite_system s self) (attr_hs s self) (attr_eps_proj_physical s self) /\
  gen_Gate_to_process_matrix s self = call_to_process_matrix_from_hs_2 s (attr_composite_system s self) (attr_hs s self).
Proof. intros. repeat split; reflexivity. Qed.

(* ================================================================== (2) transported round trips.
   Laws of the primitives (hypotheses; each is what the `tables` sub-check + the Props theorems establish about the real objects):
   the two tables of a pair are mutually inverse as linear maps on the vectors concerned, reshape undoes flatten on an array of that shape,
   the (regenerated) flatten undoes reshape, truncate_hs returns a real array without small entries unchanged, the variable re-packing maps (C03) invert each other. *)
Section RoundTrips.
Context (c : V).
Hypothesis dot_choi : forall v, meth_dot_1 s (attr_basisconjugate_basis_sparse s c) (meth_dot_1 s (attr_basis_basisconjugate_T_sparse s c) v) = v.
Hypothesis dot_vec : forall v, meth_dot_1 s (attr_basisconjugate_sparse s c) (meth_dot_1 s (attr_basis_T_sparse s c) v) = v.
Hypothesis gflatten_reshape : forall x sh, gen_flatten s (meth_reshape_1 s x sh) = x.
Hypothesis mflatten_reshape : forall x sh, meth_flatten_0 s (meth_reshape_1 s x sh) = x.

(* HS -> Choi -> HS through the sparse tables is truncate_hs of the HS matrix itself *)
Theorem gen_hs_choi_hs : forall h e, meth_reshape_1 s (meth_flatten_0 s h) (dim2 c) = h ->
  gen_to_hs_from_choi_with_sparsity s c (gen_to_choi_from_hs_with_sparsity s c h) e = gen_truncate_hs s h e (const_True s).
Proof. intros h e Hr. unfold gen_to_hs_from_choi_with_sparsity, gen_to_choi_from_hs_with_sparsity. cbv zeta.
  fold (dim2 c). rewrite gflatten_reshape, dot_choi, Hr. reflexivity. Qed.

(* var -> Choi -> var (gate.to_choi_from_var / to_var_from_choi) *)
Theorem gen_gate_var_round_trip : forall v p,
  (forall v p, call_convert_hs_to_var_3 s c (call_convert_var_to_hs_3 s c v p) p = v) ->
  meth_reshape_1 s (meth_flatten_0 s (call_convert_var_to_hs_3 s c v p)) (dim2 c) = call_convert_var_to_hs_3 s c v p ->
  gen_truncate_hs s (call_convert_var_to_hs_3 s c v p) (const_None s) (const_True s) = call_convert_var_to_hs_3 s c v p ->
  gen_to_var_from_choi s c (gen_to_choi_from_var s c v p) p = v.
Proof. intros v p Hvar Hr Ht. unfold gen_to_var_from_choi, gen_to_choi_from_var. cbv zeta.
  rewrite (gen_hs_choi_hs _ _ Hr), Ht. apply Hvar. Qed.

(* var -> density matrix -> var (state) *)
Theorem gen_state_var_round_trip : forall v p,
  (forall v p, call_convert_vec_to_var_3 s c (call_convert_var_to_vec_3 s c v p) p = v) ->
  gen_truncate_hs s (call_convert_var_to_vec_3 s c v p) (const_None s) (const_True s) = call_convert_var_to_vec_3 s c v p ->
  gen_to_var_from_density_matrix s c (gen_to_density_matrix_from_var s c v p) p = v.
Proof. intros v p Hvar Ht. unfold gen_to_var_from_density_matrix, gen_to_density_matrix_from_var, gen_to_vec_from_density_matrix_with_sparsity, gen_to_density_matrix_from_vec.
  cbv zeta. rewrite gflatten_reshape, dot_vec, Ht. apply Hvar. Qed.

(* var -> POVM matrices -> var *)
Theorem gen_povm_var_round_trip : forall v p,
  (forall f g xs, list_map s f (list_map s g xs) = list_map s (fun x => f (g x)) xs) ->
  (forall f xs, (forall x, f x = x) -> list_map s f xs = xs) ->
  (forall v p, call_convert_vecs_to_var_3 s c (call_convert_var_to_vecs_3 s c v p) p = v) ->
  (forall x, gen_truncate_hs s x (const_None s) (const_True s) = x) ->
  gen_to_var_from_matrices s c (gen_to_matrices_from_var s c v p) p = v.
Proof. intros v p Hcomp Hid Hvar Ht. unfold gen_to_var_from_matrices, gen_to_matrices_from_var, gen_to_vecs_from_matrices_with_sparsity, gen_to_matrices_from_vecs.
  cbv zeta. rewrite Hcomp. rewrite Hid; [apply Hvar|]. intros x. unfold gen_to_vec_from_matrix_with_sparsity. cbv zeta.
  rewrite mflatten_reshape, dot_vec. apply Ht. Qed.
End RoundTrips.
End Skeleton.

(* ================================================================== (3) the regenerated truncate_hs IS the model.
   Array semantics of the numpy vocabulary that truncate_hs / truncate_imaginary_part / truncate_computational_fluctuation use: complex, real
   and boolean arrays of explicit size as functions; np.max is instantiated as max(0, entries) (its argument here is np.abs(..)). *)
Section Inst.
Context (F : OF) (atol : F).
Inductive val : Type := VNone | VTok | VErr | VBool (b : bool) | VNat (k : nat) | VF (x : F)
  | VC (m n : nat) (A : cmat F) | VR (m n : nat) (A : rmat F) | VB2 (m n : nat) (P : nat -> nat -> bool)
  (* index dispatch of Povm: a POVM object is represented by its list of local outcome counts; tuples / shapes are lists of naturals;
     VView shape base = the sub-array of np.array(range(N)).reshape(..) that remains after some leading indices (row-major: its first entry is base) *)
  | VObj (nums : list nat) | VList (l : list nat) | VShape (l : list nat) | VRange (n : nat) | VArr1 (n : nat) | VView (shape : list nat) (base : nat)
  | VVecs | VElem (k : nat) | VTy (k : nat) | VMp (shape : list nat) | VHss.
Definition prodn (l : list nat) : nat := fold_right Nat.mul 1%nat l.
Fixpoint rowmajor (shape idx : list nat) : nat :=
  match shape, idx with n :: ns, i :: js => (i * prodn ns + rowmajor ns js)%nat | _, _ => 0%nat end.
Definition s_imag v := match v with VC m n A => VR m n (fun i j => im (A i j)) | VR m n _ => VR m n (fun _ _ => c0 F) | _ => VErr end.
Definition s_real v := match v with VC m n A => VR m n (fun i j => re (A i j)) | VR m n A => VR m n A | _ => VErr end.
Definition s_abs v := match v with VR m n A => VR m n (fun i j => kabs (A i j)) | _ => VErr end.
Definition s_npmax v := match v with VR m n A => VF (maxn m (fun i => maxn n (fun j => A i j))) | _ => VErr end.
Definition s_size v := match v with VC m n _ | VR m n _ => VNat (m * n) | _ => VErr end.
Definition s_gt a b := match a, b with VNat x, VNat y => VBool (Nat.ltb y x) | _, _ => VErr end.
Definition s_is a b := match a, b with VNone, VNone => VBool true | _, VNone => VBool false | _, _ => VErr end.
Definition s_eq a b := match a, b with VBool x, VBool y => VBool (Bool.eqb x y) | VTy x, VTy y => VBool (Nat.eqb x y) | _, _ => VErr end.
Definition s_lt a b := match a, b with VR m n A, VF e => VB2 m n (fun i j => kltb (A i j) e) | _, _ => VErr end.
Definition s_ne a b := match a, b with VR m n A, VNat O => VB2 m n (fun i j => negb (keqb F (A i j) (c0 F)))
  | VNat x, VNat y => VBool (negb (Nat.eqb x y)) | _, _ => VErr end.
Definition s_type v := match v with VList _ => VTy 0 | VNat _ => VTy 1 | _ => VErr end.
Definition s_len v := match v with VList l | VShape l => VNat (length l) | _ => VErr end.
Definition s_range v := match v with VNat n => VRange n | _ => VErr end.
Definition s_nparray v := match v with VRange n => VArr1 n | _ => VErr end.
Definition s_reshape a sh := match a, sh with VArr1 n, VShape l => if Nat.eqb (prodn l) n then VView l 0 else VErr | _, _ => VErr end.
Definition s_subscr a i := match a, i with
  | VView (n :: ns) base, VNat k => if Nat.ltb k n then (match ns with [] => VNat (base + k) | _ => VView ns (base + k * prodn ns) end) else VErr
  | VVecs, VNat k => VElem k
  | VHss, VNat k => VElem k
  | _, _ => VErr end.
Definition s_fold (f : val -> val -> val) xs t0 := match xs with VList l => fold_left (fun t i => f t (VNat i)) l t0 | _ => VErr end.
Definition s_num_outcomes v := match v with VObj nums => VNat (prodn nums) | _ => VErr end.      (* invariant of a product POVM: num_outcomes = product of the local counts *)
Definition s_nums v := match v with VObj nums => VShape nums | _ => VErr end.
Definition s_vecs v := match v with VObj _ => VVecs | _ => VErr end.
(* MProcess: represented by its shape; index_util.index_serial_from_index_multi_dimensional (translated and proved row-major by C16) is instantiated as rowmajor *)
Definition s_shape v := match v with VMp sh => VShape sh | _ => VErr end.
Definition s_hss v := match v with VMp _ => VHss | _ => VErr end.
Definition s_serial a b := match a, b with VShape sh, VList idx => VNat (rowmajor sh idx) | _, _ => VErr end.
Definition s_any v := match v with VB2 m n P => VBool (negb (allb m (fun i => allb n (fun j => negb (P i j))))) | _ => VErr end.
Definition s_and a b := match a, b with VBool x, VBool y => VBool (x && y) | _, _ => VErr end.
Definition s_or a b := match a, b with VBool x, VBool y => VBool (x || y) | _, _ => VErr end.
Definition s_mult a b := match a, b with VF x, VF y => VF (cmul F x y) | _, _ => VErr end.
Definition s_max a b := match a, b with VF x, VF y => VF (kmax x y) | _, _ => VErr end.
Definition s_ite c x y := match c with VBool true => x | VBool false => y | _ => VErr end.
Definition s_where c x y := match c, x, y with
  | VB2 m n P, VR _ _ X, VC _ _ Y => VC m n (fun i j => if P i j then zof (X i j) else Y i j)
  | VB2 m n P, VR _ _ X, VR _ _ Y => VR m n (fun i j => if P i j then X i j else Y i j)
  | VB2 m n P, VF x, VR _ _ Y => VR m n (fun i j => if P i j then x else Y i j)
  | _, _, _ => VErr end.
Definition S : sym val :=
  {|
     attr_T := (fun _ => VErr);
     attr__hs := (fun _ => VErr);
     attr__num_outcomes := s_num_outcomes;
     attr__vec := (fun _ => VErr);
     attr__vecs := s_vecs;
     attr_basis_T_sparse := (fun _ => VErr);
     attr_basis_basisconjugate_T_sparse := (fun _ => VErr);
     attr_basisconjugate_basis_sparse := (fun _ => VErr);
     attr_basisconjugate_sparse := (fun _ => VErr);
     attr_composite_system := (fun _ => VErr);
     attr_dim := (fun _ => VErr);
     attr_eps_proj_physical := (fun _ => VErr);
     attr_hs := (fun _ => VErr);
     attr_hss := s_hss;
     attr_imag := s_imag;
     attr_nums_local_outcomes := s_nums;
     attr_real := s_real;
     attr_shape := s_shape;
     attr_vec := (fun _ => VErr);
     attr_vecs := (fun _ => VErr);
     builtin_tuple := (VTy 0);
     call_Settings_get_atol_0 := (VF atol);
     call_convert_hs_to_var_3 := (fun _ _ _ => VErr);
     call_convert_var_to_hs_3 := (fun _ _ _ => VErr);
     call_convert_var_to_vec_3 := (fun _ _ _ => VErr);
     call_convert_var_to_vecs_3 := (fun _ _ _ => VErr);
     call_convert_vec_to_var_3 := (fun _ _ _ => VErr);
     call_convert_vecs_to_var_3 := (fun _ _ _ => VErr);
     call_gate_to_choi_from_hs_2 := (fun _ _ => VErr);
     call_gate_to_choi_from_hs_with_dict_2 := (fun _ _ => VErr);
     call_gate_to_kraus_matrices_from_hs_2 := (fun _ _ => VErr);
     call_gate_to_process_matrix_from_hs_2 := (fun _ _ => VErr);
     call_index_serial_from_index_multi_dimensional_2 := s_serial;
     call_int_1 := (fun _ => VErr);
     call_len_1 := s_len;
     call_max_2 := s_max;
     call_mutil_vdot_2 := (fun _ _ => VErr);
     call_np_abs_1 := s_abs;
     call_np_any_1 := s_any;
     call_np_array_1 := s_nparray;
     call_np_max_1 := s_npmax;
     call_np_real_1 := s_real;
     call_np_size_1 := s_size;
     call_np_sqrt_1 := (fun _ => VErr);
     call_np_where_3 := s_where;
     call_range_1 := s_range;
     call_to_choi_from_hs_2 := (fun _ _ => VErr);
     call_to_choi_from_hs_with_dict_2 := (fun _ _ => VErr);
     call_to_kraus_matrices_from_hs_3 := (fun _ _ _ => VErr);
     call_to_process_matrix_from_hs_2 := (fun _ _ => VErr);
     call_type_1 := s_type;
     call_vdot_2 := (fun _ _ => VErr);
     cmp_Eq := s_eq;
     cmp_Gt := s_gt;
     cmp_Is := s_is;
     cmp_Lt := s_lt;
     cmp_NotEq := s_ne;
     const_None := VNone;
     const_True := (VBool true);
     const_float_0_0 := (VF (c0 F));
     const_float_1_0 := (VF (c1 F));
     const_int_0 := (VNat 0);
     const_int_1 := VErr;
     const_int_2 := (VNat 2);
     ite := s_ite;
     list_fold := s_fold;
     list_map := (fun _ _ => VErr);
     list_map_product := (fun _ _ _ => VErr);
     meth_astype_1 := (fun x _ => x);
     meth_basis_0 := (fun _ => VErr);
     meth_comp_basis_1__mode := (fun _ _ => VErr);
     meth_conj_0 := (fun _ => VErr);
     meth_dot_1 := (fun _ _ => VErr);
     meth_flatten_0 := (fun _ => VErr);
     meth_reshape_1 := s_reshape;
     meth_reshape_2 := (fun _ _ _ => VErr);
     meth_toarray_0 := (fun _ => VErr);
     mod_np_float64 := VTok;
     mod_sparse_csc_matrix := VTok;
     mod_sparse_csr_matrix := VTok;
     op_And := s_and;
     op_MatMult := (fun _ _ => VErr);
     op_Mult := s_mult;
     op_Or := s_or;
     op_Pow := (fun _ _ => VErr);
     raise_ValueError := VErr;
     subscr := s_subscr;
     tuple2 := (fun _ _ => VErr)
  |}.

Lemma maxn_zeros n : maxn (F := F) n (fun _ => c0 F) = c0 F.
Proof. induction n as [|n IH]; cbn [maxn]; [reflexivity|]. rewrite IH. unfold kmax. now destruct (kleb F (c0 F) (c0 F)). Qed.
Lemma size_empty m n (H : cmat F) : Nat.ltb 0 (m * n) = false -> hs_size m n H = c0 F.
Proof. intros E. apply Nat.ltb_ge in E. unfold hs_size. destruct n as [|n]; [exact (maxn_zeros m)|].
  destruct m as [|m]; [reflexivity|]. cbn in E; lia. Qed.
Lemma allb_ext' n (p q : nat -> bool) : (forall i, (i < n)%nat -> p i = q i) -> allb n p = allb n q.
Proof. induction n as [|n IH]; intros E; cbn [allb]; [reflexivity|]. rewrite IH by (intros i Hi; apply E; lia). rewrite E by lia. reflexivity. Qed.
Lemma keqb_refl (x : F) : keqb F x x = true. Proof. now apply keqb_spec. Qed.

Definition tmp_of (thr : F) (H : cmat F) : cmat F := fun i j => if kltb (kabs (im (H i j))) thr then zof (re (H i j)) else H i j.
Lemma tmp_re thr H i j : re (tmp_of thr H i j) = re (H i j).
Proof. unfold tmp_of. now destruct (kltb (kabs (im (H i j))) thr). Qed.
Lemma tmp_ok thr H i j : negb (negb (keqb F (im (tmp_of thr H i j)) (c0 F))) = trunc_ok thr (H i j).
Proof. unfold tmp_of, trunc_ok. rewrite negb_involutive. destruct (kltb (kabs (im (H i j))) thr); cbn [orb]; [apply keqb_refl|reflexivity]. Qed.

(* the value every run of the regenerated truncate_hs reduces to, for a complex m x n array, an explicit eps and is_zero_imaginary_part_required = True *)
Lemma gen_truncate_hs_value m n (H : cmat F) eps :
  gen_truncate_hs S (VC m n H) (VF eps) (VBool true) =
  (let thr := im_thr eps (hs_size m n H) in
   if allb m (fun i => allb n (fun j => trunc_ok thr (H i j)))
   then VR m n (fun i j => if kltb (kabs (re (tmp_of thr H i j))) eps then c0 F else re (tmp_of thr H i j)) else VErr).
Proof. cbv zeta. unfold gen_truncate_hs, gen_truncate_imaginary_part, gen_truncate_computational_fluctuation. cbv zeta.
  cbn [S ite cmp_Is const_None call_Settings_get_atol_0 cmp_Gt call_np_size_1 const_int_0 call_np_max_1 call_np_abs_1 call_np_real_1 const_float_0_0
       op_Mult call_max_2 const_float_1_0 call_np_where_3 cmp_Lt attr_imag attr_real op_And cmp_Eq const_True call_np_any_1 cmp_NotEq raise_ValueError
       meth_astype_1 mod_np_float64 s_ite s_is s_gt s_size s_npmax s_abs s_real s_imag s_mult s_max s_where s_lt s_and s_eq s_any s_ne Bool.eqb andb].
  assert (Sz : (if Nat.ltb 0 (m * n) then VF (maxn m (fun i => maxn n (fun j => kabs (re (H i j))))) else VF (c0 F)) = VF (hs_size m n H)).
  { destruct (Nat.ltb 0 (m * n)) eqn:E; [reflexivity|]. now rewrite (size_empty m n H E). }
  rewrite Sz. cbn [s_mult s_max]. fold (im_thr eps (hs_size m n H)). set (thr := im_thr eps (hs_size m n H)).
  cbn [s_ite s_is s_where s_lt s_abs s_imag s_real s_and s_eq s_any s_ne Bool.eqb andb]. fold (tmp_of thr H).
  rewrite (allb_ext' m _ (fun i => allb n (fun j => trunc_ok thr (H i j)))).
  2:{ intros i _. apply allb_ext'. intros j _. apply tmp_ok. }
  destruct (allb m (fun i => allb n (fun j => trunc_ok thr (H i j)))); cbn [negb s_ite s_where s_lt s_abs s_real]; reflexivity. Qed.

Theorem gen_truncate_hs_is_model : forall m n (H : cmat F) eps,
  match truncate_hs eps m n H with
  | None => gen_truncate_hs S (VC m n H) (VF eps) (VBool true) = VErr
  | Some R => exists R', gen_truncate_hs S (VC m n H) (VF eps) (VBool true) = VR m n R' /\ meq m n R' R
  end.
Proof. intros m n H eps. rewrite gen_truncate_hs_value. unfold truncate_hs. cbv zeta.
  destruct (allb m (fun i => allb n (fun j => trunc_ok (im_thr eps (hs_size m n H)) (H i j)))); [|reflexivity].
  eexists. split; [reflexivity|]. intros i j _ _. cbv beta. rewrite tmp_re. reflexivity. Qed.

(* ------------------------------------------------------------------ Povm index dispatch: the regenerated code computes the ROW-MAJOR serial index *)
Lemma fold_view : forall idx shape base, Forall2 lt idx shape -> shape <> [] ->
  fold_left (fun t i => s_subscr t (VNat i)) idx (VView shape base) = VNat (base + rowmajor shape idx).
Proof. intros idx shape base H. revert base. induction H as [|i n js ns Hi Hr IH]; intros base Hne; [congruence|].
  cbn [fold_left s_subscr rowmajor]. apply Nat.ltb_lt in Hi. rewrite Hi. destruct ns as [|n' ns'].
  - inversion Hr; subst. cbn [fold_left prodn fold_right rowmajor]. f_equal. lia.
  - rewrite IH by congruence. f_equal. lia. Qed.
Lemma forall2_len (idx nums : list nat) : Forall2 lt idx nums -> length idx = length nums.
Proof. intros H. induction H; cbn; congruence. Qed.
(* tuple index of the right length, every component in range: element number  sum_k x_k * prod_{j>k} n_j  of _vecs *)
Theorem gen_povm_vec_tuple_row_major : forall nums idx, Forall2 lt idx nums -> nums <> [] ->
  gen_Povm__md_index2serial_index S (VObj nums) (VList idx) = VNat (rowmajor nums idx) /\
  gen_Povm_vec S (VObj nums) (VList idx) = VElem (rowmajor nums idx).
Proof. intros nums idx H Hne.
  assert (E : gen_Povm__md_index2serial_index S (VObj nums) (VList idx) = VNat (rowmajor nums idx)).
  { unfold gen_Povm__md_index2serial_index. cbv zeta.
    cbn [S list_fold subscr meth_reshape_1 call_np_array_1 call_range_1 attr__num_outcomes attr_nums_local_outcomes s_fold s_reshape s_nparray s_range s_num_outcomes s_nums].
    rewrite Nat.eqb_refl. now rewrite (fold_view idx nums 0 H Hne). }
  split; [exact E|]. unfold gen_Povm_vec. rewrite E.
  cbn [S ite cmp_Eq call_type_1 builtin_tuple cmp_NotEq call_len_1 attr_nums_local_outcomes raise_ValueError subscr attr__vecs s_ite s_eq s_type s_ne s_len s_nums s_vecs s_subscr Nat.eqb].
  rewrite (forall2_len _ _ H), Nat.eqb_refl. reflexivity. Qed.
(* tuple of the wrong length: ValueError; integer index: _vecs[index] *)
Theorem gen_povm_vec_other_indices : forall nums,
  (forall idx, length idx <> length nums -> gen_Povm_vec S (VObj nums) (VList idx) = VErr) /\
  (forall k, gen_Povm_vec S (VObj nums) (VNat k) = VElem k).
Proof. intros nums. split.
  - intros idx Hl. unfold gen_Povm_vec.
    cbn [S ite cmp_Eq call_type_1 builtin_tuple cmp_NotEq call_len_1 attr_nums_local_outcomes raise_ValueError s_ite s_eq s_type s_ne s_len s_nums Nat.eqb].
    apply Nat.eqb_neq in Hl. rewrite Hl. reflexivity.
  - intros k. reflexivity. Qed.

(* the instantiation of index_util.index_serial_from_index_multi_dimensional used above (rowmajor) IS C16's model of that function
   (Model/IndexUtil.serial_from_multi, which C16 regenerates from index_util.py and proves equal on every run) on natural-number arguments *)
Lemma prodn_prodz l : Z.of_nat (prodn l) = QV.Proofs.IndexUtil.prodz (map Z.of_nat l).
Proof. induction l as [|n t IH]; [reflexivity|]. cbn [prodn fold_right map QV.Proofs.IndexUtil.prodz]. fold (prodn t). rewrite Nat2Z.inj_mul, IH. reflexivity. Qed.
Lemma rowmajor_row_major shape : forall idx, Z.of_nat (rowmajor shape idx) = QV.Proofs.IndexUtil.row_major (map Z.of_nat shape) (map Z.of_nat idx).
Proof. induction shape as [|n t IH]; intros [|x xs]; try reflexivity. cbn [rowmajor map QV.Proofs.IndexUtil.row_major].
  rewrite Nat2Z.inj_add, Nat2Z.inj_mul, prodn_prodz, IH. reflexivity. Qed.
Theorem rowmajor_is_index_util_model : forall shape idx, length shape = length idx ->
  QV.Model.IndexUtil.serial_from_multi (map Z.of_nat shape) (map Z.of_nat idx) = Some (Z.of_nat (rowmajor shape idx)).
Proof. intros shape idx Hl. rewrite QV.Proofs.IndexUtil.serial_from_multi_row_major by (now rewrite !map_length).
  now rewrite rowmajor_row_major. Qed.

(* MProcess.hs: a tuple of the right length selects hss[row-major serial index], a tuple of another length raises ValueError, an integer selects hss[k] *)
Theorem gen_mprocess_hs_dispatch : forall shape,
  (forall idx, length idx = length shape -> gen_MProcess_hs S (VMp shape) (VList idx) = VElem (rowmajor shape idx)) /\
  (forall idx, length idx <> length shape -> gen_MProcess_hs S (VMp shape) (VList idx) = VErr) /\
  (forall k, gen_MProcess_hs S (VMp shape) (VNat k) = VElem k).
Proof. intros shape. split; [|split].
  - intros idx Hl. unfold gen_MProcess_hs.
    cbn [S ite cmp_Eq call_type_1 builtin_tuple cmp_NotEq call_len_1 attr_shape raise_ValueError subscr attr_hss call_index_serial_from_index_multi_dimensional_2
         s_ite s_eq s_type s_ne s_len s_shape s_hss s_serial s_subscr Nat.eqb].
    rewrite Hl, Nat.eqb_refl. reflexivity.
  - intros idx Hl. unfold gen_MProcess_hs.
    cbn [S ite cmp_Eq call_type_1 builtin_tuple cmp_NotEq call_len_1 attr_shape raise_ValueError s_ite s_eq s_type s_ne s_len s_shape Nat.eqb].
    apply Nat.eqb_neq in Hl. rewrite Hl. reflexivity.
  - intros k. reflexivity. Qed.

(* eps_truncate_imaginary_part = None: Settings.get_atol() is used for BOTH thresholds *)
Theorem gen_truncate_hs_default_eps : forall m n (H : cmat F),
  gen_truncate_hs S (VC m n H) VNone (VBool true) = gen_truncate_hs S (VC m n H) (VF atol) (VBool true).
Proof. intros. reflexivity. Qed.
End Inst.

Print Assumptions gen_skeleton_truncate.
Print Assumptions gen_skeleton_state.
Print Assumptions gen_skeleton_povm.
Print Assumptions gen_skeleton_povm_index.
Print Assumptions gen_skeleton_mprocess.
Print Assumptions gen_mprocess_choi_variants_agree.
Print Assumptions gen_skeleton_convert.
Print Assumptions gen_skeleton_gate.
Print Assumptions gen_hs_choi_hs.
Print Assumptions gen_gate_var_round_trip.
Print Assumptions gen_state_var_round_trip.
Print Assumptions gen_povm_var_round_trip.
Print Assumptions gen_truncate_hs_is_model.
Print Assumptions gen_povm_vec_tuple_row_major.
Print Assumptions gen_povm_vec_other_indices.
Print Assumptions rowmajor_is_index_util_model.
Print Assumptions gen_mprocess_hs_dispatch.
Print Assumptions gen_truncate_hs_default_eps.
