(* C05 — the regenerated text of QOperation.calc_proj_physical_with_var equals the model loop (Model/C05_Dykstra.v)
   for every mode_proj_order, threshold, fuel, history flag, input and pair of projection functions.
   Re-checked on every run against Gen_c05_dykstra.v (regenerated from /repo by gen/c05_py2coq.py). *)
From Coq Require Import List Arith Bool String ZArith Lia.
From QV.Core Require Import OF Sums Mat.
From QV.Model Require Import C05_Dykstra C05_PySem.
From QV.Proofs Require Import C05_Dykstra C05_PySem.
From QVGen Require Import Gen_c05_dykstra C05_EquivBase.
Import ListNotations.
Local Open Scope string_scope.

Section Var.
Context (F : OF) (n : nat).
Notation vec := (@vec F).
Context (Peq Pineq : vec -> vec) (conv_in : vec) (conv_out : vec -> vec) (mode : string) (eps : F).
Notation orc := (orc F Peq Pineq conv_in conv_out).
Notation sattr := (sattr F mode eps).
Notation PA := (PA F Peq Pineq). Notation PB := (PB F Peq Pineq).
Notation LV := (LV F). Notation fp := (fp F). Notation fq := (fq F). Notation fx := (fx F). Notation fy := (fy F). Notation fe := (fe F).
Notation idv := (idv F).
(* local variables by POSITION (i-th local in the order of first assignment, aliases emitted by the translator):
   renaming a local variable in the source does not touch these proofs *)
Notation K_p_prev := gen_calc_proj_physical_with_var__L1 (only parsing).
Notation K_q_prev := gen_calc_proj_physical_with_var__L2 (only parsing).
Notation K_x_prev := gen_calc_proj_physical_with_var__L3 (only parsing).
Notation K_y_prev := gen_calc_proj_physical_with_var__L4 (only parsing).
Notation K_p_next := gen_calc_proj_physical_with_var__L5 (only parsing).
Notation K_x_next := gen_calc_proj_physical_with_var__L6 (only parsing).
Notation K_q_next := gen_calc_proj_physical_with_var__L7 (only parsing).
Notation K_y_next := gen_calc_proj_physical_with_var__L8 (only parsing).
Notation K_ps := gen_calc_proj_physical_with_var__L9 (only parsing).
Notation K_qs := gen_calc_proj_physical_with_var__L10 (only parsing).
Notation K_xs := gen_calc_proj_physical_with_var__L11 (only parsing).
Notation K_ys := gen_calc_proj_physical_with_var__L12 (only parsing).
Notation K_error_values := gen_calc_proj_physical_with_var__L13 (only parsing).
Notation K_is_stopping := gen_calc_proj_physical_with_var__L14 (only parsing).
Notation K_k := gen_calc_proj_physical_with_var__L15 (only parsing).
Notation K_error_value := gen_calc_proj_physical_with_var__L16 (only parsing).

(* the frame at the entry of a sweep >= 1: `next` variables hold the state s, the history lists hold h / er *)
Definition Ev (hist : bool) (mi : Z) (isstop errv kv brk pp qp xp yp : val F) (s : dstate F)
    (h : list (dstate F)) (er : list (option F)) : env F :=
  upd K_is_stopping isstop (upd K_error_value errv (upd K_k kv (upd N_break brk
  (upd K_p_prev pp (upd K_q_prev qp (upd K_x_prev xp (upd K_y_prev yp
  (upd K_p_next (VVec (sp s)) (upd K_q_next (VVec (sq s)) (upd K_x_next (VVec (sx s)) (upd K_y_next (VVec (sy s))
  (upd K_ps (LV hist (map fp h)) (upd K_qs (LV hist (map fq h)) (upd K_xs (LV hist (map fx h)) (upd K_ys (LV hist (fy h))
  (upd K_error_values (LV hist (map fe er))
  (upd N_is_iteration_history (VBool hist) (upd N_max_iteration (VInt mi)
  (upd N_self (VStr "<self>") (upd N_var (VStr "<var>") (upd N_on_para_eq_constraint (VStr "<on_para_eq_constraint>")
  (@env0 F)))))))))))))))))))))).
(* the frame just before the loop *)
Definition E0 (hist : bool) (mi : Z) : env F :=
  upd N_break (VBool false) (upd K_is_stopping (VBool false)
  (upd K_p_prev (VVec vzero) (upd K_q_prev (VVec vzero) (upd K_x_prev (VVec conv_in) (upd K_y_prev VNone
  (upd K_p_next VNone (upd K_q_next VNone (upd K_x_next VNone (upd K_y_next VNone
  (upd K_ps (LV hist [VVec vzero]) (upd K_qs (LV hist [VVec vzero]) (upd K_xs (LV hist [VVec conv_in]) (upd K_ys (LV hist [VNone])
  (upd K_error_values (LV hist [])
  (upd N_is_iteration_history (VBool hist) (upd N_max_iteration (VInt mi)
  (upd N_self (VStr "<self>") (upd N_var (VStr "<var>") (upd N_on_para_eq_constraint (VStr "<on_para_eq_constraint>")
  (@env0 F)))))))))))))))))))).

Notation vvars := (gen_calc_proj_physical_with_var__vars).
Notation vbody := (gen_calc_proj_physical_with_var__loop_body F n orc sattr).

Ltac evv t := eval lazy [upd restrict Pos.eqb N_err N_printed N_break N_ret String.eqb Ascii.eqb Bool.eqb andb env0 empty raise
                v_add v_sub v_mul v_pow2 v_npsum v_npdot v_is_none v_is_not_none v_and v_or v_append v_unpack
                List.length Nat.eqb List.nth C05_EquivBase.sattr C05_EquivBase.orc is_tok Ev E0 C05_EquivBase.LV
                gen_calc_proj_physical_with_var__vars] in t.
Ltac lookups := lazy [restrict gen_calc_proj_physical_with_var__vars upd Pos.eqb N_err N_printed N_break N_ret String.eqb Ascii.eqb Bool.eqb andb Ev E0 C05_EquivBase.LV env0 empty
                     C05_EquivBase.sattr C05_EquivBase.orc is_tok].
(* case split on a boolean flag at the statement that first tests it *)
Ltac split_flag := match goal with |- context [s_if (VBool ?c) _ _ _] => is_var c; destruct c end.

Lemma vbody_S : forall (b hist : bool) mi k s h er pp qp xp yp errv kv, String.eqb mode "eq_ineq" = b -> h <> [] ->
  let s' := step F idv (PA b) (PB b) (S k) s in
  let stop := ltb F (br F n s s') eps in
  restrict vvars (vbody (upd K_k (VInt (Z.of_nat (S k))) (restrict vvars (Ev hist mi (VBool false) errv kv (VBool false) pp qp xp yp s h er))))
  = restrict vvars (Ev hist mi (VBool stop) (VNum (br F n s s')) (VInt (Z.of_nat (S k))) (VBool stop)
                       (VVec (sp s)) (VVec (sq s)) (VVec (sx s)) (VVec (sy s)) s' (h ++ [s'])%list (er ++ [Some (br F n s s')])%list).
Proof. intros b hist mi k s h er pp qp xp yp errv kv Hb Hh s' stop.
  assert (Hm : v_eq (VStr mode) (@VStr F "eq_ineq") = VBool b) by (unfold v_eq; now rewrite Hb).
  pose proof (fy_app F h s' Hh) as Hfy. subst stop.
  destruct hist, b; destruct (ltb F (br F n s s') eps) eqn:Hstop;
  ( match goal with |- restrict _ (gen_calc_proj_physical_with_var__loop_body _ _ _ _ ?E) = _ =>
    eassert (Hrun : vbody E = _) by
      ( unfold gen_calc_proj_physical_with_var__loop_body;
        py_run evv ltac:(rewrite ?Hm, ?(v_ge_1_S F k), ?gen_is_satisfied_vectors_equiv;
                         repeat match goal with |- context [br F n ?A ?B] =>
                           lazymatch A with s => fail | _ => change (br F n A B) with (br F n s s') end end;
                         rewrite ?Hstop) ltac:(fail) ) end;
    rewrite Hrun; clear Hrun;
    unfold gen_calc_proj_physical_with_var__vars;
    py_frames_eq ltac:(lookups; rewrite ?map_app, ?Hfy; reflexivity) ).
Qed.

(* the loop from sweep S k on, by induction on the remaining fuel *)
Lemma vloop : forall (b hist : bool) mi, String.eqb mode "eq_ineq" = b ->
  forall fuel k s h er pp qp xp yp errv, h <> [] ->
  exists pp' qp' xp' yp' errv' brk',
  for_range vvars K_k fuel (S k) vbody
    (restrict vvars (Ev hist mi (VBool false) errv (VInt (Z.of_nat k)) (VBool false) pp qp xp yp s h er))
  = restrict vvars (Ev hist mi (VBool (r_stopped (loop F n idv (PA b) (PB b) eps fuel (S k) s h er))) errv'
                       (VInt (Z.of_nat (pred (r_steps (loop F n idv (PA b) (PB b) eps fuel (S k) s h er))))) brk' pp' qp' xp' yp'
                       (r_final (loop F n idv (PA b) (PB b) eps fuel (S k) s h er))
                       (r_hist (loop F n idv (PA b) (PB b) eps fuel (S k) s h er))
                       (r_errs (loop F n idv (PA b) (PB b) eps fuel (S k) s h er))).
Proof. intros b hist mi Hb fuel. induction fuel as [|f IH]; intros k s h er pp qp xp yp errv Hh.
  - exists pp, qp, xp, yp, errv, (VBool false). reflexivity.
  - rewrite for_range_S, (vbody_S b hist mi k s h er pp qp xp yp errv _ Hb Hh).
    cbn [loop Nat.leb].
    set (s' := step F idv (PA b) (PB b) (S k) s). set (stop := ltb F (br F n s s') eps).
    match goal with |- context [restrict ?vs ?E N_break] =>
      change (restrict vs E N_break) with (@VBool F stop) end.
    destruct stop.
    + do 6 eexists. cbn [r_stopped r_steps r_final r_hist r_errs pred]. reflexivity.
    + apply IH. intros G. apply app_eq_nil in G. destruct G as [_ G]. discriminate. Qed.

(* the first sweep (k = 0: nothing to shift, no stopping test) *)
Lemma vfirst : forall (b hist : bool) mi, String.eqb mode "eq_ineq" = b ->
  let s0 := init F idv conv_in in
  let s1 := step F idv (PA b) (PB b) 0 s0 in
  restrict vvars (vbody (upd K_k (VInt (Z.of_nat 0)) (restrict vvars (E0 hist mi))))
  = restrict vvars (Ev hist mi (VBool false) VNone (VInt (Z.of_nat 0)) (VBool false)
                       (VVec vzero) (VVec vzero) (VVec conv_in) VNone s1 [s0; s1] [None]).
Proof. intros b hist mi Hb s0 s1.
  assert (Hm : v_eq (VStr mode) (@VStr F "eq_ineq") = VBool b) by (unfold v_eq; now rewrite Hb).
  destruct hist, b;
  ( match goal with |- restrict _ (gen_calc_proj_physical_with_var__loop_body _ _ _ _ ?E) = _ =>
      eassert (Hrun : vbody E = _) by
        ( unfold gen_calc_proj_physical_with_var__loop_body;
          py_run evv ltac:(rewrite ?Hm, ?(v_ge_1_0 F)) ltac:(fail) ) end;
    rewrite Hrun; clear Hrun;
    unfold gen_calc_proj_physical_with_var__vars;
    py_frames_eq ltac:(lookups; lazy [C05_EquivBase.fy C05_EquivBase.fp C05_EquivBase.fq C05_EquivBase.fx C05_EquivBase.fe map tl]; reflexivity) ).
Qed.

Theorem gen_with_var_equiv : forall (hist : bool) (max_iter : nat),
  let b := String.eqb mode "eq_ineq" in
  let e := gen_calc_proj_physical_with_var F n orc sattr (VStr "<self>") (VStr "<var>") (VStr "<on_para_eq_constraint>")
             (VInt (Z.of_nat max_iter)) (VBool hist) in
  match run_mode F n idv (fun _ => Peq) (fun _ => Pineq) b eps max_iter conv_in with
  | None => e N_err = VBool true
  | Some r =>
      e N_err = VBool false /\ e N_printed = VBool (warned F max_iter r) /\
      e N_ret = (if hist
                  then VTuple [VVec (conv_out (sx (r_final r)));
                               VDict [("p", VList (map fp (r_hist r))); ("q", VList (map fq (r_hist r)));
                                      ("x", VList (map fx (r_hist r))); ("y", VList (fy (r_hist r)));
                                      ("error_value", VList (map fe (r_errs r)))]]
                  else VVec (conv_out (sx (r_final r))))
  end.
Proof. intros hist max_iter b e. subst e.
  unfold gen_calc_proj_physical_with_var.
  destruct max_iter as [|f].
  - cbn [run_mode run_dykstra].
    destruct hist;
    ( match goal with |- context [gen_calc_proj_physical_with_var__body _ _ _ _ ?vs ?E] =>
        eassert (Hrun : gen_calc_proj_physical_with_var__body F n orc sattr vs E = _) by
          ( unfold gen_calc_proj_physical_with_var__body;
            py_run evv ltac:(rewrite ?v_eq_unbound)
                   ltac:(unfold s_for; cbn [Z.to_nat Z.of_nat for_range]; reflexivity) ) end;
      rewrite Hrun; lookups; reflexivity ).
  - cbn [run_mode run_dykstra loop Nat.leb app]. fold (PA b) (PB b).
    set (s0 := init F idv conv_in). set (s1 := step F idv (PA b) (PB b) 0 s0).
    assert (Hb : String.eqb mode "eq_ineq" = b) by reflexivity. clearbody b.
    pose proof (loop_steps_ge F n idv (PA b) (PB b) eps f 1 s1 [s0; s1] [None]) as Hst.
    destruct (vloop b hist (Z.of_nat (S f)) Hb f 0 s1 [s0; s1] [None] (VVec vzero) (VVec vzero) (VVec conv_in) VNone VNone
                ltac:(discriminate)) as (pp' & qp' & xp' & yp' & errv' & brk' & Hl).
    pose proof (vfirst b hist (Z.of_nat (S f)) Hb) as Hf. cbv zeta in Hf. fold s0 s1 in Hf.
    assert (H0 : forall E, restrict vvars E = restrict vvars (E0 hist (Z.of_nat (S f))) ->
                 for_range vvars K_k (S f) 0 vbody (restrict vvars E)
                 = restrict vvars (Ev hist (Z.of_nat (S f)) (VBool (r_stopped (loop F n idv (PA b) (PB b) eps f 1 s1 [s0; s1] [None]))) errv'
                       (VInt (Z.of_nat (pred (r_steps (loop F n idv (PA b) (PB b) eps f 1 s1 [s0; s1] [None]))))) brk' pp' qp' xp' yp'
                       (r_final (loop F n idv (PA b) (PB b) eps f 1 s1 [s0; s1] [None]))
                       (r_hist (loop F n idv (PA b) (PB b) eps f 1 s1 [s0; s1] [None]))
                       (r_errs (loop F n idv (PA b) (PB b) eps f 1 s1 [s0; s1] [None])))).
    { intros E HE. rewrite for_range_S, HE, Hf.
      match goal with |- context [restrict ?vs ?E' N_break] => change (restrict vs E' N_break) with (@VBool F false) end.
      cbv iota. exact Hl. }
    clear Hl Hf. unfold warned.
    destruct hist; destruct (Nat.eqb (r_steps (loop F n idv (PA b) (PB b) eps f 1 s1 [s0; s1] [None])) (S f)) eqn:Hw;
    ( match goal with |- context [gen_calc_proj_physical_with_var__body _ _ _ _ ?vs ?E] =>
        eassert (Hrun : gen_calc_proj_physical_with_var__body F n orc sattr vs E = _) by
          ( unfold gen_calc_proj_physical_with_var__body;
            py_run evv ltac:(rewrite ?v_eq_int, ?(warn_test _ f Hst), ?Hw)
                   ltac:(unfold s_for; rewrite Nat2Z.id; apply H0; unfold gen_calc_proj_physical_with_var__vars;
                         py_frames_eq ltac:(lookups; reflexivity)) ) end;
      rewrite Hrun; (split; [|split]); lookups; reflexivity ).
Qed.
End Var.
Print Assumptions gen_with_var_equiv.
