(* Re-checked on every run against the definitions REGENERATED (gen/c09_var_py2coq.py) from the current source of
     quara/objects/mprocess.py  convert_var_to_hss      quara/objects/povm.py  convert_var_to_vecs
   (the functions behind generate_from_var of an estimated measurement process / POVM).  The regenerated index logic equals
   the hand-written models ref_hss_stacked / ref_vecs_stacked of Model/C09_VarSem.v for EVERY number of outcomes and every
   dimension; Proofs/C09_VarMaps.v proves about those models that the variables are kept and the omitted components are
   exactly the ones fixed by the equality constraint.  A wrong stride, offset, insertion position, block size or sign in
   the source breaks these proofs (seeded change C09-9 is of this kind). *)
From Coq Require Import ZArith List Bool Arith Lia.
From QV.Core Require Import OF.
From QV.Model Require Import C09_VarSem.
From QV.Proofs Require Import C09_VarMaps.
From QVGen Require Import Gen_c09_var.
Import ListNotations.

Section E.
Context (F : OF).

Lemma fold_first_rows (d2 hs : nat) (var : list F) : forall k,
  fold_left (fun acc x => vadd_l acc (sl var (hs * x) (hs * x + d2))) (seq 0 k) (np_zeros d2) = first_rows_sum d2 hs k var.
Proof. induction k as [|k IH]; [reflexivity|]. rewrite seq_S, fold_left_app, IH. reflexivity. Qed.

(* measurement process, constraint parametrised away: for every dim and every var *)
Theorem gen_convert_var_to_hss_para_eq : forall (dim : nat) (var : list F),
  let d2 := Nat.pow dim 2 in let m := (length var / (d2 * d2) + 1)%nat in
  gen_convert_var_to_hss dim var true = chunk (d2 * d2) m (ref_hss_stacked d2 m var).
Proof. intros dim var d2 m. unfold gen_convert_var_to_hss. cbv zeta. fold d2. fold m.
  rewrite (fold_first_rows d2 (d2 * d2) var (m - 1)). reflexivity. Qed.

(* constraint kept: the blocks of var itself *)
Theorem gen_convert_var_to_hss_full_eq : forall (dim : nat) (var : list F),
  let d2 := Nat.pow dim 2 in
  gen_convert_var_to_hss dim var false = chunk (d2 * d2) (length var / (d2 * d2)) var.
Proof. intros dim var d2. reflexivity. Qed.

(* POVM, constraint parametrised away (var consists of k whole elements) *)
Theorem gen_convert_var_to_vecs_para_eq : forall (dim : nat) (sd : F) (var : list F) (k : nat),
  let d2 := Nat.pow dim 2 in (0 < d2)%nat -> length var = (d2 * k)%nat ->
  gen_convert_var_to_vecs dim sd var true = chunk d2 (k + 1) (ref_vecs_stacked d2 (k + 1) sd var).
Proof. intros dim sd var k d2 Hd Hl. unfold gen_convert_var_to_vecs. cbv zeta. fold d2.
  assert (E : (length var / d2 = k)%nat) by (rewrite Hl, Nat.mul_comm; now apply Nat.div_mul, Nat.neq_0_lt_0).
  rewrite E. replace (k + 1 - 1)%nat with k by lia. unfold ref_vecs_stacked. replace (k + 1 - 1)%nat with k by lia.
  now rewrite (concat_chunk F d2 k var Hl). Qed.

Theorem gen_convert_var_to_vecs_full_eq : forall (dim : nat) (sd : F) (var : list F),
  let d2 := Nat.pow dim 2 in
  gen_convert_var_to_vecs dim sd var false = chunk d2 (length var / d2) var.
Proof. intros dim sd var d2. reflexivity. Qed.

(* transported: the regenerated measurement-process expansion keeps the variables and satisfies the equality constraint *)
Theorem gen_convert_var_to_hss_constraint : forall (dim : nat) (var : list F) (m : nat),
  let d2 := Nat.pow dim 2 in (0 < d2)%nat -> (1 <= m)%nat -> length var = (d2 * d2 * (m - 1) + (d2 * d2 - d2))%nat ->
  let r := concat (gen_convert_var_to_hss dim var true) in
  length r = (d2 * d2 * m)%nat /\
  firstn (d2 * d2 * (m - 1)) r ++ skipn (d2 * d2 * (m - 1) + d2) r = var /\
  first_rows_sum d2 (d2 * d2) m r = e0 d2.
Proof. intros dim var m d2 Hd Hm Hl r. subst r. rewrite gen_convert_var_to_hss_para_eq. fold d2. clearbody d2.
  assert (E : (length var / (d2 * d2) + 1 = m)%nat).
  { rewrite Hl. assert (HX : (0 < d2 * d2)%nat) by (apply Nat.mul_pos_pos; assumption).
    assert (Hle : (d2 <= d2 * d2)%nat) by nia. set (X := (d2 * d2)%nat) in *.
    rewrite <- (Nat.div_unique (X * (m - 1) + (X - d2)) X (m - 1) (X - d2)); [lia|lia|reflexivity]. }
  rewrite E. pose proof (ref_hss_spec F d2 m var Hd Hm Hl) as [H1 [H2 H3]].
  rewrite (concat_chunk F (d2 * d2) m _ H1). auto. Qed.
(* transported: the regenerated POVM expansion keeps the variables and its elements add up to sd e_0 *)
Theorem gen_convert_var_to_vecs_constraint : forall (dim : nat) (sd : F) (var : list F) (k : nat),
  let d2 := Nat.pow dim 2 in (0 < d2)%nat -> length var = (d2 * k)%nat ->
  let els := gen_convert_var_to_vecs dim sd var true in
  length (concat els) = (d2 * (k + 1))%nat /\ firstn (d2 * k) (concat els) = var /\
  sum_axis0 d2 els = sd :: np_zeros (d2 - 1).
Proof. intros dim sd var k d2 Hd Hl els. subst els. rewrite (gen_convert_var_to_vecs_para_eq dim sd var k Hd Hl). fold d2.
  pose proof (ref_vecs_spec F d2 k sd var Hd Hl) as [H1 [H2 H3]]. cbv zeta in *.
  rewrite (concat_chunk F d2 (k + 1) _ H1). auto. Qed.
End E.

Print Assumptions gen_convert_var_to_hss_para_eq.
Print Assumptions gen_convert_var_to_hss_full_eq.
Print Assumptions gen_convert_var_to_vecs_para_eq.
Print Assumptions gen_convert_var_to_vecs_full_eq.
Print Assumptions gen_convert_var_to_hss_constraint.
Print Assumptions gen_convert_var_to_vecs_constraint.
