(* Re-checked on every run against the model REGENERATED from /repo's index_util.py:
   the generated functions equal the hand-written model, hence the C16 theorems hold for them. *)
From Coq Require Import ZArith List Bool Lia.
From QV.Model Require Import IndexUtil.
From QV.Proofs Require Import IndexUtil.
From QVGen Require Import Gen_index_util.
Import ListNotations.
Local Open Scope Z_scope.

Lemma gen_multi_fold l : forall acc acc' k, acc' = rev acc ->
  let r := fold_left (fun '(a, t) len => (a ++ [t mod len], t / len)) l (acc, k) in
  fold_left multi_step l (acc', k) = (rev (fst r), snd r).
Proof. induction l as [|x l IH]; intros acc acc' k E; cbn.
  - now rewrite E.
  - apply IH. rewrite rev_app_distr. cbn. now rewrite E. Qed.

Theorem gen_multi_from_serial_eq : forall shape k, gen_multi_from_serial shape k = multi_from_serial shape k.
Proof. intros shape k. unfold gen_multi_from_serial, multi_from_serial.
  rewrite (gen_multi_fold (rev shape) [] [] k eq_refl). cbn [fst].
  set (G := fold_left _ _ _). destruct G as [a t]. reflexivity. Qed.
Print Assumptions gen_multi_from_serial_eq.

Lemma fold_left_ext {A B} (f g : A -> B -> A) : (forall a b, f a b = g a b) ->
  forall l i, fold_left f l i = fold_left g l i.
Proof. intros H l. induction l as [|x l IH]; intros i; cbn; [reflexivity|]. now rewrite H, IH. Qed.

Theorem gen_serial_from_multi_eq : forall shape idx, gen_serial_from_multi shape idx = serial_from_multi shape idx.
Proof. intros shape idx. unfold gen_serial_from_multi, serial_from_multi.
  destruct (Nat.eqb_spec (length shape) (length idx)) as [E|E].
  - rewrite E, Z.eqb_refl. cbn [negb].
    erewrite (fold_left_ext _ serial_step) by (intros [s t] [l i]; reflexivity).
    destruct (fold_left serial_step (rev (combine shape idx)) (0, 1)) as [s t]. reflexivity.
  - replace (Z.of_nat (length shape) =? Z.of_nat (length idx)) with false by (symmetry; apply Z.eqb_neq; lia).
    reflexivity. Qed.
Print Assumptions gen_serial_from_multi_eq.

(* the property theorems, transported to the regenerated functions *)
Theorem gen_serial_multi_inverse : forall shape k,
  positive_shape shape -> (0 <= k < prodz shape) ->
  in_range shape (gen_multi_from_serial shape k) /\
  gen_serial_from_multi shape (gen_multi_from_serial shape k) = Some k.
Proof. intros shape k. rewrite gen_multi_from_serial_eq, gen_serial_from_multi_eq. apply serial_multi_inverse. Qed.
Print Assumptions gen_serial_multi_inverse.

Theorem gen_multi_serial_inverse : forall shape idx, in_range shape idx ->
  exists k, gen_serial_from_multi shape idx = Some k /\ (0 <= k < prodz shape) /\
            k = row_major shape idx /\ gen_multi_from_serial shape k = idx.
Proof. intros shape idx H. destruct (multi_serial_inverse shape idx H) as [k Hk]. exists k.
  now rewrite gen_multi_from_serial_eq, gen_serial_from_multi_eq. Qed.
Print Assumptions gen_multi_serial_inverse.
