(* C17 — thorough tier: the regenerated name parser on ALL 39 204 catalogued 2-qutrit gate names (see coq/gen/C17_Equiv.v). Axiom-free. *)
From Coq Require Import String Ascii List ZArith QArith Qcanon Bool Arith Lia.
From QV.Core Require Import OF Sums Mat C17_Z8.
From QV.Model Require Import C17_Tables C17_Names C17_PySem C17_Permute.
From QV.Proofs Require Import C17_Tables C17_Names.
From QVGen Require Import Gen_c17_names C17_Equiv.
Import ListNotations.
Open Scope string_scope.

Theorem C17gen_2qutrit_names_parse :
  forall name terms, In (name, terms) cat_gates_2qutrit -> gen_ham2 name = POk (VMat 9 (map expected_term terms)).
Proof. intros name terms H.
  assert (A : forallb (fun e : string * list (nat * nat * nat) => is_mat (gen_ham2 (fst e)) 9 (map expected_term (snd e))) cat_gates_2qutrit = true)
    by (vm_cast_no_check (@eq_refl bool true)).
  rewrite forallb_forall in A. specialize (A _ H). now apply is_mat_spec. Qed.
Print Assumptions C17gen_2qutrit_names_parse.

Theorem C17gen_2qutrit_names_denote_tables :
  forall name terms, In (name, terms) cat_gates_2qutrit ->
    exists fm, gen_ham2 name = POk (VMat 9 fm) /\ meq 9 9 (denote4 g_method_table fm) (ham2t terms).
Proof. intros name terms H. exists (map expected_term terms). split; [now apply C17gen_2qutrit_names_parse|].
  apply denote4_expected; [exact C17gen_base_matrices_are_tables|]. now apply (cat_2qutrit_terms_good name). Qed.
Print Assumptions C17gen_2qutrit_names_denote_tables.

(* four pairwise different ids below 5 (120 lists), all 256 symbols *)
Theorem C17gen_permute_pauli_symbol_bounded4 :
  forall ids, In ids (ids_lists 5 4) -> forall v, In v (nprod [0; 1; 2; 3]%nat 4) ->
    is_imat (g_get_permutation_matrix_from_ascending_order (vints ids)) (matP_rows ids) = true /\
    is_str (g_permute_pauli_symbol (VStr (symbol_of v)) (vints ids)) (symbol_of (C17_Permute.permute_fixed ids v)) = true.
Proof. intros ids Hi v Hv.
  assert (A : forallb (fun ids => is_imat (g_get_permutation_matrix_from_ascending_order (vints ids)) (matP_rows ids) &&
                                  forallb (fun v => is_str (g_permute_pauli_symbol (VStr (symbol_of v)) (vints ids)) (symbol_of (C17_Permute.permute_fixed ids v)))
                                         (nprod [0; 1; 2; 3]%nat 4)) (ids_lists 5 4) = true) by (vm_cast_no_check (@eq_refl bool true)).
  rewrite forallb_forall in A. specialize (A ids Hi). rewrite andb_true_iff, forallb_forall in A. split; [apply A|now apply A]. Qed.
Print Assumptions C17gen_permute_pauli_symbol_bounded4.
